(* C09 proofs: the lexer model (Model/Lexer.v) against the vocabulary of Model/LexSpec.v. *)
From Coq Require Import List String Bool Arith NArith ZArith Lia Sorted.
From Yae Require Import Base.Sexp Gen.Generated Model.Lexer Model.LexSpec.
Import ListNotations.
Open Scope N_scope.

(* ------------------------------------------------------------------------------------------------------------ *)
(* basics                                                                                                       *)

Lemma list_eqb_eq : forall a b, list_eqb a b = true <-> a = b.
Proof.
  induction a as [|x a IH]; intros [|y b]; simpl; split; intro H; try reflexivity; try discriminate.
  - apply andb_true_iff in H. destruct H as [H1 H2]. apply N.eqb_eq in H1. apply IH in H2. subst. reflexivity.
  - inversion H; subst. rewrite N.eqb_refl. simpl. apply IH. reflexivity.
Qed.

Lemma mem_op_In : forall k ops, mem_op k ops = true <-> In k ops.
Proof.
  intros k ops. unfold mem_op. rewrite existsb_exists. split.
  - intros [x [Hin He]]. apply list_eqb_eq in He. subst. exact Hin.
  - intro Hin. exists k. split; [exact Hin|]. apply list_eqb_eq. reflexivity.
Qed.

Lemma strip_prefix_app : forall p s r, strip_prefix p s = Some r -> s = (p ++ r)%list.
Proof.
  induction p as [|x p IH]; intros s r H; simpl in H.
  - inversion H. reflexivity.
  - destruct s as [|y t]; [discriminate|]. destruct (N.eqb x y) eqn:E; [|discriminate].
    apply N.eqb_eq in E. subst y. simpl. f_equal. apply IH. exact H.
Qed.

Lemma strip_prefix_app_intro : forall p r, strip_prefix p (p ++ r) = Some r.
Proof.
  induction p as [|x p IH]; intro r; simpl; [reflexivity|]. rewrite N.eqb_refl. apply IH.
Qed.

Lemma skipn_app_len : forall (p r : list N), skipn (len p) (p ++ r) = r.
Proof. induction p as [|x p IH]; intro r; simpl; [reflexivity|apply IH]. Qed.

Lemma firstn_app_len : forall (p r : list N), firstn (len p) (p ++ r) = p.
Proof. induction p as [|x p IH]; intro r; simpl; [reflexivity|f_equal; apply IH]. Qed.

(* ------------------------------------------------------------------------------------------------------------ *)
(* cursor                                                                                                       *)

Lemma move_over_gen : forall l i ln col,
  move_over (mkCur i ln col) l = mkCur (i + N.of_nat (len l)) (ln + count_nl l) (since_nl l col).
Proof.
  induction l as [|x l IH]; intros i ln col.
  - unfold move_over, count_nl. simpl. f_equal; lia.
  - change (move_over (mkCur i ln col) (x :: l)) with (move_over (move (mkCur i ln col) x) l).
    unfold move, count_nl, len in *. cbn [c_idx c_line c_col since_nl filter List.length].
    rewrite (N.eqb_sym 10 x).
    destruct (N.eqb x 10) eqn:E; rewrite IH; cbn [List.length]; rewrite ?Nat2N.inj_succ; f_equal; lia.
Qed.

Lemma cursor_meaning : forall l,
  move_over (mkCur 0 0 0) l = mkCur (N.of_nat (len l)) (count_nl l) (since_nl l 0).
Proof. intro l. rewrite move_over_gen. f_equal. Qed.

Lemma move_over_idx : forall l c, c_idx (move_over c l) = c_idx c + N.of_nat (len l).
Proof. intros l [i ln col]. rewrite move_over_gen. reflexivity. Qed.

Lemma move_over_app : forall a b c, move_over c (a ++ b) = move_over (move_over c a) b.
Proof. intros. unfold move_over. apply fold_left_app. Qed.

(* ------------------------------------------------------------------------------------------------------------ *)
(* first_match                                                                                                  *)

Lemma first_match_app : forall a b s,
  first_match (a ++ b) s = match first_match a s with Some x => Some x | None => first_match b s end.
Proof.
  induction a as [|r a IH]; intros b s; simpl; [reflexivity|].
  destruct (rule_match r s); [reflexivity|apply IH].
Qed.

Lemma first_match_none : forall rs s r, first_match rs s = None -> In r rs -> rule_match r s = None.
Proof.
  induction rs as [|x rs IH]; intros s r H Hin; simpl in *; [contradiction|].
  destruct (rule_match x s) eqn:E; [discriminate|]. destruct Hin as [->|Hin]; [exact E|]. eapply IH; eauto.
Qed.

Lemma first_match_none_intro : forall rs s, (forall r, In r rs -> rule_match r s = None) -> first_match rs s = None.
Proof.
  induction rs as [|x rs IH]; intros s H; simpl; [reflexivity|].
  rewrite (H x (or_introl eq_refl)). apply IH. intros r Hr. apply H. right. exact Hr.
Qed.

Lemma first_match_some : forall rs s k n, first_match rs s = Some (k, n) ->
  exists r, In r rs /\ rule_kind r = k /\ rule_match r s = Some n.
Proof.
  induction rs as [|x rs IH]; intros s k n H; simpl in *; [discriminate|].
  destruct (rule_match x s) eqn:E.
  - inversion H; subst. exists x. auto.
  - destruct (IH _ _ _ H) as [r [Hin Hr]]. exists r. auto.
Qed.

(* ------------------------------------------------------------------------------------------------------------ *)
(* sort_ops                                                                                                     *)

Section Sort.
  Context {X : Type} (key : X -> nat).

  Lemma insert_In : forall x y l, In y (insert_by_len key x l) <-> y = x \/ In y l.
  Proof.
    induction l as [|z l IH]; simpl.
    - intuition.
    - destruct (Nat.leb (key z) (key x)); simpl; [intuition|]. rewrite IH. intuition.
  Qed.

  Lemma sort_In : forall y l, In y (sort_ops key l) <-> In y l.
  Proof.
    induction l as [|z l IH]; simpl; [reflexivity|].
    unfold sort_ops in *. rewrite insert_In. rewrite IH. intuition.
  Qed.

  Definition ge_key (a b : X) : Prop := (key b <= key a)%nat.

  Lemma insert_sorted : forall x l, StronglySorted ge_key l -> StronglySorted ge_key (insert_by_len key x l).
  Proof.
    induction l as [|z l IH]; intro H; simpl.
    - constructor; constructor.
    - inversion H as [|? ? Hs Hf]; subst. destruct (Nat.leb (key z) (key x)) eqn:E.
      + apply Nat.leb_le in E. constructor; [exact H|]. constructor; [unfold ge_key; lia|].
        rewrite Forall_forall in *. intros w Hw. specialize (Hf w Hw). unfold ge_key in *. lia.
      + apply Nat.leb_gt in E. constructor; [apply IH; exact Hs|].
        rewrite Forall_forall in *. intros w Hw. apply insert_In in Hw.
        destruct Hw as [->|Hw]; [unfold ge_key; lia|auto].
  Qed.

  Lemma sort_sorted : forall l, StronglySorted ge_key (sort_ops key l).
  Proof.
    induction l as [|z l IH]; simpl; [constructor|]. apply insert_sorted. exact IH.
  Qed.
End Sort.

Lemma rule_kind_oper : forall k, rule_kind (oper_rule k) = k.
Proof. intro k. unfold oper_rule. destruct (is_ident_op k); reflexivity. Qed.

(* ------------------------------------------------------------------------------------------------------------ *)
(* the lexicon in four parts                                                                                    *)

Definition fixed_rules : list rule := map RStr [[58]; [44]; [40]; [41]; [91]; [93]; [123]; [125]].
Definition prim_rules : list rule := map RPrim (sort_ops byte_len [[46]; [63]]).
Lemma In_prim_rules : forall r, In r prim_rules -> r = RPrim [46] \/ r = RPrim [63].
Proof.
  intros r H. unfold prim_rules in H. apply in_map_iff in H. destruct H as [k [<- Hk]].
  apply (proj1 (sort_In byte_len _ _)) in Hk. simpl in Hk. destruct Hk as [<-|[<-|[]]]; auto.
Qed.
Definition tail_rules : list rule :=
  [RKeyword K_TRUE; RKeyword K_FALSE;
   RRegex K_NUM m_float1; RRegex K_NUM m_float2; RRegex K_NUM m_bin; RRegex K_NUM m_hex; RRegex K_NUM m_oct;
   RRegex K_NUM m_dec; RRegex K_STR m_dqstr; RRegex K_STR m_raw; RRegex K_TIME m_time; RRegex K_SYM m_sym].

Lemma lexicon_parts : forall ops,
  lexicon ops = (fixed_rules ++ prim_rules ++ map oper_rule (sort_ops byte_len ops) ++ tail_rules)%list.
Proof.
  intro ops. unfold lexicon, fixed_rules, prim_rules, tail_rules. reflexivity.
Qed.

Lemma In_lexicon : forall ops r, In r (lexicon ops) ->
  In r fixed_rules \/ In r prim_rules \/ (exists k, In k ops /\ r = oper_rule k) \/ In r tail_rules.
Proof.
  intros ops r H. rewrite lexicon_parts in H.
  apply in_app_or in H. destruct H as [H|H]; [auto|].
  apply in_app_or in H. destruct H as [H|H]; [auto|].
  apply in_app_or in H. destruct H as [H|H]; [|auto].
  right; right; left. apply in_map_iff in H. destruct H as [k [He Hk]]. exists k. split; [|auto].
  apply (proj1 (sort_In byte_len _ _)) in Hk. exact Hk.
Qed.

(* ------------------------------------------------------------------------------------------------------------ *)
(* whole words, prims                                                                                           *)

Lemma match_keyword_spec : forall k s n, match_keyword k s = Some n ->
  n = len k /\ match skipn n s with c :: _ => is_id_char c = false | [] => True end.
Proof.
  intros k s n H. unfold match_keyword in H. destruct (strip_prefix k s) as [r|] eqn:E; [|discriminate].
  apply strip_prefix_app in E. subst s. destruct r as [|c r].
  - inversion H; subst. split; [reflexivity|]. rewrite skipn_app_len. exact I.
  - destruct (is_id_char c) eqn:Ec; [discriminate|]. inversion H; subst. split; [reflexivity|].
    rewrite skipn_app_len. exact Ec.
Qed.

Lemma match_prim_spec : forall k s n, match_prim k s = Some n ->
  n = len k /\ match skipn n s with c :: _ => is_oper_char c = false | [] => True end.
Proof.
  intros k s n H. unfold match_prim in H. destruct (strip_prefix k s) as [r|] eqn:E; [|discriminate].
  apply strip_prefix_app in E. subst s. destruct r as [|c r].
  - inversion H; subst. split; [reflexivity|]. rewrite skipn_app_len. exact I.
  - destruct (is_oper_char c) eqn:Ec; [discriminate|]. inversion H; subst. split; [reflexivity|].
    rewrite skipn_app_len. exact Ec.
Qed.

Lemma whole_word : forall ops s k n,
  ops_wf ops = true ->
  first_match (lexicon ops) s = Some (k, n) ->
  is_ident_op k = true -> (mem_op k ops = true \/ k = K_TRUE \/ k = K_FALSE) ->
  n = len k /\ match skipn n s with c :: _ => is_id_char c = false | [] => True end.
Proof.
  intros ops s k n _ Hfm Hid _.
  apply first_match_some in Hfm. destruct Hfm as [r [Hin [Hk Hm]]].
  apply In_lexicon in Hin. destruct Hin as [Hin|[Hin|[[k0 [Hk0 ->]]|Hin]]].
  - simpl in Hin. repeat (destruct Hin as [<-|Hin]; [simpl in Hk; subst k; vm_compute in Hid; discriminate|]).
    contradiction.
  - apply In_prim_rules in Hin. destruct Hin as [->| ->]; simpl in Hk; subst k; vm_compute in Hid; discriminate.
  - rewrite rule_kind_oper in Hk. subst k0. unfold oper_rule in Hm. rewrite Hid in Hm. simpl in Hm.
    apply match_keyword_spec. exact Hm.
  - simpl in Hin.
    destruct Hin as [<-|Hin]; [simpl in Hk; subst k; simpl in Hm; apply match_keyword_spec; exact Hm|].
    destruct Hin as [<-|Hin]; [simpl in Hk; subst k; simpl in Hm; apply match_keyword_spec; exact Hm|].
    repeat (destruct Hin as [<-|Hin]; [simpl in Hk; subst k; vm_compute in Hid; discriminate|]).
    contradiction.
Qed.

Lemma prim_not_split : forall ops s k n,
  ops_wf ops = true -> mem_op [46] ops = false -> mem_op [63] ops = false ->
  first_match (lexicon ops) s = Some (k, n) -> (k = [46] \/ k = [63]) ->
  n = 1%nat /\ match skipn 1 s with c :: _ => is_oper_char c = false | [] => True end.
Proof.
  intros ops s k n _ Hdot Hq Hfm Hk.
  apply first_match_some in Hfm. destruct Hfm as [r [Hin [Hrk Hm]]].
  apply In_lexicon in Hin. destruct Hin as [Hin|[Hin|[[k0 [Hk0 ->]]|Hin]]].
  - simpl in Hin.
    repeat (destruct Hin as [<-|Hin]; [simpl in Hrk; subst k; destruct Hk as [Hk|Hk]; discriminate Hk|]).
    contradiction.
  - apply In_prim_rules in Hin. destruct Hin as [->| ->]; simpl in Hm; apply match_prim_spec in Hm;
      destruct Hm as [-> Hm]; split; try reflexivity; exact Hm.
  - rewrite rule_kind_oper in Hrk. subst k0. apply mem_op_In in Hk0.
    destruct Hk as [->| ->]; congruence.
  - simpl in Hin.
    repeat (destruct Hin as [<-|Hin]; [simpl in Hrk; subst k; destruct Hk as [Hk|Hk]; discriminate Hk|]).
    contradiction.
Qed.

(* ------------------------------------------------------------------------------------------------------------ *)
(* every rule consumes between 1 and length-of-input runes                                                      *)

Lemma span_len : forall p l n t, span p l = (n, t) -> List.length l = (n + List.length t)%nat.
Proof.
  induction l as [|c r IH]; intros n t H; cbn [span] in H.
  - inversion H; subst. reflexivity.
  - destruct (p c).
    + destruct (span p r) as [n' t'] eqn:E. inversion H; subst. cbn [List.length]. rewrite (IH _ _ eq_refl). lia.
    + inversion H; subst. reflexivity.
Qed.

Definition step_ok (f : list N -> option (nat * list N)) : Prop :=
  forall l n t, f l = Some (n, t) -> List.length l = (n + List.length t)%nat.

Lemma m_int_ok : step_ok m_int.
Proof.
  intros l n t H. unfold m_int in H. destruct l as [|c r]; [discriminate|].
  destruct (N.eqb c 48).
  - inversion H; subst. reflexivity.
  - destruct (N.leb 49 c && N.leb c 57); [|discriminate].
    destruct (span is_digit r) as [n' t'] eqn:E. inversion H; subst. cbn [List.length].
    rewrite (span_len _ _ _ _ E). lia.
Qed.

Lemma m_frac_ok : step_ok m_frac.
Proof.
  intros l n t H. unfold m_frac in H. destruct l as [|c r]; [discriminate|].
  destruct (N.eqb c 46); [|discriminate].
  destruct (span is_digit r) as [n' t'] eqn:E. destruct n' as [|n']; [discriminate|].
  inversion H; subst. cbn [List.length]. rewrite (span_len _ _ _ _ E). lia.
Qed.

Lemma m_exp_ok : step_ok m_exp.
Proof.
  intros l n t H. unfold m_exp in H. destruct l as [|c r]; [discriminate|].
  destruct (N.eqb c 101 || N.eqb c 69); [|discriminate].
  destruct r as [|d r'].
  - cbn [span] in H. discriminate.
  - destruct (N.eqb d 45 || N.eqb d 43).
    + destruct (span is_digit r') as [n' t'] eqn:E. destruct n' as [|n']; [discriminate|].
      inversion H; subst. cbn [List.length]. rewrite (span_len _ _ _ _ E). lia.
    + destruct (span is_digit (d :: r')) as [n' t'] eqn:E. destruct n' as [|n']; [discriminate|].
      inversion H; subst. cbn [List.length]. apply span_len in E. cbn [List.length] in E. lia.
Qed.

Lemma star_ok : forall step, step_ok step -> forall fuel l n t,
  star step fuel l = (n, t) -> List.length l = (n + List.length t)%nat.
Proof.
  intros step Hs. induction fuel as [|f IH]; intros l n t H; cbn [star] in H.
  - inversion H; subst. reflexivity.
  - destruct (step l) as [[n1 t1]|] eqn:E.
    + destruct (star step f t1) as [m u] eqn:E2. inversion H; subst.
      rewrite (Hs _ _ _ E). rewrite (IH _ _ _ E2). lia.
    + inversion H; subst. reflexivity.
Qed.

Definition matcher_ok (m : list N -> option nat) : Prop := forall l n, m l = Some n -> (n <= List.length l)%nat.

Lemma m_float1_ok : matcher_ok m_float1.
Proof.
  intros l n H. unfold m_float1 in H.
  destruct (m_int l) as [[n0 r0]|] eqn:E0; [|discriminate].
  destruct (m_frac r0) as [[n1 r1]|] eqn:E1; [|discriminate].
  destruct (star m_frac (len r1) r1) as [n2 r2] eqn:E2.
  apply m_int_ok in E0. apply m_frac_ok in E1. apply (star_ok _ m_frac_ok) in E2.
  destruct (m_exp r2) as [[n3 r3]|] eqn:E3.
  - apply m_exp_ok in E3. inversion H; subst. lia.
  - inversion H; subst. lia.
Qed.

Lemma m_float2_ok : matcher_ok m_float2.
Proof.
  intros l n H. unfold m_float2 in H.
  destruct (m_int l) as [[n0 r0]|] eqn:E0; [|discriminate]. apply m_int_ok in E0.
  assert (Hf : exists n1 r1, (match m_frac r0 with Some (n, t) => (n, t) | None => (O, r0) end) = (n1, r1)
                              /\ List.length r0 = (n1 + List.length r1)%nat).
  { destruct (m_frac r0) as [[n1 r1]|] eqn:E1.
    - exists n1, r1. split; [reflexivity|]. apply m_frac_ok in E1. exact E1.
    - exists O, r0. split; reflexivity. }
  destruct Hf as [n1 [r1 [Hf Hl]]]. rewrite Hf in H.
  destruct (m_exp r1) as [[n2 r2]|] eqn:E2; [|discriminate]. apply m_exp_ok in E2.
  destruct (star m_exp (len r2) r2) as [n3 r3] eqn:E3. apply (star_ok _ m_exp_ok) in E3.
  inversion H; subst. lia.
Qed.

Lemma m_radix_ok : forall letter first rest, matcher_ok (m_radix letter first rest).
Proof.
  intros letter first rest l n H. unfold m_radix in H.
  destruct l as [|z [|x [|c r]]]; try discriminate.
  destruct (N.eqb z 48 && N.eqb x letter); [|discriminate].
  destruct (N.eqb c 48).
  - inversion H; subst. cbn [List.length]. lia.
  - destruct (first c); [|discriminate]. destruct (span rest r) as [n' t'] eqn:E.
    apply span_len in E. inversion H; subst. cbn [List.length]. lia.
Qed.

Lemma m_dec_ok : matcher_ok m_dec.
Proof.
  intros l n H. unfold m_dec in H. destruct (m_int l) as [[n0 r0]|] eqn:E0; [|discriminate].
  apply m_int_ok in E0. simpl in H. inversion H; subst. lia.
Qed.

Lemma m_str_body_ok_aux : forall m l, (List.length l <= m)%nat -> forall n, m_str_body l = Some n -> (n <= List.length l)%nat.
Proof.
  induction m as [|m IH]; intros l Hl n H.
  - destruct l; [discriminate|]. cbn [List.length] in Hl. lia.
  - destruct l as [|c r]; [discriminate|]. cbn [m_str_body] in H. cbn [List.length] in *.
    destruct (N.eqb c 34); [inversion H; subst; lia|].
    destruct (N.eqb c 92).
    + destruct r as [|e r']; [discriminate|]. cbn [List.length] in *.
      destruct (is_simple_escape e).
      * destruct (m_str_body r') as [n'|] eqn:E; [|discriminate]. apply IH in E; [|lia].
        simpl in H. inversion H; subst. lia.
      * destruct (N.eqb e 117); [|discriminate].
        destruct r' as [|h1 [|h2 [|h3 [|h4 r4]]]]; try discriminate. cbn [List.length] in *.
        destruct (is_hex h1 && is_hex h2 && is_hex h3 && is_hex h4); [|discriminate].
        destruct (m_str_body r4) as [n'|] eqn:E; [|discriminate]. apply IH in E; [|lia].
        simpl in H. inversion H; subst. lia.
    + destruct (m_str_body r) as [n'|] eqn:E; [|discriminate]. apply IH in E; [|lia].
      simpl in H. inversion H; subst. lia.
Qed.

Lemma m_dqstr_ok : matcher_ok m_dqstr.
Proof.
  intros l n H. unfold m_dqstr in H. destruct l as [|c r]; [discriminate|].
  destruct (N.eqb c 34); [|discriminate].
  destruct (m_str_body r) as [n'|] eqn:E; [|discriminate].
  apply (m_str_body_ok_aux _ _ (le_n _)) in E. simpl in H. inversion H; subst. cbn [List.length]. lia.
Qed.

Lemma m_delim_ok : forall o stop cl, matcher_ok (m_delim o stop cl).
Proof.
  intros o stop cl l n H. unfold m_delim in H. destruct l as [|c r]; [discriminate|].
  destruct (N.eqb c o); [|discriminate].
  destruct (span (fun x => negb (stop x)) r) as [n' t] eqn:E. apply span_len in E.
  destruct t as [|d t']; [discriminate|]. destruct (N.eqb d cl); [|discriminate].
  inversion H; subst. cbn [List.length] in *. lia.
Qed.

Lemma m_sym_ok : matcher_ok m_sym.
Proof.
  intros l n H. unfold m_sym in H. destruct l as [|c r]; [discriminate|].
  destruct (is_id_start c); [|discriminate].
  destruct (span is_id_char r) as [n' t] eqn:E. apply span_len in E.
  inversion H; subst. cbn [List.length]. lia.
Qed.

Definition rule_ok (r : rule) : Prop := forall s n, rule_match r s = Some n -> (0 < n <= List.length s)%nat.

Lemma strip_prefix_len : forall k s r, strip_prefix k s = Some r -> (len k <= List.length s)%nat.
Proof. intros k s r H. apply strip_prefix_app in H. subst s. rewrite app_length. unfold len. lia. Qed.

Lemma len_pos : forall (k : list N), k <> [] -> (0 < len k)%nat.
Proof. intros [|x k] H; [congruence|]. unfold len. cbn [List.length]. lia. Qed.

Lemma RStr_ok : forall k, k <> [] -> rule_ok (RStr k).
Proof.
  intros k Hk s n H. simpl in H. unfold match_str in H.
  destruct (strip_prefix k s) eqn:E; [|discriminate]. inversion H; subst.
  split; [apply len_pos; exact Hk|eapply strip_prefix_len; eauto].
Qed.

Lemma RKeyword_ok : forall k, k <> [] -> rule_ok (RKeyword k).
Proof.
  intros k Hk s n H. simpl in H. unfold match_keyword in H.
  destruct (strip_prefix k s) as [r|] eqn:E; [|discriminate].
  assert (n = len k) as -> by (destruct r as [|c r]; [|destruct (is_id_char c)]; congruence).
  split; [apply len_pos; exact Hk|eapply strip_prefix_len; eauto].
Qed.

Lemma RPrim_ok : forall k, k <> [] -> rule_ok (RPrim k).
Proof.
  intros k Hk s n H. simpl in H. unfold match_prim in H.
  destruct (strip_prefix k s) as [r|] eqn:E; [|discriminate].
  assert (n = len k) as -> by (destruct r as [|c r]; [|destruct (is_oper_char c)]; congruence).
  split; [apply len_pos; exact Hk|eapply strip_prefix_len; eauto].
Qed.

Lemma RRegex_ok : forall k m, matcher_ok m -> rule_ok (RRegex k m).
Proof.
  intros k m Hm s n H. simpl in H. destruct (m s) as [n'|] eqn:E; [|discriminate].
  apply Hm in E. destruct n' as [|n']; [discriminate|]. inversion H; subst. lia.
Qed.

Lemma op_wf_nonempty : forall k, op_wf k = true -> k <> [].
Proof. intros k H ->. vm_compute in H. discriminate. Qed.

Lemma ops_wf_In : forall ops k, ops_wf ops = true -> In k ops -> op_wf k = true.
Proof. intros ops k H Hin. unfold ops_wf in H. rewrite forallb_forall in H. apply H. exact Hin. Qed.

Lemma lexicon_ok : forall ops, ops_wf ops = true -> forall r, In r (lexicon ops) -> rule_ok r.
Proof.
  intros ops Hwf r Hin. apply In_lexicon in Hin. destruct Hin as [Hin|[Hin|[[k0 [Hk0 ->]]|Hin]]].
  - simpl in Hin. repeat (destruct Hin as [<-|Hin]; [apply RStr_ok; discriminate|]). contradiction.
  - apply In_prim_rules in Hin. destruct Hin as [->| ->]; apply RPrim_ok; discriminate.
  - pose proof (op_wf_nonempty _ (ops_wf_In _ _ Hwf Hk0)) as Hne. unfold oper_rule.
    destruct (is_ident_op k0); [apply RKeyword_ok|apply RStr_ok]; exact Hne.
  - simpl in Hin.
    destruct Hin as [<-|Hin]; [apply RKeyword_ok; discriminate|].
    destruct Hin as [<-|Hin]; [apply RKeyword_ok; discriminate|].
    destruct Hin as [<-|Hin]; [apply RRegex_ok, m_float1_ok|].
    destruct Hin as [<-|Hin]; [apply RRegex_ok, m_float2_ok|].
    destruct Hin as [<-|Hin]; [apply RRegex_ok, m_radix_ok|].
    destruct Hin as [<-|Hin]; [apply RRegex_ok, m_radix_ok|].
    destruct Hin as [<-|Hin]; [apply RRegex_ok, m_radix_ok|].
    destruct Hin as [<-|Hin]; [apply RRegex_ok, m_dec_ok|].
    destruct Hin as [<-|Hin]; [apply RRegex_ok, m_dqstr_ok|].
    destruct Hin as [<-|Hin]; [apply RRegex_ok, m_delim_ok|].
    destruct Hin as [<-|Hin]; [apply RRegex_ok, m_delim_ok|].
    destruct Hin as [<-|Hin]; [apply RRegex_ok, m_sym_ok|].
    contradiction.
Qed.

(* ------------------------------------------------------------------------------------------------------------ *)
(* the loop                                                                                                     *)

Lemma skip_space_spec : forall s c c1 s1, skip_space c s = (c1, s1) ->
  exists ws, s = (ws ++ s1)%list /\ forallb is_space ws = true /\ c1 = move_over c ws /\
             match s1 with x :: _ => is_space x = false | [] => True end.
Proof.
  induction s as [|r t IH]; intros c c1 s1 H; cbn [skip_space] in H.
  - inversion H; subst. exists []. repeat split.
  - destruct (is_space r) eqn:E.
    + destruct (IH _ _ _ H) as [ws [H1 [H2 [H3 H4]]]]. exists (r :: ws). subst t. repeat split.
      * simpl. rewrite E, H2. reflexivity.
      * exact H3.
      * exact H4.
    + inversion H; subst. exists []. repeat split. exact E.
Qed.

Lemma take_move_spec : forall n c s, (n <= List.length s)%nat ->
  take_move n c s = (firstn n s, move_over c (firstn n s), skipn n s).
Proof.
  induction n as [|n IH]; intros c s H.
  - destruct s; reflexivity.
  - destruct s as [|r t]; [cbn [List.length] in H; lia|]. cbn [take_move firstn skipn].
    rewrite IH by (cbn [List.length] in H; lia). reflexivity.
Qed.

Lemma lex_loop_ok : forall rs, (forall r, In r rs -> rule_ok r) ->
  forall fuel c s ts, lex_loop fuel rs c s = Some ts -> tokens_ok c s ts.
Proof.
  intros rs Hrs. induction fuel as [|f IH]; intros c s ts H; cbn [lex_loop] in H; [discriminate|].
  destruct (skip_space c s) as [c1 s1] eqn:Hss.
  apply skip_space_spec in Hss. destruct Hss as [ws [Hs [Hws [Hc1 Hhd]]]].
  destruct s1 as [|x s1'].
  - inversion H; subst. apply tok_nil. rewrite app_nil_r. exact Hws.
  - remember (x :: s1') as s1 eqn:Es1.
    destruct (first_match rs s1) as [[k n]|] eqn:Hfm; [|discriminate].
    destruct (first_match_some _ _ _ _ Hfm) as [r [Hin [_ Hm]]].
    destruct (Hrs r Hin _ _ Hm) as [Hn0 Hn1].
    rewrite (take_move_spec _ _ _ Hn1) in H.
    destruct (lex_loop f rs (move_over c1 (firstn n s1)) (skipn n s1)) as [ts'|] eqn:Hl; [|discriminate].
    inversion H; subst ts. clear H.
    apply tok_cons with (ws := ws) (rest := skipn n s1); cbn [t_lexeme t_idx t_line t_col t_end].
    + rewrite firstn_skipn. exact Hs.
    + exact Hws.
    + intro Hnil. apply (f_equal (@List.length N)) in Hnil. rewrite firstn_length in Hnil.
      cbn [List.length] in Hnil. lia.
    + subst c1. reflexivity.
    + subst c1. reflexivity.
    + subst c1. reflexivity.
    + rewrite move_over_idx. reflexivity.
    + rewrite move_over_app. rewrite <- Hc1. apply IH. exact Hl.
Qed.

Lemma partition : forall ops src ts,
  ops_wf ops = true -> lex ops src = Some ts -> tokens_ok (mkCur 0 0 0) src ts.
Proof.
  intros ops src ts Hwf H. unfold lex in H. eapply lex_loop_ok; [|exact H]. apply lexicon_ok. exact Hwf.
Qed.

Lemma lex_loop_none : forall rs, (forall r, In r rs -> rule_ok r) ->
  forall fuel c s, (List.length s < fuel)%nat -> lex_loop fuel rs c s = None ->
  exists pre rest, s = (pre ++ rest)%list /\ rest <> [] /\
    match rest with c :: _ => is_space c = false | [] => False end /\ first_match rs rest = None.
Proof.
  intros rs Hrs. induction fuel as [|f IH]; intros c s Hlen H; [lia|]. cbn [lex_loop] in H.
  destruct (skip_space c s) as [c1 s1] eqn:Hss.
  apply skip_space_spec in Hss. destruct Hss as [ws [Hs [Hws [Hc1 Hhd]]]].
  destruct s1 as [|x s1']; [discriminate|].
  remember (x :: s1') as s1 eqn:Es1.
  destruct (first_match rs s1) as [[k n]|] eqn:Hfm.
  - destruct (first_match_some _ _ _ _ Hfm) as [r [Hin [_ Hm]]].
    destruct (Hrs r Hin _ _ Hm) as [Hn0 Hn1].
    rewrite (take_move_spec _ _ _ Hn1) in H.
    destruct (lex_loop f rs (move_over c1 (firstn n s1)) (skipn n s1)) as [ts'|] eqn:Hl; [discriminate|].
    apply IH in Hl.
    + destruct Hl as [pre [rest [Hsk [Hne [Hsp Hno]]]]].
      exists (ws ++ firstn n s1 ++ pre)%list, rest. repeat split; try assumption.
      rewrite <- !app_assoc. rewrite <- Hsk. rewrite firstn_skipn. exact Hs.
    + rewrite skipn_length. subst s. rewrite app_length in Hlen. lia.
  - exists ws, s1. subst s1. repeat split; try assumption. discriminate.
Qed.

Lemma total : forall ops src,
  ops_wf ops = true -> lex ops src = None ->
  exists pre rest, src = (pre ++ rest)%list /\ rest <> [] /\
    match rest with c :: _ => is_space c = false | [] => False end /\ first_match (lexicon ops) rest = None.
Proof.
  intros ops src Hwf H. unfold lex in H. eapply lex_loop_none; [apply lexicon_ok; exact Hwf| |exact H].
  unfold len. lia.
Qed.

(* ------------------------------------------------------------------------------------------------------------ *)
(* longest match among symbolic operators                                                                       *)

Lemma first_match_sorted : forall S s k n k',
  StronglySorted (ge_key byte_len) S ->
  first_match (map oper_rule S) s = Some (k, n) -> In k' S -> (byte_len k < byte_len k')%nat ->
  rule_match (oper_rule k') s = None.
Proof.
  induction S as [|y S IH]; intros s k n k' Hs Hfm Hin Hlt; [contradiction|].
  inversion Hs as [|? ? Hs' Hall]; subst. cbn [map first_match] in Hfm.
  destruct (rule_match (oper_rule y) s) as [n'|] eqn:E.
  - exfalso. rewrite rule_kind_oper in Hfm. inversion Hfm; subst. destruct Hin as [->|Hin]; [lia|].
    rewrite Forall_forall in Hall. specialize (Hall _ Hin). unfold ge_key in Hall. lia.
  - destruct Hin as [<-|Hin]; [exact E|]. eapply IH; eauto.
Qed.

Lemma match_str_none : forall k s, match_str k s = None -> strip_prefix k s = None.
Proof. intros k s H. unfold match_str in H. destruct (strip_prefix k s); [discriminate|reflexivity]. Qed.

Lemma no_punct_start_In : forall ops c r, no_punct_start ops = true -> In (c :: r) ops ->
  existsb (N.eqb c) fixed_punct = false.
Proof.
  intros ops c r H Hin. unfold no_punct_start in H. rewrite forallb_forall in H. specialize (H _ Hin).
  cbv beta iota in H. apply negb_true_iff in H. exact H.
Qed.

Lemma sym_op_chars : forall ops k, ops_wf ops = true -> In k ops -> is_ident_op k = false ->
  forallb is_oper_char k = true.
Proof.
  intros ops k Hwf Hin Hid. pose proof (ops_wf_In _ _ Hwf Hin) as H. unfold op_wf in H.
  rewrite Hid in H. apply andb_true_iff in H. destruct H as [_ H]. exact H.
Qed.

Lemma match_prim_prefix : forall k s n, match_prim k s = Some n ->
  exists r, s = (k ++ r)%list /\ match r with c :: _ => is_oper_char c = false | [] => True end.
Proof.
  intros k s n H. unfold match_prim in H. destruct (strip_prefix k s) as [r|] eqn:E; [|discriminate].
  apply strip_prefix_app in E. exists r. split; [exact E|]. destruct r as [|c r]; [exact I|].
  destruct (is_oper_char c); [discriminate|reflexivity].
Qed.

Lemma longest : forall ops s k n k',
  ops_wf ops = true -> no_punct_start ops = true ->
  first_match (lexicon ops) s = Some (k, n) ->
  mem_op k ops = true -> is_ident_op k = false ->
  mem_op k' ops = true -> is_ident_op k' = false -> (byte_len k < byte_len k')%nat ->
  strip_prefix k' s = None.
Proof.
  intros ops s k n k' Hwf Hnp Hfm Hk Hid Hk' Hid' Hlt.
  apply mem_op_In in Hk. apply mem_op_In in Hk'.
  assert (Hrule : oper_rule k' = RStr k') by (unfold oper_rule; rewrite Hid'; reflexivity).
  assert (Hks : In k' (sort_ops byte_len ops)) by (apply (proj2 (sort_In byte_len _ _)); exact Hk').
  assert (Hgoal : rule_match (oper_rule k') s = None -> strip_prefix k' s = None).
  { intro H. rewrite Hrule in H. simpl in H. apply match_str_none. exact H. }
  rewrite lexicon_parts in Hfm. rewrite !first_match_app in Hfm.
  destruct (first_match fixed_rules s) as [p|] eqn:E1.
  { exfalso. inversion Hfm; subst p. apply first_match_some in E1. destruct E1 as [r [Hin [Hrk _]]].
    simpl in Hin.
    repeat (destruct Hin as [<-|Hin];
            [simpl in Hrk; subst k; apply (no_punct_start_In _ _ _ Hnp) in Hk; vm_compute in Hk; discriminate|]).
    contradiction. }
  destruct (first_match prim_rules s) as [p|] eqn:E2.
  { inversion Hfm; subst p. apply first_match_some in E2. destruct E2 as [r [Hin [Hrk Hm]]].
    destruct (strip_prefix k' s) as [r'|] eqn:Esp; [exfalso|reflexivity].
    apply strip_prefix_app in Esp.
    pose proof (sym_op_chars _ _ Hwf Hk' Hid') as Hoc.
    assert (Hc : exists c, r = RPrim [c]).
    { apply In_prim_rules in Hin. destruct Hin as [->| ->]; eexists; reflexivity. }
    destruct Hc as [c ->]. simpl in Hrk. subst k. simpl in Hm. apply match_prim_prefix in Hm.
    destruct Hm as [r0 [Hs Hm]]. rewrite Hs in Esp.
    destruct k' as [|a [|b k'']].
    - simpl in Hlt. lia.
    - inversion Esp; subst. lia.
    - inversion Esp; subst. cbn [forallb] in Hoc.
      apply andb_true_iff in Hoc. destruct Hoc as [_ Hoc]. apply andb_true_iff in Hoc. destruct Hoc as [Hb _].
      congruence. }
  destruct (first_match (map oper_rule (sort_ops byte_len ops)) s) as [p|] eqn:E3.
  { inversion Hfm; subst p. apply Hgoal.
    eapply first_match_sorted; [apply sort_sorted|exact E3|exact Hks|exact Hlt]. }
  apply Hgoal. eapply first_match_none; [exact E3|]. apply in_map. exact Hks.
Qed.

(* ------------------------------------------------------------------------------------------------------------ *)
(* literals                                                                                                     *)

(* rules that compare a fixed text fail on an input whose first rune differs from the text's first rune *)
Definition head_np (p : N -> bool) (r : rule) : bool :=
  match r with
  | RRegex _ _ => false
  | RStr k | RKeyword k | RPrim k => match k with a :: _ => negb (p a) | [] => false end
  end.

Lemma strip_prefix_head : forall a k c t, N.eqb a c = false -> strip_prefix (a :: k) (c :: t) = None.
Proof. intros a k c t H. cbn [strip_prefix]. rewrite H. reflexivity. Qed.

Lemma head_np_fail : forall p r c t, p c = true -> head_np p r = true -> rule_match r (c :: t) = None.
Proof.
  intros p r c t Hp H.
  assert (Hk : forall k, match k with a :: _ => negb (p a) | [] => false end = true ->
                         strip_prefix k (c :: t) = None).
  { intros [|a k] Hk; [discriminate|]. apply strip_prefix_head. apply negb_true_iff in Hk.
    destruct (N.eqb a c) eqn:E; [|reflexivity]. apply N.eqb_eq in E. subst a. congruence. }
  destruct r as [k|k|k|k m]; simpl in H; [| | |discriminate]; apply Hk in H; simpl;
    [unfold match_str|unfold match_keyword|unfold match_prim]; rewrite H; reflexivity.
Qed.

Lemma heads_fail : forall p rs c t, p c = true -> forallb (head_np p) rs = true -> first_match rs (c :: t) = None.
Proof.
  intros p rs c t Hp H. apply first_match_none_intro. intros r Hr. rewrite forallb_forall in H.
  eapply head_np_fail; eauto.
Qed.

Lemma oper_rule_fail : forall k c t, op_wf k = true -> is_id_start c = false -> is_oper_char c = false ->
  rule_match (oper_rule k) (c :: t) = None.
Proof.
  intros k c t Hwf Hid Hoc. unfold op_wf in Hwf. apply andb_true_iff in Hwf. destruct Hwf as [Hne Hwf].
  destruct k as [|a k]; [discriminate|].
  assert (Ha : N.eqb a c = false).
  { destruct (N.eqb a c) eqn:E; [|reflexivity]. apply N.eqb_eq in E. subst a. exfalso.
    apply orb_true_iff in Hwf. destruct Hwf as [Hwf|Hwf].
    - unfold is_ident_op in Hwf. apply andb_true_iff in Hwf. destruct Hwf as [Hwf _]. congruence.
    - cbn [forallb] in Hwf. apply andb_true_iff in Hwf. destruct Hwf as [Hwf _]. congruence. }
  unfold oper_rule. destruct (is_ident_op (a :: k)); simpl; [unfold match_keyword|unfold match_str];
    rewrite (strip_prefix_head _ _ _ _ Ha); reflexivity.
Qed.

Lemma ops_fail : forall ops c t, ops_wf ops = true -> is_id_start c = false -> is_oper_char c = false ->
  first_match (map oper_rule (sort_ops byte_len ops)) (c :: t) = None.
Proof.
  intros ops c t Hwf Hid Hoc. apply first_match_none_intro. intros r Hr.
  apply in_map_iff in Hr. destruct Hr as [k [<- Hk]]. apply (proj1 (sort_In byte_len _ _)) in Hk.
  apply oper_rule_fail; auto. eapply ops_wf_In; eauto.
Qed.

Lemma not_oper : forall (p : N -> bool) c,
  forallb (fun o => negb (p o)) oper_chars = true -> p c = true -> is_oper_char c = false.
Proof.
  intros p c H Hp. unfold is_oper_char. destruct (existsb (N.eqb c) oper_chars) eqn:E; [|reflexivity].
  apply existsb_exists in E. destruct E as [o [Ho E]]. apply N.eqb_eq in E. subst o.
  rewrite forallb_forall in H. specialize (H _ Ho). rewrite Hp in H. discriminate.
Qed.

Definition kw_rules : list rule := [RKeyword K_TRUE; RKeyword K_FALSE].

(* everything before the regular-expression rules fails on a first rune that is neither an operator character nor
   an identifier start nor the first rune of a fixed text *)
Lemma front_fail : forall ops p c t,
  ops_wf ops = true -> p c = true ->
  forallb (head_np p) (fixed_rules ++ prim_rules ++ kw_rules) = true ->
  forallb (fun o => negb (p o)) oper_chars = true ->
  is_id_start c = false ->
  first_match (lexicon ops) (c :: t) = first_match (skipn 2 tail_rules) (c :: t).
Proof.
  intros ops p c t Hwf Hp Hh Hoc Hid.
  rewrite !forallb_app in Hh. apply andb_true_iff in Hh. destruct Hh as [H1 Hh].
  apply andb_true_iff in Hh. destruct Hh as [H2 H3].
  rewrite lexicon_parts, !first_match_app.
  rewrite (heads_fail p _ c t Hp H1), (heads_fail p _ c t Hp H2).
  rewrite (ops_fail ops c t Hwf Hid (not_oper p c Hoc Hp)).
  change tail_rules with (kw_rules ++ skipn 2 tail_rules)%list. rewrite first_match_app.
  rewrite (heads_fail p _ c t Hp H3). reflexivity.
Qed.

Lemma span_app : forall p a b, forallb p a = true ->
  match b with x :: _ => p x = false | [] => True end -> span p (a ++ b) = (len a, b).
Proof.
  induction a as [|x a IH]; intros b Ha Hb.
  - cbn [app]. destruct b as [|y b]; [reflexivity|]. cbn [span]. rewrite Hb. reflexivity.
  - cbn [forallb] in Ha. apply andb_true_iff in Ha. destruct Ha as [Hx Ha].
    cbn [app span]. rewrite Hx. rewrite (IH _ Ha Hb). reflexivity.
Qed.

(* ---- decimal integers ---- *)

Lemma digit_cases : forall c, is_digit c = true ->
  c = 48 \/ c = 49 \/ c = 50 \/ c = 51 \/ c = 52 \/ c = 53 \/ c = 54 \/ c = 55 \/ c = 56 \/ c = 57.
Proof.
  intros c H. unfold is_digit in H. apply andb_true_iff in H. destruct H as [H1 H2].
  apply N.leb_le in H1. apply N.leb_le in H2. lia.
Qed.

Lemma digit_not_id_start : forall c, is_digit c = true -> is_id_start c = false.
Proof.
  intros c H. apply digit_cases in H.
  repeat (destruct H as [->|H]; [reflexivity|]). subst c. reflexivity.
Qed.

Lemma dec_int_head : forall l, dec_int l = true -> exists c r, l = c :: r /\ is_digit c = true.
Proof.
  intros [|c [|x r]] H; [discriminate| |].
  - exists c, []. split; [reflexivity|exact H].
  - exists c, (x :: r). split; [reflexivity|]. simpl in H. apply andb_true_iff in H. destruct H as [H _].
    unfold is_digit. apply andb_true_iff in H. destruct H as [H1 H2]. apply N.leb_le in H1.
    apply andb_true_iff. split; [apply N.leb_le; lia|exact H2].
Qed.

Section DecInt.
  Variables (l rest : list N).
  Hypothesis Hl : dec_int l = true.
  Hypothesis Hrest :
    match rest with
    | c :: _ => is_digit c = false /\ c <> 46 /\ c <> 101 /\ c <> 69 /\ c <> 98 /\ c <> 120 /\ c <> 111
    | [] => True
    end.

  Lemma rest_not_digit : match rest with x :: _ => is_digit x = false | [] => True end.
  Proof. destruct rest; [exact I|]. apply Hrest. Qed.

  Lemma dec_m_int : m_int (l ++ rest) = Some (len l, rest).
  Proof.
    destruct l as [|c [|x r]] eqn:El; [discriminate| |].
    - cbn [app m_int]. destruct (N.eqb c 48) eqn:E0; [reflexivity|].
      simpl in Hl. assert (Hc : N.leb 49 c && N.leb c 57 = true).
      { unfold is_digit in Hl. apply andb_true_iff in Hl. destruct Hl as [H1 H2].
        apply N.leb_le in H1. apply N.eqb_neq in E0. apply andb_true_iff. split; [apply N.leb_le; lia|exact H2]. }
      rewrite Hc. pose proof (span_app is_digit [] rest eq_refl rest_not_digit) as Hsp. cbn [app] in Hsp.
      rewrite Hsp. reflexivity.
    - cbn [dec_int] in Hl. apply andb_true_iff in Hl. destruct Hl as [Hc Hr].
      change ((c :: x :: r) ++ rest)%list with (c :: ((x :: r) ++ rest))%list. cbn [m_int].
      assert (E0 : N.eqb c 48 = false).
      { apply N.eqb_neq. apply andb_true_iff in Hc. destruct Hc as [H1 _]. apply N.leb_le in H1. lia. }
      rewrite E0, Hc. rewrite (span_app is_digit (x :: r) rest Hr rest_not_digit). reflexivity.
  Qed.

  Lemma rest_m_frac : m_frac rest = None.
  Proof.
    destruct rest as [|c r]; [reflexivity|]. destruct Hrest as [_ [H _]].
    cbn [m_frac]. apply N.eqb_neq in H. rewrite H. reflexivity.
  Qed.

  Lemma rest_m_exp : m_exp rest = None.
  Proof.
    destruct rest as [|c r]; [reflexivity|]. destruct Hrest as [_ [_ [H1 [H2 _]]]].
    cbn [m_exp]. apply N.eqb_neq in H1. apply N.eqb_neq in H2. rewrite H1, H2. reflexivity.
  Qed.

  Lemma dec_float1 : m_float1 (l ++ rest) = None.
  Proof. unfold m_float1. rewrite dec_m_int, rest_m_frac. reflexivity. Qed.

  Lemma dec_float2 : m_float2 (l ++ rest) = None.
  Proof. unfold m_float2. rewrite dec_m_int, rest_m_frac, rest_m_exp. reflexivity. Qed.

  Lemma dec_radix : forall letter f g,
    match rest with c :: _ => c <> letter | [] => True end -> m_radix letter f g (l ++ rest) = None.
  Proof.
    intros letter f g Hle. destruct l as [|c [|x r]] eqn:El; [discriminate| |].
    - cbn [app]. destruct rest as [|y [|c' r']]; try reflexivity.
      cbn [m_radix]. apply N.eqb_neq in Hle. rewrite Hle. rewrite andb_false_r. reflexivity.
    - cbn [dec_int] in Hl. apply andb_true_iff in Hl. destruct Hl as [Hc _].
      assert (E0 : N.eqb c 48 = false).
      { apply N.eqb_neq. apply andb_true_iff in Hc. destruct Hc as [H1 _]. apply N.leb_le in H1. lia. }
      change ((c :: x :: r) ++ rest)%list with (c :: x :: (r ++ rest))%list.
      destruct (r ++ rest)%list as [|c' r']; [reflexivity|]. cbn [m_radix]. rewrite E0. reflexivity.
  Qed.

  Lemma dec_m_dec : m_dec (l ++ rest) = Some (len l).
  Proof. unfold m_dec. rewrite dec_m_int. reflexivity. Qed.
End DecInt.

Lemma literal_int : forall ops l rest,
  ops_wf ops = true -> dec_int l = true ->
  match rest with c :: _ => is_digit c = false /\ c <> 46 /\ c <> 101 /\ c <> 69 /\ c <> 98 /\ c <> 120 /\ c <> 111 | [] => True end ->
  first_match (lexicon ops) (l ++ rest) = Some (K_NUM, len l).
Proof.
  intros ops l rest Hwf Hl Hrest.
  pose proof (dec_float1 l rest Hl Hrest) as F1. pose proof (dec_float2 l rest Hl Hrest) as F2.
  assert (Fb : m_bin (l ++ rest) = None).
  { apply dec_radix; auto. destruct rest; [exact I|]. apply Hrest. }
  assert (Fx : m_hex (l ++ rest) = None).
  { apply dec_radix; auto. destruct rest; [exact I|]. apply Hrest. }
  assert (Fo : m_oct (l ++ rest) = None).
  { apply dec_radix; auto. destruct rest; [exact I|]. apply Hrest. }
  pose proof (dec_m_dec l rest Hl Hrest) as Fd.
  destruct (dec_int_head l Hl) as [c [r [El Hc]]].
  assert (Hlen : len l = S (len r)) by (subst l; reflexivity).
  revert F1 F2 Fb Fx Fo Fd. rewrite El. cbn [app]. intros F1 F2 Fb Fx Fo Fd.
  rewrite (front_fail ops is_digit c (r ++ rest) Hwf Hc);
    [|vm_compute; reflexivity|vm_compute; reflexivity|apply digit_not_id_start; exact Hc].
  cbn [tail_rules skipn first_match rule_match rule_kind].
  rewrite F1, F2, Fb, Fx, Fo, Fd. rewrite <- El. rewrite Hlen. reflexivity.
Qed.

(* ---- raw strings and time literals ---- *)

Lemma delim_shape : forall (o : N) body cl rest,
  ((o :: body ++ [cl]) ++ rest)%list = (o :: body ++ cl :: rest)%list.
Proof. intros. cbn [app]. rewrite <- app_assoc. reflexivity. Qed.

Lemma delim_len : forall (o : N) body cl, len (o :: body ++ [cl]) = (2 + len body)%nat.
Proof. intros. unfold len. cbn [List.length]. rewrite app_length. cbn [List.length]. lia. Qed.

Lemma m_delim_match : forall o stop cl body rest,
  forallb (fun x => negb (stop x)) body = true -> stop cl = true ->
  m_delim o stop cl (o :: body ++ cl :: rest) = Some (2 + len body)%nat.
Proof.
  intros o stop cl body rest Hb Hcl. cbn [m_delim]. rewrite N.eqb_refl.
  rewrite (span_app (fun x => negb (stop x)) body (cl :: rest) Hb) by (rewrite Hcl; reflexivity).
  rewrite N.eqb_refl. reflexivity.
Qed.

Lemma forallb_ext_eq : forall (f g : N -> bool) l, (forall x, f x = g x) -> forallb f l = forallb g l.
Proof. intros f g l H. induction l as [|x l IH]; [reflexivity|]. cbn [forallb]. rewrite H, IH. reflexivity. Qed.

Lemma literal_raw : forall ops l rest,
  ops_wf ops = true -> raw_string l -> first_match (lexicon ops) (l ++ rest) = Some (K_STR, len l).
Proof.
  intros ops l rest Hwf [body [-> Hb]]. rewrite delim_shape, delim_len.
  rewrite (front_fail ops (N.eqb 96) 96 _ Hwf); [|reflexivity|vm_compute; reflexivity..].
  cbn [tail_rules skipn first_match rule_match rule_kind].
  assert (Hraw : m_raw (96 :: body ++ 96 :: rest) = Some (2 + len body)%nat).
  { apply m_delim_match; [|reflexivity]. rewrite <- Hb. apply forallb_ext_eq. intro x.
    rewrite N.eqb_sym. reflexivity. }
  rewrite Hraw.
  assert (Hbin : forall t, m_bin (96 :: t) = None /\ m_hex (96 :: t) = None /\ m_oct (96 :: t) = None).
  { intros [|x [|c r]]; repeat split; reflexivity. }
  destruct (Hbin (body ++ 96 :: rest)%list) as [-> [-> ->]].
  reflexivity.
Qed.

Lemma literal_time : forall ops l rest,
  ops_wf ops = true -> time_lit l -> first_match (lexicon ops) (l ++ rest) = Some (K_TIME, len l).
Proof.
  intros ops l rest Hwf [body [-> Hb]]. rewrite delim_shape, delim_len.
  rewrite (front_fail ops (N.eqb 39) 39 _ Hwf); [|reflexivity|vm_compute; reflexivity..].
  cbn [tail_rules skipn first_match rule_match rule_kind].
  assert (Htime : m_time (39 :: body ++ 39 :: rest) = Some (2 + len body)%nat).
  { apply m_delim_match; [exact Hb|reflexivity]. }
  rewrite Htime.
  assert (Hbin : forall t, m_bin (39 :: t) = None /\ m_hex (39 :: t) = None /\ m_oct (39 :: t) = None).
  { intros [|x [|c r]]; repeat split; reflexivity. }
  destruct (Hbin (body ++ 39 :: rest)%list) as [-> [-> ->]].
  reflexivity.
Qed.

Print Assumptions partition.
Print Assumptions cursor_meaning.
Print Assumptions longest.
Print Assumptions whole_word.
Print Assumptions prim_not_split.
Print Assumptions literal_int.
Print Assumptions literal_raw.
Print Assumptions literal_time.
Print Assumptions total.
