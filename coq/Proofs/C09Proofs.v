(* C09 proofs: in progress *)
