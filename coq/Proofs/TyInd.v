(* Induction principle for the nested inductive [ty]. *)
From Coq Require Import List String.
From Yae Require Import Model.Ty.
Import ListNotations.

Section TyInd.
  Variable P : ty -> Prop.
  Hypothesis Htop : P TTop.
  Hypothesis Hbot : P TBot.
  Hypothesis Hvar : forall n, P (TVar n).
  Hypothesis Hnum : P TNum.
  Hypothesis Hstr : P TStr.
  Hypothesis Hbool : P TBool.
  Hypothesis Htime : P TTime.
  Hypothesis Htuple : forall l, Forall P l -> P (TTuple l).
  Hypothesis Hlist : forall e, P e -> P (TList e).
  Hypothesis Hmap : forall k v, P k -> P v -> P (TMap k v).
  Hypothesis Hobj : forall fs, Forall (fun f => P (snd f)) fs -> P (TObj fs).
  Hypothesis Hfun : forall n ps r, Forall P ps -> P r -> P (TFun n ps r).
  Hypothesis Hmaybe : forall e, P e -> P (TMaybe e).

  Fixpoint ty_ind' (t : ty) : P t :=
    match t with
    | TTop => Htop | TBot => Hbot | TVar n => Hvar n
    | TNum => Hnum | TStr => Hstr | TBool => Hbool | TTime => Htime
    | TTuple l => Htuple l ((fix go (l : list ty) : Forall P l :=
                               match l with [] => Forall_nil _ | a :: r => Forall_cons _ (ty_ind' a) (go r) end) l)
    | TList e => Hlist e (ty_ind' e)
    | TMap k v => Hmap k v (ty_ind' k) (ty_ind' v)
    | TObj fs => Hobj fs ((fix go (l : list (string * ty)) : Forall (fun f => P (snd f)) l :=
                             match l with [] => Forall_nil _ | a :: r => Forall_cons _ (ty_ind' (snd a)) (go r) end) fs)
    | TFun n ps r => Hfun n ps r ((fix go (l : list ty) : Forall P l :=
                               match l with [] => Forall_nil _ | a :: r => Forall_cons _ (ty_ind' a) (go r) end) ps)
                          (ty_ind' r)
    | TMaybe e => Hmaybe e (ty_ind' e)
    end.
End TyInd.
