(* Two-sided soundness of unification (variables on BOTH sides), for the clause of C17 stated with the vocabulary
   of Model/TySpec2.v.

   Proof plan.  [R m a b] is an inductively defined "a and b are equal modulo the triangular substitution m":
   closed under type equality, under looking a bound variable up (modulo type equality), and under the
   constructors.  It needs neither fuel nor termination, so
     - it is stable under [extends] (R_mono),
     - it implies [unifies] (R_sound: by induction on the derivation, apply_subst is inverted on both sides),
     - [apply_subst m y = Ok y1] gives [R m y1 y] (app_R_l / app_R_r / app_R).
   [unify] is then shown, by induction on its fuel, to return a substitution that is acyclic, well formed,
   an extension of the incoming one, and relates the two arguments by R. *)
From Coq Require Import List String Ascii Bool Arith NArith Lia.
From Yae Require Import Base.Sexp Model.Ty Model.Unify Model.TySpec Model.TySpec2 Proofs.TyInd Proofs.C17Proofs.
Import ListNotations.

(* ------------------------------------------------------------------------------------------------ *)
(* The types the clause ranges over, below an outermost tuple                                        *)
(* ------------------------------------------------------------------------------------------------ *)

Definition good (t : ty) : bool := simple t && negb (has_top t) && negb (has_bot t) && wf_ty t.

Lemma good_wf t : good t = true -> wf_ty t = true.
Proof. unfold good. rewrite !andb_true_iff. tauto. Qed.

Lemma good_list e : good (TList e) = good e.
Proof. reflexivity. Qed.

Lemma good_maybe e : good (TMaybe e) = good e.
Proof. reflexivity. Qed.

Lemma good_map k v : good (TMap k v) = true <-> keyable k = true /\ good k = true /\ good v = true.
Proof. unfold good. simpl. rewrite !negb_orb. rewrite !andb_true_iff. tauto. Qed.

Lemma existsb_false {X} (f : X -> bool) l : existsb f l = false <-> forall x, In x l -> f x = false.
Proof.
  induction l as [|a r IH]; simpl.
  - split; [intros _ x []|reflexivity].
  - rewrite orb_false_iff, IH. split.
    + intros [H1 H2] x [E|Hin]; [subst; assumption|auto].
    + intros H. split; [apply H; left; reflexivity|intros x Hin; apply H; right; exact Hin].
Qed.

Lemma good_obj fs :
  good (TObj fs) = true <-> nodupb (map fst fs) = true /\ forall n t, In (n, t) fs -> good t = true.
Proof.
  unfold good. simpl. rewrite !andb_true_iff, !negb_true_iff, !existsb_false, !forallb_forall. split.
  - intros [[[H1 H2] H3] [H4 H5]]. split; [assumption|]. intros n t Hin.
    specialize (H1 _ Hin). specialize (H2 _ Hin). specialize (H3 _ Hin). specialize (H5 _ Hin). simpl in *.
    rewrite H1, H2, H3, H5. reflexivity.
  - intros [H4 H]. repeat split; try assumption; intros [n t] Hin; specialize (H n t Hin); simpl;
      rewrite !andb_true_iff, !negb_true_iff in H; tauto.
Qed.

Lemma good_tuple l : good (TTuple l) = false.
Proof. reflexivity. Qed.

Lemma good_fun n ps r : good (TFun n ps r) = false.
Proof. reflexivity. Qed.

Lemma binds_ok_assoc m n t : binds_ok m = true -> assoc n m = Some t -> good t = true.
Proof. intros Hm Ha. exact (forallb_assoc good n t m Hm Ha). Qed.

Lemma binds_ok_wf m : binds_ok m = true -> subst_wf m = true.
Proof.
  unfold binds_ok, subst_wf. rewrite !forallb_forall. intros H kv Hin. specialize (H kv Hin).
  rewrite !andb_true_iff in H. tauto.
Qed.

Lemma binds_ok_update n t m : binds_ok m = true -> good t = true -> binds_ok (update n t m) = true.
Proof. intros Hm Ht. exact (forallb_update good n t m Hm Ht). Qed.

Lemma good_refl t : good t = true -> ty_eqb t t = true.
Proof. intros H. apply C17Proofs.eq_refl. apply good_wf. exact H. Qed.

Lemma good_sym a b : good a = true -> good b = true -> ty_eqb a b = true -> ty_eqb b a = true.
Proof. intros Ha Hb. apply eqb_sym_imp; apply good_wf; assumption. Qed.

Lemma eqb_keyable a b : ty_eqb a b = true -> keyable a = keyable b.
Proof. destruct a; destruct b; simpl; intros H; try discriminate H; reflexivity. Qed.

Lemma eqb_var_r t n : ty_eqb t (TVar n) = true -> t = TVar n.
Proof. destruct t; simpl; intros H; try discriminate H. apply String.eqb_eq in H. subst. reflexivity. Qed.

Lemma eqb_var_l t n : ty_eqb (TVar n) t = true -> t = TVar n.
Proof. destruct t; simpl; intros H; try discriminate H. apply String.eqb_eq in H. subst. reflexivity. Qed.

(* ------------------------------------------------------------------------------------------------ *)
(* Forall2 helpers                                                                                   *)
(* ------------------------------------------------------------------------------------------------ *)

Lemma F2_in_l {X Y} (Q : X -> Y -> Prop) l l' x : Forall2 Q l l' -> In x l -> exists y, In y l' /\ Q x y.
Proof.
  induction 1 as [|a b r r' Hab Hr IH]; intros Hin; [contradiction|].
  destruct Hin as [E|Hin].
  - subst. exists b. split; [left; reflexivity|assumption].
  - destruct (IH Hin) as [y [Hy Hq]]. exists y. split; [right; assumption|assumption].
Qed.

Lemma F2_in_r {X Y} (Q : X -> Y -> Prop) l l' y : Forall2 Q l l' -> In y l' -> exists x, In x l /\ Q x y.
Proof.
  induction 1 as [|a b r r' Hab Hr IH]; intros Hin; [contradiction|].
  destruct Hin as [E|Hin].
  - subst. exists a. split; [left; reflexivity|assumption].
  - destruct (IH Hin) as [x [Hx Hq]]. exists x. split; [right; assumption|assumption].
Qed.

Lemma F2_impl_in {X Y} (Q Q' : X -> Y -> Prop) l l' :
  (forall x y, In x l -> In y l' -> Q x y -> Q' x y) -> Forall2 Q l l' -> Forall2 Q' l l'.
Proof.
  intros H HF. induction HF as [|a b r r' Hab Hr IH]; constructor.
  - apply H; [left; reflexivity|left; reflexivity|assumption].
  - apply IH. intros x y Hx Hy. apply H; right; assumption.
Qed.

Lemma F2_impl {X Y} (Q Q' : X -> Y -> Prop) l l' :
  (forall x y, Q x y -> Q' x y) -> Forall2 Q l l' -> Forall2 Q' l l'.
Proof. intros H. apply F2_impl_in. intros x y _ _. apply H. Qed.

Lemma F2_length {X Y} (Q : X -> Y -> Prop) l l' : Forall2 Q l l' -> List.length l = List.length l'.
Proof. induction 1; simpl; congruence. Qed.

Lemma F2_ex {X Y} (Q : X -> Y -> Prop) l : (forall x, In x l -> exists y, Q x y) -> exists l', Forall2 Q l l'.
Proof.
  induction l as [|a r IH]; intros H.
  - exists []. constructor.
  - destruct (H a (or_introl Logic.eq_refl)) as [b Hb].
    destruct (IH (fun x Hin => H x (or_intror Hin))) as [r' Hr].
    exists (b :: r'). constructor; assumption.
Qed.

(* field lists: names are kept, the types are related *)
Definition frel (Q : ty -> ty -> Prop) (nf nu : string * ty) : Prop := fst nu = fst nf /\ Q (snd nf) (snd nu).

Lemma frel_assoc_l Q fs us n a :
  Forall2 (frel Q) fs us -> assoc n fs = Some a -> exists u, assoc n us = Some u /\ Q a u.
Proof.
  induction 1 as [|[k x] [k' x'] r r' [Hk Hq] Hr IH]; simpl; intros Ha; [discriminate Ha|].
  simpl in Hk, Hq. subst k'. destruct (String.eqb n k).
  - injection Ha as Ha. subst. exists x'. split; [reflexivity|assumption].
  - auto.
Qed.

Lemma frel_assoc_r Q fs us n u :
  Forall2 (frel Q) fs us -> assoc n us = Some u -> exists a, assoc n fs = Some a /\ Q a u.
Proof.
  induction 1 as [|[k x] [k' x'] r r' [Hk Hq] Hr IH]; simpl; intros Ha; [discriminate Ha|].
  simpl in Hk, Hq. subst k'. destruct (String.eqb n k).
  - injection Ha as Ha. subst. exists x. split; [reflexivity|assumption].
  - auto.
Qed.

Lemma frel_keys Q fs us : Forall2 (frel Q) fs us -> map fst us = map fst fs.
Proof.
  induction 1 as [|[k x] [k' x'] r r' [Hk Hq] Hr IH]; simpl; [reflexivity|]. simpl in Hk. congruence.
Qed.

Lemma frel_in_l Q fs us n a : Forall2 (frel Q) fs us -> In (n, a) fs -> exists u, In (n, u) us /\ Q a u.
Proof.
  intros HF Hin. destruct (F2_in_l _ _ _ _ HF Hin) as [[n' u] [Hin' [Hk Hq]]]. simpl in Hk, Hq. subst n'.
  exists u. split; assumption.
Qed.

Lemma frel_in_r Q fs us n u : Forall2 (frel Q) fs us -> In (n, u) us -> exists a, In (n, a) fs /\ Q a u.
Proof.
  intros HF Hin. destruct (F2_in_r _ _ _ _ HF Hin) as [[n' a] [Hin' [Hk Hq]]]. simpl in Hk, Hq. subst n'.
  exists a. split; assumption.
Qed.

(* ------------------------------------------------------------------------------------------------ *)
(* rmapM and the inversion of apply_subst                                                            *)
(* ------------------------------------------------------------------------------------------------ *)

Lemma rmapM_F2 {X Y} (g : X -> res Y) l l' : rmapM g l = Ok l' <-> Forall2 (fun x y => g x = Ok y) l l'.
Proof.
  revert l'. induction l as [|a r IH]; intros l'; simpl; split; intros H.
  - injection H as H. subst. constructor.
  - inversion H. reflexivity.
  - destruct (g a) as [b| | |] eqn:Ea; simpl in H; try discriminate H.
    destruct (rmapM g r) as [r'| | |] eqn:Er; simpl in H; try discriminate H.
    injection H as H. subst. constructor; [assumption|]. apply IH. reflexivity.
  - inversion H as [|a0 b r0 r' Hab Hr]; subst. rewrite Hab. simpl.
    apply IH in Hr. rewrite Hr. reflexivity.
Qed.

Definition app_field (f : nat) (m : subst) (nf : string * ty) : res (string * ty) :=
  rmap (fun t' => (fst nf, t')) (apply_subst f m (snd nf)).

Definition appr (f : nat) (m : subst) (a u : ty) : Prop := apply_subst f m a = Ok u.

Lemma app_field_ok f m nf nu : app_field f m nf = Ok nu <-> frel (appr f m) nf nu.
Proof.
  unfold app_field, frel, appr. destruct nf as [n a]. destruct nu as [n' u]. simpl.
  destruct (apply_subst f m a) as [u0| | |]; simpl; split; intros H;
    try discriminate H; try (apply proj2 in H; discriminate H).
  - injection H as H1 H2. subst. split; reflexivity.
  - destruct H as [H1 H2]. injection H2 as H2. subst. reflexivity.
Qed.

Lemma app_fields_F2 f m fs us : rmapM (app_field f m) fs = Ok us <-> Forall2 (frel (appr f m)) fs us.
Proof.
  rewrite rmapM_F2. split; intros H; eapply F2_impl; try exact H; intros a b; apply app_field_ok.
Qed.

Lemma app_obj_eq f m fs : apply_subst (S f) m (TObj fs) = rmap TObj (rmapM (app_field f m) fs).
Proof. reflexivity. Qed.

Lemma app_inv f m t u : apply_subst (S f) m t = Ok u ->
  match t with
  | TVar n => match assoc n m with
              | None => u = t
              | Some r => if is_var_named r n then u = t else apply_subst f m r = Ok u
              end
  | TList e => exists e', apply_subst f m e = Ok e' /\ u = TList e'
  | TMaybe e => exists e', apply_subst f m e = Ok e' /\ u = TMaybe e'
  | TMap k v => exists k' v', apply_subst f m k = Ok k' /\ apply_subst f m v = Ok v' /\
                              keyable k' = true /\ u = TMap k' v'
  | TTuple l => exists us, Forall2 (appr f m) l us /\ u = TTuple us
  | TObj fs => exists us, Forall2 (frel (appr f m)) fs us /\ u = TObj us
  | TFun n ps r => exists ps' r', Forall2 (appr f m) ps ps' /\ apply_subst f m r = Ok r' /\ u = TFun n ps' r'
  | _ => u = t
  end.
Proof.
  intros H. destruct t; try (simpl in H; injection H as H; subst; reflexivity).
  - simpl in H. destruct (assoc n m) as [r|]; [destruct (is_var_named r n)|];
      try (injection H as H; subst; reflexivity). exact H.
  - simpl in H. destruct (rmapM (apply_subst f m) l) as [us| | |] eqn:E; simpl in H; try discriminate H.
    injection H as H. subst. exists us. split; [|reflexivity]. apply rmapM_F2 in E. exact E.
  - simpl in H. destruct (apply_subst f m t) as [e'| | |] eqn:E; simpl in H; try discriminate H.
    injection H as H. subst. eauto.
  - simpl in H. destruct (apply_subst f m t1) as [k'| | |] eqn:E1; simpl in H; try discriminate H.
    destruct (apply_subst f m t2) as [v'| | |] eqn:E2; simpl in H; try discriminate H.
    unfold mk_map in H. destruct (keyable k') eqn:Ek; try discriminate H.
    injection H as H. subst. exists k', v'. auto.
  - rewrite app_obj_eq in H. destruct (rmapM (app_field f m) fs) as [us| | |] eqn:E; simpl in H; try discriminate H.
    injection H as H. subst. exists us. split; [|reflexivity]. apply app_fields_F2. exact E.
  - simpl in H. destruct (rmapM (apply_subst f m) ps) as [ps'| | |] eqn:E1; simpl in H; try discriminate H.
    destruct (apply_subst f m t) as [r'| | |] eqn:E2; simpl in H; try discriminate H.
    injection H as H. subst. exists ps', r'. split; [|auto]. apply rmapM_F2 in E1. exact E1.
  - simpl in H. destruct (apply_subst f m t) as [e'| | |] eqn:E; simpl in H; try discriminate H.
    injection H as H. subst. eauto.
Qed.

Lemma app_list_intro f m e e' : apply_subst f m e = Ok e' -> apply_subst (S f) m (TList e) = Ok (TList e').
Proof. intros H. simpl. rewrite H. reflexivity. Qed.

Lemma app_maybe_intro f m e e' : apply_subst f m e = Ok e' -> apply_subst (S f) m (TMaybe e) = Ok (TMaybe e').
Proof. intros H. simpl. rewrite H. reflexivity. Qed.

Lemma app_map_intro f m k v k' v' :
  apply_subst f m k = Ok k' -> apply_subst f m v = Ok v' -> keyable k' = true ->
  apply_subst (S f) m (TMap k v) = Ok (TMap k' v').
Proof. intros H1 H2 H3. simpl. rewrite H1, H2. simpl. unfold mk_map. rewrite H3. reflexivity. Qed.

Lemma app_tuple_intro f m l us : Forall2 (appr f m) l us -> apply_subst (S f) m (TTuple l) = Ok (TTuple us).
Proof. intros H. apply rmapM_F2 in H. simpl. rewrite H. reflexivity. Qed.

Lemma app_obj_intro f m fs us :
  Forall2 (frel (appr f m)) fs us -> apply_subst (S f) m (TObj fs) = Ok (TObj us).
Proof. intros H. apply app_fields_F2 in H. rewrite app_obj_eq, H. reflexivity. Qed.

Lemma app_fun_intro f m n ps r ps' r' :
  Forall2 (appr f m) ps ps' -> apply_subst f m r = Ok r' ->
  apply_subst (S f) m (TFun n ps r) = Ok (TFun n ps' r').
Proof. intros H1 H2. apply rmapM_F2 in H1. simpl. rewrite H1. simpl. rewrite H2. reflexivity. Qed.

(* (1) more fuel gives the same result *)
Lemma app_mono : forall f m t u, apply_subst f m t = Ok u -> forall f', f <= f' -> apply_subst f' m t = Ok u.
Proof.
  induction f as [|f IH]; intros m t u H f' Hle; [discriminate H|].
  destruct f' as [|f']; [lia|]. assert (f <= f') as Hle' by lia.
  pose proof (app_inv _ _ _ _ H) as Hi.
  destruct t; try (subst; reflexivity).
  - simpl. destruct (assoc n m) as [r|]; [destruct (is_var_named r n)|]; try (subst; reflexivity).
    eapply IH; eauto.
  - destruct Hi as [us [HF Hu]]. subst. apply app_tuple_intro.
    eapply F2_impl; [|exact HF]. intros a b Hab. unfold appr in *. eapply IH; eauto.
  - destruct Hi as [e' [He Hu]]. subst. apply app_list_intro. eapply IH; eauto.
  - destruct Hi as [k' [v' [Hk [Hv [Hkey Hu]]]]]. subst. apply app_map_intro; try assumption; eapply IH; eauto.
  - destruct Hi as [us [HF Hu]]. subst. apply app_obj_intro.
    eapply F2_impl; [|exact HF]. intros a b [Hab1 Hab2]. split; [assumption|].
    unfold appr in *. eapply IH; eauto.
  - destruct Hi as [ps' [r' [HF [Hr Hu]]]]. subst. apply app_fun_intro.
    + eapply F2_impl; [|exact HF]. intros a b Hab. unfold appr in *. eapply IH; eauto.
    + eapply IH; eauto.
  - destruct Hi as [e' [He Hu]]. subst. apply app_maybe_intro. eapply IH; eauto.
Qed.

Lemma app_det f1 f2 m t u1 u2 : apply_subst f1 m t = Ok u1 -> apply_subst f2 m t = Ok u2 -> u1 = u2.
Proof.
  intros H1 H2.
  apply app_mono with (f' := Nat.max f1 f2) in H1; [|apply Nat.le_max_l].
  apply app_mono with (f' := Nat.max f1 f2) in H2; [|apply Nat.le_max_r].
  congruence.
Qed.

(* ------------------------------------------------------------------------------------------------ *)
(* apply_subst keeps types good, and respects type equality                                          *)
(* ------------------------------------------------------------------------------------------------ *)

Lemma app_good : forall f m t u,
  binds_ok m = true -> good t = true -> apply_subst f m t = Ok u -> good u = true.
Proof.
  induction f as [|f IH]; intros m t u Hm Ht H; [discriminate H|].
  pose proof (app_inv _ _ _ _ H) as Hi.
  destruct t; try (subst; exact Ht); try discriminate Ht.
  - destruct (assoc n m) as [r|] eqn:Ea; [destruct (is_var_named r n)|]; try (subst; exact Ht).
    eapply IH; [exact Hm| |exact Hi]. eapply binds_ok_assoc; eauto.
  - destruct Hi as [e' [He Hu]]. subst. rewrite good_list in *. eapply IH; eauto.
  - destruct Hi as [k' [v' [Hk [Hv [Hkey Hu]]]]]. subst. apply good_map in Ht. destruct Ht as [_ [Hgk Hgv]].
    apply good_map. repeat split; [assumption|eapply (IH m t1); eauto|eapply (IH m t2); eauto].
  - destruct Hi as [us [HF Hu]]. subst. apply good_obj in Ht. destruct Ht as [Hnd Hg].
    apply good_obj. split.
    + rewrite (frel_keys _ _ _ HF). exact Hnd.
    + intros n u Hin. destruct (frel_in_r _ _ _ _ _ HF Hin) as [a [Hina Ha]]. eapply IH; eauto.
  - destruct Hi as [e' [He Hu]]. subst. rewrite good_maybe in *. eapply IH; eauto.
Qed.

Lemma app_cong : forall f m t t' u,
  binds_ok m = true -> good t = true -> good t' = true -> ty_eqb t' t = true ->
  apply_subst f m t = Ok u -> exists u', apply_subst f m t' = Ok u' /\ ty_eqb u' u = true.
Proof.
  induction f as [|f IH]; intros m t t' u Hm Ht Ht' He H; [discriminate H|].
  pose proof (app_inv _ _ _ _ H) as Hi.
  destruct t; try discriminate Ht; destruct t'; try (simpl in He; discriminate He).
  - (* var *) apply String.eqb_eq in He. subst n0. exists u. split; [exact H|].
    apply good_refl. eapply app_good; eauto.
  - subst. exists TNum. split; reflexivity.
  - subst. exists TStr. split; reflexivity.
  - subst. exists TBool. split; reflexivity.
  - subst. exists TTime. split; reflexivity.
  - (* list *) destruct Hi as [e' [Hee Hu]]. subst. rewrite good_list in *. simpl in He.
    destruct (IH m t t' e' Hm Ht Ht' He Hee) as [u' [Hu' Heq]].
    exists (TList u'). split; [apply app_list_intro; exact Hu'|exact Heq].
  - (* map *) destruct Hi as [k' [v' [Hk [Hv [Hkey Hu]]]]]. subst.
    apply good_map in Ht. destruct Ht as [_ [Hgk Hgv]]. apply good_map in Ht'. destruct Ht' as [_ [Hgk' Hgv']].
    simpl in He. apply andb_true_iff in He. destruct He as [He1 He2].
    destruct (IH m t1 t'1 k' Hm Hgk Hgk' He1 Hk) as [k'' [Hk'' Heqk]].
    destruct (IH m t2 t'2 v' Hm Hgv Hgv' He2 Hv) as [v'' [Hv'' Heqv]].
    exists (TMap k'' v''). split.
    + apply app_map_intro; try assumption. rewrite (eqb_keyable _ _ Heqk). exact Hkey.
    + simpl. rewrite Heqk, Heqv. reflexivity.
  - (* obj *) destruct Hi as [us [HF Hu]]. subst.
    apply good_obj in Ht. destruct Ht as [Hnd Hg]. apply good_obj in Ht'. destruct Ht' as [Hnd' Hg'].
    apply ty_eqb_obj_spec in He. destruct He as [Hlen Hrel].
    assert (forall n a', In (n, a') fs0 -> exists a u0 u', assoc n fs = Some a /\ apply_subst f m a = Ok u0 /\
              assoc n us = Some u0 /\ apply_subst f m a' = Ok u' /\ ty_eqb u' u0 = true) as Hfld.
    { intros n a' Hin. destruct (Hrel n a' Hin) as [a [Ha Heq]].
      destruct (frel_assoc_l _ _ _ _ _ HF Ha) as [u0 [Hu0 Happ]].
      destruct (IH m a a' u0 Hm (Hg _ _ (assoc_In _ _ _ Ha)) (Hg' _ _ Hin) Heq Happ) as [u' [Hu' Heq']].
      exists a, u0, u'. auto. }
    destruct (F2_ex (frel (appr f m)) fs0) as [us' HF'].
    { intros [n a'] Hin. destruct (Hfld n a' Hin) as [a [u0 [u' [_ [_ [_ [Hu' _]]]]]]].
      exists (n, u'). split; [reflexivity|exact Hu']. }
    exists (TObj us'). split; [apply app_obj_intro; exact HF'|].
    apply ty_eqb_obj_spec. split.
    + rewrite <- (F2_length _ _ _ HF'), <- (F2_length _ _ _ HF). exact Hlen.
    + intros n u' Hin. destruct (frel_in_r _ _ _ _ _ HF' Hin) as [a' [Hina' Happ']].
      destruct (Hfld n a' Hina') as [a [u0 [u'' [_ [_ [Hu0 [Hu'' Heq]]]]]]].
      unfold appr in Happ'. rewrite Happ' in Hu''. injection Hu'' as Hu''. subst u''.
      exists u0. split; assumption.
  - (* maybe *) destruct Hi as [e' [Hee Hu]]. subst. rewrite good_maybe in *. simpl in He.
    destruct (IH m t t' e' Hm Ht Ht' He Hee) as [u' [Hu' Heq]].
    exists (TMaybe u'). split; [apply app_maybe_intro; exact Hu'|exact Heq].
Qed.

(* two fuels *)
Lemma app_cong2 fa fb m a b a1 b1 :
  binds_ok m = true -> good a = true -> good b = true -> ty_eqb a b = true ->
  apply_subst fa m a = Ok a1 -> apply_subst fb m b = Ok b1 -> ty_eqb a1 b1 = true.
Proof.
  intros Hm Ha Hb He H1 H2.
  destruct (app_cong fb m b a b1 Hm Hb Ha He H2) as [a1' [H1' Heq]].
  rewrite (app_det _ _ _ _ _ _ H1 H1'). exact Heq.
Qed.

(* ------------------------------------------------------------------------------------------------ *)
(* (2) the result of apply_subst mentions no bound variable, except self-bound ones                   *)
(* ------------------------------------------------------------------------------------------------ *)

Definition inert (m : subst) (b : string) : bool :=
  match assoc b m with None => true | Some t => is_var_named t b end.

Lemma app_resolved : forall f m t u,
  binds_ok m = true -> good t = true -> apply_subst f m t = Ok u ->
  forall b, occurs b u = true -> inert m b = true.
Proof.
  induction f as [|f IH]; intros m t u Hm Ht H b Hb; [discriminate H|].
  pose proof (app_inv _ _ _ _ H) as Hi.
  destruct t; try discriminate Ht; try (subst; simpl in Hb; discriminate Hb).
  - unfold inert. destruct (assoc n m) as [r|] eqn:Ea; [destruct (is_var_named r n) eqn:Es|].
    + subst. simpl in Hb. apply String.eqb_eq in Hb. subst b. rewrite Ea. exact Es.
    + fold (inert m b). eapply IH; [exact Hm| |exact Hi|exact Hb]. eapply binds_ok_assoc; eauto.
    + subst. simpl in Hb. apply String.eqb_eq in Hb. subst b. rewrite Ea. reflexivity.
  - destruct Hi as [e' [He Hu]]. subst. rewrite good_list in *. simpl in Hb. eapply IH; eauto.
  - destruct Hi as [k' [v' [Hk [Hv [Hkey Hu]]]]]. subst. apply good_map in Ht. destruct Ht as [_ [Hgk Hgv]].
    simpl in Hb. apply orb_true_iff in Hb. destruct Hb as [Hb|Hb]; [eapply (IH m t1)|eapply (IH m t2)]; eauto.
  - destruct Hi as [us [HF Hu]]. subst. apply good_obj in Ht. destruct Ht as [_ Hg].
    simpl in Hb. apply existsb_exists in Hb. destruct Hb as [[n u] [Hin Hb]]. simpl in Hb.
    destruct (frel_in_r _ _ _ _ _ HF Hin) as [a [Hina Ha]]. eapply IH; eauto.
  - destruct Hi as [e' [He Hu]]. subst. rewrite good_maybe in *. simpl in Hb. eapply IH; eauto.
Qed.

(* the occurs check *)
Lemma free_from_occurs : forall t n, simple t = true -> free_from t n = Ok true -> occurs n t = false.
Proof.
  induction t using ty_ind'; intros v Hs Hff; simpl in Hs; try discriminate Hs; try reflexivity.
  - simpl in *. injection Hff as Hff. apply negb_true_iff in Hff. rewrite String.eqb_sym. exact Hff.
  - simpl in *. auto.
  - apply andb_true_iff in Hs. destruct Hs as [Hs1 Hs2]. simpl in *.
    destruct (free_from t1 v) as [[|]| | |] eqn:E1; simpl in Hff; try discriminate Hff.
    rewrite IHt1, IHt2 by auto. reflexivity.
  - simpl. induction H as [|[n t] r Ht Hr IHr]; [reflexivity|]. simpl in *.
    apply andb_true_iff in Hs. destruct Hs as [Hs1 Hs2].
    destruct (free_from t v) as [[|]| | |] eqn:E1; simpl in Hff; try discriminate Hff.
    rewrite Ht by auto. simpl. auto.
  - simpl in *. auto.
Qed.

(* ------------------------------------------------------------------------------------------------ *)
(* (3) binding a variable to a fully substituted type that does not contain it keeps the             *)
(*     substitution acyclic                                                                          *)
(* ------------------------------------------------------------------------------------------------ *)

Lemma is_var_named_occurs t n : is_var_named t n = true -> occurs n t = true.
Proof. destruct t; simpl; intros H; try discriminate H. rewrite String.eqb_sym. exact H. Qed.

Lemma acyclic_update m n y1 :
  acyclic m -> (forall b, occurs b y1 = true -> inert m b = true) -> occurs n y1 = false ->
  acyclic (update n y1 m).
Proof.
  intros [rank Hr] Hres Hocc.
  exists (fun v => match assoc v (update n y1 m) with
                   | None => 0
                   | Some t => if is_var_named t v then 0 else if String.eqb v n then 1 else rank v + 2
                   end).
  intros a t b Ha Hns Hb. cbv beta. rewrite Ha, Hns.
  destruct (String.eqb_spec a n) as [E|E].
  - subst a. rewrite assoc_update_same in Ha. injection Ha as Ha. subst t.
    assert (b <> n) as Hbn by (intros E; subst b; congruence).
    rewrite assoc_update_other by exact Hbn.
    pose proof (Hres b Hb) as Hi. unfold inert in Hi.
    destruct (assoc b m) as [tb|]; [rewrite Hi|]; lia.
  - rewrite assoc_update_other in Ha by exact E.
    pose proof (Hr a t b Ha Hns Hb) as Hlt.
    destruct (assoc b (update n y1 m)) as [tb|]; [|lia].
    destruct (is_var_named tb b); [lia|]. destruct (String.eqb b n); lia.
Qed.

(* ------------------------------------------------------------------------------------------------ *)
(* Equality modulo a triangular substitution                                                         *)
(* ------------------------------------------------------------------------------------------------ *)

Inductive R (m : subst) : ty -> ty -> Prop :=
| R_eq a b : ty_eqb a b = true -> R m a b
| R_varl n t t' b :
    assoc n m = Some t -> good t' = true -> ty_eqb t' t = true -> is_var_named t n = false ->
    R m t' b -> R m (TVar n) b
| R_varr n t t' a :
    assoc n m = Some t -> good t' = true -> ty_eqb t' t = true -> is_var_named t n = false ->
    R m a t' -> R m a (TVar n)
| R_list a b : R m a b -> R m (TList a) (TList b)
| R_maybe a b : R m a b -> R m (TMaybe a) (TMaybe b)
| R_map k1 v1 k2 v2 : R m k1 k2 -> R m v1 v2 -> R m (TMap k1 v1) (TMap k2 v2)
| R_tuple l1 l2 : Rl m l1 l2 -> R m (TTuple l1) (TTuple l2)
| R_obj f1 f2 : List.length f1 = List.length f2 -> Rf m f1 f2 -> R m (TObj f1) (TObj f2)
with Rl (m : subst) : list ty -> list ty -> Prop :=
| Rl_nil : Rl m [] []
| Rl_cons a b r1 r2 : R m a b -> Rl m r1 r2 -> Rl m (a :: r1) (b :: r2)
with Rf (m : subst) : list (string * ty) -> list (string * ty) -> Prop :=
| Rf_nil f2 : Rf m [] f2
| Rf_cons n a r1 b f2 : assoc n f2 = Some b -> R m a b -> Rf m r1 f2 -> Rf m ((n, a) :: r1) f2.

Scheme R_mut := Minimality for R Sort Prop
  with Rl_mut := Minimality for Rl Sort Prop
  with Rf_mut := Minimality for Rf Sort Prop.
Combined Scheme R_mutind from R_mut, Rl_mut, Rf_mut.

Lemma Rf_intro m f1 f2 :
  (forall n a, In (n, a) f1 -> exists b, assoc n f2 = Some b /\ R m a b) -> Rf m f1 f2.
Proof.
  induction f1 as [|[n a] r IH]; intros H; [constructor|].
  destruct (H n a (or_introl Logic.eq_refl)) as [b [Hb Hr]].
  econstructor; [exact Hb|exact Hr|]. apply IH. intros n' a' Hin. apply H. right. exact Hin.
Qed.

(* R only looks bound variables up, modulo type equality: it is stable under [extends] *)
Lemma R_mono m m' :
  extends m m' ->
  (forall a b, R m a b -> R m' a b) /\ (forall l1 l2, Rl m l1 l2 -> Rl m' l1 l2) /\
  (forall f1 f2, Rf m f1 f2 -> Rf m' f1 f2).
Proof.
  intros Hext. apply R_mutind.
  - intros a b He. apply R_eq. exact He.
  - intros n t t' b Ha Hg He Hns _ IH.
    destruct (Hext n t Ha) as [t'' [Ha' He']].
    eapply R_varl; [exact Ha'|exact Hg|eapply eqb_trans; eauto| |exact IH].
    destruct (is_var_named t'' n) eqn:Es; [|reflexivity].
    destruct t''; simpl in Es; try discriminate Es. apply eqb_var_r in He'. subst t. simpl in Hns. congruence.
  - intros n t t' a Ha Hg He Hns _ IH.
    destruct (Hext n t Ha) as [t'' [Ha' He']].
    eapply R_varr; [exact Ha'|exact Hg|eapply eqb_trans; eauto| |exact IH].
    destruct (is_var_named t'' n) eqn:Es; [|reflexivity].
    destruct t''; simpl in Es; try discriminate Es. apply eqb_var_r in He'. subst t. simpl in Hns. congruence.
  - intros a b _ IH. apply R_list. exact IH.
  - intros a b _ IH. apply R_maybe. exact IH.
  - intros k1 v1 k2 v2 _ IH1 _ IH2. apply R_map; assumption.
  - intros l1 l2 _ IH. apply R_tuple. exact IH.
  - intros f1 f2 Hlen _ IH. apply R_obj; assumption.
  - constructor.
  - intros a b r1 r2 _ IH1 _ IH2. constructor; assumption.
  - intros f2. constructor.
  - intros n a r1 b f2 Hb _ IH1 _ IH2. econstructor; eauto.
Qed.

Lemma R_ext m m' a b : extends m m' -> R m a b -> R m' a b.
Proof. intros Hext. apply (R_mono m m' Hext). Qed.

(* R implies that the fully substituted types are equal, wherever both applications succeed *)
Lemma R_sound m :
  binds_ok m = true ->
  (forall a b, R m a b -> good a = true -> good b = true ->
     forall fa fb a1 b1, apply_subst fa m a = Ok a1 -> apply_subst fb m b = Ok b1 -> ty_eqb a1 b1 = true) /\
  (forall l1 l2, Rl m l1 l2 -> Forall (fun t => good t = true) l1 -> Forall (fun t => good t = true) l2 ->
     forall fa fb u1 u2, Forall2 (appr fa m) l1 u1 -> Forall2 (appr fb m) l2 u2 -> eqb_list u1 u2 = true) /\
  (forall f1 f2, Rf m f1 f2 ->
     (forall n a, In (n, a) f1 -> good a = true) -> (forall n b, In (n, b) f2 -> good b = true) ->
     forall n a, In (n, a) f1 -> exists b, assoc n f2 = Some b /\
       forall fa fb u v, apply_subst fa m a = Ok u -> apply_subst fb m b = Ok v -> ty_eqb u v = true).
Proof.
  intros Hm. apply R_mutind.
  - (* eq *) intros a b He Ha Hb fa fb a1 b1 H1 H2. exact (app_cong2 fa fb m a b a1 b1 Hm Ha Hb He H1 H2).
  - (* varl *) intros n t t' b Ha Hg He Hns _ IH _ Hb fa fb a1 b1 H1 H2.
    destruct fa as [|fa]; [discriminate H1|]. apply app_inv in H1. rewrite Ha, Hns in H1.
    pose proof (binds_ok_assoc _ _ _ Hm Ha) as Hgt.
    destruct (app_cong fa m t t' a1 Hm Hgt Hg He H1) as [a1' [H1' He1]].
    pose proof (IH Hg Hb fa fb a1' b1 H1' H2) as He2.
    eapply eqb_trans; [|exact He2].
    apply good_sym; [exact (app_good fa m t' a1' Hm Hg H1')|exact (app_good fa m t a1 Hm Hgt H1)|exact He1].
  - (* varr *) intros n t t' a Ha Hg He Hns _ IH Hga _ fa fb a1 b1 H1 H2.
    destruct fb as [|fb]; [discriminate H2|]. apply app_inv in H2. rewrite Ha, Hns in H2.
    pose proof (binds_ok_assoc _ _ _ Hm Ha) as Hgt.
    destruct (app_cong fb m t t' b1 Hm Hgt Hg He H2) as [b1' [H2' He1]].
    pose proof (IH Hga Hg fa fb a1 b1' H1 H2') as He2.
    eapply eqb_trans; [exact He2|exact He1].
  - (* list *) intros a b _ IH Ha Hb fa fb a1 b1 H1 H2. rewrite good_list in *.
    destruct fa as [|fa]; [discriminate H1|]. destruct fb as [|fb]; [discriminate H2|].
    apply app_inv in H1. apply app_inv in H2.
    destruct H1 as [a' [H1 E1]]. destruct H2 as [b' [H2 E2]]. subst. simpl. eapply IH; eauto.
  - (* maybe *) intros a b _ IH Ha Hb fa fb a1 b1 H1 H2. rewrite good_maybe in *.
    destruct fa as [|fa]; [discriminate H1|]. destruct fb as [|fb]; [discriminate H2|].
    apply app_inv in H1. apply app_inv in H2.
    destruct H1 as [a' [H1 E1]]. destruct H2 as [b' [H2 E2]]. subst. simpl. eapply IH; eauto.
  - (* map *) intros k1 v1 k2 v2 _ IHk _ IHv Ha Hb fa fb a1 b1 H1 H2.
    apply good_map in Ha. apply good_map in Hb.
    destruct Ha as [_ [Hgk1 Hgv1]]. destruct Hb as [_ [Hgk2 Hgv2]].
    destruct fa as [|fa]; [discriminate H1|]. destruct fb as [|fb]; [discriminate H2|].
    apply app_inv in H1. apply app_inv in H2.
    destruct H1 as [k1' [v1' [Hk1 [Hv1 [_ E1]]]]]. destruct H2 as [k2' [v2' [Hk2 [Hv2 [_ E2]]]]]. subst. simpl.
    rewrite (IHk Hgk1 Hgk2 fa fb k1' k2' Hk1 Hk2), (IHv Hgv1 Hgv2 fa fb v1' v2' Hv1 Hv2). reflexivity.
  - (* tuple *) intros l1 l2 _ _ Ha. discriminate Ha.
  - (* obj *) intros f1 f2 Hlen _ IH Ha Hb fa fb a1 b1 H1 H2.
    apply good_obj in Ha. apply good_obj in Hb. destruct Ha as [_ Hg1]. destruct Hb as [_ Hg2].
    destruct fa as [|fa]; [discriminate H1|]. destruct fb as [|fb]; [discriminate H2|].
    apply app_inv in H1. apply app_inv in H2.
    destruct H1 as [us1 [HF1 E1]]. destruct H2 as [us2 [HF2 E2]]. subst.
    apply ty_eqb_obj_spec. split.
    + rewrite <- (F2_length _ _ _ HF1), <- (F2_length _ _ _ HF2). exact Hlen.
    + intros n u Hin. destruct (frel_in_r _ _ _ _ _ HF1 Hin) as [a [Hina Happ]].
      destruct (IH Hg1 Hg2 n a Hina) as [b [Hb Huv]].
      destruct (frel_assoc_l _ _ _ _ _ HF2 Hb) as [v [Hv Happ2]].
      exists v. split; [exact Hv|]. eapply Huv; eauto.
  - (* Rl nil *) intros _ _ fa fb u1 u2 H1 H2. inversion H1. inversion H2. reflexivity.
  - (* Rl cons *) intros a b r1 r2 _ IH1 _ IH2 Hg1 Hg2 fa fb u1 u2 H1 H2.
    inversion Hg1 as [|? ? Hga Hgr1]; subst. inversion Hg2 as [|? ? Hgb Hgr2]; subst.
    inversion H1 as [|? a' ? r1' Ha' Hr1']; subst. inversion H2 as [|? b' ? r2' Hb' Hr2']; subst.
    simpl. rewrite (IH1 Hga Hgb fa fb a' b' Ha' Hb'). simpl. eapply IH2; eauto.
  - (* Rf nil *) intros f2 _ _ n a [].
  - (* Rf cons *) intros n a r1 b f2 Hb _ IH1 _ IH2 Hg1 Hg2 n0 a0 Hin.
    destruct Hin as [E|Hin].
    + injection E as E1 E2. subst n0 a0. exists b. split; [exact Hb|].
      intros fa fb u v Hu Hv. eapply IH1; eauto.
      * apply (Hg1 n a). left. reflexivity.
      * apply (Hg2 n b). eapply assoc_In; eauto.
    + apply IH2; try assumption. intros n' a' Hin'. apply (Hg1 n' a'). right. exact Hin'.
Qed.

Lemma R_unifies m a b : binds_ok m = true -> good a = true -> good b = true -> R m a b -> unifies m a b.
Proof.
  intros Hm Ha Hb HR fuel ax ay H1 H2.
  destruct (R_sound m Hm) as [HS _]. eapply HS; eauto.
Qed.

Lemma Rl_unifies m l1 l2 :
  binds_ok m = true -> Forall (fun t => good t = true) l1 -> Forall (fun t => good t = true) l2 ->
  Rl m l1 l2 -> unifies m (TTuple l1) (TTuple l2).
Proof.
  intros Hm H1 H2 HR fuel ax ay Hx Hy.
  destruct fuel as [|fuel]; [discriminate Hx|].
  apply app_inv in Hx. apply app_inv in Hy.
  destruct Hx as [u1 [HF1 E1]]. destruct Hy as [u2 [HF2 E2]]. subst.
  rewrite ty_eqb_tuple.
  destruct (R_sound m Hm) as [_ [HS _]]. eapply HS; eauto.
Qed.

(* ------------------------------------------------------------------------------------------------ *)
(* apply_subst produces R-related types                                                              *)
(* ------------------------------------------------------------------------------------------------ *)

Lemma app_R_l : forall f m y y1,
  binds_ok m = true -> good y = true -> apply_subst f m y = Ok y1 ->
  forall z, good z = true -> ty_eqb z y1 = true -> R m z y.
Proof.
  induction f as [|f IH]; intros m y y1 Hm Hy H z Hz He; [discriminate H|].
  pose proof (app_inv _ _ _ _ H) as Hi.
  destruct y; try discriminate Hy; try (subst; apply R_eq; exact He).
  - destruct (assoc n m) as [r|] eqn:Ea; [destruct (is_var_named r n) eqn:Es|];
      try (subst; apply R_eq; exact He).
    pose proof (binds_ok_assoc _ _ _ Hm Ea) as Hgr.
    eapply R_varr; [exact Ea|exact Hgr|apply good_refl; exact Hgr|exact Es|].
    exact (IH m r y1 Hm Hgr Hi z Hz He).
  - destruct Hi as [e' [Happ Hu]]. subst. rewrite good_list in Hy.
    destruct z; try (simpl in He; discriminate He). rewrite good_list in Hz. simpl in He.
    apply R_list. exact (IH m y e' Hm Hy Happ z Hz He).
  - destruct Hi as [k' [v' [Hk [Hv [Hkey Hu]]]]]. subst. apply good_map in Hy. destruct Hy as [_ [Hgk Hgv]].
    destruct z; try (simpl in He; discriminate He). apply good_map in Hz. destruct Hz as [_ [Hzk Hzv]].
    simpl in He. apply andb_true_iff in He. destruct He as [He1 He2].
    apply R_map; [exact (IH m y2 k' Hm Hgk Hk z1 Hzk He1)|exact (IH m y3 v' Hm Hgv Hv z2 Hzv He2)].
  - destruct Hi as [us [HF Hu]]. subst. apply good_obj in Hy. destruct Hy as [_ Hgy].
    destruct z; try (simpl in He; discriminate He). apply good_obj in Hz. destruct Hz as [_ Hgz].
    apply ty_eqb_obj_spec in He. destruct He as [Hlen Hrel].
    apply R_obj.
    + rewrite Hlen. symmetry. exact (F2_length _ _ _ HF).
    + apply Rf_intro. intros n a Hin. destruct (Hrel n a Hin) as [u [Hu Heq]].
      destruct (frel_assoc_r _ _ _ _ _ HF Hu) as [b [Hb Happ]].
      exists b. split; [exact Hb|].
      exact (IH m b u Hm (Hgy _ _ (assoc_In _ _ _ Hb)) Happ a (Hgz _ _ Hin) Heq).
  - destruct Hi as [e' [Happ Hu]]. subst. rewrite good_maybe in Hy.
    destruct z; try (simpl in He; discriminate He). rewrite good_maybe in Hz. simpl in He.
    apply R_maybe. exact (IH m y e' Hm Hy Happ z Hz He).
Qed.

Lemma app_R_r : forall f m y y1,
  binds_ok m = true -> good y = true -> apply_subst f m y = Ok y1 ->
  forall z, good z = true -> ty_eqb y1 z = true -> R m y z.
Proof.
  induction f as [|f IH]; intros m y y1 Hm Hy H z Hz He; [discriminate H|].
  pose proof (app_inv _ _ _ _ H) as Hi.
  destruct y; try discriminate Hy; try (subst; apply R_eq; exact He).
  - destruct (assoc n m) as [r|] eqn:Ea; [destruct (is_var_named r n) eqn:Es|];
      try (subst; apply R_eq; exact He).
    pose proof (binds_ok_assoc _ _ _ Hm Ea) as Hgr.
    eapply R_varl; [exact Ea|exact Hgr|apply good_refl; exact Hgr|exact Es|].
    exact (IH m r y1 Hm Hgr Hi z Hz He).
  - destruct Hi as [e' [Happ Hu]]. subst. rewrite good_list in Hy.
    destruct z; try (simpl in He; discriminate He). rewrite good_list in Hz. simpl in He.
    apply R_list. exact (IH m y e' Hm Hy Happ z Hz He).
  - destruct Hi as [k' [v' [Hk [Hv [Hkey Hu]]]]]. subst. apply good_map in Hy. destruct Hy as [_ [Hgk Hgv]].
    destruct z; try (simpl in He; discriminate He). apply good_map in Hz. destruct Hz as [_ [Hzk Hzv]].
    simpl in He. apply andb_true_iff in He. destruct He as [He1 He2].
    apply R_map; [exact (IH m y2 k' Hm Hgk Hk z1 Hzk He1)|exact (IH m y3 v' Hm Hgv Hv z2 Hzv He2)].
  - destruct Hi as [us [HF Hu]]. subst. apply good_obj in Hy. destruct Hy as [_ Hgy].
    destruct z; try (simpl in He; discriminate He). apply good_obj in Hz. destruct Hz as [_ Hgz].
    apply ty_eqb_obj_spec in He. destruct He as [Hlen Hrel].
    apply R_obj.
    + rewrite <- Hlen. exact (F2_length _ _ _ HF).
    + apply Rf_intro. intros n b Hin. destruct (frel_in_l _ _ _ _ _ HF Hin) as [u [Hinu Happ]].
      destruct (Hrel n u Hinu) as [c [Hc Heq]].
      exists c. split; [exact Hc|].
      exact (IH m b u Hm (Hgy _ _ Hin) Happ c (Hgz _ _ (assoc_In _ _ _ Hc)) Heq).
  - destruct Hi as [e' [Happ Hu]]. subst. rewrite good_maybe in Hy.
    destruct z; try (simpl in He; discriminate He). rewrite good_maybe in Hz. simpl in He.
    apply R_maybe. exact (IH m y e' Hm Hy Happ z Hz He).
Qed.

(* both sides substituted *)
Lemma app_R : forall N fa fb m a b a1 b1,
  fa + fb <= N -> binds_ok m = true -> good a = true -> good b = true ->
  apply_subst fa m a = Ok a1 -> apply_subst fb m b = Ok b1 -> ty_eqb a1 b1 = true -> R m a b.
Proof.
  induction N as [|N IH]; intros fa fb m a b a1 b1 HN Hm Ha Hb H1 H2 He.
  { destruct fa; [discriminate H1|lia]. }
  pose proof (app_good _ _ _ _ Hm Ha H1) as Hga1. pose proof (app_good _ _ _ _ Hm Hb H2) as Hgb1.
  destruct fa as [|fa]; [discriminate H1|]. destruct fb as [|fb]; [discriminate H2|].
  (* a bound variable on the left is looked up *)
  assert (forall n r, a = TVar n -> assoc n m = Some r -> is_var_named r n = false -> R m a b) as Hvl.
  { intros n r E Ea Es. subst a. pose proof (app_inv _ _ _ _ H1) as Hi. cbv iota beta in Hi. rewrite Ea, Es in Hi.
    pose proof (binds_ok_assoc _ _ _ Hm Ea) as Hgr.
    eapply R_varl; [exact Ea|exact Hgr|apply good_refl; exact Hgr|exact Es|].
    apply (IH fa (S fb) m r b a1 b1); try assumption. lia. }
  assert (forall n r, b = TVar n -> assoc n m = Some r -> is_var_named r n = false -> R m a b) as Hvr.
  { intros n r E Ea Es. subst b. pose proof (app_inv _ _ _ _ H2) as Hi. cbv iota beta in Hi. rewrite Ea, Es in Hi.
    pose proof (binds_ok_assoc _ _ _ Hm Ea) as Hgr.
    eapply R_varr; [exact Ea|exact Hgr|apply good_refl; exact Hgr|exact Es|].
    apply (IH (S fa) fb m a r a1 b1); try assumption. lia. }
  (* an argument that is its own result *)
  assert (a1 = a -> R m a b) as Hsl.
  { intros E. subst a1. exact (app_R_l _ _ _ _ Hm Hb H2 a Ha He). }
  assert (b1 = b -> R m a b) as Hsr.
  { intros E. subst b1. exact (app_R_r _ _ _ _ Hm Ha H1 b Hb He). }
  pose proof (app_inv _ _ _ _ H1) as Hi1. pose proof (app_inv _ _ _ _ H2) as Hi2.
  destruct a; try discriminate Ha; try (apply Hsl; exact Hi1).
  { (* variable on the left *)
    destruct (assoc n m) as [r|] eqn:Ea; [destruct (is_var_named r n) eqn:Es|]; try (apply Hsl; exact Hi1).
    eapply Hvl; eauto. }
  all: destruct b; try discriminate Hb; try (apply Hsr; exact Hi2);
    try (destruct (assoc n m) as [r|] eqn:Ea; [destruct (is_var_named r n) eqn:Es|];
         [apply Hsr; exact Hi2|eapply Hvr; eauto|apply Hsr; exact Hi2]).
  all: try (destruct Hi1 as [k1 [v1 [Hk1 [Hv1 [Hkey1 E1]]]]]); try (destruct Hi1 as [e1 [Happ1 E1]]);
    try (destruct Hi2 as [k2 [v2 [Hk2 [Hv2 [Hkey2 E2]]]]]); try (destruct Hi2 as [e2 [Happ2 E2]]);
    subst a1 b1; try (simpl in He; discriminate He).
  - (* list *) rewrite good_list in *. simpl in He. apply R_list.
    apply (IH fa fb m a b e1 e2); try assumption. lia.
  - (* map *) apply good_map in Ha. apply good_map in Hb.
    destruct Ha as [_ [Hgk1 Hgv1]]. destruct Hb as [_ [Hgk2 Hgv2]].
    simpl in He. apply andb_true_iff in He. destruct He as [He1 He2].
    apply R_map; [apply (IH fa fb m a2 b2 k1 k2)|apply (IH fa fb m a3 b3 v1 v2)]; try assumption; lia.
  - (* obj *) apply good_obj in Ha. apply good_obj in Hb. destruct Ha as [_ Hg1]. destruct Hb as [_ Hg2].
    apply ty_eqb_obj_spec in He. destruct He as [Hlen Hrel].
    apply R_obj.
    + rewrite (F2_length _ _ _ Happ1), (F2_length _ _ _ Happ2). exact Hlen.
    + apply Rf_intro. intros n x Hin. destruct (frel_in_l _ _ _ _ _ Happ1 Hin) as [u [Hinu Hu]].
      destruct (Hrel n u Hinu) as [v [Hv Heq]].
      destruct (frel_assoc_r _ _ _ _ _ Happ2 Hv) as [y [Hy Hvy]].
      exists y. split; [exact Hy|].
      apply (IH fa fb m x y u v); try assumption; [lia|exact (Hg1 _ _ Hin)|exact (Hg2 _ _ (assoc_In _ _ _ Hy))].
  - (* maybe *) rewrite good_maybe in *. simpl in He. apply R_maybe.
    apply (IH fa fb m a b e1 e2); try assumption. lia.
Qed.

(* ------------------------------------------------------------------------------------------------ *)
(* The unifier                                                                                       *)
(* ------------------------------------------------------------------------------------------------ *)

Definition post (m : subst) (x y : ty) (m' : subst) : Prop :=
  acyclic m' /\ binds_ok m' = true /\ extends m m' /\ R m' x y.

Lemma post_same m x y : binds_ok m = true -> acyclic m -> R m x y -> post m x y m.
Proof.
  intros Hm Hac HR. split; [exact Hac|split; [exact Hm|split; [|exact HR]]].
  apply extends_refl. apply binds_ok_wf. exact Hm.
Qed.

Lemma good_simple t : good t = true -> simple t = true.
Proof. unfold good. rewrite !andb_true_iff. tauto. Qed.

(* the variable arm: x := apply_subst m y, after the occurs check *)
Lemma bind_var_core fa n y m r m' :
  good y = true -> binds_ok m = true -> acyclic m -> bind_var fa n y m = Ok (r, m') ->
  acyclic m' /\ binds_ok m' = true /\ extends m m' /\ R m' (TVar n) y /\ R m' y (TVar n).
Proof.
  intros Hy Hm Hac H. unfold bind_var in H.
  destruct (apply_subst fa m y) as [y1| | |] eqn:Eapp; simpl in H; try discriminate H.
  destruct (free_from y1 n) as [[|]| | |] eqn:Efree; simpl in H; try discriminate H.
  pose proof (app_good _ _ _ _ Hm Hy Eapp) as Hgy1.
  pose proof (free_from_occurs _ _ (good_simple _ Hgy1) Efree) as Hocc.
  assert (m' = update n y1 m /\ forall k, assoc n m = Some k -> ty_eqb k y1 = true) as [Em' Hk].
  { destruct (assoc n m) as [k|].
    - destruct (ty_eqb k y1) eqn:Ek; [|discriminate H]. injection H as _ H. subst m'.
      split; [reflexivity|]. intros k' Hk'. injection Hk' as Hk'. subst k'. exact Ek.
    - injection H as _ H. subst m'. split; [reflexivity|]. intros k' Hk'. discriminate Hk'. }
  subst m'.
  assert (extends m (update n y1 m)) as Hext.
  { apply extends_update; [apply binds_ok_wf; exact Hm|apply good_wf; exact Hgy1|exact Hk]. }
  assert (binds_ok (update n y1 m) = true) as Hm' by (apply binds_ok_update; assumption).
  assert (is_var_named y1 n = false) as Hns.
  { destruct (is_var_named y1 n) eqn:E; [|reflexivity]. apply is_var_named_occurs in E. congruence. }
  split; [|split; [exact Hm'|split; [exact Hext|split]]].
  - apply acyclic_update; try assumption. intros b Hb. exact (app_resolved fa m y y1 Hm Hy Eapp b Hb).
  - eapply R_varl; [apply assoc_update_same|exact Hgy1|apply good_refl; exact Hgy1|exact Hns|].
    apply (R_ext m); [exact Hext|]. exact (app_R_l fa m y y1 Hm Hy Eapp y1 Hgy1 (good_refl _ Hgy1)).
  - eapply R_varr; [apply assoc_update_same|exact Hgy1|apply good_refl; exact Hgy1|exact Hns|].
    apply (R_ext m); [exact Hext|]. exact (app_R_r fa m y y1 Hm Hy Eapp y1 Hgy1 (good_refl _ Hgy1)).
Qed.

Lemma unify_var_var fa f a b m :
  unify fa (S f) (TVar a) (TVar b) m =
  let* ax := apply_subst fa m (TVar a) in
  let* ay := apply_subst fa m (TVar b) in
  if ty_eqb ax ay then Ok (TVar a, m) else bind_var fa a (TVar b) m.
Proof. reflexivity. Qed.

Lemma unify_var_r fa f x n m : is_var x = false -> unify fa (S f) x (TVar n) m = bind_var fa n x m.
Proof. destruct x; intros H; try discriminate H; reflexivity. Qed.

Definition sound_at (fa f : nat) : Prop :=
  forall x y m r m',
    good x = true -> good y = true -> binds_ok m = true -> acyclic m ->
    unify fa f x y m = Ok (r, m') -> post m x y m'.

Lemma unify_fields_post fa f f2 :
  sound_at fa f -> (forall n b, In (n, b) f2 -> good b = true) ->
  forall f1 m fs m', (forall n a, In (n, a) f1 -> good a = true) -> binds_ok m = true -> acyclic m ->
  unify_fields fa f f2 f1 m = Ok (fs, m') ->
  acyclic m' /\ binds_ok m' = true /\ extends m m' /\ Rf m' f1 f2.
Proof.
  intros HS Hg2. induction f1 as [|[n a] r1 IH]; intros m fs m' Hg1 Hm Hac H; simpl in H.
  - injection H as _ H. subst m'. split; [exact Hac|split; [exact Hm|split; [|constructor]]].
    apply extends_refl. apply binds_ok_wf. exact Hm.
  - destruct (assoc n f2) as [b|] eqn:Eb; [|discriminate H].
    destruct (unify fa f a b m) as [[u m1]| | |] eqn:E1; simpl in H; try discriminate H.
    match type of H with rbind ?e _ = _ => destruct e as [[us m2]| | |] eqn:E2 end;
      simpl in H; try discriminate H.
    injection H as _ H. subst m2.
    destruct (HS a b m u m1 (Hg1 n a (or_introl Logic.eq_refl)) (Hg2 n b (assoc_In _ _ _ Eb)) Hm Hac E1)
      as [Hac1 [Hm1 [He1 HR1]]].
    destruct (IH m1 us m' (fun n' a' Hin => Hg1 n' a' (or_intror Hin)) Hm1 Hac1 E2) as [Hac2 [Hm2 [He2 HR2]]].
    split; [exact Hac2|split; [exact Hm2|split; [eapply extends_trans; eauto|]]].
    econstructor; [exact Eb|exact (R_ext _ _ _ _ He2 HR1)|exact HR2].
Qed.

Lemma unify_list_post fa f :
  sound_at fa f ->
  forall l1 l2 m us m', Forall (fun t => good t = true) l1 -> Forall (fun t => good t = true) l2 ->
  List.length l1 = List.length l2 -> binds_ok m = true -> acyclic m ->
  unify_list fa f l1 l2 m = Ok (us, m') ->
  acyclic m' /\ binds_ok m' = true /\ extends m m' /\ Rl m' l1 l2.
Proof.
  intros HS. induction l1 as [|a r1 IH]; intros [|b r2] m us m' Hg1 Hg2 Hlen Hm Hac H;
    simpl in Hlen; try discriminate Hlen; simpl in H.
  - injection H as _ H. subst m'. split; [exact Hac|split; [exact Hm|split; [|constructor]]].
    apply extends_refl. apply binds_ok_wf. exact Hm.
  - inversion Hg1 as [|? ? Hga Hgr1]; subst. inversion Hg2 as [|? ? Hgb Hgr2]; subst.
    destruct (unify fa f a b m) as [[u m1]| | |] eqn:E1; simpl in H; try discriminate H.
    match type of H with rbind ?e _ = _ => destruct e as [[us' m2]| | |] eqn:E2 end;
      simpl in H; try discriminate H.
    injection H as _ H. subst m2.
    destruct (HS a b m u m1 Hga Hgb Hm Hac E1) as [Hac1 [Hm1 [He1 HR1]]].
    assert (List.length r1 = List.length r2) as Hlen' by lia.
    destruct (IH r2 m1 us' m' Hgr1 Hgr2 Hlen' Hm1 Hac1 E2) as [Hac2 [Hm2 [He2 HR2]]].
    split; [exact Hac2|split; [exact Hm2|split; [eapply extends_trans; eauto|]]].
    constructor; [exact (R_ext _ _ _ _ He2 HR1)|exact HR2].
Qed.

Lemma unify_sound_good fa : forall f, sound_at fa f.
Proof.
  induction f as [|f IH]; intros x y m r m' Hx Hy Hm Hac HU; [discriminate HU|].
  destruct (is_var x) eqn:Evx.
  - destruct x; try discriminate Evx. destruct (is_var y) eqn:Evy.
    + destruct y; try discriminate Evy. rewrite unify_var_var in HU.
      destruct (apply_subst fa m (TVar n)) as [ax| | |] eqn:Eax; simpl in HU; try discriminate HU.
      destruct (apply_subst fa m (TVar n0)) as [ay| | |] eqn:Eay; simpl in HU; try discriminate HU.
      destruct (ty_eqb ax ay) eqn:Eq.
      * injection HU as _ HU. subst m'. apply post_same; try assumption.
        exact (app_R (fa + fa) fa fa m (TVar n) (TVar n0) ax ay (Nat.le_refl _) Hm Hx Hy Eax Eay Eq).
      * destruct (bind_var_core _ _ _ _ _ _ Hy Hm Hac HU) as [H1 [H2 [H3 [H4 _]]]].
        split; [exact H1|split; [exact H2|split; [exact H3|exact H4]]].
    + rewrite unify_var in HU by exact Evy.
      destruct (bind_var_core _ _ _ _ _ _ Hy Hm Hac HU) as [H1 [H2 [H3 [H4 _]]]].
      split; [exact H1|split; [exact H2|split; [exact H3|exact H4]]].
  - destruct (is_var y) eqn:Evy.
    + destruct y; try discriminate Evy. rewrite unify_var_r in HU by exact Evx.
      destruct (bind_var_core _ _ _ _ _ _ Hx Hm Hac HU) as [H1 [H2 [H3 [_ H4]]]].
      split; [exact H1|split; [exact H2|split; [exact H3|exact H4]]].
    + destruct x; try discriminate Hx; try discriminate Evx;
        destruct y; try discriminate Hy; try discriminate Evy; try (simpl in HU; discriminate HU).
      * simpl in HU. injection HU as _ HU. subst m'. apply post_same; try assumption. apply R_eq. reflexivity.
      * simpl in HU. injection HU as _ HU. subst m'. apply post_same; try assumption. apply R_eq. reflexivity.
      * simpl in HU. injection HU as _ HU. subst m'. apply post_same; try assumption. apply R_eq. reflexivity.
      * simpl in HU. injection HU as _ HU. subst m'. apply post_same; try assumption. apply R_eq. reflexivity.
      * (* list *) rewrite unify_tlist in HU. rewrite good_list in *.
        destruct (unify fa f x y m) as [[e m1]| | |] eqn:E; simpl in HU; try discriminate HU.
        injection HU as _ HU. subst m1.
        destruct (IH x y m e m' Hx Hy Hm Hac E) as [H1 [H2 [H3 H4]]].
        split; [exact H1|split; [exact H2|split; [exact H3|apply R_list; exact H4]]].
      * (* map *) rewrite unify_tmap in HU.
        apply good_map in Hx. apply good_map in Hy.
        destruct Hx as [_ [Hgk1 Hgv1]]. destruct Hy as [_ [Hgk2 Hgv2]].
        destruct (unify fa f x1 y1 m) as [[k m1]| | |] eqn:E1; simpl in HU; try discriminate HU.
        destruct (unify fa f x2 y2 m1) as [[v m2]| | |] eqn:E2; simpl in HU; try discriminate HU.
        destruct (mk_map k v) as [t| | |] eqn:E3; simpl in HU; try discriminate HU.
        injection HU as _ HU. subst m2.
        destruct (IH x1 y1 m k m1 Hgk1 Hgk2 Hm Hac E1) as [Hac1 [Hm1 [He1 HR1]]].
        destruct (IH x2 y2 m1 v m' Hgv1 Hgv2 Hm1 Hac1 E2) as [Hac2 [Hm2 [He2 HR2]]].
        split; [exact Hac2|split; [exact Hm2|split; [eapply extends_trans; eauto|]]].
        apply R_map; [exact (R_ext _ _ _ _ He2 HR1)|exact HR2].
      * (* obj *) rewrite unify_obj in HU.
        destruct (Nat.eqb (List.length fs) (List.length fs0)) eqn:El; simpl in HU; [|discriminate HU].
        destruct (unify_fields fa f fs0 fs m) as [[us m1]| | |] eqn:E; simpl in HU; try discriminate HU.
        injection HU as _ HU. subst m1.
        apply good_obj in Hx. apply good_obj in Hy. destruct Hx as [_ Hg1]. destruct Hy as [_ Hg2].
        destruct (unify_fields_post fa f fs0 IH Hg2 fs m us m' Hg1 Hm Hac E) as [H1 [H2 [H3 H4]]].
        split; [exact H1|split; [exact H2|split; [exact H3|]]].
        apply R_obj; [apply Nat.eqb_eq; exact El|exact H4].
      * (* maybe *) rewrite unify_tmaybe in HU. rewrite good_maybe in *.
        destruct (unify fa f x y m) as [[e m1]| | |] eqn:E; simpl in HU; try discriminate HU.
        injection HU as _ HU. subst m1.
        destruct (IH x y m e m' Hx Hy Hm Hac E) as [H1 [H2 [H3 H4]]].
        split; [exact H1|split; [exact H2|split; [exact H3|apply R_maybe; exact H4]]].
Qed.

(* ------------------------------------------------------------------------------------------------ *)
(* The clause                                                                                        *)
(* ------------------------------------------------------------------------------------------------ *)

Lemma two_ok_cases t :
  two_ok t = true -> (exists l, t = TTuple l /\ Forall (fun t => good t = true) l) \/ good t = true.
Proof.
  intros H. destruct t; try (right; exact H).
  left. exists l. split; [reflexivity|].
  unfold two_ok in H. simpl in H. rewrite !andb_true_iff, !negb_true_iff, !existsb_false, !forallb_forall in H.
  destruct H as [[[H1 H2] H3] H4]. apply Forall_forall. intros t Hin. unfold good.
  rewrite (H1 _ Hin), (H2 _ Hin), (H3 _ Hin), (H4 _ Hin). reflexivity.
Qed.

Lemma bind_var_tuple fa n l m r m' : bind_var fa n (TTuple l) m = Ok (r, m') -> False.
Proof.
  unfold bind_var. intros H.
  destruct (apply_subst fa m (TTuple l)) as [y1| | |] eqn:E; simpl in H; try discriminate H.
  destruct fa as [|fa]; [discriminate E|]. apply app_inv in E. destruct E as [us [_ E]]. subst y1.
  simpl in H. discriminate H.
Qed.

Lemma unify_sound_two_sided : forall fa f x y m r m',
  two_ok x = true -> two_ok y = true -> binds_ok m = true -> acyclic m ->
  unify fa f x y m = Ok (r, m') ->
  acyclic m' /\ binds_ok m' = true /\ extends m m' /\ unifies m' x y.
Proof.
  intros fa f x y m r m' Hx Hy Hm Hac HU.
  destruct f as [|f]; [discriminate HU|].
  destruct (two_ok_cases _ Hx) as [[l1 [Ex Hg1]]|Hgx]; destruct (two_ok_cases _ Hy) as [[l2 [Ey Hg2]]|Hgy]; subst.
  - (* tuple / tuple *)
    rewrite unify_tuple in HU.
    destruct (Nat.eqb (List.length l1) (List.length l2)) eqn:El; simpl in HU; [|discriminate HU].
    destruct (unify_list fa f l1 l2 m) as [[ks m1]| | |] eqn:E; simpl in HU; try discriminate HU.
    injection HU as _ HU. subst m1. apply Nat.eqb_eq in El.
    destruct (unify_list_post fa f (unify_sound_good fa f) l1 l2 m ks m' Hg1 Hg2 El Hm Hac E)
      as [H1 [H2 [H3 H4]]].
    split; [exact H1|split; [exact H2|split; [exact H3|]]].
    apply Rl_unifies; assumption.
  - (* tuple / simple *)
    exfalso. destruct y; try discriminate Hgy; try (simpl in HU; discriminate HU).
    rewrite unify_var_r in HU by reflexivity. eapply bind_var_tuple; eauto.
  - (* simple / tuple *)
    exfalso. destruct x; try discriminate Hgx; try (simpl in HU; discriminate HU).
    rewrite unify_var in HU by reflexivity. eapply bind_var_tuple; eauto.
  - destruct (unify_sound_good fa (S f) x y m r m' Hgx Hgy Hm Hac HU) as [H1 [H2 [H3 H4]]].
    split; [exact H1|split; [exact H2|split; [exact H3|]]].
    apply R_unifies; assumption.
Qed.

Print Assumptions unify_sound_two_sided.

(* non-vacuity: the hypotheses are satisfiable and the unifier binds variables on both sides *)
Example two_sided_example :
  let x := TTuple [TVar "a"; TObj [("p", TVar "b"); ("q", TList (TVar "c"))]]%string in
  let y := TTuple [TMap (TVar "k") (TVar "c"); TObj [("q", TVar "d"); ("p", TVar "a")]]%string in
  two_ok x = true /\ two_ok y = true /\ binds_ok [("k", TVar "k")]%string = true /\
  acyclic [("k", TVar "k")]%string /\
  exists r m', unify 100 100 x y [("k", TVar "k")]%string = Ok (r, m') /\ unifies m' x y.
Proof.
  cbv zeta. assert (acyclic [("k", TVar "k")]%string) as Hac.
  { exists (fun _ => 0). intros a t b Ha Hns Hb. simpl in Ha.
    destruct (String.eqb a "k") eqn:E; [|discriminate Ha]. injection Ha as Ha. subst t.
    apply String.eqb_eq in E. subst a. vm_compute in Hns. discriminate Hns. }
  split; [reflexivity|split; [reflexivity|split; [reflexivity|split; [exact Hac|]]]].
  destruct (unify 100 100
              (TTuple [TVar "a"; TObj [("p", TVar "b"); ("q", TList (TVar "c"))]])%string
              (TTuple [TMap (TVar "k") (TVar "c"); TObj [("q", TVar "d"); ("p", TVar "a")]])%string
              [("k", TVar "k")]%string) as [[r m']| | |] eqn:E; try (vm_compute in E; discriminate E).
  exists r, m'. split; [reflexivity|].
  eapply unify_sound_two_sided; try exact E; try reflexivity. exact Hac.
Qed.
