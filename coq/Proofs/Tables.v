(* Finite-table obligations over coq/Gen/Generated.v (regenerated from /repo on every check). *)
From Coq Require Import List String Ascii Bool NArith ZArith.
From Yae Require Import Base.Sexp Gen.Generated Model.Lexer Model.Conc Model.Api.
Import ListNotations.
Open Scope string_scope.

(* the rule list Model/Lexer.v:lexicon transcribes *)
Definition modelled_lexer_rules : list string := [
  "l.addRule(str(token.COLON))";
  "l.addRule(str(token.COMMA))";
  "l.addRule(str(token.LEFT_PAREN))";
  "l.addRule(str(token.RIGHT_PAREN))";
  "l.addRule(str(token.LEFT_BRACKET))";
  "l.addRule(str(token.RIGHT_BRACKET))";
  "l.addRule(str(token.LEFT_BRACE))";
  "l.addRule(str(token.RIGHT_BRACE))";
  "for keywords: l.addRule(keyword(kw))";
  "for oper.Sort(builtInOpers): l.addRule(primOper(op.Kind))";
  "for oper.Sort(ops): l.addOper(op.Kind)";
  "l.addRule(keyword(token.TRUE))";
  "l.addRule(keyword(token.FALSE))";
  "l.addRule(regex(token.NUM, <(?:0|[1-9][0-9]*)(?:[.][0-9]+)+(?:[eE][-+]?[0-9]+)?>))";
  "l.addRule(regex(token.NUM, <(?:0|[1-9][0-9]*)(?:[.][0-9]+)?(?:[eE][-+]?[0-9]+)+>))";
  "l.addRule(regex(token.NUM, <0b(?:0|1[0-1]*)>))";
  "l.addRule(regex(token.NUM, <0x(?:0|[1-9a-fA-F][0-9a-fA-F]*)>))";
  "l.addRule(regex(token.NUM, <0o(?:0|[1-7][0-7]*)>))";
  "l.addRule(regex(token.NUM, <(?:0|[1-9][0-9]*)>))";
  "l.addRule(regex(token.STR, <""(?:[^""\\]*|\\[""\\trnbf\/]|\\u[0-9a-fA-F]{4})*"">))";
  "l.addRule(regex(token.STR, <`[^`]*`>))";
  "l.addRule(regex(token.TIME, <'[^`""']*'>))";
  "l.addRule(regex(token.SYM, <[a-zA-Z\p{L}_][a-zA-Z0-9\p{L}_]*>))"
].

Lemma lexer_rules_pinned : Generated.lexer_rules = modelled_lexer_rules.
Proof. vm_compute. reflexivity. Qed.

Lemma lexer_tables_pinned :
  Generated.lexer_keywords = [] /\
  Generated.lexer_builtInOpers = ["{token.DOT, oper.BP_MEMBER, oper.INFIX_L}"; "{token.QUESTION, oper.BP_COND, oper.INFIX_R}"].
Proof. vm_compute. split; reflexivity. Qed.

Lemma token_consts_pinned :
  Generated.token_consts =
  [("TRUE", "true"); ("FALSE", "false"); ("QUESTION", "?"); ("COMMA", ","); ("DOT", "."); ("COLON", ":");
   ("LEFT_PAREN", "("); ("RIGHT_PAREN", ")"); ("LEFT_BRACKET", "["); ("RIGHT_BRACKET", "]");
   ("LEFT_BRACE", "{"); ("RIGHT_BRACE", "}"); ("SYM", "<sym>"); ("NUM", "<num>"); ("STR", "<str>");
   ("TIME", "<time>"); ("EOF", "<END-OF-FILE>")].
Proof. vm_compute. reflexivity. Qed.

(* below 128 the Unicode letter table is exactly the ASCII letters (justifies the shortcut in Lexer.is_letter) *)
Fixpoint upto (n : nat) : list N := match n with O => [] | S m => upto m ++ [N.of_nat m] end.
Lemma letter_table_ascii :
  forallb (fun c => Bool.eqb (in_ranges c letter_ranges) (is_ascii_alpha c)) (upto 128) = true.
Proof. vm_compute. reflexivity. Qed.

(* C14: the inventory of package-level mutable state written outside init is the one Model/Conc.v covers *)
Lemma shared_state_inventory : Generated.shared_state = Conc.modelled_shared_state.
Proof. vm_compute. reflexivity. Qed.

(* C12: the places where the source installs a deferred recover are the ones Model/Api.v assumes *)
Lemma recover_sites_pinned : Generated.recover_sites = Api.modelled_recover_sites.
Proof. vm_compute. reflexivity. Qed.
