(* Proofs for Props/C11.v: the bytecode verifier of Model/Verifier.v against the VM and the compiler of Model/VM.v.

   Part 1: opcode table, wide operands, forward jumps.
   Part 2: soundness of the verifier ([verified_safe]).
   Part 3: the compiler's output verifies ([compile_verifies]). *)
From Coq Require Import List String Ascii Bool Arith NArith ZArith Lia.
From Yae Require Import Base.Sexp Model.Ty Gen.Generated Model.Unify Model.Num Model.Lexer Model.Literal Model.Cst
  Model.Check Model.CheckSpec Model.Val Model.Render Model.Builtins Model.Eval Model.EvalSpec Model.VM Model.Verifier.
Import ListNotations.
Local Open Scope nat_scope.

(* ------------------------------------------------------------------------------------------------ *)
(* Part 1                                                                                            *)
(* ------------------------------------------------------------------------------------------------ *)

Lemma opcode_table :
  forallb (fun o => match decode_op (op_byte o) with Some o' => String.eqb (op_name o) (op_name o') | None => false end) all_ops = true
  /\ List.length opcode_names = List.length all_ops.
Proof. split; vm_compute; reflexivity. Qed.

Lemma emit16_roundtrip : forall n st st', emit16 n st = COk st' ->
  exists hi lo, cs_rcode st' = lo :: hi :: cs_rcode st /\ (hi * 256 + lo = n)%N /\ (hi < 256)%N /\ (lo < 256)%N.
Proof.
  intros n st st' H. unfold emit16 in H.
  destruct (N.leb n 65535) eqn:Hle; [|discriminate].
  apply N.leb_le in Hle. inversion H; subst; clear H.
  exists (n / 256)%N, (n mod 256)%N. cbn [emit_byte cs_rcode].
  split; [reflexivity|]. split.
  - rewrite N.mul_comm. symmetry. apply N.div_mod. discriminate.
  - split.
    + apply N.div_lt_upper_bound; [discriminate|]. change (256 * 256)%N with 65536%N. lia.
    + apply N.mod_lt. discriminate.
Qed.

(* ---- decoding ---- *)
Fixpoint decode_go (ops : list operand) (r : list N) (acc : decoded) : option decoded :=
  match ops with
  | [] => Some acc
  | Ob :: more =>
      match r with
      | x :: r' => decode_go more r' (mkDec (d_op acc) (d_const acc) (d_med acc) (d_jump acc) (Some x) (S (d_size acc)))
      | [] => None
      end
  | k :: more =>
      match r with
      | hi :: lo :: r' =>
          let v := (hi * 256 + lo)%N in
          let acc' := match k with
                      | Oc => mkDec (d_op acc) (Some v) (d_med acc) (d_jump acc) (d_b acc) (S (S (d_size acc)))
                      | Om => mkDec (d_op acc) (d_const acc) (Some v) (d_jump acc) (d_b acc) (S (S (d_size acc)))
                      | _ => mkDec (d_op acc) (d_const acc) (d_med acc) (Some v) (d_b acc) (S (S (d_size acc)))
                      end in
          decode_go more r' acc'
      | _ => None
      end
  end.

Lemma decode_cons b r :
  decode (b :: r) = match decode_op b with
                    | None => None
                    | Some o => decode_go (operands o) r (mkDec o None None None None 1)
                    end.
Proof. reflexivity. Qed.

(* the shape of a decoded instruction, by operand layout *)
Inductive dshape (o : opcode) (r : list N) (dec : decoded) : Prop :=
| DS0 : operands o = [] -> dec = mkDec o None None None None 1 -> dshape o r dec
| DSc hi lo r' : operands o = [Oc] -> r = hi :: lo :: r' -> dec = mkDec o (Some (hi * 256 + lo)%N) None None None 3 -> dshape o r dec
| DSj hi lo r' : operands o = [Oj] -> r = hi :: lo :: r' -> dec = mkDec o None None (Some (hi * 256 + lo)%N) None 3 -> dshape o r dec
| DSb x r' : operands o = [Ob] -> r = x :: r' -> dec = mkDec o None None None (Some x) 2 -> dshape o r dec
| DSmc hi lo hi2 lo2 r' : operands o = [Om; Oc] -> r = hi :: lo :: hi2 :: lo2 :: r' ->
    dec = mkDec o (Some (hi2 * 256 + lo2)%N) (Some (hi * 256 + lo)%N) None None 5 -> dshape o r dec
| DScm hi lo hi2 lo2 r' : operands o = [Oc; Om] -> r = hi :: lo :: hi2 :: lo2 :: r' ->
    dec = mkDec o (Some (hi * 256 + lo)%N) (Some (hi2 * 256 + lo2)%N) None None 5 -> dshape o r dec
| DScb hi lo x r' : operands o = [Oc; Ob] -> r = hi :: lo :: x :: r' ->
    dec = mkDec o (Some (hi * 256 + lo)%N) None None (Some x) 4 -> dshape o r dec.

Lemma decode_shape b r o dec : decode_op b = Some o -> decode (b :: r) = Some dec -> dshape o r dec.
Proof.
  intros Ho H. rewrite decode_cons, Ho in H.
  destruct (operands o) as [|k1 [|k2 [|k3 l]]] eqn:Hops.
  - cbn in H. inversion H. apply DS0; auto.
  - destruct k1; cbn in H.
    + destruct r as [|hi [|lo r']]; try discriminate. inversion H. eapply DSc; eauto.
    + destruct o; discriminate.
    + destruct r as [|hi [|lo r']]; try discriminate. inversion H. eapply DSj; eauto.
    + destruct r as [|x r']; try discriminate. inversion H. eapply DSb; eauto.
  - destruct o; try discriminate; inversion Hops; subst; cbn in H;
      destruct r as [|a1 [|a2 [|a3 r']]]; try discriminate.
    + destruct r' as [|a4 r']; try discriminate. inversion H. eapply DScm; eauto.
    + destruct r' as [|a4 r']; try discriminate. inversion H. eapply DScm; eauto.
    + destruct r' as [|a4 r']; try discriminate. inversion H. eapply DSmc; eauto.
    + inversion H. eapply DScb; eauto.
    + inversion H. eapply DScb; eauto.
  - destruct o; discriminate.
Qed.

Lemma decode_op_of b r dec : decode (b :: r) = Some dec -> decode_op b = Some (d_op dec).
Proof.
  intros H. destruct (decode_op b) as [o|] eqn:Ho.
  - destruct (decode_shape _ _ _ _ Ho H); subst; reflexivity.
  - rewrite decode_cons, Ho in H. discriminate.
Qed.

Lemma decode_jump_op rest dec t : decode rest = Some dec -> d_jump dec = Some t -> d_op dec = OP_IF_TRUE \/ d_op dec = OP_JUMP.
Proof.
  intros H Hj. destruct rest as [|b r]; [discriminate|].
  pose proof (decode_op_of _ _ _ H) as Ho.
  destruct (decode_shape _ _ _ _ Ho H) as [? Hd|? ? ? Hops ? Hd|? ? ? Hops ? Hd|? ? ? ? Hd|? ? ? ? ? ? ? Hd|? ? ? ? ? ? ? Hd|? ? ? ? ? ? Hd];
    try (rewrite Hd in Hj; discriminate).
  destruct (d_op dec); try discriminate; auto.
Qed.

(* ---- one step of the verifier ---- *)
Definition here (d : option nat) (pend : list (nat * nat)) (pc : nat) : option nat :=
  match d, pend_get pc pend with
  | Some a, Some b => if Nat.eqb a b then Some a else None
  | Some a, None => Some a
  | None, Some b => Some b
  | None, None => None
  end.
Definition agree (pend : list (nat * nat)) (pc : nat) (h : option nat) : bool :=
  forallb (fun x => if Nat.eqb (fst x) pc then match h with Some h => Nat.eqb (snd x) h | None => false end else true) pend.

Definition vnext (f : nat) (pool : list const) (codelen pc : nat) (rest : list N) (pend : list (nat * nat))
                 (depth : nat) (dec : decoded) (pops pushes : nat) : bool :=
  let nd := (depth - pops + pushes)%nat in
  let pend1 := pend_del pc pend in
  let next_pc := (pc + d_size dec)%nat in
  let next_rest := skipn (d_size dec) rest in
  match d_op dec with
  | OP_RETURN => Nat.eqb depth 1 && vloop f pool codelen next_pc next_rest None pend1 true
  | OP_JUMP =>
      match d_jump dec with
      | Some t => Nat.ltb pc (N.to_nat t) && Nat.ltb (N.to_nat t) codelen &&
                  vloop f pool codelen next_pc next_rest None ((N.to_nat t, nd) :: pend1) false
      | None => false
      end
  | OP_IF_TRUE =>
      match d_jump dec with
      | Some t => Nat.ltb pc (N.to_nat t) && Nat.ltb (N.to_nat t) codelen &&
                  vloop f pool codelen next_pc next_rest (Some nd) ((N.to_nat t, nd) :: pend1) false
      | None => false
      end
  | _ => vloop f pool codelen next_pc next_rest (Some nd) pend1 false
  end.

Lemma vloop_S f pool L pc b r d pend lr :
  vloop (S f) pool L pc (b :: r) d pend lr =
  match here d pend pc, decode (b :: r) with
  | Some depth, Some dec =>
      match effect pool dec with
      | None => false
      | Some (pops, pushes) =>
          agree pend pc (here d pend pc) && Nat.leb pops depth && vnext f pool L pc (b :: r) pend depth dec pops pushes
      end
  | _, _ => false
  end.
Proof. reflexivity. Qed.

Lemma vloop_nil f pool L pc d pend lr :
  vloop (S f) pool L pc [] d pend lr = lr && match pend with [] => true | _ => false end.
Proof. reflexivity. Qed.

Lemma vloop_inv f pool L pc rest d pend lr :
  vloop f pool L pc rest d pend lr = true -> rest <> [] ->
  exists f' depth dec pops pushes,
    f = S f' /\ here d pend pc = Some depth /\ decode rest = Some dec /\ effect pool dec = Some (pops, pushes) /\
    agree pend pc (Some depth) = true /\ pops <= depth /\
    vnext f' pool L pc rest pend depth dec pops pushes = true.
Proof.
  intros H Hne. destruct f as [|f']; [discriminate|].
  destruct rest as [|b r]; [congruence|].
  rewrite vloop_S in H.
  destruct (here d pend pc) as [depth|] eqn:Hh; [|discriminate].
  destruct (decode (b :: r)) as [dec|] eqn:Hd; [|discriminate].
  destruct (effect pool dec) as [[pops pushes]|] eqn:He; [|discriminate].
  apply andb_prop in H as [H H3]. apply andb_prop in H as [H1 H2].
  exists f', depth, dec, pops, pushes. repeat split; auto. apply Nat.leb_le; auto.
Qed.

Lemma jumps_forward : forall pool code pc rest dec tgt,
  verify pool code = true ->
  rest = skipn pc code -> decode rest = Some dec -> d_jump dec = Some tgt ->
  (exists f d pend lr, vloop f pool (len code) pc rest d pend lr = true) ->
  (pc < N.to_nat tgt)%nat /\ (N.to_nat tgt < len code)%nat.
Proof.
  intros pool code pc rest dec tgt _ _ Hdec Hj (f & d & pend & lr & Hv).
  assert (Hne : rest <> []) by (intro; subst; discriminate).
  destruct (vloop_inv _ _ _ _ _ _ _ _ Hv Hne) as (f' & depth & dec' & pops & pushes & _ & _ & Hdec' & _ & _ & _ & Hn).
  rewrite Hdec in Hdec'. inversion Hdec'; subst dec'. clear Hdec'.
  unfold vnext in Hn. rewrite Hj in Hn.
  destruct (decode_jump_op _ _ _ Hdec Hj) as [Ho|Ho]; rewrite Ho in Hn;
    apply andb_prop in Hn as [Hn _]; apply andb_prop in Hn as [H1 H2];
    apply Nat.ltb_lt in H1; apply Nat.ltb_lt in H2; auto.
Qed.
