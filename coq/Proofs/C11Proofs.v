(* C11 proofs: in progress *)
