(* Proofs for Props/C11.v: the bytecode verifier of Model/Verifier.v against the VM and the compiler of Model/VM.v.

   Part 1: opcode table, wide operands, forward jumps.
   Part 2: soundness of the verifier ([verified_safe]).
   Part 3: the compiler's output verifies ([compile_verifies]). *)
From Coq Require Import List String Ascii Bool Arith NArith ZArith Lia.
From Yae Require Import Base.Sexp Model.Ty Gen.Generated Model.Unify Model.Num Model.Lexer Model.Literal Model.Cst
  Model.Check Model.CheckSpec Model.Val Model.Render Model.Builtins Model.Eval Model.EvalSpec Model.VM Model.Verifier
  Proofs.ExprInd Proofs.C05Proofs.
Import ListNotations.
Local Open Scope nat_scope.
Local Open Scope list_scope.

(* ------------------------------------------------------------------------------------------------ *)
(* Part 1                                                                                            *)
(* ------------------------------------------------------------------------------------------------ *)

Lemma opcode_table :
  forallb (fun o => match decode_op (op_byte o) with Some o' => String.eqb (op_name o) (op_name o') | None => false end) all_ops = true
  /\ List.length opcode_names = List.length all_ops.
Proof. split; vm_compute; reflexivity. Qed.

Lemma emit16_roundtrip : forall n st st', emit16 n st = COk st' ->
  exists hi lo, cs_rcode st' = lo :: hi :: cs_rcode st /\ (hi * 256 + lo = n)%N /\ (hi < 256)%N /\ (lo < 256)%N.
Proof.
  intros n st st' H. unfold emit16 in H.
  destruct (N.leb n 65535) eqn:Hle; [|discriminate].
  apply N.leb_le in Hle. inversion H; subst; clear H.
  exists (n / 256)%N, (n mod 256)%N. cbn [emit_byte cs_rcode].
  split; [reflexivity|]. split.
  - rewrite N.mul_comm. symmetry. apply N.div_mod. discriminate.
  - split.
    + apply N.div_lt_upper_bound; [discriminate|]. change (256 * 256)%N with 65536%N. lia.
    + apply N.mod_lt. discriminate.
Qed.

Lemma skipn_add {X} b : forall (l : list X) a, skipn a (skipn b l) = skipn (b + a) l.
Proof.
  induction b as [|b IH]; intros l a; [reflexivity|].
  destruct l; cbn [skipn Nat.add]; [destruct a; reflexivity|apply IH].
Qed.

(* ---- decoding ---- *)
Fixpoint decode_go (ops : list operand) (r : list N) (acc : decoded) : option decoded :=
  match ops with
  | [] => Some acc
  | Ob :: more =>
      match r with
      | x :: r' => decode_go more r' (mkDec (d_op acc) (d_const acc) (d_med acc) (d_jump acc) (Some x) (S (d_size acc)))
      | [] => None
      end
  | k :: more =>
      match r with
      | hi :: lo :: r' =>
          let v := (hi * 256 + lo)%N in
          let acc' := match k with
                      | Oc => mkDec (d_op acc) (Some v) (d_med acc) (d_jump acc) (d_b acc) (S (S (d_size acc)))
                      | Om => mkDec (d_op acc) (d_const acc) (Some v) (d_jump acc) (d_b acc) (S (S (d_size acc)))
                      | _ => mkDec (d_op acc) (d_const acc) (d_med acc) (Some v) (d_b acc) (S (S (d_size acc)))
                      end in
          decode_go more r' acc'
      | _ => None
      end
  end.

Lemma decode_cons b r :
  decode (b :: r) = match decode_op b with
                    | None => None
                    | Some o => decode_go (operands o) r (mkDec o None None None None 1)
                    end.
Proof. reflexivity. Qed.

(* the shape of a decoded instruction, by operand layout *)
Inductive dshape (o : opcode) (r : list N) (dec : decoded) : Prop :=
| DS0 : operands o = [] -> dec = mkDec o None None None None 1 -> dshape o r dec
| DSc hi lo r' : operands o = [Oc] -> r = hi :: lo :: r' -> dec = mkDec o (Some (hi * 256 + lo)%N) None None None 3 -> dshape o r dec
| DSj hi lo r' : operands o = [Oj] -> r = hi :: lo :: r' -> dec = mkDec o None None (Some (hi * 256 + lo)%N) None 3 -> dshape o r dec
| DSb x r' : operands o = [Ob] -> r = x :: r' -> dec = mkDec o None None None (Some x) 2 -> dshape o r dec
| DSmc hi lo hi2 lo2 r' : operands o = [Om; Oc] -> r = hi :: lo :: hi2 :: lo2 :: r' ->
    dec = mkDec o (Some (hi2 * 256 + lo2)%N) (Some (hi * 256 + lo)%N) None None 5 -> dshape o r dec
| DScm hi lo hi2 lo2 r' : operands o = [Oc; Om] -> r = hi :: lo :: hi2 :: lo2 :: r' ->
    dec = mkDec o (Some (hi * 256 + lo)%N) (Some (hi2 * 256 + lo2)%N) None None 5 -> dshape o r dec
| DScb hi lo x r' : operands o = [Oc; Ob] -> r = hi :: lo :: x :: r' ->
    dec = mkDec o (Some (hi * 256 + lo)%N) None None (Some x) 4 -> dshape o r dec.

Lemma decode_shape b r o dec : decode_op b = Some o -> decode (b :: r) = Some dec -> dshape o r dec.
Proof.
  intros Ho H. rewrite decode_cons, Ho in H.
  destruct (operands o) as [|k1 [|k2 [|k3 l]]] eqn:Hops.
  - cbn in H. inversion H. apply DS0; auto.
  - destruct k1; cbn in H.
    + destruct r as [|hi [|lo r']]; try discriminate. inversion H. eapply DSc; eauto.
    + destruct o; discriminate.
    + destruct r as [|hi [|lo r']]; try discriminate. inversion H. eapply DSj; eauto.
    + destruct r as [|x r']; try discriminate. inversion H. eapply DSb; eauto.
  - destruct o; try discriminate; inversion Hops; subst; cbn in H;
      destruct r as [|a1 [|a2 [|a3 r']]]; try discriminate.
    + destruct r' as [|a4 r']; try discriminate. inversion H. eapply DScm; eauto.
    + destruct r' as [|a4 r']; try discriminate. inversion H. eapply DScm; eauto.
    + destruct r' as [|a4 r']; try discriminate. inversion H. eapply DSmc; eauto.
    + inversion H. eapply DScb; eauto.
    + inversion H. eapply DScb; eauto.
  - destruct o; discriminate.
Qed.

Lemma decode_op_of b r dec : decode (b :: r) = Some dec -> decode_op b = Some (d_op dec).
Proof.
  intros H. destruct (decode_op b) as [o|] eqn:Ho.
  - destruct (decode_shape _ _ _ _ Ho H); subst; reflexivity.
  - rewrite decode_cons, Ho in H. discriminate.
Qed.

Lemma decode_jump_op rest dec t : decode rest = Some dec -> d_jump dec = Some t -> d_op dec = OP_IF_TRUE \/ d_op dec = OP_JUMP.
Proof.
  intros H Hj. destruct rest as [|b r]; [discriminate|].
  pose proof (decode_op_of _ _ _ H) as Ho.
  destruct (decode_shape _ _ _ _ Ho H) as [? Hd|? ? ? Hops ? Hd|? ? ? Hops ? Hd|? ? ? ? Hd|? ? ? ? ? ? ? Hd|? ? ? ? ? ? ? Hd|? ? ? ? ? ? Hd];
    try (rewrite Hd in Hj; discriminate).
  destruct (d_op dec); try discriminate; auto.
Qed.

(* ---- one step of the verifier ---- *)
Definition here (d : option nat) (pend : list (nat * nat)) (pc : nat) : option nat :=
  match d, pend_get pc pend with
  | Some a, Some b => if Nat.eqb a b then Some a else None
  | Some a, None => Some a
  | None, Some b => Some b
  | None, None => None
  end.
Definition agree (pend : list (nat * nat)) (pc : nat) (h : option nat) : bool :=
  forallb (fun x => if Nat.eqb (fst x) pc then match h with Some h => Nat.eqb (snd x) h | None => false end else true) pend.

Definition vnext (f : nat) (pool : list const) (codelen pc : nat) (rest : list N) (pend : list (nat * nat))
                 (depth : nat) (dec : decoded) (pops pushes : nat) : bool :=
  let nd := (depth - pops + pushes)%nat in
  let pend1 := pend_del pc pend in
  let next_pc := (pc + d_size dec)%nat in
  let next_rest := skipn (d_size dec) rest in
  match d_op dec with
  | OP_RETURN => Nat.eqb depth 1 && vloop f pool codelen next_pc next_rest None pend1 true
  | OP_JUMP =>
      match d_jump dec with
      | Some t => Nat.ltb pc (N.to_nat t) && Nat.ltb (N.to_nat t) codelen &&
                  vloop f pool codelen next_pc next_rest None ((N.to_nat t, nd) :: pend1) false
      | None => false
      end
  | OP_IF_TRUE =>
      match d_jump dec with
      | Some t => Nat.ltb pc (N.to_nat t) && Nat.ltb (N.to_nat t) codelen &&
                  vloop f pool codelen next_pc next_rest (Some nd) ((N.to_nat t, nd) :: pend1) false
      | None => false
      end
  | _ => vloop f pool codelen next_pc next_rest (Some nd) pend1 false
  end.

Lemma vloop_S f pool L pc b r d pend lr :
  vloop (S f) pool L pc (b :: r) d pend lr =
  match here d pend pc, decode (b :: r) with
  | Some depth, Some dec =>
      match effect pool dec with
      | None => false
      | Some (pops, pushes) =>
          agree pend pc (here d pend pc) && Nat.leb pops depth && vnext f pool L pc (b :: r) pend depth dec pops pushes
      end
  | _, _ => false
  end.
Proof. reflexivity. Qed.

Lemma vloop_nil f pool L pc d pend lr :
  vloop (S f) pool L pc [] d pend lr = lr && match pend with [] => true | _ => false end.
Proof. reflexivity. Qed.

Lemma vloop_inv f pool L pc rest d pend lr :
  vloop f pool L pc rest d pend lr = true -> rest <> [] ->
  exists f' depth dec pops pushes,
    f = S f' /\ here d pend pc = Some depth /\ decode rest = Some dec /\ effect pool dec = Some (pops, pushes) /\
    agree pend pc (Some depth) = true /\ pops <= depth /\
    vnext f' pool L pc rest pend depth dec pops pushes = true.
Proof.
  intros H Hne. destruct f as [|f']; [discriminate|].
  destruct rest as [|b r]; [congruence|].
  rewrite vloop_S in H.
  destruct (here d pend pc) as [depth|] eqn:Hh; [|discriminate].
  destruct (decode (b :: r)) as [dec|] eqn:Hd; [|discriminate].
  destruct (effect pool dec) as [[pops pushes]|] eqn:He; [|discriminate].
  apply andb_prop in H as [H H3]. apply andb_prop in H as [H1 H2].
  exists f', depth, dec, pops, pushes. repeat split; auto. apply Nat.leb_le; auto.
Qed.

Lemma jumps_forward : forall pool code pc rest dec tgt,
  verify pool code = true ->
  rest = skipn pc code -> decode rest = Some dec -> d_jump dec = Some tgt ->
  (exists f d pend lr, vloop f pool (len code) pc rest d pend lr = true) ->
  (pc < N.to_nat tgt)%nat /\ (N.to_nat tgt < len code)%nat.
Proof.
  intros pool code pc rest dec tgt _ _ Hdec Hj (f & d & pend & lr & Hv).
  assert (Hne : rest <> []) by (intro; subst; discriminate).
  destruct (vloop_inv _ _ _ _ _ _ _ _ Hv Hne) as (f' & depth & dec' & pops & pushes & _ & _ & Hdec' & _ & _ & _ & Hn).
  rewrite Hdec in Hdec'. inversion Hdec'; subst dec'. clear Hdec'.
  unfold vnext in Hn. rewrite Hj in Hn.
  destruct (decode_jump_op _ _ _ Hdec Hj) as [Ho|Ho]; rewrite Ho in Hn;
    apply andb_prop in Hn as [Hn _]; apply andb_prop in Hn as [H1 H2];
    apply Nat.ltb_lt in H1; apply Nat.ltb_lt in H2; auto.
Qed.

(* ------------------------------------------------------------------------------------------------ *)
(* Part 2: soundness of the verifier                                                                 *)
(* ------------------------------------------------------------------------------------------------ *)

Section Safe.
Variable ops : numops.
Variable orc : oracles.
Variable rho : venv.
Variable pool : list const.
Variable limit : option nat.

(* the dispatch loop of [vm_run], with the nested runs abstracted ([runf] = [vm_run f]) and one step split off *)
Section Loop.
Variable runf : list N -> M val.
Variable code : list N.

Definition step (continue : list N -> list sval -> M val) (o : opcode) (r : list N) (stack : list sval) : M val :=
  match o with
  | OP_NOP => continue r stack
  | OP_ADD_NUM => continue r stack
  | OP_RETURN => let^ (v, _) := pop_val stack in ret v
  | OP_CONST =>
      let^ (c, r1) := read_const pool r in
      match c with
      | CVal v => continue r1 (SV v :: stack)
      | CThunk body rt => continue r1 (STh body rt :: stack)
      | _ => fault XTypeConf
      end
  | OP_LOAD =>
      let^ (c, r1) := read_const pool r in
      match c with
      | CName nm => match assoc nm rho with Some v => continue r1 (SV v :: stack) | None => fault XNil end
      | _ => fault XTypeConf
      end
  | OP_JUMP => let^ (t, _) := read16 r in continue (skipn (N.to_nat t) code) stack
  | OP_IF_TRUE =>
      let^ (t, r1) := read16 r in
      let^ (v, s1) := pop_val stack in
      let^ bv := as_bool v in
      if bv then continue r1 s1 else continue (skipn (N.to_nat t) code) s1
  | OP_NEW_LIST =>
      let^ (c, r1) := read_const pool r in let^ (sz, r2) := read16 r1 in
      match c with
      | CType (TList e) =>
          let^ (xs, s1) := pop_n (N.to_nat sz) stack [] in let^ vs := vals_of xs in
          continue r2 (SV (VList (TList e) vs) :: s1)
      | _ => fault XTypeConf
      end
  | OP_NEW_MAP =>
      let^ (c, r1) := read_const pool r in let^ (sz, r2) := read16 r1 in
      match c with
      | CType (TMap kt vt) =>
          let^ (xs, s1) := pop_n (2 * N.to_nat sz) stack [] in let^ vs := vals_of xs in
          let^ entries :=
            (fix go (vs : list val) (acc : list (list N * val)) : M (list (list N * val)) :=
               match vs with
               | k :: v :: rr => let^ kk := key_of ops k in go rr (kput kk v acc)
               | _ => ret acc
               end) vs [] in
          continue r2 (SV (VMap (TMap kt vt) entries) :: s1)
      | _ => fault XTypeConf
      end
  | OP_NEW_OBJ =>
      let^ (c, r1) := read_const pool r in
      match c with
      | CType (TObj fs) =>
          let^ (xs, s1) := pop_n (len fs) stack [] in let^ vs := vals_of xs in
          continue r1 (SV (VObj (TObj fs) vs) :: s1)
      | _ => fault XTypeConf
      end
  | OP_LIST_LOAD =>
      let^ (iv, s1) := pop_val stack in let^ nb := as_num iv in
      let^ (lv, s2) := pop_val s1 in let^ vs := as_list lv in
      let idx := to_i64 ops nb in
      if Z.ltb idx 0 || Z.leb (Z.of_nat (len vs)) idx then fail FIndex
      else match nth_error vs (Z.to_nat idx) with Some e => continue r (SV e :: s2) | None => fail FIndex end
  | OP_MAP_LOAD =>
      let^ (kv, s1) := pop_val stack in
      let^ (mv, s2) := pop_val s1 in let^ kvs := as_map mv in
      let^ kk := key_of ops kv in
      match kget kk kvs with Some e => continue r (SV e :: s2) | None => fail FKey end
  | OP_OBJ_LOAD =>
      let^ (idx, r1) := read16 r in let^ (c, r2) := read_const pool r1 in
      let^ (ov, s1) := pop_val stack in
      match c, ov with
      | CName nm, VObj t vs =>
          match obj_load t vs (N.to_nat idx) nm with Some e => continue r2 (SV e :: s1) | None => fault XNil end
      | _, _ => fault XTypeConf
      end
  | OP_CALL_BY_VALUE =>
      let^ (c, r1) := read_const pool r in let^ (argc, r2) := read8 r1 in
      match c with
      | CFun sg =>
          let^ (xs, s1) := pop_n (N.to_nat argc) stack [] in let^ vs := vals_of xs in
          let^ res := apply_strict ops orc sg vs in
          continue r2 (SV res :: s1)
      | _ => fault XTypeConf
      end
  | OP_CALL_BY_NEED =>
      let^ (c, r1) := read_const pool r in let^ (argc, r2) := read8 r1 in
      match c with
      | CFun sg =>
          let^ (xs, s1) := pop_n (N.to_nat argc) stack [] in
          let^ ths := mmapM (fun x => match x with
                                      | STh body _ => ret (fun (_ : unit) => runf body)
                                      | SV _ => fault XTypeConf
                                      end) xs in
          let^ res := (if sig_is_builtin sg then apply_lazy sg else host_lazy (s_name sg)) ths in
          continue r2 (SV res :: s1)
      | _ => fault XTypeConf
      end
  | OP_DYNAMIC_CALL =>
      let^ (argc, r1) := read8 r in
      let^ (xs, s1) := pop_n (N.to_nat argc) stack [] in let^ vs := vals_of xs in
      let^ (fv, s2) := pop_val s1 in
      match fv with
      | VFun (TFun _ ps rt) name lz =>
          if lz then fault XNil
          else let^ res := apply_strict ops orc (mkSig name ps rt false) vs in continue r1 (SV res :: s2)
      | _ => fault XTypeConf
      end
  | _ =>
      match intrinsic_sem o with
      | Some (bf, k) =>
          let^ (xs, s1) := pop_n k stack [] in let^ vs := vals_of xs in
          let^ res := bsem ops orc bf vs in
          continue r (SV res :: s1)
      | None => fault XOpcode
      end
  end.

Fixpoint run_loop (g : nat) (rest : list N) (stack : list sval) (n : option nat) {struct g} : M val :=
  match g with
  | O => fault XFuel
  | S g' =>
    match n with
    | Some O => fault XLimit
    | _ =>
      let n' := option_map pred n in
      match rest with
      | [] => fault XOther
      | b :: r =>
        match decode_op b with
        | None => fault XOpcode
        | Some o => step (fun r s => run_loop g' r s n') o r stack
        end
      end
    end
  end.
End Loop.

Lemma vm_run_S f code :
  vm_run ops orc rho pool limit (S f) code =
  run_loop (vm_run ops orc rho pool limit f) code (4 * S (len code)) code [] limit.
Proof. reflexivity. Qed.


(* ---- computations that cannot report an underflow or an unknown opcode ---- *)
Definition okf (k : faultk) : Prop := k <> XUnderflow /\ k <> XOpcode.
Definition clean {X} (m : M X) : Prop := forall t k, m = (t, OFault k) -> okf k.

Lemma clean_ret {X} (x : X) : clean (ret x).
Proof. intros t k H. discriminate. Qed.
Lemma clean_fail {X} k : clean (@fail X k).
Proof. intros t k' H. discriminate. Qed.
Lemma clean_fault {X} k : okf k -> clean (@fault X k).
Proof. intros Hk t k' H. inversion H; subst; auto. Qed.
Lemma clean_emit e : clean (emit e).
Proof. intros t k H. discriminate. Qed.
Lemma clean_bind {X Y} (m : M X) (f : X -> M Y) :
  clean m -> (forall t x, m = (t, OVal x) -> clean (f x)) -> clean (mbind m f).
Proof.
  intros Hm Hf t k H. unfold mbind in H. destruct m as [t0 [x|fk|k0]].
  - destruct (f x) as [t' o] eqn:E. inversion H; subst. eapply (Hf t0 x eq_refl); eauto.
  - discriminate.
  - inversion H; subst. eapply Hm; eauto.
Qed.
Lemma clean_bind' {X Y} (m : M X) (f : X -> M Y) : clean m -> (forall x, clean (f x)) -> clean (mbind m f).
Proof. intros Hm Hf. apply clean_bind; auto. Qed.

Lemma clean_as_num v : clean (as_num v). Proof. destruct v; intros ? ? H; inversion H; split; discriminate. Qed.
Lemma clean_as_bool v : clean (as_bool v). Proof. destruct v; intros ? ? H; inversion H; split; discriminate. Qed.
Lemma clean_as_str v : clean (as_str v). Proof. destruct v; intros ? ? H; inversion H; split; discriminate. Qed.
Lemma clean_as_time v : clean (as_time v). Proof. destruct v; intros ? ? H; inversion H; split; discriminate. Qed.
Lemma clean_as_list v : clean (as_list v). Proof. destruct v; intros ? ? H; inversion H; split; discriminate. Qed.
Lemma clean_as_map v : clean (as_map v). Proof. destruct v; intros ? ? H; inversion H; split; discriminate. Qed.
Lemma clean_key_of v : clean (key_of ops v). Proof. destruct v; intros ? ? H; inversion H; split; discriminate. Qed.

Ltac cl_step :=
  first
  [ apply clean_ret | apply clean_fail | apply clean_emit | (apply clean_fault; split; discriminate)
  | apply clean_as_num | apply clean_as_bool | apply clean_as_str | apply clean_as_time | apply clean_as_list
  | apply clean_as_map | apply clean_key_of
  | assumption
  | (apply clean_bind'; [| intros ?])
  | progress cbv beta
  | match goal with |- clean (match ?x with _ => _ end) => destruct x end
  | match goal with |- clean (if ?x then _ else _) => destruct x end ].
Ltac cl := repeat cl_step.

Lemma clean_mmapM {X Y} (f : X -> M Y) l : (forall x, In x l -> clean (f x)) -> clean (mmapM f l).
Proof.
  induction l as [|x r IH]; intros H; cbn [mmapM].
  - apply clean_ret.
  - apply clean_bind'; [apply H; left; auto|]. intros y.
    apply clean_bind'; [apply IH; intros; apply H; right; auto|]. intros ys. apply clean_ret.
Qed.

Lemma clean_fold_num f vs : clean (fold_num ops f vs).
Proof.
  unfold fold_num. destruct vs as [|v0 r]; cl.
  - match goal with |- clean (?F r ?a) => generalize a end.
    induction r as [|v r IH]; intros a; cl. apply IH.
Qed.

Lemma clean_bsem b args : clean (bsem ops orc b args).
Proof.
  unfold bsem, num1, num2, time2, any2.
  destruct b; try apply clean_fold_num; cl; apply clean_fold_num.
Qed.

Lemma clean_host_strict name args : clean (host_strict ops name args).
Proof. unfold host_strict. cl. Qed.

Lemma clean_apply_strict sg args : clean (apply_strict ops orc sg args).
Proof.
  unfold apply_strict. destruct (sig_is_builtin sg).
  - destruct (classify (s_name sg) (s_params sg)); [apply clean_bsem|apply clean_fault; split; discriminate].
  - apply clean_host_strict.
Qed.

Lemma clean_host_lazy name ths : Forall (fun th => clean (th tt)) ths -> clean (host_lazy name ths).
Proof.
  intros H. unfold host_lazy.
  destruct ths as [|a [|b [|c [|e l]]]];
    repeat match goal with H : Forall _ (_ :: _) |- _ => inversion H; clear H; subst end; cl.
Qed.

Lemma clean_apply_lazy sg ths : Forall (fun th => clean (th tt)) ths -> clean (apply_lazy sg ths).
Proof.
  intros H. unfold apply_lazy.
  destruct (classify (s_name sg) (s_params sg)) as [bf|]; [|apply clean_host_lazy; auto].
  destruct bf; try (apply clean_host_lazy; auto);
  destruct ths as [|a [|b [|c [|e l]]]];
    repeat match goal with H : Forall _ (_ :: _) |- _ => inversion H; clear H; subst end; cl.
Qed.


(* ---- stack discipline ---- *)
Hypothesis Hpool : forall i body rt, nth_error pool i = Some (CThunk body rt) -> verify pool body = true.

Definition sv_ok (x : sval) : Prop := match x with STh body _ => verify pool body = true | SV _ => True end.
Definition stack_ok (s : list sval) : Prop := Forall sv_ok s.

Lemma Forall_firstn' {X} (P : X -> Prop) n : forall l, Forall P l -> Forall P (firstn n l).
Proof. induction n; intros l H; cbn; [constructor|]. destruct l; [constructor|]. inversion H; subst. constructor; auto. Qed.
Lemma Forall_skipn' {X} (P : X -> Prop) n : forall l, Forall P l -> Forall P (skipn n l).
Proof. induction n; intros l H; cbn; auto. destruct l; [constructor|]. inversion H; subst. auto. Qed.

Lemma clean_bind_ret {X Y} (x : X) (f : X -> M Y) : clean (f x) -> clean (mbind (ret x) f).
Proof. intros H. apply clean_bind; [apply clean_ret|]. intros t y E. inversion E; subst. exact H. Qed.

Lemma clean_read16 {Y} hi lo r (f : N * list N -> M Y) :
  clean (f ((hi * 256 + lo)%N, r)) -> clean (mbind (read16 (hi :: lo :: r)) f).
Proof. apply clean_bind_ret. Qed.
Lemma clean_read8 {Y} x r (f : N * list N -> M Y) : clean (f (x, r)) -> clean (mbind (read8 (x :: r)) f).
Proof. apply clean_bind_ret. Qed.
Lemma clean_read_const {Y} hi lo r c (f : const * list N -> M Y) :
  nth_error pool (N.to_nat (hi * 256 + lo)) = Some c ->
  clean (f (c, r)) -> clean (mbind (read_const pool (hi :: lo :: r)) f).
Proof.
  intros Hn H. unfold read_const. apply clean_bind; [apply clean_bind_ret; cbv beta iota; rewrite Hn; apply clean_ret|].
  intros t x E. cbn in E. rewrite Hn in E. inversion E; subst. exact H.
Qed.

Lemma pop_n_ok n : forall s acc, n <= len s -> pop_n n s acc = ret (rev (firstn n s) ++ acc, skipn n s).
Proof.
  induction n as [|n IH]; intros s acc H; cbn [pop_n firstn skipn rev app]; [reflexivity|].
  destruct s as [|x r]; [cbn in H; lia|]. cbn [pop firstn skipn rev].
  unfold len in *. cbn [List.length] in H.
  transitivity (pop_n n r (x :: acc)).
  - unfold mbind, ret. destruct (pop_n n r (x :: acc)); reflexivity.
  - rewrite IH by lia. rewrite <- app_assoc. reflexivity.
Qed.
Lemma clean_pop_n {Y} n s (f : list sval * list sval -> M Y) :
  n <= len s -> clean (f (rev (firstn n s), skipn n s)) -> clean (mbind (pop_n n s []) f).
Proof. intros Hn H. rewrite pop_n_ok by auto. rewrite app_nil_r. apply clean_bind_ret. exact H. Qed.
Lemma clean_pop_val {Y} x s (f : val * list sval -> M Y) :
  (forall v, x = SV v -> clean (f (v, s))) -> clean (mbind (pop_val (x :: s)) f).
Proof.
  intros H. unfold pop_val. cbn [pop]. destruct x as [v|body rt].
  - apply clean_bind; [apply clean_bind_ret; apply clean_ret|]. intros t y E. cbn in E. inversion E; subst. auto.
  - apply clean_bind; [apply clean_bind_ret; apply clean_fault; split; discriminate|]. intros t y E. cbn in E. discriminate.
Qed.
Lemma clean_vals_of xs : clean (vals_of xs).
Proof. unfold vals_of. apply clean_mmapM. intros x _. cl. Qed.

Lemma len_firstn_skipn {X} n (s : list X) : n <= len s -> len (skipn n s) = len s - n.
Proof. unfold len. intros. apply skipn_length. Qed.

Section LoopSafe.
Variable runf : list N -> M val.
Variable code : list N.
Hypothesis Hrunf : forall body, verify pool body = true -> clean (runf body).

Lemma ths_clean xs : stack_ok xs -> forall t ths,
  mmapM (fun x => match x with STh body _ => ret (fun (_ : unit) => runf body) | SV _ => fault XTypeConf end) xs = (t, OVal ths) ->
  Forall (fun th => clean (th tt)) ths.
Proof.
  induction xs as [|x r IH]; intros Hok t ths H; cbn [mmapM] in H.
  - inversion H; constructor.
  - inversion Hok as [|? ? Hx Hr]; subst. destruct x as [v|body rt]; [cbn in H; discriminate|].
    match type of H with mbind _ ?k = _ => set (K := k) in H end.
    cbn in H. subst K. cbv beta in H.
    match type of H with context [mmapM ?F r] => destruct (mmapM F r) as [t' [ths'|?|?]] eqn:E end; cbn in H; try discriminate.
    inversion H; subst. constructor; [apply Hrunf; exact Hx|]. eapply IH; eauto.
Qed.

Ltac lenlia := unfold len in *; cbn [List.length] in *; try rewrite skipn_length; lia.

Lemma step_safe cont b r o dec pops pushes stack :
  decode_op b = Some o -> decode (b :: r) = Some dec -> effect pool dec = Some (pops, pushes) ->
  pops <= len stack -> stack_ok stack ->
  (forall s', len s' = len stack - pops + pushes -> stack_ok s' -> o <> OP_RETURN -> o <> OP_JUMP ->
              clean (cont (skipn (d_size dec) (b :: r)) s')) ->
  (forall t s', d_jump dec = Some t -> len s' = len stack - pops + pushes -> stack_ok s' ->
                clean (cont (skipn (N.to_nat t) code) s')) ->
  clean (step runf code cont o r stack).
Proof.
  intros Ho Hdec Heff Hpops Hst Hfall Hjump.
  destruct (decode_shape _ _ _ _ Ho Hdec) as [Hops Hd|hi lo r' Hops Hr Hd|hi lo r' Hops Hr Hd|x r' Hops Hr Hd
     |hi lo hi2 lo2 r' Hops Hr Hd|hi lo hi2 lo2 r' Hops Hr Hd|hi lo x r' Hops Hr Hd];
    destruct o; try discriminate Hops; subst dec; try subst r;
    cbn [effect d_op d_const d_med d_b d_jump] in Heff; cbn [step intrinsic_sem]; cbn [d_size skipn] in Hfall; cbn [d_jump] in Hjump.
  all: try solve [ inversion Heff; subst pops pushes; clear Heff;
    apply clean_pop_n; [exact Hpops|]; cbv beta iota;
    apply clean_bind'; [apply clean_vals_of|]; intros vs;
    apply clean_bind'; [apply clean_bsem|]; intros res;
    apply Hfall; [lenlia
                 |constructor; [exact I|apply Forall_skipn'; exact Hst] | discriminate | discriminate] ].
  - (* NOP *) inversion Heff; subst. apply Hfall; [lenlia|auto|discriminate|discriminate].
  - (* RETURN *) inversion Heff; subst. destruct stack as [|x s]; [lenlia|].
    apply clean_pop_val. intros v _. cbv beta iota. apply clean_ret.
  - (* ADD_NUM *) inversion Heff; subst. apply Hfall; [lenlia|auto|discriminate|discriminate].
  - (* LIST_LOAD *) inversion Heff; subst. destruct stack as [|x [|y s]]; try (lenlia).
    inversion Hst as [|? ? _ Hst1]; subst. inversion Hst1 as [|? ? _ Hst2]; subst.
    apply clean_pop_val. intros v _. cbv beta iota. apply clean_bind'; [apply clean_as_num|]. intros nb.
    apply clean_pop_val. intros lv _. cbv beta iota. apply clean_bind'; [apply clean_as_list|]. intros vs.
    match goal with |- clean (if ?c then _ else _) => destruct c end; [apply clean_fail|].
    match goal with |- clean (match ?c with _ => _ end) => destruct c end; [|apply clean_fail].
    apply Hfall; [lenlia|constructor; [exact I|auto]|discriminate|discriminate].
  - (* MAP_LOAD *) inversion Heff; subst. destruct stack as [|x [|y s]]; try (lenlia).
    inversion Hst as [|? ? _ Hst1]; subst. inversion Hst1 as [|? ? _ Hst2]; subst.
    apply clean_pop_val. intros v _. cbv beta iota.
    apply clean_pop_val. intros lv _. cbv beta iota. apply clean_bind'; [apply clean_as_map|]. intros kvs.
    apply clean_bind'; [apply clean_key_of|]. intros kk.
    match goal with |- clean (match ?c with _ => _ end) => destruct c end; [|apply clean_fail].
    apply Hfall; [lenlia|constructor; [exact I|auto]|discriminate|discriminate].
  - (* CONST *)
    destruct (nth_error pool (N.to_nat (hi * 256 + lo))) as [c|] eqn:Hn; [|discriminate].
    eapply clean_read_const; [exact Hn|]. cbv beta iota.
    destruct c; try discriminate; inversion Heff; subst; apply Hfall; try discriminate;
      try (lenlia).
    + constructor; [exact I|auto].
    + constructor; [cbn; eapply Hpool; eauto|auto].
  - (* LOAD *)
    destruct (nth_error pool (N.to_nat (hi * 256 + lo))) as [c|] eqn:Hn; [|discriminate].
    eapply clean_read_const; [exact Hn|]. cbv beta iota.
    destruct c; try discriminate; inversion Heff; subst.
    destruct (assoc s rho); [|apply clean_fault; split; discriminate].
    apply Hfall; try discriminate; [lenlia|constructor; [exact I|auto]].
  - (* NEW_OBJ *)
    destruct (nth_error pool (N.to_nat (hi * 256 + lo))) as [c|] eqn:Hn; [|discriminate].
    eapply clean_read_const; [exact Hn|]. cbv beta iota.
    destruct c as [| | |ty|]; try discriminate. destruct ty; try discriminate. inversion Heff; subst.
    apply clean_pop_n; [exact Hpops|]. cbv beta iota.
    apply clean_bind'; [apply clean_vals_of|]. intros vs.
    apply Hfall; [lenlia
                 |constructor; [exact I|apply Forall_skipn'; exact Hst] | discriminate | discriminate].
  - (* IF_TRUE *) inversion Heff; subst.
    apply clean_read16. cbv beta iota. destruct stack as [|x s]; [lenlia|].
    inversion Hst as [|? ? _ Hst1]; subst.
    apply clean_pop_val. intros v _. cbv beta iota. apply clean_bind'; [apply clean_as_bool|]. intros bv.
    destruct bv.
    + apply Hfall; [lenlia|auto|discriminate|discriminate].
    + apply Hjump; [reflexivity|lenlia|auto].
  - (* JUMP *) inversion Heff; subst.
    apply clean_read16. cbv beta iota. apply Hjump; [reflexivity|lenlia|auto].
  - (* DYNAMIC_CALL *) inversion Heff; subst.
    apply clean_read8. cbv beta iota.
    apply clean_pop_n; [lia|]. cbv beta iota.
    apply clean_bind'; [apply clean_vals_of|]. intros vs.
    assert (Hl : len (skipn (N.to_nat x) stack) = len stack - N.to_nat x) by (unfold len; apply skipn_length).
    pose proof (Forall_skipn' sv_ok (N.to_nat x) _ Hst) as Hst1.
    destruct (skipn (N.to_nat x) stack) as [|y s]; [lenlia|].
    inversion Hst1 as [|? ? _ Hst2]; subst.
    apply clean_pop_val. intros fv _. cbv beta iota.
    destruct fv as [| | | | | | | |fty name lz]; try (apply clean_fault; split; discriminate).
    destruct fty; try (apply clean_fault; split; discriminate).
    destruct lz; [apply clean_fault; split; discriminate|].
    apply clean_bind'; [apply clean_apply_strict|]. intros res.
    apply Hfall; [lenlia|constructor; [exact I|auto]|discriminate|discriminate].
  - (* OBJ_LOAD *)
    destruct (nth_error pool (N.to_nat (hi2 * 256 + lo2))) as [c|] eqn:Hn; [|discriminate].
    apply clean_read16. cbv beta iota.
    eapply clean_read_const; [exact Hn|]. cbv beta iota.
    destruct c; try discriminate. inversion Heff; subst.
    destruct stack as [|y st]; [lenlia|]. inversion Hst as [|? ? _ Hst1]; subst.
    apply clean_pop_val. intros ov _. cbv beta iota.
    destruct ov; try (apply clean_fault; split; discriminate).
    match goal with |- clean (match ?c with _ => _ end) => destruct c end; [|apply clean_fault; split; discriminate].
    apply Hfall; [lenlia|constructor; [exact I|auto]|discriminate|discriminate].
  - (* NEW_LIST *)
    destruct (nth_error pool (N.to_nat (hi * 256 + lo))) as [c|] eqn:Hn; [|discriminate].
    eapply clean_read_const; [exact Hn|]. cbv beta iota.
    apply clean_read16. cbv beta iota.
    destruct c as [| | |ty|]; try discriminate. destruct ty; try discriminate. inversion Heff; subst.
    apply clean_pop_n; [exact Hpops|]. cbv beta iota.
    apply clean_bind'; [apply clean_vals_of|]. intros vs.
    apply Hfall; [lenlia
                 |constructor; [exact I|apply Forall_skipn'; exact Hst] | discriminate | discriminate].
  - (* NEW_MAP *)
    destruct (nth_error pool (N.to_nat (hi * 256 + lo))) as [c|] eqn:Hn; [|discriminate].
    eapply clean_read_const; [exact Hn|]. cbv beta iota.
    apply clean_read16. cbv beta iota.
    destruct c as [| | |ty|]; try discriminate. destruct ty; try discriminate. inversion Heff; subst.
    apply clean_pop_n; [exact Hpops|]. cbv beta iota.
    apply clean_bind'; [apply clean_vals_of|]. intros vs.
    apply clean_bind'.
    { match goal with |- clean (?G vs []) =>
        assert (HG : forall n vs0 acc0, len vs0 <= n -> clean (G vs0 acc0)) end.
      { induction n as [|n IH]; intros vs0 acc0 Hn0.
        - destruct vs0; [apply clean_ret|lenlia].
        - destruct vs0 as [|k [|v rr]]; try apply clean_ret.
          apply clean_bind'; [apply clean_key_of|]. intros kk. apply IH. lenlia. }
      eapply HG. apply Nat.le_refl. }
    intros entries.
    apply Hfall; [lenlia
                 |constructor; [exact I|apply Forall_skipn'; exact Hst] | discriminate | discriminate].
  - (* CALL_BY_VALUE *)
    destruct (nth_error pool (N.to_nat (hi * 256 + lo))) as [c|] eqn:Hn; [|discriminate].
    eapply clean_read_const; [exact Hn|]. cbv beta iota.
    apply clean_read8. cbv beta iota.
    destruct c as [|sg| | |]; try discriminate.
    destruct (Nat.eqb (len (s_params sg)) (N.to_nat x) && negb (s_lazy sg)); [|discriminate].
    inversion Heff; subst.
    apply clean_pop_n; [exact Hpops|]. cbv beta iota.
    apply clean_bind'; [apply clean_vals_of|]. intros vs.
    apply clean_bind'; [apply clean_apply_strict|]. intros res.
    apply Hfall; [lenlia
                 |constructor; [exact I|apply Forall_skipn'; exact Hst] | discriminate | discriminate].
  - (* CALL_BY_NEED *)
    destruct (nth_error pool (N.to_nat (hi * 256 + lo))) as [c|] eqn:Hn; [|discriminate].
    eapply clean_read_const; [exact Hn|]. cbv beta iota.
    apply clean_read8. cbv beta iota.
    destruct c as [|sg| | |]; try discriminate.
    destruct (Nat.eqb (len (s_params sg)) (N.to_nat x) && s_lazy sg); [|discriminate].
    inversion Heff; subst.
    apply clean_pop_n; [exact Hpops|]. cbv beta iota.
    apply clean_bind.
    { apply clean_mmapM. intros y _. destruct y; [apply clean_fault; split; discriminate|apply clean_ret]. }
    intros t ths Hths.
    assert (Hc : Forall (fun th => clean (th tt)) ths).
    { eapply ths_clean; [|exact Hths]. apply Forall_rev. apply Forall_firstn'. exact Hst. }
    apply clean_bind'.
    { destruct (sig_is_builtin sg); [apply clean_apply_lazy|apply clean_host_lazy]; exact Hc. }
    intros res.
    apply Hfall; [lenlia
                 |constructor; [exact I|apply Forall_skipn'; exact Hst] | discriminate | discriminate].
Qed.


(* ---- the verifier's view of a pc ---- *)
Definition acc (pc dep : nat) : Prop :=
  exists f d pend lr, vloop f pool (len code) pc (skipn pc code) d pend lr = true /\ skipn pc code <> [] /\
                      here d pend pc = Some dep.

Lemma vnext_cont f L pc rest pend depth dec pops pushes :
  vnext f pool L pc rest pend depth dec pops pushes = true ->
  exists d' pend' lr', vloop f pool L (pc + d_size dec) (skipn (d_size dec) rest) d' pend' lr' = true /\
                       incl (pend_del pc pend) pend'.
Proof.
  unfold vnext. intros H.
  destruct (d_op dec);
    try (eexists _, _, _; split; [exact H|apply incl_refl]).
  - apply andb_prop in H as [_ H]. eexists _, _, _; split; [exact H|apply incl_refl].
  - destruct (d_jump dec); [|discriminate]. apply andb_prop in H as [_ H].
    eexists _, _, _; split; [exact H|apply incl_tl, incl_refl].
  - destruct (d_jump dec); [|discriminate]. apply andb_prop in H as [_ H].
    eexists _, _, _; split; [exact H|apply incl_tl, incl_refl].
Qed.

Lemma acc_fall f pc nd pend :
  vloop f pool (len code) pc (skipn pc code) (Some nd) pend false = true -> acc pc nd.
Proof.
  intros H.
  assert (Hne : skipn pc code <> []).
  { intros E. rewrite E in H. destruct f; [discriminate|]. rewrite vloop_nil in H. discriminate. }
  destruct (vloop_inv _ _ _ _ _ _ _ _ H Hne) as (f' & depth & dec & pops & pushes & _ & Hh & _).
  exists f, (Some nd), pend, false. repeat split; auto.
  unfold here in *. destruct (pend_get pc pend); [destruct (Nat.eqb nd n)|]; congruence.
Qed.

Lemma acc_pend : forall f pc d pend lr t nd,
  vloop f pool (len code) pc (skipn pc code) d pend lr = true -> In (t, nd) pend -> acc t nd.
Proof.
  induction f as [|f IH]; intros pc d pend lr t nd H Hin; [discriminate|].
  destruct (skipn pc code) as [|b r] eqn:E.
  - rewrite vloop_nil in H. destruct pend; [destruct Hin|]. rewrite andb_false_r in H. discriminate.
  - assert (Hne : b :: r <> []) by discriminate.
    destruct (vloop_inv _ _ _ _ _ _ _ _ H Hne) as (f' & depth & dec & pops & pushes & Hf & Hh & Hdec & Heff & Hag & Hle & Hn).
    inversion Hf; subst f'. clear Hf.
    destruct (Nat.eqb t pc) eqn:Etp.
    + apply Nat.eqb_eq in Etp. subst t.
      unfold agree in Hag. rewrite forallb_forall in Hag. specialize (Hag _ Hin). cbn [fst snd] in Hag.
      rewrite Nat.eqb_refl in Hag. apply Nat.eqb_eq in Hag. subst nd.
      exists (S f), d, pend, lr. rewrite E. repeat split; auto.
    + destruct (vnext_cont _ _ _ _ _ _ _ _ _ Hn) as (d' & pend' & lr' & Hv & Hincl).
      rewrite <- E in Hv. rewrite skipn_add in Hv.
      eapply IH; [exact Hv|]. apply Hincl. unfold pend_del. apply filter_In. split; auto.
      cbn [fst]. rewrite Etp. reflexivity.
Qed.

Lemma loop_safe : forall g pc stack n,
  acc pc (len stack) -> stack_ok stack -> clean (run_loop runf code g (skipn pc code) stack n).
Proof.
  induction g as [|g IH]; intros pc stack n Hacc Hst; cbn [run_loop].
  - apply clean_fault; split; discriminate.
  - assert (Hgoal : clean (match skipn pc code with
                           | [] => fault XOther
                           | b :: r => match decode_op b with
                                       | None => fault XOpcode
                                       | Some o => step runf code (fun r0 s => run_loop runf code g r0 s (option_map pred n)) o r stack
                                       end
                           end)).
    { destruct Hacc as (f & d & pend & lr & Hv & Hne & Hh).
      destruct (vloop_inv _ _ _ _ _ _ _ _ Hv Hne) as (f' & depth & dec & pops & pushes & Hf & Hh' & Hdec & Heff & Hag & Hle & Hn).
      rewrite Hh in Hh'. inversion Hh'; subst depth. clear Hh'.
      destruct (skipn pc code) as [|b r] eqn:E; [congruence|].
      pose proof (decode_op_of _ _ _ Hdec) as Ho. rewrite Ho.
      eapply step_safe; eauto.
      - (* fall through *)
        intros s' Hlen Hst' Hnr Hnj.
        rewrite <- E. rewrite skipn_add.
        apply IH; auto. rewrite Hlen.
        unfold vnext in Hn. rewrite <- E in Hn. rewrite skipn_add in Hn.
        destruct (d_op dec) eqn:Eop; try congruence; try (eapply acc_fall; exact Hn).
        destruct (d_jump dec); [|discriminate]. apply andb_prop in Hn as [_ Hn]. eapply acc_fall; exact Hn.
      - (* jump *)
        intros t s' Hj Hlen Hst'. apply IH; auto. rewrite Hlen.
        unfold vnext in Hn. rewrite <- E in Hn. rewrite skipn_add in Hn.
        rewrite Hj in Hn.
        destruct (decode_jump_op _ _ _ Hdec Hj) as [Eop|Eop]; rewrite Eop in Hn;
          apply andb_prop in Hn as [_ Hn]; (eapply acc_pend; [exact Hn|left; reflexivity]). }
    destruct n as [[|m]|]; [apply clean_fault; split; discriminate|exact Hgoal|exact Hgoal].
Qed.

End LoopSafe.

Lemma run_safe : forall f code, verify pool code = true -> clean (vm_run ops orc rho pool limit f code).
Proof.
  induction f as [|f IH]; intros code Hv.
  - apply clean_fault; split; discriminate.
  - rewrite vm_run_S.
    apply (loop_safe (vm_run ops orc rho pool limit f) code IH (4 * S (len code)) 0 [] limit); [|constructor].
    unfold verify in Hv. eapply acc_fall. exact Hv.
Qed.

End Safe.

Lemma verified_safe : forall (ops : numops) (orc : oracles) rho pool lim f code t k,
  verify_all code pool = true ->
  vm_run ops orc rho pool lim f code = (t, OFault k) ->
  k <> XUnderflow /\ k <> XOpcode.
Proof.
  intros ops orc rho pool lim f code t k Hv Hrun.
  unfold verify_all in Hv. apply andb_prop in Hv as [Hc Hp].
  eapply (run_safe ops orc rho pool lim); [|exact Hc|exact Hrun].
  intros i body rt Hn. rewrite forallb_forall in Hp.
  apply nth_error_In in Hn. exact (Hp _ Hn).
Qed.

(* ------------------------------------------------------------------------------------------------ *)
(* Part 3: the compiler's output verifies                                                            *)
(* ------------------------------------------------------------------------------------------------ *)

(* ---- the verifier on code fragments ---- *)
Lemma vnext_default f pool L pc rest pend depth dec pops pushes :
  d_op dec <> OP_RETURN -> d_op dec <> OP_JUMP -> d_op dec <> OP_IF_TRUE ->
  vnext f pool L pc rest pend depth dec pops pushes =
  vloop f pool L (pc + d_size dec) (skipn (d_size dec) rest) (Some (depth - pops + pushes)) (pend_del pc pend) false.
Proof. intros H1 H2 H3. unfold vnext. destruct (d_op dec); try congruence; reflexivity. Qed.

Lemma vloop_mono1 pool L : forall f pc rest d pend lr,
  vloop f pool L pc rest d pend lr = true -> vloop (S f) pool L pc rest d pend lr = true.
Proof.
  induction f as [|f IH]; intros pc rest d pend lr H; [discriminate|].
  destruct rest as [|b r]; [rewrite vloop_nil in *; exact H|].
  rewrite vloop_S in *.
  destruct (here d pend pc) as [depth|]; [|discriminate].
  destruct (decode (b :: r)) as [dec|]; [|discriminate].
  destruct (effect pool dec) as [[pops pushes]|]; [|discriminate].
  apply andb_prop in H as [H1 H2]. rewrite H1. cbn [andb].
  unfold vnext in *.
  destruct (d_op dec); try (apply IH; exact H2);
    try (destruct (d_jump dec); [|discriminate]);
    apply andb_prop in H2 as [H2 H3]; rewrite H2; cbn [andb]; apply IH; exact H3.
Qed.

Lemma vloop_mono pool L f f' pc rest d pend lr :
  f <= f' -> vloop f pool L pc rest d pend lr = true -> vloop f' pool L pc rest d pend lr = true.
Proof. intros Hle. induction Hle as [|m Hm IH]; intros Hv; auto. apply vloop_mono1. auto. Qed.

(* at a non-empty rest the verifier looks at (d, pend) only through [here], [agree] and [pend_del] *)
Lemma vloop_norm f pool L pc rest d pend lr d' pend' lr' :
  rest <> [] -> here d pend pc = here d' pend' pc ->
  agree pend pc (here d pend pc) = agree pend' pc (here d' pend' pc) ->
  pend_del pc pend = pend_del pc pend' ->
  vloop f pool L pc rest d pend lr = vloop f pool L pc rest d' pend' lr'.
Proof.
  intros Hne Hh Ha Hp. destruct f; [reflexivity|]. destruct rest as [|b r]; [congruence|].
  rewrite !vloop_S. rewrite <- Ha, <- Hh.
  destruct (here d pend pc); [|reflexivity]. destruct (decode (b :: r)); [|reflexivity].
  destruct (effect pool d0) as [[pops pushes]|]; [|reflexivity].
  unfold vnext. rewrite Hp. reflexivity.
Qed.

Lemma pend_get_none pc pend : (forall x, In x pend -> fst x <> pc) -> pend_get pc pend = None.
Proof.
  induction pend as [|[p d] r IH]; intros H; [reflexivity|]. cbn [pend_get].
  destruct (Nat.eqb p pc) eqn:E.
  - apply Nat.eqb_eq in E. exfalso. apply (H (p, d)); [left; reflexivity|exact E].
  - apply IH. intros x Hx. apply H. right. exact Hx.
Qed.
Lemma pend_del_id pc pend : (forall x, In x pend -> fst x <> pc) -> pend_del pc pend = pend.
Proof.
  induction pend as [|[p d] r IH]; intros H; [reflexivity|]. unfold pend_del in *. cbn [filter fst].
  destruct (Nat.eqb p pc) eqn:E.
  - apply Nat.eqb_eq in E. exfalso. apply (H (p, d)); [left; reflexivity|exact E].
  - cbn [negb]. f_equal. apply IH. intros x Hx. apply H. right. exact Hx.
Qed.
Lemma pend_del_app pc a b : pend_del pc (a ++ b) = pend_del pc a ++ pend_del pc b.
Proof. unfold pend_del. apply filter_app. Qed.
Lemma pend_del_repeat pc h j : pend_del pc (repeat (pc, h) j) = [].
Proof. induction j; [reflexivity|]. unfold pend_del in *. cbn [repeat filter fst]. rewrite Nat.eqb_refl. exact IHj. Qed.
Lemma pend_del_not_in pc pend x : In x (pend_del pc pend) -> In x pend /\ fst x <> pc.
Proof.
  unfold pend_del. intros H. apply filter_In in H as [H1 H2]. split; auto.
  intros E. rewrite E, Nat.eqb_refl in H2. discriminate.
Qed.
Lemma pend_del_del pc pend : pend_del pc (pend_del pc pend) = pend_del pc pend.
Proof. apply pend_del_id. intros x Hx. apply pend_del_not_in in Hx. tauto. Qed.

Lemma agree_app pend1 pend2 pc h : agree (pend1 ++ pend2) pc h = agree pend1 pc h && agree pend2 pc h.
Proof. unfold agree. apply forallb_app. Qed.
Lemma agree_repeat pc h j : agree (repeat (pc, h) j) pc (Some h) = true.
Proof. induction j; [reflexivity|]. unfold agree in *. cbn [repeat forallb fst snd]. rewrite !Nat.eqb_refl. exact IHj. Qed.
Lemma agree_none pend pc h : (forall x, In x pend -> fst x <> pc) -> agree pend pc h = true.
Proof.
  intros H. unfold agree. apply forallb_forall. intros x Hx.
  destruct (Nat.eqb (fst x) pc) eqn:E; [|reflexivity]. apply Nat.eqb_eq in E. exfalso. eapply H; eauto.
Qed.
Lemma agree_del pend pc h : agree (pend_del pc pend) pc h = true.
Proof. apply agree_none. intros x Hx. apply pend_del_not_in in Hx. tauto. Qed.

Lemma here_some_repeat pc h j pend :
  (forall x, In x pend -> fst x <> pc) -> here (Some h) (repeat (pc, h) j ++ pend) pc = Some h.
Proof.
  intros H. unfold here. destruct j as [|j].
  - cbn [repeat app]. rewrite pend_get_none by exact H. reflexivity.
  - cbn [repeat app pend_get]. rewrite !Nat.eqb_refl. reflexivity.
Qed.

(* a fragment at [pc] that takes depth [a + dep] to [b + dep], for every continuation *)
Definition FR (pool : list const) (pc : nat) (frag : list N) (a b : nat) : Prop :=
  forall dep L k f d pend lr,
    k <> [] -> pc + len frag < L ->
    here d pend pc = Some (a + dep) -> agree pend pc (Some (a + dep)) = true ->
    (forall x, In x (pend_del pc pend) -> pc + len frag <= fst x) ->
    (forall j, vloop f pool L (pc + len frag) k (Some (b + dep))
                     (repeat (pc + len frag, b + dep) j ++ pend_del pc pend) false = true) ->
    vloop (len frag + f) pool L pc (frag ++ k) d pend lr = true.

Lemma FR_nil pool pc a : FR pool pc [] a a.
Proof.
  intros dep L k f d pend lr Hk HL Hh Ha Hp Hc. cbn [len List.length app Nat.add].
  specialize (Hc 0). cbn [len List.length repeat app] in Hc. rewrite Nat.add_0_r in Hc.
  rewrite <- Hc. apply vloop_norm; auto.
  - rewrite Hh. unfold here. rewrite pend_get_none; [reflexivity|].
    intros x Hx. apply pend_del_not_in in Hx. tauto.
  - rewrite Hh, Ha. symmetry. apply agree_del.
  - symmetry. apply pend_del_del.
Qed.

Lemma len_app {X} (a b : list X) : len (a ++ b) = len a + len b.
Proof. unfold len. apply app_length. Qed.

Lemma FR_app pool pc f1 f2 a b c :
  f2 <> [] -> FR pool pc f1 a b -> FR pool (pc + len f1) f2 b c -> FR pool pc (f1 ++ f2) a c.
Proof.
  intros Hne H1 H2 dep L k f d pend lr Hk HL Hh Ha Hp Hc. unfold FR in H1, H2.
  rewrite len_app in *. rewrite <- app_assoc. rewrite <- Nat.add_assoc.
  assert (Hl2 : 0 < len f2) by (destruct f2; [congruence|cbn; lia]).
  apply (H1 dep); auto.
  - destruct f2; [congruence|discriminate].
  - lia.
  - intros x Hx. specialize (Hp x Hx). lia.
  - intros j.
    assert (Hfar : forall x, In x (pend_del pc pend) -> fst x <> pc + len f1).
    { intros x Hx. specialize (Hp x Hx). lia. }
    apply (H2 dep); auto.
    + lia.
    + apply here_some_repeat. exact Hfar.
    + rewrite agree_app, agree_repeat. apply agree_none. exact Hfar.
    + rewrite pend_del_app, pend_del_repeat. cbn [app]. rewrite pend_del_id by exact Hfar.
      intros x Hx. specialize (Hp x Hx). lia.
    + intros j2. rewrite pend_del_app, pend_del_repeat. cbn [app]. rewrite pend_del_id by exact Hfar.
      rewrite <- Nat.add_assoc. apply Hc.
Qed.

Lemma FR_frame pool pc frag a b c : FR pool pc frag a b -> FR pool pc frag (a + c) (b + c).
Proof.
  intros H dep L k f d pend lr Hk HL Hh Ha Hp Hc. unfold FR in H.
  rewrite <- Nat.add_assoc in Hh, Ha.
  apply (H (c + dep) L k f d pend lr); auto.
  intros j. rewrite Nat.add_assoc. apply Hc.
Qed.

Lemma skipn_len_app {X} (a b : list X) : skipn (len a) (a ++ b) = b.
Proof. unfold len. induction a; cbn; auto. Qed.

(* one instruction that neither jumps nor returns *)
Lemma FR_instr pool pc ins dec pops pushes a b :
  (forall k, decode (ins ++ k) = Some dec) -> d_size dec = len ins -> ins <> [] ->
  effect pool dec = Some (pops, pushes) -> pops <= a -> b = a - pops + pushes ->
  d_op dec <> OP_RETURN -> d_op dec <> OP_JUMP -> d_op dec <> OP_IF_TRUE ->
  FR pool pc ins a b.
Proof.
  intros Hdec Hsz Hne Heff Hpops Hb Ho1 Ho2 Ho3 dep L k f d pend lr Hk HL Hh Ha Hp Hc.
  destruct ins as [|b0 r]; [congruence|].
  change (len (b0 :: r)) with (S (len r)) in *. cbn [Nat.add app].
  rewrite vloop_S. rewrite Hh. change (b0 :: r ++ k) with ((b0 :: r) ++ k). rewrite Hdec, Heff, Ha.
  assert (Hle : Nat.leb pops (a + dep) = true) by (apply Nat.leb_le; lia). rewrite Hle. cbn [andb].
  rewrite vnext_default by assumption. rewrite Hsz.
  change (S (len r)) with (len (b0 :: r)). rewrite skipn_len_app.
  eapply vloop_mono; [|specialize (Hc 0); cbn [repeat app] in Hc].
  2: { replace (a + dep - pops + pushes) with (b + dep) by lia. exact Hc. }
  lia.
Qed.

Lemma repeat_snoc_app {X} (x : X) j l : repeat x j ++ x :: l = repeat x (S j) ++ l.
Proof. induction j; cbn [repeat app] in *; [reflexivity|]. rewrite IHj. reflexivity. Qed.

Lemma decode_if b hi lo k : decode_op b = Some OP_IF_TRUE ->
  decode (b :: hi :: lo :: k) = Some (mkDec OP_IF_TRUE None None (Some (hi * 256 + lo)%N) None 3).
Proof. intros H. rewrite decode_cons, H. reflexivity. Qed.
Lemma decode_jump b hi lo k : decode_op b = Some OP_JUMP ->
  decode (b :: hi :: lo :: k) = Some (mkDec OP_JUMP None None (Some (hi * 256 + lo)%N) None 3).
Proof. intros H. rewrite decode_cons, H. reflexivity. Qed.

Lemma FR_cond pool pc pc2 bf nx fc ft fe bIF bJ bh bl nh nl :
  decode_op bIF = Some OP_IF_TRUE -> decode_op bJ = Some OP_JUMP ->
  fe <> [] ->
  pc2 = pc + len fc + 3 -> bf = pc2 + len ft + 3 -> nx = bf + len fe ->
  FR pool pc fc 0 1 -> FR pool pc2 ft 0 1 -> FR pool bf fe 0 1 ->
  N.to_nat (bh * 256 + bl) = bf ->
  N.to_nat (nh * 256 + nl) = nx ->
  FR pool pc (fc ++ [bIF; bh; bl] ++ ft ++ [bJ; nh; nl] ++ fe) 0 1.
Proof.
  intros HbIF HbJ Hfene Epc2 Ebf0 Enx0 Hfc Hft Hfe Ebf Enx' dep L k f d pend lr Hk HL Hh Ha Hp Hc.
  unfold FR in Hfc, Hft, Hfe.
  assert (Hlfe : 0 < len fe) by (destruct fe; [congruence|cbn; lia]).
  assert (Hlen : len (fc ++ [bIF; bh; bl] ++ ft ++ [bJ; nh; nl] ++ fe) = len fc + 3 + len ft + 3 + len fe).
  { rewrite !len_app. cbn [len List.length]. unfold len. lia. }
  rewrite Hlen in *.
  set (P := pend_del pc pend) in *.
  assert (Enx : pc + (len fc + 3 + len ft + 3 + len fe) = nx) by lia.
  rewrite Enx in *.
  assert (HP : forall q, q < nx -> forall x, In x P -> fst x <> q).
  { intros q Hq x Hx. specialize (Hp x Hx). lia. }
  apply vloop_mono with (f := len fc + S (len ft + S (len fe + f))); [lia|].
  replace ((fc ++ [bIF; bh; bl] ++ ft ++ [bJ; nh; nl] ++ fe) ++ k)
    with (fc ++ ([bIF; bh; bl] ++ ft ++ ([bJ; nh; nl] ++ fe ++ k))).
  2: { rewrite <- !app_assoc. reflexivity. }
  apply (Hfc dep); auto.
  - discriminate.
  - lia.
  - intros x Hx. specialize (Hp x Hx). lia.
  - intros j1. fold P. cbn [Nat.add app].
    rewrite vloop_S.
    rewrite here_some_repeat by (apply HP; lia).
    rewrite (decode_if _ _ _ _ HbIF). cbn [effect d_op].
    rewrite agree_app, agree_repeat, (agree_none P) by (apply HP; lia).
    cbn [andb Nat.leb]. unfold vnext. cbn [d_op d_jump d_size]. rewrite Ebf.
    assert (E1 : Nat.ltb (pc + len fc) bf = true) by (apply Nat.ltb_lt; lia). rewrite E1.
    assert (E2 : Nat.ltb bf L = true) by (apply Nat.ltb_lt; lia). rewrite E2. cbn [andb].
    rewrite pend_del_app, pend_del_repeat, (pend_del_id (pc + len fc) P) by (apply HP; lia). cbn [app skipn].
    replace (S dep - 1 + 0) with dep by lia. rewrite <- Epc2.
    assert (HP2 : forall q, q <> bf -> q < nx -> forall x, In x ((bf, dep) :: P) -> fst x <> q).
    { intros q Hq1 Hq2 x [Hx|Hx]; [subst x; cbn; lia|apply HP; auto]. }
    apply (Hft dep); auto.
    + discriminate.
    + lia.
    + unfold here. rewrite pend_get_none by (apply HP2; lia). reflexivity.
    + apply agree_none. apply HP2; lia.
    + rewrite pend_del_id by (apply HP2; lia).
      intros x [Hx|Hx]; [subst x; cbn; lia|specialize (Hp x Hx); lia].
    + intros j2. rewrite (pend_del_id pc2) by (apply HP2; lia). cbn [Nat.add app].
      rewrite vloop_S.
      rewrite here_some_repeat by (apply HP2; lia).
      rewrite (decode_jump _ _ _ _ HbJ). cbn [effect d_op].
      rewrite agree_app, agree_repeat, (agree_none ((bf, dep) :: P)) by (apply HP2; lia).
      cbn [andb Nat.leb]. unfold vnext. cbn [d_op d_jump d_size]. rewrite Enx'.
      assert (E3 : Nat.ltb (pc2 + len ft) nx = true) by (apply Nat.ltb_lt; lia). rewrite E3.
      assert (E4 : Nat.ltb nx L = true) by (apply Nat.ltb_lt; lia). rewrite E4. cbn [andb].
      rewrite pend_del_app, pend_del_repeat, (pend_del_id (pc2 + len ft) ((bf, dep) :: P)) by (apply HP2; lia). cbn [app skipn].
      replace (S dep - 0 + 0) with (S dep) by lia. rewrite <- Ebf0.
      assert (E5 : Nat.eqb nx bf = false) by (apply Nat.eqb_neq; lia).
      assert (Ed : pend_del bf ((nx, S dep) :: (bf, dep) :: P) = (nx, S dep) :: P).
      { unfold pend_del. cbn [filter fst]. rewrite E5, Nat.eqb_refl. cbn [negb].
        f_equal. apply (pend_del_id bf P). apply HP; lia. }
      apply (Hfe dep); auto.
      * lia.
      * unfold here. cbn [pend_get]. rewrite E5, Nat.eqb_refl. reflexivity.
      * unfold agree. cbn [forallb fst snd]. rewrite E5, !Nat.eqb_refl. cbn [andb].
        apply (agree_none P bf (Some (0 + dep))). apply HP; lia.
      * rewrite Ed. intros x [Hx|Hx]; [subst x; cbn; lia|specialize (Hp x Hx); lia].
      * intros j3. rewrite Ed. rewrite <- Enx0. rewrite repeat_snoc_app. apply Hc.
Qed.

(* a whole code object: a fragment for one value, then RETURN *)
Lemma verify_of_FR pool frag bR :
  decode_op bR = Some OP_RETURN -> FR pool 0 frag 0 1 -> verify pool (frag ++ [bR]) = true.
Proof.
  intros HbR H. unfold verify, FR in *.
  rewrite len_app. change (len [bR]) with 1.
  replace (S (len frag + 1)) with (len frag + 2) by lia.
  apply (H 0); auto.
  - discriminate.
  - lia.
  - intros x [].
  - intros j. cbn [Nat.add pend_del filter].
    rewrite vloop_S. rewrite (here_some_repeat (len frag) 1 j []) by (intros x []).
    rewrite app_nil_r.
    rewrite decode_cons, HbR. cbn [operands decode_go effect d_op].
    rewrite agree_repeat. cbn [andb Nat.leb]. unfold vnext. cbn [d_op d_size skipn Nat.eqb andb].
    rewrite pend_del_repeat. reflexivity.
Qed.

(* ---- the opcode bytes ---- *)
Lemma decode_op_byte o : decode_op (op_byte o) = Some o.
Proof. destruct o; vm_compute; reflexivity. Qed.

(* ---- induction on annotated trees ---- *)
Section AexprInd.
  Variable P : aexpr -> Prop.
  Hypothesis Hstr : forall v, P (AStr v).
  Hypothesis Hnum : forall t n, P (ANum t n).
  Hypothesis Htime : forall t, P (ATime t).
  Hypothesis Hbool : forall b, P (ABool b).
  Hypothesis Hlist : forall t es, Forall P es -> P (AList t es).
  Hypothesis Hmap : forall t kvs, Forall (fun kv => P (fst kv) /\ P (snd kv)) kvs -> P (AMap t kvs).
  Hypothesis Hobj : forall t fs, Forall (fun f => P (snd f)) fs -> P (AObj t fs).
  Hypothesis Hident : forall c n, P (AIdent c n).
  Hypothesis Hcall : forall c key idx fty callee args, P callee -> Forall P args -> P (ACall c key idx fty callee args).
  Hypothesis Hsub : forall c vty v i, P v -> P i -> P (ASub c vty v i).
  Hypothesis Hmember : forall c oty idx o n, P o -> P (AMember c oty idx o n).

  Fixpoint aexpr_ind' (a : aexpr) : P a :=
    match a with
    | AStr v => Hstr v | ANum t n => Hnum t n | ATime t => Htime t | ABool b => Hbool b
    | AList t es => Hlist t es ((fix go (l : list aexpr) : Forall P l :=
                                  match l with [] => Forall_nil _ | x :: r => Forall_cons _ (aexpr_ind' x) (go r) end) es)
    | AMap t kvs => Hmap t kvs ((fix go (l : list (aexpr * aexpr)) : Forall (fun kv => P (fst kv) /\ P (snd kv)) l :=
                                   match l with
                                   | [] => Forall_nil _
                                   | x :: r => Forall_cons _ (conj (aexpr_ind' (fst x)) (aexpr_ind' (snd x))) (go r)
                                   end) kvs)
    | AObj t fs => Hobj t fs ((fix go (l : list (string * aexpr)) : Forall (fun f => P (snd f)) l :=
                                 match l with [] => Forall_nil _ | x :: r => Forall_cons _ (aexpr_ind' (snd x)) (go r) end) fs)
    | AIdent c n => Hident c n
    | ACall c key idx fty callee args =>
        Hcall c key idx fty callee args (aexpr_ind' callee)
          ((fix go (l : list aexpr) : Forall P l :=
              match l with [] => Forall_nil _ | x :: r => Forall_cons _ (aexpr_ind' x) (go r) end) args)
    | ASub c vty v i => Hsub c vty v i (aexpr_ind' v) (aexpr_ind' i)
    | AMember c oty idx o n => Hmember c oty idx o n (aexpr_ind' o)
    end.
End AexprInd.

(* ---- the compiler, one level unfolded ---- *)
Section CompileEq.
Variable ops : numops.
Variable orc : oracles.
Variable fe : fenv.
Notation cmp := (compile ops orc fe).

Fixpoint clist (l : list aexpr) (st : cstate) : cres cstate :=
  match l with [] => COk st | x :: r => let+ st1 := cmp x st in clist r st1 end.
Fixpoint cmap (l : list (aexpr * aexpr)) (st : cstate) : cres cstate :=
  match l with
  | [] => COk st
  | (k, v) :: r => let+ s1 := cmp k st in let+ s2 := cmp v s1 in cmap r s2
  end.
Fixpoint cobj (l : list (string * aexpr)) (st : cstate) : cres cstate :=
  match l with [] => COk st | (_, v) :: r => let+ s1 := cmp v st in cobj r s1 end.
Definition cbranch (br : aexpr + bool) (st : cstate) : cres cstate :=
  match br with
  | inl e => cmp e st
  | inr b => emit_const (CVal (VBool b)) (emit_op OP_CONST st)
  end.
Definition ccond (c : aexpr) (t e : aexpr + bool) (st : cstate) : cres cstate :=
  let+ st1 := cmp c st in
  let st2 := emit_op OP_IF_TRUE st1 in
  let off_false := cs_clen st2 in
  let+ st3 := emit16 0 st2 in
  let+ st4 := cbranch t st3 in
  let st5 := emit_op OP_JUMP st4 in
  let off_next := cs_clen st5 in
  let+ st6 := emit16 0 st5 in
  let branch_false := cs_clen st6 in
  let+ st7 := cbranch e st6 in
  let next := cs_clen st7 in
  let+ st8 := patch16 off_false branch_false st7 in
  patch16 off_next next st8.
Definition cargs (sg : fsig) : list aexpr -> nat -> cstate -> cres cstate :=
  fix go (l : list aexpr) (i : nat) (st : cstate) {struct l} : cres cstate :=
  match l with
  | [] => COk st
  | x :: r =>
      if s_lazy sg then
        let+ sub := cmp x (cs_empty (cs_rpool st) (cs_plen st)) in
        let body := rev (cs_rcode (emit_op OP_RETURN sub)) in
        let st' := mkCS (cs_rcode st) (cs_clen st) (cs_rpool sub) (cs_plen sub) in
        let+ st'' := emit_const (CThunk body (thunk_ret sg i)) (emit_op OP_CONST st') in
        go r (S i) st''
      else let+ st' := cmp x st in go r (S i) st'
  end.

Lemma compile_eq a st :
  cmp a st =
  match a with
  | AStr v => emit_const (CVal (VStr v)) (emit_op OP_CONST st)
  | ANum _ n => emit_const (CVal (VNum (lit_num ops n))) (emit_op OP_CONST st)
  | ATime t => emit_const (CVal (VTime (o_strtotime orc (time_inner t)) 0)) (emit_op OP_CONST st)
  | ABool b => emit_const (CVal (VBool b)) (emit_op OP_CONST st)
  | AList t es =>
      let+ st1 := clist es st in
      let+ st2 := emit_const (CType t) (emit_op OP_NEW_LIST st1) in
      emit16 (N.of_nat (len es)) st2
  | AMap t kvs =>
      let+ st1 := cmap kvs st in
      let+ st2 := emit_const (CType t) (emit_op OP_NEW_MAP st1) in
      emit16 (N.of_nat (len kvs)) st2
  | AObj t fs =>
      let+ st1 := cobj fs st in
      emit_const (CType t) (emit_op OP_NEW_OBJ st1)
  | AIdent _ name => emit_const (CName name) (emit_op OP_LOAD st)
  | ACall _ key idx _ callee args =>
      if String.eqb key "" then
        let+ st1 := cmp callee st in
        let+ st2 := clist args st1 in
        emit8 (N.of_nat (len args)) (emit_op OP_DYNAMIC_CALL st2)
      else
        match lookup_fn fe key idx with
        | None => CErr
        | Some sg =>
            match intrinsic_cbn sg, args with
            | Some BIf, [c; t; e] => ccond c (inl t) (inl e) st
            | Some BAnd, [x; y] => ccond x (inl y) (inr false) st
            | Some BOr, [x; y] => ccond x (inr true) (inl y) st
            | Some BNot, [x] => let+ st1 := cmp x st in COk (emit_op OP_LOGICAL_NOT st1)
            | Some _, _ => CErr
            | None, _ =>
                let+ st1 := cargs sg args O st in
                match intrinsic_cbv sg with
                | Some o => COk (emit_op o st1)
                | None =>
                    let o := if s_lazy sg then OP_CALL_BY_NEED else OP_CALL_BY_VALUE in
                    let+ st2 := emit_const (CFun sg) (emit_op o st1) in
                    emit8 (N.of_nat (len args)) st2
                end
            end
        end
  | ASub _ vty v i =>
      let+ st1 := cmp v st in
      let+ st2 := cmp i st1 in
      if ty_is_list vty then COk (emit_op OP_LIST_LOAD st2)
      else if ty_is_map vty then COk (emit_op OP_MAP_LOAD st2)
      else CErr
  | AMember _ _ idx o name =>
      let+ st1 := cmp o st in
      let+ st2 := emit16 (N.of_nat idx) (emit_op OP_OBJ_LOAD st1) in
      emit_const (CName name) st2
  end.
Proof. destruct a; reflexivity. Qed.
End CompileEq.

(* ---- what the checker guarantees about the annotated tree, as far as the compiler's layout is concerned ---- *)
Inductive awf (fe : fenv) : aexpr -> Prop :=
| W_str v : awf fe (AStr v)
| W_num t n : awf fe (ANum t n)
| W_time t : awf fe (ATime t)
| W_bool b : awf fe (ABool b)
| W_list t es : (exists e, t = TList e) -> Forall (awf fe) es -> awf fe (AList t es)
| W_map t kvs : (exists k v, t = TMap k v) -> Forall (fun kv => awf fe (fst kv) /\ awf fe (snd kv)) kvs -> awf fe (AMap t kvs)
| W_obj t tfs fs : t = TObj tfs -> len tfs = len fs -> Forall (fun f => awf fe (snd f)) fs -> awf fe (AObj t fs)
| W_ident c n : awf fe (AIdent c n)
| W_call c key idx fty callee args :
    awf fe callee -> Forall (awf fe) args ->
    (key <> ""%string -> forall sg, lookup_fn fe key idx = Some sg -> len (s_params sg) = len args) ->
    awf fe (ACall c key idx fty callee args)
| W_sub c vty v i : awf fe v -> awf fe i -> awf fe (ASub c vty v i)
| W_member c oty idx o n : awf fe o -> awf fe (AMember c oty idx o n).

Section CheckAwf.
Variables (fe : fenv) (G : tenv) (fuel : nat) (fresh : N).
Hypothesis Hfe : fenv_ok fe = true.
Hypothesis HG : tenv_ok G = true.
Hypothesis Hfr : fresh_ok fe fresh.

Lemma resolve_go_idx pk args : forall sigs i key idx ps rt,
  (forall sg, In sg sigs -> psig_ok fresh sg) -> forallb ty_ok args = true ->
  resolve_go fuel fresh pk args sigs i = COk (key, idx, ps, rt) ->
  key = pk /\ (i <= idx)%Z /\
  exists sg, nth_error sigs (Z.to_nat (idx - i)) = Some sg /\ List.length (s_params sg) = List.length args.
Proof.
  induction sigs as [|sg r IH]; intros i key idx ps rt Hs Ha H; simpl in H; [discriminate H|].
  destruct (try_infer fuel fresh sg args) as [o| |] eqn:ET; simpl in H; try discriminate H.
  pose proof (Hs sg (or_introl Logic.eq_refl)) as Hsg.
  apply (try_infer_ok fuel fresh sg args o Hsg Ha) in ET. subst o.
  assert (Hlater : resolve_go fuel fresh pk args r (i + 1)%Z = COk (key, idx, ps, rt) ->
                   key = pk /\ (i <= idx)%Z /\
                   exists sg', nth_error (sg :: r) (Z.to_nat (idx - i)) = Some sg' /\
                               List.length (s_params sg') = List.length args).
  { intros H'. destruct (IH (i + 1)%Z key idx ps rt (fun sg' Hin => Hs sg' (or_intror Hin)) Ha H') as (E1 & E2 & sg' & E3 & E4).
    split; [exact E1|]. split; [lia|]. exists sg'. split; [|exact E4].
    replace (Z.to_nat (idx - i)) with (S (Z.to_nat (idx - (i + 1)))) by lia. exact E3. }
  destruct (spec_opt fresh sg args) as [[ps' rt']|] eqn:ES; [|auto].
  destruct (params_match ps' args) eqn:EM; [|auto].
  inversion H; subst. split; [reflexivity|]. split; [lia|].
  exists sg. rewrite Z.sub_diag. split; [reflexivity|].
  unfold spec_opt, infer_spec in ES.
  destruct (Nat.eqb (List.length args) (List.length (s_params sg))) eqn:El; [|discriminate ES].
  apply Nat.eqb_eq in El. auto.
Qed.

Lemma resolve_arity name args key idx ps rt sg :
  forallb ty_ok args = true ->
  resolve fe fuel fresh name args = COk (key, idx, ps, rt) -> params_match ps args = true ->
  lookup_fn fe key idx = Some sg -> List.length (s_params sg) = List.length args.
Proof.
  intros Ha H HM HL. rewrite resolve_unfold in H.
  destruct (assoc (mono_key name args) (f_mono fe)) as [s|] eqn:Em.
  - inversion H; subst. unfold lookup_fn in HL. change (Z.ltb (-1) 0) with true in HL. cbv iota in HL.
    rewrite Em in HL. inversion HL; subst.
    rewrite params_match_eq in HM. apply eqb_list_length in HM. exact HM.
  - destruct (assoc (poly_key name (List.length args)) (f_poly fe)) as [sigs|] eqn:Ep; [|discriminate H].
    destruct (resolve_go_idx (poly_key name (List.length args)) args sigs 0%Z key idx ps rt) as (E1 & E2 & sg' & E3 & E4); auto.
    { intros sg' Hin. eapply psig_ok_intro; eauto. }
    subst key. unfold lookup_fn in HL.
    destruct (Z.ltb idx 0) eqn:El; [apply Z.ltb_lt in El; lia|].
    rewrite Ep in HL. rewrite Z.sub_0_r in E3. rewrite E3 in HL. inversion HL; subst. exact E4.
Qed.

Lemma Forall2_awf {X Y} (f : X -> cres Y) (P : X -> Prop) (Q : Y -> Prop) l ys :
  Forall P l -> (forall x y, P x -> f x = COk y -> Q y) -> cmapM f l = COk ys -> Forall Q ys.
Proof.
  intros HP HPQ H. apply cmapM_Forall2 in H. induction H as [|x y l ys Hxy H IH]; [constructor|].
  inversion HP; subst. constructor; eauto.
Qed.

Lemma check_awf : forall e a T, check fe G fuel fresh e = COk (a, T) -> awf fe a.
Proof.
  induction e using expr_ind'; intros a T HC.
  - simpl in HC. destruct (str_value t); inversion HC; constructor.
  - simpl in HC. destruct (num_parse t); inversion HC; constructor.
  - simpl in HC. inversion HC; constructor.
  - simpl in HC. inversion HC; constructor.
  - (* list *)
    destruct es as [|e0 rest]; simpl in HC.
    + inversion HC; subst. constructor; [eexists; reflexivity|constructor].
    + inversion H as [|? ? He0 Hrest]; subst.
      destruct (check fe G fuel fresh e0) as [[a0 t0]| |] eqn:E0; simpl in HC; try discriminate HC.
      match type of HC with context [cmapM ?F rest] => destruct (cmapM F rest) as [ars| |] eqn:ER end;
        simpl in HC; try discriminate HC.
      inversion HC; subst. constructor; [eexists; reflexivity|].
      constructor; [eapply He0; eauto|].
      eapply Forall2_awf; [exact Hrest| |exact ER].
      intros x y Hx Hxy. cbv beta in Hxy.
      destruct (check fe G fuel fresh x) as [[ax tx]| |] eqn:Ex; simpl in Hxy; try discriminate Hxy.
      destruct (type_assert t0 tx); simpl in Hxy; try discriminate Hxy. inversion Hxy; subst. eapply Hx; eauto.
  - (* map *)
    destruct kvs as [|[k0 v0] rest]; simpl in HC.
    + inversion HC; subst. constructor; [eexists _, _; reflexivity|constructor].
    + inversion H as [|? ? [Hk0 Hv0] Hrest]; subst. cbn [fst snd] in *.
      destruct (check fe G fuel fresh k0) as [[ak0 kt]| |] eqn:E0; simpl in HC; try discriminate HC.
      destruct (negb (is_primitive kt)); [discriminate HC|].
      destruct (check fe G fuel fresh v0) as [[av0 vt]| |] eqn:E1; simpl in HC; try discriminate HC.
      match type of HC with context [cmapM ?F rest] => destruct (cmapM F rest) as [ars| |] eqn:ER end;
        simpl in HC; try discriminate HC.
      inversion HC; subst. constructor; [eexists _, _; reflexivity|].
      constructor; [cbn [fst snd]; split; [eapply Hk0|eapply Hv0]; eauto|].
      eapply Forall2_awf; [exact Hrest| |exact ER].
      intros x y [Hx1 Hx2] Hxy. cbv beta in Hxy.
      destruct (check fe G fuel fresh (fst x)) as [[ax tx]| |] eqn:Ex; simpl in Hxy; try discriminate Hxy.
      destruct (type_assert kt tx); simpl in Hxy; try discriminate Hxy.
      destruct (check fe G fuel fresh (snd x)) as [[ax2 tx2]| |] eqn:Ex2; simpl in Hxy; try discriminate Hxy.
      destruct (type_assert vt tx2); simpl in Hxy; try discriminate Hxy.
      inversion Hxy; subst. cbn [fst snd]. split; [eapply Hx1|eapply Hx2]; eauto.
  - (* obj *)
    simpl in HC.
    match type of HC with context [cmapM ?F fs] => destruct (cmapM F fs) as [afs| |] eqn:ER end;
      simpl in HC; try discriminate HC.
    match type of HC with context [if ?c then _ else _] => destruct c end; [discriminate HC|].
    inversion HC; subst.
    eapply W_obj; [reflexivity|unfold len; rewrite !map_length; reflexivity|].
    apply Forall_map. cbn [snd].
    eapply Forall2_awf; [exact H| |exact ER].
    intros x y Hx Hxy. cbv beta in Hxy.
    destruct (check fe G fuel fresh (snd x)) as [[ax tx]| |] eqn:Ex; simpl in Hxy; try discriminate Hxy.
    inversion Hxy; subst. cbn [fst snd]. eapply Hx; eauto.
  - (* ident *)
    simpl in HC. destruct (reserved (rstr n)); [discriminate HC|].
    destruct (assoc (rstr n) G); inversion HC; constructor.
  - (* call *)
    assert (Hargs : forall aargs, cmapM (check fe G fuel fresh) args = COk aargs -> Forall (awf fe) (map fst aargs)).
    { intros aargs HA. apply Forall_map.
      eapply Forall2_awf; [exact H| |exact HA].
      intros x [ax tx] Hx Hxy. cbn [fst]. eapply Hx; eauto. }
    destruct (is_ident e) eqn:Eid.
    + destruct e as [ | | | | | | | pn n | | | | | | | ]; try discriminate Eid. rewrite check_call_ident in HC.
      destruct (cmapM (check fe G fuel fresh) args) as [aargs| |] eqn:EA; simpl in HC; try discriminate HC.
      destruct (resolve fe fuel fresh (rstr n) (map snd aargs)) as [[[[key idx] ps] rt]| |] eqn:ER; simpl in HC; try discriminate HC.
      destruct (params_match ps (map snd aargs)) eqn:EM; [|discriminate HC].
      inversion HC; subst. constructor; [constructor|auto|].
      intros _ sg HL. unfold len. rewrite map_length. rewrite <- (map_length snd aargs).
      eapply resolve_arity; eauto.
      eapply (args_inv fe G fuel fresh); [|exact EA].
      apply Forall_forall. intros x _. apply check_inv; auto.
    + rewrite check_call_other in HC by exact Eid.
      destruct (cmapM (check fe G fuel fresh) args) as [aargs| |] eqn:EA; simpl in HC; try discriminate HC.
      destruct (check fe G fuel fresh e) as [[ac ft]| |] eqn:EC; simpl in HC; try discriminate HC.
      destruct ft; try discriminate HC.
      match type of HC with context [try_infer ?a ?b ?c ?d] => destruct (try_infer a b c d) as [[[ps' rt']|]| |] end;
        simpl in HC; try discriminate HC.
      match type of HC with context [if ?c then _ else _] => destruct c end; [|discriminate HC].
      inversion HC; subst. constructor; [eapply IHe; eauto|auto|].
      intros Hk. exfalso. apply Hk. reflexivity.
  - (* sub *)
    simpl in HC.
    destruct (check fe G fuel fresh e1) as [[av vt]| |] eqn:E1; simpl in HC; try discriminate HC.
    destruct vt; try discriminate HC;
      destruct (check fe G fuel fresh e2) as [[ai it]| |] eqn:E2; simpl in HC; try discriminate HC;
      match type of HC with context [type_assert ?x ?y] => destruct (type_assert x y) end; simpl in HC; try discriminate HC;
      inversion HC; subst; constructor; eauto.
  - (* member *)
    simpl in HC.
    destruct (check fe G fuel fresh e) as [[ao ot]| |] eqn:E1; simpl in HC; try discriminate HC.
    destruct ot; try discriminate HC.
    destruct (assoc (rstr n) fs); [|discriminate HC]. destruct (index_of (rstr n) fs); [|discriminate HC].
    inversion HC; subst. constructor. eauto.
  - discriminate HC.
  - discriminate HC.
  - discriminate HC.
  - discriminate HC.
Qed.
End CheckAwf.

(* ---- compiler states ---- *)
Definition code_of (st : cstate) : list N := rev (cs_rcode st).
Definition pool_of (st : cstate) : list const := rev (cs_rpool st).
Definition cs_wf (st : cstate) : Prop :=
  cs_clen st = N.of_nat (len (cs_rcode st)) /\ cs_plen st = N.of_nat (len (cs_rpool st)).
Definition pool_ext (p q : list const) : Prop := exists s, q = p ++ s.

Lemma pool_ext_refl p : pool_ext p p.
Proof. exists []. rewrite app_nil_r. reflexivity. Qed.
Lemma pool_ext_app p n q : pool_ext (p ++ n) q -> pool_ext p q.
Proof. intros [s E]. exists (n ++ s). rewrite E, app_assoc. reflexivity. Qed.
Lemma pool_ext_nth p q i c : pool_ext p q -> nth_error p i = Some c -> nth_error q i = Some c.
Proof.
  intros [s E] H. subst q. rewrite nth_error_app1; auto. apply nth_error_Some. congruence.
Qed.

Lemma len_rev {X} (l : list X) : len (rev l) = len l.
Proof. unfold len. apply rev_length. Qed.
Lemma len_code_of st : len (code_of st) = len (cs_rcode st).
Proof. apply len_rev. Qed.

Lemma code_emit_byte b st : code_of (emit_byte b st) = code_of st ++ [b].
Proof. reflexivity. Qed.
Lemma pool_emit_byte b st : pool_of (emit_byte b st) = pool_of st.
Proof. reflexivity. Qed.
Lemma wf_emit_byte b st : cs_wf st -> cs_wf (emit_byte b st).
Proof. intros [H1 H2]. split; cbn [emit_byte cs_clen cs_rcode cs_plen cs_rpool]; auto. rewrite H1. unfold len. cbn [List.length]. lia. Qed.

Lemma emit16_spec n st st' : emit16 n st = COk st' ->
  st' = emit_byte (n mod 256) (emit_byte (n / 256) st) /\ (n / 256 * 256 + n mod 256 = n)%N.
Proof.
  unfold emit16. destruct (N.leb n 65535); [|discriminate]. intros H. inversion H. split; auto.
  rewrite N.mul_comm. symmetry. apply N.div_mod. discriminate.
Qed.

Lemma emit8_spec n st st' : emit8 n st = COk st' -> st' = emit_byte n st.
Proof. unfold emit8. destruct (N.leb n 255); [|discriminate]. intros H. inversion H. auto. Qed.

Lemma emit_const_spec c st st' : cs_wf st -> emit_const c st = COk st' ->
  exists hi lo,
    code_of st' = code_of st ++ [hi; lo] /\ pool_of st' = pool_of st ++ [c] /\ cs_wf st' /\
    nth_error (pool_of st') (N.to_nat (hi * 256 + lo)) = Some c.
Proof.
  intros [W1 W2] H. unfold emit_const in H. apply emit16_spec in H as [H E].
  exists (cs_plen st / 256)%N, (cs_plen st mod 256)%N. subst st'.
  split; [unfold code_of; cbn [emit_byte cs_rcode rev]; rewrite <- app_assoc; reflexivity|].
  split; [reflexivity|]. split.
  - apply wf_emit_byte, wf_emit_byte. split; cbn [cs_clen cs_rcode cs_plen cs_rpool]; auto.
    rewrite W2. unfold len. cbn [List.length]. lia.
  - rewrite E. unfold pool_of. cbn [emit_byte cs_rpool rev]. rewrite W2.
    rewrite Nat2N.id. rewrite nth_error_app2 by (rewrite len_rev; unfold len; lia).
    rewrite len_rev. unfold len. rewrite Nat.sub_diag. reflexivity.
Qed.

(* compiled fragments: [st'] extends [st] by a fragment taking depth a to depth b under every later pool *)
Definition CG (ne : bool) (a b : nat) (st st' : cstate) : Prop :=
  cs_wf st' /\ exists frag newp,
    code_of st' = code_of st ++ frag /\ pool_of st' = pool_of st ++ newp /\
    (ne = true -> frag <> []) /\
    forall pool, pool_ext (pool_of st') pool ->
      FR pool (len (code_of st)) frag a b /\ (forall body rt, In (CThunk body rt) newp -> verify pool body = true).

Lemma CG_refl a st : cs_wf st -> CG false a a st st.
Proof.
  intros W. split; auto. exists [], []. rewrite !app_nil_r. repeat split; try discriminate.
  - apply FR_nil.
  - intros body rt [].
Qed.

Lemma CG_trans ne a b c st st1 st2 : CG ne a b st st1 -> CG true b c st1 st2 -> CG true a c st st2.
Proof.
  intros (W1 & f1 & n1 & C1 & P1 & N1 & H1) (W2 & f2 & n2 & C2 & P2 & N2 & H2).
  split; auto. exists (f1 ++ f2), (n1 ++ n2).
  rewrite C2, C1, P2, P1, <- !app_assoc. split; [reflexivity|]. split; [reflexivity|]. split.
  - intros _ E. apply app_eq_nil in E as [_ E]. apply N2; auto.
  - intros pool H.
    assert (Hx2 : pool_ext (pool_of st2) pool) by (rewrite P2, P1, <- app_assoc; exact H).
    assert (Hx1 : pool_ext (pool_of st1) pool) by (rewrite P2 in Hx2; eapply pool_ext_app; eauto).
    destruct (H1 pool Hx1) as [F1 T1]. destruct (H2 pool Hx2) as [F2 T2]. split.
    + apply (FR_app pool _ f1 f2 a b c); [apply N2; auto|exact F1|].
      rewrite <- len_app, <- C1. exact F2.
    + intros body rt Hin. apply in_app_or in Hin as [Hin|Hin]; eauto.
Qed.

Lemma CG_frame ne a b c st st' : CG ne a b st st' -> CG ne (a + c) (b + c) st st'.
Proof.
  intros (W1 & f1 & n1 & C1 & P1 & N1 & H1). split; auto. exists f1, n1. repeat split; auto.
  - apply FR_frame. apply H1; auto.
  - apply H1; auto.
Qed.

Lemma CG_weaken a b st st' : CG true a b st st' -> CG false a b st st'.
Proof.
  intros (W1 & f1 & n1 & C1 & P1 & N1 & H1). split; auto. exists f1, n1. repeat split; auto; try discriminate; apply H1; auto.
Qed.

(* a single emitted instruction *)
Lemma CG_ins a b st st' ins newp :
  cs_wf st' -> code_of st' = code_of st ++ ins -> pool_of st' = pool_of st ++ newp -> ins <> [] ->
  (forall pool, pool_ext (pool_of st') pool -> FR pool (len (code_of st)) ins a b) ->
  (forall pool body rt, pool_ext (pool_of st') pool -> In (CThunk body rt) newp -> verify pool body = true) ->
  CG true a b st st'.
Proof.
  intros W C P N H1 H2. split; auto. exists ins, newp. repeat split; auto. intros; eapply H2; eauto.
Qed.

(* ---- instruction shapes ---- *)
Definition is_ctl (o : opcode) : bool := match o with OP_RETURN | OP_JUMP | OP_IF_TRUE => true | _ => false end.
Lemma is_ctl_false o : is_ctl o = false -> o <> OP_RETURN /\ o <> OP_JUMP /\ o <> OP_IF_TRUE.
Proof. destruct o; try discriminate; repeat split; discriminate. Qed.

Lemma FR_shape pool pc o opnds dec pops pushes a b :
  (forall k, decode_go (operands o) (opnds ++ k) (mkDec o None None None None 1) = Some dec) ->
  d_size dec = S (len opnds) -> d_op dec = o ->
  effect pool dec = Some (pops, pushes) -> pops <= a -> b = a - pops + pushes -> is_ctl o = false ->
  FR pool pc (op_byte o :: opnds) a b.
Proof.
  intros Hd Hs Ho He Hp Hb Hc. destruct (is_ctl_false _ Hc) as (C1 & C2 & C3).
  eapply FR_instr with (dec := dec); eauto; try discriminate; try (rewrite Ho; assumption).
  intros k. cbn [app]. rewrite decode_cons, decode_op_byte. apply Hd.
Qed.

(* emit_const c (emit_op o st): an instruction with one constant operand *)
Lemma CG_opc o c st st' a b pops pushes :
  cs_wf st -> emit_const c (emit_op o st) = COk st' -> operands o = [Oc] -> is_ctl o = false ->
  (forall pool v, nth_error pool (N.to_nat v) = Some c ->
                  effect pool (mkDec o (Some v) None None None 3) = Some (pops, pushes)) ->
  pops <= a -> b = a - pops + pushes ->
  (forall pool body rt, pool_ext (pool_of st') pool -> c = CThunk body rt -> verify pool body = true) ->
  CG true a b st st'.
Proof.
  intros W H Hops Hctl Heff Hp Hb Hth.
  destruct (emit_const_spec _ _ _ (wf_emit_byte _ _ W) H) as (hi & lo & C & P & W' & Hn).
  unfold emit_op in C, P. rewrite code_emit_byte in C. rewrite pool_emit_byte in P. rewrite <- app_assoc in C.
  eapply CG_ins; eauto; try discriminate.
  - intros pool Hx. cbn [app].
    eapply FR_shape with (dec := mkDec o (Some (hi * 256 + lo)%N) None None None 3); eauto.
    + intros k. rewrite Hops. reflexivity.
    + apply Heff. eapply pool_ext_nth; eauto.
  - intros pool body rt Hx [E|[]]. eapply Hth; eauto.
Qed.

Lemma CG_op0 o st a b pops pushes :
  cs_wf st -> operands o = [] -> is_ctl o = false ->
  (forall pool, effect pool (mkDec o None None None None 1) = Some (pops, pushes)) ->
  pops <= a -> b = a - pops + pushes ->
  CG true a b st (emit_op o st).
Proof.
  intros W Hops Hctl Heff Hp Hb.
  eapply CG_ins with (ins := [op_byte o]) (newp := []); try discriminate.
  - apply wf_emit_byte; auto.
  - reflexivity.
  - unfold emit_op. rewrite pool_emit_byte, app_nil_r. reflexivity.
  - intros pool Hx.
    eapply FR_shape with (opnds := []) (dec := mkDec o None None None None 1); eauto.
    intros k. rewrite Hops. reflexivity.
  - intros pool body rt _ [].
Qed.

(* emit_const c (emit_op o st), then a 16-bit operand *)
Lemma CG_opcm o c n st st2 st' a b pops pushes :
  cs_wf st -> emit_const c (emit_op o st) = COk st2 -> emit16 n st2 = COk st' ->
  operands o = [Oc; Om] -> is_ctl o = false ->
  (forall pool v, nth_error pool (N.to_nat v) = Some c ->
                  effect pool (mkDec o (Some v) (Some n) None None 5) = Some (pops, pushes)) ->
  pops <= a -> b = a - pops + pushes -> (forall body rt, c <> CThunk body rt) ->
  CG true a b st st'.
Proof.
  intros W H H2 Hops Hctl Heff Hp Hb Hth.
  destruct (emit_const_spec _ _ _ (wf_emit_byte _ _ W) H) as (hi & lo & C & P & W' & Hn).
  unfold emit_op in C, P. rewrite code_emit_byte in C. rewrite pool_emit_byte in P. rewrite <- app_assoc in C.
  apply emit16_spec in H2 as [E2 V2]. subst st'.
  eapply CG_ins with (ins := [op_byte o; hi; lo; (n / 256)%N; (n mod 256)%N]) (newp := [c]); try discriminate.
  - apply wf_emit_byte, wf_emit_byte; auto.
  - rewrite !code_emit_byte, C, <- !app_assoc. reflexivity.
  - rewrite !pool_emit_byte. exact P.
  - intros pool Hx.
    eapply FR_shape with (dec := mkDec o (Some (hi * 256 + lo)%N) (Some (n / 256 * 256 + n mod 256)%N) None None 5); eauto.
    + intros k. rewrite Hops. reflexivity.
    + rewrite V2. apply Heff. rewrite !pool_emit_byte in Hx. eapply pool_ext_nth; eauto.
  - intros pool body rt Hx [E|[]]. exfalso. eapply Hth; eauto.
Qed.

(* a 16-bit operand, then a constant *)
Lemma CG_opmc o c n st st2 st' a b pops pushes :
  cs_wf st -> emit16 n (emit_op o st) = COk st2 -> emit_const c st2 = COk st' ->
  operands o = [Om; Oc] -> is_ctl o = false ->
  (forall pool v, nth_error pool (N.to_nat v) = Some c ->
                  effect pool (mkDec o (Some v) (Some n) None None 5) = Some (pops, pushes)) ->
  pops <= a -> b = a - pops + pushes -> (forall body rt, c <> CThunk body rt) ->
  CG true a b st st'.
Proof.
  intros W H H2 Hops Hctl Heff Hp Hb Hth.
  apply emit16_spec in H as [E2 V2]. subst st2.
  assert (W2 : cs_wf (emit_byte (n mod 256) (emit_byte (n / 256) (emit_op o st)))) by (repeat apply wf_emit_byte; auto).
  destruct (emit_const_spec _ _ _ W2 H2) as (hi & lo & C & P & W' & Hn).
  unfold emit_op in C, P. rewrite !code_emit_byte in C. rewrite !pool_emit_byte in P. rewrite <- !app_assoc in C.
  eapply CG_ins with (ins := [op_byte o; (n / 256)%N; (n mod 256)%N; hi; lo]) (newp := [c]); try discriminate; auto.
  - intros pool Hx.
    eapply FR_shape with (dec := mkDec o (Some (hi * 256 + lo)%N) (Some (n / 256 * 256 + n mod 256)%N) None None 5); eauto.
    + intros k. rewrite Hops. reflexivity.
    + rewrite V2. apply Heff. eapply pool_ext_nth; eauto.
  - intros pool body rt Hx [E|[]]. exfalso. eapply Hth; eauto.
Qed.

(* a constant, then an 8-bit operand *)
Lemma CG_opcb o c n st st2 st' a b pops pushes :
  cs_wf st -> emit_const c (emit_op o st) = COk st2 -> emit8 n st2 = COk st' ->
  operands o = [Oc; Ob] -> is_ctl o = false ->
  (forall pool v, nth_error pool (N.to_nat v) = Some c ->
                  effect pool (mkDec o (Some v) None None (Some n) 4) = Some (pops, pushes)) ->
  pops <= a -> b = a - pops + pushes -> (forall body rt, c <> CThunk body rt) ->
  CG true a b st st'.
Proof.
  intros W H H2 Hops Hctl Heff Hp Hb Hth.
  destruct (emit_const_spec _ _ _ (wf_emit_byte _ _ W) H) as (hi & lo & C & P & W' & Hn).
  unfold emit_op in C, P. rewrite code_emit_byte in C. rewrite pool_emit_byte in P. rewrite <- app_assoc in C.
  apply emit8_spec in H2. subst st'.
  eapply CG_ins with (ins := [op_byte o; hi; lo; n]) (newp := [c]); try discriminate.
  - apply wf_emit_byte; auto.
  - rewrite !code_emit_byte, C, <- !app_assoc. reflexivity.
  - rewrite !pool_emit_byte. exact P.
  - intros pool Hx.
    eapply FR_shape with (dec := mkDec o (Some (hi * 256 + lo)%N) None None (Some n) 4); eauto.
    + intros k. rewrite Hops. reflexivity.
    + apply Heff. rewrite !pool_emit_byte in Hx. eapply pool_ext_nth; eauto.
  - intros pool body rt Hx [E|[]]. exfalso. eapply Hth; eauto.
Qed.

(* an 8-bit operand only *)
Lemma CG_opb o n st st' a b pops pushes :
  cs_wf st -> emit8 n (emit_op o st) = COk st' ->
  operands o = [Ob] -> is_ctl o = false ->
  (forall pool, effect pool (mkDec o None None None (Some n) 2) = Some (pops, pushes)) ->
  pops <= a -> b = a - pops + pushes ->
  CG true a b st st'.
Proof.
  intros W H2 Hops Hctl Heff Hp Hb.
  apply emit8_spec in H2. subst st'.
  eapply CG_ins with (ins := [op_byte o; n]) (newp := []); try discriminate.
  - apply wf_emit_byte, wf_emit_byte; auto.
  - unfold emit_op. rewrite !code_emit_byte, <- !app_assoc. reflexivity.
  - unfold emit_op. rewrite !pool_emit_byte, app_nil_r. reflexivity.
  - intros pool Hx.
    eapply FR_shape with (dec := mkDec o None None None (Some n) 2); eauto.
    intros k. rewrite Hops. reflexivity.
  - intros pool body rt Hx [].
Qed.

(* ---- the table of strict intrinsics ---- *)
Definition seffect (o : opcode) : option (nat * nat) := effect [] (mkDec o None None None None 1).
Lemma seffect_eq pool o : operands o = [] -> effect pool (mkDec o None None None None 1) = seffect o.
Proof. destruct o; try discriminate; reflexivity. Qed.

Definition cbv_row_ok (x : string * list ty * string) : bool :=
  match find (fun o => String.eqb (op_name o) (snd x)) all_ops with
  | Some o =>
      match operands o, seffect o with
      | [], Some (pops, pushes) =>
          Nat.leb pops (List.length (snd (fst x))) && Nat.eqb (List.length (snd (fst x)) - pops + pushes) 1 && negb (is_ctl o)
      | _, _ => false
      end
  | None => true
  end.
Lemma cbv_table_ok : forallb cbv_row_ok intrinsics_cbv = true.
Proof. vm_compute. reflexivity. Qed.

Lemma ty_eqb_fun_len n1 p1 r1 n2 p2 r2 : ty_eqb (TFun n1 p1 r1) (TFun n2 p2 r2) = true -> List.length p1 = List.length p2.
Proof.
  cbn [ty_eqb]. intros H. apply andb_prop in H as [H _]. revert p2 H.
  induction p1 as [|x r IH]; intros [|y s] H; try discriminate; [reflexivity|].
  apply andb_prop in H as [_ H]. cbn [List.length]. f_equal. apply IH. exact H.
Qed.

Lemma intrinsic_cbv_spec sg o : intrinsic_cbv sg = Some o ->
  operands o = [] /\ is_ctl o = false /\
  exists pops pushes, seffect o = Some (pops, pushes) /\ pops <= len (s_params sg) /\ len (s_params sg) - pops + pushes = 1.
Proof.
  unfold intrinsic_cbv. destruct (sig_is_builtin sg); [|discriminate].
  destruct (find (fun x => same_fn (fst (fst x)) (snd (fst x)) sg) intrinsics_cbv) as [x|] eqn:Ef; [|discriminate].
  intros Ho. apply find_some in Ef as [Hin Hs].
  pose proof cbv_table_ok as HT. rewrite forallb_forall in HT. specialize (HT x Hin).
  unfold cbv_row_ok in HT. rewrite Ho in HT.
  unfold same_fn in Hs. apply andb_prop in Hs as [_ Hs]. apply ty_eqb_fun_len in Hs.
  destruct (operands o); [|discriminate]. destruct (seffect o) as [[pops pushes]|]; [|discriminate].
  apply andb_prop in HT as [HT H3]. apply andb_prop in HT as [H1 H2].
  apply Nat.leb_le in H1. apply Nat.eqb_eq in H2. apply negb_true_iff in H3.
  split; auto. split; auto. exists pops, pushes. unfold len. rewrite <- Hs. auto.
Qed.

(* ---- patching ---- *)
Lemma set_nth_app (l1 : list N) x l2 y : set_nth (l1 ++ x :: l2) (List.length l1) y = l1 ++ y :: l2.
Proof. induction l1; cbn [app List.length set_nth]; [reflexivity|]. f_equal. exact IHl1. Qed.
Lemma set_nth_app1 (l1 : list N) x y l2 z : set_nth (l1 ++ x :: y :: l2) (List.length l1 + 1) z = l1 ++ x :: z :: l2.
Proof.
  induction l1; cbn [app List.length set_nth Nat.add]; [reflexivity|]. f_equal. exact IHl1.
Qed.

Lemma patch16_spec off v st st' pre a b post :
  patch16 off v st = COk st' -> code_of st = pre ++ a :: b :: post -> N.to_nat off = len pre ->
  code_of st' = pre ++ (v / 256)%N :: (v mod 256)%N :: post /\ pool_of st' = pool_of st /\
  (cs_wf st -> cs_wf st') /\ (v / 256 * 256 + v mod 256 = v)%N.
Proof.
  unfold patch16. destruct (N.leb v 65535); [|discriminate]. intros H Hc Ho. inversion H; subst st'; clear H.
  unfold code_of in *. cbn [cs_rcode cs_rpool]. rewrite rev_involutive. rewrite Hc, Ho. unfold len.
  rewrite set_nth_app. rewrite set_nth_app1.
  split; [reflexivity|]. split; [reflexivity|]. split.
  - intros [W1 W2]. split; cbn [cs_clen cs_rcode cs_plen cs_rpool]; auto.
    rewrite W1. f_equal. rewrite len_rev. rewrite <- (len_rev (cs_rcode st)), Hc. unfold len. rewrite !app_length. reflexivity.
  - rewrite N.mul_comm. symmetry. apply N.div_mod. discriminate.
Qed.

Section Compiles.
Variable ops : numops.
Variable orc : oracles.
Variable fe : fenv.
Notation cmp := (compile ops orc fe).

Definition cstmt (a : aexpr) : Prop :=
  awf fe a -> forall st st', cs_wf st -> cmp a st = COk st' -> CG true 0 1 st st'.

Definition nonempty {X} (l : list X) : bool := match l with [] => false | _ => true end.

Lemma CG_cast ne a b a' b' st st' : CG ne a b st st' -> a = a' -> b = b' -> CG ne a' b' st st'.
Proof. intros H -> ->. exact H. Qed.

Lemma CG_wf ne a b st st' : CG ne a b st st' -> cs_wf st'.
Proof. intros [W _]. exact W. Qed.

(* a sequence of fragments each pushing one value *)
Lemma seq_CG {X} (step : X -> cstate -> cres cstate) (go : list X -> cstate -> cres cstate) (k : nat) :
  (forall st, go [] st = COk st) ->
  (forall x r st, go (x :: r) st = let+ st1 := step x st in go r st1) ->
  forall l,
  Forall (fun x => forall st st' a, cs_wf st -> step x st = COk st' -> CG true a (k + a) st st') l ->
  forall st st' a, cs_wf st -> go l st = COk st' -> CG (nonempty l) a (k * len l + a) st st'.
Proof.
  intros Hnil Hcons. induction l as [|x r IH]; intros HF st st' a W H.
  - rewrite Hnil in H. inversion H; subst. rewrite Nat.mul_0_r. apply CG_refl; auto.
  - rewrite Hcons in H. inversion HF as [|? ? Hx Hr]; subst.
    destruct (step x st) as [st1| |] eqn:E1; cbn [cbind] in H; try discriminate.
    pose proof (Hx _ _ a W E1) as G1.
    pose proof (IH Hr _ _ (k + a) (CG_wf _ _ _ _ _ G1) H) as G2.
    destruct r as [|y r'].
    + rewrite Hnil in H. inversion H; subst. cbn [nonempty]. eapply CG_cast; [exact G1|reflexivity|].
      unfold len; cbn [List.length]; lia.
    + cbn [nonempty] in *. eapply CG_cast; [eapply CG_trans; [exact G1|exact G2]|reflexivity|].
      unfold len; cbn [List.length]; lia.
Qed.

Lemma clist_CG l : Forall cstmt l -> Forall (awf fe) l ->
  forall st st' a, cs_wf st -> clist ops orc fe l st = COk st' -> CG (nonempty l) a (len l + a) st st'.
Proof.
  intros HC HW st st' a W H.
  eapply CG_cast; [eapply (seq_CG (fun x => cmp x) (clist ops orc fe) 1); try reflexivity; eauto|reflexivity|lia].
  clear - HC HW. induction HC as [|x r Hx Hr IH]; [constructor|]. inversion HW; subst. constructor; auto.
  intros st st' a W H. eapply CG_cast; [apply (CG_frame true 0 1 a)|reflexivity|reflexivity]. apply Hx; auto.
Qed.

Lemma cobj_CG l : Forall (fun f => cstmt (snd f)) l -> Forall (fun f => awf fe (snd f)) l ->
  forall st st' a, cs_wf st -> cobj ops orc fe l st = COk st' -> CG (nonempty l) a (len l + a) st st'.
Proof.
  intros HC HW st st' a W H.
  eapply CG_cast; [eapply (seq_CG (fun x => cmp (snd x)) (cobj ops orc fe) 1); try reflexivity; eauto|reflexivity|lia].
  - intros [n x] r st0. reflexivity.
  - clear - HC HW. induction HC as [|x r Hx Hr IH]; [constructor|]. inversion HW; subst. constructor; auto.
    intros st st' a W H. eapply CG_cast; [apply (CG_frame true 0 1 a)|reflexivity|reflexivity]. apply Hx; auto.
Qed.

Lemma cmap_CG l : Forall (fun kv => cstmt (fst kv) /\ cstmt (snd kv)) l ->
  Forall (fun kv => awf fe (fst kv) /\ awf fe (snd kv)) l ->
  forall st st' a, cs_wf st -> cmap ops orc fe l st = COk st' -> CG (nonempty l) a (2 * len l + a) st st'.
Proof.
  intros HC HW st st' a W H.
  eapply (seq_CG (fun x st => let+ s1 := cmp (fst x) st in cmp (snd x) s1) (cmap ops orc fe) 2); try reflexivity; eauto.
  - intros [k v] r st0. cbn [cmap fst snd]. destruct (cmp k st0); reflexivity.
  - clear - HC HW. induction HC as [|x r [Hx1 Hx2] Hr IH]; [constructor|]. inversion HW as [|? ? [W1 W2] Wr]; subst. constructor; auto.
    intros st st' a W H.
    destruct (cmp (fst x) st) as [s1| |] eqn:E1; cbn [cbind] in H; try discriminate.
    pose proof (Hx1 W1 _ _ W E1) as G1. pose proof (Hx2 W2 _ _ (CG_wf _ _ _ _ _ G1) H) as G2.
    eapply CG_cast; [eapply CG_trans; [apply (CG_frame true 0 1 a); exact G1|apply (CG_frame true 0 1 (1 + a)); exact G2]|reflexivity|lia].
Qed.

(* a deferred argument: its own code object in the shared pool, then OP_CONST of it *)
Lemma thunk_CG x st sub st'' ty a :
  cstmt x -> awf fe x -> cs_wf st ->
  cmp x (cs_empty (cs_rpool st) (cs_plen st)) = COk sub ->
  emit_const (CThunk (rev (cs_rcode (emit_op OP_RETURN sub))) ty)
             (emit_op OP_CONST (mkCS (cs_rcode st) (cs_clen st) (cs_rpool sub) (cs_plen sub))) = COk st'' ->
  CG true a (S a) st st''.
Proof.
  intros Hx Wx W Hsub Hem.
  assert (W0 : cs_wf (cs_empty (cs_rpool st) (cs_plen st))).
  { destruct W as [W1 W2]. split; [reflexivity|exact W2]. }
  destruct (Hx Wx _ _ W0 Hsub) as (Wsub & frag & newp & C & P & Nn & HF).
  change (code_of (cs_empty (cs_rpool st) (cs_plen st))) with (@nil N) in *. cbn [app] in C.
  change (pool_of (cs_empty (cs_rpool st) (cs_plen st))) with (pool_of st) in P.
  set (stX := mkCS (cs_rcode st) (cs_clen st) (cs_rpool sub) (cs_plen sub)) in *.
  assert (WX : cs_wf stX) by (destruct W, Wsub; split; assumption).
  assert (G1 : CG false a a st stX).
  { split; auto. exists [], newp. rewrite app_nil_r. repeat split; auto; try discriminate.
    - apply FR_nil.
    - apply HF. exact H. }
  eapply CG_trans; [exact G1|].
  eapply (CG_opc OP_CONST _ stX st'' a (S a) 0 1); eauto; try reflexivity; try lia.
  - intros pool v Hn. cbn [effect d_op d_const]. rewrite Hn. reflexivity.
  - intros pool body rt Hx' E.
    assert (Eb : rev (cs_rcode (emit_op OP_RETURN sub)) = frag ++ [op_byte OP_RETURN]) by (rewrite <- C; reflexivity).
    rewrite Eb in E. inversion E; subst body.
    apply verify_of_FR; [apply decode_op_byte|].
    destruct (emit_const_spec _ _ _ (wf_emit_byte _ _ WX) Hem) as (hi & lo & _ & P'' & _).
    unfold emit_op in P''. rewrite pool_emit_byte in P''.
    change (pool_of stX) with (pool_of sub) in P''. rewrite P'' in Hx'.
    apply (HF pool). eapply pool_ext_app; eauto.
Qed.

Lemma cargs_CG sg l : Forall cstmt l -> Forall (awf fe) l ->
  forall i st st' a, cs_wf st -> cargs ops orc fe sg l i st = COk st' -> CG (nonempty l) a (len l + a) st st'.
Proof.
  intros HC. induction HC as [|x r Hx Hr IH]; intros HW i st st' a W H.
  - cbn in H. inversion H; subst. apply CG_refl; auto.
  - inversion HW as [|? ? Wx Wr]; subst. cbn [cargs] in H.
    assert (Hstep : exists st1, CG true a (S a) st st1 /\ cargs ops orc fe sg r (S i) st1 = COk st').
    { destruct (s_lazy sg).
      - destruct (cmp x (cs_empty (cs_rpool st) (cs_plen st))) as [sub| |] eqn:E1; cbn [cbind] in H; try discriminate.
        match type of H with context [emit_const ?c ?s] => destruct (emit_const c s) as [st1| |] eqn:E2 end;
          cbn [cbind] in H; try discriminate.
        exists st1. split; [eapply thunk_CG; eauto|exact H].
      - destruct (cmp x st) as [st1| |] eqn:E1; cbn [cbind] in H; try discriminate.
        exists st1. split; [|exact H].
        eapply CG_cast; [apply (CG_frame true 0 1 a); apply Hx; eauto|reflexivity|reflexivity]. }
    destruct Hstep as (st1 & G1 & H1).
    pose proof (IH Wr _ _ _ (S a) (CG_wf _ _ _ _ _ G1) H1) as G2.
    destruct r as [|y r'].
    + cbn in H1. inversion H1; subst. cbn [nonempty]. eapply CG_cast; [exact G1|reflexivity|reflexivity].
    + cbn [nonempty] in *. eapply CG_cast; [eapply CG_trans; [exact G1|exact G2]|reflexivity|].
      unfold len; cbn [List.length]; lia.
Qed.

Definition bstmt (br : aexpr + bool) : Prop := match br with inl e => cstmt e /\ awf fe e | inr _ => True end.

Lemma cbranch_CG br st st' : bstmt br -> cs_wf st -> cbranch ops orc fe br st = COk st' -> CG true 0 1 st st'.
Proof.
  intros Hb W H. destruct br as [e|b]; cbn [cbranch bstmt] in *.
  - destruct Hb as [H1 H2]. apply H1; auto.
  - eapply (CG_opc OP_CONST _ st st' 0 1 0 1); eauto; try reflexivity.
    + intros pool v Hn. cbn [effect d_op d_const]. rewrite Hn. reflexivity.
    + intros pool body rt _ E. discriminate E.
Qed.

Lemma ccond_CG c t e st st' :
  cstmt c -> awf fe c -> bstmt t -> bstmt e -> cs_wf st ->
  ccond ops orc fe c t e st = COk st' -> CG true 0 1 st st'.
Proof.
  intros Hc Wc Ht He W H. unfold ccond in H.
  destruct (cmp c st) as [st1| |] eqn:E1; cbn [cbind] in H; try discriminate.
  destruct (Hc Wc _ _ W E1) as (W1 & fc & n1 & C1 & P1 & _ & F1).
  set (st2 := emit_op OP_IF_TRUE st1) in *.
  destruct (emit16 0 st2) as [st3| |] eqn:E3; cbn [cbind] in H; try discriminate.
  apply emit16_spec in E3 as [E3 _].
  destruct (cbranch ops orc fe t st3) as [st4| |] eqn:E4; cbn [cbind] in H; try discriminate.
  destruct (emit16 0 (emit_op OP_JUMP st4)) as [st6| |] eqn:E6; cbn [cbind] in H; try discriminate.
  apply emit16_spec in E6 as [E6 _].
  destruct (cbranch ops orc fe e st6) as [st7| |] eqn:E7; cbn [cbind] in H; try discriminate.
  match type of H with context [patch16 ?o ?v st7] => destruct (patch16 o v st7) as [st8| |] eqn:E8 end;
    cbn [cbind] in H; try discriminate.
  assert (W2 : cs_wf st2) by (apply wf_emit_byte; auto).
  assert (W3 : cs_wf st3) by (subst st3; apply wf_emit_byte, wf_emit_byte; auto).
  destruct (cbranch_CG _ _ _ Ht W3 E4) as (W4 & ft & nt & C4 & P4 & _ & F4).
  assert (W5 : cs_wf (emit_op OP_JUMP st4)) by (apply wf_emit_byte; auto).
  assert (W6 : cs_wf st6) by (subst st6; apply wf_emit_byte, wf_emit_byte; auto).
  destruct (cbranch_CG _ _ _ He W6 E7) as (W7 & fe' & ne' & C7 & P7 & N7 & F7).
  set (h0 := (0 / 256)%N) in *. set (l0 := (0 mod 256)%N) in *.
  assert (C3 : code_of st3 = code_of st ++ fc ++ [op_byte OP_IF_TRUE; h0; l0]).
  { subst st3 st2. unfold emit_op. rewrite !code_emit_byte, C1, <- !app_assoc. reflexivity. }
  assert (C6 : code_of st6 = code_of st ++ fc ++ [op_byte OP_IF_TRUE; h0; l0] ++ ft ++ [op_byte OP_JUMP; h0; l0]).
  { subst st6. unfold emit_op. rewrite !code_emit_byte, C4, C3, <- !app_assoc. reflexivity. }
  assert (P3 : pool_of st3 = pool_of st1) by (subst st3 st2; reflexivity).
  assert (P6 : pool_of st6 = pool_of st4) by (subst st6; reflexivity).
  assert (Lc : forall s, cs_wf s -> N.to_nat (cs_clen s) = len (code_of s)).
  { intros s [Ws _]. rewrite Ws, Nat2N.id, len_code_of. reflexivity. }
  (* first patch *)
  destruct (patch16_spec _ _ _ _ (code_of st ++ fc ++ [op_byte OP_IF_TRUE]) h0 l0
              (ft ++ [op_byte OP_JUMP; h0; l0] ++ fe') E8) as (C8 & P8 & W8 & V8).
  { rewrite C7, C6, <- !app_assoc. reflexivity. }
  { rewrite (Lc _ W2). subst st2. unfold emit_op. rewrite code_emit_byte, C1, <- app_assoc. reflexivity. }
  specialize (W8 W7).
  (* second patch *)
  destruct (patch16_spec _ _ _ _
              (code_of st ++ fc ++ [op_byte OP_IF_TRUE; (cs_clen st6 / 256)%N; (cs_clen st6 mod 256)%N] ++ ft ++ [op_byte OP_JUMP])
              h0 l0 fe' H) as (C9 & P9 & W9 & V9).
  { rewrite C8, <- !app_assoc. reflexivity. }
  { rewrite (Lc _ W5). unfold emit_op. rewrite code_emit_byte, C4, C3, <- !app_assoc. rewrite !len_app. reflexivity. }
  specialize (W9 W8).
  split; auto.
  exists (fc ++ [op_byte OP_IF_TRUE; (cs_clen st6 / 256)%N; (cs_clen st6 mod 256)%N] ++ ft ++
          [op_byte OP_JUMP; (cs_clen st7 / 256)%N; (cs_clen st7 mod 256)%N] ++ fe'), (n1 ++ nt ++ ne').
  split; [rewrite C9, <- !app_assoc; reflexivity|].
  split; [rewrite P9, P8, P7, P6, P4, P3, P1, <- !app_assoc; reflexivity|].
  split.
  { intros _ E. apply app_eq_nil in E as [_ E]. discriminate E. }
  intros pool Hx.
  assert (Hx7 : pool_ext (pool_of st7) pool) by (rewrite P9, P8 in Hx; exact Hx).
  assert (Hx4 : pool_ext (pool_of st4) pool) by (rewrite P7, P6 in Hx7; eapply pool_ext_app; eauto).
  assert (Hx1 : pool_ext (pool_of st1) pool) by (rewrite P4, P3 in Hx4; eapply pool_ext_app; eauto).
  destruct (F1 pool Hx1) as [FR1 T1]. destruct (F4 pool Hx4) as [FR4 T4]. destruct (F7 pool Hx7) as [FR7 T7].
  split.
  - eapply (FR_cond pool (len (code_of st)) (len (code_of st3)) (len (code_of st6)) (len (code_of st7)));
      try apply decode_op_byte; eauto.
    + rewrite C3, !len_app. cbn [len List.length]. unfold len. lia.
    + rewrite C6, C3, !len_app. cbn [len List.length]. unfold len. lia.
    + rewrite C7, !len_app. reflexivity.
    + rewrite V8. apply Lc; auto.
    + rewrite V9. apply Lc; auto.
  - intros body rt Hin. apply in_app_or in Hin as [Hin|Hin]; [eauto|].
    apply in_app_or in Hin as [Hin|Hin]; eauto.
Qed.


Lemma const_val_CG v st st' : cs_wf st -> emit_const (CVal v) (emit_op OP_CONST st) = COk st' -> CG true 0 1 st st'.
Proof.
  intros W H. eapply (CG_opc OP_CONST _ st st' 0 1 0 1); eauto; try reflexivity.
  - intros pool i Hn. cbn [effect d_op d_const]. rewrite Hn. reflexivity.
  - intros pool body rt _ E. discriminate E.
Qed.

Lemma Nat2N_len (n : nat) : N.to_nat (N.of_nat n) = n.
Proof. apply Nat2N.id. Qed.

Theorem compile_CG : forall a, cstmt a.
Proof.
  apply aexpr_ind'; [intros v|intros t n|intros t|intros b|intros t es HF|intros t kvs HF|intros t fs HF|intros c n
                    |intros c key idx fty callee args IHc HF|intros c vty v i IHv IHi|intros c oty idx o n IHo];
    intros Wa st st' W H; rewrite compile_eq in H.
  - eapply const_val_CG; eauto.
  - eapply const_val_CG; eauto.
  - eapply const_val_CG; eauto.
  - eapply const_val_CG; eauto.
  - (* list *)
    inversion Wa as [| | | |? ? [el Et] Wes| | | | | |]; subst.
    destruct (clist ops orc fe es st) as [st1| |] eqn:E1; cbn [cbind] in H; try discriminate.
    pose proof (clist_CG es HF Wes _ _ 0 W E1) as G1.
    match type of H with context [emit_const ?c ?s] => destruct (emit_const c s) as [st2| |] eqn:E2 end;
      cbn [cbind] in H; try discriminate.
    eapply CG_trans; [exact G1|].
    eapply (CG_opcm OP_NEW_LIST _ _ st1 st2 st' (len es + 0) 1 (len es) 1); eauto using CG_wf; try reflexivity; try lia.
    + intros pool v Hn. cbn [effect d_op d_const d_med]. rewrite Hn, Nat2N_len. reflexivity.
    + intros body rt E. discriminate E.
  - (* map *)
    inversion Wa as [| | | | |? ? [kt [vt Et]] Wes| | | | |]; subst.
    destruct (cmap ops orc fe kvs st) as [st1| |] eqn:E1; cbn [cbind] in H; try discriminate.
    pose proof (cmap_CG kvs HF Wes _ _ 0 W E1) as G1.
    match type of H with context [emit_const ?c ?s] => destruct (emit_const c s) as [st2| |] eqn:E2 end;
      cbn [cbind] in H; try discriminate.
    eapply CG_trans; [exact G1|].
    eapply (CG_opcm OP_NEW_MAP _ _ st1 st2 st' (2 * len kvs + 0) 1 (2 * len kvs) 1); eauto using CG_wf; try reflexivity; try lia.
    + intros pool v Hn. cbn [effect d_op d_const d_med]. rewrite Hn, Nat2N_len. reflexivity.
    + intros body rt E. discriminate E.
  - (* obj *)
    inversion Wa as [| | | | | |? tfs ? Et El Wfs| | | |]; subst.
    destruct (cobj ops orc fe fs st) as [st1| |] eqn:E1; cbn [cbind] in H; try discriminate.
    pose proof (cobj_CG fs HF Wfs _ _ 0 W E1) as G1.
    eapply CG_trans; [exact G1|].
    eapply (CG_opc OP_NEW_OBJ _ st1 st' (len fs + 0) 1 (len fs) 1); eauto using CG_wf; try reflexivity; try lia.
    + intros pool v Hn. cbn [effect d_op d_const]. rewrite Hn, El. reflexivity.
    + intros pool body rt _ E. discriminate E.
  - (* ident *)
    eapply (CG_opc OP_LOAD _ st st' 0 1 0 1); eauto; try reflexivity.
    + intros pool v Hn. cbn [effect d_op d_const]. rewrite Hn. reflexivity.
    + intros pool body rt _ E. discriminate E.
  - (* call *)
    inversion Wa as [| | | | | | | |? ? ? ? ? ? Wc Wargs Har| |]; subst.
    destruct (String.eqb key "") eqn:Ek.
    + (* dynamic *)
      destruct (cmp callee st) as [st1| |] eqn:E1; cbn [cbind] in H; try discriminate.
      pose proof (IHc Wc _ _ W E1) as G1.
      destruct (clist ops orc fe args st1) as [st2| |] eqn:E2; cbn [cbind] in H; try discriminate.
      pose proof (clist_CG args HF Wargs _ _ 1 (CG_wf _ _ _ _ _ G1) E2) as G2.
      assert (G12 : CG true 0 (len args + 1) st st2).
      { destruct args; [cbn in E2; inversion E2; subst; exact G1|eapply CG_trans; eauto]. }
      eapply CG_trans; [exact G12|].
      eapply (CG_opb OP_DYNAMIC_CALL _ st2 st' (len args + 1) 1 (S (len args)) 1); eauto using CG_wf; try reflexivity; try lia.
      intros pool. cbn [effect d_op d_b]. rewrite Nat2N_len. reflexivity.
    + (* static *)
      assert (Hk : key <> ""%string) by (intros E; subst; discriminate Ek).
      destruct (lookup_fn fe key idx) as [sg|] eqn:El; [|discriminate].
      specialize (Har Hk sg eq_refl).
      destruct (intrinsic_cbn sg) as [bf|] eqn:Ecbn.
      * destruct bf; try discriminate H.
        all: repeat match type of H with (match ?l with _ => _ end) = _ => destruct l; try discriminate H end.
        all: repeat match goal with HH : Forall _ (_ :: _) |- _ => inversion HH; clear HH; subst end.
        all: try solve [eapply ccond_CG; [..|exact H]; cbn [bstmt]; auto].
        (* not *)
        match type of H with context [cmp ?x st] => destruct (cmp x st) as [st1| |] eqn:E1 end;
          cbn [cbind] in H; try discriminate. inversion H; subst.
        match goal with Hx : cstmt ?x, Wx : awf fe ?x |- _ => pose proof (Hx Wx _ _ W E1) as G1 end.
        eapply CG_trans; [exact G1|].
        eapply (CG_op0 OP_LOGICAL_NOT st1 1 1 1 1); eauto using CG_wf; try reflexivity; try lia.
      * destruct (cargs ops orc fe sg args 0 st) as [st1| |] eqn:E1; cbn [cbind] in H; try discriminate.
        pose proof (cargs_CG sg args HF Wargs _ _ _ 0 W E1) as G1.
        destruct (intrinsic_cbv sg) as [o|] eqn:Ecbv.
        -- inversion H; subst.
           destruct (intrinsic_cbv_spec _ _ Ecbv) as (Hops & Hctl & pops & pushes & Hse & Hle & Hnet).
           eapply CG_trans; [exact G1|].
           eapply (CG_op0 o st1 (len args + 0) 1 pops pushes); eauto using CG_wf; try lia;
             try (intros pool; rewrite seffect_eq; auto).
        -- match type of H with context [emit_const ?c ?s] => destruct (emit_const c s) as [st2| |] eqn:E2 end;
             cbn [cbind] in H; try discriminate.
           eapply CG_trans; [exact G1|].
           destruct (s_lazy sg) eqn:Elz.
           ++ eapply (CG_opcb OP_CALL_BY_NEED _ _ st1 st2 st' (len args + 0) 1 (len args) 1); eauto using CG_wf; try reflexivity; try lia.
              ** intros pool v Hn. cbn [effect d_op d_const d_b]. rewrite Hn, Nat2N_len, Har, Nat.eqb_refl, Elz. reflexivity.
              ** intros body rt E. discriminate E.
           ++ eapply (CG_opcb OP_CALL_BY_VALUE _ _ st1 st2 st' (len args + 0) 1 (len args) 1); eauto using CG_wf; try reflexivity; try lia.
              ** intros pool v Hn. cbn [effect d_op d_const d_b]. rewrite Hn, Nat2N_len, Har, Nat.eqb_refl, Elz. reflexivity.
              ** intros body rt E. discriminate E.
  - (* sub *)
    inversion Wa as [| | | | | | | | |? ? ? ? W1 W2|]; subst.
    destruct (cmp v st) as [st1| |] eqn:E1; cbn [cbind] in H; try discriminate.
    pose proof (IHv W1 _ _ W E1) as G1.
    destruct (cmp i st1) as [st2| |] eqn:E2; cbn [cbind] in H; try discriminate.
    pose proof (IHi W2 _ _ (CG_wf _ _ _ _ _ G1) E2) as G2.
    assert (G12 : CG true 0 2 st st2) by (eapply CG_trans; [exact G1|apply (CG_frame true 0 1 1); exact G2]).
    destruct (ty_is_list vty).
    + inversion H; subst. eapply CG_trans; [exact G12|].
      eapply (CG_op0 OP_LIST_LOAD st2 2 1 2 1); eauto using CG_wf; try reflexivity; lia.
    + destruct (ty_is_map vty); [|discriminate]. inversion H; subst. eapply CG_trans; [exact G12|].
      eapply (CG_op0 OP_MAP_LOAD st2 2 1 2 1); eauto using CG_wf; try reflexivity; lia.
  - (* member *)
    inversion Wa as [| | | | | | | | | |? ? ? ? ? W1]; subst.
    destruct (cmp o st) as [st1| |] eqn:E1; cbn [cbind] in H; try discriminate.
    pose proof (IHo W1 _ _ W E1) as G1.
    match type of H with context [emit16 ?c ?s] => destruct (emit16 c s) as [st2| |] eqn:E2 end;
      cbn [cbind] in H; try discriminate.
    eapply CG_trans; [exact G1|].
    eapply (CG_opmc OP_OBJ_LOAD _ _ st1 st2 st' 1 1 1 1); eauto using CG_wf; try reflexivity; try lia.
    + intros pool v Hn. cbn [effect d_op d_const d_med]. rewrite Hn. reflexivity.
    + intros body rt E. discriminate E.
Qed.

End Compiles.

Lemma fenv_std_ok : fenv_ok fenv_std = true.
Proof. vm_compute. reflexivity. Qed.

Lemma compile_verifies : forall (ops : numops) (orc : oracles) fe G fuel fresh e a T code pool,
  (fe = builtin_fenv \/ fe = fenv_std) ->
  tenv_ok G = true -> fresh_ok fe fresh ->
  check fe G fuel fresh e = COk (a, T) ->
  compile_main ops orc fe a = COk (code, pool) ->
  verify_all code pool = true.
Proof.
  intros ops orc fe G fuel fresh e a T code pool Hfe HG Hfr HC HM.
  assert (Hok : fenv_ok fe = true) by (destruct Hfe; subst fe; [apply builtin_table_ok|apply fenv_std_ok]).
  pose proof (check_awf fe G fuel fresh Hok HG Hfr e a T HC) as Wa.
  unfold compile_main in HM.
  destruct (compile ops orc fe a (cs_empty [] 0)) as [st| |] eqn:E; cbn [cbind] in HM; try discriminate.
  inversion HM; subst code pool. clear HM.
  assert (W0 : cs_wf (cs_empty [] 0)) by (split; reflexivity).
  destruct (compile_CG ops orc fe a Wa _ _ W0 E) as (W & frag & newp & C & P & _ & HF).
  change (code_of (cs_empty [] 0)) with (@nil N) in *. change (pool_of (cs_empty [] 0)) with (@nil const) in P.
  cbn [app] in C, P.
  change (rev (cs_rcode (emit_op OP_RETURN st))) with (code_of st ++ [op_byte OP_RETURN]).
  change (rev (cs_rpool (emit_op OP_RETURN st))) with (pool_of st).
  destruct (HF (pool_of st) (pool_ext_refl _)) as [F T'].
  unfold verify_all. fold (code_of st). fold (pool_of st). apply andb_true_intro. split.
  - rewrite C. apply verify_of_FR; [apply decode_op_byte|exact F].
  - apply forallb_forall. intros c Hin. destruct c; auto. apply (T' code ret). rewrite <- P. exact Hin.
Qed.

Print Assumptions opcode_table.
Print Assumptions emit16_roundtrip.
Print Assumptions jumps_forward.
Print Assumptions verified_safe.
Print Assumptions compile_verifies.
