(* C06 proofs: lazy operands run only when selected; strict operands run once, left to right. *)
From Coq Require Import List String Bool NArith ZArith.
From Yae Require Import Base.Sexp Model.Ty Gen.Generated Model.Num Model.Lexer Model.Literal Model.Cst Model.Check
  Model.Val Model.Render Model.Builtins Model.Eval Model.EvalSpec.
Import ListNotations.
Local Open Scope string_scope.
Local Open Scope list_scope.

(* same body as Props/C06.v *)
Fixpoint seq_traces (ms : list (M val)) : list event * option (outcome val) :=
  match ms with
  | [] => ([], None)
  | (t, OVal _) :: r => let '(t', o) := seq_traces r in (t ++ t', o)
  | (t, o) :: _ => (t, Some o)
  end.

(* ---- the monadic map: traces concatenate up to the first non-value ---- *)
Lemma mmapM_seq : forall (X : Type) (g : X -> M val) (l : list X),
  let '(tr, stop) := seq_traces (map g l) in
  match stop with
  | Some o => tr_of (mmapM g l) = tr /\ (forall vs, out_of (mmapM g l) <> OVal vs) /\
              is_fault (out_of (mmapM g l)) = is_fault o
  | None => exists vs, mmapM g l = (tr, OVal vs) /\ Forall2 (fun e v => out_of (g e) = OVal v) l vs
  end.
Proof.
  intros X g l. induction l as [|x r IH].
  - cbn. exists []. split; [reflexivity|constructor].
  - cbn [map seq_traces].
    change (mmapM g (x :: r)) with (mbind (g x) (fun y => mbind (mmapM g r) (fun ys => ret (y :: ys)))).
    destruct (g x) as [t o] eqn:Egx. destruct o as [v|k|k].
    + destruct (seq_traces (map g r)) as [t' stop]. destruct stop as [o|].
      * destruct IH as [IHt [IHv IHf]].
        destruct (mmapM g r) as [t2 o2]. cbn in IHt, IHv, IHf. subst t2.
        destruct o2 as [vs|k|k]; cbn.
        -- exfalso. exact (IHv vs eq_refl).
        -- repeat split; [discriminate|exact IHf].
        -- repeat split; [discriminate|exact IHf].
      * destruct IH as [vs [IHm IHF]]. rewrite IHm. cbn. rewrite app_nil_r.
        exists (v :: vs). split; [reflexivity|]. constructor; [rewrite Egx; reflexivity|exact IHF].
    + cbn. repeat split. discriminate.
    + cbn. repeat split. discriminate.
Qed.

Section C06Proofs.
Variable ops : numops.
Variable orc : oracles.
Variable fe : fenv.
Variable rho : venv.

Notation ev := (eval ops orc fe rho).

Definition resolves_to (key : string) (idx : Z) (b : bfun) : Prop :=
  exists sg, lookup_fn fe key idx = Some sg /\ sig_is_builtin sg = true /\ s_lazy sg = true /\
             classify (s_name sg) (s_params sg) = Some b.

(* one unfolding of a static call *)
Lemma eval_static_call : forall f col key idx fty callee args sg,
  key <> "" -> lookup_fn fe key idx = Some sg ->
  ev (S f) (ACall col key idx fty callee args) =
    if s_lazy sg then
      (if sig_is_builtin sg then apply_lazy sg else host_lazy (s_name sg)) (map (fun x (_ : unit) => ev f x) args)
    else mbind (mmapM (ev f) args) (fun vs => apply_strict ops orc sg vs).
Proof.
  intros f col key idx fty callee args sg Hk Hl.
  cbn [eval]. apply String.eqb_neq in Hk. rewrite Hk, Hl. reflexivity.
Qed.

Lemma eval_lazy_builtin : forall f col key idx fty callee args b,
  resolves_to key idx b -> key <> "" ->
  exists sg, classify (s_name sg) (s_params sg) = Some b /\
  ev (S f) (ACall col key idx fty callee args) = apply_lazy sg (map (fun x (_ : unit) => ev f x) args).
Proof.
  intros f col key idx fty callee args b [sg [Hl [Hb [Hz Hc]]]] Hk.
  exists sg. split; [exact Hc|].
  rewrite (eval_static_call f col key idx fty callee args sg Hk Hl), Hz, Hb. reflexivity.
Qed.

Lemma eval_if : forall f col key idx fty callee c a b tc cv,
  resolves_to key idx BIf -> key <> "" ->
  ev f c = (tc, OVal (VBool cv)) ->
  ev (S f) (ACall col key idx fty callee [c; a; b]) =
    (let '(t, o) := ev f (if cv then a else b) in (tc ++ t, o)).
Proof.
  intros f col key idx fty callee c a b tc cv Hr Hk Hc.
  destruct (eval_lazy_builtin f col key idx fty callee [c; a; b] BIf Hr Hk) as [sg [Hcl He]].
  rewrite He. unfold apply_lazy. rewrite Hcl. cbn [map]. rewrite Hc.
  destruct cv; cbn; [destruct (ev f a) as [t o]|destruct (ev f b) as [t o]]; reflexivity.
Qed.

Lemma eval_if_cond_fails : forall f col key idx fty callee c a b tc o,
  resolves_to key idx BIf -> key <> "" ->
  ev f c = (tc, o) -> (forall v, o <> OVal v) ->
  exists o', ev (S f) (ACall col key idx fty callee [c; a; b]) = (tc, o') /\ (forall v, o' <> OVal v).
Proof.
  intros f col key idx fty callee c a b tc o Hr Hk Hc Hnv.
  destruct (eval_lazy_builtin f col key idx fty callee [c; a; b] BIf Hr Hk) as [sg [Hcl He]].
  rewrite He. unfold apply_lazy. rewrite Hcl. cbn [map]. rewrite Hc.
  destruct o as [v|k|k].
  - exfalso. exact (Hnv v eq_refl).
  - exists (OFail k). split; [reflexivity|discriminate].
  - exists (OFault k). split; [reflexivity|discriminate].
Qed.

Lemma eval_and : forall f col key idx fty callee a b ta av,
  resolves_to key idx BAnd -> key <> "" ->
  ev f a = (ta, OVal (VBool av)) ->
  ev (S f) (ACall col key idx fty callee [a; b]) =
    (if av then (let '(t, o) := ev f b in
                 (ta ++ t, match o with OVal (VBool bv) => OVal (VBool bv) | OVal _ => OFault XTypeConf | x => x end))
     else (ta, OVal (VBool false))).
Proof.
  intros f col key idx fty callee a b ta av Hr Hk Ha.
  destruct (eval_lazy_builtin f col key idx fty callee [a; b] BAnd Hr Hk) as [sg [Hcl He]].
  rewrite He. unfold apply_lazy. rewrite Hcl. cbn [map]. rewrite Ha.
  destruct av; cbn.
  - destruct (ev f b) as [t o]. destruct o as [v|k|k]; cbn; try reflexivity.
    destruct v; cbn; rewrite ?app_nil_r; reflexivity.
  - rewrite app_nil_r. reflexivity.
Qed.

Lemma eval_or : forall f col key idx fty callee a b ta av,
  resolves_to key idx BOr -> key <> "" ->
  ev f a = (ta, OVal (VBool av)) ->
  ev (S f) (ACall col key idx fty callee [a; b]) =
    (if av then (ta, OVal (VBool true))
     else (let '(t, o) := ev f b in
           (ta ++ t, match o with OVal (VBool bv) => OVal (VBool bv) | OVal _ => OFault XTypeConf | x => x end))).
Proof.
  intros f col key idx fty callee a b ta av Hr Hk Ha.
  destruct (eval_lazy_builtin f col key idx fty callee [a; b] BOr Hr Hk) as [sg [Hcl He]].
  rewrite He. unfold apply_lazy. rewrite Hcl. cbn [map]. rewrite Ha.
  destruct av; cbn.
  - rewrite app_nil_r. reflexivity.
  - destruct (ev f b) as [t o]. destruct o as [v|k|k]; cbn; try reflexivity.
    destruct v; cbn; rewrite ?app_nil_r; reflexivity.
Qed.

Lemma eval_list_order : forall f t es,
  es <> [] ->
  let '(tr, stop) := seq_traces (map (ev f) es) in
  tr_of (ev (S f) (AList t es)) = tr /\
  match stop with
  | Some o => (forall v, out_of (ev (S f) (AList t es)) <> OVal v) /\ is_fault (out_of (ev (S f) (AList t es))) = is_fault o
  | None => exists vs, out_of (ev (S f) (AList t es)) = OVal (VList t vs) /\ Forall2 (fun e v => out_of (ev f e) = OVal v) es vs
  end.
Proof.
  intros f t es Hne.
  assert (He : ev (S f) (AList t es) = mbind (mmapM (ev f) es) (fun vs => ret (VList t vs))).
  { destruct es as [|e r]; [exfalso; apply Hne; reflexivity|reflexivity]. }
  rewrite He. clear He.
  pose proof (mmapM_seq aexpr (ev f) es) as Hm.
  destruct (seq_traces (map (ev f) es)) as [tr stop]. destruct stop as [o|].
  - destruct Hm as [Ht [Hv Hf]]. destruct (mmapM (ev f) es) as [t2 o2]. cbn in Ht, Hv, Hf. subst t2.
    destruct o2 as [vs|k|k]; cbn.
    + exfalso. exact (Hv vs eq_refl).
    + repeat split; [discriminate|exact Hf].
    + repeat split; [discriminate|exact Hf].
  - destruct Hm as [vs [Hm HF]]. rewrite Hm. cbn. rewrite app_nil_r. split; [reflexivity|].
    exists vs. split; [reflexivity|exact HF].
Qed.

Lemma eval_obj_order : forall f t fs,
  fs <> [] ->
  let '(tr, stop) := seq_traces (map (fun nf => ev f (snd nf)) fs) in
  tr_of (ev (S f) (AObj t fs)) = tr /\
  match stop with
  | Some o => (forall v, out_of (ev (S f) (AObj t fs)) <> OVal v)
  | None => exists vs, out_of (ev (S f) (AObj t fs)) = OVal (VObj t vs) /\ Forall2 (fun nf v => out_of (ev f (snd nf)) = OVal v) fs vs
  end.
Proof.
  intros f t fs Hne.
  assert (He : ev (S f) (AObj t fs) = mbind (mmapM (fun nf => ev f (snd nf)) fs) (fun vs => ret (VObj t vs))).
  { destruct fs as [|e r]; [exfalso; apply Hne; reflexivity|reflexivity]. }
  rewrite He. clear He.
  pose proof (mmapM_seq _ (fun nf : string * aexpr => ev f (snd nf)) fs) as Hm.
  destruct (seq_traces (map (fun nf => ev f (snd nf)) fs)) as [tr stop]. destruct stop as [o|].
  - destruct Hm as [Ht [Hv Hf]]. destruct (mmapM (fun nf => ev f (snd nf)) fs) as [t2 o2]. cbn in Ht, Hv, Hf. subst t2.
    destruct o2 as [vs|k|k]; cbn.
    + exfalso. exact (Hv vs eq_refl).
    + split; [reflexivity|discriminate].
    + split; [reflexivity|discriminate].
  - destruct Hm as [vs [Hm HF]]. rewrite Hm. cbn. rewrite app_nil_r. split; [reflexivity|].
    exists vs. split; [reflexivity|exact HF].
Qed.

Lemma eval_strict_call_order : forall f col key idx fty callee args sg,
  key <> "" -> lookup_fn fe key idx = Some sg -> s_lazy sg = false ->
  let '(tr, stop) := seq_traces (map (ev f) args) in
  match stop with
  | Some o => tr_of (ev (S f) (ACall col key idx fty callee args)) = tr /\
              (forall v, out_of (ev (S f) (ACall col key idx fty callee args)) <> OVal v)
  | None => exists vs, Forall2 (fun e v => out_of (ev f e) = OVal v) args vs /\
              ev (S f) (ACall col key idx fty callee args) =
              (let '(t, o) := apply_strict ops orc sg vs in (tr ++ t, o))
  end.
Proof.
  intros f col key idx fty callee args sg Hk Hl Hz.
  rewrite (eval_static_call f col key idx fty callee args sg Hk Hl), Hz.
  pose proof (mmapM_seq aexpr (ev f) args) as Hm.
  destruct (seq_traces (map (ev f) args)) as [tr stop]. destruct stop as [o|].
  - destruct Hm as [Ht [Hv Hf]]. destruct (mmapM (ev f) args) as [t2 o2]. cbn in Ht, Hv, Hf. subst t2.
    destruct o2 as [vs|k|k]; cbn.
    + exfalso. exact (Hv vs eq_refl).
    + split; [reflexivity|discriminate].
    + split; [reflexivity|discriminate].
  - destruct Hm as [vs [Hm HF]]. rewrite Hm. exists vs. split; [exact HF|reflexivity].
Qed.

Lemma eval_user_lazy : forall f col key idx fty callee c a b sg tc cv,
  key <> "" -> lookup_fn fe key idx = Some sg -> s_lazy sg = true -> sig_is_builtin sg = false -> s_name sg = "lazyif" ->
  ev f c = (tc, OVal (VBool cv)) ->
  ev (S f) (ACall col key idx fty callee [c; a; b]) =
    (let '(t, o) := ev f (if cv then a else b) in (EvHost "lazyif" [] :: tc ++ t, o)).
Proof.
  intros f col key idx fty callee c a b sg tc cv Hk Hl Hz Hb Hn Hc.
  rewrite (eval_static_call f col key idx fty callee [c; a; b] sg Hk Hl), Hz, Hb, Hn.
  unfold host_lazy. change ("lazyif" =? "lazyif") with true. cbn [map]. cbv iota. rewrite Hc.
  destruct cv; cbn; [destruct (ev f a) as [t o]|destruct (ev f b) as [t o]]; reflexivity.
Qed.

End C06Proofs.

Print Assumptions eval_if.
Print Assumptions eval_if_cond_fails.
Print Assumptions eval_and.
Print Assumptions eval_or.
Print Assumptions eval_list_order.
Print Assumptions eval_obj_order.
Print Assumptions eval_strict_call_order.
Print Assumptions eval_user_lazy.
