(* Proofs for Props/C20.v: the SQL WHERE printer keeps the boolean structure of the criteria and quotes literals safely. *)
From Coq Require Import List String Ascii Bool Arith NArith ZArith Lia.
From Yae Require Import Base.Sexp Model.Ty Model.Num Model.Lexer Model.Literal Model.Val Model.Render Model.Eval
  Model.Sql Model.SqlSpec.
Import ListNotations.
Local Open Scope nat_scope.
Local Open Scope list_scope.

Local Arguments is_print : simpl never.
Local Opaque is_print.

(* ------------------------------------------------------------------------------------------------ *)
(* Operands, names                                                                                   *)
(* ------------------------------------------------------------------------------------------------ *)

Lemma string_operand : forall ops rho s, operand_text ops rho (PStr s) = Some (quote s).
Proof. reflexivity. Qed.

Lemma scalars : forall ops rho b sec n,
  operand_text ops rho (PBool b) = Some (if b then bytes_of_string "1" else bytes_of_string "0") /\
  operand_text ops rho (PTime sec) = Some (bytes_of_string "from_unixtime(" ++ fmt_Z sec ++ bytes_of_string ")") /\
  operand_text ops rho (PNum n) = Some (fmt_num ops n).
Proof. intros. repeat split. Qed.

Lemma names : forall ops rho n,
  (forall v, assoc n rho = Some v -> name_text ops rho n = fmt_val ops v) /\
  (assoc n rho = None -> name_text ops rho n = Some ([96%N] ++ bytes_of_string n ++ [96%N])).
Proof.
  intros ops rho n. unfold name_text. split.
  - intros v H. rewrite H. reflexivity.
  - intros H. rewrite H. reflexivity.
Qed.

(* ------------------------------------------------------------------------------------------------ *)
(* text_is_tokens                                                                                    *)
(* ------------------------------------------------------------------------------------------------ *)

Section Tokens.
  Variable ops : numops.
  Variable rho : venv.

  Let rt := render_toks ops rho.

  Lemma render_cons t u r :
    render_toks ops rho (t :: u :: r) =
    do a <- tok_text ops rho t; do b <- render_toks ops rho (u :: r);
    Some (if is_lp t || is_rp u then a ++ b else a ++ [32%N] ++ b).
  Proof. reflexivity. Qed.

  Lemma render_one t : render_toks ops rho [t] = tok_text ops rho t.
  Proof. reflexivity. Qed.

  Lemma last_app_ne {X} (xs ys : list X) d : ys <> [] -> last (xs ++ ys) d = last ys d.
  Proof.
    intros H. induction xs as [|x xs IH]; [reflexivity|].
    cbn [app]. destruct (xs ++ ys) eqn:E.
    - destruct xs; [cbn in E; congruence | discriminate].
    - cbn [last]. exact IH.
  Qed.

  Lemma render_app xs : forall ys, xs <> [] -> ys <> [] ->
    render_toks ops rho (xs ++ ys) =
    do a <- render_toks ops rho xs; do b <- render_toks ops rho ys;
    Some (if is_lp (last xs TAnd) || is_rp (hd TAnd ys) then a ++ b else a ++ [32%N] ++ b).
  Proof.
    induction xs as [|t xs IH]; intros ys Hx Hy; [congruence|].
    destruct xs as [|t' xs].
    - destruct ys as [|u ys]; [congruence|].
      cbn [app]. rewrite render_cons, render_one. reflexivity.
    - change ((t :: t' :: xs) ++ ys) with (t :: t' :: (xs ++ ys)).
      rewrite render_cons.
      change (t' :: xs ++ ys) with ((t' :: xs) ++ ys).
      rewrite IH by (congruence || assumption).
      rewrite render_cons.
      change (last (t :: t' :: xs) TAnd) with (last (t' :: xs) TAnd).
      destruct (tok_text ops rho t) as [a|]; [|reflexivity]. cbn [bind].
      destruct (render_toks ops rho (t' :: xs)) as [b|]; [|reflexivity]. cbn [bind].
      destruct (render_toks ops rho ys) as [c|]; [|reflexivity]. cbn [bind].
      f_equal.
      destruct (is_lp t || is_rp t'), (is_lp (last (t' :: xs) TAnd) || is_rp (hd TAnd ys));
        rewrite <- ?app_assoc; cbn [app]; rewrite <- ?app_assoc; reflexivity.
  Qed.

  (* token lists printed for a criteria tree: non-empty, do not start with ")" and do not end with "(" *)
  Definition good (ts : list stok) : Prop :=
    ts <> [] /\ is_rp (hd TAnd ts) = false /\ is_lp (last ts TAnd) = false.

  Lemma good_paren t : good ([TLp] ++ t ++ [TRp]).
  Proof.
    split; [discriminate|]. split; [reflexivity|].
    rewrite app_assoc. rewrite last_app_ne by discriminate. reflexivity.
  Qed.

  Lemma good_bin xs m ys : good xs -> good ys -> good (xs ++ [m] ++ ys).
  Proof.
    intros (Hx & Hxh & _) (Hy & _ & Hyl). split; [|split].
    - destruct xs; [congruence|discriminate].
    - destruct xs; [congruence|exact Hxh].
    - rewrite app_assoc. rewrite last_app_ne by exact Hy. exact Hyl.
  Qed.

  Lemma good_not ys : good ys -> good ([TNot] ++ ys).
  Proof.
    intros (Hy & _ & Hyl). split; [discriminate|]. split; [reflexivity|].
    rewrite last_app_ne by exact Hy. exact Hyl.
  Qed.

  Lemma good_toks c : forall outer, good (sql_toks c outer).
  Proof.
    induction c as [k|a IHa b IHb|a IHa b IHb|a IHa]; intros outer; cbn [sql_toks].
    - split; [discriminate|]. split; reflexivity.
    - destruct (N.ltb P_AND outer); [apply good_paren|apply good_bin; auto].
    - destruct (N.ltb P_OR outer); [apply good_paren|apply good_bin; auto].
    - destruct (N.ltb P_NOT outer); [apply good_paren|apply good_not; auto].
  Qed.

  Lemma render_paren t : t <> [] ->
    render_toks ops rho ([TLp] ++ t ++ [TRp]) = do x <- render_toks ops rho t; Some ([40%N] ++ x ++ [41%N]).
  Proof.
    intros Ht.
    rewrite render_app; [|discriminate|intros E; apply app_eq_nil in E; destruct E; discriminate].
    rewrite render_app; [|assumption|discriminate].
    cbn [last hd is_lp is_rp orb]. rewrite !render_one. cbn [tok_text bind].
    rewrite orb_true_r.
    destruct (render_toks ops rho t) as [x|]; reflexivity.
  Qed.

  Lemma render_bin xs m ys w : good xs -> good ys -> tok_text ops rho m = Some w ->
    is_lp m = false -> is_rp m = false ->
    render_toks ops rho (xs ++ [m] ++ ys) =
    do x <- render_toks ops rho xs; do y <- render_toks ops rho ys; Some (x ++ ([32%N] ++ w ++ [32%N]) ++ y).
  Proof.
    intros (Hx & _ & Hxl) (Hy & Hyh & _) Hm Hml Hmr.
    rewrite render_app by (try assumption; discriminate).
    rewrite render_app by (try assumption; discriminate).
    cbn [last hd app]. rewrite Hxl, Hyh, Hml, Hmr, render_one, Hm. cbn [orb bind].
    destruct (render_toks ops rho xs) as [x|]; [|reflexivity]. cbn [bind].
    destruct (render_toks ops rho ys) as [y|]; [|reflexivity]. cbn [bind].
    rewrite <- !app_assoc. reflexivity.
  Qed.

  Lemma render_not ys : good ys ->
    render_toks ops rho ([TNot] ++ ys) = do y <- render_toks ops rho ys; Some (bytes_of_string "NOT " ++ y).
  Proof.
    intros (Hy & Hyh & _).
    rewrite render_app by (try assumption; discriminate).
    cbn [last hd is_lp]. rewrite Hyh, render_one. cbn [tok_text orb bind].
    destruct (render_toks ops rho ys) as [y|]; reflexivity.
  Qed.

  Lemma text_is_tokens_sec : forall c outer,
    sql_text ops rho c outer = render_toks ops rho (sql_toks c outer).
  Proof.
    induction c as [k|a IHa b IHb|a IHa b IHb|a IHa]; intros outer; cbn [sql_text sql_toks].
    - reflexivity.
    - rewrite IHa, IHb.
      assert (Hb : render_toks ops rho (sql_toks a P_AND ++ [TAnd] ++ sql_toks b P_AND) =
                   do x <- render_toks ops rho (sql_toks a P_AND); do y <- render_toks ops rho (sql_toks b P_AND);
                   Some (x ++ bytes_of_string " AND " ++ y)).
      { rewrite (render_bin _ _ _ (bytes_of_string "AND")); try reflexivity; apply good_toks. }
      destruct (N.ltb P_AND outer).
      + rewrite render_paren by (destruct (good_toks a P_AND) as (H & _); destruct (sql_toks a P_AND); [congruence|discriminate]).
        rewrite Hb.
        destruct (render_toks ops rho (sql_toks a P_AND)); [|reflexivity]. cbn [bind].
        destruct (render_toks ops rho (sql_toks b P_AND)); reflexivity.
      + exact (eq_sym Hb).
    - rewrite IHa, IHb.
      assert (Hb : render_toks ops rho (sql_toks a P_OR ++ [TOr] ++ sql_toks b P_OR) =
                   do x <- render_toks ops rho (sql_toks a P_OR); do y <- render_toks ops rho (sql_toks b P_OR);
                   Some (x ++ bytes_of_string " OR " ++ y)).
      { rewrite (render_bin _ _ _ (bytes_of_string "OR")); try reflexivity; apply good_toks. }
      destruct (N.ltb P_OR outer).
      + rewrite render_paren by (destruct (good_toks a P_OR) as (H & _); destruct (sql_toks a P_OR); [congruence|discriminate]).
        rewrite Hb.
        destruct (render_toks ops rho (sql_toks a P_OR)); [|reflexivity]. cbn [bind].
        destruct (render_toks ops rho (sql_toks b P_OR)); reflexivity.
      + exact (eq_sym Hb).
    - rewrite IHa.
      pose proof (render_not _ (good_toks a P_NOT)) as Hb.
      destruct (N.ltb P_NOT outer).
      + rewrite render_paren by discriminate.
        rewrite Hb.
        destruct (render_toks ops rho (sql_toks a P_NOT)); reflexivity.
      + exact (eq_sym Hb).
  Qed.
End Tokens.

Lemma text_is_tokens : forall ops rho c outer,
  sql_text ops rho c outer = render_toks ops rho (sql_toks c outer).
Proof. exact text_is_tokens_sec. Qed.

(* ------------------------------------------------------------------------------------------------ *)
(* quote_safe                                                                                        *)
(* ------------------------------------------------------------------------------------------------ *)

Section QuoteSafe.
  Local Open Scope N_scope.
  Local Ltac Zify.zify_post_hook ::= Z.to_euclidean_division_equations.

  Ltac nb :=
    repeat match goal with
           | |- context [N.ltb ?a ?b] => destruct (N.ltb_spec a b)
           | |- context [N.leb ?a ?b] => destruct (N.leb_spec a b)
           | |- context [N.eqb ?a ?b] => destruct (N.eqb_spec a b)
           end.

  Definition plainb (b : N) : Prop := b <> 34 /\ b <> 92.
  (* an encoding the literal scanner steps over completely, whatever follows *)
  Definition skips (enc : list N) : Prop :=
    forall tail pos, lit_end (enc ++ tail) pos = lit_end tail (List.length enc + pos)%nat.

  Lemma skips_plain enc : Forall plainb enc -> skips enc.
  Proof.
    induction 1 as [|b enc (H1 & H2) _ IH]; intros tail pos; [reflexivity|].
    cbn [app lit_end List.length].
    destruct (N.eqb_spec b 92); [congruence|]. destruct (N.eqb_spec b 34); [congruence|].
    rewrite IH. f_equal. lia.
  Qed.

  Lemma skips_esc x enc : Forall plainb enc -> skips (92 :: x :: enc).
  Proof.
    intros H tail pos. cbn [app lit_end List.length]. cbn [N.eqb Pos.eqb].
    rewrite (skips_plain _ H). f_equal. lia.
  Qed.

  Lemma plain_hexd n : plainb (hexd n).
  Proof. unfold plainb, hexd. nb; lia. Qed.

  Lemma plain_hex2 n : Forall plainb (hex2 n).
  Proof. unfold hex2. repeat constructor; apply plain_hexd. Qed.

  Lemma plain_hex4 n : Forall plainb (hex4 n).
  Proof. unfold hex4. apply Forall_app. split; apply plain_hex2. Qed.

  Lemma plain_hex8 n : Forall plainb (hex8 n).
  Proof. unfold hex8. apply Forall_app. split; apply plain_hex4. Qed.

  Lemma plain_utf8 r : r <> 34 -> r <> 92 -> Forall plainb (utf8_encode r).
  Proof.
    intros H1 H2. unfold utf8_encode. cbv zeta.
    destruct ((N.leb 55296 r && N.leb r 57343) || N.ltb 1114111 r).
    - cbn. repeat constructor; cbv [plainb]; lia.
    - nb; repeat constructor; cbv [plainb]; lia.
  Qed.

  Lemma skips_escape_rune r : skips (escape_rune r).
  Proof.
    unfold escape_rune.
    destruct (N.eqb_spec r 34) as [->|H34]; [apply skips_esc; constructor|].
    destruct (N.eqb_spec r 92) as [->|H92]; [apply skips_esc; constructor|].
    cbn [orb].
    destruct (is_print r); [apply skips_plain, plain_utf8; assumption|].
    repeat match goal with
           | |- skips (if ?c then _ else _) => destruct c
           end;
      try (apply skips_esc; apply Forall_nil).
    - apply (skips_esc 120), plain_hex2.
    - apply (skips_esc 117), plain_hex4.
    - apply (skips_esc 85), plain_hex8.
  Qed.

  Definition stepq (x : N * nat * N) : list N :=
    let '(r, w, b0) := x in if Nat.eqb w 1 && N.eqb r 65533 then [92; 120] ++ hex2 b0 else escape_rune r.

  Lemma skips_stepq x : skips (stepq x).
  Proof.
    destruct x as [[r w] b0]. unfold stepq.
    destruct (Nat.eqb w 1 && N.eqb r 65533).
    - apply (skips_esc 120), plain_hex2.
    - apply skips_escape_rune.
  Qed.

  Lemma skips_flat_map l : skips (flat_map stepq l).
  Proof.
    induction l as [|x l IH]; intros tail pos; [reflexivity|].
    cbn [flat_map]. rewrite <- app_assoc. rewrite skips_stepq, IH. f_equal. rewrite app_length. lia.
  Qed.

  Lemma quote_safe : forall s, exists body,
    quote s = 34%N :: body /\ lit_end body 1 = Some (List.length (quote s)).
  Proof.
    intros s. exists (flat_map stepq (runes_of s) ++ [34]). split; [reflexivity|].
    rewrite skips_flat_map.
    change (quote s) with (34 :: flat_map stepq (runes_of s) ++ [34]).
    cbn [lit_end List.length]. cbn [N.eqb Pos.eqb]. f_equal. rewrite app_length. cbn [List.length]. lia.
  Qed.
End QuoteSafe.

(* ------------------------------------------------------------------------------------------------ *)
(* roundtrip                                                                                         *)
(* ------------------------------------------------------------------------------------------------ *)

Section Reader.
  Local Open Scope nat_scope.

  (* the local functions of [read_or (S f)], standalone *)
  Definition r_atom (f : nat) (ts : list stok) : option (crit * list stok) :=
    match ts with
    | TLeaf k :: r => Some (CLeaf k, r)
    | TLp :: r => match read_or f r with
                  | Some (c, TRp :: r') => Some (c, r')
                  | _ => None
                  end
    | _ => None
    end.

  Definition r_not (f : nat) := fix rn (n : nat) (ts : list stok) : option (crit * list stok) :=
    match n with
    | O => None
    | S m => match ts with
             | TNot :: r => match rn m r with Some (c, r') => Some (CNot c, r') | None => None end
             | _ => r_atom f ts
             end
    end.

  Definition r_and (f : nat) := fix ra (n : nat) (acc : crit) (ts : list stok) : option (crit * list stok) :=
    match n with
    | O => None
    | S m => match ts with
             | TAnd :: r => match r_not f (S (List.length r)) r with
                            | Some (c, r') => ra m (CAnd acc c) r'
                            | None => None end
             | _ => Some (acc, ts)
             end
    end.

  Definition and_expr (f : nat) (ts : list stok) : option (crit * list stok) :=
    match r_not f (S (List.length ts)) ts with
    | Some (c, r) => r_and f (S (List.length r)) c r
    | None => None
    end.

  Definition r_or (f : nat) := fix ro (n : nat) (acc : crit) (ts : list stok) : option (crit * list stok) :=
    match n with
    | O => None
    | S m => match ts with
             | TOr :: r => match and_expr f r with
                           | Some (c, r') => ro m (COr acc c) r'
                           | None => None end
             | _ => Some (acc, ts)
             end
    end.

  Lemma read_or_S f ts :
    read_or (S f) ts = match and_expr f ts with Some (c, r) => r_or f (S (List.length r)) c r | None => None end.
  Proof. reflexivity. Qed.

  Lemma r_not_leaf f n k r : r_not f (S n) (TLeaf k :: r) = Some (CLeaf k, r).
  Proof. reflexivity. Qed.
  Lemma r_not_lp f n r :
    r_not f (S n) (TLp :: r) = match read_or f r with Some (c, TRp :: r') => Some (c, r') | _ => None end.
  Proof. reflexivity. Qed.
  Lemma r_not_not f n r :
    r_not f (S n) (TNot :: r) = match r_not f n r with Some (c, r') => Some (CNot c, r') | None => None end.
  Proof. reflexivity. Qed.
  Lemma r_and_cons f n acc r :
    r_and f (S n) acc (TAnd :: r) =
    match r_not f (S (List.length r)) r with Some (c, r') => r_and f n (CAnd acc c) r' | None => None end.
  Proof. reflexivity. Qed.
  Lemma r_or_cons f n acc r :
    r_or f (S n) acc (TOr :: r) =
    match and_expr f r with Some (c, r') => r_or f n (COr acc c) r' | None => None end.
  Proof. reflexivity. Qed.

  Definition stopA (rest : list stok) : Prop := match rest with TAnd :: _ => False | _ => True end.
  Definition stopO (rest : list stok) : Prop := match rest with TAnd :: _ | TOr :: _ => False | _ => True end.

  Lemma stopO_A rest : stopO rest -> stopA rest.
  Proof. destruct rest as [|[] ?]; cbn; trivial. Qed.

  Lemma r_and_stop f n acc rest : stopA rest -> 0 < n -> r_and f n acc rest = Some (acc, rest).
  Proof. intros H Hn. destruct n; [lia|]. destruct rest as [|[] ?]; cbn in H |- *; trivial; contradiction. Qed.

  Lemma r_or_stop f n acc rest : stopO rest -> 0 < n -> r_or f n acc rest = Some (acc, rest).
  Proof. intros H Hn. destruct n; [lia|]. destruct rest as [|[] ?]; cbn in H |- *; trivial; contradiction. Qed.

  (* what each level of the reader does on a printed token list [ts] standing for [c], followed by anything *)
  Definition LN (ts : list stok) (c : crit) : Prop :=
    forall f n rest, List.length (ts ++ rest) <= f -> List.length (ts ++ rest) < n ->
    exists c', r_not f n (ts ++ rest) = Some (c', rest) /\ flat c' = flat c.
  Definition LA0 (ts : list stok) (c : crit) : Prop :=
    forall f rest, List.length (ts ++ rest) <= f ->
    exists c' n', and_expr f (ts ++ rest) = r_and f n' c' rest /\ List.length rest < n' /\ flat c' = flat c.
  Definition LA1 (ts : list stok) (c : crit) : Prop :=
    forall f n acc rest, List.length (TAnd :: ts ++ rest) <= f -> List.length (TAnd :: ts ++ rest) < n ->
    exists acc' n', r_and f n acc (TAnd :: ts ++ rest) = r_and f n' acc' rest /\ List.length rest < n' /\
                    flat acc' = flat (CAnd acc c).
  Definition LO0 (ts : list stok) (c : crit) : Prop :=
    forall f rest, List.length (ts ++ rest) <= f -> stopA rest ->
    exists c' n', read_or (S f) (ts ++ rest) = r_or f n' c' rest /\ List.length rest < n' /\ flat c' = flat c.
  Definition LO1 (ts : list stok) (c : crit) : Prop :=
    forall f n acc rest, List.length (TOr :: ts ++ rest) <= f -> List.length (TOr :: ts ++ rest) < n -> stopA rest ->
    exists acc' n', r_or f n acc (TOr :: ts ++ rest) = r_or f n' acc' rest /\ List.length rest < n' /\
                    flat acc' = flat (COr acc c).
  Definition LFull (ts : list stok) (c : crit) : Prop :=
    forall f rest, List.length (ts ++ rest) <= f -> stopO rest ->
    exists c', read_or (S f) (ts ++ rest) = Some (c', rest) /\ flat c' = flat c.

  Lemma flat_and_cong a a' b b' : flat a' = flat a -> flat b' = flat b -> flat (CAnd a' b') = flat (CAnd a b).
  Proof. intros H1 H2. cbn [flat]. rewrite H1, H2. reflexivity. Qed.
  Lemma flat_or_cong a a' b b' : flat a' = flat a -> flat b' = flat b -> flat (COr a' b') = flat (COr a b).
  Proof. intros H1 H2. cbn [flat]. rewrite H1, H2. reflexivity. Qed.
  Lemma flat_and_assoc a b c : flat (CAnd (CAnd a b) c) = flat (CAnd a (CAnd b c)).
  Proof. cbn [flat]. rewrite app_assoc. reflexivity. Qed.
  Lemma flat_or_assoc a b c : flat (COr (COr a b) c) = flat (COr a (COr b c)).
  Proof. cbn [flat]. rewrite app_assoc. reflexivity. Qed.

  Lemma LN_leaf k : LN [TLeaf k] (CLeaf k).
  Proof.
    intros f n rest _ Hn. destruct n; [lia|]. cbn [app]. rewrite r_not_leaf. exists (CLeaf k). split; reflexivity.
  Qed.

  Lemma LN_not ta a : LN ta a -> LN (TNot :: ta) (CNot a).
  Proof.
    intros H f n rest Hf Hn. cbn [app List.length] in Hf, Hn |- *. destruct n; [lia|].
    rewrite r_not_not.
    destruct (H f n rest) as (c' & E & Hc); [lia|lia|].
    rewrite E. exists (CNot c'). split; [reflexivity|]. cbn [flat]. rewrite Hc. reflexivity.
  Qed.

  Lemma LN_wrap ts c : LFull ts c -> LN (TLp :: ts ++ [TRp]) c.
  Proof.
    intros H f n rest Hf Hn.
    change ((TLp :: ts ++ [TRp]) ++ rest) with (TLp :: ((ts ++ [TRp]) ++ rest)) in *.
    rewrite <- app_assoc in *. cbn [app] in *. cbn [List.length] in Hf, Hn.
    destruct n; [lia|]. rewrite r_not_lp.
    destruct f as [|f]; [lia|].
    destruct (H f (TRp :: rest)) as (c' & E & Hc); [lia|exact I|].
    rewrite E. exists c'. split; [reflexivity|exact Hc].
  Qed.

  Lemma LA0_of_N ts c : LN ts c -> LA0 ts c.
  Proof.
    intros H f rest Hf. unfold and_expr.
    destruct (H f (S (List.length (ts ++ rest))) rest) as (c' & E & Hc); [lia|lia|].
    rewrite E. exists c', (S (List.length rest)). split; [reflexivity|]. split; [lia|exact Hc].
  Qed.

  Lemma LA1_of_N ts c : LN ts c -> LA1 ts c.
  Proof.
    intros H f n acc rest Hf Hn. cbn [List.length] in Hf, Hn. destruct n; [lia|].
    rewrite r_and_cons.
    destruct (H f (S (List.length (ts ++ rest))) rest) as (c' & E & Hc); [lia|lia|].
    rewrite E. exists (CAnd acc c'), n. split; [reflexivity|]. split.
    - rewrite app_length in Hn. lia.
    - apply flat_and_cong; [reflexivity|exact Hc].
  Qed.

  Lemma LA0_and ta a tb b : LA0 ta a -> LA1 tb b -> LA0 (ta ++ TAnd :: tb) (CAnd a b).
  Proof.
    intros Ha Hb f rest Hf. rewrite <- app_assoc in *. cbn [app] in *.
    destruct (Ha f (TAnd :: tb ++ rest)) as (a' & n1 & E1 & Hn1 & Hc1); [lia|].
    rewrite E1.
    destruct (Hb f n1 a' rest) as (acc' & n2 & E2 & Hn2 & Hc2); [rewrite app_length in Hf; lia|lia|].
    rewrite E2. exists acc', n2. split; [reflexivity|]. split; [exact Hn2|].
    rewrite Hc2. apply flat_and_cong; [exact Hc1|reflexivity].
  Qed.

  Lemma LA1_and ta a tb b : LA1 ta a -> LA1 tb b -> LA1 (ta ++ TAnd :: tb) (CAnd a b).
  Proof.
    intros Ha Hb f n acc rest Hf Hn. rewrite <- app_assoc in *. cbn [app] in *.
    destruct (Ha f n acc (TAnd :: tb ++ rest)) as (acc1 & n1 & E1 & Hn1 & Hc1); [lia|lia|].
    rewrite E1.
    destruct (Hb f n1 acc1 rest) as (acc2 & n2 & E2 & Hn2 & Hc2);
      [cbn [List.length] in Hf; rewrite app_length in Hf; lia|lia|].
    rewrite E2. exists acc2, n2. split; [reflexivity|]. split; [exact Hn2|].
    rewrite Hc2, <- flat_and_assoc. apply flat_and_cong; [exact Hc1|reflexivity].
  Qed.

  Lemma LO0_of_A ts c : LA0 ts c -> LO0 ts c.
  Proof.
    intros H f rest Hf Hs. rewrite read_or_S.
    destruct (H f rest Hf) as (c' & n' & E & Hn & Hc).
    rewrite E, r_and_stop by (assumption || lia).
    exists c', (S (List.length rest)). split; [reflexivity|]. split; [lia|exact Hc].
  Qed.

  Lemma LO1_of_A ts c : LA0 ts c -> LO1 ts c.
  Proof.
    intros H f n acc rest Hf Hn Hs. cbn [List.length] in Hf, Hn. destruct n; [lia|].
    rewrite r_or_cons.
    destruct (H f rest) as (c' & n' & E & Hn' & Hc); [lia|].
    rewrite E, r_and_stop by (assumption || lia).
    exists (COr acc c'), n. split; [reflexivity|]. split.
    - rewrite app_length in Hn. lia.
    - apply flat_or_cong; [reflexivity|exact Hc].
  Qed.

  Lemma LO0_or ta a tb b : LO0 ta a -> LO1 tb b -> LO0 (ta ++ TOr :: tb) (COr a b).
  Proof.
    intros Ha Hb f rest Hf Hs. rewrite <- app_assoc in *. cbn [app] in *.
    destruct (Ha f (TOr :: tb ++ rest)) as (a' & n1 & E1 & Hn1 & Hc1); [lia|exact I|].
    rewrite E1.
    destruct (Hb f n1 a' rest) as (acc' & n2 & E2 & Hn2 & Hc2); [rewrite app_length in Hf; lia|lia|exact Hs|].
    rewrite E2. exists acc', n2. split; [reflexivity|]. split; [exact Hn2|].
    rewrite Hc2. apply flat_or_cong; [exact Hc1|reflexivity].
  Qed.

  Lemma LO1_or ta a tb b : LO1 ta a -> LO1 tb b -> LO1 (ta ++ TOr :: tb) (COr a b).
  Proof.
    intros Ha Hb f n acc rest Hf Hn Hs. rewrite <- app_assoc in *. cbn [app] in *.
    destruct (Ha f n acc (TOr :: tb ++ rest)) as (acc1 & n1 & E1 & Hn1 & Hc1); [lia|lia|exact I|].
    rewrite E1.
    destruct (Hb f n1 acc1 rest) as (acc2 & n2 & E2 & Hn2 & Hc2);
      [cbn [List.length] in Hf; rewrite app_length in Hf; lia|lia|exact Hs|].
    rewrite E2. exists acc2, n2. split; [reflexivity|]. split; [exact Hn2|].
    rewrite Hc2, <- flat_or_assoc. apply flat_or_cong; [exact Hc1|reflexivity].
  Qed.

  Lemma LFull_of_O ts c : LO0 ts c -> LFull ts c.
  Proof.
    intros H f rest Hf Hs.
    destruct (H f rest Hf (stopO_A _ Hs)) as (c' & n' & E & Hn & Hc).
    rewrite E, r_or_stop by (assumption || lia).
    exists c'. split; [reflexivity|exact Hc].
  Qed.

  (* the three kinds of printed token lists *)
  Definition GO ts c := LO0 ts c /\ LO1 ts c /\ LFull ts c.
  Definition GA ts c := LA0 ts c /\ LA1 ts c /\ GO ts c.
  Definition GN ts c := LN ts c /\ GA ts c.

  Lemma GO_of_A0 ts c : LA0 ts c -> GO ts c.
  Proof. intros H. split; [|split]; [apply LO0_of_A|apply LO1_of_A|apply LFull_of_O, LO0_of_A]; exact H. Qed.

  Lemma GN_of_N ts c : LN ts c -> GN ts c.
  Proof.
    intros H. split; [exact H|]. split; [apply LA0_of_N, H|]. split; [apply LA1_of_N, H|].
    apply GO_of_A0, LA0_of_N, H.
  Qed.

  Lemma GN_wrap ts c : GO ts c -> GN ([TLp] ++ ts ++ [TRp]) c.
  Proof. intros (_ & _ & H). apply GN_of_N. apply (LN_wrap _ _ H). Qed.

  Lemma GA_and ta a tb b : GA ta a -> GA tb b -> GA (ta ++ [TAnd] ++ tb) (CAnd a b).
  Proof.
    intros (Ha0 & Ha1 & _) (_ & Hb1 & _). cbn [app].
    split; [apply LA0_and; assumption|]. split; [apply LA1_and; assumption|].
    apply GO_of_A0, LA0_and; assumption.
  Qed.

  Lemma GO_or ta a tb b : GO ta a -> GO tb b -> GO (ta ++ [TOr] ++ tb) (COr a b).
  Proof.
    intros (Ha0 & Ha1 & _) (_ & Hb1 & _). cbn [app].
    split; [apply LO0_or; assumption|]. split; [apply LO1_or; assumption|].
    apply LFull_of_O, LO0_or; assumption.
  Qed.

  Lemma GN_GA ts c : GN ts c -> GA ts c.
  Proof. intros (_ & H). exact H. Qed.
  Lemma GA_GO ts c : GA ts c -> GO ts c.
  Proof. intros (_ & _ & H). exact H. Qed.

  Lemma toks_levels c : forall outer,
    GO (sql_toks c outer) c /\
    (N.ltb P_OR outer = true -> GA (sql_toks c outer) c) /\
    (N.ltb P_AND outer = true -> GN (sql_toks c outer) c).
  Proof.
    induction c as [k|a IHa b IHb|a IHa b IHb|a IHa]; intros outer; cbn [sql_toks].
    - pose proof (GN_of_N _ _ (LN_leaf k)) as H.
      split; [apply GA_GO, GN_GA, H|]. split; intros _; [apply GN_GA, H|exact H].
    - assert (Hb : GA (sql_toks a P_AND ++ [TAnd] ++ sql_toks b P_AND) (CAnd a b)).
      { apply GA_and; [apply (proj1 (proj2 (IHa P_AND)))|apply (proj1 (proj2 (IHb P_AND)))]; reflexivity. }
      destruct (N.ltb P_AND outer) eqn:E.
      + pose proof (GN_wrap _ _ (GA_GO _ _ Hb)) as H.
        split; [apply GA_GO, GN_GA, H|]. split; intros _; [apply GN_GA, H|exact H].
      + split; [apply GA_GO, Hb|]. split; [intros _; exact Hb|discriminate].
    - assert (Hb : GO (sql_toks a P_OR ++ [TOr] ++ sql_toks b P_OR) (COr a b)).
      { apply GO_or; [apply (proj1 (IHa P_OR))|apply (proj1 (IHb P_OR))]. }
      destruct (N.ltb P_OR outer) eqn:E.
      + pose proof (GN_wrap _ _ Hb) as H.
        split; [apply GA_GO, GN_GA, H|]. split; intros _; [apply GN_GA, H|exact H].
      + split; [exact Hb|]. split; [discriminate|].
        intros E'. exfalso. apply N.ltb_lt in E'. apply N.ltb_ge in E. unfold P_OR, P_AND in *. lia.
    - assert (Hb : GN ([TNot] ++ sql_toks a P_NOT) (CNot a)).
      { apply GN_of_N. cbn [app]. apply LN_not. apply (proj2 (proj2 (IHa P_NOT))). reflexivity. }
      destruct (N.ltb P_NOT outer) eqn:E.
      + pose proof (GN_wrap _ _ (GA_GO _ _ (GN_GA _ _ Hb))) as H.
        split; [apply GA_GO, GN_GA, H|]. split; intros _; [apply GN_GA, H|exact H].
      + split; [apply GA_GO, GN_GA, Hb|]. split; intros _; [apply GN_GA, Hb|exact Hb].
  Qed.

  Lemma roundtrip : forall c outer,
    exists c', read (sql_toks c outer) = Some c' /\ flat c' = flat c.
  Proof.
    intros c outer. destruct (toks_levels c outer) as ((_ & _ & H) & _).
    destruct (H (List.length (sql_toks c outer)) []) as (c' & E & Hc); [rewrite app_nil_r; lia|exact I|].
    rewrite app_nil_r in E. exists c'. split; [|exact Hc]. unfold read. rewrite E. reflexivity.
  Qed.
End Reader.

Print Assumptions text_is_tokens.
Print Assumptions roundtrip.
Print Assumptions quote_safe.
Print Assumptions string_operand.
Print Assumptions scalars.
Print Assumptions names.
