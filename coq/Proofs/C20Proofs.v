(* C20 proofs: in progress *)
