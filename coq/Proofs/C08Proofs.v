(* C08 proofs *)
From Coq Require Import List String Bool NArith ZArith Lia Arith.
From Yae Require Import Base.Sexp Model.Lexer Model.Literal Model.Cst Model.Pratt Model.PrattSpec.
Import ListNotations.
Local Open Scope Z_scope.
Local Open Scope list_scope.

(* ---------- induction principle for the nested inductive [expr] ---------- *)
Section ExprInd.
  Variable P : expr -> Prop.
  Hypothesis Hstr : forall p t, P (EStr p t).
  Hypothesis Hnum : forall p t, P (ENum p t).
  Hypothesis Htime : forall p t, P (ETime p t).
  Hypothesis Hbool : forall p b, P (EBool p b).
  Hypothesis Hlist : forall p es, Forall P es -> P (EList p es).
  Hypothesis Hmap : forall p kvs, Forall (fun kv => P (fst kv) /\ P (snd kv)) kvs -> P (EMap p kvs).
  Hypothesis Hobj : forall p fs, Forall (fun f => P (snd f)) fs -> P (EObj p fs).
  Hypothesis Hident : forall p n, P (EIdent p n).
  Hypothesis Hcall : forall p c f args, P f -> Forall P args -> P (ECall p c f args).
  Hypothesis Hsub : forall p c v i, P v -> P i -> P (ESub p c v i).
  Hypothesis Hmember : forall p c o n np, P o -> P (EMember p c o n np).
  Hypothesis Hunary : forall p n np x pre, P x -> P (EUnary p n np x pre).
  Hypothesis Hbinary : forall p n np fx l r, P l -> P r -> P (EBinary p n np fx l r).
  Hypothesis Hternary : forall p n np l m r, P l -> P m -> P r -> P (ETernary p n np l m r).
  Hypothesis Hgroup : forall p x, P x -> P (EGroup p x).

  Fixpoint expr_ind' (e : expr) : P e :=
    match e with
    | EStr p t => Hstr p t | ENum p t => Hnum p t | ETime p t => Htime p t | EBool p b => Hbool p b
    | EList p es => Hlist p es ((fix go (l : list expr) : Forall P l :=
                                  match l with [] => Forall_nil _ | a :: r => Forall_cons _ (expr_ind' a) (go r) end) es)
    | EMap p kvs => Hmap p kvs ((fix go (l : list (expr * expr)) : Forall (fun kv => P (fst kv) /\ P (snd kv)) l :=
                                  match l with
                                  | [] => Forall_nil _
                                  | a :: r => Forall_cons _ (conj (expr_ind' (fst a)) (expr_ind' (snd a))) (go r)
                                  end) kvs)
    | EObj p fs => Hobj p fs ((fix go (l : list (list N * expr)) : Forall (fun f => P (snd f)) l :=
                                  match l with [] => Forall_nil _ | a :: r => Forall_cons _ (expr_ind' (snd a)) (go r) end) fs)
    | EIdent p n => Hident p n
    | ECall p c f args => Hcall p c f args (expr_ind' f)
                            ((fix go (l : list expr) : Forall P l :=
                                match l with [] => Forall_nil _ | a :: r => Forall_cons _ (expr_ind' a) (go r) end) args)
    | ESub p c v i => Hsub p c v i (expr_ind' v) (expr_ind' i)
    | EMember p c o n np => Hmember p c o n np (expr_ind' o)
    | EUnary p n np x pre => Hunary p n np x pre (expr_ind' x)
    | EBinary p n np fx l r => Hbinary p n np fx l r (expr_ind' l) (expr_ind' r)
    | ETernary p n np l m r => Hternary p n np l m r (expr_ind' l) (expr_ind' m) (expr_ind' r)
    | EGroup p x => Hgroup p x (expr_ind' x)
    end.
End ExprInd.

(* ---------- stage 1 ---------- *)
Lemma group_closed : forall g p x rbp,
  wfp g 0 x = true -> wfp g rbp (EGroup p x) = true /\ rom g (EGroup p x) = None.
Proof. intros g p x rbp H. split; [exact H | reflexivity]. Qed.

Lemma hd_app_ne : forall (a b : list token) d, a <> [] -> hd d (a ++ b) = hd d a.
Proof. intros [|x a] b d H; [congruence | reflexivity]. Qed.

Lemma last_app_ne : forall (a b : list token) d, b <> [] -> last (a ++ b) d = last b d.
Proof.
  induction a as [|x a IH]; intros b d H; [reflexivity|].
  change ((x :: a) ++ b) with (x :: (a ++ b)).
  cbn [last]. destruct (a ++ b) eqn:E.
  - apply app_eq_nil in E. destruct E; congruence.
  - rewrite <- E. apply IH; exact H.
Qed.

Lemma last_cons_ne : forall (x : token) a d, a <> [] -> last (x :: a) d = last a d.
Proof. intros x [|y a] d H; [congruence | reflexivity]. Qed.

Lemma last_snoc : forall (a : list token) x d, last (a ++ [x]) d = x.
Proof. intros. rewrite last_app_ne by congruence. reflexivity. Qed.

Lemma yields_span : forall g e ts,
  yields g e ts -> ts <> [] /\ expr_pos e = span (tok_pos (hd eof_tok ts)) (tok_pos (last ts eof_tok)).
Proof.
  intros g e ts H.
  induction H;
    repeat match goal with IH : _ /\ _ |- _ => destruct IH end;
    try (split; [congruence | reflexivity]).
  - (* prefix *) split; [congruence|].
    rewrite last_cons_ne by assumption. cbn [expr_pos hd].
    match goal with E : expr_pos _ = _ |- _ => rewrite E end. reflexivity.
  - (* postfix *) split; [intro E; apply app_eq_nil in E; destruct E; congruence|].
    rewrite last_snoc, hd_app_ne by assumption. cbn [expr_pos].
    match goal with E : expr_pos _ = _ |- _ => rewrite E end. reflexivity.
  - (* binary *) split; [intro E; apply app_eq_nil in E; destruct E; congruence|].
    rewrite hd_app_ne by assumption. rewrite last_app_ne by congruence.
    rewrite last_cons_ne by assumption. cbn [expr_pos].
    repeat match goal with E : expr_pos _ = _ |- _ => rewrite E; clear E end. reflexivity.
  - (* ternary *) split; [intro E; apply app_eq_nil in E; destruct E; congruence|].
    rewrite hd_app_ne by assumption. rewrite last_app_ne by congruence.
    rewrite last_cons_ne by (intro E; apply app_eq_nil in E; destruct E; congruence).
    rewrite last_app_ne by congruence. rewrite last_cons_ne by assumption. cbn [expr_pos].
    repeat match goal with E : expr_pos _ = _ |- _ => rewrite E; clear E end. reflexivity.
  - (* group *) split; [congruence|].
    rewrite last_cons_ne by (intro E; apply app_eq_nil in E; destruct E; congruence).
    rewrite last_snoc. reflexivity.
  - (* call *) split; [intro E; apply app_eq_nil in E; destruct E; congruence|].
    rewrite hd_app_ne by assumption. rewrite last_app_ne by congruence.
    rewrite last_cons_ne by (intro E; apply app_eq_nil in E; destruct E; congruence).
    rewrite last_snoc. cbn [expr_pos].
    repeat match goal with E : expr_pos _ = _ |- _ => rewrite E; clear E end. reflexivity.
  - (* member *) split; [intro E; apply app_eq_nil in E; destruct E; congruence|].
    rewrite hd_app_ne by assumption. rewrite last_app_ne by congruence. cbn [expr_pos last].
    repeat match goal with E : expr_pos _ = _ |- _ => rewrite E; clear E end. reflexivity.
  - (* sub *) split; [intro E; apply app_eq_nil in E; destruct E; congruence|].
    rewrite hd_app_ne by assumption. rewrite last_app_ne by congruence.
    rewrite last_cons_ne by (intro E; apply app_eq_nil in E; destruct E; congruence).
    rewrite last_snoc. cbn [expr_pos].
    repeat match goal with E : expr_pos _ = _ |- _ => rewrite E; clear E end. reflexivity.
  - (* list *) split; [congruence|].
    rewrite last_cons_ne by (intro E; apply app_eq_nil in E; destruct E as [_ E]; apply app_eq_nil in E; destruct E; congruence).
    rewrite app_assoc, last_snoc. reflexivity.
  - (* map *) split; [congruence|].
    rewrite last_cons_ne by (intro E; apply app_eq_nil in E; destruct E as [_ E]; apply app_eq_nil in E; destruct E; congruence).
    rewrite app_assoc, last_snoc. reflexivity.
  - (* obj *) split; [congruence|].
    rewrite last_cons_ne by (intro E; apply app_eq_nil in E; destruct E as [_ E]; apply app_eq_nil in E; destruct E; congruence).
    rewrite app_assoc, last_snoc. reflexivity.
Qed.
