(* C08 proofs *)
From Coq Require Import List String Bool NArith ZArith Lia Arith Sorted.
From Yae Require Import Base.Sexp Model.Lexer Model.Literal Model.Cst Model.Pratt Model.PrattSpec.
Import ListNotations.
Local Open Scope Z_scope.
Local Open Scope list_scope.

(* ---------- induction principle for the nested inductive [expr] ---------- *)
Section ExprInd.
  Variable P : expr -> Prop.
  Hypothesis Hstr : forall p t, P (EStr p t).
  Hypothesis Hnum : forall p t, P (ENum p t).
  Hypothesis Htime : forall p t, P (ETime p t).
  Hypothesis Hbool : forall p b, P (EBool p b).
  Hypothesis Hlist : forall p es, Forall P es -> P (EList p es).
  Hypothesis Hmap : forall p kvs, Forall (fun kv => P (fst kv) /\ P (snd kv)) kvs -> P (EMap p kvs).
  Hypothesis Hobj : forall p fs, Forall (fun f => P (snd f)) fs -> P (EObj p fs).
  Hypothesis Hident : forall p n, P (EIdent p n).
  Hypothesis Hcall : forall p c f args, P f -> Forall P args -> P (ECall p c f args).
  Hypothesis Hsub : forall p c v i, P v -> P i -> P (ESub p c v i).
  Hypothesis Hmember : forall p c o n np, P o -> P (EMember p c o n np).
  Hypothesis Hunary : forall p n np x pre, P x -> P (EUnary p n np x pre).
  Hypothesis Hbinary : forall p n np fx l r, P l -> P r -> P (EBinary p n np fx l r).
  Hypothesis Hternary : forall p n np l m r, P l -> P m -> P r -> P (ETernary p n np l m r).
  Hypothesis Hgroup : forall p x, P x -> P (EGroup p x).

  Fixpoint expr_ind' (e : expr) : P e :=
    match e with
    | EStr p t => Hstr p t | ENum p t => Hnum p t | ETime p t => Htime p t | EBool p b => Hbool p b
    | EList p es => Hlist p es ((fix go (l : list expr) : Forall P l :=
                                  match l with [] => Forall_nil _ | a :: r => Forall_cons _ (expr_ind' a) (go r) end) es)
    | EMap p kvs => Hmap p kvs ((fix go (l : list (expr * expr)) : Forall (fun kv => P (fst kv) /\ P (snd kv)) l :=
                                  match l with
                                  | [] => Forall_nil _
                                  | a :: r => Forall_cons _ (conj (expr_ind' (fst a)) (expr_ind' (snd a))) (go r)
                                  end) kvs)
    | EObj p fs => Hobj p fs ((fix go (l : list (list N * expr)) : Forall (fun f => P (snd f)) l :=
                                  match l with [] => Forall_nil _ | a :: r => Forall_cons _ (expr_ind' (snd a)) (go r) end) fs)
    | EIdent p n => Hident p n
    | ECall p c f args => Hcall p c f args (expr_ind' f)
                            ((fix go (l : list expr) : Forall P l :=
                                match l with [] => Forall_nil _ | a :: r => Forall_cons _ (expr_ind' a) (go r) end) args)
    | ESub p c v i => Hsub p c v i (expr_ind' v) (expr_ind' i)
    | EMember p c o n np => Hmember p c o n np (expr_ind' o)
    | EUnary p n np x pre => Hunary p n np x pre (expr_ind' x)
    | EBinary p n np fx l r => Hbinary p n np fx l r (expr_ind' l) (expr_ind' r)
    | ETernary p n np l m r => Hternary p n np l m r (expr_ind' l) (expr_ind' m) (expr_ind' r)
    | EGroup p x => Hgroup p x (expr_ind' x)
    end.
End ExprInd.

(* ---------- stage 1 ---------- *)
Lemma group_closed : forall g p x rbp,
  wfp g 0 x = true -> wfp g rbp (EGroup p x) = true /\ rom g (EGroup p x) = None.
Proof. intros g p x rbp H. split; [exact H | reflexivity]. Qed.

Lemma hd_app_ne : forall (a b : list token) d, a <> [] -> hd d (a ++ b) = hd d a.
Proof. intros [|x a] b d H; [congruence | reflexivity]. Qed.

Lemma last_app_ne : forall (a b : list token) d, b <> [] -> last (a ++ b) d = last b d.
Proof.
  induction a as [|x a IH]; intros b d H; [reflexivity|].
  change ((x :: a) ++ b) with (x :: (a ++ b)).
  cbn [last]. destruct (a ++ b) eqn:E.
  - apply app_eq_nil in E. destruct E; congruence.
  - rewrite <- E. apply IH; exact H.
Qed.

Lemma last_cons_ne : forall (x : token) a d, a <> [] -> last (x :: a) d = last a d.
Proof. intros x [|y a] d H; [congruence | reflexivity]. Qed.

Lemma last_snoc : forall (a : list token) x d, last (a ++ [x]) d = x.
Proof. intros. rewrite last_app_ne by congruence. reflexivity. Qed.

Lemma yields_span : forall g e ts,
  yields g e ts -> ts <> [] /\ expr_pos e = span (tok_pos (hd eof_tok ts)) (tok_pos (last ts eof_tok)).
Proof.
  intros g e ts H.
  induction H;
    repeat match goal with IH : _ /\ _ |- _ => destruct IH end;
    try (split; [congruence | reflexivity]).
  - (* prefix *) split; [congruence|].
    rewrite last_cons_ne by assumption. cbn [expr_pos hd].
    match goal with E : expr_pos _ = _ |- _ => rewrite E end. reflexivity.
  - (* postfix *) split; [intro E; apply app_eq_nil in E; destruct E; congruence|].
    rewrite last_snoc, hd_app_ne by assumption. cbn [expr_pos].
    match goal with E : expr_pos _ = _ |- _ => rewrite E end. reflexivity.
  - (* binary *) split; [intro E; apply app_eq_nil in E; destruct E; congruence|].
    rewrite hd_app_ne by assumption. rewrite last_app_ne by congruence.
    rewrite last_cons_ne by assumption. cbn [expr_pos].
    repeat match goal with E : expr_pos _ = _ |- _ => rewrite E; clear E end. reflexivity.
  - (* ternary *) split; [intro E; apply app_eq_nil in E; destruct E; congruence|].
    rewrite hd_app_ne by assumption. rewrite last_app_ne by congruence.
    rewrite last_cons_ne by (intro E; apply app_eq_nil in E; destruct E; congruence).
    rewrite last_app_ne by congruence. rewrite last_cons_ne by assumption. cbn [expr_pos].
    repeat match goal with E : expr_pos _ = _ |- _ => rewrite E; clear E end. reflexivity.
  - (* group *) split; [congruence|].
    rewrite last_cons_ne by (intro E; apply app_eq_nil in E; destruct E; congruence).
    rewrite last_snoc. reflexivity.
  - (* call *) split; [intro E; apply app_eq_nil in E; destruct E; congruence|].
    rewrite hd_app_ne by assumption. rewrite last_app_ne by congruence.
    rewrite last_cons_ne by (intro E; apply app_eq_nil in E; destruct E; congruence).
    rewrite last_snoc. cbn [expr_pos].
    repeat match goal with E : expr_pos _ = _ |- _ => rewrite E; clear E end. reflexivity.
  - (* member *) split; [intro E; apply app_eq_nil in E; destruct E; congruence|].
    rewrite hd_app_ne by assumption. rewrite last_app_ne by congruence. cbn [expr_pos last].
    repeat match goal with E : expr_pos _ = _ |- _ => rewrite E; clear E end. reflexivity.
  - (* sub *) split; [intro E; apply app_eq_nil in E; destruct E; congruence|].
    rewrite hd_app_ne by assumption. rewrite last_app_ne by congruence.
    rewrite last_cons_ne by (intro E; apply app_eq_nil in E; destruct E; congruence).
    rewrite last_snoc. cbn [expr_pos].
    repeat match goal with E : expr_pos _ = _ |- _ => rewrite E; clear E end. reflexivity.
  - (* list *) split; [congruence|].
    rewrite last_cons_ne by (intro E; apply app_eq_nil in E; destruct E as [_ E]; apply app_eq_nil in E; destruct E; congruence).
    rewrite app_assoc, last_snoc. reflexivity.
  - (* map *) split; [congruence|].
    rewrite last_cons_ne by (intro E; apply app_eq_nil in E; destruct E as [_ E]; apply app_eq_nil in E; destruct E; congruence).
    rewrite app_assoc, last_snoc. reflexivity.
  - (* obj *) split; [congruence|].
    rewrite last_cons_ne by (intro E; apply app_eq_nil in E; destruct E as [_ E]; apply app_eq_nil in E; destruct E; congruence).
    rewrite app_assoc, last_snoc. reflexivity.
Qed.

(* ---------- big-step relational semantics of the parser model (fuel-free) ---------- *)
Definition led_bin (l : led) (bp : Z) : option (N * Z) :=
  match l with LBinL => Some (3%N, bp) | LBinR => Some (4%N, bp - 8) | LBinN => Some (2%N, bp) | _ => None end.

Inductive judg :=
| JExpr (rbp : Z) (ts : list token) (e : expr) (rest : list token)
| JNud (n : nud) (bp : Z) (t : token) (ts : list token) (e : expr) (rest : list token)
| JLoop (rbp : Z) (left : expr) (ts : list token) (e : expr) (rest : list token)
| JLed (l : led) (bp : Z) (left : expr) (t : token) (ts : list token) (e : expr) (rest : list token)
| JCall (callee : expr) (lp : token) (ts : list token) (e : expr) (rest : list token)
| JElems (close : list N) (ts : list token) (es : list expr) (rest : list token)
| JPairs (ts : list token) (kvs : list (expr * expr)) (rest : list token)
| JFields (ts : list token) (fs : list (list N * expr)) (rest : list token)
| JArgs (ts : list token) (es : list expr) (rest : list token).

Section Run.
  Variable g : grammar.
  Variable rng : pos -> pos -> pres pos.   (* [range] for the parser; a check-free variant is used for uniqueness *)

  Inductive run : judg -> Prop :=
  | R_expr : forall rbp ts bp n lft ts2 e rest,
      get (t_kind (peek ts)) (g_prefix g) = Some (bp, n) ->
      run (JNud n bp (peek ts) (tl ts) lft ts2) -> run (JLoop rbp lft ts2 e rest) ->
      run (JExpr rbp ts e rest)
  (* nud *)
  | N_ident : forall bp t ts, run (JNud NIdent bp t ts (EIdent (tpos t) (t_lexeme t)) ts)
  | N_true : forall bp t ts, run (JNud NTrue bp t ts (EBool (tpos t) true) ts)
  | N_false : forall bp t ts, run (JNud NFalse bp t ts (EBool (tpos t) false) ts)
  | N_num : forall bp t ts, num_parse (t_lexeme t) <> None -> run (JNud NNum bp t ts (ENum (tpos t) (t_lexeme t)) ts)
  | N_str : forall bp t ts, str_value (t_lexeme t) <> None -> run (JNud NStr bp t ts (EStr (tpos t) (t_lexeme t)) ts)
  | N_time : forall bp t ts, run (JNud NTime bp t ts (ETime (tpos t) (t_lexeme t)) ts)
  | N_prefix : forall bp t ts e ts1 p,
      run (JExpr bp ts e ts1) -> rng (tpos t) (expr_pos e) = POk p ->
      run (JNud NPrefix bp t ts (EUnary p (t_lexeme t) (tpos t) e true) ts1)
  | N_group : forall bp t ts e ts1 rp ts2 p,
      run (JExpr 0 ts e ts1) -> must_eat K_RPAREN ts1 = POk (rp, ts2) -> rng (tpos t) (tpos rp) = POk p ->
      run (JNud NGroup bp t ts (EGroup p e) ts2)
  | N_obj : forall bp t ts fs ts1 rb ts2 p,
      run (JFields ts fs ts1) -> must_eat K_RBRACE ts1 = POk (rb, ts2) -> rng (tpos t) (tpos rb) = POk p ->
      run (JNud NObj bp t ts (EObj p fs) ts2)
  | N_map_empty : forall bp t ts c ts1 rb ts2 p,
      try_eat K_COLON ts = Some (c, ts1) -> must_eat K_RBRACKET ts1 = POk (rb, ts2) -> rng (tpos t) (tpos rb) = POk p ->
      run (JNud NListMap bp t ts (EMap p []) ts2)
  | N_list_empty : forall bp t ts rb ts1 p,
      try_eat K_COLON ts = None -> kind_is (peek ts) K_RBRACKET = true ->
      must_eat K_RBRACKET ts = POk (rb, ts1) -> rng (tpos t) (tpos rb) = POk p ->
      run (JNud NListMap bp t ts (EList p []) ts1)
  | N_list1 : forall bp t ts e ts1 rb ts3 p,
      try_eat K_COLON ts = None -> kind_is (peek ts) K_RBRACKET = false ->
      run (JExpr 0 ts e ts1) -> try_eat K_COLON ts1 = None -> try_eat K_COMMA ts1 = None ->
      must_eat K_RBRACKET ts1 = POk (rb, ts3) -> rng (tpos t) (tpos rb) = POk p ->
      run (JNud NListMap bp t ts (EList p [e]) ts3)
  | N_listn : forall bp t ts e ts1 c ts2 es ts2' rb ts3 p,
      try_eat K_COLON ts = None -> kind_is (peek ts) K_RBRACKET = false ->
      run (JExpr 0 ts e ts1) -> try_eat K_COLON ts1 = None -> try_eat K_COMMA ts1 = Some (c, ts2) ->
      run (JElems K_RBRACKET ts2 es ts2') ->
      must_eat K_RBRACKET ts2' = POk (rb, ts3) -> rng (tpos t) (tpos rb) = POk p ->
      run (JNud NListMap bp t ts (EList p (e :: es)) ts3)
  | N_map1 : forall bp t ts k ts1 c ts2 v ts3 rb ts5 p,
      try_eat K_COLON ts = None -> kind_is (peek ts) K_RBRACKET = false ->
      run (JExpr 0 ts k ts1) -> try_eat K_COLON ts1 = Some (c, ts2) -> run (JExpr 0 ts2 v ts3) ->
      try_eat K_COMMA ts3 = None ->
      must_eat K_RBRACKET ts3 = POk (rb, ts5) -> rng (tpos t) (tpos rb) = POk p ->
      run (JNud NListMap bp t ts (EMap p [(k, v)]) ts5)
  | N_mapn : forall bp t ts k ts1 c ts2 v ts3 c2 ts4 kvs ts4' rb ts5 p,
      try_eat K_COLON ts = None -> kind_is (peek ts) K_RBRACKET = false ->
      run (JExpr 0 ts k ts1) -> try_eat K_COLON ts1 = Some (c, ts2) -> run (JExpr 0 ts2 v ts3) ->
      try_eat K_COMMA ts3 = Some (c2, ts4) -> run (JPairs ts4 kvs ts4') ->
      must_eat K_RBRACKET ts4' = POk (rb, ts5) -> rng (tpos t) (tpos rb) = POk p ->
      run (JNud NListMap bp t ts (EMap p ((k, v) :: kvs)) ts5)
  (* loops *)
  | E_close : forall close ts, kind_is (peek ts) close = true -> run (JElems close ts [] ts)
  | E_last : forall close ts e ts1,
      kind_is (peek ts) close = false -> run (JExpr 0 ts e ts1) -> try_eat K_COMMA ts1 = None ->
      run (JElems close ts [e] ts1)
  | E_more : forall close ts e ts1 c ts2 es rest,
      kind_is (peek ts) close = false -> run (JExpr 0 ts e ts1) -> try_eat K_COMMA ts1 = Some (c, ts2) ->
      run (JElems close ts2 es rest) -> run (JElems close ts (e :: es) rest)
  | P_close : forall ts, kind_is (peek ts) K_RBRACKET = true -> run (JPairs ts [] ts)
  | P_last : forall ts k ts1 c ts2 v ts3,
      kind_is (peek ts) K_RBRACKET = false -> run (JExpr 0 ts k ts1) -> must_eat K_COLON ts1 = POk (c, ts2) ->
      run (JExpr 0 ts2 v ts3) -> try_eat K_COMMA ts3 = None -> run (JPairs ts [(k, v)] ts3)
  | P_more : forall ts k ts1 c ts2 v ts3 c2 ts4 kvs rest,
      kind_is (peek ts) K_RBRACKET = false -> run (JExpr 0 ts k ts1) -> must_eat K_COLON ts1 = POk (c, ts2) ->
      run (JExpr 0 ts2 v ts3) -> try_eat K_COMMA ts3 = Some (c2, ts4) -> run (JPairs ts4 kvs rest) ->
      run (JPairs ts ((k, v) :: kvs) rest)
  | F_close : forall ts, kind_is (peek ts) K_RBRACE = true -> run (JFields ts [] ts)
  | F_last : forall ts nm ts1 c ts2 v ts3,
      kind_is (peek ts) K_RBRACE = false -> must_eat K_SYM ts = POk (nm, ts1) -> must_eat K_COLON ts1 = POk (c, ts2) ->
      run (JExpr 0 ts2 v ts3) -> try_eat K_COMMA ts3 = None -> run (JFields ts [(t_lexeme nm, v)] ts3)
  | F_more : forall ts nm ts1 c ts2 v ts3 c2 ts4 fs rest,
      kind_is (peek ts) K_RBRACE = false -> must_eat K_SYM ts = POk (nm, ts1) -> must_eat K_COLON ts1 = POk (c, ts2) ->
      run (JExpr 0 ts2 v ts3) -> try_eat K_COMMA ts3 = Some (c2, ts4) -> run (JFields ts4 fs rest) ->
      run (JFields ts ((t_lexeme nm, v) :: fs) rest)
  | A_last : forall ts e ts1, run (JExpr 0 ts e ts1) -> try_eat K_COMMA ts1 = None -> run (JArgs ts [e] ts1)
  | A_more : forall ts e ts1 c ts2 es rest,
      run (JExpr 0 ts e ts1) -> try_eat K_COMMA ts1 = Some (c, ts2) -> run (JArgs ts2 es rest) ->
      run (JArgs ts (e :: es) rest)
  (* call *)
  | C_empty : forall callee lp ts rp ts1 p,
      try_eat K_RPAREN ts = Some (rp, ts1) -> rng (expr_pos callee) (tpos rp) = POk p ->
      run (JCall callee lp ts (ECall p (Z.of_N (t_col lp)) callee []) ts1)
  | C_args : forall callee lp ts args ts1 rp ts2 p,
      try_eat K_RPAREN ts = None -> run (JArgs ts args ts1) -> must_eat K_RPAREN ts1 = POk (rp, ts2) ->
      rng (expr_pos callee) (tpos rp) = POk p ->
      run (JCall callee lp ts (ECall p (Z.of_N (t_col lp)) callee args) ts2)
  (* led *)
  | L_bin : forall l bp left t ts fx r x ts1 p,
      led_bin l bp = Some (fx, r) -> run (JExpr r ts x ts1) -> rng (expr_pos left) (expr_pos x) = POk p ->
      run (JLed l bp left t ts (EBinary p (t_lexeme t) (tpos t) fx left x) ts1)
  | L_postfix : forall bp left t ts p,
      rng (expr_pos left) (tpos t) = POk p ->
      run (JLed LPostfix bp left t ts (EUnary p (t_lexeme t) (tpos t) left false) ts)
  | L_question : forall bp left t ts m ts1 c ts2 r ts3 p,
      run (JExpr 0 ts m ts1) -> must_eat K_COLON ts1 = POk (c, ts2) -> run (JExpr (bp - 8) ts2 r ts3) ->
      rng (expr_pos left) (expr_pos r) = POk p ->
      run (JLed LQuestion bp left t ts (ETernary p (t_lexeme t) (tpos t) left m r) ts3)
  | L_call : forall bp left t ts e rest, run (JCall left t ts e rest) -> run (JLed LCall bp left t ts e rest)
  | L_sub : forall bp left t ts i ts1 rb ts2 p,
      run (JExpr 0 ts i ts1) -> must_eat K_RBRACKET ts1 = POk (rb, ts2) -> rng (expr_pos left) (tpos rb) = POk p ->
      run (JLed LSubscript bp left t ts (ESub p (Z.of_N (t_col t)) left i) ts2)
  | L_dot : forall bp left t ts p,
      rng (expr_pos left) (tpos (peek ts)) = POk p -> try_eat K_LPAREN (tl ts) = None ->
      run (JLed LDot bp left t ts (EMember p (Z.of_N (t_col t)) left (t_lexeme (peek ts)) (tpos (peek ts))) (tl ts))
  | L_dotcall : forall bp left t ts p lp ts2 e rest,
      rng (expr_pos left) (tpos (peek ts)) = POk p -> try_eat K_LPAREN (tl ts) = Some (lp, ts2) ->
      run (JCall (EMember p (Z.of_N (t_col t)) left (t_lexeme (peek ts)) (tpos (peek ts))) lp ts2 e rest) ->
      run (JLed LDot bp left t ts e rest)
  (* infix loop *)
  | Lp_stop : forall rbp left ts, Z.ltb rbp (infix_lbp g (peek ts)) = false -> run (JLoop rbp left ts left ts)
  | Lp_step : forall rbp left ts bp l left' ts2 e rest,
      Z.ltb rbp (infix_lbp g (peek ts)) = true -> get (t_kind (peek ts)) (g_infix g) = Some (bp, l) ->
      run (JLed l bp left (peek ts) (tl ts) left' ts2) -> infix_n_ok left' = true ->
      run (JLoop rbp left' ts2 e rest) -> run (JLoop rbp left ts e rest).

  Lemma eat_peek_tl : forall ts, eat ts = (peek ts, tl ts).
  Proof. intros [|t r]; reflexivity. Qed.
End Run.
Notation runr g := (run g range).

(* ---------- the functions compute the relation ---------- *)
Ltac inv H := inversion H; subst; clear H.

Lemma pbind_ok : forall {X Y} (r : pres X) (f : X -> pres Y) y,
  pbind r f = POk y -> exists x, r = POk x /\ f x = POk y.
Proof. intros X Y [x| |] f y H; cbn in H; try discriminate. eauto. Qed.

Ltac bind_inv H :=
  let x := fresh "x" in let Hx := fresh "Hx" in
  apply pbind_ok in H; destruct H as [x [Hx H]].

Section FnRun.
  Variable g : grammar.
  Variable rec : Z -> list token -> pres (expr * list token).
  Hypothesis Hrec : forall rbp ts e rest, rec rbp ts = POk (e, rest) -> runr g (JExpr rbp ts e rest).

  Lemma elems_loop_run : forall n close ts acc res rest,
    elems_loop rec n close ts acc = POk (res, rest) ->
    exists es, res = rev acc ++ es /\ runr g (JElems close ts es rest).
  Proof.
    induction n as [|n IH]; intros close ts acc res rest H; cbn [elems_loop] in H; [discriminate|].
    destruct (kind_is (peek ts) close) eqn:Hc.
    - inv H. exists []. rewrite app_nil_r. split; [reflexivity | constructor; exact Hc].
    - bind_inv H. destruct x as [e ts1]. destruct (try_eat K_COMMA ts1) as [[c ts2]|] eqn:Hcm.
      + apply IH in H. destruct H as [es [-> Hr]]. exists (e :: es). split.
        * cbn [rev]. rewrite <- app_assoc. reflexivity.
        * eapply E_more; eauto.
      + inv H. exists [e]. split; [reflexivity | eapply E_last; eauto].
  Qed.

  Lemma pairs_loop_run : forall n ts acc res rest,
    pairs_loop rec n ts acc = POk (res, rest) ->
    exists kvs, res = rev acc ++ kvs /\ runr g (JPairs ts kvs rest).
  Proof.
    induction n as [|n IH]; intros ts acc res rest H; cbn [pairs_loop] in H; [discriminate|].
    destruct (kind_is (peek ts) K_RBRACKET) eqn:Hc.
    - inv H. exists []. rewrite app_nil_r. split; [reflexivity | constructor; exact Hc].
    - bind_inv H. destruct x as [k ts1]. bind_inv H. destruct x as [c ts2]. bind_inv H. destruct x as [v ts3].
      destruct (try_eat K_COMMA ts3) as [[c2 ts4]|] eqn:Hcm.
      + apply IH in H. destruct H as [kvs [-> Hr]]. exists ((k, v) :: kvs). split.
        * cbn [rev]. rewrite <- app_assoc. reflexivity.
        * eapply P_more; eauto.
      + inv H. exists [(k, v)]. split; [reflexivity | eapply P_last; eauto].
  Qed.

  Lemma fields_loop_run : forall n ts acc res rest,
    fields_loop rec n ts acc = POk (res, rest) ->
    exists fs, res = rev acc ++ fs /\ runr g (JFields ts fs rest).
  Proof.
    induction n as [|n IH]; intros ts acc res rest H; cbn [fields_loop] in H; [discriminate|].
    destruct (kind_is (peek ts) K_RBRACE) eqn:Hc.
    - inv H. exists []. rewrite app_nil_r. split; [reflexivity | constructor; exact Hc].
    - bind_inv H. destruct x as [nm ts1]. bind_inv H. destruct x as [c ts2]. bind_inv H. destruct x as [v ts3].
      destruct (try_eat K_COMMA ts3) as [[c2 ts4]|] eqn:Hcm.
      + apply IH in H. destruct H as [fs [-> Hr]]. exists ((t_lexeme nm, v) :: fs). split.
        * cbn [rev]. rewrite <- app_assoc. reflexivity.
        * eapply F_more; eauto.
      + inv H. exists [(t_lexeme nm, v)]. split; [reflexivity | eapply F_last; eauto].
  Qed.

  Lemma args_loop_run : forall n ts acc res rest,
    args_loop rec n ts acc = POk (res, rest) ->
    exists es, res = rev acc ++ es /\ runr g (JArgs ts es rest).
  Proof.
    induction n as [|n IH]; intros ts acc res rest H; cbn [args_loop] in H; [discriminate|].
    bind_inv H. destruct x as [e ts1]. destruct (try_eat K_COMMA ts1) as [[c ts2]|] eqn:Hcm.
    - apply IH in H. destruct H as [es [-> Hr]]. exists (e :: es). split.
      + cbn [rev]. rewrite <- app_assoc. reflexivity.
      + eapply A_more; eauto.
    - inv H. exists [e]. split; [reflexivity | eapply A_last; eauto].
  Qed.

  Lemma parse_call_run : forall callee lp ts e rest,
    parse_call rec callee lp ts = POk (e, rest) -> runr g (JCall callee lp ts e rest).
  Proof.
    intros callee lp ts e rest H. unfold parse_call in H.
    bind_inv H. destruct x as [[args rp] ts']. bind_inv H. inv H.
    destruct (try_eat K_RPAREN ts) as [[rp1 ts1]|] eqn:Hrp.
    - inv Hx. eapply C_empty; eauto.
    - bind_inv Hx. destruct x0 as [args1 ts1]. bind_inv Hx. destruct x0 as [rp2 ts2]. inv Hx.
      apply args_loop_run in Hx1. destruct Hx1 as [es [-> Hr]]. cbn [rev app].
      eapply C_args; eauto.
  Qed.

  Lemma nud_fn_run : forall n bp t ts e rest,
    nud_fn rec n bp t ts = POk (e, rest) -> runr g (JNud n bp t ts e rest).
  Proof.
    intros n bp t ts e rest H. destruct n; cbn [nud_fn] in H.
    - inv H. constructor.
    - inv H. constructor.
    - inv H. constructor.
    - destruct (num_parse (t_lexeme t)) eqn:E; inv H. constructor. congruence.
    - destruct (str_value (t_lexeme t)) eqn:E; inv H. constructor. congruence.
    - inv H. constructor.
    - (* listmap *)
      destruct (try_eat K_COLON ts) as [[c ts1]|] eqn:Hcol.
      + bind_inv H. destruct x as [rb ts2]. bind_inv H. inv H. eapply N_map_empty; eauto.
      + destruct (kind_is (peek ts) K_RBRACKET) eqn:Hrb.
        * bind_inv H. destruct x as [rb ts1]. bind_inv H. inv H. eapply N_list_empty; eauto.
        * bind_inv H. destruct x as [e1 ts1].
          destruct (try_eat K_COLON ts1) as [[c ts2]|] eqn:Hcol1.
          -- bind_inv H. destruct x as [v ts3]. bind_inv H. destruct x as [kvs ts4].
             bind_inv H. destruct x as [rb ts5]. bind_inv H. inv H.
             destruct (try_eat K_COMMA ts3) as [[c2 ts4']|] eqn:Hcm.
             ++ apply pairs_loop_run in Hx1. destruct Hx1 as [kvs' [-> Hr]]. cbn [rev app].
                eapply N_mapn; eauto.
             ++ inv Hx1. eapply N_map1; eauto.
          -- bind_inv H. destruct x as [es ts2]. bind_inv H. destruct x as [rb ts3]. bind_inv H. inv H.
             destruct (try_eat K_COMMA ts1) as [[c2 ts2']|] eqn:Hcm.
             ++ apply elems_loop_run in Hx0. destruct Hx0 as [es' [-> Hr]]. cbn [rev app].
                eapply N_listn; eauto.
             ++ inv Hx0. eapply N_list1; eauto.
    - (* obj *)
      bind_inv H. destruct x as [fs ts1]. bind_inv H. destruct x as [rb ts2]. bind_inv H. inv H.
      apply fields_loop_run in Hx. destruct Hx as [fs' [-> Hr]]. cbn [rev app]. eapply N_obj; eauto.
    - bind_inv H. destruct x as [e1 ts1]. bind_inv H. destruct x as [rp ts2]. bind_inv H. inv H.
      eapply N_group; eauto.
    - bind_inv H. destruct x as [e1 ts1]. bind_inv H. inv H. eapply N_prefix; eauto.
  Qed.

  Lemma led_fn_run : forall l bp left t ts e rest,
    led_fn rec l bp left t ts = POk (e, rest) -> runr g (JLed l bp left t ts e rest).
  Proof.
    intros l bp left t ts e rest H. destruct l; cbn [led_fn] in H.
    - bind_inv H. destruct x as [r ts1]. bind_inv H. inv H. eapply L_bin; eauto. reflexivity.
    - bind_inv H. destruct x as [r ts1]. bind_inv H. inv H. eapply L_bin; eauto. reflexivity.
    - bind_inv H. destruct x as [r ts1]. bind_inv H. inv H. eapply L_bin; eauto. reflexivity.
    - bind_inv H. inv H. eapply L_postfix; eauto.
    - bind_inv H. destruct x as [m ts1]. bind_inv H. destruct x as [c ts2]. bind_inv H. destruct x as [r ts3].
      bind_inv H. inv H. eapply L_question; eauto.
    - rewrite eat_peek_tl in H. bind_inv H.
      destruct (try_eat K_LPAREN (tl ts)) as [[lp ts2]|] eqn:Hlp.
      + eapply L_dotcall; eauto. apply parse_call_run; exact H.
      + inv H. eapply L_dot; eauto.
    - apply L_call. apply parse_call_run; exact H.
    - bind_inv H. destruct x as [i ts1]. bind_inv H. destruct x as [rb ts2]. bind_inv H. inv H.
      eapply L_sub; eauto.
  Qed.

  Lemma infix_loop_run : forall n rbp left ts e rest,
    infix_loop g rec n rbp left ts = POk (e, rest) -> runr g (JLoop rbp left ts e rest).
  Proof.
    induction n as [|n IH]; intros rbp left ts e rest H; cbn [infix_loop] in H; [discriminate|].
    destruct (Z.ltb rbp (infix_lbp g (peek ts))) eqn:Hlt.
    - rewrite eat_peek_tl in H. destruct (get (t_kind (peek ts)) (g_infix g)) as [[bp l]|] eqn:Hg; [|discriminate].
      bind_inv H. destruct x as [left' ts2]. destruct (infix_n_ok left') eqn:Hok; [|discriminate].
      eapply Lp_step; eauto. apply led_fn_run; exact Hx.
    - inv H. apply Lp_stop; exact Hlt.
  Qed.

  Lemma expr_step_run : forall rbp ts e rest,
    expr_step g rec rbp ts = POk (e, rest) -> runr g (JExpr rbp ts e rest).
  Proof.
    intros rbp ts e rest H. unfold expr_step in H. rewrite eat_peek_tl in H.
    destruct (get (t_kind (peek ts)) (g_prefix g)) as [[bp n]|] eqn:Hg; [|discriminate].
    bind_inv H. destruct x as [lft ts2].
    eapply R_expr; eauto. apply nud_fn_run; exact Hx. apply infix_loop_run in H; exact H.
  Qed.
End FnRun.

Lemma p_expr_run : forall g f rbp ts e rest,
  p_expr g f rbp ts = POk (e, rest) -> runr g (JExpr rbp ts e rest).
Proof.
  induction f as [|f IH]; intros rbp ts e rest H; cbn [p_expr] in H; [discriminate|].
  eapply expr_step_run; [|exact H]. exact IH.
Qed.

(* ---------- stage 2: non-associative operators are never chained ---------- *)
Definition nnc := no_nonassoc_chain.

Definition P_nnc (j : judg) : Prop :=
  match j with
  | JExpr _ _ e _ => nnc e = true
  | JNud _ _ _ _ e _ => nnc e = true
  | JLoop _ lft _ e _ => nnc lft = true -> nnc e = true
  | JLed _ _ lft _ _ e _ => nnc lft = true -> infix_n_ok e = true -> nnc e = true
  | JCall callee _ _ e _ => nnc callee = true -> nnc e = true
  | JElems _ _ es _ => forallb nnc es = true
  | JPairs _ kvs _ => forallb (fun kv => nnc (fst kv) && nnc (snd kv)) kvs = true
  | JFields _ fs _ => forallb (fun f => nnc (snd f)) fs = true
  | JArgs _ es _ => forallb nnc es = true
  end.

Lemma run_nnc : forall g j, runr g j -> P_nnc j.
Proof.
  intros g j H. induction H; cbn [P_nnc] in *; unfold nnc in *; cbn [no_nonassoc_chain forallb fst snd] in *;
    repeat match goal with H : ?x = true |- context [?x] => rewrite H end; cbn [andb]; auto.
  - intros Hl. rewrite Hl. reflexivity.
  - intros Hl. rewrite Hl. reflexivity.
  - (* bin *) intros Hl Hok. rewrite Hl.
    destruct l; cbn in H; inv H; cbn [N.eqb Pos.eqb andb]; try reflexivity.
    unfold same_binary. cbn [infix_n_ok] in Hok. rewrite Hok. reflexivity.
  - intros Hl _. rewrite Hl. reflexivity.
  - intros Hl _. rewrite Hl. reflexivity.
Qed.

Lemma parse_nonassoc : forall ops ts e,
  parse_tokens ops ts = POk e -> no_nonassoc_chain e = true.
Proof.
  intros ops ts e H. unfold parse_tokens in H. bind_inv H. destruct x as [e1 rest].
  destruct rest; inv H. apply p_expr_run in Hx. apply run_nnc in Hx. exact Hx.
Qed.

(* ---------- tables: list_eqb, get/put, new_grammar ---------- *)
Lemma list_eqb_eq : forall a b, list_eqb a b = true <-> a = b.
Proof.
  induction a as [|x a IH]; intros [|y b]; cbn [list_eqb]; split; intro H; try discriminate; try reflexivity.
  - apply andb_true_iff in H. destruct H as [H1 H2]. apply N.eqb_eq in H1. apply IH in H2. congruence.
  - inv H. rewrite N.eqb_refl. cbn. apply IH. reflexivity.
Qed.

Lemma list_eqb_refl : forall a, list_eqb a a = true.
Proof. intro a. apply list_eqb_eq. reflexivity. Qed.

Lemma list_eqb_neq : forall a b, list_eqb a b = false <-> a <> b.
Proof.
  intros a b. split.
  - intros H E. apply list_eqb_eq in E. congruence.
  - intro H. destruct (list_eqb a b) eqn:E; [|reflexivity]. apply list_eqb_eq in E. contradiction.
Qed.

Lemma list_eqb_sym : forall a b, list_eqb a b = list_eqb b a.
Proof.
  intros a b. destruct (list_eqb a b) eqn:E.
  - apply list_eqb_eq in E. subst. symmetry. apply list_eqb_refl.
  - symmetry. apply list_eqb_neq. apply list_eqb_neq in E. congruence.
Qed.

Lemma get_put : forall {X} k k' (x : X) l,
  get k (put k' x l) = if list_eqb k k' then Some x else get k l.
Proof.
  intros X k k' x l. induction l as [|[k2 x2] r IH]; cbn [put get].
  - reflexivity.
  - destruct (list_eqb k' k2) eqn:E.
    + apply list_eqb_eq in E. subst k2. cbn [get]. destruct (list_eqb k k'); reflexivity.
    + cbn [get]. rewrite IH. destruct (list_eqb k k2) eqn:E2; [|reflexivity].
      destruct (list_eqb k k') eqn:E3; [|reflexivity].
      apply list_eqb_eq in E2. apply list_eqb_eq in E3. subst. rewrite list_eqb_refl in E. discriminate.
Qed.

Lemma in_insert_by_len : forall {X} key (x o : X) l, In o (insert_by_len key x l) -> o = x \/ In o l.
Proof.
  intros X key x o l. induction l as [|y r IH]; cbn [insert_by_len]; intro H.
  - destruct H as [H|[]]. left. congruence.
  - destruct (Nat.leb (key y) (key x)).
    + destruct H as [H|H]; [left; congruence | right; exact H].
    + destruct H as [H|H]; [right; left; exact H|]. apply IH in H. destruct H; [left | right; right]; assumption.
Qed.

Lemma in_sort_ops : forall {X} key (o : X) l, In o (sort_ops key l) -> In o l.
Proof.
  intros X key o l. unfold sort_ops. induction l as [|x r IH]; cbn [fold_right]; intro H; [exact H|].
  apply in_insert_by_len in H. destruct H as [H|H]; [left; congruence | right; apply IH; exact H].
Qed.

Definition ng_p0 : list (list N * (Z * nud)) :=
  fold_left (fun acc kn => put (fst kn) (BP_NONE, snd kn) acc)
    [(K_SYM, NIdent); (K_TRUE, NTrue); (K_FALSE, NFalse); (K_NUM, NNum); (K_STR, NStr); (K_TIME, NTime);
     (K_LBRACKET, NListMap); (K_LBRACE, NObj); (K_LPAREN, NGroup)] [].

Definition ng_step : (list (list N * (Z * nud)) * list (list N * (Z * led))) -> operator ->
                     (list (list N * (Z * nud)) * list (list N * (Z * led))) :=
  fun '(p, i) o =>
    match o_fix o with
    | 1%N => (put (o_kind o) (o_bp o, NPrefix) p, i)
    | 2%N => (p, put (o_kind o) (o_bp o, LBinN) i)
    | 3%N => (p, put (o_kind o) (o_bp o, LBinL) i)
    | 4%N => (p, put (o_kind o) (o_bp o, LBinR) i)
    | 5%N => (p, put (o_kind o) (o_bp o, LPostfix) i)
    | _ => (p, i)
    end.

Definition ng_fixed_infix (i1 : list (list N * (Z * led))) :=
  put K_LBRACKET (BP_MEMBER, LSubscript)
    (put K_LPAREN (BP_CALL, LCall) (put K_DOT (BP_MEMBER, LDot) (put K_QUESTION (BP_COND, LQuestion) i1))).

Lemma new_grammar_eq : forall ops,
  new_grammar ops =
  let pi := fold_left ng_step (sort_ops (fun o => byte_len (o_kind o)) ops) (ng_p0, []) in
  mkGrammar (fst pi) (ng_fixed_infix (snd pi)).
Proof.
  intro ops. unfold new_grammar. fold ng_p0. fold ng_step.
  destruct (fold_left ng_step (sort_ops (fun o => byte_len (o_kind o)) ops) (ng_p0, [])) as [p1 i1].
  reflexivity.
Qed.

Definition led_of_fix (fx : N) : option led :=
  match fx with 2%N => Some LBinN | 3%N => Some LBinL | 4%N => Some LBinR | 5%N => Some LPostfix | _ => None end.

Lemma ng_fold_prefix : forall l p i k bp n,
  get k (fst (fold_left ng_step l (p, i))) = Some (bp, n) ->
  get k p = Some (bp, n) \/ (n = NPrefix /\ exists o, In o l /\ o_kind o = k /\ o_bp o = bp /\ o_fix o = 1%N).
Proof.
  induction l as [|o l IH]; intros p i k bp n H; cbn [fold_left] in H.
  - left. exact H.
  - assert (Hstep : exists p' i', ng_step (p, i) o = (p', i') /\
              (p' = p \/ (o_fix o = 1%N /\ p' = put (o_kind o) (o_bp o, NPrefix) p))).
    { unfold ng_step. destruct (o_fix o) as [|[q|q|]]; try (do 2 eexists; split; [reflexivity|left; reflexivity]).
      - destruct q as [q|q|]; try destruct q; do 2 eexists; (split; [reflexivity|left; reflexivity]).
      - destruct q as [q|q|]; try destruct q; do 2 eexists; (split; [reflexivity|left; reflexivity]).
      - do 2 eexists; split; [reflexivity|right; split; reflexivity]. }
    destruct Hstep as [p' [i' [E Hp]]]. rewrite E in H. apply IH in H.
    destruct H as [H|[Hn [o' [Hin Ho']]]].
    + destruct Hp as [->|[Hfix ->]]; [left; exact H|].
      rewrite get_put in H. destruct (list_eqb k (o_kind o)) eqn:Ek; [|left; exact H].
      inv H. right. split; [reflexivity|]. exists o. apply list_eqb_eq in Ek. subst. cbn. auto.
    + right. split; [exact Hn|]. exists o'. split; [right; exact Hin | exact Ho'].
Qed.

Lemma ng_fold_infix : forall l p i k bp ld,
  get k (snd (fold_left ng_step l (p, i))) = Some (bp, ld) ->
  get k i = Some (bp, ld) \/ (exists o, In o l /\ o_kind o = k /\ o_bp o = bp /\ led_of_fix (o_fix o) = Some ld).
Proof.
  induction l as [|o l IH]; intros p i k bp ld H; cbn [fold_left] in H.
  - left. exact H.
  - assert (Hstep : exists p' i', ng_step (p, i) o = (p', i') /\
              (i' = i \/ (exists ld', led_of_fix (o_fix o) = Some ld' /\ i' = put (o_kind o) (o_bp o, ld') i))).
    { unfold ng_step. destruct (o_fix o) as [|[q|q|]]; try (do 2 eexists; split; [reflexivity|left; reflexivity]).
      - destruct q as [q|q|]; try destruct q; do 2 eexists; (split; [reflexivity|]);
          try (left; reflexivity); right; eexists; split; reflexivity.
      - destruct q as [q|q|]; try destruct q; do 2 eexists; (split; [reflexivity|]);
          try (left; reflexivity); right; eexists; split; reflexivity. }
    destruct Hstep as [p' [i' [E Hi]]]. rewrite E in H. apply IH in H.
    destruct H as [H|[o' [Hin Ho']]].
    + destruct Hi as [->|[ld' [Hfix ->]]]; [left; exact H|].
      rewrite get_put in H. destruct (list_eqb k (o_kind o)) eqn:Ek; [|left; exact H].
      inv H. right. exists o. apply list_eqb_eq in Ek. subst. cbn. auto.
    + right. exists o'. split; [right; apply Hin | exact Ho'].
Qed.

Lemma ng_fold_untouched : forall l p i k,
  (forall o, In o l -> list_eqb k (o_kind o) = false) ->
  get k (fst (fold_left ng_step l (p, i))) = get k p /\ get k (snd (fold_left ng_step l (p, i))) = get k i.
Proof.
  induction l as [|o l IH]; intros p i k Hk; cbn [fold_left].
  - split; reflexivity.
  - assert (Ho : list_eqb k (o_kind o) = false) by (apply Hk; left; reflexivity).
    assert (Hstep : exists p' i', ng_step (p, i) o = (p', i') /\ get k p' = get k p /\ get k i' = get k i).
    { unfold ng_step.
      destruct (o_fix o) as [|[q|q|]]; try (do 2 eexists; split; [reflexivity|split; reflexivity]).
      - destruct q as [q|q|]; try destruct q; do 2 eexists; (split; [reflexivity|]);
          rewrite ?get_put, ?Ho; split; reflexivity.
      - destruct q as [q|q|]; try destruct q; do 2 eexists; (split; [reflexivity|]);
          rewrite ?get_put, ?Ho; split; reflexivity.
      - do 2 eexists; (split; [reflexivity|]); rewrite ?get_put, ?Ho; split; reflexivity. }
    destruct Hstep as [p' [i' [E [H1 H2]]]]. rewrite E.
    destruct (IH p' i' k) as [H3 H4]. { intros o' Hin. apply Hk. right. exact Hin. }
    rewrite H3, H4. split; assumption.
Qed.

Definition no_eof_operator (ops : list operator) : bool := forallb (fun o => negb (list_eqb (o_kind o) K_EOF)) ops.

Lemma no_eof_operator_grammar : forall ops, no_eof_operator ops = true ->
  get K_EOF (g_prefix (new_grammar ops)) = None /\ get K_EOF (g_infix (new_grammar ops)) = None.
Proof.
  intros ops H. rewrite new_grammar_eq. cbn [g_prefix g_infix].
  destruct (ng_fold_untouched (sort_ops (fun o => byte_len (o_kind o)) ops) ng_p0 [] K_EOF) as [H1 H2].
  { intros o Hin. apply in_sort_ops in Hin. unfold no_eof_operator in H. rewrite forallb_forall in H.
    apply H in Hin. rewrite list_eqb_sym. destruct (list_eqb (o_kind o) K_EOF); [discriminate | reflexivity]. }
  split.
  - rewrite H1. reflexivity.
  - unfold ng_fixed_infix. rewrite !get_put, H2. reflexivity.
Qed.

Lemma table_ok_no_eof_operator : forall ops, table_ok ops = true -> no_eof_operator ops = true.
Proof.
  intros ops H. unfold table_ok in H. unfold no_eof_operator. rewrite forallb_forall in *.
  intros o Hin. apply H in Hin. apply andb_true_iff in Hin. destruct Hin as [Hin _].
  destruct (list_eqb (o_kind o) K_EOF) eqn:E; [|reflexivity].
  cbn [existsb fixed_kinds] in Hin. rewrite E in Hin. rewrite !orb_true_r in Hin. discriminate.
Qed.

(* ---------- token consumption ---------- *)
Lemma must_eat_inv : forall k ts t r, must_eat k ts = POk (t, r) -> t = peek ts /\ r = tl ts /\ kind_is (peek ts) k = true.
Proof.
  intros k ts t r H. unfold must_eat in H. rewrite eat_peek_tl in H.
  destruct (kind_is (peek ts) k) eqn:E; inv H. auto.
Qed.

Lemma try_eat_some : forall k ts t r, try_eat k ts = Some (t, r) -> t = peek ts /\ r = tl ts /\ kind_is (peek ts) k = true.
Proof.
  intros k ts t r H. unfold try_eat in H. rewrite eat_peek_tl in H.
  destruct (kind_is (peek ts) k) eqn:E; inv H. auto.
Qed.

Lemma try_eat_none : forall k ts, try_eat k ts = None -> kind_is (peek ts) k = false.
Proof. intros k ts H. unfold try_eat in H. destruct (kind_is (peek ts) k); [discriminate | reflexivity]. Qed.

Lemma len_tl : forall (ts : list token), (len (tl ts) <= len ts)%nat.
Proof. intros [|t r]; cbn; lia. Qed.

Lemma must_eat_len : forall k ts t r, must_eat k ts = POk (t, r) -> (len r <= len ts)%nat.
Proof. intros k ts t r H. apply must_eat_inv in H. destruct H as [_ [-> _]]. apply len_tl. Qed.

Lemma try_eat_len : forall k ts t r, try_eat k ts = Some (t, r) -> (len r <= len ts)%nat.
Proof. intros k ts t r H. apply try_eat_some in H. destruct H as [_ [-> _]]. apply len_tl. Qed.

Ltac len_facts :=
  repeat match goal with
  | H : must_eat _ _ = POk (_, _) |- _ => apply must_eat_len in H
  | H : try_eat _ _ = Some (_, _) |- _ => apply try_eat_len in H
  end.

Definition P_len (j : judg) : Prop :=
  match j with
  | JExpr _ ts _ rest => (len rest < len ts)%nat
  | JNud _ _ _ ts _ rest => (len rest <= len ts)%nat
  | JLoop _ _ ts _ rest => (len rest <= len ts)%nat
  | JLed _ _ _ _ ts _ rest => (len rest <= len ts)%nat
  | JCall _ _ ts _ rest => (len rest <= len ts)%nat
  | JElems _ ts _ rest => (len rest <= len ts)%nat
  | JPairs ts _ rest => (len rest <= len ts)%nat
  | JFields ts _ rest => (len rest <= len ts)%nat
  | JArgs ts _ rest => (len rest <= len ts)%nat
  end.

Definition eof_free (g : grammar) : Prop :=
  get K_EOF (g_prefix g) = None /\ get K_EOF (g_infix g) = None.

Lemma run_len : forall g j, eof_free g -> runr g j -> P_len j.
Proof.
  intros g j [Hp Hi] H. induction H; cbn [P_len] in *; len_facts.
  1: { destruct ts as [|t0 r0]; [change (get K_EOF (g_prefix g) = Some (bp, n)) in H; rewrite Hp in H; discriminate|].
       cbn [tl] in *. unfold len in *. cbn [Datatypes.length]. lia. }
  all: repeat match goal with
           | |- context [len (tl ?ts)] => pose proof (len_tl ts); generalize dependent (len (tl ts)); intros
           | H : context [len (tl ?ts)] |- _ => pose proof (len_tl ts); generalize dependent (len (tl ts)); intros
           end; lia.
Qed.

Lemma run_len_expr : forall g rbp ts e rest, eof_free g -> runr g (JExpr rbp ts e rest) -> (len rest < len ts)%nat.
Proof. intros g rbp ts e rest Hg H. apply (run_len g _ Hg H). Qed.

(* ---------- stage 3: the fuel suffices ---------- *)
Lemma pbind_nf : forall {X Y} (r : pres X) (k : X -> pres Y),
  r <> PFuel -> (forall x, r = POk x -> k x <> PFuel) -> pbind r k <> PFuel.
Proof. intros X Y [x| |] k H1 H2; cbn; [apply H2; reflexivity | discriminate | exfalso; apply H1; reflexivity]. Qed.

Lemma must_eat_nf : forall k ts, must_eat k ts <> PFuel.
Proof. intros k ts. unfold must_eat. destruct (eat ts) as [t r]. destruct (kind_is t k); discriminate. Qed.

Lemma range_nf : forall a b, range a b <> PFuel.
Proof. intros a b. unfold range. destruct (Z.leb (p_idx a) (p_idx b)); discriminate. Qed.

Section NoFuel.
  Variable g : grammar.
  Hypothesis Hg : eof_free g.
  Variable rec : Z -> list token -> pres (expr * list token).
  Variable B : nat.
  Hypothesis Hrec_run : forall rbp ts e rest, rec rbp ts = POk (e, rest) -> runr g (JExpr rbp ts e rest).
  Hypothesis Hrec_nf : forall rbp ts, (len ts < B)%nat -> rec rbp ts <> PFuel.

  Lemma rec_len : forall rbp ts e rest, rec rbp ts = POk (e, rest) -> (len rest < len ts)%nat.
  Proof. intros rbp ts e rest H. apply Hrec_run in H. eapply run_len_expr; eauto. Qed.

  Ltac step_rec :=
    apply pbind_nf; [apply Hrec_nf; lia |];
    let x := fresh "x" in let e := fresh "e" in let ts' := fresh "ts" in let Hx := fresh "Hx" in
    intros [e ts'] Hx; apply rec_len in Hx.
  Ltac step_eat :=
    apply pbind_nf; [apply must_eat_nf |];
    let t := fresh "t" in let ts' := fresh "ts" in let Hx := fresh "Hx" in
    intros [t ts'] Hx; apply must_eat_len in Hx.
  Ltac step_range := apply pbind_nf; [apply range_nf | intros ? _].

  Lemma elems_loop_nf : forall n close ts acc,
    (len ts < n)%nat -> (len ts < B)%nat -> elems_loop rec n close ts acc <> PFuel.
  Proof.
    induction n as [|n IH]; intros close ts acc Hn HB; [lia|]. cbn [elems_loop].
    destruct (kind_is (peek ts) close); [discriminate|].
    step_rec. destruct (try_eat K_COMMA ts0) as [[c ts2]|] eqn:Hc; [|discriminate].
    apply try_eat_len in Hc. apply IH; lia.
  Qed.

  Lemma pairs_loop_nf : forall n ts acc,
    (len ts < n)%nat -> (len ts < B)%nat -> pairs_loop rec n ts acc <> PFuel.
  Proof.
    induction n as [|n IH]; intros ts acc Hn HB; [lia|]. cbn [pairs_loop].
    destruct (kind_is (peek ts) K_RBRACKET); [discriminate|].
    step_rec. step_eat. step_rec. destruct (try_eat K_COMMA ts2) as [[c ts4]|] eqn:Hc; [|discriminate].
    apply try_eat_len in Hc. apply IH; lia.
  Qed.

  Lemma fields_loop_nf : forall n ts acc,
    (len ts < n)%nat -> (len ts < B)%nat -> fields_loop rec n ts acc <> PFuel.
  Proof.
    induction n as [|n IH]; intros ts acc Hn HB; [lia|]. cbn [fields_loop].
    destruct (kind_is (peek ts) K_RBRACE); [discriminate|].
    step_eat. step_eat. step_rec. destruct (try_eat K_COMMA ts2) as [[c ts4]|] eqn:Hc; [|discriminate].
    apply try_eat_len in Hc. apply IH; lia.
  Qed.

  Lemma args_loop_nf : forall n ts acc,
    (len ts < n)%nat -> (len ts < B)%nat -> args_loop rec n ts acc <> PFuel.
  Proof.
    induction n as [|n IH]; intros ts acc Hn HB; [lia|]. cbn [args_loop].
    step_rec. destruct (try_eat K_COMMA ts0) as [[c ts2]|] eqn:Hc; [|discriminate].
    apply try_eat_len in Hc. apply IH; lia.
  Qed.

  Lemma parse_call_nf : forall callee lp ts, (len ts < B)%nat -> parse_call rec callee lp ts <> PFuel.
  Proof.
    intros callee lp ts HB. unfold parse_call. apply pbind_nf.
    - destruct (try_eat K_RPAREN ts) as [[rp ts1]|]; [discriminate|].
      apply pbind_nf; [apply args_loop_nf; lia|]. intros [args ts1] _. step_eat. discriminate.
    - intros [[args rp] ts'] _. step_range. discriminate.
  Qed.

  Lemma nud_fn_nf : forall n bp t ts, (len ts < B)%nat -> nud_fn rec n bp t ts <> PFuel.
  Proof.
    intros n bp t ts HB. destruct n; cbn [nud_fn]; try discriminate.
    - destruct (num_parse (t_lexeme t)); discriminate.
    - destruct (str_value (t_lexeme t)); discriminate.
    - destruct (try_eat K_COLON ts) as [[c ts1]|] eqn:Hc.
      + step_eat. step_range. discriminate.
      + destruct (kind_is (peek ts) K_RBRACKET).
        * step_eat. step_range. discriminate.
        * step_rec. destruct (try_eat K_COLON ts0) as [[c ts2]|] eqn:Hc2.
          -- apply try_eat_len in Hc2. step_rec. apply pbind_nf.
             ++ destruct (try_eat K_COMMA ts1) as [[c2 ts4]|] eqn:Hc3; [|discriminate].
                apply try_eat_len in Hc3. apply pairs_loop_nf; lia.
             ++ intros [kvs ts4] _. step_eat. step_range. discriminate.
          -- apply pbind_nf.
             ++ destruct (try_eat K_COMMA ts0) as [[c2 ts2]|] eqn:Hc3; [|discriminate].
                apply try_eat_len in Hc3. apply elems_loop_nf; lia.
             ++ intros [es ts2] _. step_eat. step_range. discriminate.
    - apply pbind_nf; [apply fields_loop_nf; lia|]. intros [fs ts1] _. step_eat. step_range. discriminate.
    - step_rec. step_eat. step_range. discriminate.
    - step_rec. step_range. discriminate.
  Qed.

  Lemma led_fn_nf : forall l bp left t ts, (len ts < B)%nat -> led_fn rec l bp left t ts <> PFuel.
  Proof.
    intros l bp left t ts HB. destruct l; cbn [led_fn].
    - step_rec. step_range. discriminate.
    - step_rec. step_range. discriminate.
    - step_rec. step_range. discriminate.
    - step_range. discriminate.
    - step_rec. step_eat. step_rec. step_range. discriminate.
    - rewrite eat_peek_tl. step_range. pose proof (len_tl ts) as Htl.
      destruct (try_eat K_LPAREN (tl ts)) as [[lp ts2]|] eqn:Hlp; [|discriminate].
      apply try_eat_len in Hlp. apply parse_call_nf. lia.
    - apply parse_call_nf. exact HB.
    - step_rec. step_eat. step_range. discriminate.
  Qed.

  Lemma led_fn_len : forall l bp left t ts e rest,
    led_fn rec l bp left t ts = POk (e, rest) -> (len rest <= len ts)%nat.
  Proof.
    intros l bp left t ts e rest H. apply (led_fn_run g rec Hrec_run) in H. apply (run_len g _ Hg H).
  Qed.

  Lemma infix_loop_nf : forall n rbp left ts,
    (len ts < n)%nat -> (len ts <= B)%nat -> infix_loop g rec n rbp left ts <> PFuel.
  Proof.
    induction n as [|n IH]; intros rbp left ts Hn HB; [lia|]. cbn [infix_loop].
    destruct (Z.ltb rbp (infix_lbp g (peek ts))); [|discriminate].
    rewrite eat_peek_tl. destruct (get (t_kind (peek ts)) (g_infix g)) as [[bp l]|] eqn:Hget; [|discriminate].
    destruct ts as [|t0 r0].
    { change (get K_EOF (g_infix g) = Some (bp, l)) in Hget. destruct Hg as [_ Hi]. rewrite Hi in Hget. discriminate. }
    cbn [peek tl]. unfold len in Hn, HB. cbn [Datatypes.length] in Hn, HB. fold (len r0) in Hn, HB.
    apply pbind_nf; [apply led_fn_nf; lia|]. intros [left' ts2] Hx. apply led_fn_len in Hx.
    destruct (infix_n_ok left'); [|discriminate]. apply IH; lia.
  Qed.

  Lemma expr_step_nf : forall rbp ts, (len ts <= B)%nat -> expr_step g rec rbp ts <> PFuel.
  Proof.
    intros rbp ts HB. unfold expr_step. rewrite eat_peek_tl.
    destruct (get (t_kind (peek ts)) (g_prefix g)) as [[bp n]|] eqn:Hget; [|discriminate].
    destruct ts as [|t0 r0].
    { change (get K_EOF (g_prefix g) = Some (bp, n)) in Hget. destruct Hg as [Hp _]. rewrite Hp in Hget. discriminate. }
    cbn [peek tl]. unfold len in HB. cbn [Datatypes.length] in HB. fold (len r0) in HB.
    apply pbind_nf; [apply nud_fn_nf; lia|]. intros [lft ts2] Hx.
    apply (nud_fn_run g rec Hrec_run) in Hx. apply (run_len g _ Hg) in Hx. cbn [P_len] in Hx.
    apply infix_loop_nf; lia.
  Qed.
End NoFuel.

Lemma p_expr_nf : forall g, eof_free g -> forall f rbp ts, (len ts < f)%nat -> p_expr g f rbp ts <> PFuel.
Proof.
  intros g Hg. induction f as [|f IH]; intros rbp ts Hf; [lia|]. cbn [p_expr].
  apply (expr_step_nf g Hg (p_expr g f) f).
  - intros. eapply p_expr_run; eauto.
  - exact IH.
  - lia.
Qed.

Lemma no_fuel_partial : forall ops ts, no_eof_operator ops = true -> parse_tokens ops ts <> PFuel.
Proof.
  intros ops ts H. unfold parse_tokens. apply pbind_nf.
  - apply p_expr_nf; [apply no_eof_operator_grammar; exact H | lia].
  - intros [e rest] _. destruct rest; discriminate.
Qed.

Lemma no_fuel_table_ok : forall ops ts, table_ok ops = true -> parse_tokens ops ts <> PFuel.
Proof. intros ops ts H. apply no_fuel_partial. apply table_ok_no_eof_operator. exact H. Qed.

(* ---------- what [table_ok] guarantees about the grammar ---------- *)
Definition notfixed (k : list N) : Prop := existsb (list_eqb k) fixed_kinds = false.

Definition nud_kind (n : nud) : option (list N) :=
  match n with
  | NIdent => Some K_SYM | NTrue => Some K_TRUE | NFalse => Some K_FALSE | NNum => Some K_NUM | NStr => Some K_STR
  | NTime => Some K_TIME | NListMap => Some K_LBRACKET | NObj => Some K_LBRACE | NGroup => Some K_LPAREN
  | NPrefix => None
  end.

Definition led_kind (l : led) : option (list N * Z) :=
  match l with
  | LQuestion => Some (K_QUESTION, BP_COND) | LDot => Some (K_DOT, BP_MEMBER) | LCall => Some (K_LPAREN, BP_CALL)
  | LSubscript => Some (K_LBRACKET, BP_MEMBER)
  | _ => None
  end.

Definition nud_spec (k : list N) (bp : Z) (n : nud) : Prop :=
  match nud_kind n with Some k' => k = k' /\ bp = 0 | None => notfixed k /\ 0 <= bp end.

Definition led_spec (k : list N) (bp : Z) (l : led) : Prop :=
  match led_kind l with
  | Some (k', bp') => k = k' /\ bp = bp'
  | None => notfixed k /\ 0 < bp /\ (l = LBinR -> 8 <= bp)
  end.

Record gram_ok (g : grammar) : Prop := {
  go_eof : eof_free g;
  go_prefix : forall k bp n, get k (g_prefix g) = Some (bp, n) -> nud_spec k bp n;
  go_infix : forall k bp l, get k (g_infix g) = Some (bp, l) -> led_spec k bp l;
  go_fixed_prefix : forall n k, nud_kind n = Some k -> get k (g_prefix g) = Some (0, n);
  go_fixed_infix : forall l k bp, led_kind l = Some (k, bp) -> get k (g_infix g) = Some (bp, l)
}.

Lemma table_ok_in : forall ops o, table_ok ops = true -> In o ops ->
  notfixed (o_kind o) /\
  match o_fix o with
  | 1%N => 0 <= o_bp o
  | 4%N => 8 <= o_bp o
  | 2%N | 3%N | 5%N => 0 < o_bp o
  | _ => False
  end.
Proof.
  intros ops o H Hin. unfold table_ok in H. rewrite forallb_forall in H. apply H in Hin.
  apply andb_true_iff in Hin. destruct Hin as [H1 H2]. split.
  - unfold notfixed. destruct (existsb (list_eqb (o_kind o)) fixed_kinds); [discriminate | reflexivity].
  - destruct (o_fix o) as [|[[q|q|]|[q|q|]|]]; try discriminate; try (apply Z.leb_le; exact H2); try (apply Z.ltb_lt; exact H2);
      destruct q; try discriminate; try (apply Z.leb_le; exact H2); try (apply Z.ltb_lt; exact H2).
Qed.

Lemma notfixed_neq : forall k k', notfixed k -> In k' fixed_kinds -> list_eqb k' k = false.
Proof.
  intros k k' H Hin. unfold notfixed in H. destruct (list_eqb k' k) eqn:E; [|reflexivity].
  apply list_eqb_eq in E. subst k'.
  assert (Hex : existsb (list_eqb k) fixed_kinds = true).
  { apply existsb_exists. exists k. split; [exact Hin | apply list_eqb_refl]. }
  congruence.
Qed.

Lemma get_ng_p0 : forall k bp n, get k ng_p0 = Some (bp, n) -> nud_kind n = Some k /\ bp = 0.
Proof.
  intros k bp n H. vm_compute in H.
  repeat match type of H with
  | (if ?c then _ else _) = _ =>
      let E := fresh "E" in destruct c eqn:E;
      [ inv H; split; [|reflexivity];
        match goal with E : _ = true |- _ => apply (proj1 (list_eqb_eq k _)) in E; subst k; reflexivity end | ]
  end.
  discriminate.
Qed.

Lemma table_ok_gram_ok : forall ops, table_ok ops = true -> gram_ok (new_grammar ops).
Proof.
  intros ops Hok.
  assert (Huntouched : forall k, In k fixed_kinds ->
            get k (fst (fold_left ng_step (sort_ops (fun o => byte_len (o_kind o)) ops) (ng_p0, []))) = get k ng_p0 /\
            get k (snd (fold_left ng_step (sort_ops (fun o => byte_len (o_kind o)) ops) (ng_p0, []))) = None).
  { intros k Hk. apply ng_fold_untouched. intros o Hin. apply in_sort_ops in Hin.
    destruct (table_ok_in ops o Hok Hin) as [Hnf _]. apply notfixed_neq; assumption. }
  constructor.
  - apply no_eof_operator_grammar. apply table_ok_no_eof_operator. exact Hok.
  - intros k bp n H. rewrite new_grammar_eq in H. cbn [g_prefix] in H.
    apply ng_fold_prefix in H. destruct H as [H|[-> [o [Hin [Hk [Hbp Hfix]]]]]].
    + apply get_ng_p0 in H. destruct H as [H ->]. unfold nud_spec. rewrite H. split; reflexivity.
    + apply in_sort_ops in Hin. destruct (table_ok_in ops o Hok Hin) as [Hnf Hb]. rewrite Hfix in Hb.
      subst. split; assumption.
  - intros k bp l H. rewrite new_grammar_eq in H. cbn [g_infix] in H. unfold ng_fixed_infix in H.
    rewrite !get_put in H.
    destruct (list_eqb k K_LBRACKET) eqn:E1; [apply list_eqb_eq in E1; inv H; split; reflexivity|].
    destruct (list_eqb k K_LPAREN) eqn:E2; [apply list_eqb_eq in E2; inv H; split; reflexivity|].
    destruct (list_eqb k K_DOT) eqn:E3; [apply list_eqb_eq in E3; inv H; split; reflexivity|].
    destruct (list_eqb k K_QUESTION) eqn:E4; [apply list_eqb_eq in E4; inv H; split; reflexivity|].
    apply ng_fold_infix in H. destruct H as [H|[o [Hin [Hk [Hbp Hfix]]]]]; [discriminate|].
    apply in_sort_ops in Hin. destruct (table_ok_in ops o Hok Hin) as [Hnf Hb]. subst k bp.
    unfold led_spec. destruct (o_fix o) as [|[[q|q|]|[q|q|]|]]; try discriminate; try destruct q; try discriminate;
      cbn in Hfix; inv Hfix; cbn [led_kind]; (split; [exact Hnf|]); (split; [lia|]); intro; try discriminate; lia.
  - intros n k Hn. rewrite new_grammar_eq. cbn [g_prefix].
    assert (Hin : In k fixed_kinds).
    { destruct n; inv Hn; cbn; tauto. }
    destruct (Huntouched k Hin) as [-> _]. destruct n; inv Hn; reflexivity.
  - intros l k bp Hl. rewrite new_grammar_eq. cbn [g_infix]. unfold ng_fixed_infix. rewrite !get_put.
    assert (Hin : In k fixed_kinds).
    { destruct l; inv Hl; cbn; tauto. }
    destruct (Huntouched k Hin) as [_ ->]. destruct l; inv Hl; reflexivity.
Qed.

(* ---------- stage 4: the accepted tree yields the tokens ---------- *)
Lemma no_eof_cons_inv : forall t r, no_eof (t :: r) = true -> is_eof t = false /\ no_eof r = true.
Proof.
  intros t r H. unfold no_eof in H. cbn [forallb] in H. apply andb_true_iff in H. destruct H as [H1 H2].
  split; [destruct (is_eof t); [discriminate | reflexivity] | exact H2].
Qed.

Lemma no_eof_app_inv : forall a b, no_eof (a ++ b) = true -> no_eof a = true /\ no_eof b = true.
Proof. intros a b H. unfold no_eof in *. rewrite forallb_app in H. apply andb_true_iff in H. exact H. Qed.

Lemma no_eof_tl : forall ts, no_eof ts = true -> no_eof (tl ts) = true.
Proof. intros [|t r] H; [exact H|]. apply no_eof_cons_inv in H. apply H. Qed.

Lemma tpos_noeof : forall t, is_eof t = false -> tpos t = tok_pos t.
Proof. intros t H. unfold tpos. rewrite H. reflexivity. Qed.

Lemma range_ok : forall a b p, range a b = POk p -> p = span a b /\ p_idx a <= p_idx b.
Proof.
  intros a b p H. unfold range in H. destruct (Z.leb (p_idx a) (p_idx b)) eqn:E; inv H.
  split; [reflexivity | apply Z.leb_le; exact E].
Qed.

Lemma must_eat_cons : forall k ts t r,
  must_eat k ts = POk (t, r) -> list_eqb K_EOF k = false -> ts = t :: r /\ t_kind t = k.
Proof.
  intros k ts t r H Hk. apply must_eat_inv in H. destruct H as [-> [-> H]].
  destruct ts as [|t0 r0].
  - unfold kind_is in H. cbn in H. change (list_eqb K_EOF k = true) in H. congruence.
  - cbn [peek tl]. split; [reflexivity|]. cbn [peek] in H. apply list_eqb_eq in H. exact H.
Qed.

Lemma try_eat_cons : forall k ts t r,
  try_eat k ts = Some (t, r) -> list_eqb K_EOF k = false -> ts = t :: r /\ t_kind t = k.
Proof.
  intros k ts t r H Hk. apply try_eat_some in H. destruct H as [-> [-> H]].
  destruct ts as [|t0 r0].
  - unfold kind_is in H. cbn in H. change (list_eqb K_EOF k = true) in H. congruence.
  - cbn [peek tl]. split; [reflexivity|]. cbn [peek] in H. apply list_eqb_eq in H. exact H.
Qed.

Lemma is_kind_intro : forall k t, t_kind t = k -> list_eqb k K_EOF = false -> is_kind k t.
Proof. intros k t H Hk. split; [exact H|]. unfold is_eof. rewrite H. exact Hk. Qed.

Lemma yields_idx_nonneg : forall g e u, yields g e u -> 0 <= p_idx (expr_pos e).
Proof.
  intros g e u H. apply yields_span in H. destruct H as [_ H]. rewrite H. cbn [span p_idx tok_pos]. lia.
Qed.

Lemma sep_by_nil_inv : forall comma all, sep_by comma [] all -> all = [].
Proof. intros comma all H. inversion H. reflexivity. Qed.

Lemma sep_extend : forall {A} (R : A -> list token -> Prop) x u c xs tss tes tc,
  R x u -> is_kind K_COMMA c -> Forall2 R xs tss -> sep_by (is_kind K_COMMA) tss tes -> opt_comma tc ->
  (xs = [] -> tc = []) ->
  exists tss' tes' tc', Forall2 R (x :: xs) tss' /\ sep_by (is_kind K_COMMA) tss' tes' /\ opt_comma tc' /\
                        tes' ++ tc' = u ++ c :: tes ++ tc.
Proof.
  intros A R x u c xs tss tes tc Hx Hc HF Hs Ho Hnil. destruct xs as [|x1 xs].
  - inv HF. apply sep_by_nil_inv in Hs. subst tes. rewrite (Hnil eq_refl).
    exists [u], u, [c]. split; [constructor; [exact Hx | constructor]|].
    split; [constructor|]. split; [right; exists c; split; [exact Hc | reflexivity]|]. reflexivity.
  - exists (u :: tss), (u ++ c :: tes), tc. split; [constructor; assumption|].
    split; [constructor; [exact Hc | inv HF; discriminate | exact Hs]|]. split; [exact Ho|].
    rewrite <- app_assoc. reflexivity.
Qed.

Ltac noeof_split :=
  repeat match goal with
  | H : no_eof (_ ++ _) = true |- _ => apply no_eof_app_inv in H; destruct H
  | H : no_eof (_ :: _) = true |- _ => apply no_eof_cons_inv in H; destruct H
  end.

Ltac lnorm := cbn [app]; repeat (rewrite <- app_assoc; cbn [app]).

Ltac eat_all :=
  repeat match goal with
  | H : must_eat _ ?ts = POk (_, _) |- _ =>
      apply must_eat_cons in H; [|reflexivity]; let Hk := fresh "Hk" in destruct H as [? Hk]; subst ts
  | H : try_eat _ ?ts = Some (_, _) |- _ =>
      apply try_eat_cons in H; [|reflexivity]; let Hk := fresh "Hk" in destruct H as [? Hk]; subst ts
  end.

Ltac range_all :=
  repeat match goal with
  | H : range _ _ = POk ?p |- _ => apply range_ok in H; let Hi := fresh "Hidx" in destruct H as [? Hi]; subst p
  end.

Section Yields.
  Variable g : grammar.
  Hypothesis Hg : gram_ok g.

  Definition pair_rel (kv : expr * expr) (ts : list token) : Prop :=
    exists tk c tv, is_kind K_COLON c /\ yields g (fst kv) tk /\ yields g (snd kv) tv /\ ts = tk ++ c :: tv.
  Definition field_rel (f : list N * expr) (ts : list token) : Prop :=
    exists n c tv, is_kind K_SYM n /\ is_kind K_COLON c /\ fst f = t_lexeme n /\ yields g (snd f) tv /\ ts = n :: c :: tv.

  Definition P_y (j : judg) : Prop :=
    match j with
    | JExpr _ ts e rest => no_eof ts = true -> exists used, ts = used ++ rest /\ yields g e used
    | JNud n bp t ts e rest =>
        get (t_kind t) (g_prefix g) = Some (bp, n) -> is_eof t = false -> no_eof ts = true ->
        exists used, ts = used ++ rest /\ yields g e (t :: used)
    | JLoop _ lft ts e rest =>
        forall ul, yields g lft ul -> no_eof ts = true -> exists used, ts = used ++ rest /\ yields g e (ul ++ used)
    | JLed l bp lft t ts e rest =>
        forall ul, get (t_kind t) (g_infix g) = Some (bp, l) -> is_eof t = false -> yields g lft ul -> no_eof ts = true ->
        exists used, ts = used ++ rest /\ yields g e (ul ++ t :: used)
    | JCall callee lp ts e rest =>
        forall uc, is_kind K_LPAREN lp -> yields g callee uc -> no_eof ts = true ->
        exists used, ts = used ++ rest /\ yields g e (uc ++ lp :: used)
    | JElems _ ts es rest =>
        no_eof ts = true ->
        exists tss tes tc, Forall2 (yields g) es tss /\ sep_by (is_kind K_COMMA) tss tes /\ opt_comma tc /\
                           (es = [] -> tc = []) /\ ts = tes ++ tc ++ rest
    | JPairs ts kvs rest =>
        no_eof ts = true ->
        exists tss tes tc, Forall2 pair_rel kvs tss /\ sep_by (is_kind K_COMMA) tss tes /\ opt_comma tc /\
                           (kvs = [] -> tc = []) /\ ts = tes ++ tc ++ rest
    | JFields ts fs rest =>
        no_eof ts = true ->
        exists tss tes tc, Forall2 field_rel fs tss /\ sep_by (is_kind K_COMMA) tss tes /\ opt_comma tc /\
                           (fs = [] -> tc = []) /\ ts = tes ++ tc ++ rest
    | JArgs ts es rest =>
        no_eof ts = true ->
        exists tss tes, Forall2 (yields g) es tss /\ sep_by (is_kind K_COMMA) tss tes /\ ts = tes ++ rest
    end.

  Ltac nud_kind_of H :=
    let Hk := fresh "Hkind" in
    pose proof (go_prefix g Hg _ _ _ H) as Hk; unfold nud_spec in Hk; cbn [nud_kind] in Hk; destruct Hk as [Hk ?].
  Ltac led_kind_of H :=
    let Hk := fresh "Hkind" in
    pose proof (go_infix g Hg _ _ _ H) as Hk; unfold led_spec in Hk; cbn [led_kind] in Hk; destruct Hk as [Hk ?].
  Ltac ik := apply is_kind_intro; [assumption | reflexivity].

  Lemma peek_prefix_cons : forall ts bp n, get (t_kind (peek ts)) (g_prefix g) = Some (bp, n) -> ts = peek ts :: tl ts.
  Proof.
    intros [|t r] bp n H; [|reflexivity]. change (get K_EOF (g_prefix g) = Some (bp, n)) in H.
    destruct (go_eof g Hg) as [Hp _]. congruence.
  Qed.
  Lemma peek_infix_cons : forall ts bp l, get (t_kind (peek ts)) (g_infix g) = Some (bp, l) -> ts = peek ts :: tl ts.
  Proof.
    intros [|t r] bp l H; [|reflexivity]. change (get K_EOF (g_infix g) = Some (bp, l)) in H.
    destruct (go_eof g Hg) as [_ Hi]. congruence.
  Qed.

  Lemma run_yields : forall j, runr g j -> P_y j.
  Proof.
    intros j H. induction H; cbn [P_y] in *.
    - (* R_expr *) intros Hne. pose proof (peek_prefix_cons _ _ _ H) as Hts.
      destruct ts as [|t0 r0]; [discriminate|]. cbn [peek tl] in *. noeof_split.
      destruct (IHrun1 H ltac:(assumption) ltac:(assumption)) as [u1 [-> Hy1]]. noeof_split.
      destruct (IHrun2 _ Hy1 ltac:(assumption)) as [u2 [-> Hy2]].
      exists (t0 :: u1 ++ u2). split; [lnorm; reflexivity | exact Hy2].
    - (* ident *) intros Hget Ht Hne. nud_kind_of Hget. exists []. split; [reflexivity|].
      rewrite tpos_noeof by assumption. constructor. ik.
    - intros Hget Ht Hne. nud_kind_of Hget. exists []. split; [reflexivity|].
      rewrite tpos_noeof by assumption. constructor. ik.
    - intros Hget Ht Hne. nud_kind_of Hget. exists []. split; [reflexivity|].
      rewrite tpos_noeof by assumption. constructor. ik.
    - intros Hget Ht Hne. nud_kind_of Hget. exists []. split; [reflexivity|].
      rewrite tpos_noeof by assumption. constructor; [ik | assumption].
    - intros Hget Ht Hne. nud_kind_of Hget. exists []. split; [reflexivity|].
      rewrite tpos_noeof by assumption. constructor; [ik | assumption].
    - intros Hget Ht Hne. nud_kind_of Hget. exists []. split; [reflexivity|].
      rewrite tpos_noeof by assumption. constructor. ik.
    - (* prefix *) intros Hget Ht Hne. destruct (IHrun Hne) as [u [-> Hy]]. range_all.
      rewrite !tpos_noeof by assumption. exists u. split; [reflexivity|].
      eapply Y_prefix; [assumption | | exact Hy]. unfold prefix_bp. rewrite Hget. reflexivity.
    - (* group *) intros Hget Ht Hne. nud_kind_of Hget. destruct (IHrun Hne) as [u [-> Hy]]. noeof_split. eat_all.
      noeof_split. range_all. rewrite !tpos_noeof by assumption. exists (u ++ [rp]). split; [lnorm; reflexivity|].
      apply Y_group; [ik | ik | exact Hy].
    - (* obj *) intros Hget Ht Hne. nud_kind_of Hget.
      destruct (IHrun Hne) as [tss [tes [tc [HF [Hs [Ho [Hnil ->]]]]]]]. noeof_split. eat_all. noeof_split. range_all.
      rewrite !tpos_noeof by assumption. exists (tes ++ tc ++ [rb]). split; [lnorm; reflexivity|].
      eapply Y_obj; eauto; ik.
    - (* map empty *) intros Hget Ht Hne. nud_kind_of Hget. eat_all. noeof_split. range_all.
      rewrite !tpos_noeof by assumption. exists [c; rb]. split; [reflexivity|].
      apply Y_map_empty; ik.
    - (* list empty *) intros Hget Ht Hne. nud_kind_of Hget. eat_all. noeof_split. range_all.
      rewrite !tpos_noeof by assumption. exists [rb]. split; [reflexivity|].
      apply (Y_list g t rb [] [] [] []); try ik; try constructor; auto.
    - (* list1 *) intros Hget Ht Hne. nud_kind_of Hget. destruct (IHrun Hne) as [u [-> Hy]]. noeof_split. eat_all.
      noeof_split. range_all. rewrite !tpos_noeof by assumption. exists (u ++ [rb]). split; [lnorm; reflexivity|].
      apply (Y_list g t rb [e] [u] u []); try ik.
      + constructor; [exact Hy | constructor].
      + constructor.
      + left; reflexivity.
      + reflexivity.
    - (* listn *) intros Hget Ht Hne. nud_kind_of Hget. destruct (IHrun1 Hne) as [u [-> Hy]]. noeof_split.
      match goal with H : try_eat K_COMMA _ = Some _ |- _ => apply try_eat_cons in H; [|reflexivity]; destruct H as [-> Hkc] end.
      noeof_split.
      destruct (IHrun2 ltac:(assumption)) as [tss [tes [tc [HF [Hs [Ho [Hnil ->]]]]]]]. noeof_split. eat_all. noeof_split.
      range_all. rewrite !tpos_noeof by assumption.
      destruct (sep_extend (yields g) e u c es tss tes tc Hy ltac:(ik) HF Hs Ho Hnil) as [tss' [tes' [tc' [HF' [Hs' [Ho' Heq]]]]]].
      exists (u ++ c :: tes ++ tc ++ [rb]). split; [lnorm; reflexivity|].
      replace (u ++ c :: tes ++ tc ++ [rb]) with (tes' ++ tc' ++ [rb])
        by (rewrite app_assoc, Heq; lnorm; reflexivity).
      apply (Y_list g t rb (e :: es) tss' tes' tc'); auto; try ik. discriminate.
    - (* map1 *) intros Hget Ht Hne. nud_kind_of Hget. destruct (IHrun1 Hne) as [u1 [-> Hy1]]. noeof_split.
      match goal with H : try_eat K_COLON _ = Some _ |- _ => apply try_eat_cons in H; [|reflexivity]; destruct H as [-> Hkc] end.
      noeof_split. destruct (IHrun2 ltac:(assumption)) as [u2 [-> Hy2]]. noeof_split. eat_all. noeof_split.
      range_all. rewrite !tpos_noeof by assumption.
      exists (u1 ++ c :: u2 ++ [rb]). split; [lnorm; reflexivity|].
      replace (u1 ++ c :: u2 ++ [rb]) with ((u1 ++ c :: u2) ++ [] ++ [rb]) by (lnorm; reflexivity).
      apply (Y_map g t rb [(k, v)] [u1 ++ c :: u2] (u1 ++ c :: u2) []); try ik; try discriminate.
      + constructor; [|constructor]. exists u1, c, u2. repeat split; auto; ik.
      + constructor.
      + left; reflexivity.
    - (* mapn *) intros Hget Ht Hne. nud_kind_of Hget. destruct (IHrun1 Hne) as [u1 [-> Hy1]]. noeof_split.
      match goal with H : try_eat K_COLON _ = Some _ |- _ => apply try_eat_cons in H; [|reflexivity]; destruct H as [-> Hkc] end.
      noeof_split. destruct (IHrun2 ltac:(assumption)) as [u2 [-> Hy2]]. noeof_split.
      match goal with H : try_eat K_COMMA _ = Some _ |- _ => apply try_eat_cons in H; [|reflexivity]; destruct H as [-> Hkc2] end.
      noeof_split.
      destruct (IHrun3 ltac:(assumption)) as [tss [tes [tc [HF [Hs [Ho [Hnil ->]]]]]]]. noeof_split. eat_all. noeof_split.
      range_all. rewrite !tpos_noeof by assumption.
      assert (Hp : pair_rel (k, v) (u1 ++ c :: u2)).
      { exists u1, c, u2. repeat split; auto; ik. }
      destruct (sep_extend pair_rel (k, v) (u1 ++ c :: u2) c2 kvs tss tes tc Hp ltac:(ik) HF Hs Ho Hnil)
        as [tss' [tes' [tc' [HF' [Hs' [Ho' Heq]]]]]].
      exists (u1 ++ c :: u2 ++ c2 :: tes ++ tc ++ [rb]). split; [lnorm; reflexivity|].
      replace (u1 ++ c :: u2 ++ c2 :: tes ++ tc ++ [rb]) with (tes' ++ tc' ++ [rb])
        by (rewrite app_assoc, Heq; lnorm; reflexivity).
      apply (Y_map g t rb ((k, v) :: kvs) tss' tes' tc'); auto; try ik. discriminate.
    - (* E_close *) intros Hne. exists [], [], []. repeat split; auto; try constructor. all: try reflexivity; try (left; reflexivity).
    - (* E_last *) intros Hne. destruct (IHrun Hne) as [u [-> Hy]].
      exists [u], u, []. repeat split; auto; try constructor; auto. all: try reflexivity; try (left; reflexivity).
    - (* E_more *) intros Hne. destruct (IHrun1 Hne) as [u [-> Hy]]. noeof_split.
      match goal with H : try_eat K_COMMA _ = Some _ |- _ => apply try_eat_cons in H; [|reflexivity]; destruct H as [-> Hkc] end.
      noeof_split.
      destruct (IHrun2 ltac:(assumption)) as [tss [tes [tc [HF [Hs [Ho [Hnil ->]]]]]]].
      destruct (sep_extend (yields g) e u c es tss tes tc Hy ltac:(ik) HF Hs Ho Hnil) as [tss' [tes' [tc' [HF' [Hs' [Ho' Heq]]]]]].
      exists tss', tes', tc'. repeat split; auto; try discriminate.
      rewrite (app_assoc tes' tc' rest), Heq. lnorm. reflexivity.
    - (* P_close *) intros Hne. exists [], [], []. repeat split; auto; try constructor. all: try reflexivity; try (left; reflexivity).
    - (* P_last *) intros Hne. destruct (IHrun1 Hne) as [u1 [-> Hy1]]. noeof_split. eat_all. noeof_split.
      destruct (IHrun2 ltac:(assumption)) as [u2 [-> Hy2]].
      exists [u1 ++ c :: u2], (u1 ++ c :: u2), []. repeat split; auto; try constructor; auto.
      + exists u1, c, u2. repeat split; auto; ik.
      + lnorm. reflexivity.
    - (* P_more *) intros Hne. destruct (IHrun1 Hne) as [u1 [-> Hy1]]. noeof_split. eat_all. noeof_split.
      destruct (IHrun2 ltac:(assumption)) as [u2 [-> Hy2]]. noeof_split.
      noeof_split.
      destruct (IHrun3 ltac:(assumption)) as [tss [tes [tc [HF [Hs [Ho [Hnil ->]]]]]]].
      assert (Hp : pair_rel (k, v) (u1 ++ c :: u2)).
      { exists u1, c, u2. repeat split; auto; ik. }
      destruct (sep_extend pair_rel (k, v) (u1 ++ c :: u2) c2 kvs tss tes tc Hp ltac:(ik) HF Hs Ho Hnil)
        as [tss' [tes' [tc' [HF' [Hs' [Ho' Heq]]]]]].
      exists tss', tes', tc'. repeat split; auto; try discriminate.
      rewrite (app_assoc tes' tc' rest), Heq. lnorm. reflexivity.
    - (* F_close *) intros Hne. exists [], [], []. repeat split; auto; try constructor. all: try reflexivity; try (left; reflexivity).
    - (* F_last *) intros Hne. eat_all. noeof_split.
      destruct (IHrun ltac:(assumption)) as [u [-> Hy]].
      exists [nm :: c :: u], (nm :: c :: u), []. repeat split; auto; try constructor; auto.
      + exists nm, c, u. repeat split; auto; ik.
    - (* F_more *) intros Hne. eat_all. noeof_split.
      destruct (IHrun1 ltac:(assumption)) as [u [-> Hy]]. noeof_split.
      noeof_split.
      destruct (IHrun2 ltac:(assumption)) as [tss [tes [tc [HF [Hs [Ho [Hnil ->]]]]]]].
      assert (Hp : field_rel (t_lexeme nm, v) (nm :: c :: u)).
      { exists nm, c, u. repeat split; auto; ik. }
      destruct (sep_extend field_rel (t_lexeme nm, v) (nm :: c :: u) c2 fs tss tes tc Hp ltac:(ik) HF Hs Ho Hnil)
        as [tss' [tes' [tc' [HF' [Hs' [Ho' Heq]]]]]].
      exists tss', tes', tc'. repeat split; auto; try discriminate.
      rewrite (app_assoc tes' tc' rest), Heq. lnorm. reflexivity.
    - (* A_last *) intros Hne. destruct (IHrun Hne) as [u [-> Hy]].
      exists [u], u. repeat split; auto; try constructor; auto.
    - (* A_more *) intros Hne. destruct (IHrun1 Hne) as [u [-> Hy]]. noeof_split.
      match goal with H : try_eat K_COMMA _ = Some _ |- _ => apply try_eat_cons in H; [|reflexivity]; destruct H as [-> Hkc] end.
      noeof_split.
      destruct (IHrun2 ltac:(assumption)) as [tss [tes [HF [Hs ->]]]].
      exists (u :: tss), (u ++ c :: tes). repeat split.
      + constructor; assumption.
      + constructor; [ik | | exact Hs]. inv H1; inv HF; discriminate.
      + lnorm. reflexivity.
    - (* C_empty *) intros uc Hlp Hyc Hne. eat_all. noeof_split. range_all. rewrite !tpos_noeof by assumption.
      exists [rp]. split; [reflexivity|].
      apply (Y_call g callee uc lp rp [] [] []); auto; try ik; constructor.
    - (* C_args *) intros uc Hlp Hyc Hne. destruct (IHrun Hne) as [tss [tes [HF [Hs ->]]]]. noeof_split. eat_all.
      noeof_split. range_all. rewrite !tpos_noeof by assumption.
      exists (tes ++ [rp]). split; [lnorm; reflexivity|].
      eapply Y_call; eauto; ik.
    - (* L_bin *) intros ul Hget Ht Hyl Hne. destruct (IHrun Hne) as [u [-> Hy]]. range_all.
      rewrite !tpos_noeof by assumption. exists u. split; [reflexivity|].
      eapply Y_binary; eauto. destruct l; cbn in H; inv H; auto.
    - (* L_postfix *) intros ul Hget Ht Hyl Hne. range_all. rewrite !tpos_noeof by assumption.
      exists []. split; [reflexivity|]. eapply Y_postfix; eauto.
    - (* L_question *) intros ul Hget Ht Hyl Hne. led_kind_of Hget.
      destruct (IHrun1 Hne) as [u1 [-> Hy1]]. noeof_split. eat_all. noeof_split.
      destruct (IHrun2 ltac:(assumption)) as [u2 [-> Hy2]]. range_all. rewrite !tpos_noeof by assumption.
      exists (u1 ++ c :: u2). split; [lnorm; reflexivity|].
      apply Y_ternary; auto; ik.
    - (* L_call *) intros ul Hget Ht Hyl Hne. led_kind_of Hget. apply IHrun; auto. ik.
    - (* L_sub *) intros ul Hget Ht Hyl Hne. led_kind_of Hget.
      destruct (IHrun Hne) as [u [-> Hy]]. noeof_split. eat_all. noeof_split. range_all.
      rewrite !tpos_noeof by assumption. exists (u ++ [rb]). split; [lnorm; reflexivity|].
      apply Y_sub; auto; ik.
    - (* L_dot *) intros ul Hget Ht Hyl Hne. led_kind_of Hget. range_all.
      destruct ts as [|nm r0].
      { cbn in Hidx. pose proof (yields_idx_nonneg _ _ _ Hyl). lia. }
      cbn [peek tl] in *. noeof_split. rewrite !tpos_noeof by assumption.
      exists [nm]. split; [reflexivity|].
      apply (Y_member g left ul t nm); auto. ik.
    - (* L_dotcall *) intros ul Hget Ht Hyl Hne. led_kind_of Hget. range_all.
      destruct ts as [|nm r0].
      { cbn in Hidx. pose proof (yields_idx_nonneg _ _ _ Hyl). lia. }
      cbn [peek tl] in *. noeof_split. eat_all. noeof_split. rewrite !tpos_noeof in * by assumption.
      assert (Hm : yields g (EMember (span (expr_pos left) (tok_pos nm)) (Z.of_N (t_col t)) left (t_lexeme nm) (tok_pos nm))
                     (ul ++ [t; nm])).
      { apply (Y_member g left ul t nm); auto. ik. }
      destruct (IHrun _ ltac:(ik) Hm ltac:(assumption)) as [u [-> Hy]].
      exists (nm :: lp :: u). split; [reflexivity|].
      replace (ul ++ t :: nm :: lp :: u) with ((ul ++ [t; nm]) ++ lp :: u) by (lnorm; reflexivity). exact Hy.
    - (* Lp_stop *) intros ul Hyl Hne. exists []. split; [reflexivity|]. rewrite app_nil_r. exact Hyl.
    - (* Lp_step *) intros ul Hyl Hne. pose proof (peek_infix_cons _ _ _ H0) as Hts.
      destruct ts as [|t0 r0]; [discriminate|]. cbn [peek tl] in *. noeof_split.
      destruct (IHrun1 _ H0 ltac:(assumption) Hyl ltac:(assumption)) as [u1 [-> Hy1]]. noeof_split.
      destruct (IHrun2 _ Hy1 ltac:(assumption)) as [u2 [-> Hy2]].
      exists (t0 :: u1 ++ u2). split; [lnorm; reflexivity|].
      replace (ul ++ t0 :: u1 ++ u2) with ((ul ++ t0 :: u1) ++ u2) by (lnorm; reflexivity). exact Hy2.
  Qed.
End Yields.

Lemma parse_yields : forall ops ts e,
  table_ok ops = true -> no_eof ts = true ->
  parse_tokens ops ts = POk e -> yields (new_grammar ops) e ts.
Proof.
  intros ops ts e Hok Hne H. unfold parse_tokens in H. bind_inv H. destruct x as [e1 rest].
  destruct rest; inv H. apply p_expr_run in Hx.
  apply (run_yields _ (table_ok_gram_ok ops Hok)) in Hx. cbn [P_y] in Hx.
  destruct (Hx Hne) as [u [-> Hy]]. rewrite app_nil_r. exact Hy.
Qed.

(* ---------- remaining input is a suffix ---------- *)
Definition j_ts (j : judg) : list token :=
  match j with
  | JExpr _ ts _ _ | JNud _ _ _ ts _ _ | JLoop _ _ ts _ _ | JLed _ _ _ _ ts _ _ | JCall _ _ ts _ _
  | JElems _ ts _ _ | JPairs ts _ _ | JFields ts _ _ | JArgs ts _ _ => ts
  end.
Definition j_rest (j : judg) : list token :=
  match j with
  | JExpr _ _ _ r | JNud _ _ _ _ _ r | JLoop _ _ _ _ r | JLed _ _ _ _ _ _ r | JCall _ _ _ _ r
  | JElems _ _ _ r | JPairs _ _ r | JFields _ _ r | JArgs _ _ r => r
  end.

Definition sfx (r ts : list token) : Prop := exists u, ts = u ++ r.
Lemma sfx_refl : forall ts, sfx ts ts.
Proof. intro ts. exists []. reflexivity. Qed.
Lemma sfx_trans : forall a b c, sfx a b -> sfx b c -> sfx a c.
Proof. intros a b c [u ->] [v ->]. exists (v ++ u). rewrite app_assoc. reflexivity. Qed.
Lemma sfx_tl : forall ts, sfx (tl ts) ts.
Proof. intros [|t r]; [exists []; reflexivity | exists [t]; reflexivity]. Qed.
Lemma sfx_must_eat : forall k ts t r, must_eat k ts = POk (t, r) -> sfx r ts.
Proof. intros k ts t r H. apply must_eat_inv in H. destruct H as [_ [-> _]]. apply sfx_tl. Qed.
Lemma sfx_try_eat : forall k ts t r, try_eat k ts = Some (t, r) -> sfx r ts.
Proof. intros k ts t r H. apply try_eat_some in H. destruct H as [_ [-> _]]. apply sfx_tl. Qed.

Ltac sfx_facts :=
  repeat match goal with
  | H : must_eat _ _ = POk (_, _) |- _ => apply sfx_must_eat in H
  | H : try_eat _ _ = Some (_, _) |- _ => apply sfx_try_eat in H
  end.
Ltac sfx_solve :=
  repeat first [ apply sfx_refl | assumption | (eapply sfx_trans; [|eassumption]) | (eapply sfx_trans; [|apply sfx_tl]) ].

Lemma run_suffix : forall g j, runr g j -> sfx (j_rest j) (j_ts j).
Proof.
  intros g j H. induction H; cbn [j_ts j_rest] in *; sfx_facts; sfx_solve.
Qed.

(* ---------- stage 5: the accepted tree is well-formed for the declared powers ---------- *)
Definition olx (t : token) : Prop := existsb (list_eqb (t_kind t)) fixed_kinds = true \/ t_lexeme t = t_kind t.
Definition toks_ok (ts : list token) : Prop := Forall olx ts.

Lemma toks_sfx : forall r ts, sfx r ts -> toks_ok ts -> toks_ok r.
Proof. intros r ts [u ->] H. unfold toks_ok in *. apply Forall_app in H. apply H. Qed.

Lemma olx_notfixed : forall t, olx t -> notfixed (t_kind t) -> t_lexeme t = t_kind t.
Proof. intros t [H|H] Hn; [unfold notfixed in Hn; congruence | exact H]. Qed.

Ltac sfx_pre :=
  repeat match goal with H : run _ _ _ |- _ => apply run_suffix in H; cbn [j_ts j_rest] in H end; sfx_facts.
Ltac toks := (eapply toks_sfx; [|eassumption]); sfx_solve.

Section Sound.
  Variable g : grammar.
  Hypothesis Hg : gram_ok g.

  Definition lbpk (ts : list token) : Z := infix_lbp g (peek ts).
  Definition closed_after (e : expr) (rest : list token) : Prop :=
    le_inf (lbpk rest) (rom g e) = true /\ (ends_with_member e = true -> kind_is (peek rest) K_LPAREN = false).

  Definition P_w (j : judg) : Prop :=
    match j with
    | JExpr rbp ts e rest => toks_ok ts -> wfp g rbp e = true /\ lbpk rest <= rbp /\ closed_after e rest
    | JNud n bp t ts e rest =>
        get (t_kind t) (g_prefix g) = Some (bp, n) -> olx t -> toks_ok ts ->
        (forall rbp, wfp g rbp e = true) /\ closed_after e rest
    | JLoop rbp lft ts e rest =>
        toks_ok ts -> wfp g rbp lft = true -> closed_after lft ts ->
        wfp g rbp e = true /\ lbpk rest <= rbp /\ closed_after e rest
    | JLed l bp lft t ts e rest =>
        get (t_kind t) (g_infix g) = Some (bp, l) -> olx t -> toks_ok ts ->
        forall rbp, rbp < bp -> wfp g rbp lft = true -> le_inf bp (rom g lft) = true ->
        (ends_with_member lft = true -> kind_is t K_LPAREN = false) -> infix_n_ok e = true ->
        wfp g rbp e = true /\ closed_after e rest
    | JCall callee lp ts e rest =>
        toks_ok ts -> exists p col args, e = ECall p col callee args /\ forallb (wfp g 0) args = true
    | JElems _ ts es rest => toks_ok ts -> forallb (wfp g 0) es = true
    | JPairs ts kvs rest => toks_ok ts -> forallb (fun kv => wfp g 0 (fst kv) && wfp g 0 (snd kv)) kvs = true
    | JFields ts fs rest => toks_ok ts -> forallb (fun f => wfp g 0 (snd f)) fs = true
    | JArgs ts es rest => toks_ok ts -> forallb (wfp g 0) es = true
    end.

  Lemma closed_atom : forall e rest, rom g e = None -> ends_with_member e = false -> closed_after e rest.
  Proof. intros e rest H1 H2. split; [rewrite H1; reflexivity | rewrite H2; discriminate]. Qed.

  Lemma le_inf_zmin : forall a b o, a <= b -> le_inf a o = true -> le_inf a (zmin b o) = true.
  Proof. intros a b [c|] H1 H2; cbn in *; apply Z.leb_le; [apply Z.leb_le in H2|]; lia. Qed.

  Lemma toks_peek : forall ts, toks_ok ts -> ts = peek ts :: tl ts -> olx (peek ts).
  Proof. intros ts H E. rewrite E in H. inv H. assumption. Qed.

  Ltac nud_kind_of H :=
    let Hk := fresh "Hkind" in
    pose proof (go_prefix g Hg _ _ _ H) as Hk; unfold nud_spec in Hk; cbn [nud_kind] in Hk; destruct Hk as [Hk ?].
  Ltac led_kind_of H :=
    let Hk := fresh "Hkind" in
    pose proof (go_infix g Hg _ _ _ H) as Hk; unfold led_spec in Hk; cbn [led_kind] in Hk; destruct Hk as [Hk ?].

  Lemma run_wfp : forall j, runr g j -> P_w j.
  Proof.
    intros j H. induction H; cbn [P_w] in *.
    - (* R_expr *) intros Htk. pose proof (peek_prefix_cons g Hg _ _ _ H) as Hts.
      pose proof (toks_peek _ Htk Hts) as Hpk.
      assert (Htk1 : toks_ok (tl ts)) by (sfx_pre; toks).
      assert (Htk2 : toks_ok ts2) by (sfx_pre; toks).
      destruct (IHrun1 H Hpk Htk1) as [Hw Hc]. apply IHrun2; auto.
    - intros _ _ _. split; [reflexivity | apply closed_atom; reflexivity].
    - intros _ _ _. split; [reflexivity | apply closed_atom; reflexivity].
    - intros _ _ _. split; [reflexivity | apply closed_atom; reflexivity].
    - intros _ _ _. split; [reflexivity | apply closed_atom; reflexivity].
    - intros _ _ _. split; [reflexivity | apply closed_atom; reflexivity].
    - intros _ _ _. split; [reflexivity | apply closed_atom; reflexivity].
    - (* prefix *) intros Hget Hlx Htk. nud_kind_of Hget. destruct (IHrun Htk) as [Hw [Hstop [Hrom Hewm]]].
      assert (Hpb : prefix_bp g (t_lexeme t) = Some bp).
      { rewrite (olx_notfixed t Hlx Hkind). unfold prefix_bp. rewrite Hget. reflexivity. }
      split.
      + intro rbp. cbn [wfp]. rewrite Hpb. exact Hw.
      + split; cbn [rom ends_with_member]; [|exact Hewm]. rewrite Hpb. apply le_inf_zmin; assumption.
    - (* group *) intros _ _ Htk. destruct (IHrun Htk) as [Hw _].
      split; [intro; exact Hw | apply closed_atom; reflexivity].
    - (* obj *) intros _ _ Htk. split; [intro; apply IHrun; exact Htk | apply closed_atom; reflexivity].
    - split; [reflexivity | apply closed_atom; reflexivity].
    - split; [reflexivity | apply closed_atom; reflexivity].
    - (* list1 *) intros _ _ Htk. destruct (IHrun Htk) as [Hw _].
      split; [intro; cbn [wfp forallb]; rewrite Hw; reflexivity | apply closed_atom; reflexivity].
    - (* listn *) intros _ _ Htk. destruct (IHrun1 Htk) as [Hw _].
      assert (Htk2 : toks_ok ts2) by (sfx_pre; toks).
      split; [intro; cbn [wfp forallb]; rewrite Hw, (IHrun2 Htk2); reflexivity | apply closed_atom; reflexivity].
    - (* map1 *) intros _ _ Htk. destruct (IHrun1 Htk) as [Hw1 _].
      assert (Htk2 : toks_ok ts2) by (sfx_pre; toks). destruct (IHrun2 Htk2) as [Hw2 _].
      split; [intro; cbn [wfp forallb fst snd]; rewrite Hw1, Hw2; reflexivity | apply closed_atom; reflexivity].
    - (* mapn *) intros _ _ Htk. destruct (IHrun1 Htk) as [Hw1 _].
      assert (Htk2 : toks_ok ts2) by (sfx_pre; toks). destruct (IHrun2 Htk2) as [Hw2 _].
      assert (Htk4 : toks_ok ts4) by (sfx_pre; toks).
      split; [intro; cbn [wfp forallb fst snd]; rewrite Hw1, Hw2, (IHrun3 Htk4); reflexivity | apply closed_atom; reflexivity].
    - (* E_close *) reflexivity.
    - intros Htk. destruct (IHrun Htk) as [Hw _]. cbn [forallb]. rewrite Hw. reflexivity.
    - intros Htk. destruct (IHrun1 Htk) as [Hw _]. assert (Htk2 : toks_ok ts2) by (sfx_pre; toks).
      cbn [forallb]. rewrite Hw, (IHrun2 Htk2). reflexivity.
    - (* P_close *) reflexivity.
    - intros Htk. destruct (IHrun1 Htk) as [Hw1 _]. assert (Htk2 : toks_ok ts2) by (sfx_pre; toks).
      destruct (IHrun2 Htk2) as [Hw2 _]. cbn [forallb fst snd]. rewrite Hw1, Hw2. reflexivity.
    - intros Htk. destruct (IHrun1 Htk) as [Hw1 _]. assert (Htk2 : toks_ok ts2) by (sfx_pre; toks).
      destruct (IHrun2 Htk2) as [Hw2 _]. assert (Htk4 : toks_ok ts4) by (sfx_pre; toks).
      cbn [forallb fst snd]. rewrite Hw1, Hw2, (IHrun3 Htk4). reflexivity.
    - (* F_close *) reflexivity.
    - intros Htk. assert (Htk2 : toks_ok ts2) by (sfx_pre; toks).
      destruct (IHrun Htk2) as [Hw _]. cbn [forallb fst snd]. rewrite Hw. reflexivity.
    - intros Htk. assert (Htk2 : toks_ok ts2) by (sfx_pre; toks).
      destruct (IHrun1 Htk2) as [Hw _]. assert (Htk4 : toks_ok ts4) by (sfx_pre; toks).
      cbn [forallb fst snd]. rewrite Hw, (IHrun2 Htk4). reflexivity.
    - (* A_last *) intros Htk. destruct (IHrun Htk) as [Hw _]. cbn [forallb]. rewrite Hw. reflexivity.
    - intros Htk. destruct (IHrun1 Htk) as [Hw _]. assert (Htk2 : toks_ok ts2) by (sfx_pre; toks).
      cbn [forallb]. rewrite Hw, (IHrun2 Htk2). reflexivity.
    - (* C_empty *) intros _. do 3 eexists. split; reflexivity.
    - (* C_args *) intros Htk. do 3 eexists. split; [reflexivity | apply IHrun; exact Htk].
    - (* L_bin *) intros Hget Hlx Htk rbp Hlt Hwl Hrl Hml Hok. destruct (IHrun Htk) as [Hw [Hstop [Hrom Hewm]]].
      assert (Hnf : notfixed (t_kind t) /\ (l = LBinL \/ l = LBinR \/ l = LBinN)).
      { pose proof (go_infix g Hg _ _ _ Hget) as Hk. unfold led_spec in Hk.
        destruct l; cbn in H; inv H; cbn [led_kind] in Hk; destruct Hk; auto. }
      destruct Hnf as [Hnf Hl].
      assert (Hie : infix_entry g (t_lexeme t) = Some (bp, l)).
      { rewrite (olx_notfixed t Hlx Hnf). exact Hget. }
      apply Z.ltb_lt in Hlt.
      split.
      + cbn [wfp]. rewrite Hie.
        destruct Hl as [-> | [-> | ->]]; cbn in H; inv H; cbn [N.eqb Pos.eqb andb]; rewrite Hlt, Hwl, Hrl, Hw; cbn [andb];
          try reflexivity.
        cbn [infix_n_ok] in Hok. unfold same_binary. exact Hok.
      + split; cbn [rom ends_with_member]; [|exact Hewm]. rewrite Hie. apply le_inf_zmin; [|exact Hrom].
        destruct Hl as [-> | [-> | ->]]; cbn in H; inv H; cbn [rbp_of]; exact Hstop.
    - (* L_postfix *) intros Hget Hlx Htk rbp Hlt Hwl Hrl Hml Hok. led_kind_of Hget.
      assert (Hie : infix_entry g (t_lexeme t) = Some (bp, LPostfix)).
      { rewrite (olx_notfixed t Hlx Hkind). exact Hget. }
      apply Z.ltb_lt in Hlt. split; [|apply closed_atom; reflexivity].
      cbn [wfp]. rewrite Hie, Hlt, Hwl, Hrl. reflexivity.
    - (* L_question *) intros Hget Hlx Htk rbp Hlt Hwl Hrl Hml Hok. led_kind_of Hget. subst bp.
      destruct (IHrun1 Htk) as [Hw1 _]. assert (Htk2 : toks_ok ts2) by (sfx_pre; toks).
      destruct (IHrun2 Htk2) as [Hw2 [Hstop [Hrom Hewm]]]. apply Z.ltb_lt in Hlt.
      split.
      + cbn [wfp]. rewrite Hlt, Hwl, Hrl, Hw1, Hw2. reflexivity.
      + split; cbn [rom ends_with_member]; [|exact Hewm]. apply le_inf_zmin; assumption.
    - (* L_call *) intros Hget Hlx Htk rbp Hlt Hwl Hrl Hml Hok. led_kind_of Hget. subst bp.
      destruct (IHrun Htk) as [p [col [args [-> Hargs]]]]. apply Z.ltb_lt in Hlt.
      split; [|apply closed_atom; reflexivity].
      assert (Hnm : ends_with_member left = false).
      { destruct (ends_with_member left); [|reflexivity]. specialize (Hml eq_refl). unfold kind_is in Hml.
        rewrite Hkind in Hml. discriminate. }
      cbn [wfp]. rewrite Hlt, Hwl, Hrl, Hnm, Hargs. destruct left; reflexivity.
    - (* L_sub *) intros Hget Hlx Htk rbp Hlt Hwl Hrl Hml Hok. led_kind_of Hget. subst bp.
      destruct (IHrun Htk) as [Hw _]. apply Z.ltb_lt in Hlt.
      split; [|apply closed_atom; reflexivity]. cbn [wfp]. rewrite Hlt, Hwl, Hrl, Hw. reflexivity.
    - (* L_dot *) intros Hget Hlx Htk rbp Hlt Hwl Hrl Hml Hok. led_kind_of Hget. subst bp. apply Z.ltb_lt in Hlt.
      split.
      + cbn [wfp]. rewrite Hlt, Hwl, Hrl. reflexivity.
      + split; [reflexivity|]. intros _. apply try_eat_none. assumption.
    - (* L_dotcall *) intros Hget Hlx Htk rbp Hlt Hwl Hrl Hml Hok. led_kind_of Hget. subst bp. apply Z.ltb_lt in Hlt.
      assert (Htk2 : toks_ok ts2) by (sfx_pre; toks).
      destruct (IHrun Htk2) as [p' [col [args [-> Hargs]]]].
      split; [|apply closed_atom; reflexivity].
      cbn [wfp]. rewrite Hlt, Hwl, Hrl, Hargs. reflexivity.
    - (* Lp_stop *) intros Htk Hw Hc. split; [exact Hw|]. split; [|exact Hc].
      apply Z.ltb_ge in H. exact H.
    - (* Lp_step *) intros Htk Hw [Hrom Hewm]. pose proof (peek_infix_cons g Hg _ _ _ H0) as Hts.
      pose proof (toks_peek _ Htk Hts) as Hpk.
      assert (Hlb : lbpk ts = bp). { unfold lbpk, infix_lbp. rewrite H0. reflexivity. }
      fold (lbpk ts) in H. rewrite Hlb in *. apply Z.ltb_lt in H.
      assert (Htk1 : toks_ok (tl ts)) by (sfx_pre; toks).
      assert (Htk2 : toks_ok ts2) by (sfx_pre; toks).
      destruct (IHrun1 H0 Hpk Htk1 rbp H Hw Hrom Hewm H2) as [Hw' Hc'].
      apply IHrun2; assumption.
  Qed.
End Sound.

Lemma parse_wfp : forall ops ts e,
  table_ok ops = true -> no_eof ts = true ->
  Forall (fun t => existsb (list_eqb (t_kind t)) fixed_kinds = true \/ t_lexeme t = t_kind t) ts ->
  parse_tokens ops ts = POk e -> wfp (new_grammar ops) 0 e = true.
Proof.
  intros ops ts e Hok _ Hlx H. unfold parse_tokens in H. bind_inv H. destruct x as [e1 rest].
  destruct rest; inv H. apply p_expr_run in Hx.
  apply (run_wfp _ (table_ok_gram_ok ops Hok)) in Hx. cbn [P_w] in Hx. apply Hx. exact Hlx.
Qed.

(* ---------- stage 6: completeness ---------- *)
Ltac bsplit :=
  repeat match goal with H : _ && _ = true |- _ => apply andb_true_iff in H; destruct H end.
Ltac solve_in := cbn [In]; repeat rewrite in_app_iff; cbn [In]; tauto.

Lemma must_eat_cons_ok : forall k t r, t_kind t = k -> must_eat k (t :: r) = POk (t, r).
Proof. intros k t r H. unfold must_eat, kind_is. cbn [eat]. rewrite H, list_eqb_refl. reflexivity. Qed.
Lemma try_eat_cons_ok : forall k t r, t_kind t = k -> try_eat k (t :: r) = Some (t, r).
Proof. intros k t r H. unfold try_eat, kind_is. cbn [peek eat]. rewrite H, list_eqb_refl. reflexivity. Qed.
Lemma try_eat_cons_none : forall k t r, list_eqb (t_kind t) k = false -> try_eat k (t :: r) = None.
Proof. intros k t r H. unfold try_eat, kind_is. cbn [peek]. rewrite H. reflexivity. Qed.

Lemma le_inf_zmin_inv : forall a b o, le_inf a (zmin b o) = true -> a <= b /\ le_inf a o = true.
Proof.
  intros a b [c|] H; cbn in *; apply Z.leb_le in H; split; try reflexivity; try apply Z.leb_le; lia.
Qed.

Section Complete.
  Variable g : grammar.
  Hypothesis Hg : gram_ok g.
  Variable rng : pos -> pos -> pres pos.
  Variable ordr : Z -> Z -> Prop.
  Hypothesis Hrng : forall a b, ordr (p_idx a) (p_idx b) -> rng a b = POk (span a b).

  Definition tR (a b : token) : Prop := ordr (Z.of_N (t_idx a)) (Z.of_N (t_idx b)).
  Fixpoint tsorted (ts : list token) : Prop :=
    match ts with [] => True | t :: r => Forall (tR t) r /\ tsorted r end.
  Definition tk (ts : list token) : Prop := toks_ok ts /\ tsorted ts.

  Lemma tsorted_app_inv : forall a b, tsorted (a ++ b) ->
    tsorted a /\ tsorted b /\ (forall x y, In x a -> In y b -> tR x y).
  Proof.
    induction a as [|t a IH]; intros b H; cbn [app tsorted] in *.
    - repeat split; auto. intros x y [].
    - destruct H as [HF H]. apply IH in H. destruct H as [H1 [H2 H3]]. apply Forall_app in HF. destruct HF as [HF1 HF2].
      repeat split; auto. intros x y [->|Hx] Hy; [|auto]. rewrite Forall_forall in HF2. auto.
  Qed.

  Lemma tk_app : forall a b, tk (a ++ b) -> tk a /\ tk b /\ (forall x y, In x a -> In y b -> tR x y).
  Proof.
    intros a b [H1 H2]. apply Forall_app in H1. destruct H1. apply tsorted_app_inv in H2. destruct H2 as [? [? ?]].
    repeat split; auto.
  Qed.

  Lemma tk_cons : forall t r, tk (t :: r) -> olx t /\ tk r /\ (forall y, In y r -> tR t y).
  Proof.
    intros t r [H1 [H2 H3]]. inv H1. repeat split; auto. rewrite Forall_forall in H2. exact H2.
  Qed.

  Lemma rng_gen : forall a b ta tb,
    p_idx a = Z.of_N (t_idx ta) -> p_idx b = Z.of_N (t_idx tb) -> tR ta tb -> rng a b = POk (span a b).
  Proof. intros a b ta tb Ha Hb H. apply Hrng. rewrite Ha, Hb. exact H. Qed.

  Lemma get_fixed_nud : forall t n k, nud_kind n = Some k -> t_kind t = k -> get (t_kind t) (g_prefix g) = Some (0, n).
  Proof. intros t n k Hn Hk. rewrite Hk. apply (go_fixed_prefix g Hg); exact Hn. Qed.

  Definition nudkinds : list (list N) := [K_SYM; K_TRUE; K_FALSE; K_NUM; K_STR; K_TIME; K_LBRACKET; K_LBRACE; K_LPAREN].
  Lemma is_kind_nud : forall k t, is_kind k t -> In k nudkinds ->
    exists bp n, get (t_kind t) (g_prefix g) = Some (bp, n) /\ is_eof t = false.
  Proof.
    intros k t [Hk He] Hin. exists 0. cbn in Hin.
    destruct Hin as [<-|[<-|[<-|[<-|[<-|[<-|[<-|[<-|[<-|[]]]]]]]]]].
    - exists NIdent. split; [eapply get_fixed_nud; [reflexivity | exact Hk] | exact He].
    - exists NTrue. split; [eapply get_fixed_nud; [reflexivity | exact Hk] | exact He].
    - exists NFalse. split; [eapply get_fixed_nud; [reflexivity | exact Hk] | exact He].
    - exists NNum. split; [eapply get_fixed_nud; [reflexivity | exact Hk] | exact He].
    - exists NStr. split; [eapply get_fixed_nud; [reflexivity | exact Hk] | exact He].
    - exists NTime. split; [eapply get_fixed_nud; [reflexivity | exact Hk] | exact He].
    - exists NListMap. split; [eapply get_fixed_nud; [reflexivity | exact Hk] | exact He].
    - exists NObj. split; [eapply get_fixed_nud; [reflexivity | exact Hk] | exact He].
    - exists NGroup. split; [eapply get_fixed_nud; [reflexivity | exact Hk] | exact He].
  Qed.

  (* the first token of an expression has a nud, and carries the expression's start index *)
  Lemma yields_hd : forall e u, yields g e u ->
    exists h r bp n, u = h :: r /\ get (t_kind h) (g_prefix g) = Some (bp, n) /\ is_eof h = false /\
                     p_idx (expr_pos e) = Z.of_N (t_idx h).
  Proof.
    intros e u H.
    induction H;
      repeat match goal with IH : exists _ _ _ _, _ |- _ => destruct IH as [? [? [? [? [? [? [? ?]]]]]]] end; subst.
    all: try (match goal with Hk : is_kind ?k ?t |- exists h r bp n, ?t :: _ = _ /\ _ =>
                destruct (is_kind_nud k t Hk) as [bp' [n' [Hget' Heof']]]; [cbn; tauto|];
                exists t; do 3 eexists; split; [reflexivity|]; split; [exact Hget'|]; split; [exact Heof' | reflexivity] end).
    all: try (do 4 eexists; split; [cbn [app]; reflexivity|]; split; [eassumption|]; split; [assumption|cbn; assumption]).
    - (* prefix *) unfold prefix_bp in H0. destruct (get (t_kind op) (g_prefix g)) as [[bp' n']|] eqn:E; [|discriminate].
      do 4 eexists. split; [reflexivity|]. split; [exact E|]. split; [assumption | reflexivity].
  Qed.

  Definition closers : list (list N) := [K_RBRACKET; K_RBRACE; K_RPAREN; K_COLON; K_COMMA].

  Lemma nud_not_closer : forall h bp n K, get (t_kind h) (g_prefix g) = Some (bp, n) -> In K closers ->
    list_eqb (t_kind h) K = false.
  Proof.
    intros h bp n K H HK. pose proof (go_prefix g Hg _ _ _ H) as Hs. unfold nud_spec in Hs.
    destruct n; cbn [nud_kind] in Hs; destruct Hs as [Hs _];
      try (rewrite Hs; cbn in HK; repeat (destruct HK as [<-|HK]; [reflexivity|]); destruct HK).
    rewrite list_eqb_sym. apply notfixed_neq; [exact Hs|].
    cbn in HK. cbn. tauto.
  Qed.

  Lemma closer_no_infix : forall K, In K closers -> get K (g_infix g) = None.
  Proof.
    intros K HK. destruct (get K (g_infix g)) as [[bp l]|] eqn:E; [|reflexivity].
    pose proof (go_infix g Hg _ _ _ E) as Hs. unfold led_spec in Hs.
    destruct l; cbn [led_kind] in Hs; destruct Hs as [Hs _];
      try (cbn in HK; repeat (destruct HK as [<-|HK]; [discriminate|]); destruct HK).
    all: unfold notfixed in Hs; cbn in HK; repeat (destruct HK as [<-|HK]; [discriminate|]); destruct HK.
  Qed.

  Lemma lbpk_closer : forall t rest, In (t_kind t) closers -> lbpk g (t :: rest) = 0.
  Proof. intros t rest H. unfold lbpk, infix_lbp. cbn [peek]. rewrite (closer_no_infix _ H). reflexivity. Qed.

  Lemma lbpk_nil : lbpk g [] = 0.
  Proof. unfold lbpk, infix_lbp. cbn [peek]. change (t_kind eof_tok) with K_EOF.
    destruct (go_eof g Hg) as [_ Hi]. rewrite Hi. reflexivity. Qed.

  Lemma rom_nonneg : forall e, le_inf 0 (rom g e) = true.
  Proof.
    induction e; cbn [rom]; try reflexivity.
    - destruct prefix; [|reflexivity]. unfold prefix_bp.
      destruct (get name (g_prefix g)) as [[bp n]|] eqn:E; [|reflexivity].
      destruct n; try reflexivity. apply le_inf_zmin; [|exact IHe].
      pose proof (go_prefix g Hg _ _ _ E) as Hs. unfold nud_spec in Hs. cbn in Hs. apply Hs.
    - unfold infix_entry. destruct (get name (g_infix g)) as [[bp ld]|] eqn:E; [|reflexivity].
      apply le_inf_zmin; [|exact IHe2].
      pose proof (go_infix g Hg _ _ _ E) as Hs. unfold led_spec in Hs.
      destruct ld; cbn [led_kind rbp_of] in *; try (destruct Hs as [_ ->]; cbv; discriminate);
        destruct Hs as [_ [Hs1 Hs2]]; try lia. specialize (Hs2 eq_refl). lia.
    - apply le_inf_zmin; [cbv; discriminate | exact IHe3].
  Qed.

  Lemma closed_closer : forall e t rest, In (t_kind t) closers -> closed_after g e (t :: rest).
  Proof.
    intros e t rest H. split.
    - rewrite (lbpk_closer _ _ H). apply rom_nonneg.
    - intros _. unfold kind_is. cbn [peek]. cbn in H.
      repeat (destruct H as [<-|H]; [reflexivity|]). destruct H.
  Qed.

  Lemma closed_nil : forall e, closed_after g e [].
  Proof. intro e. split; [rewrite lbpk_nil; apply rom_nonneg | intros _; reflexivity]. Qed.

  Lemma R_expr_cons : forall rbp t ts1 bp n lft ts2 e rest,
    get (t_kind t) (g_prefix g) = Some (bp, n) -> run g rng (JNud n bp t ts1 lft ts2) ->
    run g rng (JLoop rbp lft ts2 e rest) -> run g rng (JExpr rbp (t :: ts1) e rest).
  Proof. intros. eapply (R_expr g rng rbp (t :: ts1)); eauto. Qed.

  Lemma Lp_step_cons : forall rbp lft t ts1 bp l left' ts2 e rest,
    rbp < bp -> get (t_kind t) (g_infix g) = Some (bp, l) ->
    run g rng (JLed l bp lft t ts1 left' ts2) -> infix_n_ok left' = true ->
    run g rng (JLoop rbp left' ts2 e rest) -> run g rng (JLoop rbp lft (t :: ts1) e rest).
  Proof.
    intros rbp lft t ts1 bp l left' ts2 e rest Hlt Hget Hled Hok Hloop.
    eapply (Lp_step g rng rbp lft (t :: ts1)); eauto.
    unfold infix_lbp. cbn [peek]. rewrite Hget. apply Z.ltb_lt. exact Hlt.
  Qed.

  Lemma Lp_stop_le : forall rbp e ts, lbpk g ts <= rbp -> run g rng (JLoop rbp e ts e ts).
  Proof. intros rbp e ts H. apply Lp_stop. apply Z.ltb_ge. exact H. Qed.

  Definition C (e : expr) : Prop :=
    forall rbp used rest e' rest',
      yields g e used -> wfp g rbp e = true -> tk used -> closed_after g e rest ->
      run g rng (JLoop rbp e rest e' rest') -> run g rng (JExpr rbp (used ++ rest) e' rest').

  Lemma C_stop : forall e r used rest,
    C e -> yields g e used -> wfp g r e = true -> tk used -> closed_after g e rest -> lbpk g rest <= r ->
    run g rng (JExpr r (used ++ rest) e rest).
  Proof. intros e r used rest HC Hy Hw Htk Hcl Hle. apply HC; auto. apply Lp_stop_le. exact Hle. Qed.

  Lemma idx_tpos : forall t, is_eof t = false -> p_idx (tpos t) = Z.of_N (t_idx t).
  Proof. intros t H. rewrite tpos_noeof by exact H. reflexivity. Qed.

  Lemma kind_is_hd_false : forall e u rest K, yields g e u -> In K closers -> kind_is (peek (u ++ rest)) K = false.
  Proof.
    intros e u rest K Hy HK. destruct (yields_hd _ _ Hy) as [h [r [bp [n [-> [Hget _]]]]]].
    cbn [app peek]. unfold kind_is. eapply nud_not_closer; eauto.
  Qed.

  Lemma try_eat_hd_none : forall e u rest K, yields g e u -> In K closers -> try_eat K (u ++ rest) = None.
  Proof.
    intros e u rest K Hy HK. unfold try_eat. rewrite (kind_is_hd_false e u rest K Hy HK). reflexivity.
  Qed.

  (* a sub-expression at level 0 followed by a closing token *)
  Lemma C_stop_closer : forall e used t rest,
    C e -> yields g e used -> wfp g 0 e = true -> tk used -> In (t_kind t) closers ->
    run g rng (JExpr 0 (used ++ t :: rest) e (t :: rest)).
  Proof.
    intros e used t rest HC Hy Hw Htk Hin. apply C_stop; auto.
    - apply closed_closer; exact Hin.
    - rewrite (lbpk_closer _ _ Hin). lia.
  Qed.

  Lemma elems_complete : forall tss tes, sep_by (is_kind K_COMMA) tss tes ->
    forall es tc rb rest,
      Forall C es -> Forall2 (yields g) es tss -> opt_comma tc -> (es = [] -> tc = []) ->
      forallb (wfp g 0) es = true -> tk tes -> t_kind rb = K_RBRACKET ->
      run g rng (JElems K_RBRACKET (tes ++ tc ++ rb :: rest) es (rb :: rest)).
  Proof.
    induction 1 as [|u|u c tss0 all Hc Hne Hsep IH]; intros es tc rb rest HC HF Ho Hnil Hw Htk Hrb.
    - inv HF. rewrite (Hnil eq_refl). cbn [app]. apply E_close. unfold kind_is. cbn [peek]. rewrite Hrb. reflexivity.
    - inv HF. match goal with H : Forall2 _ _ [] |- _ => inv H end. inv HC. cbn [forallb] in Hw. bsplit.
      destruct Ho as [->|[c [[Hck Hce] ->]]]; cbn [app].
      + eapply E_last.
        * eapply kind_is_hd_false; eauto. cbn; tauto.
        * apply C_stop_closer; auto. rewrite Hrb. cbn; tauto.
        * apply try_eat_cons_none. rewrite Hrb. reflexivity.
      + eapply E_more.
        * eapply kind_is_hd_false; eauto. cbn; tauto.
        * apply C_stop_closer; auto. rewrite Hck. cbn; tauto.
        * apply try_eat_cons_ok. exact Hck.
        * apply E_close. unfold kind_is. cbn [peek]. rewrite Hrb. reflexivity.
    - inv HF. inv HC. cbn [forallb] in Hw. bsplit. destruct Hc as [Hck Hce].
      apply tk_app in Htk. destruct Htk as [Htk1 [Htk2 _]]. apply tk_cons in Htk2. destruct Htk2 as [_ [Htk2 _]].
      rewrite <- app_assoc. cbn [app]. eapply E_more.
      + eapply kind_is_hd_false; eauto. cbn; tauto.
      + apply C_stop_closer; auto. rewrite Hck. cbn; tauto.
      + apply try_eat_cons_ok. exact Hck.
      + apply IH; auto. intros ->. match goal with H : Forall2 _ [] _ |- _ => inv H end. congruence.
  Qed.

  Lemma pairs_complete : forall tss tes, sep_by (is_kind K_COMMA) tss tes ->
    forall kvs tc rb rest,
      Forall (fun kv => C (fst kv) /\ C (snd kv)) kvs -> Forall2 (pair_rel g) kvs tss -> opt_comma tc -> (kvs = [] -> tc = []) ->
      forallb (fun kv => wfp g 0 (fst kv) && wfp g 0 (snd kv)) kvs = true -> tk tes -> t_kind rb = K_RBRACKET ->
      run g rng (JPairs (tes ++ tc ++ rb :: rest) kvs (rb :: rest)).
  Proof.
    induction 1 as [|u|u c tss0 all Hc Hne Hsep IH]; intros kvs tc rb rest HC HF Ho Hnil Hw Htk Hrb.
    - inv HF. rewrite (Hnil eq_refl). cbn [app]. apply P_close. unfold kind_is. cbn [peek]. rewrite Hrb. reflexivity.
    - inv HF. match goal with H : Forall2 _ _ [] |- _ => inv H end. inv HC. cbn [forallb] in Hw. bsplit.
      match goal with H : pair_rel g _ _ |- _ => destruct H as [uk [cc [uv [[Hcck Hcce] [Hyk [Hyv ->]]]]]] end.
      match goal with H : C _ /\ C _ |- _ => destruct H as [HCk HCv] end.
      apply tk_app in Htk. destruct Htk as [Htk1 [Htk2 _]]. apply tk_cons in Htk2. destruct Htk2 as [_ [Htk2 _]].
      destruct x as [k v]. cbn [fst snd] in *.
      destruct Ho as [->|[c [[Hck Hce] ->]]]; cbn [app]; rewrite <- app_assoc; cbn [app].
      + eapply P_last.
        * eapply kind_is_hd_false; eauto. cbn; tauto.
        * apply (C_stop_closer k uk cc); auto. rewrite Hcck. cbn; tauto.
        * apply must_eat_cons_ok. exact Hcck.
        * apply C_stop_closer; auto. rewrite Hrb. cbn; tauto.
        * apply try_eat_cons_none. rewrite Hrb. reflexivity.
      + eapply P_more.
        * eapply kind_is_hd_false; eauto. cbn; tauto.
        * apply (C_stop_closer k uk cc); auto. rewrite Hcck. cbn; tauto.
        * apply must_eat_cons_ok. exact Hcck.
        * apply C_stop_closer; auto. rewrite Hck. cbn; tauto.
        * apply try_eat_cons_ok. exact Hck.
        * apply P_close. unfold kind_is. cbn [peek]. rewrite Hrb. reflexivity.
    - inv HF. inv HC. cbn [forallb] in Hw. bsplit. destruct Hc as [Hck Hce].
      match goal with H : pair_rel g _ _ |- _ => destruct H as [uk [cc [uv [[Hcck Hcce] [Hyk [Hyv ->]]]]]] end.
      match goal with H : C _ /\ C _ |- _ => destruct H as [HCk HCv] end.
      apply tk_app in Htk. destruct Htk as [Htk1 [Htk2 _]]. apply tk_cons in Htk2. destruct Htk2 as [_ [Htk2 _]].
      apply tk_app in Htk1. destruct Htk1 as [Htk1a [Htk1b _]]. apply tk_cons in Htk1b. destruct Htk1b as [_ [Htk1b _]].
      destruct x as [k v]. cbn [fst snd] in *.
      repeat (rewrite <- app_assoc; cbn [app]). eapply P_more.
      + eapply kind_is_hd_false; eauto. cbn; tauto.
      + apply (C_stop_closer k uk cc); auto. rewrite Hcck. cbn; tauto.
      + apply must_eat_cons_ok. exact Hcck.
      + apply (C_stop_closer v uv c); auto. rewrite Hck. cbn; tauto.
      + apply try_eat_cons_ok. exact Hck.
      + apply IH; auto. intros ->. match goal with H : Forall2 _ [] _ |- _ => inv H end. congruence.
  Qed.

  Lemma fields_complete : forall tss tes, sep_by (is_kind K_COMMA) tss tes ->
    forall fs tc rb rest,
      Forall (fun f => C (snd f)) fs -> Forall2 (field_rel g) fs tss -> opt_comma tc -> (fs = [] -> tc = []) ->
      forallb (fun f => wfp g 0 (snd f)) fs = true -> tk tes -> t_kind rb = K_RBRACE ->
      run g rng (JFields (tes ++ tc ++ rb :: rest) fs (rb :: rest)).
  Proof.
    induction 1 as [|u|u c tss0 all Hc Hne Hsep IH]; intros fs tc rb rest HC HF Ho Hnil Hw Htk Hrb.
    - inv HF. rewrite (Hnil eq_refl). cbn [app]. apply F_close. unfold kind_is. cbn [peek]. rewrite Hrb. reflexivity.
    - inv HF. match goal with H : Forall2 _ _ [] |- _ => inv H end. inv HC. cbn [forallb] in Hw. bsplit.
      match goal with H : field_rel g _ _ |- _ => destruct H as [nm [cc [uv [[Hnk Hne] [[Hcck Hcce] [Hfst [Hyv ->]]]]]]] end.
      apply tk_cons in Htk. destruct Htk as [_ [Htk _]]. apply tk_cons in Htk. destruct Htk as [_ [Htk _]].
      destruct x as [fname v]. cbn [fst snd] in *. subst fname.
      destruct Ho as [->|[c [[Hck Hce] ->]]]; cbn [app].
      + eapply F_last.
        * unfold kind_is. cbn [peek]. rewrite Hnk. reflexivity.
        * apply must_eat_cons_ok. exact Hnk.
        * apply must_eat_cons_ok. exact Hcck.
        * apply C_stop_closer; auto. rewrite Hrb. cbn; tauto.
        * apply try_eat_cons_none. rewrite Hrb. reflexivity.
      + cbn [app]; repeat (rewrite <- app_assoc; cbn [app]). eapply F_more.
        * unfold kind_is. cbn [peek]. rewrite Hnk. reflexivity.
        * apply must_eat_cons_ok. exact Hnk.
        * apply must_eat_cons_ok. exact Hcck.
        * apply C_stop_closer; auto. rewrite Hck. cbn; tauto.
        * apply try_eat_cons_ok. exact Hck.
        * apply F_close. unfold kind_is. cbn [peek]. rewrite Hrb. reflexivity.
    - inv HF. inv HC. cbn [forallb] in Hw. bsplit. destruct Hc as [Hck Hce].
      match goal with H : field_rel g _ _ |- _ => destruct H as [nm [cc [uv [[Hnk Hne'] [[Hcck Hcce] [Hfst [Hyv ->]]]]]]] end.
      apply tk_app in Htk. destruct Htk as [Htk1 [Htk2 _]]. apply tk_cons in Htk2. destruct Htk2 as [_ [Htk2 _]].
      apply tk_cons in Htk1. destruct Htk1 as [_ [Htk1 _]]. apply tk_cons in Htk1. destruct Htk1 as [_ [Htk1 _]].
      destruct x as [fname v]. cbn [fst snd] in *. subst fname.
      cbn [app]. repeat (rewrite <- app_assoc; cbn [app]). eapply F_more.
      + unfold kind_is. cbn [peek]. rewrite Hnk. reflexivity.
      + apply must_eat_cons_ok. exact Hnk.
      + apply must_eat_cons_ok. exact Hcck.
      + apply (C_stop_closer v uv c); auto. rewrite Hck. cbn; tauto.
      + apply try_eat_cons_ok. exact Hck.
      + apply IH; auto. intros ->. match goal with H : Forall2 _ [] _ |- _ => inv H end. congruence.
  Qed.

  Lemma args_complete : forall tss tes, sep_by (is_kind K_COMMA) tss tes ->
    forall es rp rest,
      es <> [] -> Forall C es -> Forall2 (yields g) es tss ->
      forallb (wfp g 0) es = true -> tk tes -> t_kind rp = K_RPAREN ->
      run g rng (JArgs (tes ++ rp :: rest) es (rp :: rest)).
  Proof.
    induction 1 as [|u|u c tss0 all Hc Hne Hsep IH]; intros es rp rest Hnn HC HF Hw Htk Hrp.
    - inv HF. congruence.
    - inv HF. match goal with H : Forall2 _ _ [] |- _ => inv H end. inv HC. cbn [forallb] in Hw. bsplit.
      eapply A_last.
      + apply C_stop_closer; auto. rewrite Hrp. cbn; tauto.
      + apply try_eat_cons_none. rewrite Hrp. reflexivity.
    - inv HF. inv HC. cbn [forallb] in Hw. bsplit. destruct Hc as [Hck Hce].
      apply tk_app in Htk. destruct Htk as [Htk1 [Htk2 _]]. apply tk_cons in Htk2. destruct Htk2 as [_ [Htk2 _]].
      rewrite <- app_assoc. cbn [app]. eapply A_more.
      + apply C_stop_closer; auto. rewrite Hck. cbn; tauto.
      + apply try_eat_cons_ok. exact Hck.
      + apply IH; auto. intros ->. match goal with H : Forall2 _ [] _ |- _ => inv H end. congruence.
  Qed.

  Lemma call_complete : forall callee lp args tss targs rp rest p,
    Forall C args -> Forall2 (yields g) args tss -> sep_by (is_kind K_COMMA) tss targs ->
    forallb (wfp g 0) args = true -> tk targs -> is_kind K_RPAREN rp ->
    rng (expr_pos callee) (tpos rp) = POk p ->
    run g rng (JCall callee lp (targs ++ rp :: rest) (ECall p (Z.of_N (t_col lp)) callee args) rest).
  Proof.
    intros callee lp args tss targs rp rest p HC HF Hsep Hw Htk [Hrp Hre] Hr.
    destruct args as [|a args].
    - inv HF. apply sep_by_nil_inv in Hsep. subst targs. cbn [app].
      eapply C_empty; [apply try_eat_cons_ok; exact Hrp | exact Hr].
    - eapply C_args.
      + inv HF. inv Hsep.
        * eapply try_eat_hd_none; eauto. cbn; tauto.
        * rewrite <- app_assoc. eapply try_eat_hd_none; eauto. cbn; tauto.
      + eapply args_complete; eauto. discriminate.
      + apply must_eat_cons_ok. exact Hrp.
      + exact Hr.
  Qed.

  Lemma rng_tt : forall a b, is_eof a = false -> is_eof b = false -> tR a b ->
    rng (tpos a) (tpos b) = POk (span (tok_pos a) (tok_pos b)).
  Proof.
    intros a b Ha Hb H. rewrite !tpos_noeof by assumption. eapply rng_gen; [| |exact H]; reflexivity.
  Qed.

  Lemma list_nud : forall lb rb es tss tes tc rest bp,
    is_kind K_LBRACKET lb -> is_kind K_RBRACKET rb -> Forall C es -> Forall2 (yields g) es tss ->
    sep_by (is_kind K_COMMA) tss tes -> opt_comma tc -> (es = [] -> tc = []) ->
    forallb (wfp g 0) es = true -> tk tes -> tR lb rb ->
    run g rng (JNud NListMap bp lb (tes ++ tc ++ rb :: rest) (EList (span (tok_pos lb) (tok_pos rb)) es) rest).
  Proof.
    intros lb rb es tss tes tc rest bp [Hlb Hlbe] [Hrb Hrbe] HC HF Hsep Ho Hnil Hw Htk HR.
    pose proof (rng_tt lb rb Hlbe Hrbe HR) as Hr.
    destruct es as [|e1 es'].
    - inv HF. apply sep_by_nil_inv in Hsep. subst tes. rewrite (Hnil eq_refl). cbn [app].
      eapply N_list_empty; [apply try_eat_cons_none; rewrite Hrb; reflexivity | | apply must_eat_cons_ok; exact Hrb | exact Hr].
      unfold kind_is. cbn [peek]. rewrite Hrb. reflexivity.
    - inv HF. inv HC. cbn [forallb] in Hw. bsplit. inv Hsep.
      + match goal with H : Forall2 _ _ [] |- _ => inv H end.
        destruct Ho as [->|[c [[Hck Hce] ->]]]; cbn [app].
        * eapply N_list1; [eapply try_eat_hd_none; eauto; cbn; tauto | eapply kind_is_hd_false; eauto; cbn; tauto
                           | apply C_stop_closer; auto; rewrite Hrb; cbn; tauto
                           | apply try_eat_cons_none; rewrite Hrb; reflexivity
                           | apply try_eat_cons_none; rewrite Hrb; reflexivity
                           | apply must_eat_cons_ok; exact Hrb | exact Hr].
        * eapply N_listn; [eapply try_eat_hd_none; eauto; cbn; tauto | eapply kind_is_hd_false; eauto; cbn; tauto
                           | apply C_stop_closer; auto; rewrite Hck; cbn; tauto
                           | apply try_eat_cons_none; rewrite Hck; reflexivity
                           | apply try_eat_cons_ok; exact Hck
                           | apply E_close; unfold kind_is; cbn [peek]; rewrite Hrb; reflexivity
                           | apply must_eat_cons_ok; exact Hrb | exact Hr].
      + match goal with H : is_kind K_COMMA _ |- _ => destruct H as [Hck Hce] end.
        apply tk_app in Htk. destruct Htk as [Htk1 [Htk2 _]]. apply tk_cons in Htk2. destruct Htk2 as [_ [Htk2 _]].
        rewrite <- app_assoc. cbn [app].
        eapply N_listn; [rewrite app_comm_cons; eapply try_eat_hd_none; eauto; cbn; tauto
                         | rewrite app_comm_cons; eapply kind_is_hd_false; eauto; cbn; tauto
                         | apply C_stop_closer; auto; rewrite Hck; cbn; tauto
                         | apply try_eat_cons_none; rewrite Hck; reflexivity
                         | apply try_eat_cons_ok; exact Hck
                         | eapply elems_complete; eauto
                         | apply must_eat_cons_ok; exact Hrb | exact Hr].
        intros ->. match goal with H : Forall2 _ [] _ |- _ => inv H end. congruence.
  Qed.

  Lemma map_nud : forall lb rb kvs tss tes tc rest bp,
    is_kind K_LBRACKET lb -> is_kind K_RBRACKET rb -> kvs <> [] ->
    Forall (fun kv => C (fst kv) /\ C (snd kv)) kvs -> Forall2 (pair_rel g) kvs tss ->
    sep_by (is_kind K_COMMA) tss tes -> opt_comma tc ->
    forallb (fun kv => wfp g 0 (fst kv) && wfp g 0 (snd kv)) kvs = true -> tk tes -> tR lb rb ->
    run g rng (JNud NListMap bp lb (tes ++ tc ++ rb :: rest) (EMap (span (tok_pos lb) (tok_pos rb)) kvs) rest).
  Proof.
    intros lb rb kvs tss tes tc rest bp [Hlb Hlbe] [Hrb Hrbe] Hnn HC HF Hsep Ho Hw Htk HR.
    pose proof (rng_tt lb rb Hlbe Hrbe HR) as Hr.
    destruct kvs as [|[k v] kvs']; [congruence|].
    inv HF. inv HC. cbn [forallb fst snd] in *. bsplit.
    match goal with H : pair_rel g _ _ |- _ => destruct H as [uk [cc [uv [[Hcck Hcce] [Hyk [Hyv ->]]]]]] end.
    match goal with H : C _ /\ C _ |- _ => destruct H as [HCk HCv] end.
    cbn [fst snd] in *.
    inv Hsep.
    - match goal with H : Forall2 _ _ [] |- _ => inv H end.
      apply tk_app in Htk. destruct Htk as [Htk1 [Htk2 _]]. apply tk_cons in Htk2. destruct Htk2 as [_ [Htk2 _]].
      destruct Ho as [->|[c [[Hck Hce] ->]]]; cbn [app]; rewrite <- app_assoc; cbn [app].
      + eapply N_map1; [eapply try_eat_hd_none; eauto; cbn; tauto | eapply kind_is_hd_false; eauto; cbn; tauto
                        | apply (C_stop_closer k uk cc); auto; rewrite Hcck; cbn; tauto
                        | apply try_eat_cons_ok; exact Hcck
                        | apply C_stop_closer; auto; rewrite Hrb; cbn; tauto
                        | apply try_eat_cons_none; rewrite Hrb; reflexivity
                        | apply must_eat_cons_ok; exact Hrb | exact Hr].
      + eapply N_mapn; [eapply try_eat_hd_none; eauto; cbn; tauto | eapply kind_is_hd_false; eauto; cbn; tauto
                        | apply (C_stop_closer k uk cc); auto; rewrite Hcck; cbn; tauto
                        | apply try_eat_cons_ok; exact Hcck
                        | apply (C_stop_closer v uv c); auto; rewrite Hck; cbn; tauto
                        | apply try_eat_cons_ok; exact Hck
                        | apply P_close; unfold kind_is; cbn [peek]; rewrite Hrb; reflexivity
                        | apply must_eat_cons_ok; exact Hrb | exact Hr].
    - match goal with H : is_kind K_COMMA _ |- _ => destruct H as [Hck Hce] end.
      apply tk_app in Htk. destruct Htk as [Htk1 [Htk2 _]]. apply tk_cons in Htk2. destruct Htk2 as [_ [Htk2 _]].
      apply tk_app in Htk1. destruct Htk1 as [Htk1a [Htk1b _]]. apply tk_cons in Htk1b. destruct Htk1b as [_ [Htk1b _]].
      repeat (rewrite <- app_assoc; cbn [app]).
      eapply N_mapn; [eapply try_eat_hd_none; eauto; cbn; tauto | eapply kind_is_hd_false; eauto; cbn; tauto
                      | apply (C_stop_closer k uk cc); auto; rewrite Hcck; cbn; tauto
                      | apply try_eat_cons_ok; exact Hcck
                      | apply (C_stop_closer v uv c); auto; rewrite Hck; cbn; tauto
                      | apply try_eat_cons_ok; exact Hck
                      | eapply pairs_complete; eauto
                      | apply must_eat_cons_ok; exact Hrb | exact Hr].
      intros ->. match goal with H : Forall2 _ [] _ |- _ => inv H end. congruence.
  Qed.

  Definition PC (e : expr) : Prop := C e /\ match e with EMember _ _ o _ _ => C o | _ => True end.

  Lemma Forall_PC_C : forall es, Forall PC es -> Forall C es.
  Proof. intros es H. eapply Forall_impl; [|exact H]. intros a [Ha _]. exact Ha. Qed.

  Lemma wfp_call_cases : forall rbp p col f args, wfp g rbp (ECall p col f args) = true ->
    forallb (wfp g 0) args = true /\
    ((exists pm cm o nm np, f = EMember pm cm o nm np /\ wfp g rbp f = true) \/
     (rbp < BP_CALL /\ wfp g rbp f = true /\ le_inf BP_CALL (rom g f) = true /\ ends_with_member f = false)).
  Proof.
    intros rbp p col f args H. cbn [wfp] in H.
    destruct f; bsplit; (split; [assumption|]);
      try (left; do 5 eexists; split; [reflexivity | assumption]);
      right; (split; [apply Z.ltb_lt; assumption|]); (split; [assumption|]); (split; [assumption|]);
      match goal with H : negb _ = true |- _ => apply negb_true_iff in H; exact H end.
  Qed.

  Lemma lbpk_infix : forall t rest bp l, get (t_kind t) (g_infix g) = Some (bp, l) -> lbpk g (t :: rest) = bp.
  Proof. intros t rest bp l H. unfold lbpk, infix_lbp. cbn [peek]. rewrite H. reflexivity. Qed.

  Lemma get_fixed_led : forall t l k bp, led_kind l = Some (k, bp) -> t_kind t = k -> get (t_kind t) (g_infix g) = Some (bp, l).
  Proof. intros t l k bp Hl Hk. rewrite Hk. apply (go_fixed_infix g Hg); exact Hl. Qed.

  Ltac start_C :=
    split; [|exact I]; intros rbp used rest e' rest' Hy Hw Htk Hcl Hloop; inversion Hy; subst.

  Lemma PC_str : forall p t, PC (EStr p t).
  Proof.
    intros p t. start_C. match goal with H : is_kind _ _ |- _ => destruct H as [Hk He] end.
    cbn [app]. rewrite <- (tpos_noeof _ He) in *.
    eapply (R_expr_cons rbp _ rest 0 NStr); [eapply get_fixed_nud; [reflexivity | exact Hk] | apply N_str; assumption | exact Hloop].
  Qed.
  Lemma PC_num : forall p t, PC (ENum p t).
  Proof.
    intros p t. start_C. match goal with H : is_kind _ _ |- _ => destruct H as [Hk He] end.
    cbn [app]. rewrite <- (tpos_noeof _ He) in *.
    eapply (R_expr_cons rbp _ rest 0 NNum); [eapply get_fixed_nud; [reflexivity | exact Hk] | apply N_num; assumption | exact Hloop].
  Qed.
  Lemma PC_time : forall p t, PC (ETime p t).
  Proof.
    intros p t. start_C. match goal with H : is_kind _ _ |- _ => destruct H as [Hk He] end.
    cbn [app]. rewrite <- (tpos_noeof _ He) in *.
    eapply (R_expr_cons rbp _ rest 0 NTime); [eapply get_fixed_nud; [reflexivity | exact Hk] | apply N_time | exact Hloop].
  Qed.
  Lemma PC_ident : forall p t, PC (EIdent p t).
  Proof.
    intros p t. start_C. match goal with H : is_kind _ _ |- _ => destruct H as [Hk He] end.
    cbn [app]. rewrite <- (tpos_noeof _ He) in *.
    eapply (R_expr_cons rbp _ rest 0 NIdent); [eapply get_fixed_nud; [reflexivity | exact Hk] | apply N_ident | exact Hloop].
  Qed.
  Lemma PC_bool : forall p b, PC (EBool p b).
  Proof.
    intros p b. start_C; match goal with H : is_kind _ _ |- _ => destruct H as [Hk He] end;
      cbn [app]; rewrite <- (tpos_noeof _ He) in *.
    - eapply (R_expr_cons rbp _ rest 0 NTrue); [eapply get_fixed_nud; [reflexivity | exact Hk] | apply N_true | exact Hloop].
    - eapply (R_expr_cons rbp _ rest 0 NFalse); [eapply get_fixed_nud; [reflexivity | exact Hk] | apply N_false | exact Hloop].
  Qed.

  Lemma PC_list : forall p es, Forall PC es -> PC (EList p es).
  Proof.
    intros p es HPC. apply Forall_PC_C in HPC. start_C.
    apply tk_cons in Htk. destruct Htk as [_ [Htk HR]]. apply tk_app in Htk. destruct Htk as [Htk _].
    cbn [wfp] in Hw. cbn [app]. repeat (rewrite <- app_assoc; cbn [app]).
    match goal with H : is_kind K_LBRACKET ?lb |- _ =>
      eapply (R_expr_cons rbp lb _ 0 NListMap); [eapply get_fixed_nud; [reflexivity | apply H] | | exact Hloop] end.
    eapply list_nud; eauto. apply HR. solve_in.
  Qed.

  Lemma PC_map : forall p kvs, Forall (fun kv => PC (fst kv) /\ PC (snd kv)) kvs -> PC (EMap p kvs).
  Proof.
    intros p kvs HPC.
    assert (HC : Forall (fun kv => C (fst kv) /\ C (snd kv)) kvs).
    { eapply Forall_impl; [|exact HPC]. intros a [[Ha _] [Hb _]]. split; assumption. }
    clear HPC. start_C.
    - (* empty map *)
      repeat match goal with H : is_kind _ _ |- _ => destruct H as [? ?] end.
      apply tk_cons in Htk. destruct Htk as [_ [Htk HR]].
      cbn [app].
      eapply (R_expr_cons rbp lb _ 0 NListMap); [eapply get_fixed_nud; [reflexivity | assumption] | | exact Hloop].
      eapply N_map_empty; [apply try_eat_cons_ok; eassumption | apply must_eat_cons_ok; eassumption |].
      apply rng_tt; auto. apply HR. solve_in.
    - apply tk_cons in Htk. destruct Htk as [_ [Htk HR]]. apply tk_app in Htk. destruct Htk as [Htk _].
      cbn [wfp] in Hw. cbn [app]. repeat (rewrite <- app_assoc; cbn [app]).
      match goal with H : is_kind K_LBRACKET ?lb |- _ =>
        eapply (R_expr_cons rbp lb _ 0 NListMap); [eapply get_fixed_nud; [reflexivity | apply H] | | exact Hloop] end.
      eapply map_nud; eauto. apply HR. solve_in.
  Qed.

  Lemma PC_obj : forall p fs, Forall (fun f => PC (snd f)) fs -> PC (EObj p fs).
  Proof.
    intros p fs HPC.
    assert (HC : Forall (fun f => C (snd f)) fs).
    { eapply Forall_impl; [|exact HPC]. intros a [Ha _]. exact Ha. }
    clear HPC. start_C.
    apply tk_cons in Htk. destruct Htk as [_ [Htk HR]]. apply tk_app in Htk. destruct Htk as [Htk _].
    cbn [wfp] in Hw. cbn [app]. repeat (rewrite <- app_assoc; cbn [app]).
    match goal with H : is_kind K_LBRACE ?lb |- _ =>
      eapply (R_expr_cons rbp lb _ 0 NObj); [eapply get_fixed_nud; [reflexivity | apply H] | | exact Hloop] end.
    repeat match goal with H : is_kind _ _ |- _ => destruct H as [? ?] end.
    eapply N_obj; [eapply fields_complete; eauto | apply must_eat_cons_ok; assumption |].
    apply rng_tt; auto. apply HR. solve_in.
  Qed.

  Lemma PC_group : forall p x, PC x -> PC (EGroup p x).
  Proof.
    intros p x [HCx _]. start_C.
    repeat match goal with H : is_kind _ _ |- _ => destruct H as [? ?] end.
    apply tk_cons in Htk. destruct Htk as [_ [Htk HR]]. apply tk_app in Htk. destruct Htk as [Htk _].
    cbn [wfp] in Hw. cbn [app]. repeat (rewrite <- app_assoc; cbn [app]).
    eapply (R_expr_cons rbp lp _ 0 NGroup); [eapply get_fixed_nud; [reflexivity | assumption] | | exact Hloop].
    eapply N_group; [apply C_stop_closer; eauto | apply must_eat_cons_ok; assumption |].
    - match goal with H : t_kind rp = _ |- _ => rewrite H end. cbn; tauto.
    - apply rng_tt; auto. apply HR. solve_in.
  Qed.

  Ltac yhd x h r Hidx :=
    match goal with H : yields g x _ |- _ =>
      let E := fresh "E" in destruct (yields_hd _ _ H) as [h [r [? [? [E [_ [_ Hidx]]]]]]]; subst end.

  Lemma notfixed_not_lparen : forall t, notfixed (t_kind t) -> kind_is t K_LPAREN = false.
  Proof. intros t H. unfold kind_is. rewrite list_eqb_sym. apply notfixed_neq; [exact H | cbn; tauto]. Qed.

  Lemma PC_unary : forall p n np x pre, PC x -> PC (EUnary p n np x pre).
  Proof.
    intros p n np x pre [HCx _]. start_C.
    - (* prefix *)
      match goal with H : prefix_bp g (t_kind op) = Some _ |- _ => rename H into Hpb end.
      assert (Hget : get (t_kind op) (g_prefix g) = Some (bp, NPrefix)).
      { unfold prefix_bp in Hpb. destruct (get (t_kind op) (g_prefix g)) as [[b' n']|]; [|discriminate].
        destruct n'; inv Hpb. reflexivity. }
      pose proof (go_prefix g Hg _ _ _ Hget) as Hs. unfold nud_spec in Hs. cbn [nud_kind] in Hs. destruct Hs as [Hnf Hbp].
      apply tk_cons in Htk. destruct Htk as [Hlx [Htk HR]].
      pose proof (olx_notfixed op Hlx Hnf) as Hlex.
      cbn [wfp] in Hw. rewrite Hlex, Hpb in Hw.
      destruct Hcl as [Hrom Hewm]. cbn [rom ends_with_member] in Hrom, Hewm. rewrite Hlex, Hpb in Hrom.
      apply le_inf_zmin_inv in Hrom. destruct Hrom as [Hstop Hrom].
      match goal with H : is_eof op = false |- _ => rename H into Heof end.
      rewrite <- (tpos_noeof op Heof) in *.
      yhd x h r Hidx.
      cbn [app].
      eapply (R_expr_cons rbp op _ bp NPrefix); [exact Hget | | exact Hloop].
      eapply N_prefix.
      + apply (C_stop x bp (h :: r) rest); auto. split; assumption.
      + eapply rng_gen; [apply idx_tpos; exact Heof | exact Hidx | apply HR; solve_in].
    - (* postfix *)
      match goal with H : infix_entry g (t_kind op) = Some _ |- _ => rename H into Hie end.
      unfold infix_entry in Hie.
      pose proof (go_infix g Hg _ _ _ Hie) as Hs. unfold led_spec in Hs. cbn [led_kind] in Hs. destruct Hs as [Hnf [Hbp _]].
      apply tk_app in Htk. destruct Htk as [Htk1 [Htk2 HR]]. apply tk_cons in Htk2. destruct Htk2 as [Hlx _].
      pose proof (olx_notfixed op Hlx Hnf) as Hlex.
      cbn [wfp] in Hw. unfold infix_entry in Hw. rewrite Hlex, Hie in Hw. bsplit.
      match goal with H : is_eof op = false |- _ => rename H into Heof end.
      rewrite <- (tpos_noeof op Heof) in *.
      yhd x h r Hidx.
      rewrite <- app_assoc. cbn [app].
      apply (HCx rbp (h :: r) (op :: rest)); auto.
      + split; [rewrite (lbpk_infix _ _ _ _ Hie); assumption | intros _; apply notfixed_not_lparen; exact Hnf].
      + eapply Lp_step_cons; [apply Z.ltb_lt; eassumption | exact Hie | | | exact Hloop].
        * eapply L_postfix. eapply rng_gen; [exact Hidx | apply idx_tpos; exact Heof | apply HR; solve_in].
        * reflexivity.
  Qed.

  Lemma PC_binary : forall p n np fx l r, PC l -> PC r -> PC (EBinary p n np fx l r).
  Proof.
    intros p n np fx l r [HCl _] [HCr _]. start_C.
    match goal with H : infix_entry g (t_kind op) = Some _ |- _ => rename H into Hie end.
    unfold infix_entry in Hie.
    match goal with H : _ \/ _ |- _ => rename H into Hdisj end.
    assert (Hnf : notfixed (t_kind op) /\ 0 < bp /\ (ld = LBinR -> 8 <= bp)).
    { pose proof (go_infix g Hg _ _ _ Hie) as Hs. unfold led_spec in Hs.
      destruct Hdisj as [[-> _]|[[-> _]|[-> _]]]; cbn [led_kind] in Hs; exact Hs. }
    destruct Hnf as [Hnf [Hbp Hbp8]].
    apply tk_app in Htk. destruct Htk as [Htk1 [Htk2 HR]]. apply tk_cons in Htk2. destruct Htk2 as [Hlx [Htk2 _]].
    pose proof (olx_notfixed op Hlx Hnf) as Hlex.
    match goal with H : is_eof op = false |- _ => rename H into Heof end.
    rewrite <- (tpos_noeof op Heof) in *.
    destruct Hcl as [Hrom Hewm]. cbn [rom ends_with_member] in Hrom, Hewm. unfold infix_entry in Hrom.
    rewrite Hlex, Hie in Hrom. apply le_inf_zmin_inv in Hrom. destruct Hrom as [Hstop Hrom].
    cbn [wfp] in Hw. unfold infix_entry in Hw. rewrite Hlex, Hie in Hw.
    yhd l hl rl Hidxl.
    yhd r hr rr Hidxr.
    assert (Hrng_lr : rng (expr_pos l) (expr_pos r) = POk (span (expr_pos l) (expr_pos r))).
    { eapply rng_gen; [exact Hidxl | exact Hidxr | apply HR; solve_in]. }
    rewrite <- app_assoc. cbn [app].
    assert (Hfin : forall rr0 fx0, led_bin ld bp = Some (fx0, rr0) -> fx0 = fx -> rbp_of bp ld = rr0 ->
              rbp < bp -> wfp g rbp l = true -> le_inf bp (rom g l) = true -> wfp g rr0 r = true ->
              infix_n_ok (EBinary (span (expr_pos l) (expr_pos r)) (t_lexeme op) (tpos op) fx l r) = true ->
              run g rng (JExpr rbp ((hl :: rl) ++ op :: (hr :: rr) ++ rest) e' rest')).
    { intros rr0 fx0 Hlb -> Hrr Hlt Hwl Hrl Hwr Hok.
      apply (HCl rbp (hl :: rl) (op :: (hr :: rr) ++ rest)); auto.
      - split; [rewrite (lbpk_infix _ _ _ _ Hie); assumption | intros _; apply notfixed_not_lparen; exact Hnf].
      - eapply Lp_step_cons; [exact Hlt | exact Hie | | exact Hok | exact Hloop].
        eapply L_bin; [exact Hlb | | exact Hrng_lr].
        apply (C_stop r rr0 (hr :: rr) rest); auto; [split; assumption | rewrite <- Hrr; assumption]. }
    destruct Hdisj as [[-> ->]|[[-> ->]|[-> ->]]]; bsplit.
    - eapply Hfin; try reflexivity; auto. apply Z.ltb_lt; assumption.
    - eapply Hfin; try reflexivity; auto. apply Z.ltb_lt; assumption.
    - eapply Hfin; try reflexivity; auto; [apply Z.ltb_lt; assumption|].
      cbn [infix_n_ok]. unfold same_binary in *. rewrite Hlex.
      repeat match goal with H : negb _ = true |- _ => rewrite H end. reflexivity.
  Qed.

  Lemma PC_ternary : forall p n np l m r, PC l -> PC m -> PC r -> PC (ETernary p n np l m r).
  Proof.
    intros p n np l m r [HCl _] [HCm _] [HCr _]. start_C.
    repeat match goal with H : is_kind _ _ |- _ => destruct H as [? ?] end.
    assert (Hie : get (t_kind q) (g_infix g) = Some (BP_COND, LQuestion)).
    { eapply get_fixed_led; [reflexivity | assumption]. }
    apply tk_app in Htk. destruct Htk as [Htk1 [Htk2 HR]]. apply tk_cons in Htk2. destruct Htk2 as [_ [Htk2 _]].
    apply tk_app in Htk2. destruct Htk2 as [Htkm [Htk3 _]]. apply tk_cons in Htk3. destruct Htk3 as [_ [Htkr _]].
    match goal with H : is_eof q = false |- _ => rename H into Heof end.
    rewrite <- (tpos_noeof q Heof) in *.
    destruct Hcl as [Hrom Hewm]. cbn [rom ends_with_member] in Hrom, Hewm.
    apply le_inf_zmin_inv in Hrom. destruct Hrom as [Hstop Hrom].
    cbn [wfp] in Hw. bsplit.
    yhd l hl rl Hidxl. yhd r hr rr Hidxr.
    repeat (rewrite <- app_assoc; cbn [app]).
    apply (HCl rbp (hl :: rl) (q :: tm ++ c :: (hr :: rr) ++ rest)); auto.
    - split; [rewrite (lbpk_infix _ _ _ _ Hie); assumption|]. intros _. unfold kind_is. cbn [peek].
      match goal with H : t_kind q = _ |- _ => rewrite H end. reflexivity.
    - eapply Lp_step_cons; [apply Z.ltb_lt; eassumption | exact Hie | | | exact Hloop]; [|reflexivity].
      eapply L_question.
      + apply C_stop_closer; eauto. match goal with H : t_kind c = _ |- _ => rewrite H end. cbn; tauto.
      + apply must_eat_cons_ok. assumption.
      + apply (C_stop r (BP_COND - 8) (hr :: rr) rest); auto. split; assumption.
      + eapply rng_gen; [exact Hidxl | exact Hidxr | apply HR; solve_in].
  Qed.

  Lemma PC_sub : forall p c v i, PC v -> PC i -> PC (ESub p c v i).
  Proof.
    intros p c v i [HCv _] [HCi _]. start_C.
    repeat match goal with H : is_kind _ _ |- _ => destruct H as [? ?] end.
    assert (Hie : get (t_kind lb) (g_infix g) = Some (BP_MEMBER, LSubscript)).
    { eapply get_fixed_led; [reflexivity | assumption]. }
    apply tk_app in Htk. destruct Htk as [Htk1 [Htk2 HR]]. apply tk_cons in Htk2. destruct Htk2 as [_ [Htk2 _]].
    apply tk_app in Htk2. destruct Htk2 as [Htki _].
    cbn [wfp] in Hw. bsplit.
    yhd v hv rv Hidxv.
    repeat (rewrite <- app_assoc; cbn [app]).
    apply (HCv rbp (hv :: rv) (lb :: ti ++ rb :: rest)); auto.
    - split; [rewrite (lbpk_infix _ _ _ _ Hie); assumption|]. intros _. unfold kind_is. cbn [peek].
      match goal with H : t_kind lb = _ |- _ => rewrite H end. reflexivity.
    - eapply Lp_step_cons; [apply Z.ltb_lt; eassumption | exact Hie | | | exact Hloop]; [|reflexivity].
      unfold tcol. eapply L_sub.
      + apply C_stop_closer; eauto. match goal with H : t_kind rb = _ |- _ => rewrite H end. cbn; tauto.
      + apply must_eat_cons_ok. assumption.
      + rewrite (tpos_noeof rb) by assumption. eapply rng_gen; [exact Hidxv | reflexivity | apply HR; solve_in].
  Qed.

  Lemma PC_member : forall p c o n np, PC o -> PC (EMember p c o n np).
  Proof.
    intros p c o n np [HCo _]. split; [|exact HCo].
    intros rbp used rest e' rest' Hy Hw Htk Hcl Hloop; inversion Hy; subst.
    repeat match goal with H : is_kind _ _ |- _ => destruct H as [? ?] end.
    assert (Hie : get (t_kind dot) (g_infix g) = Some (BP_MEMBER, LDot)).
    { eapply get_fixed_led; [reflexivity | assumption]. }
    apply tk_app in Htk. destruct Htk as [Htk1 [Htk2 HR]].
    match goal with H : is_eof name = false |- _ => rename H into Heofn end.
    rewrite <- (tpos_noeof name Heofn) in *.
    cbn [wfp] in Hw. bsplit.
    yhd o ho ro Hidxo.
    repeat (rewrite <- app_assoc; cbn [app]).
    apply (HCo rbp (ho :: ro) (dot :: name :: rest)); auto.
    - split; [rewrite (lbpk_infix _ _ _ _ Hie); assumption|]. intros _. unfold kind_is. cbn [peek].
      match goal with H : t_kind dot = _ |- _ => rewrite H end. reflexivity.
    - eapply Lp_step_cons; [apply Z.ltb_lt; eassumption | exact Hie | | | exact Hloop]; [|reflexivity].
      unfold tcol. eapply (L_dot g rng BP_MEMBER o dot (name :: rest)).
      + cbn [peek]. eapply rng_gen; [exact Hidxo | apply idx_tpos; assumption | apply HR; solve_in].
      + cbn [tl]. destruct Hcl as [_ Hewm]. unfold try_eat. rewrite (Hewm eq_refl). reflexivity.
  Qed.

  Lemma PC_call : forall p c f args, PC f -> Forall PC args -> PC (ECall p c f args).
  Proof.
    intros p c f args [HCf HCo] HPC. apply Forall_PC_C in HPC. start_C.
    repeat match goal with H : is_kind _ _ |- _ => destruct H as [? ?] end.
    assert (Hie : get (t_kind lp) (g_infix g) = Some (BP_CALL, LCall)).
    { eapply get_fixed_led; [reflexivity | assumption]. }
    apply tk_app in Htk. destruct Htk as [Htk1 [Htk2 HR]]. apply tk_cons in Htk2. destruct Htk2 as [_ [Htk2 _]].
    apply tk_app in Htk2. destruct Htk2 as [Htka _].
    apply wfp_call_cases in Hw. destruct Hw as [Hwa [[pm [cm [o [nm [npos [-> Hwf]]]]]]|[Hlt [Hwf [Hrf Hnm]]]]].
    - (* immediate call after .name *)
      match goal with H : yields g (EMember _ _ _ _ _) _ |- _ => inversion H; subst end.
      repeat match goal with H : is_kind _ _ |- _ => destruct H as [? ?] end.
      assert (Hied : get (t_kind dot) (g_infix g) = Some (BP_MEMBER, LDot)).
      { eapply get_fixed_led; [reflexivity | assumption]. }
      match goal with H : is_eof name = false |- _ => rename H into Heofn end.
      rewrite <- (tpos_noeof name Heofn) in *.
      cbn [wfp] in Hwf. bsplit.
      yhd o ho ro Hidxo.
      repeat (rewrite <- app_assoc; cbn [app]).
      apply (HCo rbp (ho :: ro) (dot :: name :: lp :: targs ++ rp :: rest)); auto.
      + apply tk_app in Htk1. apply Htk1.
      + split; [rewrite (lbpk_infix _ _ _ _ Hied); assumption|]. intros _. unfold kind_is. cbn [peek].
        match goal with H : t_kind dot = _ |- _ => rewrite H end. reflexivity.
      + eapply Lp_step_cons; [apply Z.ltb_lt; eassumption | exact Hied | | | exact Hloop]; [|reflexivity].
        unfold tcol in *.
        eapply (L_dotcall g rng BP_MEMBER o dot (name :: lp :: targs ++ rp :: rest)).
        * cbn [peek]. eapply rng_gen; [exact Hidxo | apply idx_tpos; assumption |].
          apply tk_app in Htk1. destruct Htk1 as [_ [_ HR1]]. apply HR1; solve_in.
        * cbn [tl]. apply try_eat_cons_ok. assumption.
        * cbn [peek]. eapply call_complete; eauto; [split; assumption|].
          rewrite (tpos_noeof rp) by assumption.
          eapply rng_gen; [cbn [expr_pos span p_idx]; exact Hidxo | reflexivity | apply HR; solve_in].
    - yhd f hf rf Hidxf.
      repeat (rewrite <- app_assoc; cbn [app]).
      apply (HCf rbp (hf :: rf) (lp :: targs ++ rp :: rest)); auto.
      + split; [rewrite (lbpk_infix _ _ _ _ Hie); assumption|]. intros Hc. congruence.
      + eapply Lp_step_cons; [exact Hlt | exact Hie | | | exact Hloop]; [|reflexivity].
        unfold tcol. apply L_call. eapply call_complete; eauto; [split; assumption|].
        rewrite (tpos_noeof rp) by assumption. eapply rng_gen; [exact Hidxf | reflexivity | apply HR; solve_in].
  Qed.

  Theorem complete_all : forall e, PC e.
  Proof.
    apply expr_ind'.
    - apply PC_str. - apply PC_num. - apply PC_time. - apply PC_bool. - apply PC_list. - apply PC_map.
    - apply PC_obj. - apply PC_ident. - apply PC_call. - apply PC_sub. - apply PC_member. - apply PC_unary.
    - apply PC_binary. - apply PC_ternary. - apply PC_group.
  Qed.
End Complete.

(* ---------- a derivation of the relation is what the functions compute (unless they run out of fuel) ---------- *)
Lemma pbind_step : forall {X Y} (r : pres X) (k : X -> pres Y) v y,
  (r <> PFuel -> r = POk v) -> pbind r k <> PFuel -> (k v <> PFuel -> k v = POk y) -> pbind r k = POk y.
Proof.
  intros X Y r k v y H1 H2 H3.
  assert (Hr : r <> PFuel). { intro E. rewrite E in H2. apply H2. reflexivity. }
  rewrite (H1 Hr) in *. cbn [pbind] in *. apply H3. exact H2.
Qed.

Ltac pstep tac :=
  match goal with
  | Hnf : pbind ?r ?k <> PFuel |- pbind ?r ?k = POk _ =>
      eapply (pbind_step r k); [ tac | exact Hnf | clear Hnf; intro Hnf; cbn beta iota in Hnf |- * ]
  end.
Ltac pfact := pstep ltac:(intros _; eassumption).

Section RunFn.
  Variable g : grammar.

  Definition P_fn (j : judg) : Prop :=
    match j with
    | JExpr rbp ts e rest => forall f, p_expr g f rbp ts <> PFuel -> p_expr g f rbp ts = POk (e, rest)
    | JNud n bp t ts e rest =>
        forall f, nud_fn (p_expr g f) n bp t ts <> PFuel -> nud_fn (p_expr g f) n bp t ts = POk (e, rest)
    | JLoop rbp lft ts e rest =>
        forall f n, infix_loop g (p_expr g f) n rbp lft ts <> PFuel -> infix_loop g (p_expr g f) n rbp lft ts = POk (e, rest)
    | JLed l bp lft t ts e rest =>
        forall f, led_fn (p_expr g f) l bp lft t ts <> PFuel -> led_fn (p_expr g f) l bp lft t ts = POk (e, rest)
    | JCall callee lp ts e rest =>
        forall f, parse_call (p_expr g f) callee lp ts <> PFuel -> parse_call (p_expr g f) callee lp ts = POk (e, rest)
    | JElems close ts es rest =>
        forall f n acc, elems_loop (p_expr g f) n close ts acc <> PFuel ->
                        elems_loop (p_expr g f) n close ts acc = POk (rev acc ++ es, rest)
    | JPairs ts kvs rest =>
        forall f n acc, pairs_loop (p_expr g f) n ts acc <> PFuel ->
                        pairs_loop (p_expr g f) n ts acc = POk (rev acc ++ kvs, rest)
    | JFields ts fs rest =>
        forall f n acc, fields_loop (p_expr g f) n ts acc <> PFuel ->
                        fields_loop (p_expr g f) n ts acc = POk (rev acc ++ fs, rest)
    | JArgs ts es rest =>
        forall f n acc, args_loop (p_expr g f) n ts acc <> PFuel ->
                        args_loop (p_expr g f) n ts acc = POk (rev acc ++ es, rest)
    end.

  Lemma rev_cons_app : forall {X} (x : X) acc l, rev (x :: acc) ++ l = rev acc ++ x :: l.
  Proof. intros. cbn [rev]. rewrite <- app_assoc. reflexivity. Qed.

  Lemma run_fn : forall j, runr g j -> P_fn j.
  Proof.
    intros j H. induction H; cbn [P_fn] in *.
    - (* R_expr *) intros f Hnf. destruct f as [|f]; [exfalso; apply Hnf; reflexivity|].
      cbn [p_expr] in *. unfold expr_step in *. rewrite eat_peek_tl in *. rewrite H in *.
      pstep ltac:(apply IHrun1). apply IHrun2. exact Hnf.
    - intros f Hnf. reflexivity.
    - intros f Hnf. reflexivity.
    - intros f Hnf. reflexivity.
    - intros f Hnf. cbn [nud_fn]. destruct (num_parse (t_lexeme t)); [reflexivity | congruence].
    - intros f Hnf. cbn [nud_fn]. destruct (str_value (t_lexeme t)); [reflexivity | congruence].
    - intros f Hnf. reflexivity.
    - (* prefix *) intros f Hnf. cbn [nud_fn] in *. pstep ltac:(apply IHrun). pfact. reflexivity.
    - (* group *) intros f Hnf. cbn [nud_fn] in *. pstep ltac:(apply IHrun). pfact. pfact. reflexivity.
    - (* obj *) intros f Hnf. cbn [nud_fn] in *. pstep ltac:(apply IHrun). pfact. pfact. reflexivity.
    - (* map empty *) intros f Hnf. cbn [nud_fn] in *. rewrite H in *. pfact. pfact. reflexivity.
    - (* list empty *) intros f Hnf. cbn [nud_fn] in *. rewrite H, H0 in *. pfact. pfact. reflexivity.
    - (* list1 *) intros f Hnf. cbn [nud_fn] in *. rewrite H, H0 in *. pstep ltac:(apply IHrun).
      rewrite H2, H3 in *. cbn [pbind] in *. pfact. pfact. reflexivity.
    - (* listn *) intros f Hnf. cbn [nud_fn] in *. rewrite H, H0 in *. pstep ltac:(apply IHrun1).
      rewrite H2, H3 in *. pstep ltac:(apply (IHrun2 f (S (len ts2)) [e])). pfact. pfact. reflexivity.
    - (* map1 *) intros f Hnf. cbn [nud_fn] in *. rewrite H, H0 in *. pstep ltac:(apply IHrun1).
      rewrite H2 in *. pstep ltac:(apply IHrun2). rewrite H4 in *. cbn [pbind] in *. pfact. pfact. reflexivity.
    - (* mapn *) intros f Hnf. cbn [nud_fn] in *. rewrite H, H0 in *. pstep ltac:(apply IHrun1).
      rewrite H2 in *. pstep ltac:(apply IHrun2). rewrite H4 in *.
      pstep ltac:(apply (IHrun3 f (S (len ts4)) [(k, v)])). pfact. pfact. reflexivity.
    - (* E_close *) intros f n acc Hnf. destruct n as [|n]; [exfalso; apply Hnf; reflexivity|].
      cbn [elems_loop] in *. rewrite H in *. rewrite app_nil_r. reflexivity.
    - intros f n acc Hnf. destruct n as [|n]; [exfalso; apply Hnf; reflexivity|].
      cbn [elems_loop] in *. rewrite H in *. pstep ltac:(apply IHrun). rewrite H1 in *. reflexivity.
    - intros f n acc Hnf. destruct n as [|n]; [exfalso; apply Hnf; reflexivity|].
      cbn [elems_loop] in *. rewrite H in *. pstep ltac:(apply IHrun1). rewrite H1 in *.
      rewrite <- rev_cons_app. apply IHrun2. exact Hnf.
    - (* P_close *) intros f n acc Hnf. destruct n as [|n]; [exfalso; apply Hnf; reflexivity|].
      cbn [pairs_loop] in *. rewrite H in *. rewrite app_nil_r. reflexivity.
    - intros f n acc Hnf. destruct n as [|n]; [exfalso; apply Hnf; reflexivity|].
      cbn [pairs_loop] in *. rewrite H in *. pstep ltac:(apply IHrun1). pfact. pstep ltac:(apply IHrun2).
      rewrite H3 in *. reflexivity.
    - intros f n acc Hnf. destruct n as [|n]; [exfalso; apply Hnf; reflexivity|].
      cbn [pairs_loop] in *. rewrite H in *. pstep ltac:(apply IHrun1). pfact. pstep ltac:(apply IHrun2).
      rewrite H3 in *. rewrite <- rev_cons_app. apply IHrun3. exact Hnf.
    - (* F_close *) intros f n acc Hnf. destruct n as [|n]; [exfalso; apply Hnf; reflexivity|].
      cbn [fields_loop] in *. rewrite H in *. rewrite app_nil_r. reflexivity.
    - intros f n acc Hnf. destruct n as [|n]; [exfalso; apply Hnf; reflexivity|].
      cbn [fields_loop] in *. rewrite H in *. pfact. pfact. pstep ltac:(apply IHrun).
      rewrite H3 in *. reflexivity.
    - intros f n acc Hnf. destruct n as [|n]; [exfalso; apply Hnf; reflexivity|].
      cbn [fields_loop] in *. rewrite H in *. pfact. pfact. pstep ltac:(apply IHrun1).
      rewrite H3 in *. rewrite <- rev_cons_app. apply IHrun2. exact Hnf.
    - (* A_last *) intros f n acc Hnf. destruct n as [|n]; [exfalso; apply Hnf; reflexivity|].
      cbn [args_loop] in *. pstep ltac:(apply IHrun). rewrite H0 in *. reflexivity.
    - intros f n acc Hnf. destruct n as [|n]; [exfalso; apply Hnf; reflexivity|].
      cbn [args_loop] in *. pstep ltac:(apply IHrun1). rewrite H0 in *.
      rewrite <- rev_cons_app. apply IHrun2. exact Hnf.
    - (* C_empty *) intros f Hnf. unfold parse_call in *. rewrite H in *. cbn [pbind] in *. pfact. reflexivity.
    - (* C_args *) intros f Hnf. unfold parse_call in *. rewrite H in *.
      pstep ltac:(let Hn := fresh "Hn" in intro Hn; pstep ltac:(apply (IHrun f (S (len ts)) [])); pfact; reflexivity).
      pfact. reflexivity.
    - (* L_bin *) intros f Hnf. destruct l; cbn in H; inv H; cbn [led_fn] in *;
        (pstep ltac:(apply IHrun)); pfact; reflexivity.
    - (* postfix *) intros f Hnf. cbn [led_fn] in *. pfact. reflexivity.
    - (* question *) intros f Hnf. cbn [led_fn] in *. pstep ltac:(apply IHrun1). pfact. pstep ltac:(apply IHrun2).
      pfact. reflexivity.
    - (* call *) intros f Hnf. cbn [led_fn] in *. apply IHrun. exact Hnf.
    - (* sub *) intros f Hnf. cbn [led_fn] in *. pstep ltac:(apply IHrun). pfact. pfact. reflexivity.
    - (* dot *) intros f Hnf. cbn [led_fn] in *. rewrite eat_peek_tl in *. pfact. rewrite H0 in *. reflexivity.
    - (* dotcall *) intros f Hnf. cbn [led_fn] in *. rewrite eat_peek_tl in *. pfact. rewrite H0 in *.
      apply IHrun. exact Hnf.
    - (* stop *) intros f n Hnf. destruct n as [|n]; [exfalso; apply Hnf; reflexivity|].
      cbn [infix_loop] in *. rewrite H in *. reflexivity.
    - (* step *) intros f n Hnf. destruct n as [|n]; [exfalso; apply Hnf; reflexivity|].
      cbn [infix_loop] in *. rewrite H in *. rewrite eat_peek_tl in *. rewrite H0 in *.
      pstep ltac:(apply IHrun1). rewrite H2 in *. apply IHrun2. exact Hnf.
  Qed.
End RunFn.

(* ---------- parse_complete needs the tokens in source order (pos.Range asserts to.Idx >= from.Idx) ---------- *)
Definition idx_sorted (ts : list token) : Prop := StronglySorted (fun a b => (t_idx a <= t_idx b)%N) ts.

Lemma idx_sorted_tsorted : forall ts, idx_sorted ts -> tsorted Z.le ts.
Proof.
  intros ts H. induction H as [|a l Hs IH Hf]; cbn [tsorted]; [exact I|]. split; [|exact IH].
  eapply Forall_impl; [|exact Hf]. intros b Hb. unfold tR. apply N2Z.inj_le. exact Hb.
Qed.

Lemma range_le : forall a b, p_idx a <= p_idx b -> range a b = POk (span a b).
Proof. intros a b H. unfold range. apply Z.leb_le in H. rewrite H. reflexivity. Qed.

Lemma parse_complete_partial : forall ops ts e,
  table_ok ops = true -> no_eof ts = true ->
  Forall (fun t => existsb (list_eqb (t_kind t)) fixed_kinds = true \/ t_lexeme t = t_kind t) ts ->
  idx_sorted ts ->
  yields (new_grammar ops) e ts -> wfp (new_grammar ops) 0 e = true ->
  parse_tokens ops ts = POk e.
Proof.
  intros ops ts e Hok _ Hlx Hso Hy Hw.
  pose proof (table_ok_gram_ok ops Hok) as Hg.
  destruct (complete_all (new_grammar ops) Hg range Z.le range_le e) as [HC _].
  assert (Hrun : runr (new_grammar ops) (JExpr 0 ts e [])).
  { rewrite <- (app_nil_r ts) at 1. apply HC; auto.
    - split; [exact Hlx | apply idx_sorted_tsorted; exact Hso].
    - apply closed_nil; exact Hg.
    - apply Lp_stop_le. rewrite (lbpk_nil _ Hg). lia. }
  apply run_fn in Hrun. cbn [P_fn] in Hrun.
  unfold parse_tokens. rewrite Hrun; [reflexivity|].
  apply p_expr_nf; [apply (go_eof _ Hg) | lia].
Qed.

Lemma wfp_unique_partial : forall ops ts e1 e2,
  table_ok ops = true -> no_eof ts = true ->
  Forall (fun t => existsb (list_eqb (t_kind t)) fixed_kinds = true \/ t_lexeme t = t_kind t) ts ->
  idx_sorted ts ->
  yields (new_grammar ops) e1 ts -> wfp (new_grammar ops) 0 e1 = true ->
  yields (new_grammar ops) e2 ts -> wfp (new_grammar ops) 0 e2 = true -> e1 = e2.
Proof.
  intros ops ts e1 e2 Hok Hne Hlx Hso Hy1 Hw1 Hy2 Hw2.
  pose proof (parse_complete_partial ops ts e1 Hok Hne Hlx Hso Hy1 Hw1) as H1.
  pose proof (parse_complete_partial ops ts e2 Hok Hne Hlx Hso Hy2 Hw2) as H2.
  congruence.
Qed.

(* ---------- the relation is deterministic (for any range function) ---------- *)
Section Det.
  Variable g : grammar.
  Variable rng : pos -> pos -> pres pos.

  Definition P_det (j : judg) : Prop :=
    match j with
    | JExpr rbp ts e rest => forall e' rest', run g rng (JExpr rbp ts e' rest') -> e = e' /\ rest = rest'
    | JNud n bp t ts e rest => forall e' rest', run g rng (JNud n bp t ts e' rest') -> e = e' /\ rest = rest'
    | JLoop rbp lft ts e rest => forall e' rest', run g rng (JLoop rbp lft ts e' rest') -> e = e' /\ rest = rest'
    | JLed l bp lft t ts e rest => forall e' rest', run g rng (JLed l bp lft t ts e' rest') -> e = e' /\ rest = rest'
    | JCall callee lp ts e rest => forall e' rest', run g rng (JCall callee lp ts e' rest') -> e = e' /\ rest = rest'
    | JElems close ts es rest => forall es' rest', run g rng (JElems close ts es' rest') -> es = es' /\ rest = rest'
    | JPairs ts kvs rest => forall kvs' rest', run g rng (JPairs ts kvs' rest') -> kvs = kvs' /\ rest = rest'
    | JFields ts fs rest => forall fs' rest', run g rng (JFields ts fs' rest') -> fs = fs' /\ rest = rest'
    | JArgs ts es rest => forall es' rest', run g rng (JArgs ts es' rest') -> es = es' /\ rest = rest'
    end.

  Ltac det :=
    repeat first
      [ match goal with
        | H1 : ?x = Some _, H2 : ?x = Some _ |- _ => rewrite H1 in H2; inv H2
        | H1 : ?x = POk _, H2 : ?x = POk _ |- _ => rewrite H1 in H2; inv H2
        | H1 : ?x = Some _, H2 : ?x = None |- _ => exfalso; congruence
        | H1 : ?x = true, H2 : ?x = false |- _ => exfalso; congruence
        | H : led_bin _ _ = Some _ |- _ => cbn in H; first [discriminate | inv H]
        end
      | match goal with
        | IH : (forall e' rest', run g rng _ -> _ = e' /\ _ = rest'), H : run g rng _ |- _ =>
            apply IH in H; destruct H; subst
        end ].

  Lemma run_det : forall j, run g rng j -> P_det j.
  Proof.
    intros j H. induction H; cbn [P_det] in *; intros e'' rest'' H';
      try (destruct l; cbn in H; inv H);
      inversion H'; subst; det; try (split; reflexivity).
  Qed.
End Det.

(* ---------- uniqueness, without any assumption on token positions ---------- *)
Definition rng_free (a b : pos) : pres pos := POk (span a b).

Lemma tsorted_trivial : forall ts, tsorted (fun _ _ => True) ts.
Proof.
  induction ts as [|t r IH]; cbn [tsorted]; [exact I|]. split; [|exact IH].
  apply Forall_forall. intros. exact I.
Qed.

Lemma complete_free : forall ops ts e,
  table_ok ops = true ->
  Forall (fun t => existsb (list_eqb (t_kind t)) fixed_kinds = true \/ t_lexeme t = t_kind t) ts ->
  yields (new_grammar ops) e ts -> wfp (new_grammar ops) 0 e = true ->
  run (new_grammar ops) rng_free (JExpr 0 ts e []).
Proof.
  intros ops ts e Hok Hlx Hy Hw.
  pose proof (table_ok_gram_ok ops Hok) as Hg.
  destruct (complete_all (new_grammar ops) Hg rng_free (fun _ _ => True) (fun a b _ => eq_refl) e) as [HC _].
  rewrite <- (app_nil_r ts) at 1. apply HC; auto.
  - split; [exact Hlx | apply tsorted_trivial].
  - apply closed_nil; exact Hg.
  - apply Lp_stop_le. rewrite (lbpk_nil _ Hg). lia.
Qed.

Lemma wfp_unique : forall ops ts e1 e2,
  table_ok ops = true -> no_eof ts = true ->
  Forall (fun t => existsb (list_eqb (t_kind t)) fixed_kinds = true \/ t_lexeme t = t_kind t) ts ->
  yields (new_grammar ops) e1 ts -> wfp (new_grammar ops) 0 e1 = true ->
  yields (new_grammar ops) e2 ts -> wfp (new_grammar ops) 0 e2 = true -> e1 = e2.
Proof.
  intros ops ts e1 e2 Hok _ Hlx Hy1 Hw1 Hy2 Hw2.
  pose proof (complete_free ops ts e1 Hok Hlx Hy1 Hw1) as H1.
  pose proof (complete_free ops ts e2 Hok Hlx Hy2 Hw2) as H2.
  apply (run_det _ _ _ H1) in H2. apply H2.
Qed.

(* ---------- summary ---------- *)
Print Assumptions group_closed.
Print Assumptions yields_span.
Print Assumptions parse_nonassoc.
Print Assumptions no_fuel_partial.
Print Assumptions no_fuel_table_ok.
Print Assumptions parse_yields.
Print Assumptions parse_wfp.
Print Assumptions parse_complete_partial.
Print Assumptions wfp_unique_partial.
Print Assumptions wfp_unique.
