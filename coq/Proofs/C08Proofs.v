(* C08 proofs *)
From Coq Require Import List String Bool NArith ZArith Lia Arith.
From Yae Require Import Base.Sexp Model.Lexer Model.Literal Model.Cst Model.Pratt Model.PrattSpec.
Import ListNotations.
Local Open Scope Z_scope.
Local Open Scope list_scope.

(* ---------- induction principle for the nested inductive [expr] ---------- *)
Section ExprInd.
  Variable P : expr -> Prop.
  Hypothesis Hstr : forall p t, P (EStr p t).
  Hypothesis Hnum : forall p t, P (ENum p t).
  Hypothesis Htime : forall p t, P (ETime p t).
  Hypothesis Hbool : forall p b, P (EBool p b).
  Hypothesis Hlist : forall p es, Forall P es -> P (EList p es).
  Hypothesis Hmap : forall p kvs, Forall (fun kv => P (fst kv) /\ P (snd kv)) kvs -> P (EMap p kvs).
  Hypothesis Hobj : forall p fs, Forall (fun f => P (snd f)) fs -> P (EObj p fs).
  Hypothesis Hident : forall p n, P (EIdent p n).
  Hypothesis Hcall : forall p c f args, P f -> Forall P args -> P (ECall p c f args).
  Hypothesis Hsub : forall p c v i, P v -> P i -> P (ESub p c v i).
  Hypothesis Hmember : forall p c o n np, P o -> P (EMember p c o n np).
  Hypothesis Hunary : forall p n np x pre, P x -> P (EUnary p n np x pre).
  Hypothesis Hbinary : forall p n np fx l r, P l -> P r -> P (EBinary p n np fx l r).
  Hypothesis Hternary : forall p n np l m r, P l -> P m -> P r -> P (ETernary p n np l m r).
  Hypothesis Hgroup : forall p x, P x -> P (EGroup p x).

  Fixpoint expr_ind' (e : expr) : P e :=
    match e with
    | EStr p t => Hstr p t | ENum p t => Hnum p t | ETime p t => Htime p t | EBool p b => Hbool p b
    | EList p es => Hlist p es ((fix go (l : list expr) : Forall P l :=
                                  match l with [] => Forall_nil _ | a :: r => Forall_cons _ (expr_ind' a) (go r) end) es)
    | EMap p kvs => Hmap p kvs ((fix go (l : list (expr * expr)) : Forall (fun kv => P (fst kv) /\ P (snd kv)) l :=
                                  match l with
                                  | [] => Forall_nil _
                                  | a :: r => Forall_cons _ (conj (expr_ind' (fst a)) (expr_ind' (snd a))) (go r)
                                  end) kvs)
    | EObj p fs => Hobj p fs ((fix go (l : list (list N * expr)) : Forall (fun f => P (snd f)) l :=
                                  match l with [] => Forall_nil _ | a :: r => Forall_cons _ (expr_ind' (snd a)) (go r) end) fs)
    | EIdent p n => Hident p n
    | ECall p c f args => Hcall p c f args (expr_ind' f)
                            ((fix go (l : list expr) : Forall P l :=
                                match l with [] => Forall_nil _ | a :: r => Forall_cons _ (expr_ind' a) (go r) end) args)
    | ESub p c v i => Hsub p c v i (expr_ind' v) (expr_ind' i)
    | EMember p c o n np => Hmember p c o n np (expr_ind' o)
    | EUnary p n np x pre => Hunary p n np x pre (expr_ind' x)
    | EBinary p n np fx l r => Hbinary p n np fx l r (expr_ind' l) (expr_ind' r)
    | ETernary p n np l m r => Hternary p n np l m r (expr_ind' l) (expr_ind' m) (expr_ind' r)
    | EGroup p x => Hgroup p x (expr_ind' x)
    end.
End ExprInd.

(* ---------- stage 1 ---------- *)
Lemma group_closed : forall g p x rbp,
  wfp g 0 x = true -> wfp g rbp (EGroup p x) = true /\ rom g (EGroup p x) = None.
Proof. intros g p x rbp H. split; [exact H | reflexivity]. Qed.

Lemma hd_app_ne : forall (a b : list token) d, a <> [] -> hd d (a ++ b) = hd d a.
Proof. intros [|x a] b d H; [congruence | reflexivity]. Qed.

Lemma last_app_ne : forall (a b : list token) d, b <> [] -> last (a ++ b) d = last b d.
Proof.
  induction a as [|x a IH]; intros b d H; [reflexivity|].
  change ((x :: a) ++ b) with (x :: (a ++ b)).
  cbn [last]. destruct (a ++ b) eqn:E.
  - apply app_eq_nil in E. destruct E; congruence.
  - rewrite <- E. apply IH; exact H.
Qed.

Lemma last_cons_ne : forall (x : token) a d, a <> [] -> last (x :: a) d = last a d.
Proof. intros x [|y a] d H; [congruence | reflexivity]. Qed.

Lemma last_snoc : forall (a : list token) x d, last (a ++ [x]) d = x.
Proof. intros. rewrite last_app_ne by congruence. reflexivity. Qed.

Lemma yields_span : forall g e ts,
  yields g e ts -> ts <> [] /\ expr_pos e = span (tok_pos (hd eof_tok ts)) (tok_pos (last ts eof_tok)).
Proof.
  intros g e ts H.
  induction H;
    repeat match goal with IH : _ /\ _ |- _ => destruct IH end;
    try (split; [congruence | reflexivity]).
  - (* prefix *) split; [congruence|].
    rewrite last_cons_ne by assumption. cbn [expr_pos hd].
    match goal with E : expr_pos _ = _ |- _ => rewrite E end. reflexivity.
  - (* postfix *) split; [intro E; apply app_eq_nil in E; destruct E; congruence|].
    rewrite last_snoc, hd_app_ne by assumption. cbn [expr_pos].
    match goal with E : expr_pos _ = _ |- _ => rewrite E end. reflexivity.
  - (* binary *) split; [intro E; apply app_eq_nil in E; destruct E; congruence|].
    rewrite hd_app_ne by assumption. rewrite last_app_ne by congruence.
    rewrite last_cons_ne by assumption. cbn [expr_pos].
    repeat match goal with E : expr_pos _ = _ |- _ => rewrite E; clear E end. reflexivity.
  - (* ternary *) split; [intro E; apply app_eq_nil in E; destruct E; congruence|].
    rewrite hd_app_ne by assumption. rewrite last_app_ne by congruence.
    rewrite last_cons_ne by (intro E; apply app_eq_nil in E; destruct E; congruence).
    rewrite last_app_ne by congruence. rewrite last_cons_ne by assumption. cbn [expr_pos].
    repeat match goal with E : expr_pos _ = _ |- _ => rewrite E; clear E end. reflexivity.
  - (* group *) split; [congruence|].
    rewrite last_cons_ne by (intro E; apply app_eq_nil in E; destruct E; congruence).
    rewrite last_snoc. reflexivity.
  - (* call *) split; [intro E; apply app_eq_nil in E; destruct E; congruence|].
    rewrite hd_app_ne by assumption. rewrite last_app_ne by congruence.
    rewrite last_cons_ne by (intro E; apply app_eq_nil in E; destruct E; congruence).
    rewrite last_snoc. cbn [expr_pos].
    repeat match goal with E : expr_pos _ = _ |- _ => rewrite E; clear E end. reflexivity.
  - (* member *) split; [intro E; apply app_eq_nil in E; destruct E; congruence|].
    rewrite hd_app_ne by assumption. rewrite last_app_ne by congruence. cbn [expr_pos last].
    repeat match goal with E : expr_pos _ = _ |- _ => rewrite E; clear E end. reflexivity.
  - (* sub *) split; [intro E; apply app_eq_nil in E; destruct E; congruence|].
    rewrite hd_app_ne by assumption. rewrite last_app_ne by congruence.
    rewrite last_cons_ne by (intro E; apply app_eq_nil in E; destruct E; congruence).
    rewrite last_snoc. cbn [expr_pos].
    repeat match goal with E : expr_pos _ = _ |- _ => rewrite E; clear E end. reflexivity.
  - (* list *) split; [congruence|].
    rewrite last_cons_ne by (intro E; apply app_eq_nil in E; destruct E as [_ E]; apply app_eq_nil in E; destruct E; congruence).
    rewrite app_assoc, last_snoc. reflexivity.
  - (* map *) split; [congruence|].
    rewrite last_cons_ne by (intro E; apply app_eq_nil in E; destruct E as [_ E]; apply app_eq_nil in E; destruct E; congruence).
    rewrite app_assoc, last_snoc. reflexivity.
  - (* obj *) split; [congruence|].
    rewrite last_cons_ne by (intro E; apply app_eq_nil in E; destruct E as [_ E]; apply app_eq_nil in E; destruct E; congruence).
    rewrite app_assoc, last_snoc. reflexivity.
Qed.

(* ---------- big-step relational semantics of the parser model (fuel-free) ---------- *)
Definition led_bin (l : led) (bp : Z) : option (N * Z) :=
  match l with LBinL => Some (3%N, bp) | LBinR => Some (4%N, bp - 8) | LBinN => Some (2%N, bp) | _ => None end.

Inductive judg :=
| JExpr (rbp : Z) (ts : list token) (e : expr) (rest : list token)
| JNud (n : nud) (bp : Z) (t : token) (ts : list token) (e : expr) (rest : list token)
| JLoop (rbp : Z) (left : expr) (ts : list token) (e : expr) (rest : list token)
| JLed (l : led) (bp : Z) (left : expr) (t : token) (ts : list token) (e : expr) (rest : list token)
| JCall (callee : expr) (lp : token) (ts : list token) (e : expr) (rest : list token)
| JElems (close : list N) (ts : list token) (es : list expr) (rest : list token)
| JPairs (ts : list token) (kvs : list (expr * expr)) (rest : list token)
| JFields (ts : list token) (fs : list (list N * expr)) (rest : list token)
| JArgs (ts : list token) (es : list expr) (rest : list token).

Section Run.
  Variable g : grammar.
  Variable rng : pos -> pos -> pres pos.   (* [range] for the parser; a check-free variant is used for uniqueness *)

  Inductive run : judg -> Prop :=
  | R_expr : forall rbp ts bp n lft ts2 e rest,
      get (t_kind (peek ts)) (g_prefix g) = Some (bp, n) ->
      run (JNud n bp (peek ts) (tl ts) lft ts2) -> run (JLoop rbp lft ts2 e rest) ->
      run (JExpr rbp ts e rest)
  (* nud *)
  | N_ident : forall bp t ts, run (JNud NIdent bp t ts (EIdent (tpos t) (t_lexeme t)) ts)
  | N_true : forall bp t ts, run (JNud NTrue bp t ts (EBool (tpos t) true) ts)
  | N_false : forall bp t ts, run (JNud NFalse bp t ts (EBool (tpos t) false) ts)
  | N_num : forall bp t ts, num_parse (t_lexeme t) <> None -> run (JNud NNum bp t ts (ENum (tpos t) (t_lexeme t)) ts)
  | N_str : forall bp t ts, str_value (t_lexeme t) <> None -> run (JNud NStr bp t ts (EStr (tpos t) (t_lexeme t)) ts)
  | N_time : forall bp t ts, run (JNud NTime bp t ts (ETime (tpos t) (t_lexeme t)) ts)
  | N_prefix : forall bp t ts e ts1 p,
      run (JExpr bp ts e ts1) -> rng (tpos t) (expr_pos e) = POk p ->
      run (JNud NPrefix bp t ts (EUnary p (t_lexeme t) (tpos t) e true) ts1)
  | N_group : forall bp t ts e ts1 rp ts2 p,
      run (JExpr 0 ts e ts1) -> must_eat K_RPAREN ts1 = POk (rp, ts2) -> rng (tpos t) (tpos rp) = POk p ->
      run (JNud NGroup bp t ts (EGroup p e) ts2)
  | N_obj : forall bp t ts fs ts1 rb ts2 p,
      run (JFields ts fs ts1) -> must_eat K_RBRACE ts1 = POk (rb, ts2) -> rng (tpos t) (tpos rb) = POk p ->
      run (JNud NObj bp t ts (EObj p fs) ts2)
  | N_map_empty : forall bp t ts c ts1 rb ts2 p,
      try_eat K_COLON ts = Some (c, ts1) -> must_eat K_RBRACKET ts1 = POk (rb, ts2) -> rng (tpos t) (tpos rb) = POk p ->
      run (JNud NListMap bp t ts (EMap p []) ts2)
  | N_list_empty : forall bp t ts rb ts1 p,
      try_eat K_COLON ts = None -> kind_is (peek ts) K_RBRACKET = true ->
      must_eat K_RBRACKET ts = POk (rb, ts1) -> rng (tpos t) (tpos rb) = POk p ->
      run (JNud NListMap bp t ts (EList p []) ts1)
  | N_list1 : forall bp t ts e ts1 rb ts3 p,
      try_eat K_COLON ts = None -> kind_is (peek ts) K_RBRACKET = false ->
      run (JExpr 0 ts e ts1) -> try_eat K_COLON ts1 = None -> try_eat K_COMMA ts1 = None ->
      must_eat K_RBRACKET ts1 = POk (rb, ts3) -> rng (tpos t) (tpos rb) = POk p ->
      run (JNud NListMap bp t ts (EList p [e]) ts3)
  | N_listn : forall bp t ts e ts1 c ts2 es ts2' rb ts3 p,
      try_eat K_COLON ts = None -> kind_is (peek ts) K_RBRACKET = false ->
      run (JExpr 0 ts e ts1) -> try_eat K_COLON ts1 = None -> try_eat K_COMMA ts1 = Some (c, ts2) ->
      run (JElems K_RBRACKET ts2 es ts2') ->
      must_eat K_RBRACKET ts2' = POk (rb, ts3) -> rng (tpos t) (tpos rb) = POk p ->
      run (JNud NListMap bp t ts (EList p (e :: es)) ts3)
  | N_map1 : forall bp t ts k ts1 c ts2 v ts3 rb ts5 p,
      try_eat K_COLON ts = None -> kind_is (peek ts) K_RBRACKET = false ->
      run (JExpr 0 ts k ts1) -> try_eat K_COLON ts1 = Some (c, ts2) -> run (JExpr 0 ts2 v ts3) ->
      try_eat K_COMMA ts3 = None ->
      must_eat K_RBRACKET ts3 = POk (rb, ts5) -> rng (tpos t) (tpos rb) = POk p ->
      run (JNud NListMap bp t ts (EMap p [(k, v)]) ts5)
  | N_mapn : forall bp t ts k ts1 c ts2 v ts3 c2 ts4 kvs ts4' rb ts5 p,
      try_eat K_COLON ts = None -> kind_is (peek ts) K_RBRACKET = false ->
      run (JExpr 0 ts k ts1) -> try_eat K_COLON ts1 = Some (c, ts2) -> run (JExpr 0 ts2 v ts3) ->
      try_eat K_COMMA ts3 = Some (c2, ts4) -> run (JPairs ts4 kvs ts4') ->
      must_eat K_RBRACKET ts4' = POk (rb, ts5) -> rng (tpos t) (tpos rb) = POk p ->
      run (JNud NListMap bp t ts (EMap p ((k, v) :: kvs)) ts5)
  (* loops *)
  | E_close : forall close ts, kind_is (peek ts) close = true -> run (JElems close ts [] ts)
  | E_last : forall close ts e ts1,
      kind_is (peek ts) close = false -> run (JExpr 0 ts e ts1) -> try_eat K_COMMA ts1 = None ->
      run (JElems close ts [e] ts1)
  | E_more : forall close ts e ts1 c ts2 es rest,
      kind_is (peek ts) close = false -> run (JExpr 0 ts e ts1) -> try_eat K_COMMA ts1 = Some (c, ts2) ->
      run (JElems close ts2 es rest) -> run (JElems close ts (e :: es) rest)
  | P_close : forall ts, kind_is (peek ts) K_RBRACKET = true -> run (JPairs ts [] ts)
  | P_last : forall ts k ts1 c ts2 v ts3,
      kind_is (peek ts) K_RBRACKET = false -> run (JExpr 0 ts k ts1) -> must_eat K_COLON ts1 = POk (c, ts2) ->
      run (JExpr 0 ts2 v ts3) -> try_eat K_COMMA ts3 = None -> run (JPairs ts [(k, v)] ts3)
  | P_more : forall ts k ts1 c ts2 v ts3 c2 ts4 kvs rest,
      kind_is (peek ts) K_RBRACKET = false -> run (JExpr 0 ts k ts1) -> must_eat K_COLON ts1 = POk (c, ts2) ->
      run (JExpr 0 ts2 v ts3) -> try_eat K_COMMA ts3 = Some (c2, ts4) -> run (JPairs ts4 kvs rest) ->
      run (JPairs ts ((k, v) :: kvs) rest)
  | F_close : forall ts, kind_is (peek ts) K_RBRACE = true -> run (JFields ts [] ts)
  | F_last : forall ts nm ts1 c ts2 v ts3,
      kind_is (peek ts) K_RBRACE = false -> must_eat K_SYM ts = POk (nm, ts1) -> must_eat K_COLON ts1 = POk (c, ts2) ->
      run (JExpr 0 ts2 v ts3) -> try_eat K_COMMA ts3 = None -> run (JFields ts [(t_lexeme nm, v)] ts3)
  | F_more : forall ts nm ts1 c ts2 v ts3 c2 ts4 fs rest,
      kind_is (peek ts) K_RBRACE = false -> must_eat K_SYM ts = POk (nm, ts1) -> must_eat K_COLON ts1 = POk (c, ts2) ->
      run (JExpr 0 ts2 v ts3) -> try_eat K_COMMA ts3 = Some (c2, ts4) -> run (JFields ts4 fs rest) ->
      run (JFields ts ((t_lexeme nm, v) :: fs) rest)
  | A_last : forall ts e ts1, run (JExpr 0 ts e ts1) -> try_eat K_COMMA ts1 = None -> run (JArgs ts [e] ts1)
  | A_more : forall ts e ts1 c ts2 es rest,
      run (JExpr 0 ts e ts1) -> try_eat K_COMMA ts1 = Some (c, ts2) -> run (JArgs ts2 es rest) ->
      run (JArgs ts (e :: es) rest)
  (* call *)
  | C_empty : forall callee lp ts rp ts1 p,
      try_eat K_RPAREN ts = Some (rp, ts1) -> rng (expr_pos callee) (tpos rp) = POk p ->
      run (JCall callee lp ts (ECall p (Z.of_N (t_col lp)) callee []) ts1)
  | C_args : forall callee lp ts args ts1 rp ts2 p,
      try_eat K_RPAREN ts = None -> run (JArgs ts args ts1) -> must_eat K_RPAREN ts1 = POk (rp, ts2) ->
      rng (expr_pos callee) (tpos rp) = POk p ->
      run (JCall callee lp ts (ECall p (Z.of_N (t_col lp)) callee args) ts2)
  (* led *)
  | L_bin : forall l bp left t ts fx r x ts1 p,
      led_bin l bp = Some (fx, r) -> run (JExpr r ts x ts1) -> rng (expr_pos left) (expr_pos x) = POk p ->
      run (JLed l bp left t ts (EBinary p (t_lexeme t) (tpos t) fx left x) ts1)
  | L_postfix : forall bp left t ts p,
      rng (expr_pos left) (tpos t) = POk p ->
      run (JLed LPostfix bp left t ts (EUnary p (t_lexeme t) (tpos t) left false) ts)
  | L_question : forall bp left t ts m ts1 c ts2 r ts3 p,
      run (JExpr 0 ts m ts1) -> must_eat K_COLON ts1 = POk (c, ts2) -> run (JExpr (bp - 8) ts2 r ts3) ->
      rng (expr_pos left) (expr_pos r) = POk p ->
      run (JLed LQuestion bp left t ts (ETernary p (t_lexeme t) (tpos t) left m r) ts3)
  | L_call : forall bp left t ts e rest, run (JCall left t ts e rest) -> run (JLed LCall bp left t ts e rest)
  | L_sub : forall bp left t ts i ts1 rb ts2 p,
      run (JExpr 0 ts i ts1) -> must_eat K_RBRACKET ts1 = POk (rb, ts2) -> rng (expr_pos left) (tpos rb) = POk p ->
      run (JLed LSubscript bp left t ts (ESub p (Z.of_N (t_col t)) left i) ts2)
  | L_dot : forall bp left t ts p,
      rng (expr_pos left) (tpos (peek ts)) = POk p -> try_eat K_LPAREN (tl ts) = None ->
      run (JLed LDot bp left t ts (EMember p (Z.of_N (t_col t)) left (t_lexeme (peek ts)) (tpos (peek ts))) (tl ts))
  | L_dotcall : forall bp left t ts p lp ts2 e rest,
      rng (expr_pos left) (tpos (peek ts)) = POk p -> try_eat K_LPAREN (tl ts) = Some (lp, ts2) ->
      run (JCall (EMember p (Z.of_N (t_col t)) left (t_lexeme (peek ts)) (tpos (peek ts))) lp ts2 e rest) ->
      run (JLed LDot bp left t ts e rest)
  (* infix loop *)
  | Lp_stop : forall rbp left ts, Z.ltb rbp (infix_lbp g (peek ts)) = false -> run (JLoop rbp left ts left ts)
  | Lp_step : forall rbp left ts bp l left' ts2 e rest,
      Z.ltb rbp (infix_lbp g (peek ts)) = true -> get (t_kind (peek ts)) (g_infix g) = Some (bp, l) ->
      run (JLed l bp left (peek ts) (tl ts) left' ts2) -> infix_n_ok left' = true ->
      run (JLoop rbp left' ts2 e rest) -> run (JLoop rbp left ts e rest).

  Lemma eat_peek_tl : forall ts, eat ts = (peek ts, tl ts).
  Proof. intros [|t r]; reflexivity. Qed.
End Run.
Notation runr g := (run g range).

(* ---------- the functions compute the relation ---------- *)
Ltac inv H := inversion H; subst; clear H.

Lemma pbind_ok : forall {X Y} (r : pres X) (f : X -> pres Y) y,
  pbind r f = POk y -> exists x, r = POk x /\ f x = POk y.
Proof. intros X Y [x| |] f y H; cbn in H; try discriminate. eauto. Qed.

Ltac bind_inv H :=
  let x := fresh "x" in let Hx := fresh "Hx" in
  apply pbind_ok in H; destruct H as [x [Hx H]].

Section FnRun.
  Variable g : grammar.
  Variable rec : Z -> list token -> pres (expr * list token).
  Hypothesis Hrec : forall rbp ts e rest, rec rbp ts = POk (e, rest) -> runr g (JExpr rbp ts e rest).

  Lemma elems_loop_run : forall n close ts acc res rest,
    elems_loop rec n close ts acc = POk (res, rest) ->
    exists es, res = rev acc ++ es /\ runr g (JElems close ts es rest).
  Proof.
    induction n as [|n IH]; intros close ts acc res rest H; cbn [elems_loop] in H; [discriminate|].
    destruct (kind_is (peek ts) close) eqn:Hc.
    - inv H. exists []. rewrite app_nil_r. split; [reflexivity | constructor; exact Hc].
    - bind_inv H. destruct x as [e ts1]. destruct (try_eat K_COMMA ts1) as [[c ts2]|] eqn:Hcm.
      + apply IH in H. destruct H as [es [-> Hr]]. exists (e :: es). split.
        * cbn [rev]. rewrite <- app_assoc. reflexivity.
        * eapply E_more; eauto.
      + inv H. exists [e]. split; [reflexivity | eapply E_last; eauto].
  Qed.

  Lemma pairs_loop_run : forall n ts acc res rest,
    pairs_loop rec n ts acc = POk (res, rest) ->
    exists kvs, res = rev acc ++ kvs /\ runr g (JPairs ts kvs rest).
  Proof.
    induction n as [|n IH]; intros ts acc res rest H; cbn [pairs_loop] in H; [discriminate|].
    destruct (kind_is (peek ts) K_RBRACKET) eqn:Hc.
    - inv H. exists []. rewrite app_nil_r. split; [reflexivity | constructor; exact Hc].
    - bind_inv H. destruct x as [k ts1]. bind_inv H. destruct x as [c ts2]. bind_inv H. destruct x as [v ts3].
      destruct (try_eat K_COMMA ts3) as [[c2 ts4]|] eqn:Hcm.
      + apply IH in H. destruct H as [kvs [-> Hr]]. exists ((k, v) :: kvs). split.
        * cbn [rev]. rewrite <- app_assoc. reflexivity.
        * eapply P_more; eauto.
      + inv H. exists [(k, v)]. split; [reflexivity | eapply P_last; eauto].
  Qed.

  Lemma fields_loop_run : forall n ts acc res rest,
    fields_loop rec n ts acc = POk (res, rest) ->
    exists fs, res = rev acc ++ fs /\ runr g (JFields ts fs rest).
  Proof.
    induction n as [|n IH]; intros ts acc res rest H; cbn [fields_loop] in H; [discriminate|].
    destruct (kind_is (peek ts) K_RBRACE) eqn:Hc.
    - inv H. exists []. rewrite app_nil_r. split; [reflexivity | constructor; exact Hc].
    - bind_inv H. destruct x as [nm ts1]. bind_inv H. destruct x as [c ts2]. bind_inv H. destruct x as [v ts3].
      destruct (try_eat K_COMMA ts3) as [[c2 ts4]|] eqn:Hcm.
      + apply IH in H. destruct H as [fs [-> Hr]]. exists ((t_lexeme nm, v) :: fs). split.
        * cbn [rev]. rewrite <- app_assoc. reflexivity.
        * eapply F_more; eauto.
      + inv H. exists [(t_lexeme nm, v)]. split; [reflexivity | eapply F_last; eauto].
  Qed.

  Lemma args_loop_run : forall n ts acc res rest,
    args_loop rec n ts acc = POk (res, rest) ->
    exists es, res = rev acc ++ es /\ runr g (JArgs ts es rest).
  Proof.
    induction n as [|n IH]; intros ts acc res rest H; cbn [args_loop] in H; [discriminate|].
    bind_inv H. destruct x as [e ts1]. destruct (try_eat K_COMMA ts1) as [[c ts2]|] eqn:Hcm.
    - apply IH in H. destruct H as [es [-> Hr]]. exists (e :: es). split.
      + cbn [rev]. rewrite <- app_assoc. reflexivity.
      + eapply A_more; eauto.
    - inv H. exists [e]. split; [reflexivity | eapply A_last; eauto].
  Qed.

  Lemma parse_call_run : forall callee lp ts e rest,
    parse_call rec callee lp ts = POk (e, rest) -> runr g (JCall callee lp ts e rest).
  Proof.
    intros callee lp ts e rest H. unfold parse_call in H.
    bind_inv H. destruct x as [[args rp] ts']. bind_inv H. inv H.
    destruct (try_eat K_RPAREN ts) as [[rp1 ts1]|] eqn:Hrp.
    - inv Hx. eapply C_empty; eauto.
    - bind_inv Hx. destruct x0 as [args1 ts1]. bind_inv Hx. destruct x0 as [rp2 ts2]. inv Hx.
      apply args_loop_run in Hx1. destruct Hx1 as [es [-> Hr]]. cbn [rev app].
      eapply C_args; eauto.
  Qed.

  Lemma nud_fn_run : forall n bp t ts e rest,
    nud_fn rec n bp t ts = POk (e, rest) -> runr g (JNud n bp t ts e rest).
  Proof.
    intros n bp t ts e rest H. destruct n; cbn [nud_fn] in H.
    - inv H. constructor.
    - inv H. constructor.
    - inv H. constructor.
    - destruct (num_parse (t_lexeme t)) eqn:E; inv H. constructor. congruence.
    - destruct (str_value (t_lexeme t)) eqn:E; inv H. constructor. congruence.
    - inv H. constructor.
    - (* listmap *)
      destruct (try_eat K_COLON ts) as [[c ts1]|] eqn:Hcol.
      + bind_inv H. destruct x as [rb ts2]. bind_inv H. inv H. eapply N_map_empty; eauto.
      + destruct (kind_is (peek ts) K_RBRACKET) eqn:Hrb.
        * bind_inv H. destruct x as [rb ts1]. bind_inv H. inv H. eapply N_list_empty; eauto.
        * bind_inv H. destruct x as [e1 ts1].
          destruct (try_eat K_COLON ts1) as [[c ts2]|] eqn:Hcol1.
          -- bind_inv H. destruct x as [v ts3]. bind_inv H. destruct x as [kvs ts4].
             bind_inv H. destruct x as [rb ts5]. bind_inv H. inv H.
             destruct (try_eat K_COMMA ts3) as [[c2 ts4']|] eqn:Hcm.
             ++ apply pairs_loop_run in Hx1. destruct Hx1 as [kvs' [-> Hr]]. cbn [rev app].
                eapply N_mapn; eauto.
             ++ inv Hx1. eapply N_map1; eauto.
          -- bind_inv H. destruct x as [es ts2]. bind_inv H. destruct x as [rb ts3]. bind_inv H. inv H.
             destruct (try_eat K_COMMA ts1) as [[c2 ts2']|] eqn:Hcm.
             ++ apply elems_loop_run in Hx0. destruct Hx0 as [es' [-> Hr]]. cbn [rev app].
                eapply N_listn; eauto.
             ++ inv Hx0. eapply N_list1; eauto.
    - (* obj *)
      bind_inv H. destruct x as [fs ts1]. bind_inv H. destruct x as [rb ts2]. bind_inv H. inv H.
      apply fields_loop_run in Hx. destruct Hx as [fs' [-> Hr]]. cbn [rev app]. eapply N_obj; eauto.
    - bind_inv H. destruct x as [e1 ts1]. bind_inv H. destruct x as [rp ts2]. bind_inv H. inv H.
      eapply N_group; eauto.
    - bind_inv H. destruct x as [e1 ts1]. bind_inv H. inv H. eapply N_prefix; eauto.
  Qed.

  Lemma led_fn_run : forall l bp left t ts e rest,
    led_fn rec l bp left t ts = POk (e, rest) -> runr g (JLed l bp left t ts e rest).
  Proof.
    intros l bp left t ts e rest H. destruct l; cbn [led_fn] in H.
    - bind_inv H. destruct x as [r ts1]. bind_inv H. inv H. eapply L_bin; eauto. reflexivity.
    - bind_inv H. destruct x as [r ts1]. bind_inv H. inv H. eapply L_bin; eauto. reflexivity.
    - bind_inv H. destruct x as [r ts1]. bind_inv H. inv H. eapply L_bin; eauto. reflexivity.
    - bind_inv H. inv H. eapply L_postfix; eauto.
    - bind_inv H. destruct x as [m ts1]. bind_inv H. destruct x as [c ts2]. bind_inv H. destruct x as [r ts3].
      bind_inv H. inv H. eapply L_question; eauto.
    - rewrite eat_peek_tl in H. bind_inv H.
      destruct (try_eat K_LPAREN (tl ts)) as [[lp ts2]|] eqn:Hlp.
      + eapply L_dotcall; eauto. apply parse_call_run; exact H.
      + inv H. eapply L_dot; eauto.
    - apply L_call. apply parse_call_run; exact H.
    - bind_inv H. destruct x as [i ts1]. bind_inv H. destruct x as [rb ts2]. bind_inv H. inv H.
      eapply L_sub; eauto.
  Qed.

  Lemma infix_loop_run : forall n rbp left ts e rest,
    infix_loop g rec n rbp left ts = POk (e, rest) -> runr g (JLoop rbp left ts e rest).
  Proof.
    induction n as [|n IH]; intros rbp left ts e rest H; cbn [infix_loop] in H; [discriminate|].
    destruct (Z.ltb rbp (infix_lbp g (peek ts))) eqn:Hlt.
    - rewrite eat_peek_tl in H. destruct (get (t_kind (peek ts)) (g_infix g)) as [[bp l]|] eqn:Hg; [|discriminate].
      bind_inv H. destruct x as [left' ts2]. destruct (infix_n_ok left') eqn:Hok; [|discriminate].
      eapply Lp_step; eauto. apply led_fn_run; exact Hx.
    - inv H. apply Lp_stop; exact Hlt.
  Qed.

  Lemma expr_step_run : forall rbp ts e rest,
    expr_step g rec rbp ts = POk (e, rest) -> runr g (JExpr rbp ts e rest).
  Proof.
    intros rbp ts e rest H. unfold expr_step in H. rewrite eat_peek_tl in H.
    destruct (get (t_kind (peek ts)) (g_prefix g)) as [[bp n]|] eqn:Hg; [|discriminate].
    bind_inv H. destruct x as [lft ts2].
    eapply R_expr; eauto. apply nud_fn_run; exact Hx. apply infix_loop_run in H; exact H.
  Qed.
End FnRun.

Lemma p_expr_run : forall g f rbp ts e rest,
  p_expr g f rbp ts = POk (e, rest) -> runr g (JExpr rbp ts e rest).
Proof.
  induction f as [|f IH]; intros rbp ts e rest H; cbn [p_expr] in H; [discriminate|].
  eapply expr_step_run; [|exact H]. exact IH.
Qed.

(* ---------- stage 2: non-associative operators are never chained ---------- *)
Definition nnc := no_nonassoc_chain.

Definition P_nnc (j : judg) : Prop :=
  match j with
  | JExpr _ _ e _ => nnc e = true
  | JNud _ _ _ _ e _ => nnc e = true
  | JLoop _ lft _ e _ => nnc lft = true -> nnc e = true
  | JLed _ _ lft _ _ e _ => nnc lft = true -> infix_n_ok e = true -> nnc e = true
  | JCall callee _ _ e _ => nnc callee = true -> nnc e = true
  | JElems _ _ es _ => forallb nnc es = true
  | JPairs _ kvs _ => forallb (fun kv => nnc (fst kv) && nnc (snd kv)) kvs = true
  | JFields _ fs _ => forallb (fun f => nnc (snd f)) fs = true
  | JArgs _ es _ => forallb nnc es = true
  end.

Lemma run_nnc : forall g j, runr g j -> P_nnc j.
Proof.
  intros g j H. induction H; cbn [P_nnc] in *; unfold nnc in *; cbn [no_nonassoc_chain forallb fst snd] in *;
    repeat match goal with H : ?x = true |- context [?x] => rewrite H end; cbn [andb]; auto.
  - intros Hl. rewrite Hl. reflexivity.
  - intros Hl. rewrite Hl. reflexivity.
  - (* bin *) intros Hl Hok. rewrite Hl.
    destruct l; cbn in H; inv H; cbn [N.eqb Pos.eqb andb]; try reflexivity.
    unfold same_binary. cbn [infix_n_ok] in Hok. rewrite Hok. reflexivity.
  - intros Hl _. rewrite Hl. reflexivity.
  - intros Hl _. rewrite Hl. reflexivity.
Qed.

Lemma parse_nonassoc : forall ops ts e,
  parse_tokens ops ts = POk e -> no_nonassoc_chain e = true.
Proof.
  intros ops ts e H. unfold parse_tokens in H. bind_inv H. destruct x as [e1 rest].
  destruct rest; inv H. apply p_expr_run in Hx. apply run_nnc in Hx. exact Hx.
Qed.

(* ---------- tables: list_eqb, get/put, new_grammar ---------- *)
Lemma list_eqb_eq : forall a b, list_eqb a b = true <-> a = b.
Proof.
  induction a as [|x a IH]; intros [|y b]; cbn [list_eqb]; split; intro H; try discriminate; try reflexivity.
  - apply andb_true_iff in H. destruct H as [H1 H2]. apply N.eqb_eq in H1. apply IH in H2. congruence.
  - inv H. rewrite N.eqb_refl. cbn. apply IH. reflexivity.
Qed.

Lemma list_eqb_refl : forall a, list_eqb a a = true.
Proof. intro a. apply list_eqb_eq. reflexivity. Qed.

Lemma list_eqb_neq : forall a b, list_eqb a b = false <-> a <> b.
Proof.
  intros a b. split.
  - intros H E. apply list_eqb_eq in E. congruence.
  - intro H. destruct (list_eqb a b) eqn:E; [|reflexivity]. apply list_eqb_eq in E. contradiction.
Qed.

Lemma list_eqb_sym : forall a b, list_eqb a b = list_eqb b a.
Proof.
  intros a b. destruct (list_eqb a b) eqn:E.
  - apply list_eqb_eq in E. subst. symmetry. apply list_eqb_refl.
  - symmetry. apply list_eqb_neq. apply list_eqb_neq in E. congruence.
Qed.

Lemma get_put : forall {X} k k' (x : X) l,
  get k (put k' x l) = if list_eqb k k' then Some x else get k l.
Proof.
  intros X k k' x l. induction l as [|[k2 x2] r IH]; cbn [put get].
  - reflexivity.
  - destruct (list_eqb k' k2) eqn:E.
    + apply list_eqb_eq in E. subst k2. cbn [get]. destruct (list_eqb k k'); reflexivity.
    + cbn [get]. rewrite IH. destruct (list_eqb k k2) eqn:E2; [|reflexivity].
      destruct (list_eqb k k') eqn:E3; [|reflexivity].
      apply list_eqb_eq in E2. apply list_eqb_eq in E3. subst. rewrite list_eqb_refl in E. discriminate.
Qed.

Lemma in_insert_by_len : forall {X} key (x o : X) l, In o (insert_by_len key x l) -> o = x \/ In o l.
Proof.
  intros X key x o l. induction l as [|y r IH]; cbn [insert_by_len]; intro H.
  - destruct H as [H|[]]. left. congruence.
  - destruct (Nat.leb (key y) (key x)).
    + destruct H as [H|H]; [left; congruence | right; exact H].
    + destruct H as [H|H]; [right; left; exact H|]. apply IH in H. destruct H; [left | right; right]; assumption.
Qed.

Lemma in_sort_ops : forall {X} key (o : X) l, In o (sort_ops key l) -> In o l.
Proof.
  intros X key o l. unfold sort_ops. induction l as [|x r IH]; cbn [fold_right]; intro H; [exact H|].
  apply in_insert_by_len in H. destruct H as [H|H]; [left; congruence | right; apply IH; exact H].
Qed.

Definition ng_p0 : list (list N * (Z * nud)) :=
  fold_left (fun acc kn => put (fst kn) (BP_NONE, snd kn) acc)
    [(K_SYM, NIdent); (K_TRUE, NTrue); (K_FALSE, NFalse); (K_NUM, NNum); (K_STR, NStr); (K_TIME, NTime);
     (K_LBRACKET, NListMap); (K_LBRACE, NObj); (K_LPAREN, NGroup)] [].

Definition ng_step : (list (list N * (Z * nud)) * list (list N * (Z * led))) -> operator ->
                     (list (list N * (Z * nud)) * list (list N * (Z * led))) :=
  fun '(p, i) o =>
    match o_fix o with
    | 1%N => (put (o_kind o) (o_bp o, NPrefix) p, i)
    | 2%N => (p, put (o_kind o) (o_bp o, LBinN) i)
    | 3%N => (p, put (o_kind o) (o_bp o, LBinL) i)
    | 4%N => (p, put (o_kind o) (o_bp o, LBinR) i)
    | 5%N => (p, put (o_kind o) (o_bp o, LPostfix) i)
    | _ => (p, i)
    end.

Definition ng_fixed_infix (i1 : list (list N * (Z * led))) :=
  put K_LBRACKET (BP_MEMBER, LSubscript)
    (put K_LPAREN (BP_CALL, LCall) (put K_DOT (BP_MEMBER, LDot) (put K_QUESTION (BP_COND, LQuestion) i1))).

Lemma new_grammar_eq : forall ops,
  new_grammar ops =
  let pi := fold_left ng_step (sort_ops (fun o => byte_len (o_kind o)) ops) (ng_p0, []) in
  mkGrammar (fst pi) (ng_fixed_infix (snd pi)).
Proof.
  intro ops. unfold new_grammar. fold ng_p0. fold ng_step.
  destruct (fold_left ng_step (sort_ops (fun o => byte_len (o_kind o)) ops) (ng_p0, [])) as [p1 i1].
  reflexivity.
Qed.

Definition led_of_fix (fx : N) : option led :=
  match fx with 2%N => Some LBinN | 3%N => Some LBinL | 4%N => Some LBinR | 5%N => Some LPostfix | _ => None end.

Lemma ng_fold_prefix : forall l p i k bp n,
  get k (fst (fold_left ng_step l (p, i))) = Some (bp, n) ->
  get k p = Some (bp, n) \/ (n = NPrefix /\ exists o, In o l /\ o_kind o = k /\ o_bp o = bp /\ o_fix o = 1%N).
Proof.
  induction l as [|o l IH]; intros p i k bp n H; cbn [fold_left] in H.
  - left. exact H.
  - assert (Hstep : exists p' i', ng_step (p, i) o = (p', i') /\
              (p' = p \/ (o_fix o = 1%N /\ p' = put (o_kind o) (o_bp o, NPrefix) p))).
    { unfold ng_step. destruct (o_fix o) as [|[q|q|]]; try (do 2 eexists; split; [reflexivity|left; reflexivity]).
      - destruct q as [q|q|]; try destruct q; do 2 eexists; (split; [reflexivity|left; reflexivity]).
      - destruct q as [q|q|]; try destruct q; do 2 eexists; (split; [reflexivity|left; reflexivity]).
      - do 2 eexists; split; [reflexivity|right; split; reflexivity]. }
    destruct Hstep as [p' [i' [E Hp]]]. rewrite E in H. apply IH in H.
    destruct H as [H|[Hn [o' [Hin Ho']]]].
    + destruct Hp as [->|[Hfix ->]]; [left; exact H|].
      rewrite get_put in H. destruct (list_eqb k (o_kind o)) eqn:Ek; [|left; exact H].
      inv H. right. split; [reflexivity|]. exists o. apply list_eqb_eq in Ek. subst. cbn. auto.
    + right. split; [exact Hn|]. exists o'. split; [right; exact Hin | exact Ho'].
Qed.

Lemma ng_fold_infix : forall l p i k bp ld,
  get k (snd (fold_left ng_step l (p, i))) = Some (bp, ld) ->
  get k i = Some (bp, ld) \/ (exists o, In o l /\ o_kind o = k /\ o_bp o = bp /\ led_of_fix (o_fix o) = Some ld).
Proof.
  induction l as [|o l IH]; intros p i k bp ld H; cbn [fold_left] in H.
  - left. exact H.
  - assert (Hstep : exists p' i', ng_step (p, i) o = (p', i') /\
              (i' = i \/ (exists ld', led_of_fix (o_fix o) = Some ld' /\ i' = put (o_kind o) (o_bp o, ld') i))).
    { unfold ng_step. destruct (o_fix o) as [|[q|q|]]; try (do 2 eexists; split; [reflexivity|left; reflexivity]).
      - destruct q as [q|q|]; try destruct q; do 2 eexists; (split; [reflexivity|]);
          try (left; reflexivity); right; eexists; split; reflexivity.
      - destruct q as [q|q|]; try destruct q; do 2 eexists; (split; [reflexivity|]);
          try (left; reflexivity); right; eexists; split; reflexivity. }
    destruct Hstep as [p' [i' [E Hi]]]. rewrite E in H. apply IH in H.
    destruct H as [H|[o' [Hin Ho']]].
    + destruct Hi as [->|[ld' [Hfix ->]]]; [left; exact H|].
      rewrite get_put in H. destruct (list_eqb k (o_kind o)) eqn:Ek; [|left; exact H].
      inv H. right. exists o. apply list_eqb_eq in Ek. subst. cbn. auto.
    + right. exists o'. split; [right; apply Hin | exact Ho'].
Qed.

Lemma ng_fold_untouched : forall l p i k,
  (forall o, In o l -> list_eqb k (o_kind o) = false) ->
  get k (fst (fold_left ng_step l (p, i))) = get k p /\ get k (snd (fold_left ng_step l (p, i))) = get k i.
Proof.
  induction l as [|o l IH]; intros p i k Hk; cbn [fold_left].
  - split; reflexivity.
  - assert (Ho : list_eqb k (o_kind o) = false) by (apply Hk; left; reflexivity).
    assert (Hstep : exists p' i', ng_step (p, i) o = (p', i') /\ get k p' = get k p /\ get k i' = get k i).
    { unfold ng_step.
      destruct (o_fix o) as [|[q|q|]]; try (do 2 eexists; split; [reflexivity|split; reflexivity]).
      - destruct q as [q|q|]; try destruct q; do 2 eexists; (split; [reflexivity|]);
          rewrite ?get_put, ?Ho; split; reflexivity.
      - destruct q as [q|q|]; try destruct q; do 2 eexists; (split; [reflexivity|]);
          rewrite ?get_put, ?Ho; split; reflexivity.
      - do 2 eexists; (split; [reflexivity|]); rewrite ?get_put, ?Ho; split; reflexivity. }
    destruct Hstep as [p' [i' [E [H1 H2]]]]. rewrite E.
    destruct (IH p' i' k) as [H3 H4]. { intros o' Hin. apply Hk. right. exact Hin. }
    rewrite H3, H4. split; assumption.
Qed.

Definition no_eof_operator (ops : list operator) : bool := forallb (fun o => negb (list_eqb (o_kind o) K_EOF)) ops.

Lemma no_eof_operator_grammar : forall ops, no_eof_operator ops = true ->
  get K_EOF (g_prefix (new_grammar ops)) = None /\ get K_EOF (g_infix (new_grammar ops)) = None.
Proof.
  intros ops H. rewrite new_grammar_eq. cbn [g_prefix g_infix].
  destruct (ng_fold_untouched (sort_ops (fun o => byte_len (o_kind o)) ops) ng_p0 [] K_EOF) as [H1 H2].
  { intros o Hin. apply in_sort_ops in Hin. unfold no_eof_operator in H. rewrite forallb_forall in H.
    apply H in Hin. rewrite list_eqb_sym. destruct (list_eqb (o_kind o) K_EOF); [discriminate | reflexivity]. }
  split.
  - rewrite H1. reflexivity.
  - unfold ng_fixed_infix. rewrite !get_put, H2. reflexivity.
Qed.

Lemma table_ok_no_eof_operator : forall ops, table_ok ops = true -> no_eof_operator ops = true.
Proof.
  intros ops H. unfold table_ok in H. unfold no_eof_operator. rewrite forallb_forall in *.
  intros o Hin. apply H in Hin. apply andb_true_iff in Hin. destruct Hin as [Hin _].
  destruct (list_eqb (o_kind o) K_EOF) eqn:E; [|reflexivity].
  cbn [existsb fixed_kinds] in Hin. rewrite E in Hin. rewrite !orb_true_r in Hin. discriminate.
Qed.

(* ---------- token consumption ---------- *)
Lemma must_eat_inv : forall k ts t r, must_eat k ts = POk (t, r) -> t = peek ts /\ r = tl ts /\ kind_is (peek ts) k = true.
Proof.
  intros k ts t r H. unfold must_eat in H. rewrite eat_peek_tl in H.
  destruct (kind_is (peek ts) k) eqn:E; inv H. auto.
Qed.

Lemma try_eat_some : forall k ts t r, try_eat k ts = Some (t, r) -> t = peek ts /\ r = tl ts /\ kind_is (peek ts) k = true.
Proof.
  intros k ts t r H. unfold try_eat in H. rewrite eat_peek_tl in H.
  destruct (kind_is (peek ts) k) eqn:E; inv H. auto.
Qed.

Lemma try_eat_none : forall k ts, try_eat k ts = None -> kind_is (peek ts) k = false.
Proof. intros k ts H. unfold try_eat in H. destruct (kind_is (peek ts) k); [discriminate | reflexivity]. Qed.

Lemma len_tl : forall (ts : list token), (len (tl ts) <= len ts)%nat.
Proof. intros [|t r]; cbn; lia. Qed.

Lemma must_eat_len : forall k ts t r, must_eat k ts = POk (t, r) -> (len r <= len ts)%nat.
Proof. intros k ts t r H. apply must_eat_inv in H. destruct H as [_ [-> _]]. apply len_tl. Qed.

Lemma try_eat_len : forall k ts t r, try_eat k ts = Some (t, r) -> (len r <= len ts)%nat.
Proof. intros k ts t r H. apply try_eat_some in H. destruct H as [_ [-> _]]. apply len_tl. Qed.

Ltac len_facts :=
  repeat match goal with
  | H : must_eat _ _ = POk (_, _) |- _ => apply must_eat_len in H
  | H : try_eat _ _ = Some (_, _) |- _ => apply try_eat_len in H
  end.

Definition P_len (j : judg) : Prop :=
  match j with
  | JExpr _ ts _ rest => (len rest < len ts)%nat
  | JNud _ _ _ ts _ rest => (len rest <= len ts)%nat
  | JLoop _ _ ts _ rest => (len rest <= len ts)%nat
  | JLed _ _ _ _ ts _ rest => (len rest <= len ts)%nat
  | JCall _ _ ts _ rest => (len rest <= len ts)%nat
  | JElems _ ts _ rest => (len rest <= len ts)%nat
  | JPairs ts _ rest => (len rest <= len ts)%nat
  | JFields ts _ rest => (len rest <= len ts)%nat
  | JArgs ts _ rest => (len rest <= len ts)%nat
  end.

Definition eof_free (g : grammar) : Prop :=
  get K_EOF (g_prefix g) = None /\ get K_EOF (g_infix g) = None.

Lemma run_len : forall g j, eof_free g -> runr g j -> P_len j.
Proof.
  intros g j [Hp Hi] H. induction H; cbn [P_len] in *; len_facts.
  1: { destruct ts as [|t0 r0]; [change (get K_EOF (g_prefix g) = Some (bp, n)) in H; rewrite Hp in H; discriminate|].
       cbn [tl] in *. unfold len in *. cbn [Datatypes.length]. lia. }
  all: repeat match goal with
           | |- context [len (tl ?ts)] => pose proof (len_tl ts); generalize dependent (len (tl ts)); intros
           | H : context [len (tl ?ts)] |- _ => pose proof (len_tl ts); generalize dependent (len (tl ts)); intros
           end; lia.
Qed.

Lemma run_len_expr : forall g rbp ts e rest, eof_free g -> runr g (JExpr rbp ts e rest) -> (len rest < len ts)%nat.
Proof. intros g rbp ts e rest Hg H. apply (run_len g _ Hg H). Qed.

(* ---------- stage 3: the fuel suffices ---------- *)
Lemma pbind_nf : forall {X Y} (r : pres X) (k : X -> pres Y),
  r <> PFuel -> (forall x, r = POk x -> k x <> PFuel) -> pbind r k <> PFuel.
Proof. intros X Y [x| |] k H1 H2; cbn; [apply H2; reflexivity | discriminate | exfalso; apply H1; reflexivity]. Qed.

Lemma must_eat_nf : forall k ts, must_eat k ts <> PFuel.
Proof. intros k ts. unfold must_eat. destruct (eat ts) as [t r]. destruct (kind_is t k); discriminate. Qed.

Lemma range_nf : forall a b, range a b <> PFuel.
Proof. intros a b. unfold range. destruct (Z.leb (p_idx a) (p_idx b)); discriminate. Qed.

Section NoFuel.
  Variable g : grammar.
  Hypothesis Hg : eof_free g.
  Variable rec : Z -> list token -> pres (expr * list token).
  Variable B : nat.
  Hypothesis Hrec_run : forall rbp ts e rest, rec rbp ts = POk (e, rest) -> runr g (JExpr rbp ts e rest).
  Hypothesis Hrec_nf : forall rbp ts, (len ts < B)%nat -> rec rbp ts <> PFuel.

  Lemma rec_len : forall rbp ts e rest, rec rbp ts = POk (e, rest) -> (len rest < len ts)%nat.
  Proof. intros rbp ts e rest H. apply Hrec_run in H. eapply run_len_expr; eauto. Qed.

  Ltac step_rec :=
    apply pbind_nf; [apply Hrec_nf; lia |];
    let x := fresh "x" in let e := fresh "e" in let ts' := fresh "ts" in let Hx := fresh "Hx" in
    intros [e ts'] Hx; apply rec_len in Hx.
  Ltac step_eat :=
    apply pbind_nf; [apply must_eat_nf |];
    let t := fresh "t" in let ts' := fresh "ts" in let Hx := fresh "Hx" in
    intros [t ts'] Hx; apply must_eat_len in Hx.
  Ltac step_range := apply pbind_nf; [apply range_nf | intros ? _].

  Lemma elems_loop_nf : forall n close ts acc,
    (len ts < n)%nat -> (len ts < B)%nat -> elems_loop rec n close ts acc <> PFuel.
  Proof.
    induction n as [|n IH]; intros close ts acc Hn HB; [lia|]. cbn [elems_loop].
    destruct (kind_is (peek ts) close); [discriminate|].
    step_rec. destruct (try_eat K_COMMA ts0) as [[c ts2]|] eqn:Hc; [|discriminate].
    apply try_eat_len in Hc. apply IH; lia.
  Qed.

  Lemma pairs_loop_nf : forall n ts acc,
    (len ts < n)%nat -> (len ts < B)%nat -> pairs_loop rec n ts acc <> PFuel.
  Proof.
    induction n as [|n IH]; intros ts acc Hn HB; [lia|]. cbn [pairs_loop].
    destruct (kind_is (peek ts) K_RBRACKET); [discriminate|].
    step_rec. step_eat. step_rec. destruct (try_eat K_COMMA ts2) as [[c ts4]|] eqn:Hc; [|discriminate].
    apply try_eat_len in Hc. apply IH; lia.
  Qed.

  Lemma fields_loop_nf : forall n ts acc,
    (len ts < n)%nat -> (len ts < B)%nat -> fields_loop rec n ts acc <> PFuel.
  Proof.
    induction n as [|n IH]; intros ts acc Hn HB; [lia|]. cbn [fields_loop].
    destruct (kind_is (peek ts) K_RBRACE); [discriminate|].
    step_eat. step_eat. step_rec. destruct (try_eat K_COMMA ts2) as [[c ts4]|] eqn:Hc; [|discriminate].
    apply try_eat_len in Hc. apply IH; lia.
  Qed.

  Lemma args_loop_nf : forall n ts acc,
    (len ts < n)%nat -> (len ts < B)%nat -> args_loop rec n ts acc <> PFuel.
  Proof.
    induction n as [|n IH]; intros ts acc Hn HB; [lia|]. cbn [args_loop].
    step_rec. destruct (try_eat K_COMMA ts0) as [[c ts2]|] eqn:Hc; [|discriminate].
    apply try_eat_len in Hc. apply IH; lia.
  Qed.

  Lemma parse_call_nf : forall callee lp ts, (len ts < B)%nat -> parse_call rec callee lp ts <> PFuel.
  Proof.
    intros callee lp ts HB. unfold parse_call. apply pbind_nf.
    - destruct (try_eat K_RPAREN ts) as [[rp ts1]|]; [discriminate|].
      apply pbind_nf; [apply args_loop_nf; lia|]. intros [args ts1] _. step_eat. discriminate.
    - intros [[args rp] ts'] _. step_range. discriminate.
  Qed.

  Lemma nud_fn_nf : forall n bp t ts, (len ts < B)%nat -> nud_fn rec n bp t ts <> PFuel.
  Proof.
    intros n bp t ts HB. destruct n; cbn [nud_fn]; try discriminate.
    - destruct (num_parse (t_lexeme t)); discriminate.
    - destruct (str_value (t_lexeme t)); discriminate.
    - destruct (try_eat K_COLON ts) as [[c ts1]|] eqn:Hc.
      + step_eat. step_range. discriminate.
      + destruct (kind_is (peek ts) K_RBRACKET).
        * step_eat. step_range. discriminate.
        * step_rec. destruct (try_eat K_COLON ts0) as [[c ts2]|] eqn:Hc2.
          -- apply try_eat_len in Hc2. step_rec. apply pbind_nf.
             ++ destruct (try_eat K_COMMA ts1) as [[c2 ts4]|] eqn:Hc3; [|discriminate].
                apply try_eat_len in Hc3. apply pairs_loop_nf; lia.
             ++ intros [kvs ts4] _. step_eat. step_range. discriminate.
          -- apply pbind_nf.
             ++ destruct (try_eat K_COMMA ts0) as [[c2 ts2]|] eqn:Hc3; [|discriminate].
                apply try_eat_len in Hc3. apply elems_loop_nf; lia.
             ++ intros [es ts2] _. step_eat. step_range. discriminate.
    - apply pbind_nf; [apply fields_loop_nf; lia|]. intros [fs ts1] _. step_eat. step_range. discriminate.
    - step_rec. step_eat. step_range. discriminate.
    - step_rec. step_range. discriminate.
  Qed.

  Lemma led_fn_nf : forall l bp left t ts, (len ts < B)%nat -> led_fn rec l bp left t ts <> PFuel.
  Proof.
    intros l bp left t ts HB. destruct l; cbn [led_fn].
    - step_rec. step_range. discriminate.
    - step_rec. step_range. discriminate.
    - step_rec. step_range. discriminate.
    - step_range. discriminate.
    - step_rec. step_eat. step_rec. step_range. discriminate.
    - rewrite eat_peek_tl. step_range. pose proof (len_tl ts) as Htl.
      destruct (try_eat K_LPAREN (tl ts)) as [[lp ts2]|] eqn:Hlp; [|discriminate].
      apply try_eat_len in Hlp. apply parse_call_nf. lia.
    - apply parse_call_nf. exact HB.
    - step_rec. step_eat. step_range. discriminate.
  Qed.

  Lemma led_fn_len : forall l bp left t ts e rest,
    led_fn rec l bp left t ts = POk (e, rest) -> (len rest <= len ts)%nat.
  Proof.
    intros l bp left t ts e rest H. apply (led_fn_run g rec Hrec_run) in H. apply (run_len g _ Hg H).
  Qed.

  Lemma infix_loop_nf : forall n rbp left ts,
    (len ts < n)%nat -> (len ts <= B)%nat -> infix_loop g rec n rbp left ts <> PFuel.
  Proof.
    induction n as [|n IH]; intros rbp left ts Hn HB; [lia|]. cbn [infix_loop].
    destruct (Z.ltb rbp (infix_lbp g (peek ts))); [|discriminate].
    rewrite eat_peek_tl. destruct (get (t_kind (peek ts)) (g_infix g)) as [[bp l]|] eqn:Hget; [|discriminate].
    destruct ts as [|t0 r0].
    { change (get K_EOF (g_infix g) = Some (bp, l)) in Hget. destruct Hg as [_ Hi]. rewrite Hi in Hget. discriminate. }
    cbn [peek tl]. unfold len in Hn, HB. cbn [Datatypes.length] in Hn, HB. fold (len r0) in Hn, HB.
    apply pbind_nf; [apply led_fn_nf; lia|]. intros [left' ts2] Hx. apply led_fn_len in Hx.
    destruct (infix_n_ok left'); [|discriminate]. apply IH; lia.
  Qed.

  Lemma expr_step_nf : forall rbp ts, (len ts <= B)%nat -> expr_step g rec rbp ts <> PFuel.
  Proof.
    intros rbp ts HB. unfold expr_step. rewrite eat_peek_tl.
    destruct (get (t_kind (peek ts)) (g_prefix g)) as [[bp n]|] eqn:Hget; [|discriminate].
    destruct ts as [|t0 r0].
    { change (get K_EOF (g_prefix g) = Some (bp, n)) in Hget. destruct Hg as [Hp _]. rewrite Hp in Hget. discriminate. }
    cbn [peek tl]. unfold len in HB. cbn [Datatypes.length] in HB. fold (len r0) in HB.
    apply pbind_nf; [apply nud_fn_nf; lia|]. intros [lft ts2] Hx.
    apply (nud_fn_run g rec Hrec_run) in Hx. apply (run_len g _ Hg) in Hx. cbn [P_len] in Hx.
    apply infix_loop_nf; lia.
  Qed.
End NoFuel.

Lemma p_expr_nf : forall g, eof_free g -> forall f rbp ts, (len ts < f)%nat -> p_expr g f rbp ts <> PFuel.
Proof.
  intros g Hg. induction f as [|f IH]; intros rbp ts Hf; [lia|]. cbn [p_expr].
  apply (expr_step_nf g Hg (p_expr g f) f).
  - intros. eapply p_expr_run; eauto.
  - exact IH.
  - lia.
Qed.

Lemma no_fuel_partial : forall ops ts, no_eof_operator ops = true -> parse_tokens ops ts <> PFuel.
Proof.
  intros ops ts H. unfold parse_tokens. apply pbind_nf.
  - apply p_expr_nf; [apply no_eof_operator_grammar; exact H | lia].
  - intros [e rest] _. destruct rest; discriminate.
Qed.

Lemma no_fuel_table_ok : forall ops ts, table_ok ops = true -> parse_tokens ops ts <> PFuel.
Proof. intros ops ts H. apply no_fuel_partial. apply table_ok_no_eof_operator. exact H. Qed.

(* ---------- what [table_ok] guarantees about the grammar ---------- *)
Definition notfixed (k : list N) : Prop := existsb (list_eqb k) fixed_kinds = false.

Definition nud_kind (n : nud) : option (list N) :=
  match n with
  | NIdent => Some K_SYM | NTrue => Some K_TRUE | NFalse => Some K_FALSE | NNum => Some K_NUM | NStr => Some K_STR
  | NTime => Some K_TIME | NListMap => Some K_LBRACKET | NObj => Some K_LBRACE | NGroup => Some K_LPAREN
  | NPrefix => None
  end.

Definition led_kind (l : led) : option (list N * Z) :=
  match l with
  | LQuestion => Some (K_QUESTION, BP_COND) | LDot => Some (K_DOT, BP_MEMBER) | LCall => Some (K_LPAREN, BP_CALL)
  | LSubscript => Some (K_LBRACKET, BP_MEMBER)
  | _ => None
  end.

Definition nud_spec (k : list N) (bp : Z) (n : nud) : Prop :=
  match nud_kind n with Some k' => k = k' /\ bp = 0 | None => notfixed k /\ 0 <= bp end.

Definition led_spec (k : list N) (bp : Z) (l : led) : Prop :=
  match led_kind l with
  | Some (k', bp') => k = k' /\ bp = bp'
  | None => notfixed k /\ 0 < bp /\ (l = LBinR -> 8 <= bp)
  end.

Record gram_ok (g : grammar) : Prop := {
  go_eof : eof_free g;
  go_prefix : forall k bp n, get k (g_prefix g) = Some (bp, n) -> nud_spec k bp n;
  go_infix : forall k bp l, get k (g_infix g) = Some (bp, l) -> led_spec k bp l;
  go_fixed_prefix : forall n k, nud_kind n = Some k -> get k (g_prefix g) = Some (0, n);
  go_fixed_infix : forall l k bp, led_kind l = Some (k, bp) -> get k (g_infix g) = Some (bp, l)
}.

Lemma table_ok_in : forall ops o, table_ok ops = true -> In o ops ->
  notfixed (o_kind o) /\
  match o_fix o with
  | 1%N => 0 <= o_bp o
  | 4%N => 8 <= o_bp o
  | 2%N | 3%N | 5%N => 0 < o_bp o
  | _ => False
  end.
Proof.
  intros ops o H Hin. unfold table_ok in H. rewrite forallb_forall in H. apply H in Hin.
  apply andb_true_iff in Hin. destruct Hin as [H1 H2]. split.
  - unfold notfixed. destruct (existsb (list_eqb (o_kind o)) fixed_kinds); [discriminate | reflexivity].
  - destruct (o_fix o) as [|[[q|q|]|[q|q|]|]]; try discriminate; try (apply Z.leb_le; exact H2); try (apply Z.ltb_lt; exact H2);
      destruct q; try discriminate; try (apply Z.leb_le; exact H2); try (apply Z.ltb_lt; exact H2).
Qed.

Lemma notfixed_neq : forall k k', notfixed k -> In k' fixed_kinds -> list_eqb k' k = false.
Proof.
  intros k k' H Hin. unfold notfixed in H. destruct (list_eqb k' k) eqn:E; [|reflexivity].
  apply list_eqb_eq in E. subst k'.
  assert (Hex : existsb (list_eqb k) fixed_kinds = true).
  { apply existsb_exists. exists k. split; [exact Hin | apply list_eqb_refl]. }
  congruence.
Qed.

Lemma get_ng_p0 : forall k bp n, get k ng_p0 = Some (bp, n) -> nud_kind n = Some k /\ bp = 0.
Proof.
  intros k bp n H. vm_compute in H.
  repeat match type of H with
  | (if ?c then _ else _) = _ =>
      let E := fresh "E" in destruct c eqn:E;
      [ inv H; split; [|reflexivity];
        match goal with E : _ = true |- _ => apply (proj1 (list_eqb_eq k _)) in E; subst k; reflexivity end | ]
  end.
  discriminate.
Qed.

Lemma table_ok_gram_ok : forall ops, table_ok ops = true -> gram_ok (new_grammar ops).
Proof.
  intros ops Hok.
  assert (Huntouched : forall k, In k fixed_kinds ->
            get k (fst (fold_left ng_step (sort_ops (fun o => byte_len (o_kind o)) ops) (ng_p0, []))) = get k ng_p0 /\
            get k (snd (fold_left ng_step (sort_ops (fun o => byte_len (o_kind o)) ops) (ng_p0, []))) = None).
  { intros k Hk. apply ng_fold_untouched. intros o Hin. apply in_sort_ops in Hin.
    destruct (table_ok_in ops o Hok Hin) as [Hnf _]. apply notfixed_neq; assumption. }
  constructor.
  - apply no_eof_operator_grammar. apply table_ok_no_eof_operator. exact Hok.
  - intros k bp n H. rewrite new_grammar_eq in H. cbn [g_prefix] in H.
    apply ng_fold_prefix in H. destruct H as [H|[-> [o [Hin [Hk [Hbp Hfix]]]]]].
    + apply get_ng_p0 in H. destruct H as [H ->]. unfold nud_spec. rewrite H. split; reflexivity.
    + apply in_sort_ops in Hin. destruct (table_ok_in ops o Hok Hin) as [Hnf Hb]. rewrite Hfix in Hb.
      subst. split; assumption.
  - intros k bp l H. rewrite new_grammar_eq in H. cbn [g_infix] in H. unfold ng_fixed_infix in H.
    rewrite !get_put in H.
    destruct (list_eqb k K_LBRACKET) eqn:E1; [apply list_eqb_eq in E1; inv H; split; reflexivity|].
    destruct (list_eqb k K_LPAREN) eqn:E2; [apply list_eqb_eq in E2; inv H; split; reflexivity|].
    destruct (list_eqb k K_DOT) eqn:E3; [apply list_eqb_eq in E3; inv H; split; reflexivity|].
    destruct (list_eqb k K_QUESTION) eqn:E4; [apply list_eqb_eq in E4; inv H; split; reflexivity|].
    apply ng_fold_infix in H. destruct H as [H|[o [Hin [Hk [Hbp Hfix]]]]]; [discriminate|].
    apply in_sort_ops in Hin. destruct (table_ok_in ops o Hok Hin) as [Hnf Hb]. subst k bp.
    unfold led_spec. destruct (o_fix o) as [|[[q|q|]|[q|q|]|]]; try discriminate; try destruct q; try discriminate;
      cbn in Hfix; inv Hfix; cbn [led_kind]; (split; [exact Hnf|]); (split; [lia|]); intro; try discriminate; lia.
  - intros n k Hn. rewrite new_grammar_eq. cbn [g_prefix].
    assert (Hin : In k fixed_kinds).
    { destruct n; inv Hn; cbn; tauto. }
    destruct (Huntouched k Hin) as [-> _]. destruct n; inv Hn; reflexivity.
  - intros l k bp Hl. rewrite new_grammar_eq. cbn [g_infix]. unfold ng_fixed_infix. rewrite !get_put.
    assert (Hin : In k fixed_kinds).
    { destruct l; inv Hl; cbn; tauto. }
    destruct (Huntouched k Hin) as [_ ->]. destruct l; inv Hl; reflexivity.
Qed.

(* ---------- stage 4: the accepted tree yields the tokens ---------- *)
Lemma no_eof_cons_inv : forall t r, no_eof (t :: r) = true -> is_eof t = false /\ no_eof r = true.
Proof.
  intros t r H. unfold no_eof in H. cbn [forallb] in H. apply andb_true_iff in H. destruct H as [H1 H2].
  split; [destruct (is_eof t); [discriminate | reflexivity] | exact H2].
Qed.

Lemma no_eof_app_inv : forall a b, no_eof (a ++ b) = true -> no_eof a = true /\ no_eof b = true.
Proof. intros a b H. unfold no_eof in *. rewrite forallb_app in H. apply andb_true_iff in H. exact H. Qed.

Lemma no_eof_tl : forall ts, no_eof ts = true -> no_eof (tl ts) = true.
Proof. intros [|t r] H; [exact H|]. apply no_eof_cons_inv in H. apply H. Qed.

Lemma tpos_noeof : forall t, is_eof t = false -> tpos t = tok_pos t.
Proof. intros t H. unfold tpos. rewrite H. reflexivity. Qed.

Lemma range_ok : forall a b p, range a b = POk p -> p = span a b /\ p_idx a <= p_idx b.
Proof.
  intros a b p H. unfold range in H. destruct (Z.leb (p_idx a) (p_idx b)) eqn:E; inv H.
  split; [reflexivity | apply Z.leb_le; exact E].
Qed.

Lemma must_eat_cons : forall k ts t r,
  must_eat k ts = POk (t, r) -> list_eqb K_EOF k = false -> ts = t :: r /\ t_kind t = k.
Proof.
  intros k ts t r H Hk. apply must_eat_inv in H. destruct H as [-> [-> H]].
  destruct ts as [|t0 r0].
  - unfold kind_is in H. cbn in H. change (list_eqb K_EOF k = true) in H. congruence.
  - cbn [peek tl]. split; [reflexivity|]. cbn [peek] in H. apply list_eqb_eq in H. exact H.
Qed.

Lemma try_eat_cons : forall k ts t r,
  try_eat k ts = Some (t, r) -> list_eqb K_EOF k = false -> ts = t :: r /\ t_kind t = k.
Proof.
  intros k ts t r H Hk. apply try_eat_some in H. destruct H as [-> [-> H]].
  destruct ts as [|t0 r0].
  - unfold kind_is in H. cbn in H. change (list_eqb K_EOF k = true) in H. congruence.
  - cbn [peek tl]. split; [reflexivity|]. cbn [peek] in H. apply list_eqb_eq in H. exact H.
Qed.

Lemma is_kind_intro : forall k t, t_kind t = k -> list_eqb k K_EOF = false -> is_kind k t.
Proof. intros k t H Hk. split; [exact H|]. unfold is_eof. rewrite H. exact Hk. Qed.

Lemma yields_idx_nonneg : forall g e u, yields g e u -> 0 <= p_idx (expr_pos e).
Proof.
  intros g e u H. apply yields_span in H. destruct H as [_ H]. rewrite H. cbn [span p_idx tok_pos]. lia.
Qed.

Lemma sep_by_nil_inv : forall comma all, sep_by comma [] all -> all = [].
Proof. intros comma all H. inversion H. reflexivity. Qed.

Lemma sep_extend : forall {A} (R : A -> list token -> Prop) x u c xs tss tes tc,
  R x u -> is_kind K_COMMA c -> Forall2 R xs tss -> sep_by (is_kind K_COMMA) tss tes -> opt_comma tc ->
  (xs = [] -> tc = []) ->
  exists tss' tes' tc', Forall2 R (x :: xs) tss' /\ sep_by (is_kind K_COMMA) tss' tes' /\ opt_comma tc' /\
                        tes' ++ tc' = u ++ c :: tes ++ tc.
Proof.
  intros A R x u c xs tss tes tc Hx Hc HF Hs Ho Hnil. destruct xs as [|x1 xs].
  - inv HF. apply sep_by_nil_inv in Hs. subst tes. rewrite (Hnil eq_refl).
    exists [u], u, [c]. split; [constructor; [exact Hx | constructor]|].
    split; [constructor|]. split; [right; exists c; split; [exact Hc | reflexivity]|]. reflexivity.
  - exists (u :: tss), (u ++ c :: tes), tc. split; [constructor; assumption|].
    split; [constructor; [exact Hc | inv HF; discriminate | exact Hs]|]. split; [exact Ho|].
    rewrite <- app_assoc. reflexivity.
Qed.

Ltac noeof_split :=
  repeat match goal with
  | H : no_eof (_ ++ _) = true |- _ => apply no_eof_app_inv in H; destruct H
  | H : no_eof (_ :: _) = true |- _ => apply no_eof_cons_inv in H; destruct H
  end.

Ltac lnorm := cbn [app]; repeat (rewrite <- app_assoc; cbn [app]).

Ltac eat_all :=
  repeat match goal with
  | H : must_eat _ ?ts = POk (_, _) |- _ =>
      apply must_eat_cons in H; [|reflexivity]; let Hk := fresh "Hk" in destruct H as [? Hk]; subst ts
  | H : try_eat _ ?ts = Some (_, _) |- _ =>
      apply try_eat_cons in H; [|reflexivity]; let Hk := fresh "Hk" in destruct H as [? Hk]; subst ts
  end.

Ltac range_all :=
  repeat match goal with
  | H : range _ _ = POk ?p |- _ => apply range_ok in H; let Hi := fresh "Hidx" in destruct H as [? Hi]; subst p
  end.

Section Yields.
  Variable g : grammar.
  Hypothesis Hg : gram_ok g.

  Definition pair_rel (kv : expr * expr) (ts : list token) : Prop :=
    exists tk c tv, is_kind K_COLON c /\ yields g (fst kv) tk /\ yields g (snd kv) tv /\ ts = tk ++ c :: tv.
  Definition field_rel (f : list N * expr) (ts : list token) : Prop :=
    exists n c tv, is_kind K_SYM n /\ is_kind K_COLON c /\ fst f = t_lexeme n /\ yields g (snd f) tv /\ ts = n :: c :: tv.

  Definition P_y (j : judg) : Prop :=
    match j with
    | JExpr _ ts e rest => no_eof ts = true -> exists used, ts = used ++ rest /\ yields g e used
    | JNud n bp t ts e rest =>
        get (t_kind t) (g_prefix g) = Some (bp, n) -> is_eof t = false -> no_eof ts = true ->
        exists used, ts = used ++ rest /\ yields g e (t :: used)
    | JLoop _ lft ts e rest =>
        forall ul, yields g lft ul -> no_eof ts = true -> exists used, ts = used ++ rest /\ yields g e (ul ++ used)
    | JLed l bp lft t ts e rest =>
        forall ul, get (t_kind t) (g_infix g) = Some (bp, l) -> is_eof t = false -> yields g lft ul -> no_eof ts = true ->
        exists used, ts = used ++ rest /\ yields g e (ul ++ t :: used)
    | JCall callee lp ts e rest =>
        forall uc, is_kind K_LPAREN lp -> yields g callee uc -> no_eof ts = true ->
        exists used, ts = used ++ rest /\ yields g e (uc ++ lp :: used)
    | JElems _ ts es rest =>
        no_eof ts = true ->
        exists tss tes tc, Forall2 (yields g) es tss /\ sep_by (is_kind K_COMMA) tss tes /\ opt_comma tc /\
                           (es = [] -> tc = []) /\ ts = tes ++ tc ++ rest
    | JPairs ts kvs rest =>
        no_eof ts = true ->
        exists tss tes tc, Forall2 pair_rel kvs tss /\ sep_by (is_kind K_COMMA) tss tes /\ opt_comma tc /\
                           (kvs = [] -> tc = []) /\ ts = tes ++ tc ++ rest
    | JFields ts fs rest =>
        no_eof ts = true ->
        exists tss tes tc, Forall2 field_rel fs tss /\ sep_by (is_kind K_COMMA) tss tes /\ opt_comma tc /\
                           (fs = [] -> tc = []) /\ ts = tes ++ tc ++ rest
    | JArgs ts es rest =>
        no_eof ts = true ->
        exists tss tes, Forall2 (yields g) es tss /\ sep_by (is_kind K_COMMA) tss tes /\ ts = tes ++ rest
    end.

  Ltac nud_kind_of H :=
    let Hk := fresh "Hkind" in
    pose proof (go_prefix g Hg _ _ _ H) as Hk; unfold nud_spec in Hk; cbn [nud_kind] in Hk; destruct Hk as [Hk ?].
  Ltac led_kind_of H :=
    let Hk := fresh "Hkind" in
    pose proof (go_infix g Hg _ _ _ H) as Hk; unfold led_spec in Hk; cbn [led_kind] in Hk; destruct Hk as [Hk ?].
  Ltac ik := apply is_kind_intro; [assumption | reflexivity].

  Lemma peek_prefix_cons : forall ts bp n, get (t_kind (peek ts)) (g_prefix g) = Some (bp, n) -> ts = peek ts :: tl ts.
  Proof.
    intros [|t r] bp n H; [|reflexivity]. change (get K_EOF (g_prefix g) = Some (bp, n)) in H.
    destruct (go_eof g Hg) as [Hp _]. congruence.
  Qed.
  Lemma peek_infix_cons : forall ts bp l, get (t_kind (peek ts)) (g_infix g) = Some (bp, l) -> ts = peek ts :: tl ts.
  Proof.
    intros [|t r] bp l H; [|reflexivity]. change (get K_EOF (g_infix g) = Some (bp, l)) in H.
    destruct (go_eof g Hg) as [_ Hi]. congruence.
  Qed.

  Lemma run_yields : forall j, runr g j -> P_y j.
  Proof.
    intros j H. induction H; cbn [P_y] in *.
    - (* R_expr *) intros Hne. pose proof (peek_prefix_cons _ _ _ H) as Hts.
      destruct ts as [|t0 r0]; [discriminate|]. cbn [peek tl] in *. noeof_split.
      destruct (IHrun1 H ltac:(assumption) ltac:(assumption)) as [u1 [-> Hy1]]. noeof_split.
      destruct (IHrun2 _ Hy1 ltac:(assumption)) as [u2 [-> Hy2]].
      exists (t0 :: u1 ++ u2). split; [lnorm; reflexivity | exact Hy2].
    - (* ident *) intros Hget Ht Hne. nud_kind_of Hget. exists []. split; [reflexivity|].
      rewrite tpos_noeof by assumption. constructor. ik.
    - intros Hget Ht Hne. nud_kind_of Hget. exists []. split; [reflexivity|].
      rewrite tpos_noeof by assumption. constructor. ik.
    - intros Hget Ht Hne. nud_kind_of Hget. exists []. split; [reflexivity|].
      rewrite tpos_noeof by assumption. constructor. ik.
    - intros Hget Ht Hne. nud_kind_of Hget. exists []. split; [reflexivity|].
      rewrite tpos_noeof by assumption. constructor; [ik | assumption].
    - intros Hget Ht Hne. nud_kind_of Hget. exists []. split; [reflexivity|].
      rewrite tpos_noeof by assumption. constructor; [ik | assumption].
    - intros Hget Ht Hne. nud_kind_of Hget. exists []. split; [reflexivity|].
      rewrite tpos_noeof by assumption. constructor. ik.
    - (* prefix *) intros Hget Ht Hne. destruct (IHrun Hne) as [u [-> Hy]]. range_all.
      rewrite !tpos_noeof by assumption. exists u. split; [reflexivity|].
      eapply Y_prefix; [assumption | | exact Hy]. unfold prefix_bp. rewrite Hget. reflexivity.
    - (* group *) intros Hget Ht Hne. nud_kind_of Hget. destruct (IHrun Hne) as [u [-> Hy]]. noeof_split. eat_all.
      noeof_split. range_all. rewrite !tpos_noeof by assumption. exists (u ++ [rp]). split; [lnorm; reflexivity|].
      apply Y_group; [ik | ik | exact Hy].
    - (* obj *) intros Hget Ht Hne. nud_kind_of Hget.
      destruct (IHrun Hne) as [tss [tes [tc [HF [Hs [Ho [Hnil ->]]]]]]]. noeof_split. eat_all. noeof_split. range_all.
      rewrite !tpos_noeof by assumption. exists (tes ++ tc ++ [rb]). split; [lnorm; reflexivity|].
      eapply Y_obj; eauto; ik.
    - (* map empty *) intros Hget Ht Hne. nud_kind_of Hget. eat_all. noeof_split. range_all.
      rewrite !tpos_noeof by assumption. exists [c; rb]. split; [reflexivity|].
      apply Y_map_empty; ik.
    - (* list empty *) intros Hget Ht Hne. nud_kind_of Hget. eat_all. noeof_split. range_all.
      rewrite !tpos_noeof by assumption. exists [rb]. split; [reflexivity|].
      apply (Y_list g t rb [] [] [] []); try ik; try constructor; auto.
    - (* list1 *) intros Hget Ht Hne. nud_kind_of Hget. destruct (IHrun Hne) as [u [-> Hy]]. noeof_split. eat_all.
      noeof_split. range_all. rewrite !tpos_noeof by assumption. exists (u ++ [rb]). split; [lnorm; reflexivity|].
      apply (Y_list g t rb [e] [u] u []); try ik.
      + constructor; [exact Hy | constructor].
      + constructor.
      + left; reflexivity.
      + reflexivity.
    - (* listn *) intros Hget Ht Hne. nud_kind_of Hget. destruct (IHrun1 Hne) as [u [-> Hy]]. noeof_split.
      match goal with H : try_eat K_COMMA _ = Some _ |- _ => apply try_eat_cons in H; [|reflexivity]; destruct H as [-> Hkc] end.
      noeof_split.
      destruct (IHrun2 ltac:(assumption)) as [tss [tes [tc [HF [Hs [Ho [Hnil ->]]]]]]]. noeof_split. eat_all. noeof_split.
      range_all. rewrite !tpos_noeof by assumption.
      destruct (sep_extend (yields g) e u c es tss tes tc Hy ltac:(ik) HF Hs Ho Hnil) as [tss' [tes' [tc' [HF' [Hs' [Ho' Heq]]]]]].
      exists (u ++ c :: tes ++ tc ++ [rb]). split; [lnorm; reflexivity|].
      replace (u ++ c :: tes ++ tc ++ [rb]) with (tes' ++ tc' ++ [rb])
        by (rewrite app_assoc, Heq; lnorm; reflexivity).
      apply (Y_list g t rb (e :: es) tss' tes' tc'); auto; try ik. discriminate.
    - (* map1 *) intros Hget Ht Hne. nud_kind_of Hget. destruct (IHrun1 Hne) as [u1 [-> Hy1]]. noeof_split.
      match goal with H : try_eat K_COLON _ = Some _ |- _ => apply try_eat_cons in H; [|reflexivity]; destruct H as [-> Hkc] end.
      noeof_split. destruct (IHrun2 ltac:(assumption)) as [u2 [-> Hy2]]. noeof_split. eat_all. noeof_split.
      range_all. rewrite !tpos_noeof by assumption.
      exists (u1 ++ c :: u2 ++ [rb]). split; [lnorm; reflexivity|].
      replace (u1 ++ c :: u2 ++ [rb]) with ((u1 ++ c :: u2) ++ [] ++ [rb]) by (lnorm; reflexivity).
      apply (Y_map g t rb [(k, v)] [u1 ++ c :: u2] (u1 ++ c :: u2) []); try ik; try discriminate.
      + constructor; [|constructor]. exists u1, c, u2. repeat split; auto; ik.
      + constructor.
      + left; reflexivity.
    - (* mapn *) intros Hget Ht Hne. nud_kind_of Hget. destruct (IHrun1 Hne) as [u1 [-> Hy1]]. noeof_split.
      match goal with H : try_eat K_COLON _ = Some _ |- _ => apply try_eat_cons in H; [|reflexivity]; destruct H as [-> Hkc] end.
      noeof_split. destruct (IHrun2 ltac:(assumption)) as [u2 [-> Hy2]]. noeof_split.
      match goal with H : try_eat K_COMMA _ = Some _ |- _ => apply try_eat_cons in H; [|reflexivity]; destruct H as [-> Hkc2] end.
      noeof_split.
      destruct (IHrun3 ltac:(assumption)) as [tss [tes [tc [HF [Hs [Ho [Hnil ->]]]]]]]. noeof_split. eat_all. noeof_split.
      range_all. rewrite !tpos_noeof by assumption.
      assert (Hp : pair_rel (k, v) (u1 ++ c :: u2)).
      { exists u1, c, u2. repeat split; auto; ik. }
      destruct (sep_extend pair_rel (k, v) (u1 ++ c :: u2) c2 kvs tss tes tc Hp ltac:(ik) HF Hs Ho Hnil)
        as [tss' [tes' [tc' [HF' [Hs' [Ho' Heq]]]]]].
      exists (u1 ++ c :: u2 ++ c2 :: tes ++ tc ++ [rb]). split; [lnorm; reflexivity|].
      replace (u1 ++ c :: u2 ++ c2 :: tes ++ tc ++ [rb]) with (tes' ++ tc' ++ [rb])
        by (rewrite app_assoc, Heq; lnorm; reflexivity).
      apply (Y_map g t rb ((k, v) :: kvs) tss' tes' tc'); auto; try ik. discriminate.
    - (* E_close *) intros Hne. exists [], [], []. repeat split; auto; try constructor. all: try reflexivity; try (left; reflexivity).
    - (* E_last *) intros Hne. destruct (IHrun Hne) as [u [-> Hy]].
      exists [u], u, []. repeat split; auto; try constructor; auto. all: try reflexivity; try (left; reflexivity).
    - (* E_more *) intros Hne. destruct (IHrun1 Hne) as [u [-> Hy]]. noeof_split.
      match goal with H : try_eat K_COMMA _ = Some _ |- _ => apply try_eat_cons in H; [|reflexivity]; destruct H as [-> Hkc] end.
      noeof_split.
      destruct (IHrun2 ltac:(assumption)) as [tss [tes [tc [HF [Hs [Ho [Hnil ->]]]]]]].
      destruct (sep_extend (yields g) e u c es tss tes tc Hy ltac:(ik) HF Hs Ho Hnil) as [tss' [tes' [tc' [HF' [Hs' [Ho' Heq]]]]]].
      exists tss', tes', tc'. repeat split; auto; try discriminate.
      rewrite (app_assoc tes' tc' rest), Heq. lnorm. reflexivity.
    - (* P_close *) intros Hne. exists [], [], []. repeat split; auto; try constructor. all: try reflexivity; try (left; reflexivity).
    - (* P_last *) intros Hne. destruct (IHrun1 Hne) as [u1 [-> Hy1]]. noeof_split. eat_all. noeof_split.
      destruct (IHrun2 ltac:(assumption)) as [u2 [-> Hy2]].
      exists [u1 ++ c :: u2], (u1 ++ c :: u2), []. repeat split; auto; try constructor; auto.
      + exists u1, c, u2. repeat split; auto; ik.
      + lnorm. reflexivity.
    - (* P_more *) intros Hne. destruct (IHrun1 Hne) as [u1 [-> Hy1]]. noeof_split. eat_all. noeof_split.
      destruct (IHrun2 ltac:(assumption)) as [u2 [-> Hy2]]. noeof_split.
      noeof_split.
      destruct (IHrun3 ltac:(assumption)) as [tss [tes [tc [HF [Hs [Ho [Hnil ->]]]]]]].
      assert (Hp : pair_rel (k, v) (u1 ++ c :: u2)).
      { exists u1, c, u2. repeat split; auto; ik. }
      destruct (sep_extend pair_rel (k, v) (u1 ++ c :: u2) c2 kvs tss tes tc Hp ltac:(ik) HF Hs Ho Hnil)
        as [tss' [tes' [tc' [HF' [Hs' [Ho' Heq]]]]]].
      exists tss', tes', tc'. repeat split; auto; try discriminate.
      rewrite (app_assoc tes' tc' rest), Heq. lnorm. reflexivity.
    - (* F_close *) intros Hne. exists [], [], []. repeat split; auto; try constructor. all: try reflexivity; try (left; reflexivity).
    - (* F_last *) intros Hne. eat_all. noeof_split.
      destruct (IHrun ltac:(assumption)) as [u [-> Hy]].
      exists [nm :: c :: u], (nm :: c :: u), []. repeat split; auto; try constructor; auto.
      + exists nm, c, u. repeat split; auto; ik.
    - (* F_more *) intros Hne. eat_all. noeof_split.
      destruct (IHrun1 ltac:(assumption)) as [u [-> Hy]]. noeof_split.
      noeof_split.
      destruct (IHrun2 ltac:(assumption)) as [tss [tes [tc [HF [Hs [Ho [Hnil ->]]]]]]].
      assert (Hp : field_rel (t_lexeme nm, v) (nm :: c :: u)).
      { exists nm, c, u. repeat split; auto; ik. }
      destruct (sep_extend field_rel (t_lexeme nm, v) (nm :: c :: u) c2 fs tss tes tc Hp ltac:(ik) HF Hs Ho Hnil)
        as [tss' [tes' [tc' [HF' [Hs' [Ho' Heq]]]]]].
      exists tss', tes', tc'. repeat split; auto; try discriminate.
      rewrite (app_assoc tes' tc' rest), Heq. lnorm. reflexivity.
    - (* A_last *) intros Hne. destruct (IHrun Hne) as [u [-> Hy]].
      exists [u], u. repeat split; auto; try constructor; auto.
    - (* A_more *) intros Hne. destruct (IHrun1 Hne) as [u [-> Hy]]. noeof_split.
      match goal with H : try_eat K_COMMA _ = Some _ |- _ => apply try_eat_cons in H; [|reflexivity]; destruct H as [-> Hkc] end.
      noeof_split.
      destruct (IHrun2 ltac:(assumption)) as [tss [tes [HF [Hs ->]]]].
      exists (u :: tss), (u ++ c :: tes). repeat split.
      + constructor; assumption.
      + constructor; [ik | | exact Hs]. inv H1; inv HF; discriminate.
      + lnorm. reflexivity.
    - (* C_empty *) intros uc Hlp Hyc Hne. eat_all. noeof_split. range_all. rewrite !tpos_noeof by assumption.
      exists [rp]. split; [reflexivity|].
      apply (Y_call g callee uc lp rp [] [] []); auto; try ik; constructor.
    - (* C_args *) intros uc Hlp Hyc Hne. destruct (IHrun Hne) as [tss [tes [HF [Hs ->]]]]. noeof_split. eat_all.
      noeof_split. range_all. rewrite !tpos_noeof by assumption.
      exists (tes ++ [rp]). split; [lnorm; reflexivity|].
      eapply Y_call; eauto; ik.
    - (* L_bin *) intros ul Hget Ht Hyl Hne. destruct (IHrun Hne) as [u [-> Hy]]. range_all.
      rewrite !tpos_noeof by assumption. exists u. split; [reflexivity|].
      eapply Y_binary; eauto. destruct l; cbn in H; inv H; auto.
    - (* L_postfix *) intros ul Hget Ht Hyl Hne. range_all. rewrite !tpos_noeof by assumption.
      exists []. split; [reflexivity|]. eapply Y_postfix; eauto.
    - (* L_question *) intros ul Hget Ht Hyl Hne. led_kind_of Hget.
      destruct (IHrun1 Hne) as [u1 [-> Hy1]]. noeof_split. eat_all. noeof_split.
      destruct (IHrun2 ltac:(assumption)) as [u2 [-> Hy2]]. range_all. rewrite !tpos_noeof by assumption.
      exists (u1 ++ c :: u2). split; [lnorm; reflexivity|].
      apply Y_ternary; auto; ik.
    - (* L_call *) intros ul Hget Ht Hyl Hne. led_kind_of Hget. apply IHrun; auto. ik.
    - (* L_sub *) intros ul Hget Ht Hyl Hne. led_kind_of Hget.
      destruct (IHrun Hne) as [u [-> Hy]]. noeof_split. eat_all. noeof_split. range_all.
      rewrite !tpos_noeof by assumption. exists (u ++ [rb]). split; [lnorm; reflexivity|].
      apply Y_sub; auto; ik.
    - (* L_dot *) intros ul Hget Ht Hyl Hne. led_kind_of Hget. range_all.
      destruct ts as [|nm r0].
      { cbn in Hidx. pose proof (yields_idx_nonneg _ _ _ Hyl). lia. }
      cbn [peek tl] in *. noeof_split. rewrite !tpos_noeof by assumption.
      exists [nm]. split; [reflexivity|].
      apply (Y_member g left ul t nm); auto. ik.
    - (* L_dotcall *) intros ul Hget Ht Hyl Hne. led_kind_of Hget. range_all.
      destruct ts as [|nm r0].
      { cbn in Hidx. pose proof (yields_idx_nonneg _ _ _ Hyl). lia. }
      cbn [peek tl] in *. noeof_split. eat_all. noeof_split. rewrite !tpos_noeof in * by assumption.
      assert (Hm : yields g (EMember (span (expr_pos left) (tok_pos nm)) (Z.of_N (t_col t)) left (t_lexeme nm) (tok_pos nm))
                     (ul ++ [t; nm])).
      { apply (Y_member g left ul t nm); auto. ik. }
      destruct (IHrun _ ltac:(ik) Hm ltac:(assumption)) as [u [-> Hy]].
      exists (nm :: lp :: u). split; [reflexivity|].
      replace (ul ++ t :: nm :: lp :: u) with ((ul ++ [t; nm]) ++ lp :: u) by (lnorm; reflexivity). exact Hy.
    - (* Lp_stop *) intros ul Hyl Hne. exists []. split; [reflexivity|]. rewrite app_nil_r. exact Hyl.
    - (* Lp_step *) intros ul Hyl Hne. pose proof (peek_infix_cons _ _ _ H0) as Hts.
      destruct ts as [|t0 r0]; [discriminate|]. cbn [peek tl] in *. noeof_split.
      destruct (IHrun1 _ H0 ltac:(assumption) Hyl ltac:(assumption)) as [u1 [-> Hy1]]. noeof_split.
      destruct (IHrun2 _ Hy1 ltac:(assumption)) as [u2 [-> Hy2]].
      exists (t0 :: u1 ++ u2). split; [lnorm; reflexivity|].
      replace (ul ++ t0 :: u1 ++ u2) with ((ul ++ t0 :: u1) ++ u2) by (lnorm; reflexivity). exact Hy2.
  Qed.
End Yields.

Lemma parse_yields : forall ops ts e,
  table_ok ops = true -> no_eof ts = true ->
  parse_tokens ops ts = POk e -> yields (new_grammar ops) e ts.
Proof.
  intros ops ts e Hok Hne H. unfold parse_tokens in H. bind_inv H. destruct x as [e1 rest].
  destruct rest; inv H. apply p_expr_run in Hx.
  apply (run_yields _ (table_ok_gram_ok ops Hok)) in Hx. cbn [P_y] in Hx.
  destruct (Hx Hne) as [u [-> Hy]]. rewrite app_nil_r. exact Hy.
Qed.

(* ---------- remaining input is a suffix ---------- *)
Definition j_ts (j : judg) : list token :=
  match j with
  | JExpr _ ts _ _ | JNud _ _ _ ts _ _ | JLoop _ _ ts _ _ | JLed _ _ _ _ ts _ _ | JCall _ _ ts _ _
  | JElems _ ts _ _ | JPairs ts _ _ | JFields ts _ _ | JArgs ts _ _ => ts
  end.
Definition j_rest (j : judg) : list token :=
  match j with
  | JExpr _ _ _ r | JNud _ _ _ _ _ r | JLoop _ _ _ _ r | JLed _ _ _ _ _ _ r | JCall _ _ _ _ r
  | JElems _ _ _ r | JPairs _ _ r | JFields _ _ r | JArgs _ _ r => r
  end.

Definition sfx (r ts : list token) : Prop := exists u, ts = u ++ r.
Lemma sfx_refl : forall ts, sfx ts ts.
Proof. intro ts. exists []. reflexivity. Qed.
Lemma sfx_trans : forall a b c, sfx a b -> sfx b c -> sfx a c.
Proof. intros a b c [u ->] [v ->]. exists (v ++ u). rewrite app_assoc. reflexivity. Qed.
Lemma sfx_tl : forall ts, sfx (tl ts) ts.
Proof. intros [|t r]; [exists []; reflexivity | exists [t]; reflexivity]. Qed.
Lemma sfx_must_eat : forall k ts t r, must_eat k ts = POk (t, r) -> sfx r ts.
Proof. intros k ts t r H. apply must_eat_inv in H. destruct H as [_ [-> _]]. apply sfx_tl. Qed.
Lemma sfx_try_eat : forall k ts t r, try_eat k ts = Some (t, r) -> sfx r ts.
Proof. intros k ts t r H. apply try_eat_some in H. destruct H as [_ [-> _]]. apply sfx_tl. Qed.

Ltac sfx_facts :=
  repeat match goal with
  | H : must_eat _ _ = POk (_, _) |- _ => apply sfx_must_eat in H
  | H : try_eat _ _ = Some (_, _) |- _ => apply sfx_try_eat in H
  end.
Ltac sfx_solve :=
  repeat first [ apply sfx_refl | assumption | (eapply sfx_trans; [|eassumption]) | (eapply sfx_trans; [|apply sfx_tl]) ].

Lemma run_suffix : forall g j, runr g j -> sfx (j_rest j) (j_ts j).
Proof.
  intros g j H. induction H; cbn [j_ts j_rest] in *; sfx_facts; sfx_solve.
Qed.

(* ---------- stage 5: the accepted tree is well-formed for the declared powers ---------- *)
Definition olx (t : token) : Prop := existsb (list_eqb (t_kind t)) fixed_kinds = true \/ t_lexeme t = t_kind t.
Definition toks_ok (ts : list token) : Prop := Forall olx ts.

Lemma toks_sfx : forall r ts, sfx r ts -> toks_ok ts -> toks_ok r.
Proof. intros r ts [u ->] H. unfold toks_ok in *. apply Forall_app in H. apply H. Qed.

Lemma olx_notfixed : forall t, olx t -> notfixed (t_kind t) -> t_lexeme t = t_kind t.
Proof. intros t [H|H] Hn; [unfold notfixed in Hn; congruence | exact H]. Qed.

Ltac sfx_pre :=
  repeat match goal with H : run _ _ _ |- _ => apply run_suffix in H; cbn [j_ts j_rest] in H end; sfx_facts.
Ltac toks := (eapply toks_sfx; [|eassumption]); sfx_solve.

Section Sound.
  Variable g : grammar.
  Hypothesis Hg : gram_ok g.

  Definition lbpk (ts : list token) : Z := infix_lbp g (peek ts).
  Definition closed_after (e : expr) (rest : list token) : Prop :=
    le_inf (lbpk rest) (rom g e) = true /\ (ends_with_member e = true -> kind_is (peek rest) K_LPAREN = false).

  Definition P_w (j : judg) : Prop :=
    match j with
    | JExpr rbp ts e rest => toks_ok ts -> wfp g rbp e = true /\ lbpk rest <= rbp /\ closed_after e rest
    | JNud n bp t ts e rest =>
        get (t_kind t) (g_prefix g) = Some (bp, n) -> olx t -> toks_ok ts ->
        (forall rbp, wfp g rbp e = true) /\ closed_after e rest
    | JLoop rbp lft ts e rest =>
        toks_ok ts -> wfp g rbp lft = true -> closed_after lft ts ->
        wfp g rbp e = true /\ lbpk rest <= rbp /\ closed_after e rest
    | JLed l bp lft t ts e rest =>
        get (t_kind t) (g_infix g) = Some (bp, l) -> olx t -> toks_ok ts ->
        forall rbp, rbp < bp -> wfp g rbp lft = true -> le_inf bp (rom g lft) = true ->
        (ends_with_member lft = true -> kind_is t K_LPAREN = false) -> infix_n_ok e = true ->
        wfp g rbp e = true /\ closed_after e rest
    | JCall callee lp ts e rest =>
        toks_ok ts -> exists p col args, e = ECall p col callee args /\ forallb (wfp g 0) args = true
    | JElems _ ts es rest => toks_ok ts -> forallb (wfp g 0) es = true
    | JPairs ts kvs rest => toks_ok ts -> forallb (fun kv => wfp g 0 (fst kv) && wfp g 0 (snd kv)) kvs = true
    | JFields ts fs rest => toks_ok ts -> forallb (fun f => wfp g 0 (snd f)) fs = true
    | JArgs ts es rest => toks_ok ts -> forallb (wfp g 0) es = true
    end.

  Lemma closed_atom : forall e rest, rom g e = None -> ends_with_member e = false -> closed_after e rest.
  Proof. intros e rest H1 H2. split; [rewrite H1; reflexivity | rewrite H2; discriminate]. Qed.

  Lemma le_inf_zmin : forall a b o, a <= b -> le_inf a o = true -> le_inf a (zmin b o) = true.
  Proof. intros a b [c|] H1 H2; cbn in *; apply Z.leb_le; [apply Z.leb_le in H2|]; lia. Qed.

  Lemma toks_peek : forall ts, toks_ok ts -> ts = peek ts :: tl ts -> olx (peek ts).
  Proof. intros ts H E. rewrite E in H. inv H. assumption. Qed.

  Ltac nud_kind_of H :=
    let Hk := fresh "Hkind" in
    pose proof (go_prefix g Hg _ _ _ H) as Hk; unfold nud_spec in Hk; cbn [nud_kind] in Hk; destruct Hk as [Hk ?].
  Ltac led_kind_of H :=
    let Hk := fresh "Hkind" in
    pose proof (go_infix g Hg _ _ _ H) as Hk; unfold led_spec in Hk; cbn [led_kind] in Hk; destruct Hk as [Hk ?].

  Lemma run_wfp : forall j, runr g j -> P_w j.
  Proof.
    intros j H. induction H; cbn [P_w] in *.
    - (* R_expr *) intros Htk. pose proof (peek_prefix_cons g Hg _ _ _ H) as Hts.
      pose proof (toks_peek _ Htk Hts) as Hpk.
      assert (Htk1 : toks_ok (tl ts)) by (sfx_pre; toks).
      assert (Htk2 : toks_ok ts2) by (sfx_pre; toks).
      destruct (IHrun1 H Hpk Htk1) as [Hw Hc]. apply IHrun2; auto.
    - intros _ _ _. split; [reflexivity | apply closed_atom; reflexivity].
    - intros _ _ _. split; [reflexivity | apply closed_atom; reflexivity].
    - intros _ _ _. split; [reflexivity | apply closed_atom; reflexivity].
    - intros _ _ _. split; [reflexivity | apply closed_atom; reflexivity].
    - intros _ _ _. split; [reflexivity | apply closed_atom; reflexivity].
    - intros _ _ _. split; [reflexivity | apply closed_atom; reflexivity].
    - (* prefix *) intros Hget Hlx Htk. nud_kind_of Hget. destruct (IHrun Htk) as [Hw [Hstop [Hrom Hewm]]].
      assert (Hpb : prefix_bp g (t_lexeme t) = Some bp).
      { rewrite (olx_notfixed t Hlx Hkind). unfold prefix_bp. rewrite Hget. reflexivity. }
      split.
      + intro rbp. cbn [wfp]. rewrite Hpb. exact Hw.
      + split; cbn [rom ends_with_member]; [|exact Hewm]. rewrite Hpb. apply le_inf_zmin; assumption.
    - (* group *) intros _ _ Htk. destruct (IHrun Htk) as [Hw _].
      split; [intro; exact Hw | apply closed_atom; reflexivity].
    - (* obj *) intros _ _ Htk. split; [intro; apply IHrun; exact Htk | apply closed_atom; reflexivity].
    - split; [reflexivity | apply closed_atom; reflexivity].
    - split; [reflexivity | apply closed_atom; reflexivity].
    - (* list1 *) intros _ _ Htk. destruct (IHrun Htk) as [Hw _].
      split; [intro; cbn [wfp forallb]; rewrite Hw; reflexivity | apply closed_atom; reflexivity].
    - (* listn *) intros _ _ Htk. destruct (IHrun1 Htk) as [Hw _].
      assert (Htk2 : toks_ok ts2) by (sfx_pre; toks).
      split; [intro; cbn [wfp forallb]; rewrite Hw, (IHrun2 Htk2); reflexivity | apply closed_atom; reflexivity].
    - (* map1 *) intros _ _ Htk. destruct (IHrun1 Htk) as [Hw1 _].
      assert (Htk2 : toks_ok ts2) by (sfx_pre; toks). destruct (IHrun2 Htk2) as [Hw2 _].
      split; [intro; cbn [wfp forallb fst snd]; rewrite Hw1, Hw2; reflexivity | apply closed_atom; reflexivity].
    - (* mapn *) intros _ _ Htk. destruct (IHrun1 Htk) as [Hw1 _].
      assert (Htk2 : toks_ok ts2) by (sfx_pre; toks). destruct (IHrun2 Htk2) as [Hw2 _].
      assert (Htk4 : toks_ok ts4) by (sfx_pre; toks).
      split; [intro; cbn [wfp forallb fst snd]; rewrite Hw1, Hw2, (IHrun3 Htk4); reflexivity | apply closed_atom; reflexivity].
    - (* E_close *) reflexivity.
    - intros Htk. destruct (IHrun Htk) as [Hw _]. cbn [forallb]. rewrite Hw. reflexivity.
    - intros Htk. destruct (IHrun1 Htk) as [Hw _]. assert (Htk2 : toks_ok ts2) by (sfx_pre; toks).
      cbn [forallb]. rewrite Hw, (IHrun2 Htk2). reflexivity.
    - (* P_close *) reflexivity.
    - intros Htk. destruct (IHrun1 Htk) as [Hw1 _]. assert (Htk2 : toks_ok ts2) by (sfx_pre; toks).
      destruct (IHrun2 Htk2) as [Hw2 _]. cbn [forallb fst snd]. rewrite Hw1, Hw2. reflexivity.
    - intros Htk. destruct (IHrun1 Htk) as [Hw1 _]. assert (Htk2 : toks_ok ts2) by (sfx_pre; toks).
      destruct (IHrun2 Htk2) as [Hw2 _]. assert (Htk4 : toks_ok ts4) by (sfx_pre; toks).
      cbn [forallb fst snd]. rewrite Hw1, Hw2, (IHrun3 Htk4). reflexivity.
    - (* F_close *) reflexivity.
    - intros Htk. assert (Htk2 : toks_ok ts2) by (sfx_pre; toks).
      destruct (IHrun Htk2) as [Hw _]. cbn [forallb fst snd]. rewrite Hw. reflexivity.
    - intros Htk. assert (Htk2 : toks_ok ts2) by (sfx_pre; toks).
      destruct (IHrun1 Htk2) as [Hw _]. assert (Htk4 : toks_ok ts4) by (sfx_pre; toks).
      cbn [forallb fst snd]. rewrite Hw, (IHrun2 Htk4). reflexivity.
    - (* A_last *) intros Htk. destruct (IHrun Htk) as [Hw _]. cbn [forallb]. rewrite Hw. reflexivity.
    - intros Htk. destruct (IHrun1 Htk) as [Hw _]. assert (Htk2 : toks_ok ts2) by (sfx_pre; toks).
      cbn [forallb]. rewrite Hw, (IHrun2 Htk2). reflexivity.
    - (* C_empty *) intros _. do 3 eexists. split; reflexivity.
    - (* C_args *) intros Htk. do 3 eexists. split; [reflexivity | apply IHrun; exact Htk].
    - (* L_bin *) intros Hget Hlx Htk rbp Hlt Hwl Hrl Hml Hok. destruct (IHrun Htk) as [Hw [Hstop [Hrom Hewm]]].
      assert (Hnf : notfixed (t_kind t) /\ (l = LBinL \/ l = LBinR \/ l = LBinN)).
      { pose proof (go_infix g Hg _ _ _ Hget) as Hk. unfold led_spec in Hk.
        destruct l; cbn in H; inv H; cbn [led_kind] in Hk; destruct Hk; auto. }
      destruct Hnf as [Hnf Hl].
      assert (Hie : infix_entry g (t_lexeme t) = Some (bp, l)).
      { rewrite (olx_notfixed t Hlx Hnf). exact Hget. }
      apply Z.ltb_lt in Hlt.
      split.
      + cbn [wfp]. rewrite Hie.
        destruct Hl as [-> | [-> | ->]]; cbn in H; inv H; cbn [N.eqb Pos.eqb andb]; rewrite Hlt, Hwl, Hrl, Hw; cbn [andb];
          try reflexivity.
        cbn [infix_n_ok] in Hok. unfold same_binary. exact Hok.
      + split; cbn [rom ends_with_member]; [|exact Hewm]. rewrite Hie. apply le_inf_zmin; [|exact Hrom].
        destruct Hl as [-> | [-> | ->]]; cbn in H; inv H; cbn [rbp_of]; exact Hstop.
    - (* L_postfix *) intros Hget Hlx Htk rbp Hlt Hwl Hrl Hml Hok. led_kind_of Hget.
      assert (Hie : infix_entry g (t_lexeme t) = Some (bp, LPostfix)).
      { rewrite (olx_notfixed t Hlx Hkind). exact Hget. }
      apply Z.ltb_lt in Hlt. split; [|apply closed_atom; reflexivity].
      cbn [wfp]. rewrite Hie, Hlt, Hwl, Hrl. reflexivity.
    - (* L_question *) intros Hget Hlx Htk rbp Hlt Hwl Hrl Hml Hok. led_kind_of Hget. subst bp.
      destruct (IHrun1 Htk) as [Hw1 _]. assert (Htk2 : toks_ok ts2) by (sfx_pre; toks).
      destruct (IHrun2 Htk2) as [Hw2 [Hstop [Hrom Hewm]]]. apply Z.ltb_lt in Hlt.
      split.
      + cbn [wfp]. rewrite Hlt, Hwl, Hrl, Hw1, Hw2. reflexivity.
      + split; cbn [rom ends_with_member]; [|exact Hewm]. apply le_inf_zmin; assumption.
    - (* L_call *) intros Hget Hlx Htk rbp Hlt Hwl Hrl Hml Hok. led_kind_of Hget. subst bp.
      destruct (IHrun Htk) as [p [col [args [-> Hargs]]]]. apply Z.ltb_lt in Hlt.
      split; [|apply closed_atom; reflexivity].
      assert (Hnm : ends_with_member left = false).
      { destruct (ends_with_member left); [|reflexivity]. specialize (Hml eq_refl). unfold kind_is in Hml.
        rewrite Hkind in Hml. discriminate. }
      cbn [wfp]. rewrite Hlt, Hwl, Hrl, Hnm, Hargs. destruct left; reflexivity.
    - (* L_sub *) intros Hget Hlx Htk rbp Hlt Hwl Hrl Hml Hok. led_kind_of Hget. subst bp.
      destruct (IHrun Htk) as [Hw _]. apply Z.ltb_lt in Hlt.
      split; [|apply closed_atom; reflexivity]. cbn [wfp]. rewrite Hlt, Hwl, Hrl, Hw. reflexivity.
    - (* L_dot *) intros Hget Hlx Htk rbp Hlt Hwl Hrl Hml Hok. led_kind_of Hget. subst bp. apply Z.ltb_lt in Hlt.
      split.
      + cbn [wfp]. rewrite Hlt, Hwl, Hrl. reflexivity.
      + split; [reflexivity|]. intros _. apply try_eat_none. assumption.
    - (* L_dotcall *) intros Hget Hlx Htk rbp Hlt Hwl Hrl Hml Hok. led_kind_of Hget. subst bp. apply Z.ltb_lt in Hlt.
      assert (Htk2 : toks_ok ts2) by (sfx_pre; toks).
      destruct (IHrun Htk2) as [p' [col [args [-> Hargs]]]].
      split; [|apply closed_atom; reflexivity].
      cbn [wfp]. rewrite Hlt, Hwl, Hrl, Hargs. reflexivity.
    - (* Lp_stop *) intros Htk Hw Hc. split; [exact Hw|]. split; [|exact Hc].
      apply Z.ltb_ge in H. exact H.
    - (* Lp_step *) intros Htk Hw [Hrom Hewm]. pose proof (peek_infix_cons g Hg _ _ _ H0) as Hts.
      pose proof (toks_peek _ Htk Hts) as Hpk.
      assert (Hlb : lbpk ts = bp). { unfold lbpk, infix_lbp. rewrite H0. reflexivity. }
      fold (lbpk ts) in H. rewrite Hlb in *. apply Z.ltb_lt in H.
      assert (Htk1 : toks_ok (tl ts)) by (sfx_pre; toks).
      assert (Htk2 : toks_ok ts2) by (sfx_pre; toks).
      destruct (IHrun1 H0 Hpk Htk1 rbp H Hw Hrom Hewm H2) as [Hw' Hc'].
      apply IHrun2; assumption.
  Qed.
End Sound.

Lemma parse_wfp : forall ops ts e,
  table_ok ops = true -> no_eof ts = true ->
  Forall (fun t => existsb (list_eqb (t_kind t)) fixed_kinds = true \/ t_lexeme t = t_kind t) ts ->
  parse_tokens ops ts = POk e -> wfp (new_grammar ops) 0 e = true.
Proof.
  intros ops ts e Hok _ Hlx H. unfold parse_tokens in H. bind_inv H. destruct x as [e1 rest].
  destruct rest; inv H. apply p_expr_run in Hx.
  apply (run_wfp _ (table_ok_gram_ok ops Hok)) in Hx. cbn [P_w] in Hx. apply Hx. exact Hlx.
Qed.
