(* C12 proofs: the public API never lets a panic escape (given the pinned recover placement), and the front end
   terminates without exhausting its fuel. *)
From Coq Require Import List String Bool Arith NArith ZArith Lia.
From Yae Require Import Base.Sexp Model.Ty Gen.Generated Model.Unify Model.Num Model.Lexer Model.LexSpec Model.Literal Model.Cst Model.Pratt
  Model.PrattSpec Model.Desugar Model.Check Model.Val Model.Builtins Model.Eval Model.VM Model.Api Proofs.Tables
  Proofs.C08Proofs Proofs.C09Proofs.
Import ListNotations.
Local Open Scope string_scope.

Lemma guarded_no_escape : forall X site (r : option X), has_site site = true -> guarded site r <> Escaped.
Proof. intros X site r Hs. unfold guarded. destruct r as [x|]; [discriminate|]. rewrite Hs. discriminate. Qed.

Lemma site_compile : has_site "facade.go:Compile defers e.backStrace" = true.
Proof. vm_compute. reflexivity. Qed.

Lemma site_callable : has_site "facade.go:makeCallable.func defers e.backStrace" = true.
Proof. vm_compute. reflexivity. Qed.

Lemma compile_no_escape : forall ops orc fe te src, api_compile ops orc fe te src <> Escaped.
Proof. intros ops orc fe te src. unfold api_compile. apply guarded_no_escape. exact site_compile. Qed.

Lemma call_no_escape : forall ops orc te code pool rho, fst (api_call ops orc te code pool rho) <> Escaped.
Proof.
  intros ops orc te code pool rho. unfold api_call.
  destruct (env_check te rho); [|simpl; discriminate].
  destruct (vm_run ops orc rho pool None 5000 code) as [t o]. cbn [fst].
  apply guarded_no_escape. exact site_callable.
Qed.

Lemma no_escape : forall ops orc fe te rho src code pool,
  api_compile ops orc fe te src <> Escaped /\
  fst (api_call ops orc te code pool rho) <> Escaped /\
  api_eval ops orc fe te rho src <> Escaped.
Proof.
  intros ops orc fe te rho src code pool. split; [apply compile_no_escape|]. split; [apply call_no_escape|].
  unfold api_eval. pose proof (compile_no_escape ops orc fe te src) as Hc.
  destruct (api_compile ops orc fe te src) as [[[a code'] pool']| |].
  - apply call_no_escape.
  - discriminate.
  - exfalso. apply Hc. reflexivity.
Qed.

Lemma callable_recover_needed : forall X (r : option X),
  r = None -> (if existsb (String.eqb "facade.go:makeCallable.func defers e.backStrace") [] then @AErr X else Escaped) = Escaped.
Proof. intros X r _. reflexivity. Qed.

Lemma front_end_total : forall ops src,
  table_ok ops = true -> ops_wf (map o_kind ops) = true -> parse_source ops src <> PFuel.
Proof.
  intros ops src Ht _. unfold parse_source.
  destruct (lex (map o_kind ops) src) as [ts|]; [|discriminate].
  apply no_fuel_table_ok. exact Ht.
Qed.

Lemma tokens_ok_len : forall c s ts, tokens_ok c s ts -> (len ts <= len s)%nat.
Proof.
  intros c s ts H. induction H as [c s Hs|c s ws t rest ts Hs Hws Hne Hi Hl Hc He Hr IH].
  - unfold len. simpl. lia.
  - subst s. unfold len in *. cbn [List.length]. rewrite !app_length.
    destruct (t_lexeme t) as [|x lx]; [contradiction Hne; reflexivity|]. cbn [List.length]. lia.
Qed.

Lemma tokens_bounded : forall ops src ts, ops_wf ops = true -> lex ops src = Some ts -> (len ts <= len src)%nat.
Proof.
  intros ops src ts Hwf H. eapply tokens_ok_len. eapply partition; eassumption.
Qed.

Print Assumptions no_escape.
Print Assumptions callable_recover_needed.
Print Assumptions front_end_total.
Print Assumptions tokens_bounded.
