(* Proofs for Props/C17.v: type equality is an equivalence that coincides with equality of normal forms;
   matching (unification against a variable-free type) is sound and complete w.r.t. [inst]. *)
From Coq Require Import List String Ascii Bool Arith NArith Lia Permutation Sorting.
From Yae Require Import Base.Sexp Model.Ty Model.Unify Model.TySpec Proofs.TyInd.
Import ListNotations.

(* ------------------------------------------------------------------------------------------------ *)
(* Top-level copies of the nested fixpoints of [ty_eqb]                                              *)
(* ------------------------------------------------------------------------------------------------ *)

Fixpoint eqb_list (l1 l2 : list ty) {struct l1} : bool :=
  match l1, l2 with
  | [], [] => true
  | a :: r1, b :: r2 => ty_eqb a b && eqb_list r1 r2
  | _, _ => false
  end.

Definition eqb_fields (f2 : list (string * ty)) : list (string * ty) -> bool :=
  fix go (f1 : list (string * ty)) : bool :=
    match f1 with
    | [] => true
    | (n, t) :: r => match assoc n f2 with Some t' => ty_eqb t t' | None => false end && go r
    end.

Lemma ty_eqb_tuple l1 l2 : ty_eqb (TTuple l1) (TTuple l2) = eqb_list l1 l2.
Proof. reflexivity. Qed.

Lemma ty_eqb_obj f1 f2 :
  ty_eqb (TObj f1) (TObj f2) = Nat.eqb (List.length f1) (List.length f2) && eqb_fields f2 f1.
Proof. reflexivity. Qed.

Lemma ty_eqb_fun n1 p1 r1 n2 p2 r2 :
  ty_eqb (TFun n1 p1 r1) (TFun n2 p2 r2) = eqb_list p1 p2 && ty_eqb r1 r2.
Proof. reflexivity. Qed.

(* ------------------------------------------------------------------------------------------------ *)
(* Association lists                                                                                 *)
(* ------------------------------------------------------------------------------------------------ *)

Lemma nodupb_NoDup l : nodupb l = true -> NoDup l.
Proof.
  induction l as [|a r IH]; simpl; intros H.
  - constructor.
  - apply andb_true_iff in H. destruct H as [Hn Hr].
    constructor; [|auto].
    intros Hin. apply negb_true_iff in Hn.
    assert (existsb (String.eqb a) r = true) as He.
    { apply existsb_exists. exists a. split; [assumption|apply String.eqb_refl]. }
    congruence.
Qed.

Lemma assoc_In {X} n (l : list (string * X)) t : assoc n l = Some t -> In (n, t) l.
Proof.
  induction l as [|[m x] r IH]; simpl; intros H; [discriminate|].
  destruct (String.eqb_spec n m) as [E|E].
  - inversion H; subst. left; reflexivity.
  - right; auto.
Qed.

Lemma In_assoc {X} n (l : list (string * X)) t :
  NoDup (map fst l) -> In (n, t) l -> assoc n l = Some t.
Proof.
  induction l as [|[m x] r IH]; simpl; intros Hnd Hin; [contradiction|].
  inversion Hnd as [|? ? Hnotin Hnd']; subst.
  destruct Hin as [E|Hin].
  - inversion E; subst. rewrite String.eqb_refl. reflexivity.
  - destruct (String.eqb_spec n m) as [E|E].
    + subst. exfalso. apply Hnotin. apply (in_map fst) in Hin. exact Hin.
    + auto.
Qed.

Lemma In_keys_assoc {X} n (l : list (string * X)) :
  In n (map fst l) -> exists t, assoc n l = Some t.
Proof.
  induction l as [|[m x] r IH]; simpl; intros Hin; [contradiction|].
  destruct (String.eqb_spec n m) as [E|E].
  - eexists; reflexivity.
  - destruct Hin as [E'|Hin]; [congruence|auto].
Qed.

Lemma assoc_In_keys {X} n (l : list (string * X)) t : assoc n l = Some t -> In n (map fst l).
Proof. intros H. apply assoc_In in H. apply (in_map fst) in H. exact H. Qed.

(* ------------------------------------------------------------------------------------------------ *)
(* Characterisations                                                                                 *)
(* ------------------------------------------------------------------------------------------------ *)

Lemma eqb_list_Forall2 l1 l2 :
  eqb_list l1 l2 = true <-> Forall2 (fun a b => ty_eqb a b = true) l1 l2.
Proof.
  revert l2. induction l1 as [|a r1 IH]; intros [|b r2]; simpl; split; intros H;
    try discriminate; try constructor; try solve [inversion H].
  - apply andb_true_iff in H. tauto.
  - apply andb_true_iff in H. apply IH. tauto.
  - inversion H; subst. apply andb_true_iff. split; [assumption|apply IH; assumption].
Qed.

Definition fields_rel (R : ty -> ty -> Prop) (f1 f2 : list (string * ty)) : Prop :=
  forall n t, In (n, t) f1 -> exists t', assoc n f2 = Some t' /\ R t t'.

Lemma eqb_fields_spec f2 f1 :
  eqb_fields f2 f1 = true <-> fields_rel (fun a b => ty_eqb a b = true) f1 f2.
Proof.
  unfold fields_rel. induction f1 as [|[n t] r IH]; simpl; split; intros H.
  - intros ? ? [].
  - reflexivity.
  - apply andb_true_iff in H. destruct H as [H1 H2].
    intros n' t' [E|Hin].
    + inversion E; subst. destruct (assoc n' f2) as [t2|]; [|discriminate]. eauto.
    + apply IH; assumption.
  - apply andb_true_iff. split.
    + destruct (H n t (or_introl eq_refl)) as [t' [Ha Ht]]. rewrite Ha. exact Ht.
    + apply IH. intros n' t' Hin. apply H. right; exact Hin.
Qed.

Lemma ty_eqb_obj_spec f1 f2 :
  ty_eqb (TObj f1) (TObj f2) = true <->
  List.length f1 = List.length f2 /\ fields_rel (fun a b => ty_eqb a b = true) f1 f2.
Proof.
  rewrite ty_eqb_obj, andb_true_iff, Nat.eqb_eq, eqb_fields_spec. tauto.
Qed.

(* fields_rel flips on lists with distinct names and equal length *)
Lemma fields_rel_keys_incl R f1 f2 : fields_rel R f1 f2 -> incl (map fst f1) (map fst f2).
Proof.
  intros H n Hin. apply in_map_iff in Hin. destruct Hin as [[n' t] [E Hin]]. simpl in E; subst.
  destruct (H _ _ Hin) as [t' [Ha _]]. eapply assoc_In_keys; eauto.
Qed.

Lemma fields_rel_flip (R : ty -> ty -> Prop) f1 f2 :
  NoDup (map fst f1) -> NoDup (map fst f2) -> List.length f1 = List.length f2 ->
  fields_rel R f1 f2 -> fields_rel (fun a b => R b a) f2 f1.
Proof.
  intros Hn1 Hn2 Hlen H n t' Hin.
  assert (In n (map fst f1)) as Hk.
  { apply (@NoDup_length_incl _ (map fst f1) (map fst f2) Hn1).
    - rewrite !map_length. lia.
    - eapply fields_rel_keys_incl; eauto.
    - apply (in_map fst) in Hin. exact Hin. }
  destruct (In_keys_assoc _ _ Hk) as [t Ha].
  exists t. split; [assumption|].
  destruct (H _ _ (assoc_In _ _ _ Ha)) as [t'' [Ha2 Hr]].
  rewrite (In_assoc _ _ _ Hn2 Hin) in Ha2. inversion Ha2; subst. exact Hr.
Qed.

(* ------------------------------------------------------------------------------------------------ *)
(* wf_ty accessors                                                                                   *)
(* ------------------------------------------------------------------------------------------------ *)

Lemma wf_obj fs : wf_ty (TObj fs) = true ->
  NoDup (map fst fs) /\ forall n t, In (n, t) fs -> wf_ty t = true.
Proof.
  simpl. intros H. apply andb_true_iff in H. destruct H as [H1 H2]. split.
  - apply nodupb_NoDup; assumption.
  - intros n t Hin. rewrite forallb_forall in H2. apply (H2 _ Hin).
Qed.

Lemma wf_tuple l : wf_ty (TTuple l) = true -> Forall (fun t => wf_ty t = true) l.
Proof. simpl. intros H. apply Forall_forall. apply forallb_forall. exact H. Qed.

Lemma wf_fun n ps r : wf_ty (TFun n ps r) = true -> Forall (fun t => wf_ty t = true) ps /\ wf_ty r = true.
Proof.
  simpl. intros H. apply andb_true_iff in H. destruct H as [H1 H2]. split; [|assumption].
  apply Forall_forall. apply forallb_forall. exact H1.
Qed.

Lemma wf_map k v : wf_ty (TMap k v) = true -> keyable k = true /\ wf_ty k = true /\ wf_ty v = true.
Proof. simpl. intros H. apply andb_true_iff in H. destruct H as [H1 H2]. apply andb_true_iff in H1. tauto. Qed.

(* ------------------------------------------------------------------------------------------------ *)
(* Reflexivity                                                                                       *)
(* ------------------------------------------------------------------------------------------------ *)

Lemma eqb_list_refl l :
  Forall (fun t => wf_ty t = true -> ty_eqb t t = true) l ->
  Forall (fun t => wf_ty t = true) l -> eqb_list l l = true.
Proof.
  induction 1 as [|a r Ha Hr IH]; intros Hw; simpl; [reflexivity|].
  inversion Hw; subst. rewrite Ha by assumption. simpl. auto.
Qed.

Lemma eq_refl : forall t, wf_ty t = true -> ty_eqb t t = true.
Proof.
  induction t using ty_ind'; intros Hw; try reflexivity.
  - simpl. apply String.eqb_refl.
  - rewrite ty_eqb_tuple. apply eqb_list_refl; [assumption|apply wf_tuple; assumption].
  - simpl in *. auto.
  - apply wf_map in Hw. destruct Hw as [_ [Hk Hv]]. simpl. rewrite IHt1, IHt2 by assumption. reflexivity.
  - apply wf_obj in Hw. destruct Hw as [Hnd Hwf].
    apply ty_eqb_obj_spec. split; [reflexivity|].
    intros n t Hin. exists t. split; [apply In_assoc; assumption|].
    rewrite Forall_forall in H. apply (H (n, t) Hin). eapply Hwf; eauto.
  - apply wf_fun in Hw. destruct Hw as [Hps Hr]. rewrite ty_eqb_fun.
    rewrite eqb_list_refl, IHt by assumption. reflexivity.
  - simpl in *. auto.
Qed.

(* ------------------------------------------------------------------------------------------------ *)
(* Symmetry                                                                                          *)
(* ------------------------------------------------------------------------------------------------ *)

Lemma eqb_list_sym l1 :
  Forall (fun x => forall y, wf_ty x = true -> wf_ty y = true -> ty_eqb x y = true -> ty_eqb y x = true) l1 ->
  forall l2, Forall (fun t => wf_ty t = true) l1 -> Forall (fun t => wf_ty t = true) l2 ->
  eqb_list l1 l2 = true -> eqb_list l2 l1 = true.
Proof.
  induction 1 as [|a r1 Ha Hr IH]; intros [|b r2] Hw1 Hw2 H; simpl in *; try discriminate; [reflexivity|].
  apply andb_true_iff in H. destruct H as [H1 H2].
  inversion Hw1; subst. inversion Hw2; subst.
  rewrite (Ha b) by assumption. simpl. apply IH; assumption.
Qed.

Lemma eqb_sym_imp : forall x y, wf_ty x = true -> wf_ty y = true -> ty_eqb x y = true -> ty_eqb y x = true.
Proof.
  induction x using ty_ind'; intros y Hwx Hwy Hxy; destruct y; try (simpl in Hxy; discriminate Hxy);
    try reflexivity.
  - simpl in *. rewrite String.eqb_sym. exact Hxy.
  - rewrite ty_eqb_tuple in *. apply wf_tuple in Hwx. apply wf_tuple in Hwy.
    eapply eqb_list_sym; eauto.
  - simpl in *. auto.
  - apply wf_map in Hwx. apply wf_map in Hwy. simpl in *.
    apply andb_true_iff in Hxy. destruct Hxy as [H1 H2].
    rewrite IHx1, IHx2 by tauto. reflexivity.
  - apply wf_obj in Hwx. apply wf_obj in Hwy. destruct Hwx as [Hn1 Hw1]. destruct Hwy as [Hn2 Hw2].
    apply ty_eqb_obj_spec in Hxy. destruct Hxy as [Hlen Hrel].
    apply ty_eqb_obj_spec. split; [auto|].
    apply fields_rel_flip in Hrel; try assumption.
    intros n t' Hin. destruct (Hrel n t' Hin) as [t [Ha Ht]].
    exists t. split; [assumption|].
    rewrite Forall_forall in H. apply (H (n, t) (assoc_In _ _ _ Ha)); simpl; eauto using assoc_In.
  - apply wf_fun in Hwx. apply wf_fun in Hwy. rewrite ty_eqb_fun in *.
    apply andb_true_iff in Hxy. destruct Hxy as [H1 H2].
    destruct Hwx as [Hp1 Hr1]. destruct Hwy as [Hp2 Hr2].
    rewrite (eqb_list_sym _ H _ Hp1 Hp2 H1). rewrite IHx by assumption. reflexivity.
  - simpl in *. auto.
Qed.

Lemma eq_sym : forall x y, wf_ty x = true -> wf_ty y = true -> ty_eqb x y = ty_eqb y x.
Proof.
  intros x y Hx Hy.
  destruct (ty_eqb x y) eqn:E1; destruct (ty_eqb y x) eqn:E2; try reflexivity.
  - apply eqb_sym_imp in E1; try assumption. congruence.
  - apply eqb_sym_imp in E2; try assumption. congruence.
Qed.

(* ------------------------------------------------------------------------------------------------ *)
(* Transitivity (does not need well-formedness)                                                      *)
(* ------------------------------------------------------------------------------------------------ *)

Lemma eqb_list_trans l1 :
  Forall (fun x => forall y z, ty_eqb x y = true -> ty_eqb y z = true -> ty_eqb x z = true) l1 ->
  forall l2 l3, eqb_list l1 l2 = true -> eqb_list l2 l3 = true -> eqb_list l1 l3 = true.
Proof.
  induction 1 as [|a r1 Ha Hr IH]; intros [|b r2] [|c r3] H1 H2; simpl in *; try discriminate; [reflexivity|].
  apply andb_true_iff in H1. apply andb_true_iff in H2. destruct H1, H2.
  rewrite (Ha b c) by assumption. simpl. eapply IH; eauto.
Qed.

Lemma eqb_trans : forall x y z, ty_eqb x y = true -> ty_eqb y z = true -> ty_eqb x z = true.
Proof.
  induction x using ty_ind'; intros y z Hxy Hyz;
    destruct y; try (simpl in Hxy; discriminate Hxy);
    destruct z; try (simpl in Hyz; discriminate Hyz); try reflexivity.
  - simpl in *. apply String.eqb_eq in Hxy. apply String.eqb_eq in Hyz. subst. apply String.eqb_refl.
  - rewrite ty_eqb_tuple in *. eapply eqb_list_trans; eauto.
  - simpl in *. eauto.
  - simpl in *. apply andb_true_iff in Hxy. apply andb_true_iff in Hyz. destruct Hxy, Hyz.
    rewrite (IHx1 y1 z1), (IHx2 y2 z2) by assumption. reflexivity.
  - apply ty_eqb_obj_spec in Hxy. apply ty_eqb_obj_spec in Hyz. apply ty_eqb_obj_spec.
    destruct Hxy as [L1 R1]. destruct Hyz as [L2 R2]. split; [congruence|].
    intros n t Hin. destruct (R1 n t Hin) as [t2 [A2 E2]].
    destruct (R2 n t2 (assoc_In _ _ _ A2)) as [t3 [A3 E3]].
    exists t3. split; [assumption|].
    rewrite Forall_forall in H. apply (H (n, t) Hin t2 t3); assumption.
  - rewrite ty_eqb_fun in *. apply andb_true_iff in Hxy. apply andb_true_iff in Hyz. destruct Hxy, Hyz.
    rewrite (eqb_list_trans _ H ps0 ps1), (IHx y z) by assumption. reflexivity.
  - simpl in *. eauto.
Qed.

Lemma eq_trans : forall x y z, wf_ty x = true -> wf_ty y = true -> wf_ty z = true ->
  ty_eqb x y = true -> ty_eqb y z = true -> ty_eqb x z = true.
Proof. intros x y z _ _ _. apply eqb_trans. Qed.

(* ------------------------------------------------------------------------------------------------ *)
(* Bottom on the left                                                                                *)
(* ------------------------------------------------------------------------------------------------ *)

Lemma bot_left : forall fa f y m r m',
  slot_free y = true -> unify fa (S f) TBot y m = Ok (r, m') -> y = TBot.
Proof.
  intros fa f y m r m' Hs H. destruct y; try reflexivity; simpl in Hs; try discriminate Hs;
    cbn in H; discriminate H.
Qed.

(* ------------------------------------------------------------------------------------------------ *)
(* String.leb is a total order                                                                       *)
(* ------------------------------------------------------------------------------------------------ *)

Lemma ascii_compare_refl c : Ascii.compare c c = Eq.
Proof. unfold Ascii.compare. apply N.compare_refl. Qed.

Lemma ascii_compare_lt_trans a b c :
  Ascii.compare a b = Lt -> Ascii.compare b c = Lt -> Ascii.compare a c = Lt.
Proof. unfold Ascii.compare. rewrite !N.compare_lt_iff. apply N.lt_trans. Qed.

Lemma str_compare_lt_trans : forall s1 s2 s3,
  String.compare s1 s2 = Lt -> String.compare s2 s3 = Lt -> String.compare s1 s3 = Lt.
Proof.
  induction s1 as [|c1 s1 IH]; intros [|c2 s2] [|c3 s3]; simpl; intros H1 H2; try discriminate; try reflexivity.
  destruct (Ascii.compare c1 c2) eqn:E12; try discriminate;
    destruct (Ascii.compare c2 c3) eqn:E23; try discriminate.
  - apply Ascii.compare_eq_iff in E12. apply Ascii.compare_eq_iff in E23. subst.
    rewrite ascii_compare_refl. eauto.
  - apply Ascii.compare_eq_iff in E12. subst. rewrite E23. reflexivity.
  - apply Ascii.compare_eq_iff in E23. subst. rewrite E12. reflexivity.
  - rewrite (ascii_compare_lt_trans _ _ _ E12 E23). reflexivity.
Qed.

Lemma str_leb_trans s1 s2 s3 :
  String.leb s1 s2 = true -> String.leb s2 s3 = true -> String.leb s1 s3 = true.
Proof.
  unfold String.leb. intros H1 H2.
  destruct (String.compare s1 s2) eqn:E12; try discriminate.
  - apply String.compare_eq_iff in E12. subst. exact H2.
  - destruct (String.compare s2 s3) eqn:E23; try discriminate.
    + apply String.compare_eq_iff in E23. subst. rewrite E12. reflexivity.
    + rewrite (str_compare_lt_trans _ _ _ E12 E23). reflexivity.
Qed.

(* ------------------------------------------------------------------------------------------------ *)
(* sort_kv                                                                                           *)
(* ------------------------------------------------------------------------------------------------ *)

Section SortKV.
  Context {X : Type}.
  Definition kle (a b : string * X) : Prop := String.leb (fst a) (fst b) = true.

  Lemma insert_kv_perm k x (l : list (string * X)) : Permutation (insert_kv k x l) ((k, x) :: l).
  Proof.
    induction l as [|[k' x'] r IH]; simpl.
    - apply Permutation_refl.
    - destruct (String.leb k k').
      + apply Permutation_refl.
      + eapply perm_trans; [apply perm_skip; exact IH|apply perm_swap].
  Qed.

  Lemma sort_kv_perm (l : list (string * X)) : Permutation (sort_kv l) l.
  Proof.
    induction l as [|[k x] r IH]; simpl.
    - apply perm_nil.
    - eapply perm_trans; [apply insert_kv_perm|]. apply perm_skip. exact IH.
  Qed.

  Lemma insert_kv_sorted k x (l : list (string * X)) :
    StronglySorted kle l -> StronglySorted kle (insert_kv k x l).
  Proof.
    induction l as [|[k' x'] r IH]; simpl; intros Hs.
    - constructor; constructor.
    - apply StronglySorted_inv in Hs. destruct Hs as [Hr Hall].
      destruct (String.leb k k') eqn:E.
      + constructor.
        * constructor; assumption.
        * constructor; [exact E|].
          eapply Forall_impl; [|exact Hall]. intros [k2 x2] H2. unfold kle in *; simpl in *.
          eapply str_leb_trans; eauto.
      + constructor; [auto|].
        eapply Permutation_Forall; [apply Permutation_sym; apply insert_kv_perm|].
        constructor; [|assumption].
        unfold kle; simpl. destruct (String.leb_total k k') as [H|H]; [congruence|exact H].
  Qed.

  Lemma sort_kv_sorted (l : list (string * X)) : StronglySorted kle (sort_kv l).
  Proof.
    induction l as [|[k x] r IH]; simpl.
    - constructor.
    - apply insert_kv_sorted. exact IH.
  Qed.

  Lemma sorted_perm_eq : forall l1 l2 : list (string * X),
    StronglySorted kle l1 -> StronglySorted kle l2 -> NoDup (map fst l1) -> Permutation l1 l2 -> l1 = l2.
  Proof.
    induction l1 as [|a r1 IH]; intros l2 S1 S2 Hnd Hp.
    - apply Permutation_nil in Hp. subst. reflexivity.
    - destruct l2 as [|b r2].
      { apply Permutation_sym in Hp. apply Permutation_nil in Hp. discriminate. }
      apply StronglySorted_inv in S1. destruct S1 as [S1 F1].
      apply StronglySorted_inv in S2. destruct S2 as [S2 F2].
      simpl in Hnd. inversion Hnd as [|? ? Hnotin Hnd']; subst.
      assert (a = b) as Eab.
      { assert (In a (b :: r2)) as Ha by (eapply Permutation_in; [exact Hp|left; reflexivity]).
        assert (In b (a :: r1)) as Hb
            by (eapply Permutation_in; [apply Permutation_sym; exact Hp|left; reflexivity]).
        destruct Ha as [Ha|Ha]; [congruence|]. destruct Hb as [Hb|Hb]; [congruence|].
        exfalso. apply Hnotin.
        rewrite Forall_forall in F1, F2.
        assert (fst a = fst b) as E.
        { apply String.leb_antisym; [apply (F1 _ Hb)|apply (F2 _ Ha)]. }
        rewrite E. apply in_map. exact Hb. }
      subst b. f_equal. apply IH; try assumption.
      eapply Permutation_cons_inv; eauto.
  Qed.

  Lemma sort_kv_perm_eq (l1 l2 : list (string * X)) :
    NoDup (map fst l1) -> Permutation l1 l2 -> sort_kv l1 = sort_kv l2.
  Proof.
    intros Hnd Hp. apply sorted_perm_eq; try apply sort_kv_sorted.
    - eapply Permutation_NoDup; [|exact Hnd]. apply Permutation_map. apply Permutation_sym. apply sort_kv_perm.
    - eapply perm_trans; [apply sort_kv_perm|]. eapply perm_trans; [exact Hp|].
      apply Permutation_sym. apply sort_kv_perm.
  Qed.

  Lemma sort_kv_eq_perm (l1 l2 : list (string * X)) : sort_kv l1 = sort_kv l2 -> Permutation l1 l2.
  Proof.
    intros E. eapply perm_trans; [apply Permutation_sym; apply sort_kv_perm|]. rewrite E. apply sort_kv_perm.
  Qed.
End SortKV.

(* ------------------------------------------------------------------------------------------------ *)
(* ty_eqb x y = true  <->  norm x = norm y                                                           *)
(* ------------------------------------------------------------------------------------------------ *)

Definition normf (f : string * ty) : string * ty := (fst f, norm (snd f)).

Lemma norm_obj fs : norm (TObj fs) = TObj (sort_kv (map normf fs)).
Proof. reflexivity. Qed.

Lemma map_fst_normf fs : map fst (map normf fs) = map fst fs.
Proof. rewrite map_map. apply map_ext. intros [n t]; reflexivity. Qed.

Lemma eqb_list_norm l1 :
  Forall (fun x => forall y, wf_ty x = true -> wf_ty y = true -> (ty_eqb x y = true <-> norm x = norm y)) l1 ->
  forall l2, Forall (fun t => wf_ty t = true) l1 -> Forall (fun t => wf_ty t = true) l2 ->
  (eqb_list l1 l2 = true <-> map norm l1 = map norm l2).
Proof.
  induction 1 as [|a r1 Ha Hr IH]; intros [|b r2] Hw1 Hw2; simpl; split; intros HH;
    try discriminate; try reflexivity.
  - inversion Hw1 as [|? ? Wa Wr1]; subst. inversion Hw2 as [|? ? Wb Wr2]; subst.
    apply andb_true_iff in HH. destruct HH as [HH1 HH2].
    apply Ha in HH1; try assumption. apply IH in HH2; try assumption. congruence.
  - inversion Hw1 as [|? ? Wa Wr1]; subst. inversion Hw2 as [|? ? Wb Wr2]; subst. injection HH as E1 E2.
    apply andb_true_iff. split; [apply Ha; assumption|apply IH; assumption].
Qed.

Lemma eq_structural : forall x y, wf_ty x = true -> wf_ty y = true ->
  (ty_eqb x y = true <-> norm x = norm y).
Proof.
  induction x using ty_ind'; intros y Hwx Hwy; destruct y;
    try (split; intros HH; simpl in HH; discriminate HH);
    try (split; reflexivity).
  - simpl. split; intros HH.
    + apply String.eqb_eq in HH. congruence.
    + injection HH as E. subst. apply String.eqb_refl.
  - rewrite ty_eqb_tuple. apply wf_tuple in Hwx. apply wf_tuple in Hwy. simpl.
    rewrite (eqb_list_norm _ H _ Hwx Hwy). split; intros HH; [congruence|injection HH; auto].
  - simpl in *. rewrite (IHx y Hwx Hwy). split; intros HH; [congruence|injection HH; auto].
  - apply wf_map in Hwx. apply wf_map in Hwy. destruct Hwx as [_ [Hk1 Hv1]]. destruct Hwy as [_ [Hk2 Hv2]].
    simpl. rewrite andb_true_iff. rewrite (IHx1 y1 Hk1 Hk2), (IHx2 y2 Hv1 Hv2).
    split; intros HH; [destruct HH; congruence|injection HH; auto].
  - apply wf_obj in Hwx. apply wf_obj in Hwy. destruct Hwx as [Hn1 Hw1]. destruct Hwy as [Hn2 Hw2].
    rewrite Forall_forall in H.
    rewrite ty_eqb_obj_spec, !norm_obj. split; intros HH.
    + destruct HH as [Hlen Hrel]. f_equal. apply sort_kv_perm_eq.
      { rewrite map_fst_normf. assumption. }
      apply NoDup_Permutation_bis.
      * eapply NoDup_map_inv. rewrite map_fst_normf. eassumption.
      * rewrite !map_length. lia.
      * intros [n t'] Hin. apply in_map_iff in Hin. destruct Hin as [[n0 t] [E Hin]].
        unfold normf in E; simpl in E. injection E as En Et. subst n0.
        destruct (Hrel n t Hin) as [t2 [Ha He]].
        apply (H (n, t) Hin t2) in He; simpl; eauto using assoc_In.
        simpl in He. apply in_map_iff. exists (n, t2). split; [|eauto using assoc_In].
        unfold normf; simpl. congruence.
    + injection HH as HH. apply sort_kv_eq_perm in HH. split.
      * apply Permutation_length in HH. rewrite !map_length in HH. exact HH.
      * intros n t Hin.
        assert (In (normf (n, t)) (map normf fs0)) as Hin2.
        { eapply Permutation_in; [exact HH|]. apply in_map. exact Hin. }
        apply in_map_iff in Hin2. destruct Hin2 as [[n' t'] [E Hin2]].
        unfold normf in E; simpl in E. injection E as En Et. subst n'.
        exists t'. split; [apply In_assoc; assumption|].
        apply (H (n, t) Hin t'); simpl; eauto.
  - apply wf_fun in Hwx. apply wf_fun in Hwy. destruct Hwx as [Hp1 Hr1]. destruct Hwy as [Hp2 Hr2].
    rewrite ty_eqb_fun. simpl. rewrite andb_true_iff.
    rewrite (eqb_list_norm _ H _ Hp1 Hp2), (IHx y Hr1 Hr2).
    split; intros HH; [destruct HH; congruence|injection HH; auto].
  - simpl in *. rewrite (IHx y Hwx Hwy). split; intros HH; [congruence|injection HH; auto].
Qed.

(* ------------------------------------------------------------------------------------------------ *)
(* Matching: infrastructure                                                                          *)
(* ------------------------------------------------------------------------------------------------ *)

(* every type bound by the substitution is well formed *)
Definition subst_wf (m : subst) : bool := forallb (fun kv => wf_ty (snd kv)) m.

(* top-level copies of the nested fixpoints of [unify] and [inst] *)
Definition unify_fields (fa f : nat) (f2 : list (string * ty)) :=
  fix go (f1 : list (string * ty)) (m : subst) : res (list (string * ty) * subst) :=
    match f1 with
    | [] => Ok ([], m)
    | (n, a) :: r1 =>
        match assoc n f2 with
        | None => Fail
        | Some b =>
            let* (u, m1) := unify fa f a b m in
            let* (us, m2) := go r1 m1 in Ok ((n, u) :: us, m2)
        end
    end.

Definition unify_list (fa f : nat) :=
  fix go (l1 l2 : list ty) (m : subst) : res (list ty * subst) :=
    match l1, l2 with
    | a :: r1, b :: r2 =>
        let* (u, m1) := unify fa f a b m in
        let* (us, m2) := go r1 r2 m1 in Ok (u :: us, m2)
    | _, _ => Ok ([], m)
    end.

Definition inst_list (s : subst) :=
  fix go (l1 l2 : list ty) {struct l1} : bool :=
    match l1, l2 with
    | [], [] => true
    | a :: r1, b :: r2 => inst s a b && go r1 r2
    | _, _ => false
    end.

Definition inst_fields (s : subst) (f2 : list (string * ty)) :=
  fix go (f1 : list (string * ty)) : bool :=
    match f1 with
    | [] => true
    | (n, a) :: r => match assoc n f2 with Some b => inst s a b | None => false end && go r
    end.

Lemma unify_obj fa f f1 f2 m :
  unify fa (S f) (TObj f1) (TObj f2) m =
  if negb (Nat.eqb (List.length f1) (List.length f2)) then Fail else
  let* (fs, m1) := unify_fields fa f f2 f1 m in Ok (TObj fs, m1).
Proof. reflexivity. Qed.

Lemma unify_tuple fa f l1 l2 m :
  unify fa (S f) (TTuple l1) (TTuple l2) m =
  if negb (Nat.eqb (List.length l1) (List.length l2)) then Fail else
  let* (ks, m1) := unify_list fa f l1 l2 m in Ok (TTuple ks, m1).
Proof. reflexivity. Qed.

Lemma unify_tlist fa f a b m :
  unify fa (S f) (TList a) (TList b) m = let* (e, m1) := unify fa f a b m in Ok (TList e, m1).
Proof. reflexivity. Qed.

Lemma unify_tmaybe fa f a b m :
  unify fa (S f) (TMaybe a) (TMaybe b) m = let* (e, m1) := unify fa f a b m in Ok (TMaybe e, m1).
Proof. reflexivity. Qed.

Lemma unify_tmap fa f k1 v1 k2 v2 m :
  unify fa (S f) (TMap k1 v1) (TMap k2 v2) m =
  let* (k, m1) := unify fa f k1 k2 m in
  let* (v, m2) := unify fa f v1 v2 m1 in
  let* t := mk_map k v in Ok (t, m2).
Proof. reflexivity. Qed.

Lemma unify_var fa f n y m : is_var y = false -> unify fa (S f) (TVar n) y m = bind_var fa n y m.
Proof. destruct y; intros H; try discriminate H; reflexivity. Qed.

Lemma unify_nonvar_bot fa f x m : is_var x = false -> unify fa (S f) x TBot m = Ok (x, m).
Proof. destruct x; intros H; try discriminate H; reflexivity. Qed.

Lemma unify_top fa f y m : is_var y = false -> unify fa (S f) TTop y m = Ok (TTop, m).
Proof. destruct y; intros H; try discriminate H; reflexivity. Qed.

Lemma inst_tuple s l1 l2 : inst s (TTuple l1) (TTuple l2) = inst_list s l1 l2.
Proof. reflexivity. Qed.

Lemma inst_obj s f1 f2 :
  inst s (TObj f1) (TObj f2) = Nat.eqb (List.length f1) (List.length f2) && inst_fields s f2 f1.
Proof. reflexivity. Qed.

Lemma inst_nonvar_bot s p : is_var p = false -> inst s p TBot = true.
Proof. destruct p; intros H; try discriminate H; reflexivity. Qed.

Lemma inst_top s g : inst s TTop g = true.
Proof. destruct g; reflexivity. Qed.

Lemma slot_free_not_var y : slot_free y = true -> is_var y = false.
Proof. destruct y; simpl; intros H; try discriminate H; reflexivity. Qed.

(* ---- rmapM ---- *)
Lemma rmapM_id {X} (g : X -> res X) l :
  (forall x y, In x l -> g x = Ok y -> y = x) -> forall l', rmapM g l = Ok l' -> l' = l.
Proof.
  induction l as [|a r IH]; simpl; intros Hg l' H.
  - inversion H; reflexivity.
  - destruct (g a) as [y| | |] eqn:Ea; simpl in H; try discriminate H.
    destruct (rmapM g r) as [ys| | |] eqn:Er; simpl in H; try discriminate H.
    inversion H; subst. f_equal.
    + apply (Hg a y); [left; reflexivity|assumption].
    + apply IH; [|reflexivity]. intros x y' Hin. apply Hg. right; exact Hin.
Qed.

Lemma rmapM_ok_id {X} (g : X -> res X) l :
  (forall x, In x l -> g x = Ok x) -> rmapM g l = Ok l.
Proof.
  induction l as [|a r IH]; simpl; intros Hg; [reflexivity|].
  rewrite (Hg a) by (left; reflexivity). simpl.
  rewrite IH by (intros x Hin; apply Hg; right; exact Hin). reflexivity.
Qed.

(* ---- apply_subst on a variable-free type ---- *)
Lemma apply_subst_slot_free : forall fa m y y1,
  slot_free y = true -> apply_subst fa m y = Ok y1 -> y1 = y.
Proof.
  induction fa as [|fa IH]; intros m y y1 Hs H; [discriminate H|].
  destruct y; simpl in Hs; try discriminate Hs; simpl in H; try (inversion H; reflexivity).
  - (* tuple *)
    destruct (rmapM (apply_subst fa m) l) as [l'| | |] eqn:E; simpl in H; try discriminate H.
    inversion H; subst. f_equal. eapply rmapM_id; [|exact E].
    intros x y Hin Hx. eapply IH; [|exact Hx]. rewrite forallb_forall in Hs. auto.
  - (* list *)
    destruct (apply_subst fa m y) as [e| | |] eqn:E; simpl in H; try discriminate H.
    inversion H; subst. f_equal. eapply IH; eauto.
  - (* map *)
    apply andb_true_iff in Hs. destruct Hs as [Hs1 Hs2].
    destruct (apply_subst fa m y2) as [k| | |] eqn:E1; simpl in H; try discriminate H.
    destruct (apply_subst fa m y3) as [v| | |] eqn:E2; simpl in H; try discriminate H.
    apply IH in E1; [|assumption]. apply IH in E2; [|assumption]. subst.
    unfold mk_map in H. destruct (keyable y2); inversion H; reflexivity.
  - (* obj *)
    match type of H with rmap _ ?e = _ => destruct e as [fs'| | |] eqn:E end; simpl in H; try discriminate H.
    inversion H; subst. f_equal. eapply rmapM_id; [|exact E].
    intros [n t] [n' t'] Hin Hx. simpl in Hx.
    destruct (apply_subst fa m t) as [t2| | |] eqn:E2; simpl in Hx; try discriminate Hx.
    inversion Hx; subst. f_equal. eapply IH; [|exact E2].
    rewrite forallb_forall in Hs. apply (Hs _ Hin).
  - (* fun *)
    apply andb_true_iff in Hs. destruct Hs as [Hs1 Hs2].
    destruct (rmapM (apply_subst fa m) ps) as [ps'| | |] eqn:E1; simpl in H; try discriminate H.
    destruct (apply_subst fa m y) as [r'| | |] eqn:E2; simpl in H; try discriminate H.
    inversion H; subst. f_equal.
    + eapply rmapM_id; [|exact E1]. intros x y' Hin Hx. eapply IH; [|exact Hx].
      rewrite forallb_forall in Hs1. auto.
    + eapply IH; eauto.
  - (* maybe *)
    destruct (apply_subst fa m y) as [e| | |] eqn:E; simpl in H; try discriminate H.
    inversion H; subst. f_equal. eapply IH; eauto.
Qed.

Lemma size_in_list (l : list ty) x : In x l -> ty_size x <= fold_right (fun x a => ty_size x + a) 0 l.
Proof.
  induction l as [|a r IH]; simpl; intros Hin; [contradiction|].
  destruct Hin as [E|Hin]; [subst; lia|]. specialize (IH Hin). lia.
Qed.

Lemma size_in_fields (l : list (string * ty)) x :
  In x l -> ty_size (snd x) <= fold_right (fun f a => ty_size (snd f) + a) 0 l.
Proof.
  induction l as [|a r IH]; simpl; intros Hin; [contradiction|].
  destruct Hin as [E|Hin]; [subst; lia|]. specialize (IH Hin). lia.
Qed.

Lemma apply_subst_slot_free_ok : forall fa m y,
  slot_free y = true -> wf_ty y = true -> ty_size y <= fa -> apply_subst fa m y = Ok y.
Proof.
  induction fa as [|fa IH]; intros m y Hs Hw Hsz.
  { destruct y; simpl in Hsz; lia. }
  destruct y; simpl in Hs; try discriminate Hs; try reflexivity.
  - (* tuple *)
    simpl. rewrite rmapM_ok_id; [reflexivity|].
    intros x Hin. apply IH.
    + rewrite forallb_forall in Hs. auto.
    + apply wf_tuple in Hw. rewrite Forall_forall in Hw. auto.
    + simpl in Hsz. pose proof (size_in_list _ _ Hin). lia.
  - simpl in *. rewrite IH; [reflexivity|assumption|assumption|lia].
  - apply wf_map in Hw. destruct Hw as [Hk [Hw1 Hw2]].
    apply andb_true_iff in Hs. destruct Hs as [Hs1 Hs2]. simpl in Hsz.
    simpl. rewrite !IH by (assumption || lia). simpl. unfold mk_map. rewrite Hk. reflexivity.
  - apply wf_obj in Hw. destruct Hw as [_ Hw]. simpl in Hsz.
    simpl. rewrite rmapM_ok_id; [reflexivity|].
    intros [n t] Hin. simpl. rewrite IH; [reflexivity| | |].
    + rewrite forallb_forall in Hs. apply (Hs _ Hin).
    + eauto.
    + pose proof (size_in_fields _ _ Hin). simpl in *. lia.
  - apply wf_fun in Hw. destruct Hw as [Hw1 Hw2].
    apply andb_true_iff in Hs. destruct Hs as [Hs1 Hs2]. simpl in Hsz.
    simpl. rewrite rmapM_ok_id.
    + simpl. rewrite IH by (assumption || lia). reflexivity.
    + intros x Hin. apply IH.
      * rewrite forallb_forall in Hs1. auto.
      * rewrite Forall_forall in Hw1. auto.
      * pose proof (size_in_list _ _ Hin). lia.
  - simpl in *. rewrite IH; [reflexivity|assumption|assumption|lia].
Qed.

(* ---- free_from on a variable-free simple type ---- *)
Lemma free_from_ground : forall y n, slot_free y = true -> simple y = true -> free_from y n = Ok true.
Proof.
  induction y using ty_ind'; intros v Hs Hsim; simpl in Hs, Hsim; try discriminate; try reflexivity.
  - simpl. auto.
  - apply andb_true_iff in Hs. apply andb_true_iff in Hsim. destruct Hs, Hsim.
    simpl. rewrite IHy1 by assumption. simpl. auto.
  - simpl. induction H as [|[n t] r Ht Hr IH]; [reflexivity|].
    simpl in *. apply andb_true_iff in Hs. apply andb_true_iff in Hsim. destruct Hs, Hsim.
    rewrite Ht by assumption. simpl. auto.
  - simpl. auto.
Qed.

(* ---- update ---- *)
Lemma assoc_update_same n t m : assoc n (update n t m) = Some t.
Proof.
  induction m as [|[k v] r IH]; simpl.
  - rewrite String.eqb_refl. reflexivity.
  - destruct (String.eqb_spec k n) as [E|E]; simpl.
    + rewrite String.eqb_refl. reflexivity.
    + destruct (String.eqb_spec n k) as [E'|E']; [congruence|exact IH].
Qed.

Lemma assoc_update_other n' n t m : n' <> n -> assoc n' (update n t m) = assoc n' m.
Proof.
  intros Hne. induction m as [|[k v] r IH]; simpl.
  - destruct (String.eqb_spec n' n); [congruence|reflexivity].
  - destruct (String.eqb_spec k n) as [E|E]; simpl.
    + subst k. destruct (String.eqb_spec n' n); [congruence|reflexivity].
    + destruct (String.eqb_spec n' k); [reflexivity|exact IH].
Qed.

Lemma forallb_update (P : ty -> bool) n t m :
  forallb (fun kv => P (snd kv)) m = true -> P t = true ->
  forallb (fun kv => P (snd kv)) (update n t m) = true.
Proof.
  intros Hm Ht. induction m as [|[k v] r IH]; simpl in *.
  - rewrite Ht. reflexivity.
  - apply andb_true_iff in Hm. destruct Hm as [Hv Hr].
    destruct (String.eqb k n); simpl.
    + rewrite Ht, Hr. reflexivity.
    + rewrite Hv. simpl. auto.
Qed.

Lemma forallb_assoc (P : ty -> bool) n t (m : subst) :
  forallb (fun kv => P (snd kv)) m = true -> assoc n m = Some t -> P t = true.
Proof.
  intros Hm Ha. apply assoc_In in Ha. rewrite forallb_forall in Hm. apply (Hm _ Ha).
Qed.

Lemma ground_assoc m n t : ground_subst m = true -> assoc n m = Some t -> slot_free t = true /\ simple t = true.
Proof.
  intros Hm Ha. apply andb_true_iff.
  apply (forallb_assoc (fun t => slot_free t && simple t) n t m Hm Ha).
Qed.

Lemma ground_update n t m :
  ground_subst m = true -> slot_free t = true -> simple t = true -> ground_subst (update n t m) = true.
Proof.
  intros Hm H1 H2. apply (forallb_update (fun t => slot_free t && simple t)); [exact Hm|].
  rewrite H1, H2. reflexivity.
Qed.

Lemma wf_assoc m n t : subst_wf m = true -> assoc n m = Some t -> wf_ty t = true.
Proof. apply (forallb_assoc wf_ty). Qed.

Lemma wf_update n t m : subst_wf m = true -> wf_ty t = true -> subst_wf (update n t m) = true.
Proof. apply (forallb_update wf_ty). Qed.

(* ---- extends ---- *)
Lemma extends_refl m : subst_wf m = true -> extends m m.
Proof. intros Hw n t Ha. exists t. split; [assumption|]. apply eq_refl. eapply wf_assoc; eauto. Qed.

Lemma extends_trans a b c : extends a b -> extends b c -> extends a c.
Proof.
  intros H1 H2 n t Ha. destruct (H1 n t Ha) as [t1 [Hb E1]]. destruct (H2 n t1 Hb) as [t2 [Hc E2]].
  exists t2. split; [assumption|]. eapply eqb_trans; eauto.
Qed.

Lemma extends_update n y m :
  subst_wf m = true -> wf_ty y = true ->
  (forall k, assoc n m = Some k -> ty_eqb k y = true) -> extends m (update n y m).
Proof.
  intros Hw Hy Hk n' t Ha. destruct (String.eqb_spec n' n) as [E|E].
  - subst n'. exists y. rewrite assoc_update_same. split; [reflexivity|auto].
  - exists t. rewrite assoc_update_other by assumption. split; [assumption|].
    apply eq_refl. eapply wf_assoc; eauto.
Qed.

(* ---- bind_var against a variable-free simple type ---- *)
Lemma bind_var_ground fa n y m r m' :
  slot_free y = true -> simple y = true -> bind_var fa n y m = Ok (r, m') ->
  r = y /\ m' = update n y m /\ (forall k, assoc n m = Some k -> ty_eqb k y = true).
Proof.
  intros Hs Hsim H. unfold bind_var in H.
  destruct (apply_subst fa m y) as [y1| | |] eqn:E; simpl in H; try discriminate H.
  apply apply_subst_slot_free in E; [|assumption]. subst y1.
  rewrite free_from_ground in H by assumption. simpl in H.
  destruct (assoc n m) as [k|] eqn:Ea.
  - destruct (ty_eqb k y) eqn:Ek; [|discriminate H]. inversion H; subst.
    repeat split. intros k' Hk'. inversion Hk'; subst. exact Ek.
  - inversion H; subst. repeat split. intros k' Hk'. discriminate Hk'.
Qed.

Lemma bind_var_ok fa n y m :
  slot_free y = true -> simple y = true -> wf_ty y = true -> ty_size y <= fa ->
  (forall k, assoc n m = Some k -> ty_eqb k y = true) ->
  bind_var fa n y m = Ok (y, update n y m).
Proof.
  intros Hs Hsim Hw Hsz Hk. unfold bind_var.
  rewrite apply_subst_slot_free_ok by assumption. simpl.
  rewrite free_from_ground by assumption. simpl.
  destruct (assoc n m) as [k|] eqn:Ea; [|reflexivity].
  rewrite (Hk k) by reflexivity. reflexivity.
Qed.

(* ---- a ground substitution binds no variable to a type containing it ---- *)
Lemma slot_free_occurs : forall t n, slot_free t = true -> occurs n t = false.
Proof.
  induction t using ty_ind'; intros v Hs; simpl in Hs; try discriminate Hs; try reflexivity.
  - simpl. induction H as [|a r Ha Hr IH]; [reflexivity|]. simpl in *.
    apply andb_true_iff in Hs. destruct Hs. rewrite Ha by assumption. simpl. auto.
  - simpl. auto.
  - apply andb_true_iff in Hs. destruct Hs. simpl. rewrite IHt1, IHt2 by assumption. reflexivity.
  - simpl. induction H as [|a r Ha Hr IH]; [reflexivity|]. simpl in *.
    apply andb_true_iff in Hs. destruct Hs. rewrite Ha by assumption. simpl. auto.
  - apply andb_true_iff in Hs. destruct Hs as [Hs1 Hs2]. simpl. rewrite IHt by assumption.
    rewrite orb_false_r.
    induction H as [|a r Ha Hr IH]; [reflexivity|]. simpl in *.
    apply andb_true_iff in Hs1. destruct Hs1. rewrite Ha by assumption. simpl. auto.
  - simpl. auto.
Qed.

Lemma ground_no_self_binding m : ground_subst m = true -> no_self_binding m.
Proof. intros Hm n t Ha. apply slot_free_occurs. eapply ground_assoc; eauto. Qed.

(* ------------------------------------------------------------------------------------------------ *)
(* Matching: soundness                                                                               *)
(* ------------------------------------------------------------------------------------------------ *)

Lemma inst_mono : forall p s s' g,
  subst_wf s = true -> subst_wf s' = true -> extends s s' -> inst s p g = true -> inst s' p g = true.
Proof.
  intros p s s' g Hw Hw' Hext. revert g.
  induction p using ty_ind'; intros g Hi.
  3: { (* variable *)
    assert (forall g, inst s (TVar n) g = match assoc n s with Some t => ty_eqb t g | None => false end) as E1
        by (intros g0; destruct g0; reflexivity).
    assert (forall g, inst s' (TVar n) g = match assoc n s' with Some t => ty_eqb t g | None => false end) as E2
        by (intros g0; destruct g0; reflexivity).
    rewrite E1 in Hi. rewrite E2. destruct (assoc n s) as [t|] eqn:Ea; [|discriminate Hi].
    destruct (Hext n t Ea) as [t' [Ea' Et]]. rewrite Ea'.
    eapply eqb_trans; [|exact Hi]. apply eqb_sym_imp; eauto using wf_assoc. }
  all: destruct g; try exact Hi; try (simpl in Hi; discriminate Hi); try reflexivity.
  - (* tuple *)
    rewrite inst_tuple in *. revert l0 Hi.
    induction H as [|a r Ha Hr IH]; intros [|b r2] Hi; simpl in *; try discriminate Hi; [reflexivity|].
    apply andb_true_iff in Hi. destruct Hi as [H1 H2]. rewrite (Ha b H1). simpl. auto.
  - simpl in *. auto.
  - simpl in *. apply andb_true_iff in Hi. destruct Hi as [H1 H2].
    rewrite (IHp1 _ H1), (IHp2 _ H2). reflexivity.
  - rewrite inst_obj in *. apply andb_true_iff in Hi. destruct Hi as [H1 H2]. rewrite H1. simpl.
    clear H1. induction H as [|[n a] r Ha Hr IH]; [reflexivity|]. simpl in *.
    apply andb_true_iff in H2. destruct H2 as [H2 H3].
    destruct (assoc n fs0) as [b|]; [|discriminate H2].
    rewrite (Ha b H2). simpl. auto.
  - simpl in *. auto.
Qed.

Definition sound_post (m : subst) (x y : ty) (m' : subst) : Prop :=
  ground_subst m' = true /\ subst_wf m' = true /\ extends m m' /\ inst m' x y = true.

Lemma sound_unchanged m x y :
  ground_subst m = true -> subst_wf m = true -> inst m x y = true -> sound_post m x y m.
Proof. intros Hg Hw Hi. repeat split; auto using extends_refl. Qed.

Definition sound_stmt (fa : nat) (x : ty) : Prop :=
  forall f y m r m',
    simple x = true -> simple y = true -> wf_ty y = true -> slot_free y = true ->
    ground_subst m = true -> subst_wf m = true ->
    unify fa f x y m = Ok (r, m') -> sound_post m x y m'.

Lemma unify_fields_sound fa f f2 :
  (forall n b, In (n, b) f2 -> simple b = true /\ wf_ty b = true /\ slot_free b = true) ->
  forall f1, Forall (fun nf => sound_stmt fa (snd nf)) f1 ->
  forallb (fun nf => simple (snd nf)) f1 = true ->
  forall m fs m', ground_subst m = true -> subst_wf m = true ->
  unify_fields fa f f2 f1 m = Ok (fs, m') ->
  ground_subst m' = true /\ subst_wf m' = true /\ extends m m' /\ inst_fields m' f2 f1 = true.
Proof.
  intros Hf2. induction 1 as [|[n a] r1 Ha Hr IH]; intros Hsim m fs m' Hg Hw H; simpl in H.
  - inversion H; subst. repeat split; auto using extends_refl.
  - simpl in Hsim. apply andb_true_iff in Hsim. destruct Hsim as [Hsa Hsr].
    destruct (assoc n f2) as [b|] eqn:Eb; [|discriminate H].
    destruct (Hf2 n b (assoc_In _ _ _ Eb)) as [Hb1 [Hb2 Hb3]].
    destruct (unify fa f a b m) as [[u m1]| | |] eqn:E1; simpl in H; try discriminate H.
    match type of H with rbind ?e _ = _ => destruct e as [[us m2]| | |] eqn:E2 end;
      simpl in H; try discriminate H.
    inversion H; subst.
    destruct (Ha f b m u m1 Hsa Hb1 Hb2 Hb3 Hg Hw E1) as [Hg1 [Hw1 [He1 Hi1]]].
    destruct (IH Hsr m1 us m' Hg1 Hw1 E2) as [Hg2 [Hw2 [He2 Hi2]]].
    repeat split; try assumption.
    + eapply extends_trans; eauto.
    + simpl in Hi1. simpl. rewrite Eb. rewrite (inst_mono _ _ _ _ Hw1 Hw2 He2 Hi1). simpl. exact Hi2.
Qed.

Lemma unify_sound_simple fa : forall x, sound_stmt fa x.
Proof.
  induction x using ty_ind'; intros f y m r m' Hsx Hsy Hwy Hfy Hg Hw HU;
    (destruct f as [|f]; [discriminate HU|]);
    pose proof (slot_free_not_var _ Hfy) as Hnv.
  - (* top *) rewrite unify_top in HU by assumption. inversion HU; subst.
    apply sound_unchanged; auto using inst_top.
  - (* bot *) pose proof (bot_left _ _ _ _ _ _ Hfy HU). subst y.
    rewrite unify_nonvar_bot in HU by reflexivity. inversion HU; subst.
    apply sound_unchanged; auto.
  - (* var *) rewrite unify_var in HU by assumption.
    apply bind_var_ground in HU; try assumption. destruct HU as [Hr [Hm Hk]]. subst r m'.
    repeat split.
    + apply ground_update; assumption.
    + apply wf_update; assumption.
    + apply extends_update; assumption.
    + assert (forall g, inst (update n y m) (TVar n) g =
                        match assoc n (update n y m) with Some t => ty_eqb t g | None => false end) as E1
          by (intros g0; destruct g0; reflexivity).
      rewrite E1, assoc_update_same. apply eq_refl. assumption.
  - (* num *) destruct y; try discriminate Hnv; try (simpl in HU; discriminate HU);
      simpl in HU; inversion HU; subst; apply sound_unchanged; auto.
  - destruct y; try discriminate Hnv; try (simpl in HU; discriminate HU);
      simpl in HU; inversion HU; subst; apply sound_unchanged; auto.
  - destruct y; try discriminate Hnv; try (simpl in HU; discriminate HU);
      simpl in HU; inversion HU; subst; apply sound_unchanged; auto.
  - destruct y; try discriminate Hnv; try (simpl in HU; discriminate HU);
      simpl in HU; inversion HU; subst; apply sound_unchanged; auto.
  - (* tuple *) discriminate Hsx.
  - (* list *)
    destruct y; try discriminate Hnv; try (simpl in HU; discriminate HU).
    + rewrite unify_nonvar_bot in HU by reflexivity. inversion HU; subst. apply sound_unchanged; auto.
    + rewrite unify_tlist in HU.
      destruct (unify fa f x y m) as [[e m1]| | |] eqn:E; simpl in HU; try discriminate HU.
      inversion HU; subst. simpl in *.
      destruct (IHx f y m e m' Hsx Hsy Hwy Hfy Hg Hw E) as [Hg1 [Hw1 [He1 Hi1]]].
      repeat split; assumption.
  - (* map *)
    destruct y; try discriminate Hnv; try (simpl in HU; discriminate HU).
    + rewrite unify_nonvar_bot in HU by reflexivity. inversion HU; subst. apply sound_unchanged; auto.
    + rewrite unify_tmap in HU.
      apply wf_map in Hwy. destruct Hwy as [_ [Hw1 Hw2]].
      simpl in Hsx, Hsy, Hfy.
      apply andb_true_iff in Hsx. apply andb_true_iff in Hsy. apply andb_true_iff in Hfy.
      destruct Hsx as [Hsx1 Hsx2]. destruct Hsy as [Hsy1 Hsy2]. destruct Hfy as [Hfy1 Hfy2].
      destruct (unify fa f x1 y1 m) as [[k m1]| | |] eqn:E1; simpl in HU; try discriminate HU.
      destruct (unify fa f x2 y2 m1) as [[v m2]| | |] eqn:E2; simpl in HU; try discriminate HU.
      destruct (mk_map k v) as [t| | |] eqn:E3; simpl in HU; try discriminate HU.
      inversion HU; subst.
      destruct (IHx1 f y1 m k m1 Hsx1 Hsy1 Hw1 Hfy1 Hg Hw E1) as [Hg1 [Hww1 [He1 Hi1]]].
      destruct (IHx2 f y2 m1 v m' Hsx2 Hsy2 Hw2 Hfy2 Hg1 Hww1 E2) as [Hg2 [Hww2 [He2 Hi2]]].
      repeat split; try assumption.
      * eapply extends_trans; eauto.
      * simpl. rewrite (inst_mono _ _ _ _ Hww1 Hww2 He2 Hi1), Hi2. reflexivity.
  - (* obj *)
    destruct y; try discriminate Hnv; try (simpl in HU; discriminate HU).
    + rewrite unify_nonvar_bot in HU by reflexivity. inversion HU; subst. apply sound_unchanged; auto.
    + rewrite unify_obj in HU.
      destruct (Nat.eqb (List.length fs) (List.length fs0)) eqn:El; simpl in HU; [|discriminate HU].
      destruct (unify_fields fa f fs0 fs m) as [[us m1]| | |] eqn:E; simpl in HU; try discriminate HU.
      inversion HU; subst.
      apply wf_obj in Hwy. destruct Hwy as [_ Hwy]. simpl in Hsx, Hsy, Hfy.
      rewrite forallb_forall in Hsy, Hfy.
      eapply unify_fields_sound in E; try eassumption.
      * destruct E as [Hg1 [Hw1 [He1 Hi1]]]. repeat split; try assumption.
        rewrite inst_obj, El, Hi1. reflexivity.
      * intros n b Hin. repeat split; [apply (Hsy _ Hin)|eauto|apply (Hfy _ Hin)].
  - (* fun *) discriminate Hsx.
  - (* maybe *)
    destruct y; try discriminate Hnv; try (simpl in HU; discriminate HU).
    + rewrite unify_nonvar_bot in HU by reflexivity. inversion HU; subst. apply sound_unchanged; auto.
    + rewrite unify_tmaybe in HU.
      destruct (unify fa f x y m) as [[e m1]| | |] eqn:E; simpl in HU; try discriminate HU.
      inversion HU; subst. simpl in *.
      destruct (IHx f y m e m' Hsx Hsy Hwy Hfy Hg Hw E) as [Hg1 [Hw1 [He1 Hi1]]].
      repeat split; assumption.
Qed.

Lemma unify_list_sound fa f : forall l1 l2 m us m',
  forallb simple l1 = true -> forallb simple l2 = true ->
  Forall (fun t => wf_ty t = true) l2 -> forallb slot_free l2 = true ->
  List.length l1 = List.length l2 ->
  ground_subst m = true -> subst_wf m = true ->
  unify_list fa f l1 l2 m = Ok (us, m') ->
  ground_subst m' = true /\ subst_wf m' = true /\ extends m m' /\ inst_list m' l1 l2 = true.
Proof.
  induction l1 as [|a r1 IH]; intros [|b r2] m us m' Hs1 Hs2 Hw2 Hf2 Hlen Hg Hw HU;
    simpl in Hlen; try discriminate Hlen; simpl in HU.
  - inversion HU; subst. repeat split; auto using extends_refl.
  - simpl in Hs1, Hs2, Hf2.
    apply andb_true_iff in Hs1. apply andb_true_iff in Hs2. apply andb_true_iff in Hf2.
    destruct Hs1 as [Hsa Hsr1]. destruct Hs2 as [Hsb Hsr2]. destruct Hf2 as [Hfb Hfr2].
    inversion Hw2 as [|? ? Hwb Hwr2]; subst.
    destruct (unify fa f a b m) as [[u m1]| | |] eqn:E1; simpl in HU; try discriminate HU.
    match type of HU with rbind ?e _ = _ => destruct e as [[us' m2]| | |] eqn:E2 end;
      simpl in HU; try discriminate HU.
    inversion HU; subst.
    destruct (unify_sound_simple fa a f b m u m1 Hsa Hsb Hwb Hfb Hg Hw E1) as [Hg1 [Hw1 [He1 Hi1]]].
    assert (List.length r1 = List.length r2) as Hlen' by lia.
    destruct (IH r2 m1 us' m' Hsr1 Hsr2 Hwr2 Hfr2 Hlen' Hg1 Hw1 E2) as [Hg2 [Hw2' [He2 Hi2]]].
    repeat split; try assumption.
    + eapply extends_trans; eauto.
    + simpl. rewrite (inst_mono _ _ _ _ Hw1 Hw2' He2 Hi1). simpl. exact Hi2.
Qed.

Lemma pat_ok_cases x : pat_ok x = true -> (exists l, x = TTuple l /\ forallb simple l = true) \/ simple x = true.
Proof. destruct x; simpl; intros H; eauto. Qed.

Lemma match_sound_post : forall fa f x y m r m',
  pat_ok x = true -> pat_ok y = true -> wf_ty y = true ->
  slot_free y = true -> ground_subst m = true -> subst_wf m = true ->
  unify fa f x y m = Ok (r, m') -> sound_post m x y m'.
Proof.
  intros fa f x y m r m' Hpx Hpy Hwy Hfy Hg Hw HU.
  destruct f as [|f]; [discriminate HU|].
  pose proof (slot_free_not_var _ Hfy) as Hnv.
  destruct (pat_ok_cases _ Hpx) as [[l1 [Ex Hs1]]|Hsx];
    destruct (pat_ok_cases _ Hpy) as [[l2 [Ey Hs2]]|Hsy]; subst.
  - (* tuple / tuple *)
    rewrite unify_tuple in HU.
    destruct (Nat.eqb (List.length l1) (List.length l2)) eqn:El; simpl in HU; [|discriminate HU].
    destruct (unify_list fa f l1 l2 m) as [[ks m1]| | |] eqn:E; simpl in HU; try discriminate HU.
    inversion HU; subst. apply Nat.eqb_eq in El. apply wf_tuple in Hwy. simpl in Hfy.
    destruct (unify_list_sound fa f l1 l2 m ks m' Hs1 Hs2 Hwy Hfy El Hg Hw E) as [Hg1 [Hw1 [He1 Hi1]]].
    repeat split; try assumption.
  - (* tuple / simple *)
    destruct y; try discriminate Hnv; try discriminate Hsy; try (simpl in HU; discriminate HU).
    rewrite unify_nonvar_bot in HU by reflexivity. inversion HU; subst. apply sound_unchanged; auto.
  - (* simple / tuple *)
    destruct x; try discriminate Hsx; try (simpl in HU; discriminate HU).
    + rewrite unify_top in HU by reflexivity. inversion HU; subst. apply sound_unchanged; auto.
    + exfalso. rewrite unify_var in HU by reflexivity. unfold bind_var in HU.
      destruct (apply_subst fa m (TTuple l2)) as [y1| | |] eqn:E; simpl in HU; try discriminate HU.
      apply apply_subst_slot_free in E; [|assumption]. subst y1. simpl in HU. discriminate HU.
  - eapply unify_sound_simple; eauto.
Qed.

(* The statement of C17_match_sound is false when the incoming substitution binds a variable to an ill-formed
   object type (duplicate field names): [ty_eqb] is not reflexive on such a type, so [extends m m] fails even
   though [unify] returns [m] unchanged. *)
Lemma match_sound_counterexample :
  let bad := TObj [("x"%string, TNum); ("x"%string, TStr)] in
  let m := [("a"%string, bad)] in
  pat_ok TNum = true /\ wf_ty TNum = true /\ slot_free TNum = true /\ ground_subst m = true /\
  unify 1 1 TNum TNum m = Ok (TNum, m) /\ ~ extends m m.
Proof.
  cbv zeta. repeat split; try reflexivity.
  intros He. destruct (He "a"%string _ Logic.eq_refl) as [t' [Ha Ht]].
  vm_compute in Ha. inversion Ha; subst. vm_compute in Ht. discriminate Ht.
Qed.

(* C17_match_sound under the extra hypothesis [subst_wf m = true]
   (every type bound by the incoming substitution is well formed). *)
Lemma match_sound_partial : forall fa f x y m r m',
  pat_ok x = true -> pat_ok y = true -> wf_ty x = true -> wf_ty y = true ->
  slot_free y = true -> ground_subst m = true ->
  subst_wf m = true ->
  unify fa f x y m = Ok (r, m') ->
  ground_subst m' = true /\ extends m m' /\ no_self_binding m' /\ inst m' x y = true.
Proof.
  intros fa f x y m r m' Hpx Hpy _ Hwy Hfy Hg Hw HU.
  destruct (match_sound_post fa f x y m r m' Hpx Hpy Hwy Hfy Hg Hw HU) as [Hg1 [Hw1 [He1 Hi1]]].
  repeat split; auto using ground_no_self_binding.
Qed.

(* the resulting substitution is again well formed, so the lemma can be iterated *)
Lemma match_sound_partial_wf : forall fa f x y m r m',
  pat_ok x = true -> pat_ok y = true -> wf_ty y = true ->
  slot_free y = true -> ground_subst m = true -> subst_wf m = true ->
  unify fa f x y m = Ok (r, m') -> subst_wf m' = true.
Proof.
  intros fa f x y m r m' Hpx Hpy Hwy Hfy Hg Hw HU.
  destruct (match_sound_post fa f x y m r m' Hpx Hpy Hwy Hfy Hg Hw HU) as [Hg1 [Hw1 [He1 Hi1]]].
  exact Hw1.
Qed.

(* ------------------------------------------------------------------------------------------------ *)
(* Matching: completeness                                                                            *)
(* ------------------------------------------------------------------------------------------------ *)

Lemma extends_update_target n y m s t :
  extends m s -> assoc n s = Some t -> ty_eqb y t = true -> extends (update n y m) s.
Proof.
  intros He Ha Hy n' t' Ha'. destruct (String.eqb_spec n' n) as [E|E].
  - subst n'. rewrite assoc_update_same in Ha'. inversion Ha'; subst. eauto.
  - rewrite assoc_update_other in Ha' by assumption. auto.
Qed.

Lemma inst_var s n g : inst s (TVar n) g = match assoc n s with Some t => ty_eqb t g | None => false end.
Proof. destruct g; reflexivity. Qed.

Definition complete_stmt (fa : nat) (s : subst) (x : ty) : Prop :=
  forall f y m,
    simple x = true -> simple y = true -> wf_ty x = true -> wf_ty y = true -> slot_free y = true ->
    ground_subst m = true -> ty_size y <= fa -> ty_size x <= f -> extends m s -> inst s x y = true ->
    exists r m', unify fa f x y m = Ok (r, m') /\ ground_subst m' = true /\ extends m' s /\
                 (keyable x = true -> keyable y = true -> keyable r = true).

Lemma unify_fields_complete fa s f f2 :
  (forall n b, In (n, b) f2 -> simple b = true /\ wf_ty b = true /\ slot_free b = true /\ ty_size b <= fa) ->
  forall f1, Forall (fun nf => complete_stmt fa s (snd nf)) f1 ->
  (forall nf, In nf f1 -> simple (snd nf) = true /\ wf_ty (snd nf) = true /\ ty_size (snd nf) <= f) ->
  forall m, ground_subst m = true -> extends m s -> inst_fields s f2 f1 = true ->
  exists us m', unify_fields fa f f2 f1 m = Ok (us, m') /\ ground_subst m' = true /\ extends m' s.
Proof.
  intros Hf2. induction 1 as [|[n a] r1 Ha Hr IH]; intros Hf1 m Hg He Hi; simpl in Hi |- *.
  - eauto.
  - apply andb_true_iff in Hi. destruct Hi as [Hi1 Hi2].
    destruct (assoc n f2) as [b|] eqn:Eb; [|discriminate Hi1].
    destruct (Hf2 n b (assoc_In _ _ _ Eb)) as [Hb1 [Hb2 [Hb3 Hb4]]].
    destruct (Hf1 (n, a) (or_introl Logic.eq_refl)) as [Ha1 [Ha2 Ha3]]. simpl in Ha1, Ha2, Ha3.
    destruct (Ha f b m Ha1 Hb1 Ha2 Hb2 Hb3 Hg Hb4 Ha3 He Hi1) as [u [m1 [E1 [Hg1 [He1 _]]]]].
    simpl in E1. rewrite E1. simpl.
    destruct (IH (fun nf Hin => Hf1 nf (or_intror Hin)) m1 Hg1 He1 Hi2) as [us [m2 [E2 [Hg2 He2]]]].
    fold (unify_fields fa f f2). rewrite E2. simpl. eauto.
Qed.

Lemma unify_complete_simple fa s :
  ground_subst s = true -> subst_wf s = true -> forall x, complete_stmt fa s x.
Proof.
  intros Hgs Hws.
  induction x using ty_ind'; intros f y m Hsx Hsy Hwx Hwy Hfy Hg Hfa Hf He Hi;
    (destruct f as [|f]; [destruct x; simpl in Hf; lia|]) || (destruct f as [|f]; [simpl in Hf; lia|]);
    pose proof (slot_free_not_var _ Hfy) as Hnv.
  - (* top *) rewrite unify_top by assumption. exists TTop, m. repeat split; auto.
  - (* bot *) destruct y; try discriminate Hnv; try (simpl in Hi; discriminate Hi).
    exists TBot, m. repeat split; auto.
  - (* var *)
    rewrite inst_var in Hi. destruct (assoc n s) as [t|] eqn:Ea; [|discriminate Hi].
    rewrite unify_var by assumption. rewrite bind_var_ok; try assumption.
    + exists y, (update n y m). repeat split; auto.
      * apply ground_update; assumption.
      * eapply extends_update_target; eauto. apply eqb_sym_imp; eauto using wf_assoc.
    + intros k Hk. destruct (He n k Hk) as [t' [Ha' Hkt]]. rewrite Ea in Ha'. inversion Ha'; subst.
      eapply eqb_trans; eauto.
  - destruct y; try discriminate Hnv; try (simpl in Hi; discriminate Hi);
      exists TNum, m; repeat split; auto.
  - destruct y; try discriminate Hnv; try (simpl in Hi; discriminate Hi);
      exists TStr, m; repeat split; auto.
  - destruct y; try discriminate Hnv; try (simpl in Hi; discriminate Hi);
      exists TBool, m; repeat split; auto.
  - destruct y; try discriminate Hnv; try (simpl in Hi; discriminate Hi);
      exists TTime, m; repeat split; auto.
  - discriminate Hsx.
  - (* list *)
    destruct y; try discriminate Hnv; try (simpl in Hi; discriminate Hi).
    + rewrite unify_nonvar_bot by reflexivity. exists (TList x), m. repeat split; auto.
    + rewrite unify_tlist. simpl in *.
      destruct (IHx f y m Hsx Hsy Hwx Hwy Hfy Hg) as [e [m1 [E [Hg1 [He1 _]]]]]; try assumption; try lia.
      rewrite E. simpl. exists (TList e), m1. repeat split; auto; try (intros Hk; discriminate Hk).
  - (* map *)
    destruct y; try discriminate Hnv; try (simpl in Hi; discriminate Hi).
    + rewrite unify_nonvar_bot by reflexivity. exists (TMap x1 x2), m. repeat split; auto.
    + rewrite unify_tmap.
      apply wf_map in Hwx. destruct Hwx as [Hkx [Hwx1 Hwx2]].
      apply wf_map in Hwy. destruct Hwy as [Hky [Hwy1 Hwy2]].
      simpl in Hsx, Hsy, Hfy, Hi, Hfa, Hf.
      apply andb_true_iff in Hsx. apply andb_true_iff in Hsy. apply andb_true_iff in Hfy.
      apply andb_true_iff in Hi.
      destruct Hsx as [Hsx1 Hsx2]. destruct Hsy as [Hsy1 Hsy2]. destruct Hfy as [Hfy1 Hfy2].
      destruct Hi as [Hi1 Hi2].
      destruct (IHx1 f y1 m Hsx1 Hsy1 Hwx1 Hwy1 Hfy1 Hg) as [k [m1 [E1 [Hg1 [He1 Hk1]]]]];
        try assumption; try lia.
      rewrite E1. simpl.
      destruct (IHx2 f y2 m1 Hsx2 Hsy2 Hwx2 Hwy2 Hfy2 Hg1) as [v [m2 [E2 [Hg2 [He2 _]]]]];
        try assumption; try lia.
      rewrite E2. simpl. unfold mk_map. rewrite (Hk1 Hkx Hky). simpl.
      exists (TMap k v), m2. repeat split; auto; try (intros Hk; discriminate Hk).
  - (* obj *)
    destruct y; try discriminate Hnv; try (simpl in Hi; discriminate Hi).
    + rewrite unify_nonvar_bot by reflexivity. exists (TObj fs), m. repeat split; auto.
    + rewrite unify_obj. rewrite inst_obj in Hi. apply andb_true_iff in Hi. destruct Hi as [Hl Hi].
      rewrite Hl. simpl.
      apply wf_obj in Hwx. destruct Hwx as [_ Hwx]. apply wf_obj in Hwy. destruct Hwy as [_ Hwy].
      simpl in Hsx, Hsy, Hfy, Hfa, Hf. rewrite forallb_forall in Hsx, Hsy, Hfy.
      destruct (unify_fields_complete fa s f fs0) with (f1 := fs) (m := m) as [us [m1 [E [Hg1 He1]]]];
        try assumption.
      * intros n b Hin. repeat split; [apply (Hsy _ Hin)|eauto|apply (Hfy _ Hin)|].
        pose proof (size_in_fields _ _ Hin). simpl in *. lia.
      * intros [n a] Hin. repeat split; [apply (Hsx _ Hin)|simpl; eauto|].
        pose proof (size_in_fields _ _ Hin). lia.
      * rewrite E. simpl. exists (TObj us), m1. repeat split; auto; try (intros Hk; discriminate Hk).
  - discriminate Hsx.
  - (* maybe *)
    destruct y; try discriminate Hnv; try (simpl in Hi; discriminate Hi).
    + rewrite unify_nonvar_bot by reflexivity. exists (TMaybe x), m. repeat split; auto.
    + rewrite unify_tmaybe. simpl in *.
      destruct (IHx f y m Hsx Hsy Hwx Hwy Hfy Hg) as [e [m1 [E [Hg1 [He1 _]]]]]; try assumption; try lia.
      rewrite E. simpl. exists (TMaybe e), m1. repeat split; auto; try (intros Hk; discriminate Hk).
Qed.

Lemma unify_list_complete fa s f :
  ground_subst s = true -> subst_wf s = true ->
  forall l1 l2 m,
  forallb simple l1 = true -> forallb simple l2 = true ->
  Forall (fun t => wf_ty t = true) l1 -> Forall (fun t => wf_ty t = true) l2 ->
  forallb slot_free l2 = true ->
  (forall b, In b l2 -> ty_size b <= fa) -> (forall a, In a l1 -> ty_size a <= f) ->
  ground_subst m = true -> extends m s -> inst_list s l1 l2 = true ->
  exists us m', unify_list fa f l1 l2 m = Ok (us, m') /\ ground_subst m' = true /\ extends m' s.
Proof.
  intros Hgs Hws.
  induction l1 as [|a r1 IH]; intros [|b r2] m Hs1 Hs2 Hw1 Hw2 Hf2 Hfa Hf Hg He Hi;
    simpl in Hi; try discriminate Hi; simpl.
  - eauto.
  - simpl in Hs1, Hs2, Hf2.
    apply andb_true_iff in Hs1. apply andb_true_iff in Hs2. apply andb_true_iff in Hf2.
    apply andb_true_iff in Hi.
    destruct Hs1 as [Hsa Hsr1]. destruct Hs2 as [Hsb Hsr2]. destruct Hf2 as [Hfb Hfr2].
    destruct Hi as [Hi1 Hi2].
    inversion Hw1 as [|? ? Hwa Hwr1]; subst. inversion Hw2 as [|? ? Hwb Hwr2]; subst.
    destruct (unify_complete_simple fa s Hgs Hws a f b m Hsa Hsb Hwa Hwb Hfb Hg) as [u [m1 [E1 [Hg1 [He1 _]]]]];
      try assumption.
    { apply Hfa. left; reflexivity. }
    { apply Hf. left; reflexivity. }
    rewrite E1. simpl.
    destruct (IH r2 m1 Hsr1 Hsr2 Hwr1 Hwr2 Hfr2) as [us [m2 [E2 [Hg2 He2]]]]; try assumption.
    { intros b' Hin. apply Hfa. right; exact Hin. }
    { intros a' Hin. apply Hf. right; exact Hin. }
    fold (unify_list fa f). rewrite E2. simpl. eauto.
Qed.

(* The statement of C17_match_complete is false when the witness substitution binds a variable to an ill-formed
   object type: [ty_eqb] is then not symmetric/Euclidean, so one witness can be "equal" to two field-wise
   different types, which the matcher (comparing the two types with each other) rejects. *)
Lemma match_complete_counterexample :
  let g1 := TObj [("x"%string, TNum); ("z"%string, TStr)] in
  let g2 := TObj [("x"%string, TNum); ("w"%string, TStr)] in
  let bad := TObj [("x"%string, TNum); ("x"%string, TNum)] in
  let x := TTuple [TVar "a"%string; TVar "a"%string] in
  let y := TTuple [g1; g2] in
  let s := [("a"%string, bad)] in
  pat_ok x = true /\ pat_ok y = true /\ wf_ty x = true /\ wf_ty y = true /\ slot_free y = true /\
  ground_subst [] = true /\ ty_size x + ty_size y < 100 /\
  (ground_subst s = true /\ extends [] s /\ inst s x y = true) /\
  unify 100 100 x y [] = Fail.
Proof.
  cbv zeta. repeat split; try reflexivity.
  - vm_compute. repeat constructor.
  - intros n t Ha. discriminate Ha.
Qed.

(* C17_match_complete when the witness substitution is well formed ([subst_wf s = true]). *)
Lemma match_complete_partial : forall fa f x y m,
  pat_ok x = true -> pat_ok y = true -> wf_ty x = true -> wf_ty y = true ->
  slot_free y = true -> ground_subst m = true ->
  ty_size x + ty_size y < fa -> ty_size x + ty_size y < f ->
  (exists s, ground_subst s = true /\ subst_wf s = true /\ extends m s /\ inst s x y = true) ->
  exists r m', unify fa f x y m = Ok (r, m').
Proof.
  intros fa f x y m Hpx Hpy Hwx Hwy Hfy Hg Hfa Hf [s [Hgs [Hws [He Hi]]]].
  destruct f as [|f]; [lia|].
  pose proof (slot_free_not_var _ Hfy) as Hnv.
  destruct (pat_ok_cases _ Hpx) as [[l1 [Ex Hs1]]|Hsx];
    destruct (pat_ok_cases _ Hpy) as [[l2 [Ey Hs2]]|Hsy]; subst.
  - (* tuple / tuple *)
    rewrite unify_tuple. rewrite inst_tuple in Hi.
    assert (List.length l1 = List.length l2) as Hlen.
    { clear -Hi. revert l2 Hi. induction l1 as [|a r1 IH]; intros [|b r2] Hi; simpl in Hi;
        try discriminate Hi; [reflexivity|].
      apply andb_true_iff in Hi. destruct Hi as [_ Hi]. simpl. f_equal. auto. }
    apply Nat.eqb_eq in Hlen. rewrite Hlen. simpl.
    apply wf_tuple in Hwx. apply wf_tuple in Hwy. simpl in Hfy, Hfa, Hf.
    destruct (unify_list_complete fa s f Hgs Hws l1 l2 m Hs1 Hs2 Hwx Hwy Hfy) as [us [m1 [E _]]];
      try assumption.
    { intros b Hin. pose proof (size_in_list _ _ Hin). lia. }
    { intros a Hin. pose proof (size_in_list _ _ Hin). lia. }
    rewrite E. simpl. eauto.
  - (* tuple / simple *)
    destruct y; try discriminate Hnv; try discriminate Hsy; try (simpl in Hi; discriminate Hi).
    rewrite unify_nonvar_bot by reflexivity. eauto.
  - (* simple / tuple *)
    destruct x; try discriminate Hsx; try (simpl in Hi; discriminate Hi).
    + rewrite unify_top by reflexivity. eauto.
    + exfalso. rewrite inst_var in Hi. destruct (assoc n s) as [t|] eqn:Ea; [|discriminate Hi].
      destruct (ground_assoc _ _ _ Hgs Ea) as [_ Hst].
      destruct t; try discriminate Hst; simpl in Hi; discriminate Hi.
  - destruct (unify_complete_simple fa s Hgs Hws x (S f) y m Hsx Hsy Hwx Hwy Hfy Hg)
      as [r [m' [E _]]]; try assumption; try lia.
    eauto.
Qed.

Print Assumptions eq_refl.
Print Assumptions eq_sym.
Print Assumptions eq_trans.
Print Assumptions eq_structural.
Print Assumptions bot_left.
Print Assumptions match_sound_counterexample.
Print Assumptions match_sound_partial.
Print Assumptions match_sound_partial_wf.
Print Assumptions match_complete_counterexample.
Print Assumptions match_complete_partial.
