(* C03 proofs: the bytecode VM against the reference evaluator. *)
From Coq Require Import List String Ascii Bool NArith ZArith Lia Arith.
From Yae Require Import Base.Sexp Model.Ty Gen.Generated Model.Unify Model.Num Model.Lexer Model.Literal Model.Cst
  Model.Check Model.CheckSpec Model.Val Model.Render Model.ValSpec Model.Builtins Model.Eval Model.EvalSpec Model.VM.
Import ListNotations.
Local Open Scope string_scope.
Local Open Scope list_scope.

(* ------------------------------------------------------------------ *)
(* finite checks over the regenerated tables *)

Lemma intrinsics_agree :
  forallb (fun row => let '(name, ps, opn) := row in
             match find (fun o => String.eqb (op_name o) opn) all_ops, classify name ps with
             | Some o, Some b => match intrinsic_sem o with
                                 | Some (b', k) => bfun_beq b b' && Nat.eqb k (List.length ps)
                                 | None => false end
             | _, _ => false
             end) intrinsics_cbv = true /\
  forallb (fun row => match classify (fst row) (snd row) with
                      | Some BIf | Some BAnd | Some BOr | Some BNot => true
                      | _ => false end) intrinsics_cbn = true.
Proof. split; vm_compute; reflexivity. Qed.

Lemma decode_op_byte : forall o, decode_op (op_byte o) = Some o.
Proof. destruct o; vm_compute; reflexivity. Qed.

(* ------------------------------------------------------------------ *)
(* the monad *)

Lemma mbind_ret_l : forall X Y (x : X) (f : X -> M Y), mbind (ret x) f = f x.
Proof. intros. unfold mbind, ret. destruct (f x). reflexivity. Qed.

Lemma mbind_ret_r : forall X (m : M X), mbind m (fun x => ret x) = m.
Proof. intros X [t [x|k|k]]; cbn; rewrite ?app_nil_r; reflexivity. Qed.

Definition tpre {X} (t : list event) (m : M X) : M X := (t ++ fst m, snd m).

Lemma tpre_nil : forall X (m : M X), tpre [] m = m.
Proof. intros X [t o]. reflexivity. Qed.

Lemma tpre_tpre : forall X t1 t2 (m : M X), tpre t1 (tpre t2 m) = tpre (t1 ++ t2) m.
Proof. intros X t1 t2 [t o]. unfold tpre. cbn. rewrite app_assoc. reflexivity. Qed.

Lemma mbind_val : forall X Y t (x : X) (f : X -> M Y), mbind (t, OVal x) f = tpre t (f x).
Proof. intros. unfold mbind, tpre. destruct (f x). reflexivity. Qed.

Lemma mbind_fail : forall X Y t k (f : X -> M Y), mbind (t, OFail k) f = (t, OFail k).
Proof. reflexivity. Qed.

Lemma mbind_fault : forall X Y t k (f : X -> M Y), mbind (t, OFault k) f = (t, OFault k).
Proof. reflexivity. Qed.

(* ------------------------------------------------------------------ *)
(* the dispatch loop, named: [vop] is one instruction, [vloop] the loop of vm_run *)
Section Loop.
  Variable ops : numops.
  Variable orc : oracles.
  Variable rho : venv.
  Variable pool : list const.
  Variable run : list N -> M val.       (* the invocation of a thunk body *)
  Variable code : list N.

  Definition vop (continue : list N -> list sval -> M val) (o : opcode) (r : list N) (stack : list sval) : M val :=
    match o with
    | OP_NOP => continue r stack
    | OP_ADD_NUM => continue r stack
    | OP_RETURN => let^ (v, _) := pop_val stack in ret v
    | OP_CONST =>
        let^ (c, r1) := read_const pool r in
        match c with
        | CVal v => continue r1 (SV v :: stack)
        | CThunk body rt => continue r1 (STh body rt :: stack)
        | _ => fault XTypeConf
        end
    | OP_LOAD =>
        let^ (c, r1) := read_const pool r in
        match c with
        | CName nm => match assoc nm rho with Some v => continue r1 (SV v :: stack) | None => fault XNil end
        | _ => fault XTypeConf
        end
    | OP_JUMP => let^ (t, _) := read16 r in continue (skipn (N.to_nat t) code) stack
    | OP_IF_TRUE =>
        let^ (t, r1) := read16 r in
        let^ (v, s1) := pop_val stack in
        let^ bv := as_bool v in
        if bv then continue r1 s1 else continue (skipn (N.to_nat t) code) s1
    | OP_NEW_LIST =>
        let^ (c, r1) := read_const pool r in let^ (sz, r2) := read16 r1 in
        match c with
        | CType (TList e) =>
            let^ (xs, s1) := pop_n (N.to_nat sz) stack [] in let^ vs := vals_of xs in
            continue r2 (SV (VList (TList e) vs) :: s1)
        | _ => fault XTypeConf
        end
    | OP_NEW_MAP =>
        let^ (c, r1) := read_const pool r in let^ (sz, r2) := read16 r1 in
        match c with
        | CType (TMap kt vt) =>
            let^ (xs, s1) := pop_n (2 * N.to_nat sz) stack [] in let^ vs := vals_of xs in
            let^ entries :=
              (fix go (vs : list val) (acc : list (list N * val)) : M (list (list N * val)) :=
                 match vs with
                 | k :: v :: rr => let^ kk := key_of ops k in go rr (kput kk v acc)
                 | _ => ret acc
                 end) vs [] in
            continue r2 (SV (VMap (TMap kt vt) entries) :: s1)
        | _ => fault XTypeConf
        end
    | OP_NEW_OBJ =>
        let^ (c, r1) := read_const pool r in
        match c with
        | CType (TObj fs) =>
            let^ (xs, s1) := pop_n (len fs) stack [] in let^ vs := vals_of xs in
            continue r1 (SV (VObj (TObj fs) vs) :: s1)
        | _ => fault XTypeConf
        end
    | OP_LIST_LOAD =>
        let^ (iv, s1) := pop_val stack in let^ nb := as_num iv in
        let^ (lv, s2) := pop_val s1 in let^ vs := as_list lv in
        let idx := to_i64 ops nb in
        if Z.ltb idx 0 || Z.leb (Z.of_nat (len vs)) idx then fail FIndex
        else match nth_error vs (Z.to_nat idx) with Some e => continue r (SV e :: s2) | None => fail FIndex end
    | OP_MAP_LOAD =>
        let^ (kv, s1) := pop_val stack in
        let^ (mv, s2) := pop_val s1 in let^ kvs := as_map mv in
        let^ kk := key_of ops kv in
        match kget kk kvs with Some e => continue r (SV e :: s2) | None => fail FKey end
    | OP_OBJ_LOAD =>
        let^ (idx, r1) := read16 r in let^ (c, r2) := read_const pool r1 in
        let^ (ov, s1) := pop_val stack in
        match c, ov with
        | CName nm, VObj t vs =>
            match obj_load t vs (N.to_nat idx) nm with Some e => continue r2 (SV e :: s1) | None => fault XNil end
        | _, _ => fault XTypeConf
        end
    | OP_CALL_BY_VALUE =>
        let^ (c, r1) := read_const pool r in let^ (argc, r2) := read8 r1 in
        match c with
        | CFun sg =>
            let^ (xs, s1) := pop_n (N.to_nat argc) stack [] in let^ vs := vals_of xs in
            let^ res := apply_strict ops orc sg vs in
            continue r2 (SV res :: s1)
        | _ => fault XTypeConf
        end
    | OP_CALL_BY_NEED =>
        let^ (c, r1) := read_const pool r in let^ (argc, r2) := read8 r1 in
        match c with
        | CFun sg =>
            let^ (xs, s1) := pop_n (N.to_nat argc) stack [] in
            let^ ths := mmapM (fun x => match x with
                                        | STh body _ => ret (fun (_ : unit) => run body)
                                        | SV _ => fault XTypeConf
                                        end) xs in
            let^ res := (if sig_is_builtin sg then apply_lazy sg else host_lazy (s_name sg)) ths in
            continue r2 (SV res :: s1)
        | _ => fault XTypeConf
        end
    | OP_DYNAMIC_CALL =>
        let^ (argc, r1) := read8 r in
        let^ (xs, s1) := pop_n (N.to_nat argc) stack [] in let^ vs := vals_of xs in
        let^ (fv, s2) := pop_val s1 in
        match fv with
        | VFun (TFun _ ps rt) name lz =>
            if lz then fault XNil
            else let^ res := apply_strict ops orc (mkSig name ps rt false) vs in continue r1 (SV res :: s2)
        | _ => fault XTypeConf
        end
    | _ =>
        match intrinsic_sem o with
        | Some (bf, k) =>
            let^ (xs, s1) := pop_n k stack [] in let^ vs := vals_of xs in
            let^ res := bsem ops orc bf vs in
            continue r (SV res :: s1)
        | None => fault XOpcode
        end
    end.

  Fixpoint vloop (g : nat) (rest : list N) (stack : list sval) (n : option nat) {struct g} : M val :=
    match g with
    | O => fault XFuel
    | S g' =>
      match n with
      | Some O => fault XLimit
      | _ =>
        let n' := option_map pred n in
        match rest with
        | [] => fault XOther
        | b :: r =>
          match decode_op b with
          | None => fault XOpcode
          | Some o => vop (fun r s => vloop g' r s n') o r stack
          end
        end
      end
    end.
End Loop.

Lemma vm_run_S : forall ops orc rho pool limit f code,
  vm_run ops orc rho pool limit (S f) code =
  vloop ops orc rho pool (vm_run ops orc rho pool limit f) code (4 * S (len code)) code [] limit.
Proof. intros. reflexivity. Qed.

(* ------------------------------------------------------------------ *)
(* only_refusal *)
Lemma only_refusal : forall (ops : numops) (orc : oracles) fe a,
  compile_main ops orc fe a = CErr \/ compile_main ops orc fe a = CFuel \/
  exists code pool, compile_main ops orc fe a = COk (code, pool).
Proof.
  intros. destruct (compile_main ops orc fe a) as [[c p]| |].
  - right. right. exists c, p. reflexivity.
  - left. reflexivity.
  - right. left. reflexivity.
Qed.

(* ------------------------------------------------------------------ *)
(* relating two computations up to a class [Q] of outcomes of interest (values are always in the class) *)
Section MRel.
  Variable Q : outcome val -> Prop.
  Hypothesis Qval : forall v, Q (OVal v).

  Definition m_rel (m1 m2 : M val) : Prop := forall t o, m1 = (t, o) -> Q o -> m2 = (t, o).

  (* same trace, same failure, related results *)
  Definition m_sim {X Y} (R : X -> Y -> Prop) (m1 : M X) (m2 : M Y) : Prop :=
    fst m1 = fst m2 /\
    match snd m1, snd m2 with
    | OVal x, OVal y => R x y
    | OFail k1, OFail k2 => k1 = k2
    | OFault k1, OFault k2 => k1 = k2
    | _, _ => False
    end.

  Lemma m_rel_refl : forall m, m_rel m m.
  Proof. intros m t o H _. exact H. Qed.

  Lemma m_sim_refl : forall X (m : M X), m_sim eq m m.
  Proof. intros X [t [x|k|k]]; split; reflexivity. Qed.

  Lemma m_rel_bind_sim : forall X Y (R : X -> Y -> Prop) (m1 : M X) (m2 : M Y) k1 k2,
    m_sim R m1 m2 -> (forall x y, R x y -> m_rel (k1 x) (k2 y)) -> m_rel (mbind m1 k1) (mbind m2 k2).
  Proof.
    intros X Y R [t1 o1] [t2 o2] k1 k2 [Ht Ho] Hk t o H HQ. cbn in Ht, Ho. subst t2.
    destruct o1 as [x|k|k], o2 as [y|k'|k']; try contradiction.
    - rewrite mbind_val in *. destruct (k1 x) as [t' o'] eqn:E. unfold tpre in H. cbn in H.
      inversion H; subst. rewrite (Hk x y Ho _ _ E HQ). reflexivity.
    - subst k'. exact H.
    - subst k'. exact H.
  Qed.

  Lemma m_rel_bind_same : forall X (m : M X) k1 k2,
    (forall x, m_rel (k1 x) (k2 x)) -> m_rel (mbind m k1) (mbind m k2).
  Proof.
    intros X m k1 k2 Hk. apply (m_rel_bind_sim X X eq); [apply m_sim_refl|]. intros x y E. subst y. apply Hk.
  Qed.

  Lemma m_rel_bind : forall (m1 m2 : M val) k1 k2,
    m_rel m1 m2 -> (forall x, m_rel (k1 x) (k2 x)) -> m_rel (mbind m1 k1) (mbind m2 k2).
  Proof.
    intros [t1 o1] m2 k1 k2 Hm Hk t o H HQ.
    destruct o1 as [x|k|k].
    - rewrite (Hm _ _ eq_refl (Qval x)). rewrite mbind_val in *.
      destruct (k1 x) as [t' o'] eqn:E. unfold tpre in H. cbn in H. inversion H; subst.
      rewrite (Hk x _ _ E HQ). reflexivity.
    - cbn in H. inversion H; subst. rewrite (Hm _ _ eq_refl HQ). reflexivity.
    - cbn in H. inversion H; subst. rewrite (Hm _ _ eq_refl HQ). reflexivity.
  Qed.

  Definition th_rel (th1 th2 : unit -> M val) : Prop := m_rel (th1 tt) (th2 tt).

  Lemma host_lazy_rel : forall name ths1 ths2,
    Forall2 th_rel ths1 ths2 -> m_rel (host_lazy name ths1) (host_lazy name ths2).
  Proof.
    intros name ths1 ths2 HF. unfold host_lazy.
    destruct (name =? "lazyif").
    { apply m_rel_bind_same. intros _.
      destruct HF as [|c c' l1 l2 Hc HF]; [apply m_rel_refl|].
      destruct HF as [|a a' l1 l2 Ha HF]; [apply m_rel_refl|].
      destruct HF as [|b b' l1 l2 Hb HF]; [apply m_rel_refl|].
      destruct HF as [|d d' l1 l2 Hd HF]; [|apply m_rel_refl].
      apply m_rel_bind; [exact Hc|]. intros cv. apply m_rel_bind_same. intros [|]; assumption. }
    destruct (name =? "both").
    { apply m_rel_bind_same. intros _.
      destruct HF as [|a a' l1 l2 Ha HF]; [apply m_rel_refl|].
      destruct HF as [|b b' l1 l2 Hb HF]; [apply m_rel_refl|].
      destruct HF as [|d d' l1 l2 Hd HF]; [|apply m_rel_refl].
      apply m_rel_bind; [exact Ha|]. intros av. apply m_rel_bind_same. intros [|]; [|apply m_rel_refl].
      apply m_rel_bind; [exact Hb|]. intros bv. apply m_rel_refl. }
    apply m_rel_refl.
  Qed.

  Lemma apply_lazy_rel : forall sg ths1 ths2,
    Forall2 th_rel ths1 ths2 -> m_rel (apply_lazy sg ths1) (apply_lazy sg ths2).
  Proof.
    intros sg ths1 ths2 HF. unfold apply_lazy.
    destruct (classify (s_name sg) (s_params sg)) as [b|]; [|apply host_lazy_rel; exact HF].
    destruct b; try (apply host_lazy_rel; exact HF).
    - destruct HF as [|c c' l1 l2 Hc HF]; [apply m_rel_refl|].
      destruct HF as [|a a' l1 l2 Ha HF]; [apply m_rel_refl|].
      destruct HF as [|b b' l1 l2 Hb HF]; [apply m_rel_refl|].
      destruct HF as [|d d' l1 l2 Hd HF]; [|apply m_rel_refl].
      apply m_rel_bind; [exact Hc|]. intros cv. apply m_rel_bind_same. intros [|]; assumption.
    - destruct HF as [|a a' l1 l2 Ha HF]; [apply m_rel_refl|].
      destruct HF as [|b b' l1 l2 Hb HF]; [apply m_rel_refl|].
      destruct HF as [|d d' l1 l2 Hd HF]; [|apply m_rel_refl].
      apply m_rel_bind; [exact Ha|]. intros av. apply m_rel_bind_same. intros [|]; [|apply m_rel_refl].
      apply m_rel_bind; [exact Hb|]. intros bv. apply m_rel_refl.
    - destruct HF as [|a a' l1 l2 Ha HF]; [apply m_rel_refl|].
      destruct HF as [|b b' l1 l2 Hb HF]; [apply m_rel_refl|].
      destruct HF as [|d d' l1 l2 Hd HF]; [|apply m_rel_refl].
      apply m_rel_bind; [exact Ha|]. intros av. apply m_rel_bind_same. intros [|]; [apply m_rel_refl|].
      apply m_rel_bind; [exact Hb|]. intros bv. apply m_rel_refl.
  Qed.

  Lemma lazy_rel : forall sg ths1 ths2,
    Forall2 th_rel ths1 ths2 ->
    m_rel ((if sig_is_builtin sg then apply_lazy sg else host_lazy (s_name sg)) ths1)
          ((if sig_is_builtin sg then apply_lazy sg else host_lazy (s_name sg)) ths2).
  Proof. intros. destruct (sig_is_builtin sg); [apply apply_lazy_rel|apply host_lazy_rel]; assumption. Qed.
End MRel.

(* ------------------------------------------------------------------ *)
(* callthread_agrees *)
Section CallThread.
  Variable ops : numops.
  Variable orc : oracles.
  Variable rho : venv.
  Variable pool : list const.

  Definition not_limit (o : outcome val) : Prop := o <> OFault XLimit.
  Lemma not_limit_val : forall v, not_limit (OVal v).
  Proof. intros v H. discriminate. Qed.

  Notation mrl := (m_rel not_limit).

  Definition thunk_of (run : list N -> M val) (x : sval) : M (unit -> M val) :=
    match x with STh body _ => ret (fun (_ : unit) => run body) | SV _ => fault XTypeConf end.

  Lemma thunks_sim : forall (Q : outcome val -> Prop) run1 run2 xs,
    (forall body, m_rel Q (run1 body) (run2 body)) ->
    m_sim (Forall2 (th_rel Q)) (mmapM (thunk_of run1) xs) (mmapM (thunk_of run2) xs).
  Proof.
    intros Q run1 run2 xs Hr. induction xs as [|x xs IH].
    - split; cbn; [reflexivity|constructor].
    - cbn [mmapM]. fold (mmapM (thunk_of run1)). fold (mmapM (thunk_of run2)).
      destruct x as [v|body rt]; cbn [thunk_of].
      + split; reflexivity.
      + rewrite !mbind_ret_l.
        destruct IH as [Ht Ho].
        destruct (mmapM (thunk_of run1) xs) as [t1 o1], (mmapM (thunk_of run2) xs) as [t2 o2].
        cbn in Ht, Ho. subst t2.
        destruct o1 as [l1|k1|k1], o2 as [l2|k2|k2]; try contradiction; cbn.
        * split; [reflexivity|]. constructor; [|exact Ho]. unfold th_rel. apply Hr.
        * split; [reflexivity|exact Ho].
        * split; [reflexivity|exact Ho].
  Qed.

  Lemma vop_rel : forall (Q : outcome val -> Prop) (Qval : forall v, Q (OVal v)) run1 run2 code c1 c2 o r s,
    (forall body, m_rel Q (run1 body) (run2 body)) ->
    (forall r s, m_rel Q (c1 r s) (c2 r s)) ->
    m_rel Q (vop ops orc rho pool run1 code c1 o r s) (vop ops orc rho pool run2 code c2 o r s).
  Proof.
    intros Q Qval run1 run2 code c1 c2 o r s Hr Hc.
    assert (Hth : forall xs, m_sim (Forall2 (th_rel Q)) (mmapM (thunk_of run1) xs) (mmapM (thunk_of run2) xs))
      by (intros; apply thunks_sim; exact Hr).
    destruct o; cbn [vop intrinsic_sem];
    repeat first
      [ apply Hc
      | apply m_rel_refl
      | apply (m_rel_bind_same Q); intros ?
      | match goal with
        | |- m_rel _ (mbind (mmapM _ ?xs) _) _ =>
            apply (m_rel_bind_sim Q _ _ _ _ _ _ _ (Hth xs)); intros ? ? ?
        | |- m_rel _ (mbind ((if ?b then _ else _) _) _) _ =>
            apply (m_rel_bind Q Qval); [apply lazy_rel; assumption|intros ?]
        | |- m_rel _ (let '(_, _) := ?p in _) _ => destruct p
        | |- m_rel _ (match ?x with _ => _ end) _ => destruct x
        | |- m_rel _ (if ?x then _ else _) _ => destruct x
        end ].
  Qed.

  Lemma vloop_rel : forall run1 run2 code,
    (forall body, mrl (run1 body) (run2 body)) ->
    forall g rest s k,
      mrl (vloop ops orc rho pool run1 code g rest s (Some k)) (vloop ops orc rho pool run2 code g rest s None).
  Proof.
    intros run1 run2 code Hr. induction g as [|g IH]; intros rest s k.
    - apply m_rel_refl.
    - cbn [vloop]. destruct k as [|k].
      + intros t o H HQ. inversion H; subst. exfalso. apply HQ. reflexivity.
      + cbn [option_map pred]. destruct rest as [|b r]; [apply m_rel_refl|].
        destruct (decode_op b) as [o|]; [|apply m_rel_refl].
        apply vop_rel; [exact not_limit_val|exact Hr|]. intros r' s'. apply IH.
  Qed.

  Lemma vm_run_rel : forall lim f code,
    mrl (vm_run ops orc rho pool (Some lim) f code) (vm_run ops orc rho pool None f code).
  Proof.
    intros lim. induction f as [|f IH]; intros code.
    - apply m_rel_refl.
    - rewrite !vm_run_S. apply vloop_rel. exact IH.
  Qed.
End CallThread.

Lemma callthread_agrees : forall (ops : numops) (orc : oracles) rho pool lim g code t o,
  vm_run ops orc rho pool (Some lim) g code = (t, o) -> o <> OFault XLimit ->
  vm_run ops orc rho pool None g code = (t, o).
Proof. intros ops orc rho pool lim g code t o H Hn. exact (vm_run_rel ops orc rho pool lim g code t o H Hn). Qed.

(* ------------------------------------------------------------------ *)
(* the compiler: named pieces and unfolding equations *)
Section Comp.
  Variable ops : numops.
  Variable orc : oracles.
  Variable fe : fenv.
  Notation compile := (compile ops orc fe).

  Fixpoint comp_list (l : list aexpr) (st : cstate) : cres cstate :=
    match l with [] => COk st | x :: r => let+ st1 := compile x st in comp_list r st1 end.
  Fixpoint comp_kvs (l : list (aexpr * aexpr)) (st : cstate) : cres cstate :=
    match l with
    | [] => COk st
    | (k, v) :: r => let+ s1 := compile k st in let+ s2 := compile v s1 in comp_kvs r s2
    end.
  Fixpoint comp_fields (l : list (string * aexpr)) (st : cstate) : cres cstate :=
    match l with [] => COk st | (_, v) :: r => let+ s1 := compile v st in comp_fields r s1 end.
  Definition comp_args (sg : fsig) : list aexpr -> nat -> cstate -> cres cstate :=
    fix go (l : list aexpr) (i : nat) (st : cstate) : cres cstate :=
    match l with
    | [] => COk st
    | x :: r =>
        if s_lazy sg then
          let+ sub := compile x (cs_empty (cs_rpool st) (cs_plen st)) in
          let+ st'' := emit_const (CThunk (rev (cs_rcode (emit_op OP_RETURN sub))) (thunk_ret sg i))
                         (emit_op OP_CONST (mkCS (cs_rcode st) (cs_clen st) (cs_rpool sub) (cs_plen sub))) in
          go r (S i) st''
        else let+ st' := compile x st in go r (S i) st'
    end.
  Definition comp_branch (br : aexpr + bool) (st : cstate) : cres cstate :=
    match br with
    | inl e => compile e st
    | inr b => emit_const (CVal (VBool b)) (emit_op OP_CONST st)
    end.
  Definition comp_cond (c : aexpr) (t e : aexpr + bool) (st : cstate) : cres cstate :=
    let+ st1 := compile c st in
    let st2 := emit_op OP_IF_TRUE st1 in
    let off_false := cs_clen st2 in
    let+ st3 := emit16 0 st2 in
    let+ st4 := comp_branch t st3 in
    let st5 := emit_op OP_JUMP st4 in
    let off_next := cs_clen st5 in
    let+ st6 := emit16 0 st5 in
    let branch_false := cs_clen st6 in
    let+ st7 := comp_branch e st6 in
    let next := cs_clen st7 in
    let+ st8 := patch16 off_false branch_false st7 in
    patch16 off_next next st8.

  Lemma compile_list_eq : forall t es st,
    compile (AList t es) st =
    (let+ st1 := comp_list es st in
     let+ st2 := emit_const (CType t) (emit_op OP_NEW_LIST st1) in
     emit16 (N.of_nat (len es)) st2).
  Proof. reflexivity. Qed.

  Lemma compile_map_eq : forall t kvs st,
    compile (AMap t kvs) st =
    (let+ st1 := comp_kvs kvs st in
     let+ st2 := emit_const (CType t) (emit_op OP_NEW_MAP st1) in
     emit16 (N.of_nat (len kvs)) st2).
  Proof. reflexivity. Qed.

  Lemma compile_obj_eq : forall t fs st,
    compile (AObj t fs) st =
    (let+ st1 := comp_fields fs st in emit_const (CType t) (emit_op OP_NEW_OBJ st1)).
  Proof. reflexivity. Qed.

  Lemma compile_call_eq : forall col key idx fty callee args st,
    compile (ACall col key idx fty callee args) st =
    if String.eqb key "" then
      (let+ st1 := compile callee st in
       let+ st2 := comp_list args st1 in
       emit8 (N.of_nat (len args)) (emit_op OP_DYNAMIC_CALL st2))
    else
      match lookup_fn fe key idx with
      | None => CErr
      | Some sg =>
          match intrinsic_cbn sg, args with
          | Some BIf, [c; t; e] => comp_cond c (inl t) (inl e) st
          | Some BAnd, [x; y] => comp_cond x (inl y) (inr false) st
          | Some BOr, [x; y] => comp_cond x (inr true) (inl y) st
          | Some BNot, [x] => let+ st1 := compile x st in COk (emit_op OP_LOGICAL_NOT st1)
          | Some _, _ => CErr
          | None, _ =>
              let+ st1 := comp_args sg args O st in
              match intrinsic_cbv sg with
              | Some o => COk (emit_op o st1)
              | None =>
                  let o := if s_lazy sg then OP_CALL_BY_NEED else OP_CALL_BY_VALUE in
                  let+ st2 := emit_const (CFun sg) (emit_op o st1) in
                  emit8 (N.of_nat (len args)) st2
              end
          end
      end.
  Proof. reflexivity. Qed.

  Lemma compile_sub_eq : forall col vty v i st,
    compile (ASub col vty v i) st =
    (let+ st1 := compile v st in
     let+ st2 := compile i st1 in
     if ty_is_list vty then COk (emit_op OP_LIST_LOAD st2)
     else if ty_is_map vty then COk (emit_op OP_MAP_LOAD st2)
     else CErr).
  Proof. reflexivity. Qed.

  Lemma compile_member_eq : forall col oty idx o name st,
    compile (AMember col oty idx o name) st =
    (let+ st1 := compile o st in
     let+ st2 := emit16 (N.of_nat idx) (emit_op OP_OBJ_LOAD st1) in
     emit_const (CName name) st2).
  Proof. reflexivity. Qed.
End Comp.

(* ------------------------------------------------------------------ *)
(* induction principle for the nested inductive [aexpr] *)
Section AexprInd.
  Variable P : aexpr -> Prop.
  Hypothesis Hstr : forall v, P (AStr v).
  Hypothesis Hnum : forall t n, P (ANum t n).
  Hypothesis Htime : forall t, P (ATime t).
  Hypothesis Hbool : forall b, P (ABool b).
  Hypothesis Hlist : forall t es, Forall P es -> P (AList t es).
  Hypothesis Hmap : forall t kvs, Forall (fun kv => P (fst kv) /\ P (snd kv)) kvs -> P (AMap t kvs).
  Hypothesis Hobj : forall t fs, Forall (fun f => P (snd f)) fs -> P (AObj t fs).
  Hypothesis Hident : forall c n, P (AIdent c n).
  Hypothesis Hcall : forall c k i ft f args, P f -> Forall P args -> P (ACall c k i ft f args).
  Hypothesis Hsub : forall c vt v i, P v -> P i -> P (ASub c vt v i).
  Hypothesis Hmember : forall c ot idx o n, P o -> P (AMember c ot idx o n).

  Fixpoint aexpr_ind' (a : aexpr) : P a :=
    match a with
    | AStr v => Hstr v | ANum t n => Hnum t n | ATime t => Htime t | ABool b => Hbool b
    | AList t es => Hlist t es ((fix go (l : list aexpr) : Forall P l :=
                                  match l with [] => Forall_nil _ | a :: r => Forall_cons _ (aexpr_ind' a) (go r) end) es)
    | AMap t kvs => Hmap t kvs ((fix go (l : list (aexpr * aexpr)) : Forall (fun kv => P (fst kv) /\ P (snd kv)) l :=
                                  match l with
                                  | [] => Forall_nil _
                                  | a :: r => Forall_cons _ (conj (aexpr_ind' (fst a)) (aexpr_ind' (snd a))) (go r)
                                  end) kvs)
    | AObj t fs => Hobj t fs ((fix go (l : list (string * aexpr)) : Forall (fun f => P (snd f)) l :=
                                match l with [] => Forall_nil _ | a :: r => Forall_cons _ (aexpr_ind' (snd a)) (go r) end) fs)
    | AIdent c n => Hident c n
    | ACall c k i ft f args => Hcall c k i ft f args (aexpr_ind' f)
                            ((fix go (l : list aexpr) : Forall P l :=
                                match l with [] => Forall_nil _ | a :: r => Forall_cons _ (aexpr_ind' a) (go r) end) args)
    | ASub c vt v i => Hsub c vt v i (aexpr_ind' v) (aexpr_ind' i)
    | AMember c ot idx o n => Hmember c ot idx o n (aexpr_ind' o)
    end.
End AexprInd.

(* ------------------------------------------------------------------ *)
(* compiler states: what a compilation step appends *)
Definition code_of (st : cstate) : list N := rev (cs_rcode st).
Definition pool_of (st : cstate) : list const := rev (cs_rpool st).
Definition wf (st : cstate) : Prop :=
  cs_clen st = N.of_nat (List.length (cs_rcode st)) /\ cs_plen st = N.of_nat (List.length (cs_rpool st)).

Definition ext (st st' : cstate) (frag : list N) (pf : list const) : Prop :=
  cs_rcode st' = rev frag ++ cs_rcode st /\ cs_clen st' = (cs_clen st + N.of_nat (List.length frag))%N /\
  cs_rpool st' = rev pf ++ cs_rpool st /\ cs_plen st' = (cs_plen st + N.of_nat (List.length pf))%N.

Lemma ext_refl : forall st, ext st st [] [].
Proof. intros st. unfold ext. cbn. rewrite !N.add_0_r. auto. Qed.

Lemma ext_trans : forall a b c f1 p1 f2 p2, ext a b f1 p1 -> ext b c f2 p2 -> ext a c (f1 ++ f2) (p1 ++ p2).
Proof.
  intros a b c f1 p1 f2 p2 [A1 [A2 [A3 A4]]] [B1 [B2 [B3 B4]]]. unfold ext.
  rewrite B1, B2, B3, B4, A1, A2, A3, A4, !rev_app_distr, !app_length, !app_assoc. repeat split; lia.
Qed.

Lemma ext_wf : forall a b f p, wf a -> ext a b f p -> wf b.
Proof.
  intros a b f p [W1 W2] [A1 [A2 [A3 A4]]]. unfold wf.
  rewrite A1, A2, A3, A4, W1, W2, !app_length, !rev_length. split; lia.
Qed.

Lemma ext_inj : forall a b f p f' p', ext a b f p -> ext a b f' p' -> f = f' /\ p = p'.
Proof.
  intros a b f p f' p' [A1 [_ [A3 _]]] [B1 [_ [B3 _]]].
  rewrite A1 in B1. apply app_inv_tail in B1. rewrite A3 in B3. apply app_inv_tail in B3.
  split; [rewrite <- (rev_involutive f), B1|rewrite <- (rev_involutive p), B3]; apply rev_involutive.
Qed.

Lemma ext_code : forall a b f p, ext a b f p -> code_of b = code_of a ++ f.
Proof. intros a b f p [A1 _]. unfold code_of. rewrite A1, rev_app_distr, rev_involutive. reflexivity. Qed.

Lemma ext_pool : forall a b f p, ext a b f p -> pool_of b = pool_of a ++ p.
Proof. intros a b f p [_ [_ [A3 _]]]. unfold pool_of. rewrite A3, rev_app_distr, rev_involutive. reflexivity. Qed.

Lemma ext_emit_byte : forall b st, ext st (emit_byte b st) [b] [].
Proof. intros. unfold ext, emit_byte. cbn. rewrite N.add_0_r. auto. Qed.

Lemma ext_emit_op : forall o st, ext st (emit_op o st) [op_byte o] [].
Proof. intros. apply ext_emit_byte. Qed.

Definition b16 (n : N) : list N := [(n / 256)%N; (n mod 256)%N].

Lemma emit16_ext : forall n st st', emit16 n st = COk st' -> ext st st' (b16 n) [] /\ (n <= 65535)%N.
Proof.
  intros n st st' H. unfold emit16 in H. destruct (N.leb n 65535) eqn:E; [|discriminate].
  inversion H; subst. split; [|apply N.leb_le; exact E].
  apply (ext_trans _ _ _ [_] [] [_] [] (ext_emit_byte _ _) (ext_emit_byte _ _)).
Qed.

Lemma emit8_ext : forall n st st', emit8 n st = COk st' -> ext st st' [n] [] /\ (n <= 255)%N.
Proof.
  intros n st st' H. unfold emit8 in H. destruct (N.leb n 255) eqn:E; [|discriminate].
  inversion H; subst. split; [apply ext_emit_byte|apply N.leb_le; exact E].
Qed.

Lemma emit_const_ext : forall c st st', emit_const c st = COk st' ->
  ext st st' (b16 (cs_plen st)) [c] /\ (cs_plen st <= 65535)%N.
Proof.
  intros c st st' H. unfold emit_const in H. apply emit16_ext in H. destruct H as [[A1 [A2 [A3 A4]]] Hle].
  cbn in *. split; [|exact Hle]. unfold ext. cbn. repeat split; try assumption. rewrite A4. lia.
Qed.

Lemma set_nth_app : forall l1 x l2 y, set_nth (l1 ++ x :: l2) (List.length l1) y = l1 ++ y :: l2.
Proof. induction l1 as [|a l1 IH]; intros; cbn; [reflexivity|rewrite IH; reflexivity]. Qed.

Lemma patch16_ext : forall st st7 st8 f1 a b f2 pf off v,
  wf st -> ext st st7 (f1 ++ a :: b :: f2) pf -> off = (cs_clen st + N.of_nat (List.length f1))%N ->
  patch16 off v st7 = COk st8 ->
  ext st st8 (f1 ++ b16 v ++ f2) pf /\ (v <= 65535)%N.
Proof.
  intros st st7 st8 f1 a b f2 pf off v [W1 W2] Hext Hoff H.
  unfold patch16 in H. destruct (N.leb v 65535) eqn:E; [|discriminate]. inversion H; subst st8; clear H.
  split; [|apply N.leb_le; exact E].
  pose proof (ext_code _ _ _ _ Hext) as Hc. unfold code_of in Hc. rewrite Hc.
  destruct Hext as [A1 [A2 [A3 A4]]].
  assert (Hn : N.to_nat off = List.length (rev (cs_rcode st) ++ f1)).
  { rewrite app_length, rev_length. lia. }
  rewrite Hn. rewrite app_assoc. rewrite set_nth_app.
  replace (List.length (rev (cs_rcode st) ++ f1) + 1)%nat with (List.length ((rev (cs_rcode st) ++ f1) ++ [(v / 256)%N]))
    by (rewrite (app_length _ [_]); reflexivity).
  replace ((rev (cs_rcode st) ++ f1) ++ (v / 256)%N :: b :: f2)
    with (((rev (cs_rcode st) ++ f1) ++ [(v / 256)%N]) ++ b :: f2) by (rewrite <- !app_assoc; reflexivity).
  rewrite set_nth_app.
  unfold ext. cbn [cs_rcode cs_clen cs_rpool cs_plen].
  repeat split; try assumption.
  - rewrite <- (rev_involutive (cs_rcode st)) at 2. rewrite <- rev_app_distr. f_equal. unfold b16.
    rewrite <- !app_assoc. reflexivity.
  - rewrite A2. unfold b16. rewrite !app_length. cbn [List.length]. rewrite ?app_length. cbn [List.length]. lia.
Qed.

Lemma cbind_ok : forall X Y (r : cres X) (k : X -> cres Y) y, cbind r k = COk y -> exists x, r = COk x /\ k x = COk y.
Proof. intros X Y [x| |] k y H; try discriminate. exists x. split; [reflexivity|exact H]. Qed.

Ltac cinv H :=
  match type of H with
  | cbind _ _ = COk _ => let x := fresh "st" in let H1 := fresh "Hc" in
                         apply cbind_ok in H; destruct H as [x [H1 H]]
  end.

Lemma b16_len : forall n, List.length (b16 n) = 2%nat.
Proof. reflexivity. Qed.

Section CompExt.
  Variable ops : numops.
  Variable orc : oracles.
  Variable fe : fenv.
  Notation compile := (compile ops orc fe).

  Definition ext_prop (a : aexpr) : Prop :=
    forall st st', wf st -> compile a st = COk st' -> exists f p, ext st st' f p.

  Lemma comp_list_ext : forall es, Forall ext_prop es -> forall st st', wf st ->
    comp_list ops orc fe es st = COk st' -> exists f p, ext st st' f p.
  Proof.
    induction 1 as [|x r Hx Hr IH]; intros st st' W H; cbn [comp_list] in H.
    - inversion H; subst. exists [], []. apply ext_refl.
    - cinv H. destruct (Hx _ _ W Hc) as [f1 [p1 E1]].
      destruct (IH _ _ (ext_wf _ _ _ _ W E1) H) as [f2 [p2 E2]].
      exists (f1 ++ f2), (p1 ++ p2). eapply ext_trans; eassumption.
  Qed.

  Lemma comp_kvs_ext : forall kvs, Forall (fun kv => ext_prop (fst kv) /\ ext_prop (snd kv)) kvs ->
    forall st st', wf st -> comp_kvs ops orc fe kvs st = COk st' -> exists f p, ext st st' f p.
  Proof.
    induction 1 as [|[k v] r [Hk Hv] Hr IH]; intros st st' W H; cbn [comp_kvs] in H.
    - inversion H; subst. exists [], []. apply ext_refl.
    - cinv H. cinv H. cbn [fst snd] in *.
      destruct (Hk _ _ W Hc) as [f1 [p1 E1]]. pose proof (ext_wf _ _ _ _ W E1) as W1.
      destruct (Hv _ _ W1 Hc0) as [f2 [p2 E2]]. pose proof (ext_wf _ _ _ _ W1 E2) as W2.
      destruct (IH _ _ W2 H) as [f3 [p3 E3]].
      exists ((f1 ++ f2) ++ f3), ((p1 ++ p2) ++ p3). eapply ext_trans; [eapply ext_trans|]; eassumption.
  Qed.

  Lemma comp_fields_ext : forall fs, Forall (fun f => ext_prop (snd f)) fs ->
    forall st st', wf st -> comp_fields ops orc fe fs st = COk st' -> exists f p, ext st st' f p.
  Proof.
    induction 1 as [|[n v] r Hv Hr IH]; intros st st' W H; cbn [comp_fields] in H.
    - inversion H; subst. exists [], []. apply ext_refl.
    - cinv H. cbn [snd] in *. destruct (Hv _ _ W Hc) as [f1 [p1 E1]].
      destruct (IH _ _ (ext_wf _ _ _ _ W E1) H) as [f2 [p2 E2]].
      exists (f1 ++ f2), (p1 ++ p2). eapply ext_trans; eassumption.
  Qed.

  Lemma wf_empty : forall st, wf st -> wf (cs_empty (cs_rpool st) (cs_plen st)).
  Proof. intros st [W1 W2]. split; [reflexivity|exact W2]. Qed.

  Lemma const_instr_ext : forall o c st st', emit_const c (emit_op o st) = COk st' ->
    ext st st' (op_byte o :: b16 (cs_plen st)) [c] /\ (cs_plen st <= 65535)%N.
  Proof.
    intros o c st st' H. apply emit_const_ext in H. destruct H as [E Hle]. split; [|exact Hle].
    apply (ext_trans _ _ _ [_] [] _ _ (ext_emit_op o st) E).
  Qed.

  (* one deferred argument: its body is compiled apart, on the shared pool *)
  Lemma comp_thunk_inv : forall x st sub st'' rt,
    wf st -> ext_prop x ->
    compile x (cs_empty (cs_rpool st) (cs_plen st)) = COk sub ->
    emit_const (CThunk (rev (cs_rcode (emit_op OP_RETURN sub))) rt)
      (emit_op OP_CONST (mkCS (cs_rcode st) (cs_clen st) (cs_rpool sub) (cs_plen sub))) = COk st'' ->
    exists fx px, ext (cs_empty (cs_rpool st) (cs_plen st)) sub fx px /\
      ext st st'' (op_byte OP_CONST :: b16 (cs_plen sub)) (px ++ [CThunk (fx ++ [op_byte OP_RETURN]) rt]).
  Proof.
    intros x st sub st'' rt W Hx Hs He.
    destruct (Hx _ _ (wf_empty _ W) Hs) as [fx [px Ex]]. exists fx, px. split; [exact Ex|].
    apply const_instr_ext in He. destruct He as [E0 _]. cbn [cs_plen] in E0.
    assert (Hb : rev (cs_rcode (emit_op OP_RETURN sub)) = fx ++ [op_byte OP_RETURN]).
    { change (cs_rcode (emit_op OP_RETURN sub)) with (op_byte OP_RETURN :: cs_rcode sub).
      destruct Ex as [B1 _]. cbn [cs_empty cs_rcode] in B1. rewrite B1, app_nil_r. cbn [rev].
      rewrite rev_involutive. reflexivity. }
    rewrite Hb in E0.
    assert (E1 : ext st (mkCS (cs_rcode st) (cs_clen st) (cs_rpool sub) (cs_plen sub)) [] px).
    { destruct Ex as [_ [_ [B3 B4]]]. cbn [cs_empty cs_rpool cs_plen] in B3, B4.
      unfold ext. cbn [cs_rcode cs_clen cs_rpool cs_plen rev List.length app].
      repeat split; try assumption. lia. }
    exact (ext_trans _ _ _ _ _ _ _ E1 E0).
  Qed.

  Lemma comp_args_ext : forall sg args, Forall ext_prop args -> forall i st st', wf st ->
    comp_args ops orc fe sg args i st = COk st' -> exists f p, ext st st' f p.
  Proof.
    induction 1 as [|x r Hx Hr IH]; intros i st st' W H; cbn [comp_args] in H.
    - inversion H; subst. exists [], []. apply ext_refl.
    - destruct (s_lazy sg).
      + cinv H. cinv H.
        destruct (comp_thunk_inv _ _ _ _ _ W Hx Hc Hc0) as [fx [px [_ E1]]].
        destruct (IH _ _ _ (ext_wf _ _ _ _ W E1) H) as [f2 [p2 E2]].
        eexists _, _. eapply ext_trans; eassumption.
      + cinv H. destruct (Hx _ _ W Hc) as [f1 [p1 E1]].
        destruct (IH _ _ _ (ext_wf _ _ _ _ W E1) H) as [f2 [p2 E2]].
        eexists _, _. eapply ext_trans; eassumption.
  Qed.

  Definition branch_ext (br : aexpr + bool) : Prop := match br with inl e => ext_prop e | inr _ => True end.

  Lemma comp_branch_ext : forall br, branch_ext br -> forall st st', wf st ->
    comp_branch ops orc fe br st = COk st' -> exists f p, ext st st' f p.
  Proof.
    intros [e|b] Hb st st' W H; cbn [comp_branch] in H.
    - exact (Hb _ _ W H).
    - apply const_instr_ext in H. destruct H as [E _]. eexists _, _. exact E.
  Qed.

  Lemma comp_cond_inv : forall c t e st st', wf st -> ext_prop c -> branch_ext t -> branch_ext e ->
    comp_cond ops orc fe c t e st = COk st' ->
    exists st1 st3 st4 st6 st7 fc pc ft pt fe' pe,
      compile c st = COk st1 /\ ext st st1 fc pc /\
      ext st st3 (fc ++ op_byte OP_IF_TRUE :: b16 0) pc /\
      comp_branch ops orc fe t st3 = COk st4 /\ ext st3 st4 ft pt /\
      ext st st6 (fc ++ op_byte OP_IF_TRUE :: b16 0 ++ ft ++ op_byte OP_JUMP :: b16 0) (pc ++ pt) /\
      comp_branch ops orc fe e st6 = COk st7 /\ ext st6 st7 fe' pe /\
      ext st st' (fc ++ op_byte OP_IF_TRUE :: b16 (cs_clen st6) ++ ft ++ op_byte OP_JUMP :: b16 (cs_clen st7) ++ fe')
                 (pc ++ pt ++ pe).
  Proof.
    intros c t e st st' W Hc' Ht He H. unfold comp_cond in H.
    cinv H. rename st0 into st1. destruct (Hc' _ _ W Hc) as [fc [pc E1]].
    cinv H. rename st0 into st3. apply emit16_ext in Hc0. destruct Hc0 as [E3 _].
    assert (E03 : ext st st3 (fc ++ op_byte OP_IF_TRUE :: b16 0) pc).
    { pose proof (ext_trans _ _ _ _ _ _ _ E1 (ext_trans _ _ _ _ _ _ _ (ext_emit_op OP_IF_TRUE st1) E3)) as E.
      rewrite app_nil_r in E. exact E. }
    cinv H. rename st0 into st4.
    destruct (comp_branch_ext _ Ht _ _ (ext_wf _ _ _ _ W E03) Hc0) as [ft [pt E4]].
    cinv H. rename st0 into st6. apply emit16_ext in Hc1. destruct Hc1 as [E6 _].
    assert (E06 : ext st st6 (fc ++ op_byte OP_IF_TRUE :: b16 0 ++ ft ++ op_byte OP_JUMP :: b16 0) (pc ++ pt)).
    { pose proof (ext_trans _ _ _ _ _ _ _ E03 (ext_trans _ _ _ _ _ _ _ E4
                   (ext_trans _ _ _ _ _ _ _ (ext_emit_op OP_JUMP st4) E6))) as E.
      rewrite !app_nil_r in E. rewrite <- !app_assoc in E. exact E. }
    cinv H. rename st0 into st7.
    destruct (comp_branch_ext _ He _ _ (ext_wf _ _ _ _ W E06) Hc1) as [fe' [pe E7]].
    cinv H. rename st0 into st8.
    pose proof (ext_trans _ _ _ _ _ _ _ E06 E7) as E07.
    exists st1, st3, st4, st6, st7, fc, pc, ft, pt, fe', pe.
    repeat (split; [assumption|]).
    (* the two patches *)
    assert (Hoff1 : cs_clen (emit_op OP_IF_TRUE st1) = (cs_clen st + N.of_nat (List.length (fc ++ [op_byte OP_IF_TRUE])))%N).
    { destruct E1 as [_ [A2 _]]. cbn. rewrite A2, app_length. cbn. lia. }
    assert (E07' : ext st st7 ((fc ++ [op_byte OP_IF_TRUE]) ++ (0 / 256)%N :: (0 mod 256)%N ::
                                 (ft ++ op_byte OP_JUMP :: b16 0 ++ fe')) ((pc ++ pt) ++ pe)).
    { replace ((fc ++ [op_byte OP_IF_TRUE]) ++ (0 / 256)%N :: (0 mod 256)%N :: (ft ++ op_byte OP_JUMP :: b16 0 ++ fe'))
        with ((fc ++ op_byte OP_IF_TRUE :: b16 0 ++ ft ++ op_byte OP_JUMP :: b16 0) ++ fe'); [exact E07|].
      unfold b16. rewrite <- !app_assoc. cbn. rewrite <- !app_assoc. reflexivity. }
    destruct (patch16_ext _ _ _ _ _ _ _ _ _ _ W E07' Hoff1 Hc2) as [E8 _].
    assert (Hoff2 : cs_clen (emit_op OP_JUMP st4) =
                    (cs_clen st + N.of_nat (List.length (fc ++ op_byte OP_IF_TRUE :: b16 (cs_clen st6) ++ ft ++ [op_byte OP_JUMP])))%N).
    { destruct E03 as [_ [A2 _]]. destruct E4 as [_ [B2 _]]. cbn. rewrite B2, A2.
      rewrite !app_length. cbn. rewrite !app_length. cbn. lia. }
    assert (E8' : ext st st8 ((fc ++ op_byte OP_IF_TRUE :: b16 (cs_clen st6) ++ ft ++ [op_byte OP_JUMP]) ++
                               (0 / 256)%N :: (0 mod 256)%N :: fe') ((pc ++ pt) ++ pe)).
    { replace ((fc ++ op_byte OP_IF_TRUE :: b16 (cs_clen st6) ++ ft ++ [op_byte OP_JUMP]) ++ (0 / 256)%N :: (0 mod 256)%N :: fe')
        with ((fc ++ [op_byte OP_IF_TRUE]) ++ b16 (cs_clen st6) ++ ft ++ op_byte OP_JUMP :: b16 0 ++ fe'); [exact E8|].
      unfold b16. rewrite <- !app_assoc. cbn. rewrite <- !app_assoc. reflexivity. }
    destruct (patch16_ext _ _ _ _ _ _ _ _ _ _ W E8' Hoff2 H) as [E9 _].
    replace (fc ++ op_byte OP_IF_TRUE :: b16 (cs_clen st6) ++ ft ++ op_byte OP_JUMP :: b16 (cs_clen st7) ++ fe')
      with ((fc ++ op_byte OP_IF_TRUE :: b16 (cs_clen st6) ++ ft ++ [op_byte OP_JUMP]) ++ b16 (cs_clen st7) ++ fe').
    2:{ unfold b16. rewrite <- !app_assoc. cbn. rewrite <- !app_assoc. reflexivity. }
    replace (pc ++ pt ++ pe) with ((pc ++ pt) ++ pe) by (rewrite app_assoc; reflexivity).
    exact E9.
  Qed.
End CompExt.

Section CompExt2.
  Variable ops : numops.
  Variable orc : oracles.
  Variable fe : fenv.
  Notation compile := (compile ops orc fe).

  Ltac ext_chain :=
    eexists _, _;
    repeat first [ eassumption | apply ext_emit_op | (eapply ext_trans; [eassumption|]) | (eapply ext_trans; [apply ext_emit_op|]) ].

  Lemma compile_ext : forall a, ext_prop ops orc fe a.
  Proof.
    induction a as [v|t n|t|b|t es IHes|t kvs IHkvs|t fs IHfs|c n|col k i fty callee args IHf IHargs|c vt v i IHv IHi|c ot idx o n IHo]
      using aexpr_ind'; intros st st' W H.
    - cbn [VM.compile] in H. apply const_instr_ext in H. destruct H as [E _]. eexists _, _. exact E.
    - cbn [VM.compile] in H. apply const_instr_ext in H. destruct H as [E _]. eexists _, _. exact E.
    - cbn [VM.compile] in H. apply const_instr_ext in H. destruct H as [E _]. eexists _, _. exact E.
    - cbn [VM.compile] in H. apply const_instr_ext in H. destruct H as [E _]. eexists _, _. exact E.
    - rewrite compile_list_eq in H. cinv H. cinv H.
      destruct (comp_list_ext ops orc fe _ IHes _ _ W Hc) as [f1 [p1 E1]].
      apply const_instr_ext in Hc0. destruct Hc0 as [E2 _]. apply emit16_ext in H. destruct H as [E3 _].
      ext_chain.
    - rewrite compile_map_eq in H. cinv H. cinv H.
      destruct (comp_kvs_ext ops orc fe _ IHkvs _ _ W Hc) as [f1 [p1 E1]].
      apply const_instr_ext in Hc0. destruct Hc0 as [E2 _]. apply emit16_ext in H. destruct H as [E3 _].
      ext_chain.
    - rewrite compile_obj_eq in H. cinv H.
      destruct (comp_fields_ext ops orc fe _ IHfs _ _ W Hc) as [f1 [p1 E1]].
      apply const_instr_ext in H. destruct H as [E2 _].
      ext_chain.
    - cbn [VM.compile] in H. apply const_instr_ext in H. destruct H as [E _]. eexists _, _. exact E.
    - rewrite compile_call_eq in H. destruct (String.eqb k "").
      + cinv H. cinv H. destruct (IHf _ _ W Hc) as [f1 [p1 E1]].
        destruct (comp_list_ext ops orc fe _ IHargs _ _ (ext_wf _ _ _ _ W E1) Hc0) as [f2 [p2 E2]].
        apply emit8_ext in H. destruct H as [E3 _]. ext_chain.
      + destruct (lookup_fn fe k i) as [sg|]; [|discriminate].
        destruct (intrinsic_cbn sg) as [b|].
        * assert (Hcond : forall c t e, ext_prop ops orc fe c -> branch_ext ops orc fe t -> branch_ext ops orc fe e ->
                    comp_cond ops orc fe c t e st = COk st' -> exists f p, ext st st' f p).
          { intros c t e Hc' Ht He Hcc.
            destruct (comp_cond_inv ops orc fe c t e st st' W Hc' Ht He Hcc)
              as [st1 [st3 [st4 [st6 [st7 [fc [pc [ft [pt [fe' [pe [_ [_ [_ [_ [_ [_ [_ [_ E]]]]]]]]]]]]]]]]]]].
            eexists _, _. exact E. }
          destruct b; try discriminate.
          -- destruct args as [|c [|t [|e [|? ?]]]]; try discriminate.
             inversion IHargs as [|? ? Pc H1]; subst. inversion H1 as [|? ? Pt H2]; subst. inversion H2 as [|? ? Pe H3]; subst.
             apply (Hcond c (inl t) (inl e)); assumption.
          -- destruct args as [|x [|y [|? ?]]]; try discriminate.
             inversion IHargs as [|? ? Px H1]; subst. inversion H1 as [|? ? Py H2]; subst.
             apply (Hcond x (inl y) (inr false)); try assumption. exact I.
          -- destruct args as [|x [|? ?]]; try discriminate.
             inversion IHargs as [|? ? Px H1]; subst. cbv beta iota in H. cinv H. inversion H; subst.
             destruct (Px _ _ W Hc) as [f1 [p1 E1]]. ext_chain.
          -- destruct args as [|x [|y [|? ?]]]; try discriminate.
             inversion IHargs as [|? ? Px H1]; subst. inversion H1 as [|? ? Py H2]; subst.
             apply (Hcond x (inr true) (inl y)); try assumption. exact I.
        * cinv H. destruct (comp_args_ext ops orc fe sg _ IHargs _ _ _ W Hc) as [f1 [p1 E1]].
          destruct (intrinsic_cbv sg) as [o|].
          -- inversion H; subst. ext_chain.
          -- cbv zeta in H. cinv H. apply const_instr_ext in Hc0. destruct Hc0 as [E2 _].
             apply emit8_ext in H. destruct H as [E3 _]. ext_chain.
    - rewrite compile_sub_eq in H. cinv H. cinv H.
      destruct (IHv _ _ W Hc) as [f1 [p1 E1]].
      destruct (IHi _ _ (ext_wf _ _ _ _ W E1) Hc0) as [f2 [p2 E2]].
      destruct (ty_is_list vt); [|destruct (ty_is_map vt); [|discriminate]]; inversion H; subst; ext_chain.
    - rewrite compile_member_eq in H. cinv H. cinv H.
      destruct (IHo _ _ W Hc) as [f1 [p1 E1]].
      apply emit16_ext in Hc0. destruct Hc0 as [E2 _]. apply emit_const_ext in H. destruct H as [E3 _].
      ext_chain.
  Qed.
End CompExt2.
