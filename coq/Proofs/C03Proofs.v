(* C03 proofs: in progress *)
