(* C03 proofs: the bytecode VM against the reference evaluator. *)
From Coq Require Import List String Ascii Bool NArith ZArith Lia Arith.
From Yae Require Import Base.Sexp Model.Ty Gen.Generated Model.Unify Model.Num Model.Lexer Model.Literal Model.Cst
  Model.Check Model.CheckSpec Model.Val Model.Render Model.ValSpec Model.Builtins Model.Eval Model.EvalSpec Model.VM.
Import ListNotations.
Local Open Scope string_scope.
Local Open Scope list_scope.

(* ------------------------------------------------------------------ *)
(* finite checks over the regenerated tables *)

Lemma intrinsics_agree :
  forallb (fun row => let '(name, ps, opn) := row in
             match find (fun o => String.eqb (op_name o) opn) all_ops, classify name ps with
             | Some o, Some b => match intrinsic_sem o with
                                 | Some (b', k) => bfun_beq b b' && Nat.eqb k (List.length ps)
                                 | None => false end
             | _, _ => false
             end) intrinsics_cbv = true /\
  forallb (fun row => match classify (fst row) (snd row) with
                      | Some BIf | Some BAnd | Some BOr | Some BNot => true
                      | _ => false end) intrinsics_cbn = true.
Proof. split; vm_compute; reflexivity. Qed.

Lemma decode_op_byte : forall o, decode_op (op_byte o) = Some o.
Proof. destruct o; vm_compute; reflexivity. Qed.

(* ------------------------------------------------------------------ *)
(* the monad *)

Lemma mbind_ret_l : forall X Y (x : X) (f : X -> M Y), mbind (ret x) f = f x.
Proof. intros. unfold mbind, ret. destruct (f x). reflexivity. Qed.

Lemma mbind_ret_r : forall X (m : M X), mbind m (fun x => ret x) = m.
Proof. intros X [t [x|k|k]]; cbn; rewrite ?app_nil_r; reflexivity. Qed.

Definition tpre {X} (t : list event) (m : M X) : M X := (t ++ fst m, snd m).

Lemma tpre_nil : forall X (m : M X), tpre [] m = m.
Proof. intros X [t o]. reflexivity. Qed.

Lemma tpre_tpre : forall X t1 t2 (m : M X), tpre t1 (tpre t2 m) = tpre (t1 ++ t2) m.
Proof. intros X t1 t2 [t o]. unfold tpre. cbn. rewrite app_assoc. reflexivity. Qed.

Lemma mbind_val : forall X Y t (x : X) (f : X -> M Y), mbind (t, OVal x) f = tpre t (f x).
Proof. intros. unfold mbind, tpre. destruct (f x). reflexivity. Qed.

Lemma mbind_fail : forall X Y t k (f : X -> M Y), mbind (t, OFail k) f = (t, OFail k).
Proof. reflexivity. Qed.

Lemma mbind_fault : forall X Y t k (f : X -> M Y), mbind (t, OFault k) f = (t, OFault k).
Proof. reflexivity. Qed.

(* ------------------------------------------------------------------ *)
(* the dispatch loop, named: [vop] is one instruction, [vloop] the loop of vm_run *)
Section Loop.
  Variable ops : numops.
  Variable orc : oracles.
  Variable rho : venv.
  Variable pool : list const.
  Variable run : list N -> M val.       (* the invocation of a thunk body *)
  Variable code : list N.

  Definition vop (continue : list N -> list sval -> M val) (o : opcode) (r : list N) (stack : list sval) : M val :=
    match o with
    | OP_NOP => continue r stack
    | OP_ADD_NUM => continue r stack
    | OP_RETURN => let^ (v, _) := pop_val stack in ret v
    | OP_CONST =>
        let^ (c, r1) := read_const pool r in
        match c with
        | CVal v => continue r1 (SV v :: stack)
        | CThunk body rt => continue r1 (STh body rt :: stack)
        | _ => fault XTypeConf
        end
    | OP_LOAD =>
        let^ (c, r1) := read_const pool r in
        match c with
        | CName nm => match assoc nm rho with Some v => continue r1 (SV v :: stack) | None => fault XNil end
        | _ => fault XTypeConf
        end
    | OP_JUMP => let^ (t, _) := read16 r in continue (skipn (N.to_nat t) code) stack
    | OP_IF_TRUE =>
        let^ (t, r1) := read16 r in
        let^ (v, s1) := pop_val stack in
        let^ bv := as_bool v in
        if bv then continue r1 s1 else continue (skipn (N.to_nat t) code) s1
    | OP_NEW_LIST =>
        let^ (c, r1) := read_const pool r in let^ (sz, r2) := read16 r1 in
        match c with
        | CType (TList e) =>
            let^ (xs, s1) := pop_n (N.to_nat sz) stack [] in let^ vs := vals_of xs in
            continue r2 (SV (VList (TList e) vs) :: s1)
        | _ => fault XTypeConf
        end
    | OP_NEW_MAP =>
        let^ (c, r1) := read_const pool r in let^ (sz, r2) := read16 r1 in
        match c with
        | CType (TMap kt vt) =>
            let^ (xs, s1) := pop_n (2 * N.to_nat sz) stack [] in let^ vs := vals_of xs in
            let^ entries :=
              (fix go (vs : list val) (acc : list (list N * val)) : M (list (list N * val)) :=
                 match vs with
                 | k :: v :: rr => let^ kk := key_of ops k in go rr (kput kk v acc)
                 | _ => ret acc
                 end) vs [] in
            continue r2 (SV (VMap (TMap kt vt) entries) :: s1)
        | _ => fault XTypeConf
        end
    | OP_NEW_OBJ =>
        let^ (c, r1) := read_const pool r in
        match c with
        | CType (TObj fs) =>
            let^ (xs, s1) := pop_n (len fs) stack [] in let^ vs := vals_of xs in
            continue r1 (SV (VObj (TObj fs) vs) :: s1)
        | _ => fault XTypeConf
        end
    | OP_LIST_LOAD =>
        let^ (iv, s1) := pop_val stack in let^ nb := as_num iv in
        let^ (lv, s2) := pop_val s1 in let^ vs := as_list lv in
        let idx := to_i64 ops nb in
        if Z.ltb idx 0 || Z.leb (Z.of_nat (len vs)) idx then fail FIndex
        else match nth_error vs (Z.to_nat idx) with Some e => continue r (SV e :: s2) | None => fail FIndex end
    | OP_MAP_LOAD =>
        let^ (kv, s1) := pop_val stack in
        let^ (mv, s2) := pop_val s1 in let^ kvs := as_map mv in
        let^ kk := key_of ops kv in
        match kget kk kvs with Some e => continue r (SV e :: s2) | None => fail FKey end
    | OP_OBJ_LOAD =>
        let^ (idx, r1) := read16 r in let^ (c, r2) := read_const pool r1 in
        let^ (ov, s1) := pop_val stack in
        match c, ov with
        | CName nm, VObj t vs =>
            match obj_load t vs (N.to_nat idx) nm with Some e => continue r2 (SV e :: s1) | None => fault XNil end
        | _, _ => fault XTypeConf
        end
    | OP_CALL_BY_VALUE =>
        let^ (c, r1) := read_const pool r in let^ (argc, r2) := read8 r1 in
        match c with
        | CFun sg =>
            let^ (xs, s1) := pop_n (N.to_nat argc) stack [] in let^ vs := vals_of xs in
            let^ res := apply_strict ops orc sg vs in
            continue r2 (SV res :: s1)
        | _ => fault XTypeConf
        end
    | OP_CALL_BY_NEED =>
        let^ (c, r1) := read_const pool r in let^ (argc, r2) := read8 r1 in
        match c with
        | CFun sg =>
            let^ (xs, s1) := pop_n (N.to_nat argc) stack [] in
            let^ ths := mmapM (fun x => match x with
                                        | STh body _ => ret (fun (_ : unit) => run body)
                                        | SV _ => fault XTypeConf
                                        end) xs in
            let^ res := (if sig_is_builtin sg then apply_lazy sg else host_lazy (s_name sg)) ths in
            continue r2 (SV res :: s1)
        | _ => fault XTypeConf
        end
    | OP_DYNAMIC_CALL =>
        let^ (argc, r1) := read8 r in
        let^ (xs, s1) := pop_n (N.to_nat argc) stack [] in let^ vs := vals_of xs in
        let^ (fv, s2) := pop_val s1 in
        match fv with
        | VFun (TFun _ ps rt) name lz =>
            if lz then fault XNil
            else let^ res := apply_strict ops orc (mkSig name ps rt false) vs in continue r1 (SV res :: s2)
        | _ => fault XTypeConf
        end
    | _ =>
        match intrinsic_sem o with
        | Some (bf, k) =>
            let^ (xs, s1) := pop_n k stack [] in let^ vs := vals_of xs in
            let^ res := bsem ops orc bf vs in
            continue r (SV res :: s1)
        | None => fault XOpcode
        end
    end.

  Fixpoint vloop (g : nat) (rest : list N) (stack : list sval) (n : option nat) {struct g} : M val :=
    match g with
    | O => fault XFuel
    | S g' =>
      match n with
      | Some O => fault XLimit
      | _ =>
        let n' := option_map pred n in
        match rest with
        | [] => fault XOther
        | b :: r =>
          match decode_op b with
          | None => fault XOpcode
          | Some o => vop (fun r s => vloop g' r s n') o r stack
          end
        end
      end
    end.
End Loop.

Lemma vm_run_S : forall ops orc rho pool limit f code,
  vm_run ops orc rho pool limit (S f) code =
  vloop ops orc rho pool (vm_run ops orc rho pool limit f) code (4 * S (len code)) code [] limit.
Proof. intros. reflexivity. Qed.

(* ------------------------------------------------------------------ *)
(* only_refusal *)
Lemma only_refusal : forall (ops : numops) (orc : oracles) fe a,
  compile_main ops orc fe a = CErr \/ compile_main ops orc fe a = CFuel \/
  exists code pool, compile_main ops orc fe a = COk (code, pool).
Proof.
  intros. destruct (compile_main ops orc fe a) as [[c p]| |].
  - right. right. exists c, p. reflexivity.
  - left. reflexivity.
  - right. left. reflexivity.
Qed.

(* ------------------------------------------------------------------ *)
(* relating two computations up to a class [Q] of outcomes of interest (values are always in the class) *)
Section MRel.
  Variable Q : outcome val -> Prop.
  Hypothesis Qval : forall v, Q (OVal v).

  Definition m_rel (m1 m2 : M val) : Prop := forall t o, m1 = (t, o) -> Q o -> m2 = (t, o).

  (* same trace, same failure, related results *)
  Definition m_sim {X Y} (R : X -> Y -> Prop) (m1 : M X) (m2 : M Y) : Prop :=
    fst m1 = fst m2 /\
    match snd m1, snd m2 with
    | OVal x, OVal y => R x y
    | OFail k1, OFail k2 => k1 = k2
    | OFault k1, OFault k2 => k1 = k2
    | _, _ => False
    end.

  Lemma m_rel_refl : forall m, m_rel m m.
  Proof. intros m t o H _. exact H. Qed.

  Lemma m_sim_refl : forall X (m : M X), m_sim eq m m.
  Proof. intros X [t [x|k|k]]; split; reflexivity. Qed.

  Lemma m_rel_bind_sim : forall X Y (R : X -> Y -> Prop) (m1 : M X) (m2 : M Y) k1 k2,
    m_sim R m1 m2 -> (forall x y, R x y -> m_rel (k1 x) (k2 y)) -> m_rel (mbind m1 k1) (mbind m2 k2).
  Proof.
    intros X Y R [t1 o1] [t2 o2] k1 k2 [Ht Ho] Hk t o H HQ. cbn in Ht, Ho. subst t2.
    destruct o1 as [x|k|k], o2 as [y|k'|k']; try contradiction.
    - rewrite mbind_val in *. destruct (k1 x) as [t' o'] eqn:E. unfold tpre in H. cbn in H.
      inversion H; subst. rewrite (Hk x y Ho _ _ E HQ). reflexivity.
    - subst k'. exact H.
    - subst k'. exact H.
  Qed.

  Lemma m_rel_bind_same : forall X (m : M X) k1 k2,
    (forall x, m_rel (k1 x) (k2 x)) -> m_rel (mbind m k1) (mbind m k2).
  Proof.
    intros X m k1 k2 Hk. apply (m_rel_bind_sim X X eq); [apply m_sim_refl|]. intros x y E. subst y. apply Hk.
  Qed.

  Lemma m_rel_bind : forall (m1 m2 : M val) k1 k2,
    m_rel m1 m2 -> (forall x, m_rel (k1 x) (k2 x)) -> m_rel (mbind m1 k1) (mbind m2 k2).
  Proof.
    intros [t1 o1] m2 k1 k2 Hm Hk t o H HQ.
    destruct o1 as [x|k|k].
    - rewrite (Hm _ _ eq_refl (Qval x)). rewrite mbind_val in *.
      destruct (k1 x) as [t' o'] eqn:E. unfold tpre in H. cbn in H. inversion H; subst.
      rewrite (Hk x _ _ E HQ). reflexivity.
    - cbn in H. inversion H; subst. rewrite (Hm _ _ eq_refl HQ). reflexivity.
    - cbn in H. inversion H; subst. rewrite (Hm _ _ eq_refl HQ). reflexivity.
  Qed.

  Definition th_rel (th1 th2 : unit -> M val) : Prop := m_rel (th1 tt) (th2 tt).

  Lemma host_lazy_rel : forall name ths1 ths2,
    Forall2 th_rel ths1 ths2 -> m_rel (host_lazy name ths1) (host_lazy name ths2).
  Proof.
    intros name ths1 ths2 HF. unfold host_lazy.
    destruct (name =? "lazyif").
    { apply m_rel_bind_same. intros _.
      destruct HF as [|c c' l1 l2 Hc HF]; [apply m_rel_refl|].
      destruct HF as [|a a' l1 l2 Ha HF]; [apply m_rel_refl|].
      destruct HF as [|b b' l1 l2 Hb HF]; [apply m_rel_refl|].
      destruct HF as [|d d' l1 l2 Hd HF]; [|apply m_rel_refl].
      apply m_rel_bind; [exact Hc|]. intros cv. apply m_rel_bind_same. intros [|]; assumption. }
    destruct (name =? "both").
    { apply m_rel_bind_same. intros _.
      destruct HF as [|a a' l1 l2 Ha HF]; [apply m_rel_refl|].
      destruct HF as [|b b' l1 l2 Hb HF]; [apply m_rel_refl|].
      destruct HF as [|d d' l1 l2 Hd HF]; [|apply m_rel_refl].
      apply m_rel_bind; [exact Ha|]. intros av. apply m_rel_bind_same. intros [|]; [|apply m_rel_refl].
      apply m_rel_bind; [exact Hb|]. intros bv. apply m_rel_refl. }
    apply m_rel_refl.
  Qed.

  Lemma apply_lazy_rel : forall sg ths1 ths2,
    Forall2 th_rel ths1 ths2 -> m_rel (apply_lazy sg ths1) (apply_lazy sg ths2).
  Proof.
    intros sg ths1 ths2 HF. unfold apply_lazy.
    destruct (classify (s_name sg) (s_params sg)) as [b|]; [|apply host_lazy_rel; exact HF].
    destruct b; try (apply host_lazy_rel; exact HF).
    - destruct HF as [|c c' l1 l2 Hc HF]; [apply m_rel_refl|].
      destruct HF as [|a a' l1 l2 Ha HF]; [apply m_rel_refl|].
      destruct HF as [|b b' l1 l2 Hb HF]; [apply m_rel_refl|].
      destruct HF as [|d d' l1 l2 Hd HF]; [|apply m_rel_refl].
      apply m_rel_bind; [exact Hc|]. intros cv. apply m_rel_bind_same. intros [|]; assumption.
    - destruct HF as [|a a' l1 l2 Ha HF]; [apply m_rel_refl|].
      destruct HF as [|b b' l1 l2 Hb HF]; [apply m_rel_refl|].
      destruct HF as [|d d' l1 l2 Hd HF]; [|apply m_rel_refl].
      apply m_rel_bind; [exact Ha|]. intros av. apply m_rel_bind_same. intros [|]; [|apply m_rel_refl].
      apply m_rel_bind; [exact Hb|]. intros bv. apply m_rel_refl.
    - destruct HF as [|a a' l1 l2 Ha HF]; [apply m_rel_refl|].
      destruct HF as [|b b' l1 l2 Hb HF]; [apply m_rel_refl|].
      destruct HF as [|d d' l1 l2 Hd HF]; [|apply m_rel_refl].
      apply m_rel_bind; [exact Ha|]. intros av. apply m_rel_bind_same. intros [|]; [apply m_rel_refl|].
      apply m_rel_bind; [exact Hb|]. intros bv. apply m_rel_refl.
  Qed.

  Lemma lazy_rel : forall sg ths1 ths2,
    Forall2 th_rel ths1 ths2 ->
    m_rel ((if sig_is_builtin sg then apply_lazy sg else host_lazy (s_name sg)) ths1)
          ((if sig_is_builtin sg then apply_lazy sg else host_lazy (s_name sg)) ths2).
  Proof. intros. destruct (sig_is_builtin sg); [apply apply_lazy_rel|apply host_lazy_rel]; assumption. Qed.
End MRel.

(* ------------------------------------------------------------------ *)
(* callthread_agrees *)
Section CallThread.
  Variable ops : numops.
  Variable orc : oracles.
  Variable rho : venv.
  Variable pool : list const.

  Definition not_limit (o : outcome val) : Prop := o <> OFault XLimit.
  Lemma not_limit_val : forall v, not_limit (OVal v).
  Proof. intros v H. discriminate. Qed.

  Notation mrl := (m_rel not_limit).

  Definition thunk_of (run : list N -> M val) (x : sval) : M (unit -> M val) :=
    match x with STh body _ => ret (fun (_ : unit) => run body) | SV _ => fault XTypeConf end.

  Lemma thunks_sim : forall (Q : outcome val -> Prop) run1 run2 xs,
    (forall body, m_rel Q (run1 body) (run2 body)) ->
    m_sim (Forall2 (th_rel Q)) (mmapM (thunk_of run1) xs) (mmapM (thunk_of run2) xs).
  Proof.
    intros Q run1 run2 xs Hr. induction xs as [|x xs IH].
    - split; cbn; [reflexivity|constructor].
    - cbn [mmapM]. fold (mmapM (thunk_of run1)). fold (mmapM (thunk_of run2)).
      destruct x as [v|body rt]; cbn [thunk_of].
      + split; reflexivity.
      + rewrite !mbind_ret_l.
        destruct IH as [Ht Ho].
        destruct (mmapM (thunk_of run1) xs) as [t1 o1], (mmapM (thunk_of run2) xs) as [t2 o2].
        cbn in Ht, Ho. subst t2.
        destruct o1 as [l1|k1|k1], o2 as [l2|k2|k2]; try contradiction; cbn.
        * split; [reflexivity|]. constructor; [|exact Ho]. unfold th_rel. apply Hr.
        * split; [reflexivity|exact Ho].
        * split; [reflexivity|exact Ho].
  Qed.

  Lemma vop_rel : forall (Q : outcome val -> Prop) (Qval : forall v, Q (OVal v)) run1 run2 code c1 c2 o r s,
    (forall body, m_rel Q (run1 body) (run2 body)) ->
    (forall r s, m_rel Q (c1 r s) (c2 r s)) ->
    m_rel Q (vop ops orc rho pool run1 code c1 o r s) (vop ops orc rho pool run2 code c2 o r s).
  Proof.
    intros Q Qval run1 run2 code c1 c2 o r s Hr Hc.
    assert (Hth : forall xs, m_sim (Forall2 (th_rel Q)) (mmapM (thunk_of run1) xs) (mmapM (thunk_of run2) xs))
      by (intros; apply thunks_sim; exact Hr).
    destruct o; cbn [vop intrinsic_sem];
    repeat first
      [ apply Hc
      | apply m_rel_refl
      | apply (m_rel_bind_same Q); intros ?
      | match goal with
        | |- m_rel _ (mbind (mmapM _ ?xs) _) _ =>
            apply (m_rel_bind_sim Q _ _ _ _ _ _ _ (Hth xs)); intros ? ? ?
        | |- m_rel _ (mbind ((if ?b then _ else _) _) _) _ =>
            apply (m_rel_bind Q Qval); [apply lazy_rel; assumption|intros ?]
        | |- m_rel _ (let '(_, _) := ?p in _) _ => destruct p
        | |- m_rel _ (match ?x with _ => _ end) _ => destruct x
        | |- m_rel _ (if ?x then _ else _) _ => destruct x
        end ].
  Qed.

  Lemma vloop_rel : forall run1 run2 code,
    (forall body, mrl (run1 body) (run2 body)) ->
    forall g rest s k,
      mrl (vloop ops orc rho pool run1 code g rest s (Some k)) (vloop ops orc rho pool run2 code g rest s None).
  Proof.
    intros run1 run2 code Hr. induction g as [|g IH]; intros rest s k.
    - apply m_rel_refl.
    - cbn [vloop]. destruct k as [|k].
      + intros t o H HQ. inversion H; subst. exfalso. apply HQ. reflexivity.
      + cbn [option_map pred]. destruct rest as [|b r]; [apply m_rel_refl|].
        destruct (decode_op b) as [o|]; [|apply m_rel_refl].
        apply vop_rel; [exact not_limit_val|exact Hr|]. intros r' s'. apply IH.
  Qed.

  Lemma vm_run_rel : forall lim f code,
    mrl (vm_run ops orc rho pool (Some lim) f code) (vm_run ops orc rho pool None f code).
  Proof.
    intros lim. induction f as [|f IH]; intros code.
    - apply m_rel_refl.
    - rewrite !vm_run_S. apply vloop_rel. exact IH.
  Qed.
End CallThread.

Lemma callthread_agrees : forall (ops : numops) (orc : oracles) rho pool lim g code t o,
  vm_run ops orc rho pool (Some lim) g code = (t, o) -> o <> OFault XLimit ->
  vm_run ops orc rho pool None g code = (t, o).
Proof. intros ops orc rho pool lim g code t o H Hn. exact (vm_run_rel ops orc rho pool lim g code t o H Hn). Qed.
