(* C03 proofs: the bytecode VM against the reference evaluator. *)
From Coq Require Import List String Ascii Bool NArith ZArith Lia Arith.
From Yae Require Import Base.Sexp Model.Ty Gen.Generated Model.Unify Model.Num Model.Lexer Model.Literal Model.Cst
  Model.Check Model.CheckSpec Model.Val Model.Render Model.ValSpec Model.Builtins Model.Eval Model.EvalSpec Model.VM.
From Yae Require Proofs.ExprInd Proofs.C05Proofs Proofs.C01Proofs.
Import ListNotations.
Local Open Scope string_scope.
Local Open Scope list_scope.

(* ------------------------------------------------------------------ *)
(* finite checks over the regenerated tables *)

Lemma intrinsics_agree :
  forallb (fun row => let '(name, ps, opn) := row in
             match find (fun o => String.eqb (op_name o) opn) all_ops, classify name ps with
             | Some o, Some b => match intrinsic_sem o with
                                 | Some (b', k) => bfun_beq b b' && Nat.eqb k (List.length ps)
                                 | None => false end
             | _, _ => false
             end) intrinsics_cbv = true /\
  forallb (fun row => match classify (fst row) (snd row) with
                      | Some BIf | Some BAnd | Some BOr | Some BNot => true
                      | _ => false end) intrinsics_cbn = true.
Proof. split; vm_compute; reflexivity. Qed.

Lemma decode_op_byte : forall o, decode_op (op_byte o) = Some o.
Proof. destruct o; vm_compute; reflexivity. Qed.

(* ------------------------------------------------------------------ *)
(* the monad *)

Lemma mbind_ret_l : forall X Y (x : X) (f : X -> M Y), mbind (ret x) f = f x.
Proof. intros. unfold mbind, ret. destruct (f x). reflexivity. Qed.

Lemma mbind_ret_r : forall X (m : M X), mbind m (fun x => ret x) = m.
Proof. intros X [t [x|k|k]]; cbn; rewrite ?app_nil_r; reflexivity. Qed.

Definition tpre {X} (t : list event) (m : M X) : M X := (t ++ fst m, snd m).

Lemma tpre_nil : forall X (m : M X), tpre [] m = m.
Proof. intros X [t o]. reflexivity. Qed.

Lemma tpre_tpre : forall X t1 t2 (m : M X), tpre t1 (tpre t2 m) = tpre (t1 ++ t2) m.
Proof. intros X t1 t2 [t o]. unfold tpre. cbn. rewrite app_assoc. reflexivity. Qed.

Lemma mbind_val : forall X Y t (x : X) (f : X -> M Y), mbind (t, OVal x) f = tpre t (f x).
Proof. intros. unfold mbind, tpre. destruct (f x). reflexivity. Qed.

Lemma mbind_fail : forall X Y t k (f : X -> M Y), mbind (t, OFail k) f = (t, OFail k).
Proof. reflexivity. Qed.

Lemma mbind_fault : forall X Y t k (f : X -> M Y), mbind (t, OFault k) f = (t, OFault k).
Proof. reflexivity. Qed.

(* ------------------------------------------------------------------ *)
(* the dispatch loop, named: [vop] is one instruction, [vloop] the loop of vm_run *)
Section Loop.
  Variable ops : numops.
  Variable orc : oracles.
  Variable rho : venv.
  Variable pool : list const.
  Variable run : list N -> M val.       (* the invocation of a thunk body *)
  Variable code : list N.

  Definition vop (continue : list N -> list sval -> M val) (o : opcode) (r : list N) (stack : list sval) : M val :=
    match o with
    | OP_NOP => continue r stack
    | OP_ADD_NUM => continue r stack
    | OP_RETURN => let^ (v, _) := pop_val stack in ret v
    | OP_CONST =>
        let^ (c, r1) := read_const pool r in
        match c with
        | CVal v => continue r1 (SV v :: stack)
        | CThunk body rt => continue r1 (STh body rt :: stack)
        | _ => fault XTypeConf
        end
    | OP_LOAD =>
        let^ (c, r1) := read_const pool r in
        match c with
        | CName nm => match assoc nm rho with Some v => continue r1 (SV v :: stack) | None => fault XNil end
        | _ => fault XTypeConf
        end
    | OP_JUMP => let^ (t, _) := read16 r in continue (skipn (N.to_nat t) code) stack
    | OP_IF_TRUE =>
        let^ (t, r1) := read16 r in
        let^ (v, s1) := pop_val stack in
        let^ bv := as_bool v in
        if bv then continue r1 s1 else continue (skipn (N.to_nat t) code) s1
    | OP_NEW_LIST =>
        let^ (c, r1) := read_const pool r in let^ (sz, r2) := read16 r1 in
        match c with
        | CType (TList e) =>
            let^ (xs, s1) := pop_n (N.to_nat sz) stack [] in let^ vs := vals_of xs in
            continue r2 (SV (VList (TList e) vs) :: s1)
        | _ => fault XTypeConf
        end
    | OP_NEW_MAP =>
        let^ (c, r1) := read_const pool r in let^ (sz, r2) := read16 r1 in
        match c with
        | CType (TMap kt vt) =>
            let^ (xs, s1) := pop_n (2 * N.to_nat sz) stack [] in let^ vs := vals_of xs in
            let^ entries :=
              (fix go (vs : list val) (acc : list (list N * val)) : M (list (list N * val)) :=
                 match vs with
                 | k :: v :: rr => let^ kk := key_of ops k in go rr (kput kk v acc)
                 | _ => ret acc
                 end) vs [] in
            continue r2 (SV (VMap (TMap kt vt) entries) :: s1)
        | _ => fault XTypeConf
        end
    | OP_NEW_OBJ =>
        let^ (c, r1) := read_const pool r in
        match c with
        | CType (TObj fs) =>
            let^ (xs, s1) := pop_n (len fs) stack [] in let^ vs := vals_of xs in
            continue r1 (SV (VObj (TObj fs) vs) :: s1)
        | _ => fault XTypeConf
        end
    | OP_LIST_LOAD =>
        let^ (iv, s1) := pop_val stack in let^ nb := as_num iv in
        let^ (lv, s2) := pop_val s1 in let^ vs := as_list lv in
        let idx := to_i64 ops nb in
        if Z.ltb idx 0 || Z.leb (Z.of_nat (len vs)) idx then fail FIndex
        else match nth_error vs (Z.to_nat idx) with Some e => continue r (SV e :: s2) | None => fail FIndex end
    | OP_MAP_LOAD =>
        let^ (kv, s1) := pop_val stack in
        let^ (mv, s2) := pop_val s1 in let^ kvs := as_map mv in
        let^ kk := key_of ops kv in
        match kget kk kvs with Some e => continue r (SV e :: s2) | None => fail FKey end
    | OP_OBJ_LOAD =>
        let^ (idx, r1) := read16 r in let^ (c, r2) := read_const pool r1 in
        let^ (ov, s1) := pop_val stack in
        match c, ov with
        | CName nm, VObj t vs =>
            match obj_load t vs (N.to_nat idx) nm with Some e => continue r2 (SV e :: s1) | None => fault XNil end
        | _, _ => fault XTypeConf
        end
    | OP_CALL_BY_VALUE =>
        let^ (c, r1) := read_const pool r in let^ (argc, r2) := read8 r1 in
        match c with
        | CFun sg =>
            let^ (xs, s1) := pop_n (N.to_nat argc) stack [] in let^ vs := vals_of xs in
            let^ res := apply_strict ops orc sg vs in
            continue r2 (SV res :: s1)
        | _ => fault XTypeConf
        end
    | OP_CALL_BY_NEED =>
        let^ (c, r1) := read_const pool r in let^ (argc, r2) := read8 r1 in
        match c with
        | CFun sg =>
            let^ (xs, s1) := pop_n (N.to_nat argc) stack [] in
            let^ ths := mmapM (fun x => match x with
                                        | STh body _ => ret (fun (_ : unit) => run body)
                                        | SV _ => fault XTypeConf
                                        end) xs in
            let^ res := (if sig_is_builtin sg then apply_lazy sg else host_lazy (s_name sg)) ths in
            continue r2 (SV res :: s1)
        | _ => fault XTypeConf
        end
    | OP_DYNAMIC_CALL =>
        let^ (argc, r1) := read8 r in
        let^ (xs, s1) := pop_n (N.to_nat argc) stack [] in let^ vs := vals_of xs in
        let^ (fv, s2) := pop_val s1 in
        match fv with
        | VFun (TFun _ ps rt) name lz =>
            if lz then fault XNil
            else let^ res := apply_strict ops orc (mkSig name ps rt false) vs in continue r1 (SV res :: s2)
        | _ => fault XTypeConf
        end
    | _ =>
        match intrinsic_sem o with
        | Some (bf, k) =>
            let^ (xs, s1) := pop_n k stack [] in let^ vs := vals_of xs in
            let^ res := bsem ops orc bf vs in
            continue r (SV res :: s1)
        | None => fault XOpcode
        end
    end.

  Fixpoint vloop (g : nat) (rest : list N) (stack : list sval) (n : option nat) {struct g} : M val :=
    match g with
    | O => fault XFuel
    | S g' =>
      match n with
      | Some O => fault XLimit
      | _ =>
        let n' := option_map pred n in
        match rest with
        | [] => fault XOther
        | b :: r =>
          match decode_op b with
          | None => fault XOpcode
          | Some o => vop (fun r s => vloop g' r s n') o r stack
          end
        end
      end
    end.
End Loop.

Lemma vm_run_S : forall ops orc rho pool limit f code,
  vm_run ops orc rho pool limit (S f) code =
  vloop ops orc rho pool (vm_run ops orc rho pool limit f) code (4 * S (len code)) code [] limit.
Proof. intros. reflexivity. Qed.

(* ------------------------------------------------------------------ *)
(* only_refusal *)
Lemma only_refusal : forall (ops : numops) (orc : oracles) fe a,
  compile_main ops orc fe a = CErr \/ compile_main ops orc fe a = CFuel \/
  exists code pool, compile_main ops orc fe a = COk (code, pool).
Proof.
  intros. destruct (compile_main ops orc fe a) as [[c p]| |].
  - right. right. exists c, p. reflexivity.
  - left. reflexivity.
  - right. left. reflexivity.
Qed.

(* ------------------------------------------------------------------ *)
(* relating two computations up to a class [Q] of outcomes of interest (values are always in the class) *)
Section MRel.
  Variable Q : outcome val -> Prop.
  Hypothesis Qval : forall v, Q (OVal v).

  Definition m_rel (m1 m2 : M val) : Prop := forall t o, m1 = (t, o) -> Q o -> m2 = (t, o).

  (* same trace, same failure, related results *)
  Definition m_sim {X Y} (R : X -> Y -> Prop) (m1 : M X) (m2 : M Y) : Prop :=
    fst m1 = fst m2 /\
    match snd m1, snd m2 with
    | OVal x, OVal y => R x y
    | OFail k1, OFail k2 => k1 = k2
    | OFault k1, OFault k2 => k1 = k2
    | _, _ => False
    end.

  Lemma m_rel_refl : forall m, m_rel m m.
  Proof. intros m t o H _. exact H. Qed.

  Lemma m_sim_refl : forall X (m : M X), m_sim eq m m.
  Proof. intros X [t [x|k|k]]; split; reflexivity. Qed.

  Lemma m_rel_bind_sim : forall X Y (R : X -> Y -> Prop) (m1 : M X) (m2 : M Y) k1 k2,
    m_sim R m1 m2 -> (forall x y, R x y -> m_rel (k1 x) (k2 y)) -> m_rel (mbind m1 k1) (mbind m2 k2).
  Proof.
    intros X Y R [t1 o1] [t2 o2] k1 k2 [Ht Ho] Hk t o H HQ. cbn in Ht, Ho. subst t2.
    destruct o1 as [x|k|k], o2 as [y|k'|k']; try contradiction.
    - rewrite mbind_val in *. destruct (k1 x) as [t' o'] eqn:E. unfold tpre in H. cbn in H.
      inversion H; subst. rewrite (Hk x y Ho _ _ E HQ). reflexivity.
    - subst k'. exact H.
    - subst k'. exact H.
  Qed.

  Lemma m_rel_bind_same : forall X (m : M X) k1 k2,
    (forall x, m_rel (k1 x) (k2 x)) -> m_rel (mbind m k1) (mbind m k2).
  Proof.
    intros X m k1 k2 Hk. apply (m_rel_bind_sim X X eq); [apply m_sim_refl|]. intros x y E. subst y. apply Hk.
  Qed.

  Lemma m_rel_bind : forall (m1 m2 : M val) k1 k2,
    m_rel m1 m2 -> (forall x, m_rel (k1 x) (k2 x)) -> m_rel (mbind m1 k1) (mbind m2 k2).
  Proof.
    intros [t1 o1] m2 k1 k2 Hm Hk t o H HQ.
    destruct o1 as [x|k|k].
    - rewrite (Hm _ _ eq_refl (Qval x)). rewrite mbind_val in *.
      destruct (k1 x) as [t' o'] eqn:E. unfold tpre in H. cbn in H. inversion H; subst.
      rewrite (Hk x _ _ E HQ). reflexivity.
    - cbn in H. inversion H; subst. rewrite (Hm _ _ eq_refl HQ). reflexivity.
    - cbn in H. inversion H; subst. rewrite (Hm _ _ eq_refl HQ). reflexivity.
  Qed.

  Definition th_rel (th1 th2 : unit -> M val) : Prop := m_rel (th1 tt) (th2 tt).

  Lemma host_lazy_rel : forall name ths1 ths2,
    Forall2 th_rel ths1 ths2 -> m_rel (host_lazy name ths1) (host_lazy name ths2).
  Proof.
    intros name ths1 ths2 HF. unfold host_lazy.
    destruct (name =? "lazyif").
    { apply m_rel_bind_same. intros _.
      destruct HF as [|c c' l1 l2 Hc HF]; [apply m_rel_refl|].
      destruct HF as [|a a' l1 l2 Ha HF]; [apply m_rel_refl|].
      destruct HF as [|b b' l1 l2 Hb HF]; [apply m_rel_refl|].
      destruct HF as [|d d' l1 l2 Hd HF]; [|apply m_rel_refl].
      apply m_rel_bind; [exact Hc|]. intros cv. apply m_rel_bind_same. intros [|]; assumption. }
    destruct (name =? "both").
    { apply m_rel_bind_same. intros _.
      destruct HF as [|a a' l1 l2 Ha HF]; [apply m_rel_refl|].
      destruct HF as [|b b' l1 l2 Hb HF]; [apply m_rel_refl|].
      destruct HF as [|d d' l1 l2 Hd HF]; [|apply m_rel_refl].
      apply m_rel_bind; [exact Ha|]. intros av. apply m_rel_bind_same. intros [|]; [|apply m_rel_refl].
      apply m_rel_bind; [exact Hb|]. intros bv. apply m_rel_refl. }
    apply m_rel_refl.
  Qed.

  Lemma apply_lazy_rel : forall sg ths1 ths2,
    Forall2 th_rel ths1 ths2 -> m_rel (apply_lazy sg ths1) (apply_lazy sg ths2).
  Proof.
    intros sg ths1 ths2 HF. unfold apply_lazy.
    destruct (classify (s_name sg) (s_params sg)) as [b|]; [|apply host_lazy_rel; exact HF].
    destruct b; try (apply host_lazy_rel; exact HF).
    - destruct HF as [|c c' l1 l2 Hc HF]; [apply m_rel_refl|].
      destruct HF as [|a a' l1 l2 Ha HF]; [apply m_rel_refl|].
      destruct HF as [|b b' l1 l2 Hb HF]; [apply m_rel_refl|].
      destruct HF as [|d d' l1 l2 Hd HF]; [|apply m_rel_refl].
      apply m_rel_bind; [exact Hc|]. intros cv. apply m_rel_bind_same. intros [|]; assumption.
    - destruct HF as [|a a' l1 l2 Ha HF]; [apply m_rel_refl|].
      destruct HF as [|b b' l1 l2 Hb HF]; [apply m_rel_refl|].
      destruct HF as [|d d' l1 l2 Hd HF]; [|apply m_rel_refl].
      apply m_rel_bind; [exact Ha|]. intros av. apply m_rel_bind_same. intros [|]; [|apply m_rel_refl].
      apply m_rel_bind; [exact Hb|]. intros bv. apply m_rel_refl.
    - destruct HF as [|a a' l1 l2 Ha HF]; [apply m_rel_refl|].
      destruct HF as [|b b' l1 l2 Hb HF]; [apply m_rel_refl|].
      destruct HF as [|d d' l1 l2 Hd HF]; [|apply m_rel_refl].
      apply m_rel_bind; [exact Ha|]. intros av. apply m_rel_bind_same. intros [|]; [apply m_rel_refl|].
      apply m_rel_bind; [exact Hb|]. intros bv. apply m_rel_refl.
  Qed.

  Lemma lazy_rel : forall sg ths1 ths2,
    Forall2 th_rel ths1 ths2 ->
    m_rel ((if sig_is_builtin sg then apply_lazy sg else host_lazy (s_name sg)) ths1)
          ((if sig_is_builtin sg then apply_lazy sg else host_lazy (s_name sg)) ths2).
  Proof. intros. destruct (sig_is_builtin sg); [apply apply_lazy_rel|apply host_lazy_rel]; assumption. Qed.
End MRel.

(* ------------------------------------------------------------------ *)
(* callthread_agrees *)
Section CallThread.
  Variable ops : numops.
  Variable orc : oracles.
  Variable rho : venv.
  Variable pool : list const.

  Definition not_limit (o : outcome val) : Prop := o <> OFault XLimit.
  Lemma not_limit_val : forall v, not_limit (OVal v).
  Proof. intros v H. discriminate. Qed.

  Notation mrl := (m_rel not_limit).

  Definition thunk_of (run : list N -> M val) (x : sval) : M (unit -> M val) :=
    match x with STh body _ => ret (fun (_ : unit) => run body) | SV _ => fault XTypeConf end.

  Lemma thunks_sim : forall (Q : outcome val -> Prop) run1 run2 xs,
    (forall body, m_rel Q (run1 body) (run2 body)) ->
    m_sim (Forall2 (th_rel Q)) (mmapM (thunk_of run1) xs) (mmapM (thunk_of run2) xs).
  Proof.
    intros Q run1 run2 xs Hr. induction xs as [|x xs IH].
    - split; cbn; [reflexivity|constructor].
    - cbn [mmapM]. fold (mmapM (thunk_of run1)). fold (mmapM (thunk_of run2)).
      destruct x as [v|body rt]; cbn [thunk_of].
      + split; reflexivity.
      + rewrite !mbind_ret_l.
        destruct IH as [Ht Ho].
        destruct (mmapM (thunk_of run1) xs) as [t1 o1], (mmapM (thunk_of run2) xs) as [t2 o2].
        cbn in Ht, Ho. subst t2.
        destruct o1 as [l1|k1|k1], o2 as [l2|k2|k2]; try contradiction; cbn.
        * split; [reflexivity|]. constructor; [|exact Ho]. unfold th_rel. apply Hr.
        * split; [reflexivity|exact Ho].
        * split; [reflexivity|exact Ho].
  Qed.

  Lemma vop_rel : forall (Q : outcome val -> Prop) (Qval : forall v, Q (OVal v)) run1 run2 code c1 c2 o r s,
    (forall body, m_rel Q (run1 body) (run2 body)) ->
    (forall r s, m_rel Q (c1 r s) (c2 r s)) ->
    m_rel Q (vop ops orc rho pool run1 code c1 o r s) (vop ops orc rho pool run2 code c2 o r s).
  Proof.
    intros Q Qval run1 run2 code c1 c2 o r s Hr Hc.
    assert (Hth : forall xs, m_sim (Forall2 (th_rel Q)) (mmapM (thunk_of run1) xs) (mmapM (thunk_of run2) xs))
      by (intros; apply thunks_sim; exact Hr).
    destruct o; cbn [vop intrinsic_sem];
    repeat first
      [ apply Hc
      | apply m_rel_refl
      | apply (m_rel_bind_same Q); intros ?
      | match goal with
        | |- m_rel _ (mbind (mmapM _ ?xs) _) _ =>
            apply (m_rel_bind_sim Q _ _ _ _ _ _ _ (Hth xs)); intros ? ? ?
        | |- m_rel _ (mbind ((if ?b then _ else _) _) _) _ =>
            apply (m_rel_bind Q Qval); [apply lazy_rel; assumption|intros ?]
        | |- m_rel _ (let '(_, _) := ?p in _) _ => destruct p
        | |- m_rel _ (match ?x with _ => _ end) _ => destruct x
        | |- m_rel _ (if ?x then _ else _) _ => destruct x
        end ].
  Qed.

  Lemma vloop_rel : forall run1 run2 code,
    (forall body, mrl (run1 body) (run2 body)) ->
    forall g rest s k,
      mrl (vloop ops orc rho pool run1 code g rest s (Some k)) (vloop ops orc rho pool run2 code g rest s None).
  Proof.
    intros run1 run2 code Hr. induction g as [|g IH]; intros rest s k.
    - apply m_rel_refl.
    - cbn [vloop]. destruct k as [|k].
      + intros t o H HQ. inversion H; subst. exfalso. apply HQ. reflexivity.
      + cbn [option_map pred]. destruct rest as [|b r]; [apply m_rel_refl|].
        destruct (decode_op b) as [o|]; [|apply m_rel_refl].
        apply vop_rel; [exact not_limit_val|exact Hr|]. intros r' s'. apply IH.
  Qed.

  Lemma vm_run_rel : forall lim f code,
    mrl (vm_run ops orc rho pool (Some lim) f code) (vm_run ops orc rho pool None f code).
  Proof.
    intros lim. induction f as [|f IH]; intros code.
    - apply m_rel_refl.
    - rewrite !vm_run_S. apply vloop_rel. exact IH.
  Qed.
End CallThread.

Lemma callthread_agrees : forall (ops : numops) (orc : oracles) rho pool lim g code t o,
  vm_run ops orc rho pool (Some lim) g code = (t, o) -> o <> OFault XLimit ->
  vm_run ops orc rho pool None g code = (t, o).
Proof. intros ops orc rho pool lim g code t o H Hn. exact (vm_run_rel ops orc rho pool lim g code t o H Hn). Qed.

(* ------------------------------------------------------------------ *)
(* the compiler: named pieces and unfolding equations *)
Section Comp.
  Variable ops : numops.
  Variable orc : oracles.
  Variable fe : fenv.
  Notation compile := (compile ops orc fe).

  Fixpoint comp_list (l : list aexpr) (st : cstate) : cres cstate :=
    match l with [] => COk st | x :: r => let+ st1 := compile x st in comp_list r st1 end.
  Fixpoint comp_kvs (l : list (aexpr * aexpr)) (st : cstate) : cres cstate :=
    match l with
    | [] => COk st
    | (k, v) :: r => let+ s1 := compile k st in let+ s2 := compile v s1 in comp_kvs r s2
    end.
  Fixpoint comp_fields (l : list (string * aexpr)) (st : cstate) : cres cstate :=
    match l with [] => COk st | (_, v) :: r => let+ s1 := compile v st in comp_fields r s1 end.
  Definition comp_args (sg : fsig) : list aexpr -> nat -> cstate -> cres cstate :=
    fix go (l : list aexpr) (i : nat) (st : cstate) : cres cstate :=
    match l with
    | [] => COk st
    | x :: r =>
        if s_lazy sg then
          let+ sub := compile x (cs_empty (cs_rpool st) (cs_plen st)) in
          let+ st'' := emit_const (CThunk (rev (cs_rcode (emit_op OP_RETURN sub))) (thunk_ret sg i))
                         (emit_op OP_CONST (mkCS (cs_rcode st) (cs_clen st) (cs_rpool sub) (cs_plen sub))) in
          go r (S i) st''
        else let+ st' := compile x st in go r (S i) st'
    end.
  Definition comp_branch (br : aexpr + bool) (st : cstate) : cres cstate :=
    match br with
    | inl e => compile e st
    | inr b => emit_const (CVal (VBool b)) (emit_op OP_CONST st)
    end.
  Definition comp_cond (c : aexpr) (t e : aexpr + bool) (st : cstate) : cres cstate :=
    let+ st1 := compile c st in
    let st2 := emit_op OP_IF_TRUE st1 in
    let off_false := cs_clen st2 in
    let+ st3 := emit16 0 st2 in
    let+ st4 := comp_branch t st3 in
    let st5 := emit_op OP_JUMP st4 in
    let off_next := cs_clen st5 in
    let+ st6 := emit16 0 st5 in
    let branch_false := cs_clen st6 in
    let+ st7 := comp_branch e st6 in
    let next := cs_clen st7 in
    let+ st8 := patch16 off_false branch_false st7 in
    patch16 off_next next st8.

  Lemma compile_list_eq : forall t es st,
    compile (AList t es) st =
    (let+ st1 := comp_list es st in
     let+ st2 := emit_const (CType t) (emit_op OP_NEW_LIST st1) in
     emit16 (N.of_nat (len es)) st2).
  Proof. reflexivity. Qed.

  Lemma compile_map_eq : forall t kvs st,
    compile (AMap t kvs) st =
    (let+ st1 := comp_kvs kvs st in
     let+ st2 := emit_const (CType t) (emit_op OP_NEW_MAP st1) in
     emit16 (N.of_nat (len kvs)) st2).
  Proof. reflexivity. Qed.

  Lemma compile_obj_eq : forall t fs st,
    compile (AObj t fs) st =
    (let+ st1 := comp_fields fs st in emit_const (CType t) (emit_op OP_NEW_OBJ st1)).
  Proof. reflexivity. Qed.

  Lemma compile_call_eq : forall col key idx fty callee args st,
    compile (ACall col key idx fty callee args) st =
    if String.eqb key "" then
      (let+ st1 := compile callee st in
       let+ st2 := comp_list args st1 in
       emit8 (N.of_nat (len args)) (emit_op OP_DYNAMIC_CALL st2))
    else
      match lookup_fn fe key idx with
      | None => CErr
      | Some sg =>
          match intrinsic_cbn sg, args with
          | Some BIf, [c; t; e] => comp_cond c (inl t) (inl e) st
          | Some BAnd, [x; y] => comp_cond x (inl y) (inr false) st
          | Some BOr, [x; y] => comp_cond x (inr true) (inl y) st
          | Some BNot, [x] => let+ st1 := compile x st in COk (emit_op OP_LOGICAL_NOT st1)
          | Some _, _ => CErr
          | None, _ =>
              let+ st1 := comp_args sg args O st in
              match intrinsic_cbv sg with
              | Some o => COk (emit_op o st1)
              | None =>
                  let o := if s_lazy sg then OP_CALL_BY_NEED else OP_CALL_BY_VALUE in
                  let+ st2 := emit_const (CFun sg) (emit_op o st1) in
                  emit8 (N.of_nat (len args)) st2
              end
          end
      end.
  Proof. reflexivity. Qed.

  Lemma compile_sub_eq : forall col vty v i st,
    compile (ASub col vty v i) st =
    (let+ st1 := compile v st in
     let+ st2 := compile i st1 in
     if ty_is_list vty then COk (emit_op OP_LIST_LOAD st2)
     else if ty_is_map vty then COk (emit_op OP_MAP_LOAD st2)
     else CErr).
  Proof. reflexivity. Qed.

  Lemma compile_member_eq : forall col oty idx o name st,
    compile (AMember col oty idx o name) st =
    (let+ st1 := compile o st in
     let+ st2 := emit16 (N.of_nat idx) (emit_op OP_OBJ_LOAD st1) in
     emit_const (CName name) st2).
  Proof. reflexivity. Qed.
End Comp.

(* ------------------------------------------------------------------ *)
(* induction principle for the nested inductive [aexpr] *)
Section AexprInd.
  Variable P : aexpr -> Prop.
  Hypothesis Hstr : forall v, P (AStr v).
  Hypothesis Hnum : forall t n, P (ANum t n).
  Hypothesis Htime : forall t, P (ATime t).
  Hypothesis Hbool : forall b, P (ABool b).
  Hypothesis Hlist : forall t es, Forall P es -> P (AList t es).
  Hypothesis Hmap : forall t kvs, Forall (fun kv => P (fst kv) /\ P (snd kv)) kvs -> P (AMap t kvs).
  Hypothesis Hobj : forall t fs, Forall (fun f => P (snd f)) fs -> P (AObj t fs).
  Hypothesis Hident : forall c n, P (AIdent c n).
  Hypothesis Hcall : forall c k i ft f args, P f -> Forall P args -> P (ACall c k i ft f args).
  Hypothesis Hsub : forall c vt v i, P v -> P i -> P (ASub c vt v i).
  Hypothesis Hmember : forall c ot idx o n, P o -> P (AMember c ot idx o n).

  Fixpoint aexpr_ind' (a : aexpr) : P a :=
    match a with
    | AStr v => Hstr v | ANum t n => Hnum t n | ATime t => Htime t | ABool b => Hbool b
    | AList t es => Hlist t es ((fix go (l : list aexpr) : Forall P l :=
                                  match l with [] => Forall_nil _ | a :: r => Forall_cons _ (aexpr_ind' a) (go r) end) es)
    | AMap t kvs => Hmap t kvs ((fix go (l : list (aexpr * aexpr)) : Forall (fun kv => P (fst kv) /\ P (snd kv)) l :=
                                  match l with
                                  | [] => Forall_nil _
                                  | a :: r => Forall_cons _ (conj (aexpr_ind' (fst a)) (aexpr_ind' (snd a))) (go r)
                                  end) kvs)
    | AObj t fs => Hobj t fs ((fix go (l : list (string * aexpr)) : Forall (fun f => P (snd f)) l :=
                                match l with [] => Forall_nil _ | a :: r => Forall_cons _ (aexpr_ind' (snd a)) (go r) end) fs)
    | AIdent c n => Hident c n
    | ACall c k i ft f args => Hcall c k i ft f args (aexpr_ind' f)
                            ((fix go (l : list aexpr) : Forall P l :=
                                match l with [] => Forall_nil _ | a :: r => Forall_cons _ (aexpr_ind' a) (go r) end) args)
    | ASub c vt v i => Hsub c vt v i (aexpr_ind' v) (aexpr_ind' i)
    | AMember c ot idx o n => Hmember c ot idx o n (aexpr_ind' o)
    end.
End AexprInd.

(* ------------------------------------------------------------------ *)
(* compiler states: what a compilation step appends *)
Definition code_of (st : cstate) : list N := rev (cs_rcode st).
Definition pool_of (st : cstate) : list const := rev (cs_rpool st).
Definition wf (st : cstate) : Prop :=
  cs_clen st = N.of_nat (List.length (cs_rcode st)) /\ cs_plen st = N.of_nat (List.length (cs_rpool st)).

Definition ext (st st' : cstate) (frag : list N) (pf : list const) : Prop :=
  cs_rcode st' = rev frag ++ cs_rcode st /\ cs_clen st' = (cs_clen st + N.of_nat (List.length frag))%N /\
  cs_rpool st' = rev pf ++ cs_rpool st /\ cs_plen st' = (cs_plen st + N.of_nat (List.length pf))%N.

Lemma ext_refl : forall st, ext st st [] [].
Proof. intros st. unfold ext. cbn. rewrite !N.add_0_r. auto. Qed.

Lemma ext_trans : forall a b c f1 p1 f2 p2, ext a b f1 p1 -> ext b c f2 p2 -> ext a c (f1 ++ f2) (p1 ++ p2).
Proof.
  intros a b c f1 p1 f2 p2 [A1 [A2 [A3 A4]]] [B1 [B2 [B3 B4]]]. unfold ext.
  rewrite B1, B2, B3, B4, A1, A2, A3, A4, !rev_app_distr, !app_length, !app_assoc. repeat split; lia.
Qed.

Lemma ext_wf : forall a b f p, wf a -> ext a b f p -> wf b.
Proof.
  intros a b f p [W1 W2] [A1 [A2 [A3 A4]]]. unfold wf.
  rewrite A1, A2, A3, A4, W1, W2, !app_length, !rev_length. split; lia.
Qed.

Lemma ext_inj : forall a b f p f' p', ext a b f p -> ext a b f' p' -> f = f' /\ p = p'.
Proof.
  intros a b f p f' p' [A1 [_ [A3 _]]] [B1 [_ [B3 _]]].
  rewrite A1 in B1. apply app_inv_tail in B1. rewrite A3 in B3. apply app_inv_tail in B3.
  split; [rewrite <- (rev_involutive f), B1|rewrite <- (rev_involutive p), B3]; apply rev_involutive.
Qed.

Lemma ext_code : forall a b f p, ext a b f p -> code_of b = code_of a ++ f.
Proof. intros a b f p [A1 _]. unfold code_of. rewrite A1, rev_app_distr, rev_involutive. reflexivity. Qed.

Lemma ext_pool : forall a b f p, ext a b f p -> pool_of b = pool_of a ++ p.
Proof. intros a b f p [_ [_ [A3 _]]]. unfold pool_of. rewrite A3, rev_app_distr, rev_involutive. reflexivity. Qed.

Lemma ext_emit_byte : forall b st, ext st (emit_byte b st) [b] [].
Proof. intros. unfold ext, emit_byte. cbn. rewrite N.add_0_r. auto. Qed.

Lemma ext_emit_op : forall o st, ext st (emit_op o st) [op_byte o] [].
Proof. intros. apply ext_emit_byte. Qed.

Definition b16 (n : N) : list N := [(n / 256)%N; (n mod 256)%N].

Lemma emit16_ext : forall n st st', emit16 n st = COk st' -> ext st st' (b16 n) [] /\ (n <= 65535)%N.
Proof.
  intros n st st' H. unfold emit16 in H. destruct (N.leb n 65535) eqn:E; [|discriminate].
  inversion H; subst. split; [|apply N.leb_le; exact E].
  apply (ext_trans _ _ _ [_] [] [_] [] (ext_emit_byte _ _) (ext_emit_byte _ _)).
Qed.

Lemma emit8_ext : forall n st st', emit8 n st = COk st' -> ext st st' [n] [] /\ (n <= 255)%N.
Proof.
  intros n st st' H. unfold emit8 in H. destruct (N.leb n 255) eqn:E; [|discriminate].
  inversion H; subst. split; [apply ext_emit_byte|apply N.leb_le; exact E].
Qed.

Lemma emit_const_ext : forall c st st', emit_const c st = COk st' ->
  ext st st' (b16 (cs_plen st)) [c] /\ (cs_plen st <= 65535)%N.
Proof.
  intros c st st' H. unfold emit_const in H. apply emit16_ext in H. destruct H as [[A1 [A2 [A3 A4]]] Hle].
  cbn in *. split; [|exact Hle]. unfold ext. cbn. repeat split; try assumption. rewrite A4. lia.
Qed.

Lemma set_nth_app : forall l1 x l2 y, set_nth (l1 ++ x :: l2) (List.length l1) y = l1 ++ y :: l2.
Proof. induction l1 as [|a l1 IH]; intros; cbn; [reflexivity|rewrite IH; reflexivity]. Qed.

Lemma patch16_ext : forall st st7 st8 f1 a b f2 pf off v,
  wf st -> ext st st7 (f1 ++ a :: b :: f2) pf -> off = (cs_clen st + N.of_nat (List.length f1))%N ->
  patch16 off v st7 = COk st8 ->
  ext st st8 (f1 ++ b16 v ++ f2) pf /\ (v <= 65535)%N.
Proof.
  intros st st7 st8 f1 a b f2 pf off v [W1 W2] Hext Hoff H.
  unfold patch16 in H. destruct (N.leb v 65535) eqn:E; [|discriminate]. inversion H; subst st8; clear H.
  split; [|apply N.leb_le; exact E].
  pose proof (ext_code _ _ _ _ Hext) as Hc. unfold code_of in Hc. rewrite Hc.
  destruct Hext as [A1 [A2 [A3 A4]]].
  assert (Hn : N.to_nat off = List.length (rev (cs_rcode st) ++ f1)).
  { rewrite app_length, rev_length. lia. }
  rewrite Hn. rewrite app_assoc. rewrite set_nth_app.
  replace (List.length (rev (cs_rcode st) ++ f1) + 1)%nat with (List.length ((rev (cs_rcode st) ++ f1) ++ [(v / 256)%N]))
    by (rewrite (app_length _ [_]); reflexivity).
  replace ((rev (cs_rcode st) ++ f1) ++ (v / 256)%N :: b :: f2)
    with (((rev (cs_rcode st) ++ f1) ++ [(v / 256)%N]) ++ b :: f2) by (rewrite <- !app_assoc; reflexivity).
  rewrite set_nth_app.
  unfold ext. cbn [cs_rcode cs_clen cs_rpool cs_plen].
  repeat split; try assumption.
  - rewrite <- (rev_involutive (cs_rcode st)) at 2. rewrite <- rev_app_distr. f_equal. unfold b16.
    rewrite <- !app_assoc. reflexivity.
  - rewrite A2. unfold b16. rewrite !app_length. cbn [List.length]. rewrite ?app_length. cbn [List.length]. lia.
Qed.

Lemma cbind_ok : forall X Y (r : cres X) (k : X -> cres Y) y, cbind r k = COk y -> exists x, r = COk x /\ k x = COk y.
Proof. intros X Y [x| |] k y H; try discriminate. exists x. split; [reflexivity|exact H]. Qed.

Ltac cinv H :=
  match type of H with
  | cbind _ _ = COk _ => let x := fresh "st" in let H1 := fresh "Hc" in
                         apply cbind_ok in H; destruct H as [x [H1 H]]
  end.

Lemma b16_len : forall n, List.length (b16 n) = 2%nat.
Proof. reflexivity. Qed.

Section CompExt.
  Variable ops : numops.
  Variable orc : oracles.
  Variable fe : fenv.
  Notation compile := (compile ops orc fe).

  Definition ext_prop (a : aexpr) : Prop :=
    forall st st', wf st -> compile a st = COk st' -> exists f p, ext st st' f p.

  Lemma comp_list_ext : forall es, Forall ext_prop es -> forall st st', wf st ->
    comp_list ops orc fe es st = COk st' -> exists f p, ext st st' f p.
  Proof.
    induction 1 as [|x r Hx Hr IH]; intros st st' W H; cbn [comp_list] in H.
    - inversion H; subst. exists [], []. apply ext_refl.
    - cinv H. destruct (Hx _ _ W Hc) as [f1 [p1 E1]].
      destruct (IH _ _ (ext_wf _ _ _ _ W E1) H) as [f2 [p2 E2]].
      exists (f1 ++ f2), (p1 ++ p2). eapply ext_trans; eassumption.
  Qed.

  Lemma comp_kvs_ext : forall kvs, Forall (fun kv => ext_prop (fst kv) /\ ext_prop (snd kv)) kvs ->
    forall st st', wf st -> comp_kvs ops orc fe kvs st = COk st' -> exists f p, ext st st' f p.
  Proof.
    induction 1 as [|[k v] r [Hk Hv] Hr IH]; intros st st' W H; cbn [comp_kvs] in H.
    - inversion H; subst. exists [], []. apply ext_refl.
    - cinv H. cinv H. cbn [fst snd] in *.
      destruct (Hk _ _ W Hc) as [f1 [p1 E1]]. pose proof (ext_wf _ _ _ _ W E1) as W1.
      destruct (Hv _ _ W1 Hc0) as [f2 [p2 E2]]. pose proof (ext_wf _ _ _ _ W1 E2) as W2.
      destruct (IH _ _ W2 H) as [f3 [p3 E3]].
      exists ((f1 ++ f2) ++ f3), ((p1 ++ p2) ++ p3). eapply ext_trans; [eapply ext_trans|]; eassumption.
  Qed.

  Lemma comp_fields_ext : forall fs, Forall (fun f => ext_prop (snd f)) fs ->
    forall st st', wf st -> comp_fields ops orc fe fs st = COk st' -> exists f p, ext st st' f p.
  Proof.
    induction 1 as [|[n v] r Hv Hr IH]; intros st st' W H; cbn [comp_fields] in H.
    - inversion H; subst. exists [], []. apply ext_refl.
    - cinv H. cbn [snd] in *. destruct (Hv _ _ W Hc) as [f1 [p1 E1]].
      destruct (IH _ _ (ext_wf _ _ _ _ W E1) H) as [f2 [p2 E2]].
      exists (f1 ++ f2), (p1 ++ p2). eapply ext_trans; eassumption.
  Qed.

  Lemma wf_empty : forall st, wf st -> wf (cs_empty (cs_rpool st) (cs_plen st)).
  Proof. intros st [W1 W2]. split; [reflexivity|exact W2]. Qed.

  Lemma const_instr_ext : forall o c st st', emit_const c (emit_op o st) = COk st' ->
    ext st st' (op_byte o :: b16 (cs_plen st)) [c] /\ (cs_plen st <= 65535)%N.
  Proof.
    intros o c st st' H. apply emit_const_ext in H. destruct H as [E Hle]. split; [|exact Hle].
    apply (ext_trans _ _ _ [_] [] _ _ (ext_emit_op o st) E).
  Qed.

  (* one deferred argument: its body is compiled apart, on the shared pool *)
  Lemma comp_thunk_inv : forall x st sub st'' rt,
    wf st -> ext_prop x ->
    compile x (cs_empty (cs_rpool st) (cs_plen st)) = COk sub ->
    emit_const (CThunk (rev (cs_rcode (emit_op OP_RETURN sub))) rt)
      (emit_op OP_CONST (mkCS (cs_rcode st) (cs_clen st) (cs_rpool sub) (cs_plen sub))) = COk st'' ->
    exists fx px, ext (cs_empty (cs_rpool st) (cs_plen st)) sub fx px /\
      ext st st'' (op_byte OP_CONST :: b16 (cs_plen sub)) (px ++ [CThunk (fx ++ [op_byte OP_RETURN]) rt]).
  Proof.
    intros x st sub st'' rt W Hx Hs He.
    destruct (Hx _ _ (wf_empty _ W) Hs) as [fx [px Ex]]. exists fx, px. split; [exact Ex|].
    apply const_instr_ext in He. destruct He as [E0 _]. cbn [cs_plen] in E0.
    assert (Hb : rev (cs_rcode (emit_op OP_RETURN sub)) = fx ++ [op_byte OP_RETURN]).
    { change (cs_rcode (emit_op OP_RETURN sub)) with (op_byte OP_RETURN :: cs_rcode sub).
      destruct Ex as [B1 _]. cbn [cs_empty cs_rcode] in B1. rewrite B1, app_nil_r. cbn [rev].
      rewrite rev_involutive. reflexivity. }
    rewrite Hb in E0.
    assert (E1 : ext st (mkCS (cs_rcode st) (cs_clen st) (cs_rpool sub) (cs_plen sub)) [] px).
    { destruct Ex as [_ [_ [B3 B4]]]. cbn [cs_empty cs_rpool cs_plen] in B3, B4.
      unfold ext. cbn [cs_rcode cs_clen cs_rpool cs_plen rev List.length app].
      repeat split; try assumption. lia. }
    exact (ext_trans _ _ _ _ _ _ _ E1 E0).
  Qed.

  Lemma comp_args_ext : forall sg args, Forall ext_prop args -> forall i st st', wf st ->
    comp_args ops orc fe sg args i st = COk st' -> exists f p, ext st st' f p.
  Proof.
    induction 1 as [|x r Hx Hr IH]; intros i st st' W H; cbn [comp_args] in H.
    - inversion H; subst. exists [], []. apply ext_refl.
    - destruct (s_lazy sg).
      + cinv H. cinv H.
        destruct (comp_thunk_inv _ _ _ _ _ W Hx Hc Hc0) as [fx [px [_ E1]]].
        destruct (IH _ _ _ (ext_wf _ _ _ _ W E1) H) as [f2 [p2 E2]].
        eexists _, _. eapply ext_trans; eassumption.
      + cinv H. destruct (Hx _ _ W Hc) as [f1 [p1 E1]].
        destruct (IH _ _ _ (ext_wf _ _ _ _ W E1) H) as [f2 [p2 E2]].
        eexists _, _. eapply ext_trans; eassumption.
  Qed.

  Definition branch_ext (br : aexpr + bool) : Prop := match br with inl e => ext_prop e | inr _ => True end.

  Lemma comp_branch_ext : forall br, branch_ext br -> forall st st', wf st ->
    comp_branch ops orc fe br st = COk st' -> exists f p, ext st st' f p.
  Proof.
    intros [e|b] Hb st st' W H; cbn [comp_branch] in H.
    - exact (Hb _ _ W H).
    - apply const_instr_ext in H. destruct H as [E _]. eexists _, _. exact E.
  Qed.

  Lemma comp_cond_inv : forall c t e st st', wf st -> ext_prop c -> branch_ext t -> branch_ext e ->
    comp_cond ops orc fe c t e st = COk st' ->
    exists st1 st3 st4 st6 st7 fc pc ft pt fe' pe,
      compile c st = COk st1 /\ ext st st1 fc pc /\
      ext st st3 (fc ++ op_byte OP_IF_TRUE :: b16 0) pc /\
      comp_branch ops orc fe t st3 = COk st4 /\ ext st3 st4 ft pt /\
      ext st st6 (fc ++ op_byte OP_IF_TRUE :: b16 0 ++ ft ++ op_byte OP_JUMP :: b16 0) (pc ++ pt) /\
      comp_branch ops orc fe e st6 = COk st7 /\ ext st6 st7 fe' pe /\
      ext st st' (fc ++ op_byte OP_IF_TRUE :: b16 (cs_clen st6) ++ ft ++ op_byte OP_JUMP :: b16 (cs_clen st7) ++ fe')
                 (pc ++ pt ++ pe).
  Proof.
    intros c t e st st' W Hc' Ht He H. unfold comp_cond in H.
    cinv H. rename st0 into st1. destruct (Hc' _ _ W Hc) as [fc [pc E1]].
    cinv H. rename st0 into st3. apply emit16_ext in Hc0. destruct Hc0 as [E3 _].
    assert (E03 : ext st st3 (fc ++ op_byte OP_IF_TRUE :: b16 0) pc).
    { pose proof (ext_trans _ _ _ _ _ _ _ E1 (ext_trans _ _ _ _ _ _ _ (ext_emit_op OP_IF_TRUE st1) E3)) as E.
      rewrite app_nil_r in E. exact E. }
    cinv H. rename st0 into st4.
    destruct (comp_branch_ext _ Ht _ _ (ext_wf _ _ _ _ W E03) Hc0) as [ft [pt E4]].
    cinv H. rename st0 into st6. apply emit16_ext in Hc1. destruct Hc1 as [E6 _].
    assert (E06 : ext st st6 (fc ++ op_byte OP_IF_TRUE :: b16 0 ++ ft ++ op_byte OP_JUMP :: b16 0) (pc ++ pt)).
    { pose proof (ext_trans _ _ _ _ _ _ _ E03 (ext_trans _ _ _ _ _ _ _ E4
                   (ext_trans _ _ _ _ _ _ _ (ext_emit_op OP_JUMP st4) E6))) as E.
      rewrite !app_nil_r in E. rewrite <- !app_assoc in E. exact E. }
    cinv H. rename st0 into st7.
    destruct (comp_branch_ext _ He _ _ (ext_wf _ _ _ _ W E06) Hc1) as [fe' [pe E7]].
    cinv H. rename st0 into st8.
    pose proof (ext_trans _ _ _ _ _ _ _ E06 E7) as E07.
    exists st1, st3, st4, st6, st7, fc, pc, ft, pt, fe', pe.
    repeat (split; [assumption|]).
    (* the two patches *)
    assert (Hoff1 : cs_clen (emit_op OP_IF_TRUE st1) = (cs_clen st + N.of_nat (List.length (fc ++ [op_byte OP_IF_TRUE])))%N).
    { destruct E1 as [_ [A2 _]]. cbn. rewrite A2, app_length. cbn. lia. }
    assert (E07' : ext st st7 ((fc ++ [op_byte OP_IF_TRUE]) ++ (0 / 256)%N :: (0 mod 256)%N ::
                                 (ft ++ op_byte OP_JUMP :: b16 0 ++ fe')) ((pc ++ pt) ++ pe)).
    { replace ((fc ++ [op_byte OP_IF_TRUE]) ++ (0 / 256)%N :: (0 mod 256)%N :: (ft ++ op_byte OP_JUMP :: b16 0 ++ fe'))
        with ((fc ++ op_byte OP_IF_TRUE :: b16 0 ++ ft ++ op_byte OP_JUMP :: b16 0) ++ fe'); [exact E07|].
      unfold b16. rewrite <- !app_assoc. cbn. rewrite <- !app_assoc. reflexivity. }
    destruct (patch16_ext _ _ _ _ _ _ _ _ _ _ W E07' Hoff1 Hc2) as [E8 _].
    assert (Hoff2 : cs_clen (emit_op OP_JUMP st4) =
                    (cs_clen st + N.of_nat (List.length (fc ++ op_byte OP_IF_TRUE :: b16 (cs_clen st6) ++ ft ++ [op_byte OP_JUMP])))%N).
    { destruct E03 as [_ [A2 _]]. destruct E4 as [_ [B2 _]]. cbn. rewrite B2, A2.
      rewrite !app_length. cbn. rewrite !app_length. cbn. lia. }
    assert (E8' : ext st st8 ((fc ++ op_byte OP_IF_TRUE :: b16 (cs_clen st6) ++ ft ++ [op_byte OP_JUMP]) ++
                               (0 / 256)%N :: (0 mod 256)%N :: fe') ((pc ++ pt) ++ pe)).
    { replace ((fc ++ op_byte OP_IF_TRUE :: b16 (cs_clen st6) ++ ft ++ [op_byte OP_JUMP]) ++ (0 / 256)%N :: (0 mod 256)%N :: fe')
        with ((fc ++ [op_byte OP_IF_TRUE]) ++ b16 (cs_clen st6) ++ ft ++ op_byte OP_JUMP :: b16 0 ++ fe'); [exact E8|].
      unfold b16. rewrite <- !app_assoc. cbn. rewrite <- !app_assoc. reflexivity. }
    destruct (patch16_ext _ _ _ _ _ _ _ _ _ _ W E8' Hoff2 H) as [E9 _].
    replace (fc ++ op_byte OP_IF_TRUE :: b16 (cs_clen st6) ++ ft ++ op_byte OP_JUMP :: b16 (cs_clen st7) ++ fe')
      with ((fc ++ op_byte OP_IF_TRUE :: b16 (cs_clen st6) ++ ft ++ [op_byte OP_JUMP]) ++ b16 (cs_clen st7) ++ fe').
    2:{ unfold b16. rewrite <- !app_assoc. cbn. rewrite <- !app_assoc. reflexivity. }
    replace (pc ++ pt ++ pe) with ((pc ++ pt) ++ pe) by (rewrite app_assoc; reflexivity).
    exact E9.
  Qed.
End CompExt.

Section CompExt2.
  Variable ops : numops.
  Variable orc : oracles.
  Variable fe : fenv.
  Notation compile := (compile ops orc fe).

  Ltac ext_chain :=
    eexists _, _;
    repeat first [ eassumption | apply ext_emit_op | (eapply ext_trans; [eassumption|]) | (eapply ext_trans; [apply ext_emit_op|]) ].

  Lemma compile_ext : forall a, ext_prop ops orc fe a.
  Proof.
    induction a as [v|t n|t|b|t es IHes|t kvs IHkvs|t fs IHfs|c n|col k i fty callee args IHf IHargs|c vt v i IHv IHi|c ot idx o n IHo]
      using aexpr_ind'; intros st st' W H.
    - cbn [VM.compile] in H. apply const_instr_ext in H. destruct H as [E _]. eexists _, _. exact E.
    - cbn [VM.compile] in H. apply const_instr_ext in H. destruct H as [E _]. eexists _, _. exact E.
    - cbn [VM.compile] in H. apply const_instr_ext in H. destruct H as [E _]. eexists _, _. exact E.
    - cbn [VM.compile] in H. apply const_instr_ext in H. destruct H as [E _]. eexists _, _. exact E.
    - rewrite compile_list_eq in H. cinv H. cinv H.
      destruct (comp_list_ext ops orc fe _ IHes _ _ W Hc) as [f1 [p1 E1]].
      apply const_instr_ext in Hc0. destruct Hc0 as [E2 _]. apply emit16_ext in H. destruct H as [E3 _].
      ext_chain.
    - rewrite compile_map_eq in H. cinv H. cinv H.
      destruct (comp_kvs_ext ops orc fe _ IHkvs _ _ W Hc) as [f1 [p1 E1]].
      apply const_instr_ext in Hc0. destruct Hc0 as [E2 _]. apply emit16_ext in H. destruct H as [E3 _].
      ext_chain.
    - rewrite compile_obj_eq in H. cinv H.
      destruct (comp_fields_ext ops orc fe _ IHfs _ _ W Hc) as [f1 [p1 E1]].
      apply const_instr_ext in H. destruct H as [E2 _].
      ext_chain.
    - cbn [VM.compile] in H. apply const_instr_ext in H. destruct H as [E _]. eexists _, _. exact E.
    - rewrite compile_call_eq in H. destruct (String.eqb k "").
      + cinv H. cinv H. destruct (IHf _ _ W Hc) as [f1 [p1 E1]].
        destruct (comp_list_ext ops orc fe _ IHargs _ _ (ext_wf _ _ _ _ W E1) Hc0) as [f2 [p2 E2]].
        apply emit8_ext in H. destruct H as [E3 _]. ext_chain.
      + destruct (lookup_fn fe k i) as [sg|]; [|discriminate].
        destruct (intrinsic_cbn sg) as [b|].
        * assert (Hcond : forall c t e, ext_prop ops orc fe c -> branch_ext ops orc fe t -> branch_ext ops orc fe e ->
                    comp_cond ops orc fe c t e st = COk st' -> exists f p, ext st st' f p).
          { intros c t e Hc' Ht He Hcc.
            destruct (comp_cond_inv ops orc fe c t e st st' W Hc' Ht He Hcc)
              as [st1 [st3 [st4 [st6 [st7 [fc [pc [ft [pt [fe' [pe [_ [_ [_ [_ [_ [_ [_ [_ E]]]]]]]]]]]]]]]]]]].
            eexists _, _. exact E. }
          destruct b; try discriminate.
          -- destruct args as [|c [|t [|e [|? ?]]]]; try discriminate.
             inversion IHargs as [|? ? Pc H1]; subst. inversion H1 as [|? ? Pt H2]; subst. inversion H2 as [|? ? Pe H3]; subst.
             apply (Hcond c (inl t) (inl e)); assumption.
          -- destruct args as [|x [|y [|? ?]]]; try discriminate.
             inversion IHargs as [|? ? Px H1]; subst. inversion H1 as [|? ? Py H2]; subst.
             apply (Hcond x (inl y) (inr false)); try assumption. exact I.
          -- destruct args as [|x [|? ?]]; try discriminate.
             inversion IHargs as [|? ? Px H1]; subst. cbv beta iota in H. cinv H. inversion H; subst.
             destruct (Px _ _ W Hc) as [f1 [p1 E1]]. ext_chain.
          -- destruct args as [|x [|y [|? ?]]]; try discriminate.
             inversion IHargs as [|? ? Px H1]; subst. inversion H1 as [|? ? Py H2]; subst.
             apply (Hcond x (inr true) (inl y)); try assumption. exact I.
        * cinv H. destruct (comp_args_ext ops orc fe sg _ IHargs _ _ _ W Hc) as [f1 [p1 E1]].
          destruct (intrinsic_cbv sg) as [o|].
          -- inversion H; subst. ext_chain.
          -- cbv zeta in H. cinv H. apply const_instr_ext in Hc0. destruct Hc0 as [E2 _].
             apply emit8_ext in H. destruct H as [E3 _]. ext_chain.
    - rewrite compile_sub_eq in H. cinv H. cinv H.
      destruct (IHv _ _ W Hc) as [f1 [p1 E1]].
      destruct (IHi _ _ (ext_wf _ _ _ _ W E1) Hc0) as [f2 [p2 E2]].
      destruct (ty_is_list vt); [|destruct (ty_is_map vt); [|discriminate]]; inversion H; subst; ext_chain.
    - rewrite compile_member_eq in H. cinv H. cinv H.
      destruct (IHo _ _ W Hc) as [f1 [p1 E1]].
      apply emit16_ext in Hc0. destruct Hc0 as [E2 _]. apply emit_const_ext in H. destruct H as [E3 _].
      ext_chain.
  Qed.
End CompExt2.

(* ------------------------------------------------------------------ *)
(* running a fragment *)
Definition omap {X Y} (k : X -> Y) (o : outcome X) : outcome Y :=
  match o with OVal x => OVal (k x) | OFail f => OFail f | OFault f => OFault f end.

Lemma skipn_more : forall X (l : list X) n a b, skipn n l = a ++ b -> skipn (n + List.length a) l = b.
Proof.
  intros X l n. revert l. induction n as [|n IH]; intros l a b H.
  - cbn in H. subst l. cbn. rewrite skipn_app, skipn_all, Nat.sub_diag. reflexivity.
  - destruct l as [|x l].
    + cbn in H. symmetry in H. apply app_eq_nil in H. destruct H; subst. reflexivity.
    + cbn in H. cbn. apply IH. exact H.
Qed.

Lemma read16_b16 : forall n r, read16 (b16 n ++ r) = ret (n, r).
Proof.
  intros n r. unfold b16, read16. cbn [app]. f_equal. f_equal. f_equal.
  pose proof (N.div_mod n 256). lia.
Qed.

Lemma read_const_b16 : forall pool n r c, nth_error pool (N.to_nat n) = Some c -> read_const pool (b16 n ++ r) = ret (c, r).
Proof. intros pool n r c H. unfold read_const. rewrite read16_b16, mbind_ret_l, H. reflexivity. Qed.

Lemma pop_n_app : forall ys s acc, pop_n (List.length ys) (ys ++ s) acc = ret (rev ys ++ acc, s).
Proof.
  induction ys as [|y ys IH]; intros s acc; cbn [List.length pop_n app rev].
  - reflexivity.
  - unfold pop at 1. rewrite mbind_ret_l, IH, <- app_assoc. reflexivity.
Qed.

Lemma pop_n_rev : forall xs s, pop_n (List.length xs) (rev xs ++ s) [] = ret (xs, s).
Proof. intros xs s. rewrite <- (rev_length xs), pop_n_app, rev_involutive, app_nil_r. reflexivity. Qed.

Lemma pop_val_SV : forall v s, pop_val (SV v :: s) = ret (v, s).
Proof. intros. unfold pop_val, pop. rewrite mbind_ret_l. reflexivity. Qed.

Lemma vals_of_SV : forall vs, vals_of (map SV vs) = ret vs.
Proof.
  unfold vals_of. induction vs as [|v vs IH]; [reflexivity|].
  cbn [map mmapM]. rewrite mbind_ret_l. cbn [map mmapM] in IH. rewrite IH, mbind_ret_l. reflexivity.
Qed.

Ltac mret := rewrite mbind_ret_l; cbv beta iota.

Definition pool_ext (p1 p2 : list const) : Prop := exists q, p2 = p1 ++ q.
Lemma pool_ext_refl : forall p, pool_ext p p.
Proof. intros p. exists []. rewrite app_nil_r. reflexivity. Qed.
Lemma pool_ext_trans : forall a b c, pool_ext a b -> pool_ext b c -> pool_ext a c.
Proof. intros a b c [q1 H1] [q2 H2]. exists (q1 ++ q2). rewrite H2, H1, app_assoc. reflexivity. Qed.
Lemma pool_ext_nth : forall a b i c, pool_ext a b -> nth_error a i = Some c -> nth_error b i = Some c.
Proof.
  intros a b i c [q H] Hn. subst b. rewrite nth_error_app1; [exact Hn|].
  apply nth_error_Some. rewrite Hn. discriminate.
Qed.
Lemma ext_pool_ext : forall a b f p, ext a b f p -> pool_ext (pool_of a) (pool_of b).
Proof. intros a b f p E. exists p. apply (ext_pool _ _ _ _ E). Qed.

(* the constant appended by a step sits at the index the step emitted *)
Lemma pool_new_nth : forall a b f c, wf a -> ext a b f [c] -> nth_error (pool_of b) (N.to_nat (cs_plen a)) = Some c.
Proof.
  intros a b f c [_ W2] E. rewrite (ext_pool _ _ _ _ E).
  assert (Hn : N.to_nat (cs_plen a) = List.length (pool_of a)) by (unfold pool_of; rewrite rev_length; lia).
  rewrite Hn, nth_error_app2, Nat.sub_diag; [reflexivity|lia].
Qed.

Lemma mbind_assoc : forall X Y Z (m : M X) (k1 : X -> M Y) (k2 : Y -> M Z),
  mbind (mbind m k1) k2 = mbind m (fun x => mbind (k1 x) k2).
Proof.
  intros X Y Z [t [x|kf|kf]] k1 k2; try reflexivity.
  cbn. destruct (k1 x) as [t1 [y|kf|kf]]; try reflexivity.
  cbn. destruct (k2 y) as [t2 o2]. rewrite app_assoc. reflexivity.
Qed.

Section Exec.
  Variable ops : numops.
  Variable orc : oracles.
  Variable rho : venv.
  Variable pool : list const.
  Variable run : list N -> M val.
  Variable code : list N.
  Notation loop := (vloop ops orc rho pool run code).
  Notation vop' := (vop ops orc rho pool run code).

  Definition runs (frag c2 : list N) (s : list sval) (t : list event) (o : outcome (list sval)) : Prop :=
    forall g, (List.length frag <= g)%nat ->
    match o with
    | OVal s' => exists g', (g <= g' + List.length frag)%nat /\ loop g (frag ++ c2) s None = tpre t (loop g' c2 s' None)
    | OFail k => loop g (frag ++ c2) s None = (t, OFail k)
    | OFault _ => True
    end.

  Lemma runs_nil : forall c2 s, runs [] c2 s [] (OVal s).
  Proof. intros c2 s g _. exists g. split; [cbn; lia|]. rewrite tpre_nil. reflexivity. Qed.

  Lemma runs_seq : forall f1 f2 c2 s t1 s1 t2 o,
    runs f1 (f2 ++ c2) s t1 (OVal s1) -> runs f2 c2 s1 t2 o -> runs (f1 ++ f2) c2 s (t1 ++ t2) o.
  Proof.
    intros f1 f2 c2 s t1 s1 t2 o H1 H2 g Hg. rewrite app_length in Hg.
    destruct (H1 g ltac:(lia)) as [g1 [Hg1 E1]]. rewrite <- app_assoc, E1.
    specialize (H2 g1 ltac:(lia)). destruct o as [s'|k|k].
    - destruct H2 as [g2 [Hg2 E2]]. exists g2. split; [rewrite app_length; lia|]. rewrite E2, tpre_tpre. reflexivity.
    - rewrite H2. reflexivity.
    - exact I.
  Qed.

  Lemma runs_seq_fail : forall f1 f2 c2 s t1 k,
    runs f1 (f2 ++ c2) s t1 (OFail k) -> runs (f1 ++ f2) c2 s t1 (OFail k).
  Proof.
    intros f1 f2 c2 s t1 k H1 g Hg. rewrite app_length in Hg.
    rewrite <- app_assoc. apply (H1 g). lia.
  Qed.

  Lemma loop_S : forall g o r s,
    loop (S g) (op_byte o :: r) s None = vop' (fun r s => loop g r s None) o r s.
  Proof. intros. cbn [vloop option_map]. rewrite decode_op_byte. reflexivity. Qed.

  (* one instruction: its effect is a computation [m] whose value determines the next stack *)
  Lemma runs_instr : forall X o tail c2 s (m : M X) (k : X -> list sval) t ox,
    (forall g, vop' (fun r s => loop g r s None) o (tail ++ c2) s = mbind m (fun x => loop g c2 (k x) None)) ->
    m = (t, ox) -> runs (op_byte o :: tail) c2 s t (omap k ox).
  Proof.
    intros X o tail c2 s m k t ox H Hm g Hg. cbn [List.length] in Hg.
    destruct g as [|g]; [lia|]. cbn [app]. rewrite loop_S, H, Hm.
    destruct ox as [x|kf|kf]; cbn [omap].
    - exists g. split; [cbn [List.length]; lia|]. apply mbind_val.
    - reflexivity.
    - exact I.
  Qed.

  Lemma runs_instr0 : forall o tail c2 s s',
    (forall g, vop' (fun r s => loop g r s None) o (tail ++ c2) s = loop g c2 s' None) ->
    runs (op_byte o :: tail) c2 s [] (OVal s').
  Proof.
    intros o tail c2 s s' H.
    apply (runs_instr unit o tail c2 s (ret tt) (fun _ => s') [] (OVal tt)); [|reflexivity].
    intros g. rewrite mbind_ret_l. apply H.
  Qed.

  Lemma instr_const : forall idx v c2 s, nth_error pool (N.to_nat idx) = Some (CVal v) ->
    runs (op_byte OP_CONST :: b16 idx) c2 s [] (OVal (SV v :: s)).
  Proof.
    intros idx v c2 s H. apply runs_instr0. intros g. cbn [vop].
    rewrite (read_const_b16 _ _ _ _ H), mbind_ret_l. reflexivity.
  Qed.

  Lemma instr_thunk : forall idx body rt c2 s, nth_error pool (N.to_nat idx) = Some (CThunk body rt) ->
    runs (op_byte OP_CONST :: b16 idx) c2 s [] (OVal (STh body rt :: s)).
  Proof.
    intros idx body rt c2 s H. apply runs_instr0. intros g. cbn [vop].
    rewrite (read_const_b16 _ _ _ _ H), mbind_ret_l. reflexivity.
  Qed.

  Lemma instr_load : forall idx nm v c2 s, nth_error pool (N.to_nat idx) = Some (CName nm) -> assoc nm rho = Some v ->
    runs (op_byte OP_LOAD :: b16 idx) c2 s [] (OVal (SV v :: s)).
  Proof.
    intros idx nm v c2 s H Ha. apply runs_instr0. intros g. cbn [vop].
    rewrite (read_const_b16 _ _ _ _ H), mbind_ret_l, Ha. reflexivity.
  Qed.

  Lemma instr_jump : forall t junk c2 s, skipn (N.to_nat t) code = c2 ->
    runs (op_byte OP_JUMP :: b16 t ++ junk) c2 s [] (OVal s).
  Proof.
    intros t junk c2 s H. apply runs_instr0. intros g. cbn [vop].
    rewrite <- app_assoc, read16_b16, mbind_ret_l, H. reflexivity.
  Qed.

  Lemma instr_if_true : forall t c2 s,
    runs (op_byte OP_IF_TRUE :: b16 t) c2 (SV (VBool true) :: s) [] (OVal s).
  Proof.
    intros t c2 s. apply runs_instr0. intros g. cbn [vop].
    rewrite read16_b16, mbind_ret_l, pop_val_SV, mbind_ret_l. cbn [as_bool]. rewrite mbind_ret_l. reflexivity.
  Qed.

  Lemma instr_if_false : forall t junk c2 s, skipn (N.to_nat t) code = c2 ->
    runs (op_byte OP_IF_TRUE :: b16 t ++ junk) c2 (SV (VBool false) :: s) [] (OVal s).
  Proof.
    intros t junk c2 s H. apply runs_instr0. intros g. cbn [vop].
    rewrite <- app_assoc, read16_b16, mbind_ret_l, pop_val_SV, mbind_ret_l. cbn [as_bool].
    rewrite mbind_ret_l, H. reflexivity.
  Qed.

  Definition vm_entries : list val -> list (list N * val) -> M (list (list N * val)) :=
    fix go (vs : list val) (acc : list (list N * val)) : M (list (list N * val)) :=
      match vs with
      | k :: v :: rr => let^ kk := key_of ops k in go rr (kput kk v acc)
      | _ => ret acc
      end.

  Lemma instr_new_list : forall idx e vs c2 s, nth_error pool (N.to_nat idx) = Some (CType (TList e)) ->
    runs (op_byte OP_NEW_LIST :: b16 idx ++ b16 (N.of_nat (List.length vs))) c2 (rev (map SV vs) ++ s) []
         (OVal (SV (VList (TList e) vs) :: s)).
  Proof.
    intros idx e vs c2 s H. apply runs_instr0. intros g. cbn [vop].
    rewrite <- app_assoc, (read_const_b16 _ _ _ _ H). mret. rewrite read16_b16. mret.
    rewrite Nat2N.id. rewrite <- (map_length SV vs), pop_n_rev. mret. rewrite vals_of_SV. mret. reflexivity.
  Qed.

  Lemma instr_new_map : forall idx kt vt vs sz entries c2 s,
    nth_error pool (N.to_nat idx) = Some (CType (TMap kt vt)) ->
    List.length vs = (2 * sz)%nat -> vm_entries vs [] = ret entries ->
    runs (op_byte OP_NEW_MAP :: b16 idx ++ b16 (N.of_nat sz)) c2 (rev (map SV vs) ++ s) []
         (OVal (SV (VMap (TMap kt vt) entries) :: s)).
  Proof.
    intros idx kt vt vs sz entries c2 s H Hl He. apply runs_instr0. intros g. cbn [vop].
    rewrite <- app_assoc, (read_const_b16 _ _ _ _ H). mret. rewrite read16_b16. mret.
    rewrite Nat2N.id, <- Hl. rewrite <- (map_length SV vs), pop_n_rev. mret. rewrite vals_of_SV. mret.
    change (mbind (vm_entries vs []) (fun entries0 => vloop ops orc rho pool run code g c2 (SV (VMap (TMap kt vt) entries0) :: s) None) =
            vloop ops orc rho pool run code g c2 (SV (VMap (TMap kt vt) entries) :: s) None).
    rewrite He, mbind_ret_l. reflexivity.
  Qed.

  Lemma instr_new_obj : forall idx fs vs c2 s, nth_error pool (N.to_nat idx) = Some (CType (TObj fs)) ->
    len fs = List.length vs ->
    runs (op_byte OP_NEW_OBJ :: b16 idx) c2 (rev (map SV vs) ++ s) [] (OVal (SV (VObj (TObj fs) vs) :: s)).
  Proof.
    intros idx fs vs c2 s H Hl. apply runs_instr0. intros g. cbn [vop].
    rewrite (read_const_b16 _ _ _ _ H). mret.
    rewrite Hl, <- (map_length SV vs), pop_n_rev. mret. rewrite vals_of_SV. mret. reflexivity.
  Qed.

  Definition list_load_m (iv : val) (vs : list val) : M val :=
    let^ n := as_num iv in
    let idx := to_i64 ops n in
    if Z.ltb idx 0 || Z.leb (Z.of_nat (len vs)) idx then fail FIndex
    else match nth_error vs (Z.to_nat idx) with Some e => ret e | None => fail FIndex end.

  Lemma instr_list_load : forall iv ty vs c2 s t ox, list_load_m iv vs = (t, ox) ->
    runs [op_byte OP_LIST_LOAD] c2 (SV iv :: SV (VList ty vs) :: s) t (omap (fun e => SV e :: s) ox).
  Proof.
    intros iv ty vs c2 s t ox H. apply (runs_instr _ OP_LIST_LOAD [] c2 _ (list_load_m iv vs)); [|exact H].
    intros g. cbn [vop app]. rewrite pop_val_SV. mret. unfold list_load_m.
    destruct iv; try reflexivity. cbn [as_num]. rewrite !mbind_ret_l. cbv beta iota. rewrite pop_val_SV. mret. cbn [as_list].
    mret.
    destruct (Z.ltb (to_i64 ops b) 0 || Z.leb (Z.of_nat (len vs)) (to_i64 ops b)); [reflexivity|].
    destruct (nth_error vs (Z.to_nat (to_i64 ops b))); [rewrite mbind_ret_l|]; reflexivity.
  Qed.

  Definition map_load_m (kv : val) (kvs : list (list N * val)) : M val :=
    let^ kk := key_of ops kv in
    match kget kk kvs with Some e => ret e | None => fail FKey end.

  Lemma instr_map_load : forall kv ty kvs c2 s t ox, map_load_m kv kvs = (t, ox) ->
    runs [op_byte OP_MAP_LOAD] c2 (SV kv :: SV (VMap ty kvs) :: s) t (omap (fun e => SV e :: s) ox).
  Proof.
    intros kv ty kvs c2 s t ox H. apply (runs_instr _ OP_MAP_LOAD [] c2 _ (map_load_m kv kvs)); [|exact H].
    intros g. cbn [vop app]. rewrite pop_val_SV. mret. rewrite pop_val_SV. mret. cbn [as_map].
    mret. unfold map_load_m. rewrite mbind_assoc.
    destruct (key_of ops kv) as [tk [kk|kf|kf]]; try reflexivity.
    rewrite !mbind_val. f_equal.
    destruct (kget kk kvs); [rewrite mbind_ret_l|]; reflexivity.
  Qed.

  Definition member_m (ov : val) (idx : nat) (name : string) : M val :=
    match ov with
    | VObj t vs => match obj_load t vs idx name with Some e => ret e | None => fault XNil end
    | _ => fault XTypeConf
    end.

  Lemma instr_obj_load : forall idx cidx nm ov c2 s t ox,
    nth_error pool (N.to_nat cidx) = Some (CName nm) -> member_m ov idx nm = (t, ox) ->
    runs (op_byte OP_OBJ_LOAD :: b16 (N.of_nat idx) ++ b16 cidx) c2 (SV ov :: s) t (omap (fun e => SV e :: s) ox).
  Proof.
    intros idx cidx nm ov c2 s t ox Hp H. apply (runs_instr _ OP_OBJ_LOAD _ c2 _ (member_m ov idx nm)); [|exact H].
    intros g. cbn [vop]. rewrite <- app_assoc, read16_b16. mret. rewrite (read_const_b16 _ _ _ _ Hp). mret.
    rewrite pop_val_SV. mret. rewrite Nat2N.id. unfold member_m.
    destruct ov; try reflexivity.
    destruct (obj_load t0 vs idx nm); [rewrite mbind_ret_l|]; reflexivity.
  Qed.

  Lemma instr_call_by_value : forall cidx sg vs c2 s t ox,
    nth_error pool (N.to_nat cidx) = Some (CFun sg) -> apply_strict ops orc sg vs = (t, ox) ->
    runs (op_byte OP_CALL_BY_VALUE :: b16 cidx ++ [N.of_nat (List.length vs)]) c2 (rev (map SV vs) ++ s) t
         (omap (fun e => SV e :: s) ox).
  Proof.
    intros cidx sg vs c2 s t ox Hp H. apply (runs_instr _ OP_CALL_BY_VALUE _ c2 _ (apply_strict ops orc sg vs)); [|exact H].
    intros g. cbn [vop]. rewrite <- app_assoc, (read_const_b16 _ _ _ _ Hp). mret. cbn [app read8].
    mret. rewrite Nat2N.id, <- (map_length SV vs), pop_n_rev. mret. rewrite vals_of_SV. mret. reflexivity.
  Qed.

  Definition lazy_m (sg : fsig) (xs : list sval) : M val :=
    let^ ths := mmapM (thunk_of run) xs in
    (if sig_is_builtin sg then apply_lazy sg else host_lazy (s_name sg)) ths.

  Lemma instr_call_by_need : forall cidx sg xs c2 s t ox,
    nth_error pool (N.to_nat cidx) = Some (CFun sg) -> lazy_m sg xs = (t, ox) ->
    runs (op_byte OP_CALL_BY_NEED :: b16 cidx ++ [N.of_nat (List.length xs)]) c2 (rev xs ++ s) t
         (omap (fun e => SV e :: s) ox).
  Proof.
    intros cidx sg xs c2 s t ox Hp H. apply (runs_instr _ OP_CALL_BY_NEED _ c2 _ (lazy_m sg xs)); [|exact H].
    intros g. cbn [vop]. rewrite <- app_assoc, (read_const_b16 _ _ _ _ Hp). mret. cbn [app read8].
    mret. rewrite Nat2N.id, pop_n_rev. mret. unfold lazy_m. rewrite mbind_assoc. reflexivity.
  Qed.

  Definition dyn_m (fv : val) (vs : list val) : M val :=
    match fv with
    | VFun (TFun _ ps rt) name lz =>
        if lz then fault XNil else apply_strict ops orc (mkSig name ps rt false) vs
    | _ => fault XTypeConf
    end.

  Lemma instr_dynamic_call : forall fv vs c2 s t ox, dyn_m fv vs = (t, ox) ->
    runs [op_byte OP_DYNAMIC_CALL; N.of_nat (List.length vs)] c2 (rev (map SV vs) ++ SV fv :: s) t
         (omap (fun e => SV e :: s) ox).
  Proof.
    intros fv vs c2 s t ox H. apply (runs_instr _ OP_DYNAMIC_CALL [_] c2 _ (dyn_m fv vs)); [|exact H].
    intros g. cbn [vop app read8].
    mret. rewrite Nat2N.id, <- (map_length SV vs), pop_n_rev. mret. rewrite vals_of_SV. mret.
    rewrite pop_val_SV. mret. unfold dyn_m.
    destruct fv; try reflexivity. destruct t0; try reflexivity. destruct lazy; reflexivity.
  Qed.

  Lemma vop_intrinsic : forall cont o bf k r s, intrinsic_sem o = Some (bf, k) -> o <> OP_ADD_NUM ->
    vop' cont o r s =
    (let^ (xs, s1) := pop_n k s [] in let^ vs := vals_of xs in
     let^ res := bsem ops orc bf vs in cont r (SV res :: s1)).
  Proof.
    intros cont o bf k r s H Hn. destruct o; try discriminate H; try (exfalso; apply Hn; reflexivity);
      cbn [vop]; rewrite H; reflexivity.
  Qed.

  Lemma instr_intrinsic : forall o bf vs c2 s t ox,
    intrinsic_sem o = Some (bf, List.length vs) -> bsem ops orc bf vs = (t, ox) -> is_fault ox = false ->
    runs [op_byte o] c2 (rev (map SV vs) ++ s) t (omap (fun e => SV e :: s) ox).
  Proof.
    intros o bf vs c2 s t ox Hi H Hnf.
    assert (Hd : o = OP_ADD_NUM \/ o <> OP_ADD_NUM) by (destruct o; (left; reflexivity) || (right; discriminate)).
    destruct Hd as [Hd|Hd].
    - subst o. cbn in Hi. inversion Hi; subst bf. destruct vs as [|v [|? ?]]; try discriminate.
      cbn in H. inversion H; subst. cbn [omap map rev app].
      apply runs_instr0. intros g. reflexivity.
    - apply (runs_instr _ o [] c2 _ (bsem ops orc bf vs)); [|exact H].
      intros g. rewrite (vop_intrinsic _ _ _ _ _ _ Hi Hd).
      rewrite <- (map_length SV vs), pop_n_rev. mret. rewrite vals_of_SV. mret. reflexivity.
  Qed.

  Lemma instr_return : forall g v s, loop (S g) [op_byte OP_RETURN] (SV v :: s) None = ret v.
  Proof. intros. rewrite loop_S. cbn [vop]. rewrite pop_val_SV, mbind_ret_l. reflexivity. Qed.
End Exec.

(* ------------------------------------------------------------------ *)
(* fragments at a position of any complete code object, over any pool extending the compiler's *)
Definition eventually (A : nat -> Prop) : Prop := exists F0, forall F, (F0 <= F)%nat -> A F.

Lemma ev_all : forall (A : nat -> Prop), (forall F, A F) -> eventually A.
Proof. intros A H. exists O. intros F _. apply H. Qed.
Lemma ev_and : forall A A', eventually A -> eventually A' -> eventually (fun F => A F /\ A' F).
Proof.
  intros A A' [F1 H1] [F2 H2]. exists (Nat.max F1 F2). intros F HF. split; [apply H1|apply H2]; lia.
Qed.
Lemma ev_mono : forall (A A' : nat -> Prop), (forall F, A F -> A' F) -> eventually A -> eventually A'.
Proof. intros A A' H [F0 H0]. exists F0. intros F HF. apply H, H0, HF. Qed.

Section ExecAt.
  Variable ops : numops.
  Variable orc : oracles.
  Variable rho : venv.

  Definition exec (F : nat) (pc : nat) (frag : list N) (pl : list const) (t : list event)
             (pre : list sval) (o : outcome (list sval)) : Prop :=
    forall code pool c2 s, skipn pc code = frag ++ c2 -> pool_ext pl pool ->
      runs ops orc rho pool (vm_run ops orc rho pool None F) code frag c2 (rev pre ++ s) t
           (omap (fun xs => rev xs ++ s) o).

  Lemma exec_seq : forall F pc f1 f2 pl t1 t2 pre xs1 o2,
    exec F pc f1 pl t1 pre (OVal xs1) -> exec F (pc + List.length f1) f2 pl t2 xs1 o2 ->
    exec F pc (f1 ++ f2) pl (t1 ++ t2) pre o2.
  Proof.
    intros F pc f1 f2 pl t1 t2 pre xs1 o2 H1 H2 code pool c2 s Hsk Hp.
    rewrite <- app_assoc in Hsk.
    eapply runs_seq.
    - apply (H1 code pool (f2 ++ c2) s Hsk Hp).
    - apply (H2 code pool c2 s); [|exact Hp]. apply skipn_more with (a := f1). exact Hsk.
  Qed.

  Lemma exec_seq_fail : forall F pc f1 f2 pl t1 pre k,
    exec F pc f1 pl t1 pre (OFail k) -> exec F pc (f1 ++ f2) pl t1 pre (OFail k).
  Proof.
    intros F pc f1 f2 pl t1 pre k H1 code pool c2 s Hsk Hp.
    rewrite <- app_assoc in Hsk. apply runs_seq_fail. apply (H1 code pool (f2 ++ c2) s Hsk Hp).
  Qed.

  Lemma exec_frame : forall F pc f pl t pre o pre0,
    exec F pc f pl t pre o -> exec F pc f pl t (pre0 ++ pre) (omap (app pre0) o).
  Proof.
    intros F pc f pl t pre o pre0 H code pool c2 s Hsk Hp.
    specialize (H code pool c2 (rev pre0 ++ s) Hsk Hp).
    rewrite rev_app_distr, <- app_assoc.
    destruct o as [xs|k|k]; cbn [omap] in *; try exact H.
    rewrite rev_app_distr, <- app_assoc. exact H.
  Qed.

  Lemma exec_pool : forall F pc f pl pl' t pre o, pool_ext pl pl' -> exec F pc f pl t pre o -> exec F pc f pl' t pre o.
  Proof.
    intros F pc f pl pl' t pre o Hpp H code pool c2 s Hsk Hp. apply H; [exact Hsk|].
    eapply pool_ext_trans; eassumption.
  Qed.

  Lemma exec_nil : forall F pc pl pre, exec F pc [] pl [] pre (OVal pre).
  Proof. intros F pc pl pre code pool c2 s _ _. apply runs_nil. Qed.

  (* children pushed one after the other *)
  Lemma exec_push : forall F pc f1 f2 pl t1 t2 xs1 o2,
    exec F pc f1 pl t1 [] (OVal xs1) -> exec F (pc + List.length f1) f2 pl t2 [] o2 ->
    exec F pc (f1 ++ f2) pl (t1 ++ t2) [] (omap (app xs1) o2).
  Proof.
    intros F pc f1 f2 pl t1 t2 xs1 o2 H1 H2. eapply exec_seq; [exact H1|].
    pose proof (exec_frame _ _ _ _ _ _ _ xs1 H2) as H. rewrite app_nil_r in H. exact H.
  Qed.

  Lemma exec_const : forall F pc pl idx v, nth_error pl (N.to_nat idx) = Some (CVal v) ->
    exec F pc (op_byte OP_CONST :: b16 idx) pl [] [] (OVal [SV v]).
  Proof.
    intros F pc pl idx v H code pool c2 s _ Hp. apply instr_const. eapply pool_ext_nth; eassumption.
  Qed.

  Lemma exec_thunk : forall F pc pl idx body rt, nth_error pl (N.to_nat idx) = Some (CThunk body rt) ->
    exec F pc (op_byte OP_CONST :: b16 idx) pl [] [] (OVal [STh body rt]).
  Proof.
    intros F pc pl idx body rt H code pool c2 s _ Hp. apply instr_thunk. eapply pool_ext_nth; eassumption.
  Qed.

  Lemma exec_load : forall F pc pl idx nm v, nth_error pl (N.to_nat idx) = Some (CName nm) -> assoc nm rho = Some v ->
    exec F pc (op_byte OP_LOAD :: b16 idx) pl [] [] (OVal [SV v]).
  Proof.
    intros F pc pl idx nm v H Ha code pool c2 s _ Hp. eapply instr_load; [|exact Ha]. eapply pool_ext_nth; eassumption.
  Qed.

  Lemma exec_jump : forall F pc pl t junk, N.to_nat t = (pc + List.length (op_byte OP_JUMP :: b16 t ++ junk))%nat ->
    exec F pc (op_byte OP_JUMP :: b16 t ++ junk) pl [] [] (OVal []).
  Proof.
    intros F pc pl t junk Ht code pool c2 s Hsk _. apply (instr_jump _ _ _ _ _ _ t junk c2 s).
    rewrite Ht. apply skipn_more with (a := op_byte OP_JUMP :: b16 t ++ junk). exact Hsk.
  Qed.

  Lemma exec_if_true : forall F pc pl t,
    exec F pc (op_byte OP_IF_TRUE :: b16 t) pl [] [SV (VBool true)] (OVal []).
  Proof. intros F pc pl t code pool c2 s _ _. apply instr_if_true. Qed.

  Lemma exec_if_false : forall F pc pl t junk,
    N.to_nat t = (pc + List.length (op_byte OP_IF_TRUE :: b16 t ++ junk))%nat ->
    exec F pc (op_byte OP_IF_TRUE :: b16 t ++ junk) pl [] [SV (VBool false)] (OVal []).
  Proof.
    intros F pc pl t junk Ht code pool c2 s Hsk _. apply (instr_if_false _ _ _ _ _ _ t junk c2 s).
    rewrite Ht. apply skipn_more with (a := op_byte OP_IF_TRUE :: b16 t ++ junk). exact Hsk.
  Qed.

  Lemma exec_new_list : forall F pc pl idx e vs, nth_error pl (N.to_nat idx) = Some (CType (TList e)) ->
    exec F pc (op_byte OP_NEW_LIST :: b16 idx ++ b16 (N.of_nat (List.length vs))) pl [] (map SV vs)
         (OVal [SV (VList (TList e) vs)]).
  Proof.
    intros F pc pl idx e vs H code pool c2 s _ Hp. apply instr_new_list. eapply pool_ext_nth; eassumption.
  Qed.

  Lemma exec_new_map : forall F pc pl idx kt vt vs sz entries,
    nth_error pl (N.to_nat idx) = Some (CType (TMap kt vt)) ->
    List.length vs = (2 * sz)%nat -> vm_entries ops vs [] = ret entries ->
    exec F pc (op_byte OP_NEW_MAP :: b16 idx ++ b16 (N.of_nat sz)) pl [] (map SV vs)
         (OVal [SV (VMap (TMap kt vt) entries)]).
  Proof.
    intros F pc pl idx kt vt vs sz entries H Hl He code pool c2 s _ Hp.
    apply instr_new_map; try assumption. eapply pool_ext_nth; eassumption.
  Qed.

  Lemma exec_new_obj : forall F pc pl idx fs vs, nth_error pl (N.to_nat idx) = Some (CType (TObj fs)) ->
    len fs = List.length vs ->
    exec F pc (op_byte OP_NEW_OBJ :: b16 idx) pl [] (map SV vs) (OVal [SV (VObj (TObj fs) vs)]).
  Proof.
    intros F pc pl idx fs vs H Hl code pool c2 s _ Hp. apply instr_new_obj; [|exact Hl]. eapply pool_ext_nth; eassumption.
  Qed.

  Lemma omap_omap : forall X Y Z (f : X -> Y) (g : Y -> Z) o, omap g (omap f o) = omap (fun x => g (f x)) o.
  Proof. intros X Y Z f g [x|k|k]; reflexivity. Qed.

  Lemma exec_list_load : forall F pc pl iv ty vs t ox, list_load_m ops iv vs = (t, ox) ->
    exec F pc [op_byte OP_LIST_LOAD] pl t [SV (VList ty vs); SV iv] (omap (fun e => [SV e]) ox).
  Proof.
    intros F pc pl iv ty vs t ox H code pool c2 s _ _. rewrite omap_omap. cbn [rev app].
    apply instr_list_load. exact H.
  Qed.

  Lemma exec_map_load : forall F pc pl kv ty kvs t ox, map_load_m ops kv kvs = (t, ox) ->
    exec F pc [op_byte OP_MAP_LOAD] pl t [SV (VMap ty kvs); SV kv] (omap (fun e => [SV e]) ox).
  Proof.
    intros F pc pl kv ty kvs t ox H code pool c2 s _ _. rewrite omap_omap. cbn [rev app].
    apply instr_map_load. exact H.
  Qed.

  Lemma exec_obj_load : forall F pc pl idx cidx nm ov t ox,
    nth_error pl (N.to_nat cidx) = Some (CName nm) -> member_m ov idx nm = (t, ox) ->
    exec F pc (op_byte OP_OBJ_LOAD :: b16 (N.of_nat idx) ++ b16 cidx) pl t [SV ov] (omap (fun e => [SV e]) ox).
  Proof.
    intros F pc pl idx cidx nm ov t ox Hn H code pool c2 s _ Hp. rewrite omap_omap. cbn [rev app].
    apply instr_obj_load with (nm := nm); [|exact H]. eapply pool_ext_nth; eassumption.
  Qed.

  Lemma exec_call_by_value : forall F pc pl cidx sg vs t ox,
    nth_error pl (N.to_nat cidx) = Some (CFun sg) -> apply_strict ops orc sg vs = (t, ox) ->
    exec F pc (op_byte OP_CALL_BY_VALUE :: b16 cidx ++ [N.of_nat (List.length vs)]) pl t (map SV vs)
         (omap (fun e => [SV e]) ox).
  Proof.
    intros F pc pl cidx sg vs t ox Hn H code pool c2 s _ Hp. rewrite omap_omap. cbn [rev app].
    apply instr_call_by_value with (sg := sg); [|exact H]. eapply pool_ext_nth; eassumption.
  Qed.

  Lemma exec_dynamic_call : forall F pc pl fv vs t ox, dyn_m ops orc fv vs = (t, ox) ->
    exec F pc [op_byte OP_DYNAMIC_CALL; N.of_nat (List.length vs)] pl t (SV fv :: map SV vs) (omap (fun e => [SV e]) ox).
  Proof.
    intros F pc pl fv vs t ox H code pool c2 s _ _. rewrite omap_omap. cbn [rev app]. rewrite <- app_assoc. cbn [app].
    apply instr_dynamic_call. exact H.
  Qed.

  Lemma exec_intrinsic : forall F pc pl o bf vs t ox,
    intrinsic_sem o = Some (bf, List.length vs) -> bsem ops orc bf vs = (t, ox) -> is_fault ox = false ->
    exec F pc [op_byte o] pl t (map SV vs) (omap (fun e => [SV e]) ox).
  Proof.
    intros F pc pl o bf vs t ox Hi H Hnf code pool c2 s _ _. rewrite omap_omap. cbn [rev app].
    eapply instr_intrinsic; eassumption.
  Qed.
End ExecAt.

(* ------------------------------------------------------------------ *)
(* the evaluator: unfolding and inversion *)
Lemma mbind_inv : forall X Y (m : M X) (k : X -> M Y) t o, mbind m k = (t, o) -> is_fault o = false ->
  (exists t1 x t2, m = (t1, OVal x) /\ k x = (t2, o) /\ t = t1 ++ t2) \/
  (exists kf, m = (t, OFail kf) /\ o = OFail kf).
Proof.
  intros X Y [t1 [x|kf|kf]] k t o H Hnf.
  - left. rewrite mbind_val in H. destruct (k x) as [t2 o2] eqn:E. unfold tpre in H. cbn in H. inversion H; subst.
    exists t1, x, t2. auto.
  - right. cbn in H. inversion H; subst. exists kf. auto.
  - cbn in H. inversion H; subst. discriminate.
Qed.

Lemma mmapM_cons : forall X Y (g : X -> M Y) x r,
  mmapM g (x :: r) = mbind (g x) (fun y => mbind (mmapM g r) (fun ys => ret (y :: ys))).
Proof. reflexivity. Qed.

Lemma mmapM_cons_val : forall X Y (g : X -> M Y) x r t1 v t2 o2,
  g x = (t1, OVal v) -> mmapM g r = (t2, o2) -> mmapM g (x :: r) = (t1 ++ t2, omap (cons v) o2).
Proof.
  intros X Y g x r t1 v t2 o2 H1 H2. rewrite mmapM_cons, H1, mbind_val, H2.
  destruct o2 as [ys|k|k]; cbn; rewrite ?app_nil_r; reflexivity.
Qed.

Lemma mmapM_cons_fail : forall X Y (g : X -> M Y) x r t1 k,
  g x = (t1, OFail k) -> mmapM g (x :: r) = (t1, OFail k).
Proof. intros X Y g x r t1 k H1. rewrite mmapM_cons, H1. reflexivity. Qed.

Lemma mmapM_cons_inv : forall X Y (g : X -> M Y) x r t o, mmapM g (x :: r) = (t, o) -> is_fault o = false ->
  (exists t1 v t2 o2, g x = (t1, OVal v) /\ mmapM g r = (t2, o2) /\ t = t1 ++ t2 /\ o = omap (cons v) o2 /\
                      is_fault o2 = false) \/
  (exists k, g x = (t, OFail k) /\ o = OFail k).
Proof.
  intros X Y g x r t o H Hnf. destruct (g x) as [t1 [v|k|k]] eqn:E1.
  - left. destruct (mmapM g r) as [t2 o2] eqn:E2.
    rewrite (mmapM_cons_val _ _ g x r _ _ _ _ E1 E2) in H. inversion H; subst.
    exists t1, v, t2, o2. repeat split; try reflexivity. destruct o2; [reflexivity|reflexivity|discriminate].
  - right. rewrite (mmapM_cons_fail _ _ g x r _ _ E1) in H. inversion H; subst. exists k. auto.
  - rewrite mmapM_cons, E1 in H. cbn in H. inversion H; subst. discriminate.
Qed.

Lemma mmapM_length : forall X Y (g : X -> M Y) l t ys, mmapM g l = (t, OVal ys) -> List.length ys = List.length l.
Proof.
  intros X Y g. induction l as [|x r IH]; intros t ys H.
  - cbn in H. inversion H. reflexivity.
  - destruct (mmapM_cons_inv _ _ g x r t (OVal ys) H eq_refl) as [[t1 [v [t2 [o2 [H1 [H2 [Ht [Ho _]]]]]]]]|[k [_ Hk]]]; [|discriminate].
    destruct o2 as [ys'|?|?]; try discriminate. cbn in Ho. inversion Ho; subst. cbn. f_equal. eapply IH. exact H2.
Qed.

Lemma mmapM_map : forall X Y Z (h : X -> Y) (g : Y -> M Z) l, mmapM (fun x => g (h x)) l = mmapM g (map h l).
Proof.
  intros X Y Z h g. induction l as [|x r IH]; [reflexivity|].
  cbn [map]. rewrite !mmapM_cons, IH. reflexivity.
Qed.

Lemma key_of_cases : forall ops v, (exists kk, key_of ops v = ret kk) \/ key_of ops v = fault XOther.
Proof. intros ops v. destruct v; cbn; try (right; reflexivity); left; eexists; reflexivity. Qed.

Definition flatten (kvs : list (aexpr * aexpr)) : list aexpr := flat_map (fun kv => [fst kv; snd kv]) kvs.

Section EvalSide.
  Variable ops : numops.
  Variable orc : oracles.
  Variable fe : fenv.
  Variable rho : venv.
  Notation eval := (eval ops orc fe rho).

  Definition call_m (f : nat) (sg : fsig) (args : list aexpr) : M val :=
    if s_lazy sg then
      (if sig_is_builtin sg then apply_lazy sg else host_lazy (s_name sg)) (map (fun x (_ : unit) => eval f x) args)
    else let^ vs := mmapM (eval f) args in apply_strict ops orc sg vs.

  Definition eval_entries (f : nat) : list (aexpr * aexpr) -> list (list N * val) -> M (list (list N * val)) :=
    fix go (kvs : list (aexpr * aexpr)) (acc : list (list N * val)) : M (list (list N * val)) :=
      match kvs with
      | [] => ret acc
      | (k, v) :: r =>
          let^ kv := eval f k in let^ kk := key_of ops kv in
          let^ vv := eval f v in go r (kput kk vv acc)
      end.

  Lemma eval_list_eq : forall f t es, eval (S f) (AList t es) =
    match es with [] => ret (VList (TList TBot) []) | _ => let^ vs := mmapM (eval f) es in ret (VList t vs) end.
  Proof. reflexivity. Qed.
  Lemma eval_map_eq : forall f t kvs, eval (S f) (AMap t kvs) =
    match kvs with [] => ret (VMap (TMap TBot TBot) []) | _ => let^ entries := eval_entries f kvs [] in ret (VMap t entries) end.
  Proof. reflexivity. Qed.
  Lemma eval_obj_eq : forall f t fs, eval (S f) (AObj t fs) =
    match fs with [] => ret (VObj (TObj []) []) | _ => let^ vs := mmapM (fun nf => eval f (snd nf)) fs in ret (VObj t vs) end.
  Proof. reflexivity. Qed.
  Lemma eval_ident_eq : forall f c name, eval (S f) (AIdent c name) =
    match assoc name rho with Some v => ret v | None => fault XOther end.
  Proof. reflexivity. Qed.
  Lemma eval_call_eq : forall f col key idx fty callee args, eval (S f) (ACall col key idx fty callee args) =
    if String.eqb key "" then
      (let^ fv := eval f callee in
       match fv with
       | VFun (TFun n ps r) name lz => call_m f (mkSig name ps r lz) args
       | _ => fault XTypeConf
       end)
    else match lookup_fn fe key idx with Some sg => call_m f sg args | None => fault XOther end.
  Proof. reflexivity. Qed.
  Lemma eval_sub_eq : forall f c vty v i, eval (S f) (ASub c vty v i) =
    (let^ x := eval f v in
     match x with
     | VList _ vs => let^ iv := eval f i in list_load_m ops iv vs
     | VMap _ kvs => let^ kv := eval f i in map_load_m ops kv kvs
     | _ => fault XUnreachable
     end).
  Proof. reflexivity. Qed.
  Lemma eval_member_eq : forall f c oty idx o name, eval (S f) (AMember c oty idx o name) =
    (let^ ov := eval f o in member_m ov idx name).
  Proof. reflexivity. Qed.

  Lemma entries_inv : forall f kvs acc t o, eval_entries f kvs acc = (t, o) -> is_fault o = false ->
    (exists vs entries, mmapM (eval f) (flatten kvs) = (t, OVal vs) /\ o = OVal entries /\
                        vm_entries ops vs acc = ret entries /\ List.length vs = (2 * List.length kvs)%nat) \/
    (exists k, o = OFail k /\ mmapM (eval f) (flatten kvs) = (t, OFail k)).
  Proof.
    intros f. induction kvs as [|[k v] r IH]; intros acc t o H Hnf.
    - cbn in H. inversion H; subst. left. exists [], acc. repeat split; reflexivity.
    - cbn [eval_entries] in H. fold (eval_entries f) in H.
      destruct (mbind_inv _ _ _ _ _ _ H Hnf) as [[t1 [kv [t2 [Hk [H2 Ht]]]]]|[kf [Hk Ho]]].
      2:{ right. exists kf. split; [exact Ho|]. cbn [flatten flat_map fst snd app].
          apply mmapM_cons_fail. exact Hk. }
      destruct (key_of_cases ops kv) as [[kk Hkk]|Hkk]; rewrite Hkk in H2.
      2:{ cbn in H2. inversion H2; subst. discriminate. }
      rewrite mbind_ret_l in H2.
      destruct (mbind_inv _ _ _ _ _ _ H2 Hnf) as [[t3 [vv [t4 [Hv [H4 Ht2]]]]]|[kf [Hv Ho]]].
      2:{ right. exists kf. split; [exact Ho|]. cbn [flatten flat_map fst snd app].
          rewrite (mmapM_cons_val _ _ (eval f) k _ _ _ _ _ Hk (mmapM_cons_fail _ _ (eval f) v _ _ _ Hv)).
          subst t. reflexivity. }
      destruct (IH _ _ _ H4 Hnf) as [[vs [entries [Hm [Ho [He Hl]]]]]|[kf [Ho Hm]]].
      + left. exists (kv :: vv :: vs), entries. cbn [flatten flat_map fst snd app]. fold (flatten r).
        repeat split.
        * rewrite (mmapM_cons_val _ _ (eval f) k _ _ _ _ _ Hk (mmapM_cons_val _ _ (eval f) v _ _ _ _ _ Hv Hm)).
          subst. reflexivity.
        * exact Ho.
        * cbn [vm_entries]. fold (vm_entries ops). rewrite Hkk, mbind_ret_l. exact He.
        * cbn [List.length]. rewrite Hl. lia.
      + right. exists kf. split; [exact Ho|]. cbn [flatten flat_map fst snd app]. fold (flatten r).
        rewrite (mmapM_cons_val _ _ (eval f) k _ _ _ _ _ Hk (mmapM_cons_val _ _ (eval f) v _ _ _ _ _ Hv Hm)).
        subst. reflexivity.
  Qed.

  (* ---- the side condition: annotations agree with the values ---- *)
  Definition kind_agrees (vty : ty) (x : val) : Prop :=
    match x with VList _ _ => ty_is_list vty = true | VMap _ _ => ty_is_list vty = false | _ => True end.
  Definition not_lazy_fun (x : val) : Prop := match x with VFun _ _ true => False | _ => True end.

  Fixpoint subs_agree (a : aexpr) : Prop :=
    match a with
    | AStr _ | ANum _ _ | ATime _ | ABool _ | AIdent _ _ => True
    | AList t es =>
        (exists e, t = TList e) /\ (es = [] -> t = TList TBot) /\
        (fix all (l : list aexpr) : Prop := match l with [] => True | x :: r => subs_agree x /\ all r end) es
    | AMap t kvs =>
        (exists k v, t = TMap k v) /\ (kvs = [] -> t = TMap TBot TBot) /\
        (fix all (l : list (aexpr * aexpr)) : Prop :=
           match l with [] => True | (k, v) :: r => subs_agree k /\ subs_agree v /\ all r end) kvs
    | AObj t fs =>
        (exists tfs, t = TObj tfs /\ len tfs = len fs) /\
        (fix all (l : list (string * aexpr)) : Prop :=
           match l with [] => True | (_, v) :: r => subs_agree v /\ all r end) fs
    | ACall _ key _ _ callee args =>
        (fix all (l : list aexpr) : Prop := match l with [] => True | x :: r => subs_agree x /\ all r end) args /\
        (key = "" -> subs_agree callee /\ forall f t x, eval f callee = (t, OVal x) -> not_lazy_fun x)
    | ASub _ vty v i =>
        subs_agree v /\ subs_agree i /\ forall f t x, eval f v = (t, OVal x) -> kind_agrees vty x
    | AMember _ _ _ o _ => subs_agree o
    end.

  Lemma all_list : forall l,
    (fix all (l : list aexpr) : Prop := match l with [] => True | x :: r => subs_agree x /\ all r end) l <->
    Forall subs_agree l.
  Proof.
    induction l as [|x r IH]; split; intros H.
    - constructor. - exact I.
    - destruct H as [H1 H2]. constructor; [exact H1|apply IH; exact H2].
    - inversion H; subst. split; [assumption|apply IH; assumption].
  Qed.
  Lemma all_kvs : forall l,
    (fix all (l : list (aexpr * aexpr)) : Prop :=
       match l with [] => True | (k, v) :: r => subs_agree k /\ subs_agree v /\ all r end) l <->
    Forall subs_agree (flatten l).
  Proof.
    induction l as [|[k v] r IH]; split; intros H.
    - constructor. - exact I.
    - destruct H as [H1 [H2 H3]]. cbn. constructor; [exact H1|]. constructor; [exact H2|]. apply IH. exact H3.
    - cbn in H. inversion H as [|? ? H1 H']; subst. inversion H' as [|? ? H2 H3]; subst.
      split; [assumption|]. split; [assumption|]. apply IH. exact H3.
  Qed.
  Lemma all_fields : forall l,
    (fix all (l : list (string * aexpr)) : Prop :=
       match l with [] => True | (_, v) :: r => subs_agree v /\ all r end) l <->
    Forall subs_agree (map snd l).
  Proof.
    induction l as [|[k v] r IH]; split; intros H.
    - constructor. - exact I.
    - destruct H as [H1 H2]. cbn. constructor; [exact H1|apply IH; exact H2].
    - cbn in H. inversion H; subst. split; [assumption|apply IH; assumption].
  Qed.
End EvalSide.

(* ------------------------------------------------------------------ *)
(* what the intrinsic tables say about a signature *)
Lemma ty_eqb_shape : forall x y, ty_eqb x y = true -> shape x = shape y.
Proof. destruct x, y; intros H; try reflexivity; cbn in H; discriminate H. Qed.

Definition tys_go : list ty -> list ty -> bool :=
  fix go (l1 l2 : list ty) {struct l1} : bool :=
    match l1, l2 with
    | [], [] => true
    | a :: r1, b :: r2 => ty_eqb a b && go r1 r2
    | _, _ => false
    end.

Lemma tys_go_shapes : forall l1 l2, tys_go l1 l2 = true -> shapes l1 = shapes l2 /\ List.length l1 = List.length l2.
Proof.
  induction l1 as [|a r IH]; intros [|b r2] H; cbn in H; try discriminate.
  - split; reflexivity.
  - apply andb_true_iff in H. destruct H as [H1 H2]. destruct (IH _ H2) as [Hs Hl].
    change (shapes (a :: r)) with (shape a ++ shapes r)%string.
    change (shapes (b :: r2)) with (shape b ++ shapes r2)%string.
    cbn [List.length]. rewrite (ty_eqb_shape _ _ H1), Hs, Hl. split; reflexivity.
Qed.

Lemma funty_shapes : forall n ps r n' ps' r', ty_eqb (TFun n ps r) (TFun n' ps' r') = true ->
  shapes ps = shapes ps' /\ List.length ps = List.length ps'.
Proof.
  intros n ps r n' ps' r' H.
  change (tys_go ps ps' && ty_eqb r r' = true) in H. apply andb_true_iff in H. destruct H as [H _].
  apply tys_go_shapes. exact H.
Qed.

Lemma same_fn_inv : forall name ps sg, same_fn name ps sg = true ->
  name = s_name sg /\ shapes ps = shapes (s_params sg) /\ List.length ps = List.length (s_params sg).
Proof.
  intros name ps sg H. unfold same_fn in H. apply andb_true_iff in H. destruct H as [H1 H2].
  apply String.eqb_eq in H1. destruct (funty_shapes _ _ _ _ _ _ H2) as [Hs Hl]. auto.
Qed.

Lemma classify_shapes : forall n ps ps', shapes ps = shapes ps' -> classify n ps = classify n ps'.
Proof. intros n ps ps' H. unfold classify. rewrite H. reflexivity. Qed.

Lemma builtin_row : forall sg, sig_is_builtin sg = true ->
  exists n ps r lz, In (n, ps, r, lz) builtin_sigs /\ n = s_name sg /\ lz = s_lazy sg /\ shapes ps = shapes (s_params sg).
Proof.
  intros sg H. unfold sig_is_builtin in H. apply existsb_exists in H. destruct H as [[[[n ps] r] lz] [Hin H]].
  apply andb_true_iff in H. destruct H as [H H3]. apply andb_true_iff in H. destruct H as [H1 H2].
  apply String.eqb_eq in H1. apply Bool.eqb_prop in H2. destruct (funty_shapes _ _ _ _ _ _ H3) as [Hs _].
  exists n, ps, r, lz. auto.
Qed.

Lemma cbv_rows_strict :
  forallb (fun x => forallb (fun y => let '(n, ps, r, lz) := y in
                                      if String.eqb (fst (fst x)) n && String.eqb (shapes (snd (fst x))) (shapes ps)
                                      then negb lz else true) builtin_sigs) intrinsics_cbv = true.
Proof. vm_compute. reflexivity. Qed.

Lemma cbn_rows_lazy :
  forallb (fun x => forallb (fun y => let '(n, ps, r, lz) := y in
                                      if String.eqb (fst x) n && String.eqb (shapes (snd x)) (shapes ps)
                                      then Bool.eqb lz (match classify (fst x) (snd x) with
                                                        | Some b => is_lazy_builtin b | None => false end)
                                      else true) builtin_sigs) intrinsics_cbn = true.
Proof. vm_compute. reflexivity. Qed.

Section Intrinsics.
  Variable ops : numops.
  Variable orc : oracles.

  Lemma cbv_info : forall sg o, intrinsic_cbv sg = Some o ->
    sig_is_builtin sg = true /\ s_lazy sg = false /\
    exists bf, classify (s_name sg) (s_params sg) = Some bf /\ intrinsic_sem o = Some (bf, List.length (s_params sg)).
  Proof.
    intros sg o H. unfold intrinsic_cbv in H. destruct (sig_is_builtin sg) eqn:Hb; [|discriminate].
    destruct (find (fun x => same_fn (fst (fst x)) (snd (fst x)) sg) intrinsics_cbv) as [[[name ps] opn]|] eqn:Hf;
      [|discriminate].
    apply find_some in Hf. destruct Hf as [Hin Hs]. cbn [fst snd] in *.
    destruct (same_fn_inv _ _ _ Hs) as [Hn [Hsh Hl]].
    split; [reflexivity|]. split.
    - destruct (builtin_row sg Hb) as [n' [ps' [r' [lz [Hin' [Hn' [Hlz Hsh']]]]]]].
      pose proof cbv_rows_strict as Hc. rewrite forallb_forall in Hc. specialize (Hc _ Hin).
      rewrite forallb_forall in Hc. specialize (Hc _ Hin'). cbn [fst snd] in Hc.
      rewrite Hn, Hn', String.eqb_refl, Hsh, Hsh', String.eqb_refl in Hc. cbn in Hc.
      rewrite <- Hlz. destruct lz; [discriminate|reflexivity].
    - destruct intrinsics_agree as [Ha _]. rewrite forallb_forall in Ha. specialize (Ha _ Hin). cbn beta iota in Ha.
      rewrite H in Ha. destruct (classify name ps) as [b|] eqn:Hc; [|discriminate].
      destruct (intrinsic_sem o) as [[b' k]|]; [|discriminate].
      apply andb_true_iff in Ha. destruct Ha as [Hb1 Hk]. apply internal_bfun_dec_bl in Hb1. apply Nat.eqb_eq in Hk.
      subst b' k. exists b. split.
      + rewrite <- Hn, <- (classify_shapes name ps _ Hsh). exact Hc.
      + rewrite Hl. reflexivity.
  Qed.

  Lemma cbn_info : forall sg b, intrinsic_cbn sg = Some b ->
    sig_is_builtin sg = true /\ classify (s_name sg) (s_params sg) = Some b /\
    (b = BIf \/ b = BAnd \/ b = BOr \/ b = BNot) /\ s_lazy sg = is_lazy_builtin b.
  Proof.
    intros sg b H. unfold intrinsic_cbn in H.
    destruct (sig_is_builtin sg) eqn:Hb; [|discriminate]. cbn [andb] in H.
    destruct (existsb (fun x => same_fn (fst x) (snd x) sg) intrinsics_cbn) eqn:He; [|discriminate].
    apply existsb_exists in He. destruct He as [[name ps] [Hin Hs]]. cbn [fst snd] in Hs.
    destruct (same_fn_inv _ _ _ Hs) as [Hn [Hsh Hl]].
    split; [reflexivity|]. split; [exact H|].
    assert (Hc : classify name ps = Some b).
    { rewrite Hn, (classify_shapes _ ps _ Hsh). exact H. }
    split.
    - destruct intrinsics_agree as [_ Ha]. rewrite forallb_forall in Ha. specialize (Ha _ Hin). cbn [fst snd] in Ha.
      rewrite Hc in Ha. destruct b; try discriminate; auto.
    - destruct (builtin_row sg Hb) as [n' [ps' [r' [lz [Hin' [Hn' [Hlz Hsh']]]]]]].
      pose proof cbn_rows_lazy as Hr. rewrite forallb_forall in Hr. specialize (Hr _ Hin).
      rewrite forallb_forall in Hr. specialize (Hr _ Hin'). cbn [fst snd] in Hr.
      rewrite Hc, Hn, Hn', String.eqb_refl, Hsh, Hsh', String.eqb_refl in Hr. cbn [andb] in Hr.
      apply Bool.eqb_prop in Hr. rewrite <- Hlz. exact Hr.
  Qed.

  Lemma bsem_arity : forall o bf k vs t ox, intrinsic_sem o = Some (bf, k) ->
    bsem ops orc bf vs = (t, ox) -> is_fault ox = false -> List.length vs = k.
  Proof.
    intros o bf k vs t ox Hi H Hnf.
    destruct o; cbn in Hi; inversion Hi; subst bf k; clear Hi;
      destruct vs as [|a [|b [|c r]]]; try reflexivity; exfalso;
      cbn in H; try (inversion H; subst; discriminate Hnf);
      repeat match type of H with
             | context [match ?x with _ => _ end] => destruct x; try (inversion H; subst; discriminate Hnf)
             end.
  Qed.
End Intrinsics.

(* ------------------------------------------------------------------ *)
(* the main induction *)
Lemma ext_pc : forall a b f p, ext a b f p -> N.to_nat (cs_clen b) = (N.to_nat (cs_clen a) + List.length f)%nat.
Proof. intros a b f p [_ [A2 _]]. rewrite A2. lia. Qed.

Lemma is_fault_omap : forall X Y (k : X -> Y) o, is_fault (omap k o) = is_fault o.
Proof. intros X Y k [x|f|f]; reflexivity. Qed.

Ltac lens H := repeat first [ rewrite app_length in H | rewrite b16_len in H | progress (cbn [List.length] in H) ].

Section Main.
  Variable ops : numops.
  Variable orc : oracles.
  Variable fe : fenv.
  Variable rho : venv.
  Notation eval := (eval ops orc fe rho).
  Notation compile := (compile ops orc fe).
  Notation exec := (exec ops orc rho).
  Notation sagree := (subs_agree ops orc fe rho).
  Notation pc st := (N.to_nat (cs_clen st)).

  Definition Pstmt (f : nat) (a : aexpr) : Prop :=
    forall st st' frag pf t o, sagree a -> wf st -> compile a st = COk st' -> ext st st' frag pf ->
      eval f a = (t, o) -> is_fault o = false ->
      eventually (fun F => exec F (pc st) frag (pool_of st') t [] (omap (fun v => [SV v]) o)).

  (* running a complete code object: the fragment followed by RETURN *)
  Lemma exec_run : forall F frag pl pool t o,
    exec F 0 frag pl t [] (omap (fun v => [SV v]) o) -> pool_ext pl pool -> is_fault o = false ->
    vm_run ops orc rho pool None (S F) (frag ++ [op_byte OP_RETURN]) = (t, o).
  Proof.
    intros F frag pl pool t o He Hp Hnf. rewrite vm_run_S.
    specialize (He (frag ++ [op_byte OP_RETURN]) pool [op_byte OP_RETURN] [] eq_refl Hp).
    set (g := (4 * S (len (frag ++ [op_byte OP_RETURN])))%nat).
    assert (Hg : (List.length frag + 1 <= g)%nat).
    { unfold g, len. rewrite app_length. cbn [List.length]. lia. }
    specialize (He g ltac:(lia)). cbn [rev app] in He. destruct o as [v|k|k]; cbn [omap] in He.
    - destruct He as [g' [Hg' E]]. rewrite E. cbn [rev app].
      destruct g' as [|g']; [lia|]. rewrite instr_return. unfold tpre, ret. cbn. rewrite app_nil_r. reflexivity.
    - exact He.
    - discriminate.
  Qed.

  Lemma all_ext : forall l, Forall (ext_prop ops orc fe) l.
  Proof. induction l; constructor; [apply compile_ext|assumption]. Qed.

  Lemma comp_kvs_flat : forall kvs st, comp_kvs ops orc fe kvs st = comp_list ops orc fe (flatten kvs) st.
  Proof.
    induction kvs as [|[k v] r IH]; intros st; [reflexivity|].
    cbn [comp_kvs flatten flat_map fst snd app comp_list]. fold (flatten r).
    destruct (compile k st) as [s1| |]; try reflexivity. cbn [cbind].
    destruct (compile v s1) as [s2| |]; try reflexivity. cbn [cbind]. apply IH.
  Qed.

  Lemma comp_fields_map : forall fs st, comp_fields ops orc fe fs st = comp_list ops orc fe (map snd fs) st.
  Proof.
    induction fs as [|[n v] r IH]; intros st; [reflexivity|].
    cbn [comp_fields map snd comp_list]. destruct (compile v st) as [s1| |]; try reflexivity. cbn [cbind]. apply IH.
  Qed.

  Lemma leaf_const : forall F st st' frag pf v, wf st ->
    emit_const (CVal v) (emit_op OP_CONST st) = COk st' -> ext st st' frag pf ->
    exec F (pc st) frag (pool_of st') [] [] (OVal [SV v]).
  Proof.
    intros F st st' frag pf v W H E. apply const_instr_ext in H. destruct H as [E' _].
    destruct (ext_inj _ _ _ _ _ _ E E') as [Hf Hp]. subst frag pf.
    apply exec_const. apply (pool_new_nth _ _ _ _ W E).
  Qed.

  Section Step.
    Variable f : nat.
    Hypothesis IH : forall a, Pstmt f a.

    Lemma list_case : forall es st st' frag pf t o, Forall sagree es -> wf st ->
      comp_list ops orc fe es st = COk st' -> ext st st' frag pf ->
      mmapM (eval f) es = (t, o) -> is_fault o = false ->
      eventually (fun F => exec F (pc st) frag (pool_of st') t [] (omap (map SV) o)).
    Proof.
      induction es as [|x r IHr]; intros st st' frag pf t o Hs W Hc E Hm Hnf.
      - cbn in Hc. inversion Hc; subst st'. destruct (ext_inj _ _ _ _ _ _ E (ext_refl st)) as [Hf _]. subst frag.
        cbn in Hm. inversion Hm; subst. apply ev_all. intros F. apply exec_nil.
      - inversion Hs as [|? ? Hx Hr]; subst. cbn [comp_list] in Hc. cinv Hc. rename st0 into st1.
        destruct (compile_ext ops orc fe x _ _ W Hc0) as [f1 [p1 E1]]. pose proof (ext_wf _ _ _ _ W E1) as W1.
        destruct (comp_list_ext ops orc fe r (all_ext r) _ _ W1 Hc)
          as [f2 [p2 E2]].
        destruct (ext_inj _ _ _ _ _ _ E (ext_trans _ _ _ _ _ _ _ E1 E2)) as [Hf Hp]. subst frag pf.
        destruct (mmapM_cons_inv _ _ _ _ _ _ _ Hm Hnf) as [[t1 [v [t2 [o2 [H1 [H2 [Ht [Ho Hnf2]]]]]]]]|[k [H1 Ho]]].
        + subst t o.
          pose proof (IH x _ _ _ _ _ _ Hx W Hc0 E1 H1 eq_refl) as Ex.
          pose proof (IHr _ _ _ _ _ _ Hr W1 Hc E2 H2 Hnf2) as Er.
          refine (ev_mono _ _ _ (ev_and _ _ Ex Er)). intros F [HA HB]. cbv beta in HA, HB.
          rewrite (ext_pc _ _ _ _ E1) in HB.
          assert (HA' := exec_pool _ _ _ _ _ _ _ _ _ _ _ (ext_pool_ext _ _ _ _ E2) HA).
          cbn [omap] in HA'.
          assert (HC : exec F (pc st) (f1 ++ f2) (pool_of st') (t1 ++ t2) [] (omap (app [SV v]) (omap (map SV) o2)))
            by (eapply exec_push; [exact HA'|exact HB]).
          rewrite omap_omap in HC. rewrite omap_omap. exact HC.
        + subst o. pose proof (IH x _ _ _ _ _ _ Hx W Hc0 E1 H1 eq_refl) as Ex.
          refine (ev_mono _ _ _ Ex). intros F HA. cbn [omap] in *.
          apply exec_seq_fail. apply (exec_pool _ _ _ _ _ _ _ _ _ _ _ (ext_pool_ext _ _ _ _ E2) HA).
    Qed.

    Lemma case_str : forall v, Pstmt (S f) (AStr v).
    Proof.
      intros v st st' frag pf t o _ W Hc E He _. cbn [VM.compile] in Hc. cbn in He. inversion He; subst.
      apply ev_all. intros F. cbn [omap]. eapply leaf_const; eassumption.
    Qed.
    Lemma case_num : forall tx n, Pstmt (S f) (ANum tx n).
    Proof.
      intros tx n st st' frag pf t o _ W Hc E He _. cbn [VM.compile] in Hc. cbn [Eval.eval] in He. inversion He; subst.
      apply ev_all. intros F. cbn [omap]. eapply leaf_const; eassumption.
    Qed.
    Lemma case_time : forall tx, Pstmt (S f) (ATime tx).
    Proof.
      intros tx st st' frag pf t o _ W Hc E He _. cbn [VM.compile] in Hc. cbn [Eval.eval] in He. inversion He; subst.
      apply ev_all. intros F. cbn [omap]. eapply leaf_const; eassumption.
    Qed.
    Lemma case_bool : forall b, Pstmt (S f) (ABool b).
    Proof.
      intros b st st' frag pf t o _ W Hc E He _. cbn [VM.compile] in Hc. cbn [Eval.eval] in He. inversion He; subst.
      apply ev_all. intros F. cbn [omap]. eapply leaf_const; eassumption.
    Qed.

    Lemma case_ident : forall c name, Pstmt (S f) (AIdent c name).
    Proof.
      intros c name st st' frag pf t o _ W Hc E He Hnf. cbn [VM.compile] in Hc. rewrite eval_ident_eq in He.
      destruct (assoc name rho) as [v|] eqn:Ha; inversion He; subst; [|discriminate].
      apply const_instr_ext in Hc. destruct Hc as [E' _].
      destruct (ext_inj _ _ _ _ _ _ E E') as [Hf Hp]. subst frag pf.
      apply ev_all. intros F. cbn [omap]. eapply exec_load; [|exact Ha]. apply (pool_new_nth _ _ _ _ W E).
    Qed.

    Lemma case_list : forall ty es, Pstmt (S f) (AList ty es).
    Proof.
      intros ty es st st' frag pf t o Hs W Hc E He Hnf.
      cbn [subs_agree] in Hs. destruct Hs as [[e Hty] [Hnil Hall]]. apply all_list in Hall.
      rewrite compile_list_eq in Hc. cinv Hc. rename st0 into st1. cinv Hc. rename st0 into st2.
      destruct (comp_list_ext ops orc fe es (all_ext es) _ _ W Hc0) as [f1 [p1 E1]].
      pose proof (ext_wf _ _ _ _ W E1) as W1.
      apply const_instr_ext in Hc1. destruct Hc1 as [E2 _]. apply emit16_ext in Hc. destruct Hc as [E3 _].
      pose proof (ext_trans _ _ _ _ _ _ _ E1 (ext_trans _ _ _ _ _ _ _ E2 E3)) as E'.
      destruct (ext_inj _ _ _ _ _ _ E E') as [Hf Hp]. subst frag pf.
      assert (He' : mbind (mmapM (eval f) es) (fun vs => ret (VList ty vs)) = (t, o)).
      { rewrite eval_list_eq in He. destruct es; [|exact He]. rewrite (Hnil eq_refl). exact He. }
      assert (Hidx : nth_error (pool_of st') (N.to_nat (cs_plen st1)) = Some (CType (TList e))).
      { rewrite <- Hty. eapply pool_ext_nth; [exact (ext_pool_ext _ _ _ _ E3)|]. apply (pool_new_nth _ _ _ _ W1 E2). }
      destruct (mbind_inv _ _ _ _ _ _ He' Hnf) as [[t1 [vs [t2 [Hm [Hr Ht]]]]]|[kf [Hm Ho]]].
      - inversion Hr; subst t2 o. rewrite app_nil_r in Ht. subst t1.
        pose proof (list_case _ _ _ _ _ _ _ Hall W Hc0 E1 Hm eq_refl) as Ex.
        refine (ev_mono _ _ _ Ex). intros F HA. cbn [omap] in *.
        rewrite <- (app_nil_r t).
        eapply exec_seq.
        + eapply exec_pool; [|exact HA]. eapply pool_ext_trans; [exact (ext_pool_ext _ _ _ _ E2)|exact (ext_pool_ext _ _ _ _ E3)].
        + rewrite Hty. unfold len. rewrite <- (mmapM_length _ _ _ _ _ _ Hm). cbn [app].
          apply exec_new_list. exact Hidx.
      - subst o. pose proof (list_case _ _ _ _ _ _ _ Hall W Hc0 E1 Hm eq_refl) as Ex.
        refine (ev_mono _ _ _ Ex). intros F HA. cbn [omap] in *.
        apply exec_seq_fail.
        eapply exec_pool; [|exact HA]. eapply pool_ext_trans; [exact (ext_pool_ext _ _ _ _ E2)|exact (ext_pool_ext _ _ _ _ E3)].
    Qed.

    Lemma case_map : forall ty kvs, Pstmt (S f) (AMap ty kvs).
    Proof.
      intros ty kvs st st' frag pf t o Hs W Hc E He Hnf.
      cbn [subs_agree] in Hs. destruct Hs as [[kt [vt Hty]] [Hnil Hall]]. apply all_kvs in Hall.
      rewrite compile_map_eq in Hc. cinv Hc. rename st0 into st1. cinv Hc. rename st0 into st2.
      rewrite comp_kvs_flat in Hc0.
      destruct (comp_list_ext ops orc fe _ (all_ext (flatten kvs)) _ _ W Hc0) as [f1 [p1 E1]].
      pose proof (ext_wf _ _ _ _ W E1) as W1.
      apply const_instr_ext in Hc1. destruct Hc1 as [E2 _]. apply emit16_ext in Hc. destruct Hc as [E3 _].
      pose proof (ext_trans _ _ _ _ _ _ _ E1 (ext_trans _ _ _ _ _ _ _ E2 E3)) as E'.
      destruct (ext_inj _ _ _ _ _ _ E E') as [Hf Hp]. subst frag pf.
      assert (He' : mbind (eval_entries ops orc fe rho f kvs []) (fun en => ret (VMap ty en)) = (t, o)).
      { rewrite eval_map_eq in He. destruct kvs; [|exact He]. rewrite (Hnil eq_refl). exact He. }
      assert (Hidx : nth_error (pool_of st') (N.to_nat (cs_plen st1)) = Some (CType (TMap kt vt))).
      { rewrite <- Hty. eapply pool_ext_nth; [exact (ext_pool_ext _ _ _ _ E3)|]. apply (pool_new_nth _ _ _ _ W1 E2). }
      assert (Hpool : pool_ext (pool_of st1) (pool_of st')).
      { eapply pool_ext_trans; [exact (ext_pool_ext _ _ _ _ E2)|exact (ext_pool_ext _ _ _ _ E3)]. }
      destruct (mbind_inv _ _ _ _ _ _ He' Hnf) as [[t1 [en [t2 [Hm [Hr Ht]]]]]|[kf [Hm Ho]]].
      - inversion Hr; subst t2 o. rewrite app_nil_r in Ht. subst t1.
        destruct (entries_inv ops orc fe rho f kvs [] t (OVal en) Hm eq_refl)
          as [[vs [en' [Hmm [Ho [Hve Hl]]]]]|[kf [Ho _]]]; [|discriminate].
        inversion Ho; subst en'.
        pose proof (list_case _ _ _ _ _ _ _ Hall W Hc0 E1 Hmm eq_refl) as Ex.
        refine (ev_mono _ _ _ Ex). intros F HA. cbn [omap] in *.
        rewrite <- (app_nil_r t).
        eapply exec_seq.
        + eapply exec_pool; [exact Hpool|exact HA].
        + rewrite Hty. cbn [app]. unfold len. eapply exec_new_map; eassumption.
      - subst o.
        destruct (entries_inv ops orc fe rho f kvs [] t (OFail kf) Hm eq_refl)
          as [[vs [en' [Hmm [Ho _]]]]|[kf' [Ho Hmm]]]; [discriminate|].
        inversion Ho; subst kf'.
        pose proof (list_case _ _ _ _ _ _ _ Hall W Hc0 E1 Hmm eq_refl) as Ex.
        refine (ev_mono _ _ _ Ex). intros F HA. cbn [omap] in *.
        apply exec_seq_fail. eapply exec_pool; [exact Hpool|exact HA].
    Qed.

    Lemma case_obj : forall ty fs, Pstmt (S f) (AObj ty fs).
    Proof.
      intros ty fs st st' frag pf t o Hs W Hc E He Hnf.
      cbn [subs_agree] in Hs. destruct Hs as [[tfs [Hty Hlen]] Hall]. apply all_fields in Hall.
      rewrite compile_obj_eq in Hc. cinv Hc. rename st0 into st1.
      rewrite comp_fields_map in Hc0.
      destruct (comp_list_ext ops orc fe _ (all_ext (map snd fs)) _ _ W Hc0) as [f1 [p1 E1]].
      pose proof (ext_wf _ _ _ _ W E1) as W1.
      apply const_instr_ext in Hc. destruct Hc as [E2 _].
      pose proof (ext_trans _ _ _ _ _ _ _ E1 E2) as E'.
      destruct (ext_inj _ _ _ _ _ _ E E') as [Hf Hp]. subst frag pf.
      assert (He' : mbind (mmapM (eval f) (map snd fs)) (fun vs => ret (VObj ty vs)) = (t, o)).
      { rewrite eval_obj_eq in He. rewrite <- mmapM_map. destruct fs; [|exact He].
        destruct tfs; [|discriminate Hlen]. subst ty. exact He. }
      assert (Hidx : nth_error (pool_of st') (N.to_nat (cs_plen st1)) = Some (CType (TObj tfs))).
      { rewrite <- Hty. apply (pool_new_nth _ _ _ _ W1 E2). }
      destruct (mbind_inv _ _ _ _ _ _ He' Hnf) as [[t1 [vs [t2 [Hm [Hr Ht]]]]]|[kf [Hm Ho]]].
      - inversion Hr; subst t2 o. rewrite app_nil_r in Ht. subst t1.
        pose proof (list_case _ _ _ _ _ _ _ Hall W Hc0 E1 Hm eq_refl) as Ex.
        refine (ev_mono _ _ _ Ex). intros F HA. cbn [omap] in *.
        rewrite <- (app_nil_r t).
        eapply exec_seq.
        + eapply exec_pool; [exact (ext_pool_ext _ _ _ _ E2)|exact HA].
        + rewrite Hty. apply exec_new_obj; [exact Hidx|].
          rewrite Hlen. unfold len. rewrite (mmapM_length _ _ _ _ _ _ Hm), map_length. reflexivity.
      - subst o. pose proof (list_case _ _ _ _ _ _ _ Hall W Hc0 E1 Hm eq_refl) as Ex.
        refine (ev_mono _ _ _ Ex). intros F HA. cbn [omap] in *.
        apply exec_seq_fail. eapply exec_pool; [exact (ext_pool_ext _ _ _ _ E2)|exact HA].
    Qed.

    Lemma case_sub : forall c vty v i, Pstmt (S f) (ASub c vty v i).
    Proof.
      intros c vty v i st st' frag pf t o Hs W Hc E He Hnf.
      cbn [subs_agree] in Hs. destruct Hs as [Hv [Hi Hk]].
      rewrite compile_sub_eq in Hc. cinv Hc. rename st0 into st1. cinv Hc. rename st0 into st2.
      destruct (compile_ext ops orc fe v _ _ W Hc0) as [f1 [p1 E1]]. pose proof (ext_wf _ _ _ _ W E1) as W1.
      destruct (compile_ext ops orc fe i _ _ W1 Hc1) as [f2 [p2 E2]]. pose proof (ext_wf _ _ _ _ W1 E2) as W2.
      assert (Hop : exists op, st' = emit_op op st2 /\
                     ((ty_is_list vty = true /\ op = OP_LIST_LOAD) \/ (ty_is_list vty = false /\ op = OP_MAP_LOAD))).
      { destruct (ty_is_list vty); [|destruct (ty_is_map vty); [|discriminate]]; inversion Hc; subst;
          eexists; split; try reflexivity; auto. }
      destruct Hop as [op [Hst' Hop]]. subst st'. clear Hc.
      pose proof (ext_emit_op op st2) as E3.
      pose proof (ext_trans _ _ _ _ _ _ _ E1 (ext_trans _ _ _ _ _ _ _ E2 E3)) as E'.
      destruct (ext_inj _ _ _ _ _ _ E E') as [Hf Hp]. subst frag pf.
      assert (Hp1 : pool_ext (pool_of st1) (pool_of (emit_op op st2))).
      { eapply pool_ext_trans; [exact (ext_pool_ext _ _ _ _ E2)|exact (ext_pool_ext _ _ _ _ E3)]. }
      assert (Hp2 : pool_ext (pool_of st2) (pool_of (emit_op op st2))) by exact (ext_pool_ext _ _ _ _ E3).
      rewrite eval_sub_eq in He.
      destruct (mbind_inv _ _ _ _ _ _ He Hnf) as [[t1 [x [t2 [Hev [Hr Ht]]]]]|[kf [Hev Ho]]].
      2:{ subst o. pose proof (IH v _ _ _ _ _ _ Hv W Hc0 E1 Hev eq_refl) as Ex.
          refine (ev_mono _ _ _ Ex). intros F HA. cbn [omap] in *.
          apply exec_seq_fail. eapply exec_pool; [exact Hp1|exact HA]. }
      pose proof (Hk _ _ _ Hev) as Hkind.
      pose proof (IH v _ _ _ _ _ _ Hv W Hc0 E1 Hev eq_refl) as Ex.
      assert (Hgen : forall (m : val -> M val) (pre : val -> list sval),
                (forall F iv tm om, m iv = (tm, om) ->
                   exec F (pc st + List.length (f1 ++ f2)) [op_byte op] (pool_of (emit_op op st2)) tm
                        [SV x; SV iv] (omap (fun e => [SV e]) om)) ->
                mbind (eval f i) m = (t2, o) ->
                eventually (fun F => exec F (pc st) (f1 ++ f2 ++ [op_byte op]) (pool_of (emit_op op st2)) t []
                                          (omap (fun v0 => [SV v0]) o))).
      { intros m pre Hm Hr'.
        destruct (mbind_inv _ _ _ _ _ _ Hr' Hnf) as [[t3 [iv [t4 [Hei [Hl Ht2]]]]]|[kf [Hei Ho]]].
        - pose proof (IH i _ _ _ _ _ _ Hi W1 Hc1 E2 Hei eq_refl) as Ei.
          refine (ev_mono _ _ _ (ev_and _ _ Ex Ei)). intros F [HA HB]. cbv beta in HA, HB. cbn [omap] in HA, HB.
          rewrite (ext_pc _ _ _ _ E1) in HB.
          subst t t2. rewrite !app_assoc.
          eapply exec_seq.
          + assert (HC : exec F (pc st) (f1 ++ f2) (pool_of (emit_op op st2)) (t1 ++ t3) [] (omap (app [SV x]) (OVal [SV iv]))).
            { eapply exec_push; [eapply exec_pool; [exact Hp1|exact HA]|eapply exec_pool; [exact Hp2|exact HB]]. }
            exact HC.
          + apply Hm. exact Hl.
        - subst o. pose proof (IH i _ _ _ _ _ _ Hi W1 Hc1 E2 Hei eq_refl) as Ei.
          refine (ev_mono _ _ _ (ev_and _ _ Ex Ei)). intros F [HA HB]. cbv beta in HA, HB. cbn [omap] in HA, HB.
          rewrite (ext_pc _ _ _ _ E1) in HB. subst t. rewrite (app_assoc f1 f2). cbn [omap].
          apply exec_seq_fail.
          assert (HC : exec F (pc st) (f1 ++ f2) (pool_of (emit_op op st2)) (t1 ++ t2) [] (omap (app [SV x]) (OFail kf))).
          { eapply exec_push; [eapply exec_pool; [exact Hp1|exact HA]|eapply exec_pool; [exact Hp2|exact HB]]. }
          exact HC. }
      destruct x; try (inversion Hr; subst; discriminate).
      - cbn [kind_agrees] in Hkind. destruct Hop as [[_ Hop]|[Hop _]]; [|rewrite Hop in Hkind; discriminate]. subst op.
        apply (Hgen (fun iv => list_load_m ops iv vs) (fun _ => [])); [|exact Hr].
        intros F iv tm om Hl. apply exec_list_load. exact Hl.
      - cbn [kind_agrees] in Hkind. destruct Hop as [[Hop _]|[_ Hop]]; [rewrite Hop in Hkind; discriminate|]. subst op.
        apply (Hgen (fun kv => map_load_m ops kv kvs) (fun _ => [])); [|exact Hr].
        intros F kv tm om Hl. apply exec_map_load. exact Hl.
    Qed.

    Lemma case_member : forall c oty idx ob name, Pstmt (S f) (AMember c oty idx ob name).
    Proof.
      intros c oty idx ob name st st' frag pf t o Hs W Hc E He Hnf.
      cbn [subs_agree] in Hs.
      rewrite compile_member_eq in Hc. cinv Hc. rename st0 into st1. cinv Hc. rename st0 into st2.
      destruct (compile_ext ops orc fe ob _ _ W Hc0) as [f1 [p1 E1]]. pose proof (ext_wf _ _ _ _ W E1) as W1.
      apply emit16_ext in Hc1. destruct Hc1 as [E2b _].
      pose proof (ext_trans _ _ _ _ _ _ _ (ext_emit_op OP_OBJ_LOAD st1) E2b) as E2. cbn [app] in E2.
      pose proof (ext_wf _ _ _ _ W1 E2) as W2.
      apply emit_const_ext in Hc. destruct Hc as [E3 _].
      pose proof (ext_trans _ _ _ _ _ _ _ E1 (ext_trans _ _ _ _ _ _ _ E2 E3)) as E'.
      destruct (ext_inj _ _ _ _ _ _ E E') as [Hf Hp]. subst frag pf.
      assert (Hidx : nth_error (pool_of st') (N.to_nat (cs_plen st2)) = Some (CName name))
        by apply (pool_new_nth _ _ _ _ W2 E3).
      assert (Hp1 : pool_ext (pool_of st1) (pool_of st')).
      { eapply pool_ext_trans; [exact (ext_pool_ext _ _ _ _ E2)|exact (ext_pool_ext _ _ _ _ E3)]. }
      rewrite eval_member_eq in He.
      destruct (mbind_inv _ _ _ _ _ _ He Hnf) as [[t1 [ov [t2 [Hev [Hr Ht]]]]]|[kf [Hev Ho]]].
      - pose proof (IH ob _ _ _ _ _ _ Hs W Hc0 E1 Hev eq_refl) as Ex.
        refine (ev_mono _ _ _ Ex). intros F HA. cbn [omap] in HA. subst t.
        eapply exec_seq; [eapply exec_pool; [exact Hp1|exact HA]|].
        cbn [app]. eapply exec_obj_load; eassumption.
      - subst o. pose proof (IH ob _ _ _ _ _ _ Hs W Hc0 E1 Hev eq_refl) as Ex.
        refine (ev_mono _ _ _ Ex). intros F HA. cbn [omap] in *.
        apply exec_seq_fail. eapply exec_pool; [exact Hp1|exact HA].
    Qed.

    (* strict arguments followed by an instruction sequence consuming them *)
    Lemma strict_call : forall args st st1 st' f1 p1 tail ptail (m : list val -> M val) t o,
      Forall sagree args -> wf st -> comp_list ops orc fe args st = COk st1 -> ext st st1 f1 p1 ->
      ext st1 st' tail ptail ->
      (forall F vs tm om, List.length vs = List.length args -> m vs = (tm, om) -> is_fault om = false ->
         exec F (pc st1) tail (pool_of st') tm (map SV vs) (omap (fun e => [SV e]) om)) ->
      mbind (mmapM (eval f) args) m = (t, o) -> is_fault o = false ->
      eventually (fun F => exec F (pc st) (f1 ++ tail) (pool_of st') t [] (omap (fun v => [SV v]) o)).
    Proof.
      intros args st st1 st' f1 p1 tail ptail m t o Hall W Hc E1 E2 Hm He Hnf.
      destruct (mbind_inv _ _ _ _ _ _ He Hnf) as [[t1 [vs [t2 [Hmm [Hr Ht]]]]]|[kf [Hmm Ho]]].
      - pose proof (list_case _ _ _ _ _ _ _ Hall W Hc E1 Hmm eq_refl) as Ex.
        refine (ev_mono _ _ _ Ex). intros F HA. cbn [omap] in HA. subst t.
        eapply exec_seq; [eapply exec_pool; [exact (ext_pool_ext _ _ _ _ E2)|exact HA]|].
        rewrite <- (ext_pc _ _ _ _ E1). apply Hm; [|exact Hr|exact Hnf].
        apply (mmapM_length _ _ _ _ _ _ Hmm).
      - subst o. pose proof (list_case _ _ _ _ _ _ _ Hall W Hc E1 Hmm eq_refl) as Ex.
        refine (ev_mono _ _ _ Ex). intros F HA. cbn [omap] in *.
        apply exec_seq_fail. eapply exec_pool; [exact (ext_pool_ext _ _ _ _ E2)|exact HA].
    Qed.

    Lemma comp_args_strict : forall sg args i st, s_lazy sg = false ->
      comp_args ops orc fe sg args i st = comp_list ops orc fe args st.
    Proof.
      intros sg args i st Hl. revert i st. induction args as [|x r IHr]; intros i st; [reflexivity|].
      cbn [comp_args comp_list]. rewrite Hl. destruct (compile x st) as [s1| |]; try reflexivity. cbn [cbind]. apply IHr.
    Qed.

    Lemma call_strict_eq : forall sg args, s_lazy sg = false ->
      call_m ops orc fe rho f sg args = mbind (mmapM (eval f) args) (fun vs => apply_strict ops orc sg vs).
    Proof. intros sg args Hl. unfold call_m. rewrite Hl. reflexivity. Qed.

    (* a static call of a strict function: intrinsic opcode or CALL_BY_VALUE *)
    Lemma case_call_strict : forall sg args st st' frag pf t o,
      Forall sagree args -> wf st -> s_lazy sg = false ->
      (let+ st1 := comp_args ops orc fe sg args O st in
       match intrinsic_cbv sg with
       | Some o => COk (emit_op o st1)
       | None =>
           let o := if s_lazy sg then OP_CALL_BY_NEED else OP_CALL_BY_VALUE in
           let+ st2 := emit_const (CFun sg) (emit_op o st1) in
           emit8 (N.of_nat (len args)) st2
       end) = COk st' ->
      ext st st' frag pf -> call_m ops orc fe rho f sg args = (t, o) -> is_fault o = false ->
      eventually (fun F => exec F (pc st) frag (pool_of st') t [] (omap (fun v => [SV v]) o)).
    Proof.
      intros sg args st st' frag pf t o Hall W Hl Hc E He Hnf.
      rewrite (call_strict_eq _ _ Hl) in He. cinv Hc. rename st0 into st1.
      rewrite (comp_args_strict _ _ _ _ Hl) in Hc0.
      destruct (comp_list_ext ops orc fe _ (all_ext args) _ _ W Hc0) as [f1 [p1 E1]].
      pose proof (ext_wf _ _ _ _ W E1) as W1.
      destruct (intrinsic_cbv sg) as [op|] eqn:Hcbv.
      - inversion Hc; subst st'. pose proof (ext_emit_op op st1) as E2.
        destruct (ext_inj _ _ _ _ _ _ E (ext_trans _ _ _ _ _ _ _ E1 E2)) as [Hf Hp]. subst frag pf.
        destruct (cbv_info sg op Hcbv) as [Hb [_ [bf [Hcl Hsem]]]].
        eapply strict_call; try eassumption.
        intros F vs tm om Hlen Hm Hnf'. unfold apply_strict in Hm. rewrite Hb, Hcl in Hm.
        pose proof (bsem_arity ops orc _ _ _ _ _ _ Hsem Hm Hnf') as Har.
        rewrite <- Har in Hsem. eapply exec_intrinsic; eassumption.
      - rewrite Hl in Hc. cbv zeta in Hc. cinv Hc. rename st0 into st2.
        apply const_instr_ext in Hc1. destruct Hc1 as [E2 _]. apply emit8_ext in Hc. destruct Hc as [E3 _].
        pose proof (ext_trans _ _ _ _ _ _ _ E2 E3) as E23.
        destruct (ext_inj _ _ _ _ _ _ E (ext_trans _ _ _ _ _ _ _ E1 E23)) as [Hf Hp]. subst frag pf.
        assert (Hidx : nth_error (pool_of st') (N.to_nat (cs_plen st1)) = Some (CFun sg)).
        { eapply pool_ext_nth; [exact (ext_pool_ext _ _ _ _ E3)|]. apply (pool_new_nth _ _ _ _ W1 E2). }
        eapply strict_call; try eassumption.
        intros F vs tm om Hlen Hm Hnf'. unfold len. rewrite <- Hlen. cbn [app].
        eapply exec_call_by_value; eassumption.
    Qed.

    Lemma case_call_not : forall sg x st st' frag pf t o,
      sagree x -> wf st -> intrinsic_cbn sg = Some BNot ->
      (let+ st1 := compile x st in COk (emit_op OP_LOGICAL_NOT st1)) = COk st' ->
      ext st st' frag pf -> call_m ops orc fe rho f sg [x] = (t, o) -> is_fault o = false ->
      eventually (fun F => exec F (pc st) frag (pool_of st') t [] (omap (fun v => [SV v]) o)).
    Proof.
      intros sg x st st' frag pf t o Hx W Hcbn Hc E He Hnf.
      destruct (cbn_info sg BNot Hcbn) as [Hb [Hcl [_ Hl]]]. cbn in Hl.
      rewrite (call_strict_eq _ _ Hl) in He. cinv Hc. rename st0 into st1. inversion Hc; subst st'.
      assert (Hc1 : comp_list ops orc fe [x] st = COk st1) by (cbn [comp_list]; rewrite Hc0; reflexivity).
      destruct (comp_list_ext ops orc fe _ (all_ext [x]) _ _ W Hc1) as [f1 [p1 E1]].
      pose proof (ext_emit_op OP_LOGICAL_NOT st1) as E2.
      destruct (ext_inj _ _ _ _ _ _ E (ext_trans _ _ _ _ _ _ _ E1 E2)) as [Hf Hp]. subst frag pf.
      eapply strict_call; try eassumption; [constructor; [exact Hx|constructor]|].
      intros F vs tm om Hlen Hm Hnf'. unfold apply_strict in Hm. rewrite Hb, Hcl in Hm.
      eapply exec_intrinsic; [|exact Hm|exact Hnf']. cbn. rewrite Hlen. reflexivity.
    Qed.

    Lemma case_call_dynamic : forall callee args st st' frag pf t o,
      sagree callee -> (forall f' t' x, eval f' callee = (t', OVal x) -> not_lazy_fun x) ->
      Forall sagree args -> wf st ->
      (let+ st1 := compile callee st in
       let+ st2 := comp_list ops orc fe args st1 in
       emit8 (N.of_nat (len args)) (emit_op OP_DYNAMIC_CALL st2)) = COk st' ->
      ext st st' frag pf ->
      (let^ fv := eval f callee in
       match fv with
       | VFun (TFun n ps r) name lz => call_m ops orc fe rho f (mkSig name ps r lz) args
       | _ => fault XTypeConf
       end) = (t, o) -> is_fault o = false ->
      eventually (fun F => exec F (pc st) frag (pool_of st') t [] (omap (fun v => [SV v]) o)).
    Proof.
      intros callee args st st' frag pf t o Hcs Hnl Hall W Hc E He Hnf.
      cinv Hc. rename st0 into st1. cinv Hc. rename st0 into st2.
      destruct (compile_ext ops orc fe callee _ _ W Hc0) as [f1 [p1 E1]]. pose proof (ext_wf _ _ _ _ W E1) as W1.
      destruct (comp_list_ext ops orc fe _ (all_ext args) _ _ W1 Hc1) as [f2 [p2 E2]].
      apply emit8_ext in Hc. destruct Hc as [E3b _].
      pose proof (ext_trans _ _ _ _ _ _ _ (ext_emit_op OP_DYNAMIC_CALL st2) E3b) as E3. cbn [app] in E3.
      destruct (ext_inj _ _ _ _ _ _ E (ext_trans _ _ _ _ _ _ _ E1 (ext_trans _ _ _ _ _ _ _ E2 E3))) as [Hf Hp].
      subst frag pf.
      assert (Hp1 : pool_ext (pool_of st1) (pool_of st')).
      { eapply pool_ext_trans; [exact (ext_pool_ext _ _ _ _ E2)|exact (ext_pool_ext _ _ _ _ E3)]. }
      destruct (mbind_inv _ _ _ _ _ _ He Hnf) as [[t1 [fv [t2 [Hev [Hr Ht]]]]]|[kf [Hev Ho]]].
      2:{ subst o. pose proof (IH callee _ _ _ _ _ _ Hcs W Hc0 E1 Hev eq_refl) as Ex.
          refine (ev_mono _ _ _ Ex). intros F HA. cbn [omap] in *.
          apply exec_seq_fail. eapply exec_pool; [exact Hp1|exact HA]. }
      pose proof (Hnl _ _ _ Hev) as Hnlf.
      pose proof (IH callee _ _ _ _ _ _ Hcs W Hc0 E1 Hev eq_refl) as Ex.
      destruct fv as [| | | | | | | |fty name lz]; try (inversion Hr; subst; discriminate).
      destruct fty as [| | | | | | | | | | |n ps r|]; try (inversion Hr; subst; discriminate).
      destruct lz; [contradiction|].
      rewrite call_strict_eq in Hr by reflexivity.
      destruct (mbind_inv _ _ _ _ _ _ Hr Hnf) as [[t3 [vs [t4 [Hmm [Hap Ht2]]]]]|[kf [Hmm Ho]]].
      - pose proof (list_case _ _ _ _ _ _ _ Hall W1 Hc1 E2 Hmm eq_refl) as Ea.
        refine (ev_mono _ _ _ (ev_and _ _ Ex Ea)). intros F [HA HB]. cbv beta in HA, HB. cbn [omap] in HA, HB.
        rewrite (ext_pc _ _ _ _ E1) in HB. subst t t2. rewrite !app_assoc.
        eapply exec_seq.
        + assert (HC : exec F (pc st) (f1 ++ f2) (pool_of st') (t1 ++ t3) []
                            (omap (app [SV (VFun (TFun n ps r) name false)]) (OVal (map SV vs)))).
          { eapply exec_push; [eapply exec_pool; [exact Hp1|exact HA]|
                               eapply exec_pool; [exact (ext_pool_ext _ _ _ _ E3)|exact HB]]. }
          exact HC.
        + cbn [app]. unfold len. rewrite <- (mmapM_length _ _ _ _ _ _ Hmm).
          apply exec_dynamic_call. exact Hap.
      - subst o.
        pose proof (list_case _ _ _ _ _ _ _ Hall W1 Hc1 E2 Hmm eq_refl) as Ea.
        refine (ev_mono _ _ _ (ev_and _ _ Ex Ea)). intros F [HA HB]. cbv beta in HA, HB. cbn [omap] in HA, HB.
        rewrite (ext_pc _ _ _ _ E1) in HB. subst t. rewrite (app_assoc f1 f2). cbn [omap].
        apply exec_seq_fail.
        assert (HC : exec F (pc st) (f1 ++ f2) (pool_of st') (t1 ++ t2) []
                          (omap (app [SV (VFun (TFun n ps r) name false)]) (OFail kf))).
        { eapply exec_push; [eapply exec_pool; [exact Hp1|exact HA]|
                             eapply exec_pool; [exact (ext_pool_ext _ _ _ _ E3)|exact HB]]. }
        exact HC.
    Qed.

    (* ---- the three jump schemes ---- *)
    Definition branch_agree (br : aexpr + bool) : Prop := match br with inl e => sagree e | inr _ => True end.
    Definition branch_eval (br : aexpr + bool) : M val := match br with inl e => eval f e | inr b => ret (VBool b) end.

    Lemma branch_case : forall br st st' frag pf t o, branch_agree br -> wf st ->
      comp_branch ops orc fe br st = COk st' -> ext st st' frag pf -> branch_eval br = (t, o) -> is_fault o = false ->
      eventually (fun F => exec F (pc st) frag (pool_of st') t [] (omap (fun v => [SV v]) o)).
    Proof.
      intros [e|b] st st' frag pf t o Hb W Hc E He Hnf; cbn [comp_branch branch_eval branch_agree] in *.
      - eapply IH; eassumption.
      - inversion He; subst. apply ev_all. intros F. cbn [omap]. eapply leaf_const; eassumption.
    Qed.

    Lemma branch_ext_all : forall br, branch_ext ops orc fe br.
    Proof. intros [e|b]; cbn; [apply compile_ext|exact I]. Qed.

    Lemma ext_pool_ext2 : forall st a b fa pa fb q, ext st a fa pa -> ext st b fb (pa ++ q) -> pool_ext (pool_of a) (pool_of b).
    Proof.
      intros st a b fa pa fb q Ea Eb. exists q. rewrite (ext_pool _ _ _ _ Eb), (ext_pool _ _ _ _ Ea), app_assoc. reflexivity.
    Qed.

    Lemma cond_case : forall c bt be st st' frag pf t o,
      sagree c -> branch_agree bt -> branch_agree be -> wf st ->
      comp_cond ops orc fe c bt be st = COk st' -> ext st st' frag pf ->
      ((exists t1 cb t2, eval f c = (t1, OVal (VBool cb)) /\ branch_eval (if cb then bt else be) = (t2, o) /\ t = t1 ++ t2) \/
       (exists k, eval f c = (t, OFail k) /\ o = OFail k)) ->
      is_fault o = false ->
      eventually (fun F => exec F (pc st) frag (pool_of st') t [] (omap (fun v => [SV v]) o)).
    Proof.
      intros c bt be st st' frag pf t o Hc Hbt Hbe W Hcomp E He Hnf.
      destruct (comp_cond_inv ops orc fe c bt be st st' W (compile_ext ops orc fe c) (branch_ext_all bt) (branch_ext_all be) Hcomp)
        as [st1 [st3 [st4 [st6 [st7 [fc [pc' [ft [pt [fe' [pe [Hc1 [E1 [E03 [Hc4 [E4 [E06 [Hc7 [E7 E']]]]]]]]]]]]]]]]]]].
      destruct (ext_inj _ _ _ _ _ _ E E') as [Hf Hp]. subst frag pf.
      pose proof (ext_wf _ _ _ _ W E03) as W3. pose proof (ext_wf _ _ _ _ W E06) as W6.
      pose proof (ext_trans _ _ _ _ _ _ _ E03 E4) as E04. pose proof (ext_trans _ _ _ _ _ _ _ E06 E7) as E07.
      assert (P1 : pool_ext (pool_of st1) (pool_of st')).
      { eapply (ext_pool_ext2 st st1 st'); [exact E1|exact E']. }
      assert (P4 : pool_ext (pool_of st4) (pool_of st')).
      { eapply (ext_pool_ext2 st st4 st'); [exact E04|]. rewrite <- app_assoc. exact E'. }
      assert (P7 : pool_ext (pool_of st7) (pool_of st')).
      { eapply (ext_pool_ext2 st st7 st' _ _ _ []); [exact E07|]. rewrite app_nil_r, <- app_assoc. exact E'. }
      pose proof (ext_pc _ _ _ _ E03) as Q3. pose proof (ext_pc _ _ _ _ E06) as Q6. pose proof (ext_pc _ _ _ _ E07) as Q7.
      pose proof (ext_pc _ _ _ _ E4) as Q4.
      lens Q3. lens Q4. lens Q6. lens Q7.
      destruct He as [[t1 [cb [t2 [Hec [Heb Ht]]]]]|[k [Hec Ho]]].
      2:{ subst o. pose proof (IH c _ _ _ _ _ _ Hc W Hc1 E1 Hec eq_refl) as Ex.
          refine (ev_mono _ _ _ Ex). intros F HA. cbn [omap] in *.
          apply exec_seq_fail. eapply exec_pool; [exact P1|exact HA]. }
      pose proof (IH c _ _ _ _ _ _ Hc W Hc1 E1 Hec eq_refl) as Ex. subst t.
      destruct cb.
      - (* condition true: the first branch, then the jump over the second *)
        pose proof (branch_case _ _ _ _ _ _ _ Hbt W3 Hc4 E4 Heb Hnf) as Et.
        refine (ev_mono _ _ _ (ev_and _ _ Ex Et)). intros F [HA HB]. cbv beta in HA, HB. cbn [omap] in HA.
        eapply exec_seq; [eapply exec_pool; [exact P1|exact HA]|].
        change (op_byte OP_IF_TRUE :: b16 (cs_clen st6) ++ ft ++ op_byte OP_JUMP :: b16 (cs_clen st7) ++ fe')
          with ((op_byte OP_IF_TRUE :: b16 (cs_clen st6)) ++ ft ++ op_byte OP_JUMP :: b16 (cs_clen st7) ++ fe').
        rewrite <- (app_nil_l t2).
        eapply exec_seq; [apply exec_if_true|].
        destruct o as [v|k|k]; cbn [omap] in *.
        + rewrite <- (app_nil_r t2).
          eapply exec_seq.
          * eapply exec_pool; [exact P4|]. replace (pc st + List.length fc + List.length (op_byte OP_IF_TRUE :: b16 (cs_clen st6)))%nat
              with (pc st3); [exact HB|]. cbn [List.length]. rewrite b16_len. lia.
          * pose proof (exec_frame ops orc rho F
                          (pc st + List.length fc + List.length (op_byte OP_IF_TRUE :: b16 (cs_clen st6)) + List.length ft)%nat
                          (op_byte OP_JUMP :: b16 (cs_clen st7) ++ fe') (pool_of st') [] [] (OVal []) [SV v]) as HJ.
            cbn [omap app] in HJ. apply HJ. apply exec_jump.
            cbn [List.length]. rewrite app_length, !b16_len. lia.
        + apply exec_seq_fail. eapply exec_pool; [exact P4|].
          replace (pc st + List.length fc + List.length (op_byte OP_IF_TRUE :: b16 (cs_clen st6)))%nat
              with (pc st3); [exact HB|]. cbn [List.length]. rewrite b16_len. lia.
        + discriminate.
      - (* condition false: jump to the second branch *)
        pose proof (branch_case _ _ _ _ _ _ _ Hbe W6 Hc7 E7 Heb Hnf) as Ee.
        refine (ev_mono _ _ _ (ev_and _ _ Ex Ee)). intros F [HA HB]. cbv beta in HA, HB. cbn [omap] in HA.
        eapply exec_seq; [eapply exec_pool; [exact P1|exact HA]|].
        replace (op_byte OP_IF_TRUE :: b16 (cs_clen st6) ++ ft ++ op_byte OP_JUMP :: b16 (cs_clen st7) ++ fe')
          with ((op_byte OP_IF_TRUE :: b16 (cs_clen st6) ++ (ft ++ op_byte OP_JUMP :: b16 (cs_clen st7))) ++ fe').
        2:{ cbn [app]. rewrite <- !app_assoc. cbn [app]. reflexivity. }
        rewrite <- (app_nil_l t2).
        eapply exec_seq.
        + apply exec_if_false. cbn [List.length]. rewrite !app_length, b16_len. cbn [List.length]. rewrite b16_len. lia.
        + eapply exec_pool; [exact P7|].
          replace (pc st + List.length fc +
                   List.length (op_byte OP_IF_TRUE :: b16 (cs_clen st6) ++ ft ++ op_byte OP_JUMP :: b16 (cs_clen st7)))%nat
            with (pc st6); [exact HB|].
          cbn [List.length]. rewrite !app_length, b16_len. cbn [List.length]. rewrite b16_len. lia.
    Qed.

    Lemma cond_form : forall c (K : bool -> M val) t o,
      mbind (eval f c) (fun cv => mbind (as_bool cv) K) = (t, o) -> is_fault o = false ->
      (exists t1 cb t2, eval f c = (t1, OVal (VBool cb)) /\ K cb = (t2, o) /\ t = t1 ++ t2) \/
      (exists k, eval f c = (t, OFail k) /\ o = OFail k).
    Proof.
      intros c K t o He Hnf.
      destruct (mbind_inv _ _ _ _ _ _ He Hnf) as [[t1 [cv [t2 [Hec [Hr Ht]]]]]|[kf [Hec Ho]]].
      - left. destruct cv; try (cbn in Hr; inversion Hr; subst; discriminate).
        cbn [as_bool] in Hr. rewrite mbind_ret_l in Hr. exists t1, b, t2. auto.
      - right. exists kf. auto.
    Qed.

    Lemma recheck_bool : forall (m : M val) t o,
      mbind m (fun bv => let^ bb := as_bool bv in ret (VBool bb)) = (t, o) -> is_fault o = false -> m = (t, o).
    Proof.
      intros [tm [v|k|k]] t o H Hnf.
      - destruct v; cbn in H; inversion H; subst; try discriminate. rewrite !app_nil_r. reflexivity.
      - cbn in H. exact H.
      - cbn in H. exact H.
    Qed.

    Lemma lazy_builtin_call : forall sg b args, intrinsic_cbn sg = Some b -> is_lazy_builtin b = true ->
      call_m ops orc fe rho f sg args = apply_lazy sg (map (fun x (_ : unit) => eval f x) args) /\
      classify (s_name sg) (s_params sg) = Some b.
    Proof.
      intros sg b args Hcbn Hlz. destruct (cbn_info sg b Hcbn) as [Hb [Hcl [_ Hl]]].
      unfold call_m. rewrite Hl, Hlz, Hb. auto.
    Qed.

    Lemma case_call_if : forall sg c a b st st' frag pf t o,
      sagree c -> sagree a -> sagree b -> wf st -> intrinsic_cbn sg = Some BIf ->
      comp_cond ops orc fe c (inl a) (inl b) st = COk st' -> ext st st' frag pf ->
      call_m ops orc fe rho f sg [c; a; b] = (t, o) -> is_fault o = false ->
      eventually (fun F => exec F (pc st) frag (pool_of st') t [] (omap (fun v => [SV v]) o)).
    Proof.
      intros sg c a b st st' frag pf t o Hc Ha Hb W Hcbn Hcomp E He Hnf.
      destruct (lazy_builtin_call sg BIf [c; a; b] Hcbn eq_refl) as [Hcall Hcl]. rewrite Hcall in He.
      unfold apply_lazy in He. rewrite Hcl in He. cbn [map] in He.
      eapply (cond_case c (inl a) (inl b)); try eassumption.
      destruct (cond_form _ _ _ _ He Hnf) as [[t1 [cb [t2 [H1 [H2 H3]]]]]|H]; [|right; exact H].
      left. exists t1, cb, t2. repeat split; try assumption. destruct cb; exact H2.
    Qed.

    Lemma case_call_and : forall sg x y st st' frag pf t o,
      sagree x -> sagree y -> wf st -> intrinsic_cbn sg = Some BAnd ->
      comp_cond ops orc fe x (inl y) (inr false) st = COk st' -> ext st st' frag pf ->
      call_m ops orc fe rho f sg [x; y] = (t, o) -> is_fault o = false ->
      eventually (fun F => exec F (pc st) frag (pool_of st') t [] (omap (fun v => [SV v]) o)).
    Proof.
      intros sg x y st st' frag pf t o Hx Hy W Hcbn Hcomp E He Hnf.
      destruct (lazy_builtin_call sg BAnd [x; y] Hcbn eq_refl) as [Hcall Hcl]. rewrite Hcall in He.
      unfold apply_lazy in He. rewrite Hcl in He. cbn [map] in He.
      eapply (cond_case x (inl y) (inr false)); try eassumption; [exact I|].
      destruct (cond_form _ _ _ _ He Hnf) as [[t1 [cb [t2 [H1 [H2 H3]]]]]|H]; [|right; exact H].
      left. exists t1, cb, t2. repeat split; try assumption. destruct cb; cbn [branch_eval].
      - apply recheck_bool; assumption.
      - exact H2.
    Qed.

    Lemma case_call_or : forall sg x y st st' frag pf t o,
      sagree x -> sagree y -> wf st -> intrinsic_cbn sg = Some BOr ->
      comp_cond ops orc fe x (inr true) (inl y) st = COk st' -> ext st st' frag pf ->
      call_m ops orc fe rho f sg [x; y] = (t, o) -> is_fault o = false ->
      eventually (fun F => exec F (pc st) frag (pool_of st') t [] (omap (fun v => [SV v]) o)).
    Proof.
      intros sg x y st st' frag pf t o Hx Hy W Hcbn Hcomp E He Hnf.
      destruct (lazy_builtin_call sg BOr [x; y] Hcbn eq_refl) as [Hcall Hcl]. rewrite Hcall in He.
      unfold apply_lazy in He. rewrite Hcl in He. cbn [map] in He.
      eapply (cond_case x (inr true) (inl y)); try eassumption; [exact I|].
      destruct (cond_form _ _ _ _ He Hnf) as [[t1 [cb [t2 [H1 [H2 H3]]]]]|H]; [|right; exact H].
      left. exists t1, cb, t2. repeat split; try assumption. destruct cb; cbn [branch_eval].
      - exact H2.
      - apply recheck_bool; assumption.
    Qed.

    (* ---- deferred arguments ---- *)
    Definition nonfault (o : outcome val) : Prop := is_fault o = false.
    Lemma nonfault_val : forall v, nonfault (OVal v).
    Proof. reflexivity. Qed.

    Definition thr (F : nat) (pool : list const) (x : aexpr) (sv : sval) : Prop :=
      exists body rt, sv = STh body rt /\ m_rel nonfault (eval f x) (vm_run ops orc rho pool None F body).

    Lemma thunks_of : forall F pool args xs, Forall2 (thr F pool) args xs ->
      exists ths, mmapM (thunk_of (vm_run ops orc rho pool None F)) xs = ret ths /\
                  Forall2 (th_rel nonfault) (map (fun x (_ : unit) => eval f x) args) ths.
    Proof.
      intros F pool args xs H. induction H as [|x sv args xs [body [rt [Hsv Hrel]]] _ [ths [Hm Hf]]].
      - exists []. split; [reflexivity|constructor].
      - subst sv. exists ((fun _ : unit => vm_run ops orc rho pool None F body) :: ths). split.
        + rewrite mmapM_cons. cbn [thunk_of]. rewrite mbind_ret_l, Hm, mbind_ret_l. reflexivity.
        + cbn [map]. constructor; [exact Hrel|exact Hf].
    Qed.

    Lemma thunk_rel : forall x st sub fx px, sagree x -> wf st ->
      compile x (cs_empty (cs_rpool st) (cs_plen st)) = COk sub ->
      ext (cs_empty (cs_rpool st) (cs_plen st)) sub fx px ->
      eventually (fun F => forall pool, pool_ext (pool_of sub) pool ->
                    m_rel nonfault (eval f x) (vm_run ops orc rho pool None F (fx ++ [op_byte OP_RETURN]))).
    Proof.
      intros x st sub fx px Hx W Hc Ex.
      destruct (eval f x) as [tx ox] eqn:Hev. destruct (is_fault ox) eqn:Hf.
      - apply ev_all. intros F pool _ t o Heq Hq. inversion Heq; subst. unfold nonfault in Hq. congruence.
      - destruct (IH x _ _ _ _ _ _ Hx (wf_empty _ W) Hc Ex Hev Hf) as [F0 H0].
        exists (S F0). intros F HF pool Hp t o Heq _. inversion Heq; subst t o.
        destruct F as [|F]; [lia|]. eapply exec_run; [|exact Hp|exact Hf].
        apply (H0 F). lia.
    Qed.

    Lemma lazy_args : forall sg args i st st1 f1 p1, Forall sagree args -> wf st -> s_lazy sg = true ->
      comp_args ops orc fe sg args i st = COk st1 -> ext st st1 f1 p1 ->
      exists xs, List.length xs = List.length args /\
        (forall F, exec F (pc st) f1 (pool_of st1) [] [] (OVal xs)) /\
        eventually (fun F => forall pool, pool_ext (pool_of st1) pool -> Forall2 (thr F pool) args xs).
    Proof.
      intros sg args. induction args as [|x r IHr]; intros i st st1 f1 p1 Hall W Hl Hc E.
      - cbn in Hc. inversion Hc; subst st1. destruct (ext_inj _ _ _ _ _ _ E (ext_refl st)) as [Hf _]. subst f1.
        exists []. split; [reflexivity|]. split; [intros F; apply exec_nil|]. apply ev_all. intros F pool _. constructor.
      - inversion Hall as [|? ? Hx Hr]; subst. cbn [comp_args] in Hc. rewrite Hl in Hc.
        cinv Hc. rename st0 into sub. cinv Hc. rename st0 into st''.
        destruct (comp_thunk_inv ops orc fe x st sub st'' _ W (compile_ext ops orc fe x) Hc0 Hc1) as [fx [px [Ex E1]]].
        pose proof (ext_wf _ _ _ _ W E1) as W''.
        destruct (comp_args_ext ops orc fe sg r (all_ext r) _ _ _ W'' Hc) as [f2 [p2 E2]].
        destruct (ext_inj _ _ _ _ _ _ E (ext_trans _ _ _ _ _ _ _ E1 E2)) as [Hf Hp]. subst f1 p1.
        destruct (IHr _ _ _ _ _ Hr W'' Hl Hc E2) as [xs [Hlen [Hex Hth]]].
        set (body := fx ++ [op_byte OP_RETURN]) in *. set (rt := thunk_ret sg i) in *.
        exists (STh body rt :: xs). split; [cbn; rewrite Hlen; reflexivity|].
        assert (Hsubpool : pool_of sub = pool_of st ++ px).
        { rewrite (ext_pool _ _ _ _ Ex). reflexivity. }
        assert (Hpool'' : pool_of st'' = pool_of sub ++ [CThunk body rt]).
        { rewrite (ext_pool _ _ _ _ E1), Hsubpool, app_assoc. reflexivity. }
        assert (Hidx : nth_error (pool_of st'') (N.to_nat (cs_plen sub)) = Some (CThunk body rt)).
        { rewrite Hpool''.
          assert (Hn : N.to_nat (cs_plen sub) = List.length (pool_of sub)).
          { rewrite Hsubpool, app_length. destruct Ex as [_ [_ [_ B4]]]. cbn [cs_empty cs_plen] in B4. rewrite B4.
            destruct W as [_ W2]. rewrite W2. unfold pool_of. rewrite rev_length. lia. }
          rewrite Hn, nth_error_app2, Nat.sub_diag; [reflexivity|lia]. }
        split.
        + intros F. change (STh body rt :: xs) with ([STh body rt] ++ xs).
          rewrite <- (app_nil_l (@nil event)).
          pose proof (exec_push ops orc rho F (pc st) (op_byte OP_CONST :: b16 (cs_plen sub)) f2 (pool_of st1) [] []
                        [STh body rt] (OVal xs)) as HP. cbn [omap] in HP. apply HP.
          * eapply exec_pool; [exact (ext_pool_ext _ _ _ _ E2)|]. apply exec_thunk. exact Hidx.
          * rewrite <- (ext_pc _ _ _ _ E1). apply Hex.
        + pose proof (thunk_rel x st sub fx px Hx W Hc0 Ex) as Hrel.
          refine (ev_mono _ _ _ (ev_and _ _ Hrel Hth)). intros F [HA HB] pool Hp. cbv beta in HA, HB.
          constructor; [|apply HB; exact Hp].
          exists body, rt. split; [reflexivity|]. apply HA.
          eapply pool_ext_trans; [|exact Hp]. eapply pool_ext_trans; [|exact (ext_pool_ext _ _ _ _ E2)].
          exists [CThunk body rt]. exact Hpool''.
    Qed.

    Lemma case_call_lazy : forall sg args st st' frag pf t o,
      Forall sagree args -> wf st -> s_lazy sg = true ->
      (let+ st1 := comp_args ops orc fe sg args O st in
       match intrinsic_cbv sg with
       | Some o => COk (emit_op o st1)
       | None =>
           let o := if s_lazy sg then OP_CALL_BY_NEED else OP_CALL_BY_VALUE in
           let+ st2 := emit_const (CFun sg) (emit_op o st1) in
           emit8 (N.of_nat (len args)) st2
       end) = COk st' ->
      ext st st' frag pf -> call_m ops orc fe rho f sg args = (t, o) -> is_fault o = false ->
      eventually (fun F => exec F (pc st) frag (pool_of st') t [] (omap (fun v => [SV v]) o)).
    Proof.
      intros sg args st st' frag pf t o Hall W Hl Hc E He Hnf.
      cinv Hc. rename st0 into st1.
      destruct (intrinsic_cbv sg) as [op|] eqn:Hcbv.
      { destruct (cbv_info sg op Hcbv) as [_ [Hl' _]]. congruence. }
      rewrite Hl in Hc. cbv zeta in Hc. cinv Hc. rename st0 into st2.
      destruct (comp_args_ext ops orc fe sg args (all_ext args) _ _ _ W Hc0) as [f1 [p1 E1]].
      pose proof (ext_wf _ _ _ _ W E1) as W1.
      apply const_instr_ext in Hc1. destruct Hc1 as [E2 _]. apply emit8_ext in Hc. destruct Hc as [E3 _].
      pose proof (ext_trans _ _ _ _ _ _ _ E2 E3) as E23.
      destruct (ext_inj _ _ _ _ _ _ E (ext_trans _ _ _ _ _ _ _ E1 E23)) as [Hf Hp]. subst frag pf.
      assert (Hidx : nth_error (pool_of st') (N.to_nat (cs_plen st1)) = Some (CFun sg)).
      { eapply pool_ext_nth; [exact (ext_pool_ext _ _ _ _ E3)|]. apply (pool_new_nth _ _ _ _ W1 E2). }
      destruct (lazy_args sg args O st st1 f1 p1 Hall W Hl Hc0 E1) as [xs [Hlen [Hex Hth]]].
      refine (ev_mono _ _ _ Hth). intros F HT. cbv beta in HT.
      intros code pool c2 s Hsk Hp. cbn [rev app].
      assert (Hp1 : pool_ext (pool_of st1) pool).
      { eapply pool_ext_trans; [exact (ext_pool_ext _ _ _ _ E23)|exact Hp]. }
      destruct (thunks_of F pool args xs (HT pool Hp1)) as [ths [Hm Hrel]].
      assert (Hlazy : lazy_m (vm_run ops orc rho pool None F) sg xs = (t, o)).
      { unfold lazy_m. rewrite Hm, mbind_ret_l.
        unfold call_m in He. rewrite Hl in He.
        exact (lazy_rel nonfault nonfault_val sg _ _ Hrel t o He Hnf). }
      rewrite <- (app_nil_l t). rewrite <- app_assoc in Hsk.
      eapply runs_seq.
      - apply (Hex F code pool _ s Hsk Hp1).
      - cbn [omap rev app]. rewrite omap_omap. cbn [rev app].
        unfold len. rewrite <- Hlen.
        change ((op_byte OP_CALL_BY_NEED :: b16 (cs_plen st1)) ++ [N.of_nat (List.length xs)])
          with (op_byte OP_CALL_BY_NEED :: b16 (cs_plen st1) ++ [N.of_nat (List.length xs)]).
        apply instr_call_by_need with (sg := sg); [|exact Hlazy].
        exact (pool_ext_nth _ _ _ _ Hp Hidx).
    Qed.

    Lemma case_call : forall col key idx fty callee args, Pstmt (S f) (ACall col key idx fty callee args).
    Proof.
      intros col key idx fty callee args st st' frag pf t o Hs W Hc E He Hnf.
      cbn [subs_agree] in Hs. destruct Hs as [Hargs Hdyn]. apply all_list in Hargs.
      rewrite compile_call_eq in Hc. rewrite eval_call_eq in He.
      destruct (String.eqb key "") eqn:Hk.
      - apply String.eqb_eq in Hk. destruct (Hdyn Hk) as [Hcs Hnl].
        exact (case_call_dynamic callee args st st' frag pf t o Hcs Hnl Hargs W Hc E He Hnf).
      - destruct (lookup_fn fe key idx) as [sg|]; [|discriminate].
        destruct (intrinsic_cbn sg) as [b|] eqn:Hcbn.
        + destruct (cbn_info sg b Hcbn) as [_ [_ [Hb _]]]. destruct Hb as [Hb|[Hb|[Hb|Hb]]]; subst b.
          * destruct args as [|c [|a [|b [|? ?]]]]; try discriminate Hc.
            inversion Hargs as [|? ? Hc' H1]; subst. inversion H1 as [|? ? Ha' H2]; subst. inversion H2 as [|? ? Hb' H3]; subst.
            exact (case_call_if sg c a b st st' frag pf t o Hc' Ha' Hb' W Hcbn Hc E He Hnf).
          * destruct args as [|x [|y [|? ?]]]; try discriminate Hc.
            inversion Hargs as [|? ? Hx' H1]; subst. inversion H1 as [|? ? Hy' H2]; subst.
            exact (case_call_and sg x y st st' frag pf t o Hx' Hy' W Hcbn Hc E He Hnf).
          * destruct args as [|x [|y [|? ?]]]; try discriminate Hc.
            inversion Hargs as [|? ? Hx' H1]; subst. inversion H1 as [|? ? Hy' H2]; subst.
            exact (case_call_or sg x y st st' frag pf t o Hx' Hy' W Hcbn Hc E He Hnf).
          * destruct args as [|x [|? ?]]; try discriminate Hc.
            inversion Hargs as [|? ? Hx' H1]; subst.
            exact (case_call_not sg x st st' frag pf t o Hx' W Hcbn Hc E He Hnf).
        + assert (Hl : s_lazy sg = true \/ s_lazy sg = false) by (destruct (s_lazy sg); auto).
          destruct Hl as [Hl|Hl].
          * exact (case_call_lazy sg args st st' frag pf t o Hargs W Hl Hc E He Hnf).
          * exact (case_call_strict sg args st st' frag pf t o Hargs W Hl Hc E He Hnf).
    Qed.
  End Step.

  Theorem all_P : forall f a, Pstmt f a.
  Proof.
    induction f as [|f IHf]; intros a.
    - intros st st' frag pf t o _ _ _ _ He Hnf. cbn in He. inversion He; subst. discriminate.
    - destruct a.
      + apply case_str.
      + apply case_num.
      + apply case_time.
      + apply case_bool.
      + apply case_list; exact IHf.
      + apply case_map; exact IHf.
      + apply case_obj; exact IHf.
      + apply case_ident.
      + apply case_call; exact IHf.
      + apply case_sub; exact IHf.
      + apply case_member; exact IHf.
  Qed.

  (* (A) the VM agrees with the evaluator whenever the annotations agree with the values *)
  Theorem vm_correct_annot : forall a code pool f t o,
    subs_agree ops orc fe rho a ->
    compile_main ops orc fe a = COk (code, pool) ->
    eval f a = (t, o) -> is_fault o = false ->
    exists g0, forall g, (g0 <= g)%nat -> vm_run ops orc rho pool None g code = (t, o).
  Proof.
    intros a code pool f t o Hs Hc He Hnf. unfold compile_main in Hc. cinv Hc. inversion Hc; subst code pool. clear Hc.
    assert (W0 : wf (cs_empty [] 0)) by (split; reflexivity).
    destruct (compile_ext ops orc fe a _ _ W0 Hc0) as [frag [pf E]].
    destruct (all_P f a _ _ _ _ _ _ Hs W0 Hc0 E He Hnf) as [F0 H0].
    exists (S F0). intros g Hg. destruct g as [|F]; [lia|].
    change (cs_rcode (emit_op OP_RETURN st)) with (op_byte OP_RETURN :: cs_rcode st).
    change (cs_rpool (emit_op OP_RETURN st)) with (cs_rpool st). cbn [rev].
    pose proof (ext_code _ _ _ _ E) as Hcode. unfold code_of in Hcode. cbn [cs_empty cs_rcode rev app] in Hcode.
    rewrite Hcode.
    eapply exec_run; [|apply pool_ext_refl|exact Hnf].
    apply (H0 F). lia.
  Qed.
End Main.

(* ------------------------------------------------------------------ *)
(* (B) the side condition holds for every accepted expression: type preservation (C01) *)
Lemma resolve_go_key : forall fuel fresh pk args sigs i key idx ps rt,
  C05Proofs.resolve_go fuel fresh pk args sigs i = COk (key, idx, ps, rt) -> key = pk.
Proof.
  intros fuel fresh pk args. induction sigs as [|sg r IH]; intros i key idx ps rt H; cbn in H; [discriminate|].
  destruct (try_infer fuel fresh sg args) as [o| |]; cbn in H; try discriminate.
  destruct o as [[ps' rt']|].
  - destruct (params_match ps' args); [inversion H; reflexivity|eapply IH; exact H].
  - eapply IH; exact H.
Qed.

Lemma resolve_key_nonempty : forall fe fuel fresh name args key idx ps rt,
  resolve fe fuel fresh name args = COk (key, idx, ps, rt) -> key <> "".
Proof.
  intros fe fuel fresh name args key idx ps rt H. rewrite C05Proofs.resolve_unfold in H.
  destruct (assoc (mono_key name args) (f_mono fe)).
  - inversion H; subst. intros Hk. pose proof (C01Proofs.mono_key_nonempty name args) as Hn.
    rewrite Hk in Hn. discriminate.
  - destruct (assoc (poly_key name (List.length args)) (f_poly fe)); [|discriminate].
    apply resolve_go_key in H. subst key. intros Hk.
    pose proof (C01Proofs.poly_key_nonempty name (List.length args)) as Hn. rewrite Hk in Hn. discriminate.
Qed.

Lemma kind_from_type : forall x vty, has_vtype x vty = true -> kind_agrees vty x.
Proof.
  intros x vty H. unfold has_vtype in H. apply andb_true_iff in H. destruct H as [Hok Heq].
  destruct x; try exact I; cbn [kind_agrees]; cbn [val_type] in Heq.
  - cbn [val_ok] in Hok. destruct t; try (rewrite andb_false_r in Hok; discriminate).
    destruct vty; try discriminate Heq. reflexivity.
  - cbn [val_ok] in Hok. destruct t; try (rewrite andb_false_r in Hok; discriminate).
    destruct vty; try discriminate Heq. reflexivity.
Qed.

Lemma fun_free_not_lazy : forall x, fun_free x = true -> not_lazy_fun x.
Proof. intros x H. destruct x; try exact I. discriminate H. Qed.

Section AgreeIff.
  Variable ops : numops.
  Variable orc : oracles.
  Variable fe : fenv.
  Variable rho : venv.
  Notation sagree := (subs_agree ops orc fe rho).

  Lemma sagree_list : forall t es,
    (exists e, t = TList e) -> (es = [] -> t = TList TBot) -> Forall sagree es -> sagree (AList t es).
  Proof. intros t es HA HB HC. cbn [subs_agree]. split; [exact HA|]. split; [exact HB|]. apply all_list. exact HC. Qed.
  Lemma sagree_map : forall t kvs,
    (exists k v, t = TMap k v) -> (kvs = [] -> t = TMap TBot TBot) -> Forall sagree (flatten kvs) -> sagree (AMap t kvs).
  Proof. intros t es HA HB HC. cbn [subs_agree]. split; [exact HA|]. split; [exact HB|]. apply all_kvs. exact HC. Qed.
  Lemma sagree_obj : forall t fs,
    (exists tfs, t = TObj tfs /\ len tfs = len fs) -> Forall sagree (map snd fs) -> sagree (AObj t fs).
  Proof. intros t es HA HC. cbn [subs_agree]. split; [exact HA|]. apply all_fields. exact HC. Qed.
  Lemma sagree_call : forall col key idx fty callee args,
    Forall sagree args ->
    (key = "" -> sagree callee /\ forall f t x, eval ops orc fe rho f callee = (t, OVal x) -> not_lazy_fun x) ->
    sagree (ACall col key idx fty callee args).
  Proof. intros col key idx fty callee args HA HC. cbn [subs_agree]. split; [apply all_list; exact HA|exact HC]. Qed.
End AgreeIff.

Section Discharge.
  Variable ops : numops.
  Variable orc : oracles.
  Variable fe : fenv.
  Variable G : tenv.
  Variable rho : venv.
  Variable fuel : nat.
  Variable fresh : N.
  Hypothesis Hfe : fe = builtin_fenv \/ fe = fenv_std.
  Hypothesis HG : tenv_ok G = true.
  Hypothesis Hrho : env_ok G rho.
  Hypothesis Hfr : fresh_ok fe fresh.
  Notation chk := (check fe G fuel fresh).
  Notation sagree := (subs_agree ops orc fe rho).

  Definition dstmt (e : expr) : Prop := forall a T, chk e = COk (a, T) -> sagree a.

  Lemma pres : forall e a T f t v, chk e = COk (a, T) -> eval ops orc fe rho f a = (t, OVal v) ->
    has_vtype v T = true /\ fun_free v = true.
  Proof. intros. eapply C01Proofs.preservation; eassumption. Qed.

  Lemma args_agree : forall args, Forall dstmt args -> forall aargs, cmapM chk args = COk aargs ->
    Forall sagree (map fst aargs).
  Proof.
    intros args HF aargs H. apply C05Proofs.cmapM_Forall2 in H.
    induction H as [|x [a T] r ys Hx _ IH]; [constructor|].
    inversion HF as [|? ? Hd Hr]; subst. cbn [map fst]. constructor; [exact (Hd _ _ Hx)|exact (IH Hr)].
  Qed.

  Lemma check_agree : forall e, dstmt e.
  Proof.
    induction e as [p tx|p tx|p tx|p b|p es IHes|p kvs IHkvs|p fs IHfs|p n|p col callee args IHc IHargs|p col v i IHv IHi
                    |p col ob n np IHo|p n np x pre IHx|p n np fx l r IHl IHr|p n np l m r IHl IHm IHr|p x IHx]
      using ExprInd.expr_ind'; intros a T H.
    - cbn in H. destruct (str_value tx); inversion H; subst. exact I.
    - cbn in H. destruct (num_parse tx); inversion H; subst. exact I.
    - cbn in H. inversion H; subst. exact I.
    - cbn in H. inversion H; subst. exact I.
    - (* list *)
      destruct es as [|e0 rest].
      + cbn in H. inversion H; subst. cbn. split; [eexists; reflexivity|]. split; [reflexivity|exact I].
      + cbn [check] in H. inversion IHes as [|? ? H0 Hrest]; subst.
        destruct (chk e0) as [[a0 t0]| |] eqn:E0; cbn [cbind] in H; try discriminate.
        match type of H with cbind (cmapM ?g rest) _ = _ => destruct (cmapM g rest) as [ars| |] eqn:Er end;
          cbn [cbind] in H; try discriminate.
        inversion H; subst. apply sagree_list; [eexists; reflexivity|discriminate|].
        constructor; [exact (H0 _ _ E0)|].
        apply C05Proofs.cmapM_Forall2 in Er. clear -Er Hrest.
        induction Er as [|x y r ys Hx _ IH]; [constructor|].
        inversion Hrest as [|? ? Hd Hr]; subst. constructor; [|exact (IH Hr)].
        destruct (chk x) as [[a t]| |] eqn:Ex; cbn [cbind] in Hx; try discriminate.
        destruct (type_assert t0 t); cbn [cbind] in Hx; try discriminate. inversion Hx; subst. exact (Hd _ _ Ex).
    - (* map *)
      destruct kvs as [|[k0 v0] rest].
      + cbn in H. inversion H; subst. cbn. split; [eexists _, _; reflexivity|]. split; [reflexivity|exact I].
      + cbn [check] in H. inversion IHkvs as [|? ? [Hk0 Hv0] Hrest]; subst. cbn [fst snd] in *.
        destruct (chk k0) as [[ak0 kt]| |] eqn:Ek0; cbn [cbind] in H; try discriminate.
        destruct (negb (is_primitive kt)); [discriminate|].
        destruct (chk v0) as [[av0 vt]| |] eqn:Ev0; cbn [cbind] in H; try discriminate.
        match type of H with cbind (cmapM ?g rest) _ = _ => destruct (cmapM g rest) as [ars| |] eqn:Er end;
          cbn [cbind] in H; try discriminate.
        inversion H; subst. apply sagree_map; [eexists _, _; reflexivity|discriminate|].
        cbn [flatten flat_map fst snd app]. constructor; [exact (Hk0 _ _ Ek0)|].
        constructor; [exact (Hv0 _ _ Ev0)|].
        apply C05Proofs.cmapM_Forall2 in Er. clear -Er Hrest.
        induction Er as [|x y r ys Hx _ IH]; [constructor|].
        inversion Hrest as [|? ? [Hdk Hdv] Hr]; subst. cbn [flat_map app].
        destruct (chk (fst x)) as [[ak t1]| |] eqn:Ek; cbn [cbind] in Hx; try discriminate.
        destruct (type_assert kt t1); cbn [cbind] in Hx; try discriminate.
        destruct (chk (snd x)) as [[av t2]| |] eqn:Ev; cbn [cbind] in Hx; try discriminate.
        destruct (type_assert vt t2); cbn [cbind] in Hx; try discriminate. inversion Hx; subst. cbn [fst snd].
        constructor; [exact (Hdk _ _ Ek)|]. constructor; [exact (Hdv _ _ Ev)|]. exact (IH Hr).
    - (* obj *)
      cbn [check] in H.
      match type of H with cbind (cmapM ?g fs) _ = _ => destruct (cmapM g fs) as [afs| |] eqn:Ef end;
        cbn [cbind] in H; try discriminate.
      match type of H with (if ?c then _ else _) = _ => destruct c end; [discriminate|].
      inversion H; subst. apply sagree_obj.
      + eexists. split; [reflexivity|]. unfold len. rewrite !map_length. reflexivity.
      + rewrite map_map. cbn [snd].
        apply C05Proofs.cmapM_Forall2 in Ef. clear -Ef IHfs.
        induction Ef as [|x y r ys Hx _ IH]; [constructor|].
        inversion IHfs as [|? ? Hd Hr]; subst. cbn [map]. constructor; [|exact (IH Hr)].
        destruct (chk (snd x)) as [[a t]| |] eqn:Ex; cbn [cbind] in Hx; try discriminate.
        inversion Hx; subst. cbn [fst snd]. exact (Hd _ _ Ex).
    - (* ident *)
      cbn [check] in H. destruct (reserved (rstr n)); [discriminate|].
      destruct (assoc (rstr n) G); inversion H; subst. exact I.
    - (* call *)
      destruct (C05Proofs.is_ident callee) eqn:Hid.
      + destruct callee as [| | | | | | |pn n| | | | | | |]; try discriminate Hid. rewrite C05Proofs.check_call_ident in H.
        destruct (cmapM chk args) as [aargs| |] eqn:Ea; cbn [cbind] in H; try discriminate.
        destruct (resolve fe fuel fresh (rstr n) (map snd aargs)) as [[[[key idx] ps] rt]| |] eqn:Er;
          cbn [cbind] in H; try discriminate.
        destruct (params_match ps (map snd aargs)); [|discriminate]. inversion H; subst.
        apply sagree_call; [exact (args_agree _ IHargs _ Ea)|].
        intros Hk. exfalso. exact (resolve_key_nonempty _ _ _ _ _ _ _ _ _ Er Hk).
      + rewrite (C05Proofs.check_call_other _ _ _ _ _ _ _ _ Hid) in H.
        destruct (cmapM chk args) as [aargs| |] eqn:Ea; cbn [cbind] in H; try discriminate.
        destruct (chk callee) as [[ac ft]| |] eqn:Ec; cbn [cbind] in H; try discriminate.
        destruct ft; try discriminate.
        destruct (try_infer fuel fresh (mkSig name ps ft false) (map snd aargs)) as [o| |]; cbn [cbind] in H; try discriminate.
        destruct o as [[ps' rt]|]; [|discriminate].
        destruct (params_match ps' (map snd aargs)); [|discriminate]. inversion H; subst.
        apply sagree_call; [exact (args_agree _ IHargs _ Ea)|].
        intros _. split; [exact (IHc _ _ Ec)|].
        intros f t x Hev. apply fun_free_not_lazy. exact (proj2 (pres _ _ _ _ _ _ Ec Hev)).
    - (* sub *)
      cbn [check] in H. destruct (chk v) as [[av vt]| |] eqn:Ev; cbn [cbind] in H; try discriminate.
      assert (Hkind : forall f t x, eval ops orc fe rho f av = (t, OVal x) -> kind_agrees vt x).
      { intros f t x Hev. apply kind_from_type. exact (proj1 (pres _ _ _ _ _ _ Ev Hev)). }
      destruct vt; try discriminate.
      + destruct (chk i) as [[ai it]| |] eqn:Ei; cbn [cbind] in H; try discriminate.
        destruct (type_assert it TNum); cbn [cbind] in H; try discriminate. inversion H; subst.
        cbn [subs_agree]. split; [exact (IHv _ _ Ev)|]. split; [exact (IHi _ _ Ei)|exact Hkind].
      + destruct (chk i) as [[ai it]| |] eqn:Ei; cbn [cbind] in H; try discriminate.
        destruct (type_assert it vt1); cbn [cbind] in H; try discriminate. inversion H; subst.
        cbn [subs_agree]. split; [exact (IHv _ _ Ev)|]. split; [exact (IHi _ _ Ei)|exact Hkind].
    - (* member *)
      cbn [check] in H. destruct (chk ob) as [[ao ot]| |] eqn:Eo; cbn [cbind] in H; try discriminate.
      destruct ot; try discriminate.
      destruct (assoc (rstr n) fs); [|discriminate]. destruct (index_of (rstr n) fs); [|discriminate].
      inversion H; subst. cbn [subs_agree]. exact (IHo _ _ Eo).
    - discriminate H.
    - discriminate H.
    - discriminate H.
    - discriminate H.
  Qed.
End Discharge.

Theorem vm_correct : forall (ops : numops) (orc : oracles) fe G rho fuel fresh e a T code pool f t o,
  (fe = builtin_fenv \/ fe = fenv_std) ->
  tenv_ok G = true -> env_ok G rho -> fresh_ok fe fresh ->
  check fe G fuel fresh e = COk (a, T) ->
  compile_main ops orc fe a = COk (code, pool) ->
  eval ops orc fe rho f a = (t, o) -> is_fault o = false ->
  exists g0, forall g, (g0 <= g)%nat -> vm_run ops orc rho pool None g code = (t, o).
Proof.
  intros ops orc fe G rho fuel fresh e a T code pool f t o Hfe HG Hrho Hfr Hc Hcm He Hnf.
  eapply vm_correct_annot; try eassumption.
  exact (check_agree ops orc fe G rho fuel fresh Hfe HG Hrho Hfr e a T Hc).
Qed.

Print Assumptions intrinsics_agree.
Print Assumptions vm_correct.
Print Assumptions only_refusal.
Print Assumptions callthread_agrees.
