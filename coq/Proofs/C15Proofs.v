(* C15 proofs: in progress *)
