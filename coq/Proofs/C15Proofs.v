(* Proofs for Props/C15.v: host data converts to well-formed values whose type depends only on the Go shape. *)
From Coq Require Import List String Ascii Bool Arith NArith ZArith Lia.
From Yae Require Import Base.Sexp Model.Ty Model.Unify Model.Num Model.Lexer Model.Val Model.Render Model.ValSpec
  Model.Conv Model.ConvSpec.
From Yae Require Proofs.C17Proofs Proofs.C18Proofs.
Import ListNotations.
Local Open Scope nat_scope.
Local Open Scope list_scope.

(* ------------------------------------------------------------------------------------------------ *)
(* Generic facts                                                                                     *)
(* ------------------------------------------------------------------------------------------------ *)

Lemma bind_some {X Y} (o : option X) (k : X -> option Y) y :
  bind o k = Some y -> exists x, o = Some x /\ k x = Some y.
Proof. destruct o as [x|]; simpl; intros H; [eauto|discriminate]. Qed.

Lemma mapM_Forall2 {X Y} (g : X -> option Y) : forall l ys,
  mapM g l = Some ys -> Forall2 (fun a y => g a = Some y) l ys.
Proof.
  induction l as [|a r IH]; simpl; intros ys H.
  - inversion H; subst. constructor.
  - apply bind_some in H. destruct H as [y [Hy H]].
    apply bind_some in H. destruct H as [ys' [Hys H]]. inversion H; subst.
    constructor; auto.
Qed.

Lemma mapM_cons {X Y} (g : X -> option Y) a r :
  mapM g (a :: r) = (do y <- g a; do ys <- mapM g r; Some (y :: ys)).
Proof. reflexivity. Qed.

(* ------------------------------------------------------------------------------------------------ *)
(* One unfolding of [val_of], with the nested pieces named                                           *)
(* ------------------------------------------------------------------------------------------------ *)

Section Pieces.
  Variable ops : numops.

  Definition conv_fields (f lv : nat) : list (string * string * gty) -> list gv -> option (list (string * val)) :=
    fix go (fs : list (string * string * gty)) (vs : list gv) : option (list (string * val)) :=
      match fs, vs with
      | [], [] => Some []
      | (gn, tag, ft) :: fr, x :: vr =>
          let '(name, maybe) := parse_tag gn tag in
          do fv <- (if is_nil x then
                      do et <- type_of (S maxLevel + S maxLevel) ft 0; Some (VMaybe (TMaybe et) None)
                    else
                      do y <- val_of ops f ft x (S lv);
                      Some (if maybe then VMaybe (TMaybe (val_type y)) (Some y) else y));
          do rest <- go fr vr; Some ((name, fv) :: rest)
      | _, _ => None
      end.

  Definition conv_seq (f lv : nat) (t1 e : gty) (elems : list gv) : option val :=
    match elems with
    | [] => do lt <- type_of (S maxLevel + S maxLevel) t1 lv;
            match lt with TList _ => Some (VList lt []) | _ => None end
    | _ =>
        do xs <- mapM (fun x => val_of ops f e x (S lv)) elems;
        match xs with
        | x0 :: _ => if all_eq_type (val_type x0) xs then Some (VList (TList (val_type x0)) xs) else None
        | [] => None
        end
    end.

  Definition put_entries (kvs : list (val * val)) : option (list (list N * val)) :=
    fold_left (fun acc kx => do a <- acc;
                             match key_of ops (fst kx) with
                             | (_, OVal kk) => Some (kput kk (snd kx) a)
                             | _ => None end) kvs (Some []).

  Definition conv_map (f lv : nat) (t1 kt vt : gty) (entries : list (gv * gv)) : option val :=
    match entries with
    | [] => do mt <- type_of (S maxLevel + S maxLevel) t1 lv;
            match mt with TMap _ _ => Some (VMap mt []) | _ => None end
    | _ =>
        do kvs <- mapM (fun kv => do k <- val_of ops f kt (fst kv) (S lv); do x <- val_of ops f vt (snd kv) (S lv); Some (k, x)) entries;
        match kvs with
        | (k0, x0) :: _ =>
            if all_eq_type (val_type k0) (map fst kvs) && all_eq_type (val_type x0) (map snd kvs) then
              do mt <- mk_mapty (val_type k0) (val_type x0);
              do ents <- put_entries kvs;
              Some (VMap mt ents)
            else None
        | [] => None
        end
    end.

  Definition conv_struct (f lv : nat) (fs : list (string * string * gty)) (vs : list gv) : option val :=
    match fs with
    | [] => Some (VObj (TObj []) [])
    | _ =>
        do xs <- conv_fields f lv fs vs;
        do ot <- mk_obj (map (fun nv => (fst nv, val_type (snd nv))) xs);
        Some (VObj ot (map snd xs))
    end.

  Definition conv_body (f lv : nat) (t1 : gty) (v1 : gv) : option val :=
    match t1, v1 with
    | GTime, HTime s n => Some (VTime s n)
    | GBool, HBool b => Some (VBool b)
    | GInt, HInt z => Some (VNum (of_Z ops z))
    | GUint, HUint n => Some (VNum (of_Z ops (Z.of_N n)))
    | GFloat, HFloat b => Some (VNum b)
    | GString, HString s => Some (VStr s)
    | (GSlice e | GArray e), (HSeq _ | HNil) =>
        conv_seq f lv t1 e (match v1 with HSeq l => l | _ => [] end)
    | GMap kt vt, (HMap _ | HNil) =>
        conv_map f lv t1 kt vt (match v1 with HMap l => l | _ => [] end)
    | GStruct fs, HStruct vs => conv_struct f lv fs vs
    | _, _ => None
    end.

  Lemma val_of_S f t v lv :
    val_of ops (S f) t v lv =
    if Nat.ltb maxLevel lv then None
    else if is_nil v then None
    else match unwrap f t v with
         | None => None
         | Some (t1, v1) => conv_body f lv t1 v1
         end.
  Proof. reflexivity. Qed.
End Pieces.

Lemma type_of_S f t lv :
  type_of (S f) t lv =
  if Nat.ltb maxLevel lv then None else
  match t with
  | GPtr e => type_of f e lv
  | GTime => Some TTime
  | GBool => Some TBool
  | GInt | GUint | GFloat => Some TNum
  | GString => Some TStr
  | GSlice e | GArray e => option_map TList (type_of f e (S lv))
  | GMap k v => do kt <- type_of f k (S lv); do vt <- type_of f v (S lv); mk_mapty kt vt
  | GStruct fs =>
      do fts <- mapM (fun x => let '(gn, tag, ft) := x in
                               let '(name, maybe) := parse_tag gn tag in
                               do t' <- type_of f ft (S lv);
                               Some (name, if maybe then TMaybe t' else t')) fs;
      mk_obj fts
  | GIface | GOther => None
  end.
Proof. reflexivity. Qed.

Lemma unwrap_S f t v :
  unwrap (S f) t v =
  match t, v with
  | GPtr e, HPtr x => unwrap f e x
  | GPtr _, _ => None
  | GIface, HIface dt x => unwrap f dt x
  | GIface, _ => None
  | _, _ => Some (t, v)
  end.
Proof. reflexivity. Qed.

(* ------------------------------------------------------------------------------------------------ *)
(* The computational statements                                                                      *)
(* ------------------------------------------------------------------------------------------------ *)

Lemma conv_fuel_S : conv_fuel = S 399.
Proof. reflexivity. Qed.

Lemma TypeOf_eq ops t v :
  TypeOf ops t v = match ValOf ops t v with Some x => Some (val_type x) | None => type_of conv_fuel t 0 end.
Proof. reflexivity. Qed.

Lemma type_agrees : forall ops t v x T,
  ValOf ops t v = Some x -> TypeOf ops t v = Some T -> T = val_type x.
Proof.
  intros ops t v x T Hv Ht. rewrite TypeOf_eq, Hv in Ht. congruence.
Qed.

Lemma depth_limit : forall ops f t v lv, (maxLevel < lv)%nat -> val_of ops f t v lv = None.
Proof.
  intros ops f t v lv H. destruct f as [|f]; [reflexivity|].
  rewrite val_of_S. apply Nat.ltb_lt in H. rewrite H. reflexivity.
Qed.

Lemma ltb_max_0 : Nat.ltb maxLevel 0 = false.
Proof. reflexivity. Qed.

(* NB: never let the kernel or the unifier compare [val_of] at a concrete fuel with its unfolding: everything is
   proved at a generic fuel and instantiated at the end. *)
Lemma scalars_gen ops f z n b s bits sec ns :
  val_of ops (S (S f)) GInt (HInt z) 0 = Some (VNum (of_Z ops z)) /\
  val_of ops (S (S f)) GUint (HUint n) 0 = Some (VNum (of_Z ops (Z.of_N n))) /\
  val_of ops (S (S f)) GBool (HBool b) 0 = Some (VBool b) /\
  val_of ops (S (S f)) GString (HString s) 0 = Some (VStr s) /\
  val_of ops (S (S f)) GFloat (HFloat bits) 0 = Some (VNum bits) /\
  val_of ops (S (S f)) GTime (HTime sec ns) 0 = Some (VTime sec ns).
Proof.
  rewrite !val_of_S, ltb_max_0, !unwrap_S. repeat split; reflexivity.
Qed.

Lemma scalars : forall ops z n b s bits sec ns,
  ValOf ops GInt (HInt z) = Some (VNum (of_Z ops z)) /\ ValOf ops GUint (HUint n) = Some (VNum (of_Z ops (Z.of_N n))) /\
  ValOf ops GBool (HBool b) = Some (VBool b) /\ ValOf ops GString (HString s) = Some (VStr s) /\
  ValOf ops GFloat (HFloat bits) = Some (VNum bits) /\ ValOf ops GTime (HTime sec ns) = Some (VTime sec ns).
Proof.
  intros. exact (scalars_gen ops 398 z n b s bits sec ns).
Qed.

Lemma errors_gen ops f t :
  val_of ops (S (S f)) t HNil 0 = None /\ val_of ops (S (S f)) GOther HOther 0 = None /\
  (forall e a b xa xb, val_of ops (S f) e a 1 = Some xa -> val_of ops (S f) e b 1 = Some xb ->
                       ty_eqb (val_type xa) (val_type xb) = false ->
                       val_of ops (S (S f)) (GSlice e) (HSeq [a; b]) 0 = None).
Proof.
  rewrite !val_of_S, ltb_max_0, !unwrap_S.
  split; [reflexivity|]. split; [reflexivity|].
  intros e a b xa xb Ha Hb Hne.
  rewrite val_of_S, ltb_max_0, unwrap_S. cbn [is_nil conv_body conv_seq].
  rewrite !mapM_cons, Ha. cbn [bind]. rewrite Hb. cbn [bind mapM].
  unfold all_eq_type. cbn [forallb]. rewrite Hne.
  destruct (ty_eqb (val_type xa) (val_type xa)); reflexivity.
Qed.

Lemma errors : forall ops t,
  ValOf ops t HNil = None /\ ValOf ops GOther HOther = None /\
  (forall e a b xa xb, val_of ops (conv_fuel - 1) e a 1 = Some xa -> val_of ops (conv_fuel - 1) e b 1 = Some xb ->
                       ty_eqb (val_type xa) (val_type xb) = false -> ValOf ops (GSlice e) (HSeq [a; b]) = None).
Proof.
  intros ops t. exact (errors_gen ops 398 t).
Qed.

Lemma seq_order_gen ops f e vs xs t :
  val_of ops (S (S f)) (GSlice e) (HSeq vs) 0 = Some (VList t xs) -> vs <> [] ->
  Forall2 (fun v x => val_of ops (S f) e v 1 = Some x) vs xs.
Proof.
  intros H Hne.
  rewrite val_of_S, ltb_max_0, unwrap_S in H. cbn [is_nil conv_body conv_seq] in H.
  destruct vs as [|v0 vr]; [congruence|].
  apply bind_some in H. destruct H as [ys [Hm H]].
  destruct ys as [|x0 yr]; [discriminate|].
  destruct (all_eq_type (val_type x0) (x0 :: yr)); [|discriminate].
  inversion H; subst. apply mapM_Forall2 in Hm. exact Hm.
Qed.

Lemma seq_order : forall ops e vs xs t,
  ValOf ops (GSlice e) (HSeq vs) = Some (VList t xs) -> vs <> [] ->
  Forall2 (fun v x => val_of ops (conv_fuel - 1) e v 1 = Some x) vs xs.
Proof.
  intros ops e vs xs t. exact (seq_order_gen ops 398 e vs xs t).
Qed.

(* ------------------------------------------------------------------------------------------------ *)
(* Types produced by [type_of] are well formed and variable-free                                     *)
(* ------------------------------------------------------------------------------------------------ *)

Definition good_ty (T : ty) : Prop := wf_ty T = true /\ slot_free T = true.

Lemma mk_obj_some fts T : mk_obj fts = Some T -> nodupb (map fst fts) = true /\ T = TObj fts.
Proof. unfold mk_obj. destruct (nodupb (map fst fts)); intros H; inversion H; auto. Qed.

Lemma mk_mapty_some k v T : mk_mapty k v = Some T -> keyable k = true /\ T = TMap k v.
Proof. unfold mk_mapty. destruct (keyable k); intros H; inversion H; auto. Qed.

Lemma good_obj fts : nodupb (map fst fts) = true -> Forall (fun y => good_ty (snd y)) fts -> good_ty (TObj fts).
Proof.
  intros Hn Hf. unfold good_ty. cbn [wf_ty slot_free]. rewrite Hn. cbn [andb].
  split; apply forallb_forall; intros y Hy; rewrite Forall_forall in Hf; apply (Hf y Hy).
Qed.

Lemma type_of_wf : forall f t lv T, type_of f t lv = Some T -> good_ty T.
Proof.
  induction f as [|f IH]; intros t lv T H; [discriminate|].
  rewrite type_of_S in H. destruct (Nat.ltb maxLevel lv); [discriminate|].
  destruct t as [| | | | | |e|e|e|k v|fs| |]; try discriminate;
    try (inversion H; subst; split; reflexivity).
  - eauto.
  - destruct (type_of f e (S lv)) as [Te|] eqn:E; [|discriminate]. inversion H; subst.
    apply IH in E. exact E.
  - destruct (type_of f e (S lv)) as [Te|] eqn:E; [|discriminate]. inversion H; subst.
    apply IH in E. exact E.
  - apply bind_some in H. destruct H as [kt [Hk H]]. apply bind_some in H. destruct H as [vt [Hv H]].
    apply mk_mapty_some in H. destruct H as [Hkey ->].
    apply IH in Hk. apply IH in Hv. destruct Hk as [Hk1 Hk2]. destruct Hv as [Hv1 Hv2].
    unfold good_ty. cbn [wf_ty slot_free]. rewrite Hkey, Hk1, Hk2, Hv1, Hv2. split; reflexivity.
  - apply bind_some in H. destruct H as [fts [Hm H]].
    apply mk_obj_some in H. destruct H as [Hn ->].
    apply good_obj; [exact Hn|].
    apply mapM_Forall2 in Hm.
    clear Hn. induction Hm as [|[[gn tag] ft] y fr yr Hy Hr IHr]; [constructor|]. constructor; [|exact IHr].
    destruct (parse_tag gn tag) as [name maybe].
    apply bind_some in Hy. destruct Hy as [t' [Ht' Hy]]. inversion Hy; subst. cbn [snd].
    apply IH in Ht'. destruct maybe; exact Ht'.
Qed.

(* ------------------------------------------------------------------------------------------------ *)
(* Converted values are well formed                                                                  *)
(* ------------------------------------------------------------------------------------------------ *)

Definition good (x : val) : Prop := val_ok x = true /\ fun_free x = true.

Lemma good_type x : good x -> good_ty (val_type x).
Proof.
  intros [Hok Hff]. unfold good_ty.
  destruct x as [b|b|s|s n|t vs|t kvs|t vs|t o|t n l]; cbn [val_type]; try (split; reflexivity);
    cbn [val_ok fun_free] in *; try discriminate;
    repeat (apply andb_true_iff in Hok; destruct Hok as [Hok ?]); auto.
Qed.

Lemma good_refl x : good x -> ty_eqb (val_type x) (val_type x) = true.
Proof. intros H. apply C17Proofs.eq_refl. apply (good_type x H). Qed.

Lemma eqb_sym_good a b : good_ty a -> good_ty b -> ty_eqb a b = true -> ty_eqb b a = true.
Proof. intros [Ha _] [Hb _]. apply C17Proofs.eqb_sym_imp; assumption. Qed.

(* kput keeps keys distinct (as in C01Proofs, which is not imported here) *)
Lemma kput_In {X} k (x : X) : forall l kv, In kv (kput k x l) -> kv = (k, x) \/ In kv l.
Proof.
  induction l as [|[k' x'] r IH]; simpl; intros kv H.
  - destruct H as [E|[]]; auto.
  - destruct (list_eqb k k').
    + destruct H as [E|H]; auto.
    + destruct H as [E|H]; [auto|]. destruct (IH _ H); auto.
Qed.

Lemma existsb_keys_kput {X} k0 k (x : X) l :
  existsb (list_eqb k0) (map fst (kput k x l)) = true ->
  list_eqb k0 k = true \/ existsb (list_eqb k0) (map fst l) = true.
Proof.
  intros H. apply existsb_exists in H. destruct H as [k1 [Hin E]].
  apply in_map_iff in Hin. destruct Hin as [kv [E1 Hin]]. subst k1.
  apply kput_In in Hin. destruct Hin as [->|Hin]; [left; exact E|].
  right. apply existsb_exists. exists (fst kv). split; [apply in_map; exact Hin|exact E].
Qed.

Lemma kput_nodup {X} k (x : X) : forall l, nodup_keys (map fst l) = true -> nodup_keys (map fst (kput k x l)) = true.
Proof.
  induction l as [|[k' x'] r IH]; simpl; intros H; [reflexivity|].
  apply andb_true_iff in H. destruct H as [H1 H2]. destruct (list_eqb k k') eqn:E.
  - apply C18Proofs.list_eqb_eq in E. subst k'. simpl. rewrite H1, H2. reflexivity.
  - simpl. rewrite (IH H2), andb_true_r. apply negb_true_iff. apply negb_true_iff in H1.
    destruct (existsb (list_eqb k') (map fst (kput k x r))) eqn:Ex; [|reflexivity].
    apply existsb_keys_kput in Ex. destruct Ex as [Ex|Ex]; [|congruence].
    apply C18Proofs.list_eqb_eq in Ex. subst k'. rewrite C18Proofs.list_eqb_refl in E. discriminate.
Qed.

Section Good.
  Variable ops : numops.
  Variable f : nat.
  Hypothesis IHf : forall t v lv x, val_of ops f t v lv = Some x -> good x.

  Lemma conv_seq_good lv t1 e elems x : conv_seq ops f lv t1 e elems = Some x -> good x.
  Proof.
    unfold conv_seq. destruct elems as [|a r].
    - intros H. apply bind_some in H. destruct H as [lt [Hlt H]].
      apply type_of_wf in Hlt. destruct Hlt as [Hw Hs].
      destruct lt; try discriminate. inversion H; subst.
      split; [|reflexivity]. cbn [val_ok]. rewrite Hw, Hs. reflexivity.
    - intros H. apply bind_some in H. destruct H as [xs [Hm H]].
      destruct xs as [|x0 xr]; [discriminate|].
      destruct (all_eq_type (val_type x0) (x0 :: xr)) eqn:Hall; [|discriminate].
      inversion H; subst. apply mapM_Forall2 in Hm.
      assert (Forall good (x0 :: xr)) as Hg.
      { clear Hall. induction Hm as [|a' y r' yr Hy Hr IHr]; constructor; eauto. }
      assert (good x0) as Hg0 by (inversion Hg; assumption).
      destruct (good_type _ Hg0) as [Hw Hs].
      unfold all_eq_type in Hall. rewrite forallb_forall in Hall. rewrite Forall_forall in Hg.
      split.
      + cbn [val_ok wf_ty slot_free]. rewrite Hw, Hs. cbn [andb].
        apply forallb_forall. intros y Hy. destruct (Hg y Hy) as [Hoy Hfy]. rewrite Hoy. cbn [andb].
        apply eqb_sym_good; [split; assumption|apply good_type; split; assumption|]. apply Hall; exact Hy.
      + cbn [fun_free]. apply forallb_forall. intros y Hy. apply (Hg y Hy).
  Qed.

  Definition put_step := (fun (acc : option (list (list N * val))) (kx : val * val) =>
                            do a <- acc;
                            match key_of ops (fst kx) with
                            | (_, OVal kk) => Some (kput kk (snd kx) a)
                            | _ => None end).

  Lemma put_step_none kvs : fold_left put_step kvs None = None.
  Proof. induction kvs as [|kx r IH]; [reflexivity|]. exact IH. Qed.

  Lemma put_entries_inv (P : val -> Prop) : forall kvs a ents,
    fold_left put_step kvs (Some a) = Some ents ->
    nodup_keys (map fst a) = true -> Forall (fun kv => P (snd kv)) a ->
    Forall (fun kx => P (snd kx)) kvs ->
    nodup_keys (map fst ents) = true /\ Forall (fun kv => P (snd kv)) ents.
  Proof.
    induction kvs as [|kx r IH]; intros a ents H Hn Ha Hk.
    - simpl in H. inversion H; subst. auto.
    - cbn [fold_left] in H. inversion Hk as [|? ? Hkx Hkr]; subst.
      unfold put_step at 2 in H. cbn [bind] in H.
      destruct (key_of ops (fst kx)) as [tr [kk|fk|fk]]; try (rewrite put_step_none in H; discriminate).
      apply IH in H; auto.
      + apply kput_nodup; exact Hn.
      + apply Forall_forall. intros kv Hin. apply kput_In in Hin. destruct Hin as [->|Hin]; [exact Hkx|].
        rewrite Forall_forall in Ha. apply Ha; exact Hin.
  Qed.

  Lemma conv_map_good lv t1 kt vt entries x : conv_map ops f lv t1 kt vt entries = Some x -> good x.
  Proof.
    unfold conv_map. destruct entries as [|a r].
    - intros H. apply bind_some in H. destruct H as [mt [Hmt H]].
      apply type_of_wf in Hmt. destruct Hmt as [Hw Hs].
      destruct mt; try discriminate. inversion H; subst.
      split; [|reflexivity]. cbn [val_ok]. rewrite Hw, Hs. reflexivity.
    - intros H. apply bind_some in H. destruct H as [kvs [Hm H]].
      destruct kvs as [|[k0 x0] kr]; [discriminate|].
      destruct (all_eq_type (val_type k0) (map fst ((k0, x0) :: kr)) &&
                all_eq_type (val_type x0) (map snd ((k0, x0) :: kr))) eqn:Hall; [|discriminate].
      apply andb_true_iff in Hall. destruct Hall as [_ Hall].
      apply bind_some in H. destruct H as [mt [Hmt H]]. apply bind_some in H. destruct H as [ents [He H]].
      inversion H; subst. apply mk_mapty_some in Hmt. destruct Hmt as [Hkey ->].
      apply mapM_Forall2 in Hm.
      assert (Forall (fun kx => good (fst kx) /\ good (snd kx)) ((k0, x0) :: kr)) as Hg.
      { clear Hall He. induction Hm as [|a' y r' yr Hy Hr IHr]; constructor; auto.
        apply bind_some in Hy. destruct Hy as [k [Hk Hy]]. apply bind_some in Hy. destruct Hy as [x' [Hx Hy]].
        inversion Hy; subst. cbn [fst snd]. split; eauto. }
      assert (good k0 /\ good x0) as [Hgk Hgx] by (inversion Hg; assumption).
      destruct (good_type _ Hgk) as [Hwk Hsk]. destruct (good_type _ Hgx) as [Hwx Hsx].
      unfold all_eq_type in Hall. rewrite forallb_forall in Hall.
      unfold put_entries in He. fold put_step in He.
      apply (put_entries_inv (fun x => good x /\ ty_eqb (val_type x) (val_type x0) = true)) in He;
        [|reflexivity|constructor|].
      + destruct He as [Hn Hents]. rewrite Forall_forall in Hents. split.
        * cbn [val_ok wf_ty slot_free]. rewrite Hkey, Hwk, Hsk, Hwx, Hsx, Hn. cbn [andb].
          apply forallb_forall. intros kv Hin. destruct (Hents kv Hin) as [[Ho _] Ht]. rewrite Ho, Ht. reflexivity.
        * cbn [fun_free]. apply forallb_forall. intros kv Hin. apply (Hents kv Hin).
      + apply Forall_forall. intros kx Hin. rewrite Forall_forall in Hg. destruct (Hg kx Hin) as [_ Hgx'].
        split; [exact Hgx'|].
        apply eqb_sym_good; [split; assumption|apply good_type; exact Hgx'|].
        apply Hall. apply in_map. exact Hin.
  Qed.
End Good.

Definition obj_go : list (string * ty) -> list val -> bool :=
  fix go (fs : list (string * ty)) (vs : list val) {struct vs} : bool :=
    match fs, vs with
    | (_, ft) :: fr, x :: r => val_ok x && ty_eqb (val_type x) ft && go fr r
    | _, [] => true
    | [], _ :: _ => false
    end.

Lemma val_ok_obj fs vs :
  val_ok (VObj (TObj fs) vs) =
  wf_ty (TObj fs) && slot_free (TObj fs) && (Nat.eqb (len fs) (len vs) && obj_go fs vs).
Proof. reflexivity. Qed.

Definition own_fields (xs : list (string * val)) : list (string * ty) :=
  map (fun nv => (fst nv, val_type (snd nv))) xs.

Lemma own_fields_ok xs : Forall (fun nv => good (snd nv)) xs ->
  good_ty (TObj (own_fields xs)) -> good (VObj (TObj (own_fields xs)) (map snd xs)).
Proof.
  intros Hg [Hw Hs]. split.
  - rewrite val_ok_obj, Hw, Hs. cbn [andb]. apply andb_true_iff. split.
    + unfold own_fields, len. rewrite !map_length. apply Nat.eqb_refl.
    + clear Hw Hs. induction Hg as [|[n x] r Hx Hr IH]; [reflexivity|].
      cbn [own_fields map obj_go fst snd]. cbn [snd] in Hx. destruct Hx as [Hox Hfx].
      rewrite Hox, (good_refl x (conj Hox Hfx)). exact IH.
  - cbn [fun_free]. apply forallb_forall. intros y Hy. apply in_map_iff in Hy. destruct Hy as [nv [<- Hin]].
    rewrite Forall_forall in Hg. apply (Hg nv Hin).
Qed.

Section Good2.
  Variable ops : numops.
  Variable f : nat.
  Hypothesis IHf : forall t v lv x, val_of ops f t v lv = Some x -> good x.

  Lemma conv_fields_good lv : forall fs vs xs,
    conv_fields ops f lv fs vs = Some xs -> Forall (fun nv => good (snd nv)) xs.
  Proof.
    induction fs as [|[[gn tag] ft] fr IH]; intros [|v vr] xs H; cbn [conv_fields] in H; try discriminate.
    - inversion H; subst. constructor.
    - destruct (parse_tag gn tag) as [name maybe].
      apply bind_some in H. destruct H as [fv [Hfv H]]. apply bind_some in H. destruct H as [rest [Hrest H]].
      inversion H; subst. constructor; [|eapply IH; exact Hrest]. cbn [snd].
      destruct (is_nil v).
      + apply bind_some in Hfv. destruct Hfv as [et [Het Hfv]]. inversion Hfv; subst.
        apply type_of_wf in Het. destruct Het as [Hw Hs]. split; [|reflexivity].
        cbn [val_ok wf_ty slot_free]. rewrite Hw, Hs. reflexivity.
      + apply bind_some in Hfv. destruct Hfv as [y [Hy Hfv]]. inversion Hfv; subst.
        apply IHf in Hy. destruct maybe; [|exact Hy].
        destruct (good_type _ Hy) as [Hw Hs]. destruct Hy as [Ho Hf]. split; [|exact Hf].
        cbn [val_ok wf_ty slot_free]. rewrite Hw, Hs, Ho, (good_refl y (conj Ho Hf)). reflexivity.
  Qed.

  Lemma conv_struct_good lv fs vs x : conv_struct ops f lv fs vs = Some x -> good x.
  Proof.
    unfold conv_struct. destruct fs as [|fd fr].
    - intros H. inversion H; subst. split; reflexivity.
    - intros H. apply bind_some in H. destruct H as [xs [Hxs H]]. apply bind_some in H. destruct H as [ot [Hot H]].
      inversion H; subst. apply mk_obj_some in Hot. destruct Hot as [Hn ->].
      apply conv_fields_good in Hxs. fold (own_fields xs) in *.
      apply own_fields_ok; [exact Hxs|].
      apply good_obj; [exact Hn|].
      unfold own_fields. apply Forall_forall. intros y Hy. apply in_map_iff in Hy. destruct Hy as [nv [<- Hin]].
      cbn [snd]. apply good_type. rewrite Forall_forall in Hxs. apply (Hxs nv Hin).
  Qed.

  Lemma conv_body_good lv t1 v1 x : conv_body ops f lv t1 v1 = Some x -> good x.
  Proof.
    intros H.
    destruct t1 as [| | | | | |e|e|e|k v|fs| |]; destruct v1; cbn [conv_body] in H; try discriminate H.
    all: try (match type of H with Some _ = Some _ => injection H as <-; split; reflexivity end).
    all: try (eapply conv_seq_good; [exact IHf|exact H]).
    all: try (eapply conv_map_good; [exact IHf|exact H]).
    eapply conv_struct_good; exact H.
  Qed.
End Good2.

Lemma val_of_good ops : forall f t v lv x, val_of ops f t v lv = Some x -> good x.
Proof.
  induction f as [|f IH]; intros t v lv x H; [discriminate|].
  rewrite val_of_S in H.
  destruct (Nat.ltb maxLevel lv); [discriminate|]. destruct (is_nil v); [discriminate|].
  destruct (unwrap f t v) as [[t1 v1]|]; [|discriminate].
  eapply conv_body_good; eauto.
Qed.

Lemma valof_wf : forall ops t v x, ValOf ops t v = Some x -> val_ok x = true /\ fun_free x = true.
Proof. intros ops t v x. unfold ValOf. change (val_ok x = true /\ fun_free x = true) with (good x). apply val_of_good. Qed.

(* ------------------------------------------------------------------------------------------------ *)
(* The type depends only on the Go shape                                                             *)
(* ------------------------------------------------------------------------------------------------ *)

Lemma Forall2_det {X Y} (g : X -> option Y) : forall l ys1 ys2,
  Forall2 (fun a y => g a = Some y) l ys1 -> Forall2 (fun a y => g a = Some y) l ys2 -> ys1 = ys2.
Proof.
  induction l as [|a r IH]; intros ys1 ys2 H1 H2; inversion H1; inversion H2; subst; [reflexivity|].
  f_equal; [congruence|auto].
Qed.

(* a successful [type_of] does not depend on the fuel nor on the level *)
Lemma type_of_det : forall f1 t l1 T1 f2 l2 T2,
  type_of f1 t l1 = Some T1 -> type_of f2 t l2 = Some T2 -> T1 = T2.
Proof.
  induction f1 as [|f1 IH]; intros t l1 T1 f2 l2 T2 H1 H2; [discriminate|].
  destruct f2 as [|f2]; [discriminate|].
  rewrite type_of_S in H1, H2.
  destruct (Nat.ltb maxLevel l1); [discriminate|]. destruct (Nat.ltb maxLevel l2); [discriminate|].
  destruct t as [| | | | | |e|e|e|k v|fs| |]; try discriminate; try congruence.
  - eauto.
  - destruct (type_of f1 e (S l1)) as [TA|] eqn:E1; [|discriminate].
    destruct (type_of f2 e (S l2)) as [TB|] eqn:E2; [|discriminate].
    cbn [option_map] in *. rewrite (IH _ _ _ _ _ _ E1 E2) in H1. congruence.
  - destruct (type_of f1 e (S l1)) as [TA|] eqn:E1; [|discriminate].
    destruct (type_of f2 e (S l2)) as [TB|] eqn:E2; [|discriminate].
    cbn [option_map] in *. rewrite (IH _ _ _ _ _ _ E1 E2) in H1. congruence.
  - apply bind_some in H1. destruct H1 as [k1 [Hk1 H1]]. apply bind_some in H1. destruct H1 as [v1 [Hv1 H1]].
    apply bind_some in H2. destruct H2 as [k2 [Hk2 H2]]. apply bind_some in H2. destruct H2 as [v2 [Hv2 H2]].
    rewrite (IH _ _ _ _ _ _ Hk1 Hk2), (IH _ _ _ _ _ _ Hv1 Hv2) in H1. congruence.
  - apply bind_some in H1. destruct H1 as [fts1 [Hm1 H1]].
    apply bind_some in H2. destruct H2 as [fts2 [Hm2 H2]].
    assert (E : fts1 = fts2); [|subst; congruence].
    clear H1 H2. revert fts1 fts2 Hm1 Hm2.
    induction fs as [|[[gn tag] ft] fr IHfs]; intros fts1 fts2 Hm1 Hm2.
    + simpl in Hm1, Hm2. congruence.
    + rewrite mapM_cons in Hm1, Hm2. destruct (parse_tag gn tag) as [name maybe].
      apply bind_some in Hm1. destruct Hm1 as [y1 [Hy1 Hm1]]. apply bind_some in Hm1. destruct Hm1 as [r1 [Hr1 Hm1]].
      apply bind_some in Hm2. destruct Hm2 as [y2 [Hy2 Hm2]]. apply bind_some in Hm2. destruct Hm2 as [r2 [Hr2 Hm2]].
      apply bind_some in Hy1. destruct Hy1 as [t1 [Ht1 Hy1]].
      apply bind_some in Hy2. destruct Hy2 as [t2 [Ht2 Hy2]].
      rewrite (IH _ _ _ _ _ _ Ht1 Ht2) in Hy1. rewrite (IHfs _ _ Hr1 Hr2) in Hm1. congruence.
Qed.

Lemma shape_stable_S g t v d :
  shape_stable (S g) t v d =
  match t, v with
  | _, HNil => d && match t with GPtr _ | GSlice _ | GMap _ _ => true | _ => false end
  | GBool, HBool _ | GInt, HInt _ | GUint, HUint _ | GFloat, HFloat _ | GString, HString _ | GTime, HTime _ _ => true
  | GPtr e, HPtr x => shape_stable g e x false
  | (GSlice e | GArray e), HSeq vs => forallb (fun x => shape_stable g e x false) vs
  | GMap k e, HMap kvs => forallb (fun kx => shape_stable g k (fst kx) false && shape_stable g e (snd kx) false) kvs
  | GStruct fs, HStruct vs =>
      Nat.eqb (len fs) (len vs) &&
      forallb (fun fx => let '(gn, tag, ft) := fst fx in shape_stable g ft (snd fx) (snd (parse_tag gn tag))) (combine fs vs)
  | _, _ => false
  end.
Proof. reflexivity. Qed.

Lemma shape_stable_nonnil g t v d d' : is_nil v = false -> shape_stable g t v d = shape_stable g t v d'.
Proof.
  intros Hn. destruct g as [|g]; [reflexivity|]. rewrite !shape_stable_S.
  destruct v; try discriminate Hn; destruct t; reflexivity.
Qed.

Lemma shape_stable_nil g t d : shape_stable g t HNil d = true -> d = true.
Proof.
  destruct g as [|g]; [discriminate|]. rewrite shape_stable_S. intros H.
  destruct d; [reflexivity|]. destruct t; discriminate H.
Qed.

Lemma unwrap_shape : forall f t v t1 v1, unwrap f t v = Some (t1, v1) -> iface_free t = true ->
  forall g, shape_stable g t v false = true -> forall h l T, type_of h t l = Some T ->
  iface_free t1 = true /\ (exists g', shape_stable g' t1 v1 false = true) /\ (exists h', type_of h' t1 l = Some T).
Proof.
  induction f as [|f IH]; intros t v t1 v1 H Hi g Hs h l T Ht; [discriminate|].
  rewrite unwrap_S in H.
  destruct t as [| | | | | |e|e|e|k w|fs| |]; try discriminate Hi;
    try (inversion H; subst; split; [exact Hi|split; eauto]).
  destruct v; try discriminate H.
  destruct g as [|g]; [discriminate|]. rewrite shape_stable_S in Hs.
  destruct h as [|h]; [discriminate|]. rewrite type_of_S in Ht.
  destruct (Nat.ltb maxLevel l); [discriminate|].
  eapply IH; eauto.
Qed.

Definition field_rel (a b : string * ty) : Prop := fst a = fst b /\ ty_eqb (snd a) (snd b) = true.

Lemma Forall2_In_l {X Y} (R : X -> Y -> Prop) : forall l1 l2 a,
  Forall2 R l1 l2 -> In a l1 -> exists b, In b l2 /\ R a b.
Proof.
  induction 1 as [|x y r1 r2 Hxy Hr IH]; intros Hin; [contradiction|].
  destruct Hin as [<-|Hin]; [exists y; split; [left; reflexivity|exact Hxy]|].
  destruct (IH Hin) as [b [Hb Hab]]. exists b. split; [right; exact Hb|exact Hab].
Qed.

Lemma Forall2_len {X Y} (R : X -> Y -> Prop) l1 l2 : Forall2 R l1 l2 -> List.length l1 = List.length l2.
Proof. induction 1; simpl; congruence. Qed.

Lemma obj_eqb_pointwise f1 f2 :
  Forall2 field_rel f1 f2 -> nodupb (map fst f2) = true -> ty_eqb (TObj f1) (TObj f2) = true.
Proof.
  intros HF Hn. apply C17Proofs.ty_eqb_obj_spec. split; [eapply Forall2_len; exact HF|].
  intros n t Hin. destruct (Forall2_In_l _ _ _ _ HF Hin) as [[n' t'] [Hb [E1 E2]]].
  cbn [fst snd] in *. subst n'. exists t'. split; [|exact E2].
  apply C17Proofs.In_assoc; [apply C17Proofs.nodupb_NoDup; exact Hn|exact Hb].
Qed.

Definition field_ty (h l : nat) (x : string * string * gty) : option (string * ty) :=
  let '(gn, tag, ft) := x in
  let '(name, maybe) := parse_tag gn tag in
  do t' <- type_of h ft (S l);
  Some (name, if maybe then TMaybe t' else t').

Section Shape.
  Variable ops : numops.
  Variable f : nat.
  Hypothesis IHf : forall t v lv x, val_of ops f t v lv = Some x -> iface_free t = true ->
    forall g, shape_stable g t v false = true -> forall h l T, type_of h t l = Some T ->
    ty_eqb (val_type x) T = true.

  Lemma conv_seq_shape lv t1 e elems x h l T :
    conv_seq ops f lv t1 e elems = Some x -> t1 = GSlice e \/ t1 = GArray e -> iface_free e = true ->
    (forall a, In a elems -> exists g, shape_stable g e a false = true) ->
    type_of h t1 l = Some T -> ty_eqb (val_type x) T = true.
  Proof.
    unfold conv_seq. intros H Ht1 Hi Hs HT. destruct elems as [|a r].
    - apply bind_some in H. destruct H as [lt [Hlt H]].
      destruct lt; try discriminate. inversion H; subst x. cbn [val_type].
      rewrite (type_of_det _ _ _ _ _ _ _ HT Hlt). apply C17Proofs.eq_refl. apply (type_of_wf _ _ _ _ Hlt).
    - apply bind_some in H. destruct H as [xs [Hm H]].
      destruct xs as [|x0 xr]; [discriminate|].
      destruct (all_eq_type (val_type x0) (x0 :: xr)); [|discriminate].
      inversion H; subst x. cbn [val_type].
      rewrite mapM_cons in Hm. apply bind_some in Hm. destruct Hm as [y [Hy Hm]].
      apply bind_some in Hm. destruct Hm as [ys [_ Hm]]. inversion Hm; subst y ys.
      destruct (Hs a (or_introl Logic.eq_refl)) as [g Hg].
      destruct h as [|h]; [discriminate|]. rewrite type_of_S in HT.
      destruct (Nat.ltb maxLevel l); [discriminate|].
      assert (option_map TList (type_of h e (S l)) = Some T) as HT' by (destruct Ht1; subst t1; exact HT).
      destruct (type_of h e (S l)) as [Te|] eqn:ETe; [|discriminate]. inversion HT'; subst T.
      cbn [ty_eqb]. eapply IHf; eauto.
  Qed.

  Lemma conv_map_shape lv kt vt entries x h l T :
    conv_map ops f lv (GMap kt vt) kt vt entries = Some x -> iface_free kt = true -> iface_free vt = true ->
    (forall kv, In kv entries -> exists g, shape_stable g kt (fst kv) false = true /\ shape_stable g vt (snd kv) false = true) ->
    type_of h (GMap kt vt) l = Some T -> ty_eqb (val_type x) T = true.
  Proof.
    unfold conv_map. intros H Hik Hiv Hs HT. destruct entries as [|a r].
    - apply bind_some in H. destruct H as [mt [Hmt H]].
      destruct mt; try discriminate. inversion H; subst x. cbn [val_type].
      rewrite (type_of_det _ _ _ _ _ _ _ HT Hmt). apply C17Proofs.eq_refl. apply (type_of_wf _ _ _ _ Hmt).
    - apply bind_some in H. destruct H as [kvs [Hm H]].
      destruct kvs as [|[k0 x0] kr]; [discriminate|].
      destruct (all_eq_type (val_type k0) (map fst ((k0, x0) :: kr)) &&
                all_eq_type (val_type x0) (map snd ((k0, x0) :: kr))); [|discriminate].
      apply bind_some in H. destruct H as [mt [Hmt H]]. apply bind_some in H. destruct H as [ents [_ H]].
      inversion H; subst x. cbn [val_type]. apply mk_mapty_some in Hmt. destruct Hmt as [_ ->].
      rewrite mapM_cons in Hm. apply bind_some in Hm. destruct Hm as [y [Hy Hm]].
      apply bind_some in Hm. destruct Hm as [ys [_ Hm]]. inversion Hm; subst y ys.
      apply bind_some in Hy. destruct Hy as [k [Hk Hy]]. apply bind_some in Hy. destruct Hy as [x' [Hx Hy]].
      inversion Hy; subst k x'.
      destruct (Hs a (or_introl Logic.eq_refl)) as [g [Hgk Hgv]].
      destruct h as [|h]; [discriminate|]. rewrite type_of_S in HT.
      destruct (Nat.ltb maxLevel l); [discriminate|].
      apply bind_some in HT. destruct HT as [Tk [HTk HT]]. apply bind_some in HT. destruct HT as [Tv [HTv HT]].
      apply mk_mapty_some in HT. destruct HT as [_ ->].
      cbn [ty_eqb]. apply andb_true_iff. split; eapply IHf; eauto.
  Qed.

  Lemma conv_fields_shape lv g h l : forall fs vs xs fts,
    conv_fields ops f lv fs vs = Some xs ->
    forallb (fun fd => iface_free (snd fd)) fs = true ->
    forallb (fun fx => let '(gn, tag, ft) := fst fx in shape_stable g ft (snd fx) (snd (parse_tag gn tag))) (combine fs vs) = true ->
    mapM (field_ty h l) fs = Some fts ->
    Forall2 field_rel (own_fields xs) fts.
  Proof.
    induction fs as [|[[gn tag] ft] fr IH]; intros [|v vr] xs fts H Hi Hs HT; cbn [conv_fields] in H; try discriminate.
    - inversion H; subst. simpl in HT. inversion HT; subst. constructor.
    - rewrite mapM_cons in HT. cbn [field_ty] in HT. cbn [combine forallb fst snd] in Hs, Hi.
      destruct (parse_tag gn tag) as [name maybe]. cbn [snd] in Hs.
      apply andb_true_iff in Hs. destruct Hs as [Hs1 Hs2]. apply andb_true_iff in Hi. destruct Hi as [Hi1 Hi2].
      apply bind_some in H. destruct H as [fv [Hfv H]]. apply bind_some in H. destruct H as [rest [Hrest H]].
      inversion H; subst xs.
      apply bind_some in HT. destruct HT as [y [Hy HT]]. apply bind_some in HT. destruct HT as [ftr [Hftr HT]].
      inversion HT; subst fts.
      apply bind_some in Hy. destruct Hy as [t' [Ht' Hy]]. inversion Hy; subst y.
      cbn [own_fields map fst snd]. constructor; [|apply (IH vr rest ftr Hrest Hi2 Hs2 Hftr)].
      split; [reflexivity|]. cbn [snd].
      destruct (is_nil v) eqn:Hnil.
      + destruct v; try discriminate Hnil. apply shape_stable_nil in Hs1. subst maybe.
        apply bind_some in Hfv. destruct Hfv as [et [Het Hfv]]. inversion Hfv; subst fv. cbn [val_type ty_eqb].
        rewrite (type_of_det _ _ _ _ _ _ _ Het Ht'). apply C17Proofs.eq_refl. apply (type_of_wf _ _ _ _ Ht').
      + apply bind_some in Hfv. destruct Hfv as [y [Hy' Hfv]]. inversion Hfv; subst fv.
        rewrite (shape_stable_nonnil g ft v maybe false Hnil) in Hs1.
        assert (ty_eqb (val_type y) t' = true) as E by (eapply IHf; eauto).
        destruct maybe; cbn [val_type ty_eqb]; exact E.
  Qed.

  Lemma conv_struct_shape lv fs vs x g h l T :
    conv_struct ops f lv fs vs = Some x ->
    forallb (fun fd => iface_free (snd fd)) fs = true ->
    shape_stable g (GStruct fs) (HStruct vs) false = true ->
    type_of h (GStruct fs) l = Some T -> ty_eqb (val_type x) T = true.
  Proof.
    intros H Hi Hs HT.
    destruct h as [|h]; [discriminate|]. rewrite type_of_S in HT.
    destruct (Nat.ltb maxLevel l); [discriminate|].
    apply bind_some in HT. destruct HT as [fts [Hfts HT]]. apply mk_obj_some in HT. destruct HT as [Hn ->].
    unfold conv_struct in H. destruct fs as [|fd fr].
    - inversion H; subst x. simpl in Hfts. inversion Hfts; subst fts. reflexivity.
    - apply bind_some in H. destruct H as [xs [Hxs H]]. apply bind_some in H. destruct H as [ot [Hot H]].
      inversion H; subst x. cbn [val_type]. apply mk_obj_some in Hot. destruct Hot as [_ ->].
      destruct g as [|g]; [discriminate|]. rewrite shape_stable_S in Hs.
      apply andb_true_iff in Hs. destruct Hs as [_ Hs].
      apply obj_eqb_pointwise; [|exact Hn].
      exact (conv_fields_shape lv g h l _ _ _ _ Hxs Hi Hs Hfts).
  Qed.
End Shape.

Lemma scalar_type h t l T R :
  type_of h t l = Some T ->
  match t with GBool => R = TBool | GInt | GUint | GFloat => R = TNum | GString => R = TStr | GTime => R = TTime
             | _ => False end ->
  ty_eqb R T = true.
Proof.
  intros HT HR. destruct h as [|h]; [discriminate|]. rewrite type_of_S in HT.
  destruct (Nat.ltb maxLevel l); [discriminate|].
  destruct t; try contradiction; inversion HT; subst; reflexivity.
Qed.

Lemma shape_gen ops : forall f t v lv x, val_of ops f t v lv = Some x -> iface_free t = true ->
  forall g, shape_stable g t v false = true -> forall h l T, type_of h t l = Some T ->
  ty_eqb (val_type x) T = true.
Proof.
  induction f as [|f IH]; intros t v lv x H Hi g Hs h l T HT; [discriminate|].
  rewrite val_of_S in H.
  destruct (Nat.ltb maxLevel lv); [discriminate|]. destruct (is_nil v); [discriminate|].
  destruct (unwrap f t v) as [[t1 v1]|] eqn:Hu; [|discriminate].
  destruct (unwrap_shape _ _ _ _ _ Hu Hi g Hs h l T HT) as [Hi1 [[g1 Hs1] [h1 HT1]]].
  clear Hu Hi Hs HT t v g h.
  destruct g1 as [|g1]; [discriminate|]. rewrite shape_stable_S in Hs1.
  destruct t1 as [| | | | | |e|e|e|k w|fs| |]; destruct v1; cbn [conv_body] in H; try discriminate H;
    try discriminate Hs1.
  all: try (match type of H with Some _ = Some _ =>
              injection H as <-; cbn [val_type]; eapply scalar_type; [exact HT1|reflexivity] end).
  - (* slice *)
    eapply (conv_seq_shape ops f IH); [exact H|left; reflexivity|exact Hi1| |exact HT1].
    intros a Ha. exists g1. rewrite forallb_forall in Hs1. apply Hs1; exact Ha.
  - (* array *)
    eapply (conv_seq_shape ops f IH); [exact H|right; reflexivity|exact Hi1| |exact HT1].
    intros a Ha. exists g1. rewrite forallb_forall in Hs1. apply Hs1; exact Ha.
  - (* map *)
    cbn [iface_free] in Hi1. apply andb_true_iff in Hi1. destruct Hi1 as [Hik Hiv].
    eapply (conv_map_shape ops f IH); [exact H|exact Hik|exact Hiv| |exact HT1].
    intros kv Hkv. exists g1. rewrite forallb_forall in Hs1. apply andb_true_iff. apply Hs1; exact Hkv.
  - (* struct *)
    eapply (conv_struct_shape ops f IH); [exact H|exact Hi1| |exact HT1].
    rewrite shape_stable_S. exact Hs1.
Qed.

Lemma shape_only : forall ops t v x T,
  iface_free t = true -> shape_stable conv_fuel t v false = true ->
  ValOf ops t v = Some x -> type_of conv_fuel t 0 = Some T ->
  ty_eqb (val_type x) T = true.
Proof.
  intros ops t v x T Hi Hs. unfold ValOf. generalize conv_fuel. intros n Hv HT.
  exact (shape_gen ops _ _ _ _ _ Hv Hi _ Hs _ _ _ HT).
Qed.

Print Assumptions valof_wf.
Print Assumptions type_agrees.
Print Assumptions shape_only.
Print Assumptions errors.
Print Assumptions depth_limit.
Print Assumptions scalars.
Print Assumptions seq_order.
