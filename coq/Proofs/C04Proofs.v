(* Proofs for Props/C04.v: operators and built-in functions compute their documented results.
   All ten statements hold of the model as stated. *)
From Coq Require Import List String Ascii Bool Arith NArith ZArith Lia.
From Yae Require Import Base.Sexp Model.Ty Gen.Generated Model.Num Model.Lexer Model.Literal Model.Val Model.Render
  Model.Builtins Proofs.C18Proofs.
Import ListNotations.
Local Open Scope list_scope.

(* ------------------------------------------------------------------------------------------------ *)
(* The built-in table                                                                                *)
(* ------------------------------------------------------------------------------------------------ *)

Lemma all_modelled :
  forallb (fun row => let '(n, ps, r, lz) := row in match classify n ps with Some _ => true | None => false end)
    builtin_sigs = true.
Proof. vm_compute. reflexivity. Qed.

(* ------------------------------------------------------------------------------------------------ *)
(* Small facts                                                                                       *)
(* ------------------------------------------------------------------------------------------------ *)

Lemma mbind_ret_l {X Y} (x : X) (f : X -> M Y) : mbind (ret x) f = f x.
Proof. unfold mbind, ret. destruct (f x) as [t o]. reflexivity. Qed.

Lemma existsb_list_eqb h seen : existsb (list_eqb h) seen = true <-> In h seen.
Proof.
  rewrite existsb_exists. split.
  - intros [k [Hin Heq]]. apply list_eqb_eq in Heq. subst k. exact Hin.
  - intros Hin. exists h. split; [exact Hin|apply list_eqb_refl].
Qed.

Lemma existsb_keys {X} (k : list N) (s : list (list N * X)) :
  existsb (fun kx => list_eqb (fst kx) k) s = true <-> In k (map fst s).
Proof.
  rewrite existsb_exists, in_map_iff. split.
  - intros [kx [Hin Heq]]. apply list_eqb_eq in Heq. exists kx. split; assumption.
  - intros [kx [Heq Hin]]. exists kx. split; [exact Hin|]. rewrite Heq. apply list_eqb_refl.
Qed.

Lemma NoDup_app_intro {X} (l1 l2 : list X) :
  NoDup l1 -> NoDup l2 -> (forall a, In a l1 -> ~ In a l2) -> NoDup (l1 ++ l2).
Proof.
  induction l1 as [|a l1 IH]; intros H1 H2 Hd; [exact H2|].
  inversion H1 as [|a' l' Hna Hnd]; subst. simpl. constructor.
  - rewrite in_app_iff. intros [Hin|Hin]; [exact (Hna Hin)|]. exact (Hd a (or_introl Logic.eq_refl) Hin).
  - apply IH; [exact Hnd|exact H2|]. intros b Hb. apply Hd. right. exact Hb.
Qed.

Lemma NoDup_map_filter {X Y} (g : X -> Y) (f : X -> bool) (l : list X) :
  NoDup (map g l) -> NoDup (map g (filter f l)).
Proof.
  induction l as [|a l IH]; intros H; [constructor|].
  simpl in H. inversion H as [|a' l' Hna Hnd]; subst. simpl.
  destruct (f a); [|exact (IH Hnd)]. simpl. constructor; [|exact (IH Hnd)].
  intros Hin. apply Hna. apply in_map_iff in Hin. destruct Hin as [b [Hb Hin]].
  apply filter_In in Hin. apply in_map_iff. exists b. split; [exact Hb|apply Hin].
Qed.

Lemma In_keys_pair {X} (k : list N) (s : list (list N * X)) : In k (map fst s) -> exists x, In (k, x) s.
Proof.
  intros H. apply in_map_iff in H. destruct H as [[k' x] [Hk Hin]]. simpl in Hk. subst k'. exists x. exact Hin.
Qed.

(* ------------------------------------------------------------------------------------------------ *)
(* Set operations                                                                                    *)
(* ------------------------------------------------------------------------------------------------ *)

Section Sets.
  Variable ops : numops.

  (* the invariant of valSetOf *)
  Lemma valset_inv : forall vs seen,
    NoDup (map fst (valset ops vs seen)) /\
    (forall h, In h (map fst (valset ops vs seen)) -> ~ In h seen) /\
    (forall h v, In (h, v) (valset ops vs seen) -> h = render ops v /\ In v vs) /\
    (forall v, In v vs -> In (render ops v) seen \/ In (render ops v) (map fst (valset ops vs seen))).
  Proof.
    induction vs as [|v0 r IH]; intros seen.
    - simpl. split; [constructor|]. split; [intros h []|]. split; [intros h v []|intros v []].
    - cbn [valset]. cbv zeta.
      destruct (existsb (list_eqb (render ops v0)) seen) eqn:Ex.
      + destruct (IH seen) as (I1 & I2 & I3 & I4).
        split; [exact I1|]. split; [exact I2|]. split.
        * intros h v Hin. destruct (I3 h v Hin) as [Hh Hv]. split; [exact Hh|right; exact Hv].
        * intros v [Hv|Hv]; [|exact (I4 v Hv)]. subst v. left. apply existsb_list_eqb. exact Ex.
      + destruct (IH (render ops v0 :: seen)) as (I1 & I2 & I3 & I4).
        assert (~ In (render ops v0) seen) as Hns.
        { intros Hin. apply existsb_list_eqb in Hin. congruence. }
        split; [|split; [|split]].
        * simpl. constructor; [|exact I1]. intros Hin. apply (I2 _ Hin). left. reflexivity.
        * simpl. intros h [Hh|Hh]; [subst h; exact Hns|]. intros Hin. apply (I2 _ Hh). right. exact Hin.
        * intros h v [Hin|Hin].
          { injection Hin as <- <-. split; [reflexivity|left; reflexivity]. }
          { destruct (I3 h v Hin) as [Hh Hv]. split; [exact Hh|right; exact Hv]. }
        * intros v [Hv|Hv].
          { subst v. right. left. reflexivity. }
          { destruct (I4 v Hv) as [[Hh|Hh]|Hh].
            - right. left. exact Hh.
            - left. exact Hh.
            - right. right. exact Hh. }
  Qed.

  Lemma valset_nodup vs : NoDup (map fst (valset ops vs [])).
  Proof. apply valset_inv. Qed.

  Lemma valset_pair vs h v : In (h, v) (valset ops vs []) -> h = render ops v /\ In v vs.
  Proof. apply valset_inv. Qed.

  Lemma valset_complete vs v : In v vs -> exists w, In (render ops v, w) (valset ops vs []) /\ render ops v = render ops w.
  Proof.
    intros Hv. destruct (valset_inv vs []) as (_ & _ & I3 & I4).
    destruct (I4 v Hv) as [[]|Hk]. apply In_keys_pair in Hk. destruct Hk as [w Hw].
    exists w. split; [exact Hw|]. apply (I3 _ _ Hw).
  Qed.

  Lemma keyed_render (s : list (list N * val)) :
    (forall h v, In (h, v) s -> h = render ops v) -> map (render ops) (map snd s) = map fst s.
  Proof.
    induction s as [|[h v] s IH]; intros H; [reflexivity|]. simpl. f_equal.
    - symmetry. apply H. left. reflexivity.
    - apply IH. intros h' v' Hin. apply H. right. exact Hin.
  Qed.

  Lemma keyed_render_filter f vs :
    map (render ops) (map snd (filter f (valset ops vs []))) = map fst (filter f (valset ops vs [])).
  Proof.
    apply keyed_render. intros h v Hin. apply filter_In in Hin. apply (valset_pair vs). apply Hin.
  Qed.

  Lemma union_spec : forall x y,
    let u := set_union ops x y in
    NoDup (map (render ops) u) /\
    (forall v, In v u -> In v x \/ In v y) /\
    (forall v, In v x \/ In v y -> exists w, In w u /\ render ops v = render ops w) /\
    (exists ux uy, u = ux ++ uy /\ (forall v, In v ux -> In v x) /\
       (forall v, In v uy -> In v y /\ forall w, In w x -> ~ render ops v = render ops w)).
  Proof.
    intros x y. cbv zeta. unfold set_union.
    set (sx := valset ops x []). set (sy := valset ops y []).
    set (f := fun kv : list N * val => negb (existsb (fun kx : list N * val => list_eqb (fst kx) (fst kv)) sx)).
    assert (forall v, In v (map snd sx) -> In v x) as Hux.
    { intros v Hin. apply in_map_iff in Hin. destruct Hin as [[h v'] [Hv Hin]]. simpl in Hv. subst v'.
      apply (valset_pair x h v Hin). }
    assert (forall v, In v (map snd (filter f sy)) ->
                      In v y /\ forall w, In w x -> ~ render ops v = render ops w) as Huy.
    { intros v Hin. apply in_map_iff in Hin. destruct Hin as [[h v'] [Hv Hin]]. simpl in Hv. subst v'.
      apply filter_In in Hin. destruct Hin as [Hin Hf].
      destruct (valset_pair y h v Hin) as [Hh Hvy]. split; [exact Hvy|].
      intros w Hw Heq. destruct (valset_complete x w Hw) as [w' [Hw' _]].
      unfold f in Hf. apply negb_true_iff in Hf. simpl in Hf.
      assert (existsb (fun kx : list N * val => list_eqb (fst kx) h) sx = true) as Ht.
      { apply existsb_keys. apply in_map_iff. exists (render ops w, w'). split; [simpl; congruence|exact Hw']. }
      congruence. }
    split; [|split; [|split]].
    - rewrite map_app. unfold sx at 1. rewrite (keyed_render (valset ops x [])) by (intros h v Hin; apply (valset_pair x h v Hin)).
      unfold sy. rewrite keyed_render_filter. apply NoDup_app_intro.
      + apply valset_nodup.
      + apply NoDup_map_filter. apply valset_nodup.
      + intros h Hx Hy. apply in_map_iff in Hy. destruct Hy as [[h' v] [Hh Hin]]. simpl in Hh. subst h'.
        apply filter_In in Hin. destruct Hin as [_ Hf]. unfold f in Hf. apply negb_true_iff in Hf. simpl in Hf.
        apply existsb_keys in Hx. fold sx in Hx. congruence.
    - intros v Hin. apply in_app_iff in Hin. destruct Hin as [Hin|Hin].
      + left. apply Hux. exact Hin.
      + right. apply Huy. exact Hin.
    - intros v [Hv|Hv].
      + destruct (valset_complete x v Hv) as [w [Hw Heq]]. exists w. split; [|exact Heq].
        apply in_app_iff. left. apply in_map_iff. exists (render ops v, w). split; [reflexivity|exact Hw].
      + destruct (valset_complete y v Hv) as [w [Hw Heq]].
        destruct (existsb (fun kx : list N * val => list_eqb (fst kx) (render ops v)) sx) eqn:Ex.
        * apply existsb_keys in Ex. apply In_keys_pair in Ex. destruct Ex as [w' Hw'].
          exists w'. split.
          { apply in_app_iff. left. apply in_map_iff. exists (render ops v, w'). split; [reflexivity|exact Hw']. }
          { apply (valset_pair x _ _ Hw'). }
        * exists w. split; [|exact Heq].
          apply in_app_iff. right. apply in_map_iff. exists (render ops v, w). split; [reflexivity|].
          apply filter_In. split; [exact Hw|]. unfold f. simpl. rewrite Ex. reflexivity.
    - exists (map snd sx), (map snd (filter f sy)). split; [reflexivity|]. split; [exact Hux|exact Huy].
  Qed.

  Lemma kget_render y h v : kget h (valset ops y []) = Some v -> h = render ops v /\ In v y.
  Proof. intros H. apply kget_In in H. apply (valset_pair y h v H). Qed.

  Lemma intersect_spec : forall x y,
    let u := set_intersect ops x y in
    NoDup (map (render ops) u) /\
    (forall v, In v u -> In v y /\ exists w, In w x /\ render ops v = render ops w) /\
    (forall v w, In v x -> In w y -> render ops v = render ops w -> exists z, In z u /\ render ops v = render ops z).
  Proof.
    intros x y. cbv zeta. unfold set_intersect.
    set (sx := valset ops x []). set (sy := valset ops y []).
    set (F := fun kx : list N * val => match kget (fst kx) sy with Some v => [v] | None => [] end).
    split; [|split].
    - assert (forall s, map (render ops) (flat_map F s) =
                        map fst (filter (fun kx => match kget (fst kx) sy with Some _ => true | None => false end) s)) as E.
      { induction s as [|[h w] s IH]; [reflexivity|]. cbn [flat_map filter]. rewrite map_app, IH.
        unfold F at 1. cbn [fst]. destruct (kget h sy) as [v|] eqn:Ek; [|reflexivity].
        apply kget_render in Ek. destruct Ek as [-> _]. reflexivity. }
      rewrite E. apply NoDup_map_filter. apply valset_nodup.
    - intros v Hin. apply in_flat_map in Hin. destruct Hin as [[h w] [Hin Hv]]. unfold F in Hv. cbn [fst] in Hv.
      destruct (kget h sy) as [v'|] eqn:Ek; [|destruct Hv]. destruct Hv as [Hv|[]]. subst v'.
      apply kget_render in Ek. destruct Ek as [Hh Hvy]. split; [exact Hvy|].
      destruct (valset_pair x h w Hin) as [Hh' Hwx]. exists w. split; [exact Hwx|congruence].
    - intros v w Hv Hw Heq.
      destruct (valset_complete x v Hv) as [v' [Hv' _]].
      destruct (valset_complete y w Hw) as [w' [Hw' _]].
      assert (exists z, kget (render ops v) sy = Some z) as [z Hz].
      { apply In_keys_kget. apply in_map_iff. exists (render ops w, w'). split; [simpl; congruence|exact Hw']. }
      exists z. split.
      + apply in_flat_map. exists (render ops v, v'). split; [exact Hv'|]. unfold F. cbn [fst]. rewrite Hz. left. reflexivity.
      + apply kget_render in Hz. apply Hz.
  Qed.

  Lemma diff_spec : forall x y,
    let u := set_diff ops x y in
    NoDup (map (render ops) u) /\
    (forall v, In v u -> In v x /\ forall w, In w y -> ~ render ops v = render ops w) /\
    (forall v, In v x -> (forall w, In w y -> ~ render ops v = render ops w) -> exists z, In z u /\ render ops v = render ops z).
  Proof.
    intros x y. cbv zeta. unfold set_diff.
    set (sx := valset ops x []). set (sy := valset ops y []).
    set (f := fun kx : list N * val => negb (existsb (fun ky : list N * val => list_eqb (fst ky) (fst kx)) sy)).
    split; [|split].
    - unfold sx. rewrite keyed_render_filter. apply NoDup_map_filter. apply valset_nodup.
    - intros v Hin. apply in_map_iff in Hin. destruct Hin as [[h v'] [Hv Hin]]. simpl in Hv. subst v'.
      apply filter_In in Hin. destruct Hin as [Hin Hf].
      destruct (valset_pair x h v Hin) as [Hh Hvx]. split; [exact Hvx|].
      intros w Hw Heq. destruct (valset_complete y w Hw) as [w' [Hw' _]].
      unfold f in Hf. apply negb_true_iff in Hf. simpl in Hf.
      assert (existsb (fun ky : list N * val => list_eqb (fst ky) h) sy = true) as Ht.
      { apply existsb_keys. apply in_map_iff. exists (render ops w, w'). split; [simpl; congruence|exact Hw']. }
      congruence.
    - intros v Hv Hno. destruct (valset_complete x v Hv) as [z [Hz Heq]]. exists z. split; [|exact Heq].
      apply in_map_iff. exists (render ops v, z). split; [reflexivity|]. apply filter_In. split; [exact Hz|].
      unfold f. simpl. apply negb_true_iff.
      destruct (existsb (fun ky : list N * val => list_eqb (fst ky) (render ops v)) sy) eqn:Ex; [|reflexivity].
      exfalso. apply existsb_keys in Ex. apply In_keys_pair in Ex. destruct Ex as [w Hw].
      destruct (valset_pair y _ _ Hw) as [Hh Hwy]. exact (Hno w Hwy Hh).
  Qed.
End Sets.

(* ------------------------------------------------------------------------------------------------ *)
(* get / isset                                                                                       *)
(* ------------------------------------------------------------------------------------------------ *)

Section Get.
  Variable ops : numops.
  Variable orc : oracles.

  Lemma get_list_spec : forall t vs i d,
    bsem ops orc BGetList [VList t vs; VNum i; d] =
    ret (let k := to_i64 ops i in
         if (Z.leb 0 k && Z.ltb k (Z.of_nat (len vs)))%bool then nth (Z.to_nat k) vs d else d).
  Proof.
    intros t vs i d. unfold bsem, as_list, as_num. rewrite !mbind_ret_l. cbv zeta.
    unfold len.
    destruct (Z.ltb_spec (to_i64 ops i) 0) as [L|L]; destruct (Z.leb_spec 0 (to_i64 ops i)) as [L'|L']; try lia;
      cbn [orb andb]; [reflexivity|].
    destruct (Z.leb_spec (Z.of_nat (List.length vs)) (to_i64 ops i)) as [G|G];
      destruct (Z.ltb_spec (to_i64 ops i) (Z.of_nat (List.length vs))) as [G'|G']; try lia; [reflexivity|].
    rewrite (nth_error_nth' vs d) by lia. reflexivity.
  Qed.

  Lemma get_map_spec : forall t kvs k d kk,
    key_of ops k = ([], OVal kk) ->
    bsem ops orc BGetMap [VMap t kvs; k; d] = ret (match kget kk kvs with Some v => v | None => d end) /\
    bsem ops orc BIsset [VMap t kvs; k] = ret (VBool (match kget kk kvs with Some _ => true | None => false end)).
  Proof.
    intros t kvs k d kk Hk. unfold bsem, as_map. rewrite !mbind_ret_l. rewrite Hk.
    change (@pair (list event) (outcome (list N)) [] (OVal kk)) with (ret kk). rewrite !mbind_ret_l.
    split; [|reflexivity]. destruct (kget kk kvs); reflexivity.
  Qed.
End Get.

(* ------------------------------------------------------------------------------------------------ *)
(* comparisons                                                                                       *)
(* ------------------------------------------------------------------------------------------------ *)

Section Cmp.
  Variable ops : numops.

  Lemma cmp_laws : forall x y,
    num_ne ops x y = fle ops (eps ops) (fabs ops (fsub ops x y)) /\
    num_lt ops x y = (flt ops x y && num_ne ops x y)%bool /\
    num_gt ops x y = (flt ops y x && num_ne ops x y)%bool /\
    num_le ops x y = (fle ops x y || num_eq ops x y)%bool /\
    num_ge ops x y = (fle ops y x || num_eq ops x y)%bool.
  Proof. intros x y. repeat split. Qed.

  Lemma trichotomy : forall x y,
    (flt ops x y = true -> flt ops y x = false) ->
    (flt ops x y = false -> flt ops y x = false -> num_eq ops x y = true) ->
    (num_eq ops x y = negb (num_ne ops x y)) ->
    (num_lt ops x y = true /\ num_eq ops x y = false /\ num_gt ops x y = false) \/
    (num_lt ops x y = false /\ num_eq ops x y = true /\ num_gt ops x y = false) \/
    (num_lt ops x y = false /\ num_eq ops x y = false /\ num_gt ops x y = true).
  Proof.
    intros x y H1 H2 H3. unfold num_lt, num_gt. rewrite H3 in *.
    destruct (num_ne ops x y); cbn [negb] in *.
    - destruct (flt ops x y) eqn:Exy.
      + left. rewrite (H1 Logic.eq_refl). auto.
      + destruct (flt ops y x) eqn:Eyx.
        * right. right. auto.
        * specialize (H2 Logic.eq_refl Logic.eq_refl). discriminate H2.
    - right. left. rewrite !andb_false_r. auto.
  Qed.
End Cmp.

(* ------------------------------------------------------------------------------------------------ *)
(* len on strings                                                                                    *)
(* ------------------------------------------------------------------------------------------------ *)

Section Utf8.
  Local Open Scope N_scope.
  Local Ltac Zify.zify_post_hook ::= Z.to_euclidean_division_equations.

  Ltac nbx :=
    match goal with
    | |- context [N.eqb ?a ?b] => destruct (N.eqb_spec a b)
    | |- context [N.ltb ?a ?b] => destruct (N.ltb_spec a b)
    | |- context [N.leb ?a ?b] => destruct (N.leb_spec a b)
    end; cbn [andb orb]; cbv beta iota; try lia.

  (* DecodeRune undoes EncodeRune on scalar values, whatever follows *)
  Lemma decode_encode c rest : c < 1114112 -> ~ (55296 <= c <= 57343) ->
    utf8_decode (utf8_encode c ++ rest) = (c, List.length (utf8_encode c)).
  Proof.
    intros H1 H2.
    destruct (N.ltb_spec c 128) as [L1|L1]; [|destruct (N.ltb_spec c 2048) as [L2|L2]; [|destruct (N.ltb_spec c 65536) as [L3|L3]]].
    - rewrite enc1 by lia. cbn [app List.length]. unfold utf8_decode. repeat nbx. reflexivity.
    - rewrite enc2 by lia. cbn [app List.length].
      remember (c / 64) as a eqn:Ea. remember (c mod 64) as b eqn:Eb.
      assert (c = a * 64 + b /\ b < 64) as [Hc Hb] by lia. clear Ea Eb.
      unfold utf8_decode, cont. repeat nbx. f_equal. lia.
    - rewrite enc3 by lia. cbn [app List.length].
      remember (c / 4096) as a eqn:Ea. remember ((c / 64) mod 64) as b eqn:Eb. remember (c mod 64) as d eqn:Ed.
      assert (c = a * 4096 + b * 64 + d /\ b < 64 /\ d < 64) as (Hc & Hb & Hd) by lia. clear Ea Eb Ed.
      unfold utf8_decode, cont. repeat nbx. all: f_equal; lia.
    - rewrite enc4 by lia. cbn [app List.length].
      remember (c / 262144) as a eqn:Ea. remember ((c / 4096) mod 64) as b eqn:Eb.
      remember ((c / 64) mod 64) as d eqn:Ed. remember (c mod 64) as e eqn:Ee.
      assert (c = a * 262144 + b * 4096 + d * 64 + e /\ b < 64 /\ d < 64 /\ e < 64) as (Hc & Hb & Hd & He) by lia.
      clear Ea Eb Ed Ee.
      unfold utf8_decode, cont. repeat nbx. all: f_equal; lia.
  Qed.

  Lemma encode_nonempty c : exists b0 t, utf8_encode c = b0 :: t.
  Proof. unfold utf8_encode. cbv zeta. repeat nbx; eexists; eexists; reflexivity. Qed.

  Lemma decode_all_encode : forall rs f,
    Forall (fun c => c < 1114112 /\ ~ (55296 <= c <= 57343)) rs ->
    (List.length (flat_map utf8_encode rs) <= f)%nat ->
    List.length (decode_all f (flat_map utf8_encode rs)) = List.length rs.
  Proof.
    induction rs as [|c rs IH]; intros f Hall Hf.
    - destruct f; reflexivity.
    - inversion Hall as [|c' rs' [Hc1 Hc2] Hrs]; subst.
      cbn [flat_map] in *.
      pose proof (decode_encode c (flat_map utf8_encode rs) Hc1 Hc2) as Hdec.
      destruct (encode_nonempty c) as [b0 [t Eenc]].
      rewrite app_length in Hf.
      assert (skipn (List.length (utf8_encode c)) (utf8_encode c ++ flat_map utf8_encode rs) = flat_map utf8_encode rs) as Hskip.
      { rewrite skipn_app, Nat.sub_diag, skipn_all. reflexivity. }
      rewrite Eenc in *. cbn [app List.length] in *.
      destruct f as [|f]; [lia|].
      cbn [decode_all]. rewrite Hdec. cbn [List.length]. f_equal.
      rewrite Hskip. apply IH; [exact Hrs|lia].
  Qed.

  Lemma len_runes : forall rs,
    Forall (fun c => (c < 1114112)%N /\ ~ (55296 <= c <= 57343)%N) rs ->
    rune_count (flat_map utf8_encode rs) = N.of_nat (len rs).
  Proof.
    intros rs Hall. unfold rune_count, runes_of, len. f_equal.
    apply decode_all_encode; [exact Hall|apply Nat.le_refl].
  Qed.
End Utf8.

(* ------------------------------------------------------------------------------------------------ *)
(* radix literals                                                                                    *)
(* ------------------------------------------------------------------------------------------------ *)

Lemma radix_value : forall base ds d,
  radix_val base (ds ++ [d]) = (radix_val base ds * base + hex_val d)%N.
Proof. intros base ds d. unfold radix_val. rewrite fold_left_app. reflexivity. Qed.

Print Assumptions all_modelled.
Print Assumptions union_spec.
Print Assumptions intersect_spec.
Print Assumptions diff_spec.
Print Assumptions get_list_spec.
Print Assumptions get_map_spec.
Print Assumptions cmp_laws.
Print Assumptions trichotomy.
Print Assumptions len_runes.
Print Assumptions radix_value.
