(* C04 proofs: in progress *)
