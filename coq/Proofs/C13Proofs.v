(* C13 proofs: operations of a history leave environment objects and existing compiled expressions alone, results of
   invocations / compilations depend only on their own inputs, only print writes to standard output, and rendering a map
   does not depend on the order its entries are held in. *)
From Coq Require Import List String Bool Arith NArith ZArith Lia Permutation.
From Yae Require Import Base.Sexp Model.Ty Gen.Generated Model.Unify Model.Num Model.Lexer Model.Literal Model.Cst Model.Check Model.Val Model.Render
  Model.ValSpec Model.Builtins Model.Eval Model.VM Model.Api Model.History Proofs.C18Proofs.
Import ListNotations.

(* ------------------------------------------------------------------------------------------------ *)
(* environment objects and histories                                                                 *)
(* ------------------------------------------------------------------------------------------------ *)

Lemma inherit_pure : forall X (e : envobj X) p e',
  inherit e p = Some e' -> eo_ctx e' = eo_ctx e /\ eo_parent e = None /\ inherit e p = Some e'.
Proof.
  intros X e p e' H. unfold inherit in *. destruct (eo_parent e) as [q|] eqn:E; [discriminate|].
  inversion H; subst. repeat split.
Qed.

Definition unchanged (s s' : hstate) : Prop :=
  h_tenvs s' = h_tenvs s /\ h_venvs s' = h_venvs s /\ exists more, h_compiled s' = (h_compiled s ++ more)%list.

Lemma unchanged_refl s : unchanged s s.
Proof. repeat split. exists []. symmetry. apply app_nil_r. Qed.

Lemma unchanged_trans s1 s2 s3 : unchanged s1 s2 -> unchanged s2 s3 -> unchanged s1 s3.
Proof.
  intros [A1 [B1 [m1 C1]]] [A2 [B2 [m2 C2]]]. repeat split; try congruence.
  exists (m1 ++ m2)%list. rewrite C2, C1. symmetry. apply app_assoc.
Qed.

Lemma hstep_unchanged ops orc s o : unchanged s (fst (hstep ops orc s o)).
Proof.
  destruct o as [i sg|i src j|k j]; unfold hstep.
  - destruct (nth_error (h_engines s) i) as [e|]; cbn [fst]; [|apply unchanged_refl].
    repeat split. exists []. symmetry. apply app_nil_r.
  - destruct (nth_error (h_engines s) i) as [e|]; [|apply unchanged_refl].
    destruct (nth_error (h_tenvs s) j) as [te|]; [|apply unchanged_refl].
    cbv zeta.
    destruct (inherit te []) as [te'|].
    + destruct (api_compile ops orc (en_table (engine_init e)) (eo_ctx te) src) as [[[a code] pool]| |]; cbn [fst].
      * repeat split. cbn. eexists. reflexivity.
      * repeat split. exists []. symmetry. apply app_nil_r.
      * repeat split. exists []. symmetry. apply app_nil_r.
    + cbn [fst]. repeat split. exists []. symmetry. apply app_nil_r.
  - destruct (nth_error (h_compiled s) k) as [c|]; [|apply unchanged_refl].
    destruct (nth_error (h_venvs s) j) as [ve|]; [|apply unchanged_refl].
    destruct (inherit ve []) as [ve'|]; [|apply unchanged_refl].
    destruct (api_call ops orc (c_tenv c) (c_code c) (c_pool c) (eo_ctx ve)) as [r t]. apply unchanged_refl.
Qed.

Lemma hrun_cons_fst ops orc s o r : fst (hrun ops orc s (o :: r)) = fst (hrun ops orc (fst (hstep ops orc s o)) r).
Proof.
  cbn [hrun]. destruct (hstep ops orc s o) as [s1 out]. cbn [fst].
  destruct (hrun ops orc s1 r) as [s2 outs]. reflexivity.
Qed.

Lemma hrun_unchanged ops orc : forall hs s, unchanged s (fst (hrun ops orc s hs)).
Proof.
  induction hs as [|o r IH]; intros s.
  - apply unchanged_refl.
  - rewrite hrun_cons_fst. eapply unchanged_trans; [apply hstep_unchanged|apply IH].
Qed.

Lemma inputs_unchanged : forall ops orc s hs,
  let s' := fst (hrun ops orc s hs) in
  h_tenvs s' = h_tenvs s /\ h_venvs s' = h_venvs s /\
  exists more, h_compiled s' = (h_compiled s ++ more)%list.
Proof. intros ops orc s hs. exact (hrun_unchanged ops orc hs s). Qed.

Lemma invoke_stable : forall ops orc s hs k j,
  (k < len (h_compiled s))%nat ->
  snd (hstep ops orc (fst (hrun ops orc s hs)) (HInvoke k j)) = snd (hstep ops orc s (HInvoke k j)).
Proof.
  intros ops orc s hs k j Hk.
  destruct (hrun_unchanged ops orc hs s) as [_ [Hv [more Hc]]].
  unfold hstep. rewrite Hv, Hc. rewrite nth_error_app1 by exact Hk.
  destruct (nth_error (h_compiled s) k) as [c|]; [|reflexivity].
  destruct (nth_error (h_venvs s) j) as [ve|]; [|reflexivity].
  destruct (inherit ve []) as [ve'|]; [|reflexivity].
  destruct (api_call ops orc (c_tenv c) (c_code c) (c_pool c) (eo_ctx ve)) as [r t]. reflexivity.
Qed.

Lemma compile_local : forall ops orc s1 s2 i j src,
  nth_error (h_engines s1) i = nth_error (h_engines s2) i ->
  option_map (@eo_ctx ty) (nth_error (h_tenvs s1) j) = option_map (@eo_ctx ty) (nth_error (h_tenvs s2) j) ->
  option_map (@eo_parent ty) (nth_error (h_tenvs s1) j) = option_map (@eo_parent ty) (nth_error (h_tenvs s2) j) ->
  snd (hstep ops orc s1 (HCompile i src j)) = snd (hstep ops orc s2 (HCompile i src j)).
Proof.
  intros ops orc s1 s2 i j src He Hc Hp. unfold hstep. rewrite He.
  destruct (nth_error (h_engines s2) i) as [e|]; [|reflexivity].
  destruct (nth_error (h_tenvs s1) j) as [[p1 c1]|]; destruct (nth_error (h_tenvs s2) j) as [[p2 c2]|];
    cbn [option_map eo_ctx eo_parent] in Hc, Hp; try discriminate; [|reflexivity].
  inversion Hc; inversion Hp; subst. cbv zeta.
  destruct (inherit {| eo_parent := p2; eo_ctx := c2 |} []) as [te'|]; [|reflexivity].
  cbn [eo_ctx].
  destruct (api_compile ops orc (en_table (engine_init e)) c2 src) as [[[a code] pool]| |]; reflexivity.
Qed.

Lemma init_idempotent : forall e, engine_init (engine_init e) = engine_init e.
Proof. intros e. unfold engine_init. destruct (en_init e) eqn:E; [rewrite E; reflexivity|reflexivity]. Qed.

(* ------------------------------------------------------------------------------------------------ *)
(* only print writes to standard output                                                              *)
(* ------------------------------------------------------------------------------------------------ *)

Definition quiet {X} (m : M X) : Prop := fst m = [].

Lemma quiet_ret {X} (x : X) : quiet (ret x). Proof. reflexivity. Qed.
Lemma quiet_fail {X} k : quiet (@fail X k). Proof. reflexivity. Qed.
Lemma quiet_fault {X} k : quiet (@fault X k). Proof. reflexivity. Qed.
Lemma quiet_bind {X Y} (m : M X) (f : X -> M Y) : quiet m -> (forall x, quiet (f x)) -> quiet (mbind m f).
Proof.
  unfold quiet, mbind. destruct m as [t [x|k|k]]; cbn [fst]; intros Ht Hf; try exact Ht.
  subst t. specialize (Hf x). destruct (f x) as [t' o]. cbn [fst] in *. subst t'. reflexivity.
Qed.
Lemma quiet_as_num v : quiet (as_num v). Proof. destruct v; reflexivity. Qed.
Lemma quiet_as_bool v : quiet (as_bool v). Proof. destruct v; reflexivity. Qed.
Lemma quiet_as_str v : quiet (as_str v). Proof. destruct v; reflexivity. Qed.
Lemma quiet_as_time v : quiet (as_time v). Proof. destruct v; reflexivity. Qed.
Lemma quiet_as_list v : quiet (as_list v). Proof. destruct v; reflexivity. Qed.
Lemma quiet_as_map v : quiet (as_map v). Proof. destruct v; reflexivity. Qed.
Lemma quiet_key_of ops v : quiet (key_of ops v). Proof. destruct v; reflexivity. Qed.

Lemma quiet_fold_num ops f vs : quiet (fold_num ops f vs).
Proof.
  unfold fold_num. destruct vs as [|v0 r]; [apply quiet_ret|].
  apply quiet_bind; [apply quiet_as_num|]. intros x0.
  apply quiet_bind; [|intros; apply quiet_ret].
  revert x0. induction r as [|v r IH]; intros acc.
  - apply quiet_ret.
  - apply quiet_bind; [apply quiet_as_num|]. intros x. apply IH.
Qed.

Ltac quiet_tac :=
  repeat first
    [ apply quiet_ret | apply quiet_fail | apply quiet_fault
    | apply quiet_as_num | apply quiet_as_bool | apply quiet_as_str | apply quiet_as_time
    | apply quiet_as_list | apply quiet_as_map | apply quiet_key_of | apply quiet_fold_num
    | apply quiet_bind; [|intros ?]
    | match goal with
      | |- quiet (match ?x with _ => _ end) => destruct x
      end ].

Lemma bsem_quiet ops orc b args : b <> BPrint -> quiet (bsem ops orc b args).
Proof.
  intros Hb. destruct b; try (exfalso; apply Hb; reflexivity);
    unfold bsem, num1, num2, time2, any2; quiet_tac.
Qed.

Lemma stdout_only_print : forall ops orc b args t o,
  b <> BPrint -> bsem ops orc b args = (t, o) -> forall s, ~ In (EvStdout s) t.
Proof.
  intros ops orc b args t o Hb H s Hin.
  pose proof (bsem_quiet ops orc b args Hb) as Hq. unfold quiet in Hq. rewrite H in Hq. cbn [fst] in Hq.
  subst t. exact Hin.
Qed.

(* ------------------------------------------------------------------------------------------------ *)
(* rendering does not depend on the order of a map's entries                                         *)
(* ------------------------------------------------------------------------------------------------ *)

Lemma render_map_eq ops t kvs :
  render ops (VMap t kvs) =
  match kvs with
  | [] => bytes_of_string "[:]"
  | _ => [91%N] ++ join_bytes (bytes_of_string ", ")
           (map (fun kr => fst kr ++ bytes_of_string ": " ++ snd kr)
              (sort_by fst (map (fun kv => (fst kv, render ops (snd kv))) kvs))) ++ [93%N]
  end%list.
Proof. destruct kvs; reflexivity. Qed.

Lemma stringify_map_eq ops t kvs :
  stringify ops (VMap t kvs) =
  match kvs with
  | [] => bytes_of_string "[:]"
  | _ => [91%N] ++ join_bytes (bytes_of_string ", ")
           (map (fun kr => fst kr ++ bytes_of_string ": " ++ snd kr)
              (sort_by fst (map (fun kv => (fst kv, stringify ops (snd kv))) kvs))) ++ [93%N]
  end%list.
Proof. destruct kvs; reflexivity. Qed.

Lemma sort_rendered_perm (g : val -> list N) (kvs kvs' : list (list N * val)) :
  Permutation kvs kvs' -> nodup_keys (map fst kvs) = true ->
  sort_by fst (map (fun kv => (fst kv, g (snd kv))) kvs) = sort_by fst (map (fun kv => (fst kv, g (snd kv))) kvs').
Proof.
  intros Hp Hnd. apply sort_by_perm_eq.
  - rewrite map_map. cbn [fst]. apply nodup_keys_NoDup. exact Hnd.
  - apply Permutation_map. exact Hp.
Qed.

Lemma render_perm : forall ops t kvs kvs',
  Permutation kvs kvs' -> nodup_keys (map fst kvs) = true ->
  render ops (VMap t kvs) = render ops (VMap t kvs') /\ stringify ops (VMap t kvs) = stringify ops (VMap t kvs').
Proof.
  intros ops t kvs kvs' Hp Hnd. rewrite !render_map_eq, !stringify_map_eq.
  destruct kvs as [|a r].
  - apply Permutation_nil in Hp. subst kvs'. split; reflexivity.
  - destruct kvs' as [|b r'].
    { apply Permutation_sym, Permutation_nil in Hp. discriminate. }
    rewrite (sort_rendered_perm (render ops) _ _ Hp Hnd), (sort_rendered_perm (stringify ops) _ _ Hp Hnd).
    split; reflexivity.
Qed.

Print Assumptions inherit_pure.
Print Assumptions inputs_unchanged.
Print Assumptions invoke_stable.
Print Assumptions compile_local.
Print Assumptions init_idempotent.
Print Assumptions stdout_only_print.
Print Assumptions render_perm.
