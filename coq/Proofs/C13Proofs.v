(* C13 proofs: in progress *)
