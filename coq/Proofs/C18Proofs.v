(* Proofs for Props/C18.v: equality, map keys and rendering of values agree.
   Four of the seven statements are false of the model as first stated (see the counterexample lemmas); for those the
   strongest true variants are proved as [*_partial] under named extra hypotheses. *)
From Coq Require Import List String Ascii Bool Arith NArith ZArith Lia Permutation Sorting DecimalString DecimalN DecimalPos.
From Yae Require Import Base.Sexp Model.Ty Gen.Generated Model.Num Model.Lexer Model.Literal Model.Val Model.Render
  Model.ValSpec Model.TySpec Proofs.TyInd Proofs.C17Proofs.
Import ListNotations.
Local Open Scope nat_scope.
Local Open Scope list_scope.

Local Arguments is_print : simpl never.
Local Opaque is_print.

(* ------------------------------------------------------------------------------------------------ *)
(* Induction principle for the nested inductive [val]                                                *)
(* ------------------------------------------------------------------------------------------------ *)

Section ValInd.
  Variable P : val -> Prop.
  Hypothesis Hnum : forall b, P (VNum b).
  Hypothesis Hbool : forall b, P (VBool b).
  Hypothesis Hstr : forall s, P (VStr s).
  Hypothesis Htime : forall s n, P (VTime s n).
  Hypothesis Hlist : forall t vs, Forall P vs -> P (VList t vs).
  Hypothesis Hmap : forall t kvs, Forall (fun kv => P (snd kv)) kvs -> P (VMap t kvs).
  Hypothesis Hobj : forall t vs, Forall P vs -> P (VObj t vs).
  Hypothesis Hnone : forall t, P (VMaybe t None).
  Hypothesis Hsome : forall t x, P x -> P (VMaybe t (Some x)).
  Hypothesis Hfun : forall t n l, P (VFun t n l).

  Fixpoint val_ind' (v : val) : P v :=
    match v with
    | VNum b => Hnum b | VBool b => Hbool b | VStr s => Hstr s | VTime s n => Htime s n
    | VList t vs => Hlist t vs ((fix go (l : list val) : Forall P l :=
                                  match l with [] => Forall_nil _ | a :: r => Forall_cons _ (val_ind' a) (go r) end) vs)
    | VMap t kvs => Hmap t kvs ((fix go (l : list (list N * val)) : Forall (fun kv => P (snd kv)) l :=
                                   match l with [] => Forall_nil _ | a :: r => Forall_cons _ (val_ind' (snd a)) (go r) end) kvs)
    | VObj t vs => Hobj t vs ((fix go (l : list val) : Forall P l :=
                                 match l with [] => Forall_nil _ | a :: r => Forall_cons _ (val_ind' a) (go r) end) vs)
    | VMaybe t None => Hnone t
    | VMaybe t (Some x) => Hsome t x (val_ind' x)
    | VFun t n l => Hfun t n l
    end.
End ValInd.

(* ------------------------------------------------------------------------------------------------ *)
(* Small facts: byte strings, decimal printing                                                       *)
(* ------------------------------------------------------------------------------------------------ *)

Lemma list_eqb_eq a : forall b, list_eqb a b = true <-> a = b.
Proof.
  induction a as [|x r IH]; intros [|y s]; simpl; split; intros H; try discriminate; try reflexivity.
  - apply andb_true_iff in H. destruct H as [H1 H2]. apply N.eqb_eq in H1. apply IH in H2. congruence.
  - injection H as E1 E2. subst. rewrite N.eqb_refl. simpl. apply IH. reflexivity.
Qed.

Lemma list_eqb_refl a : list_eqb a a = true.
Proof. apply list_eqb_eq. reflexivity. Qed.

Lemma list_eqb_sym a b : list_eqb a b = list_eqb b a.
Proof.
  destruct (list_eqb a b) eqn:E1; destruct (list_eqb b a) eqn:E2; try reflexivity.
  - apply list_eqb_eq in E1. subst. rewrite list_eqb_refl in E2. discriminate.
  - apply list_eqb_eq in E2. subst. rewrite list_eqb_refl in E1. discriminate.
Qed.

Lemma list_ascii_of_string_inj s : forall t, list_ascii_of_string s = list_ascii_of_string t -> s = t.
Proof.
  induction s as [|c s IH]; intros [|d t]; simpl; intros H; try discriminate; try reflexivity.
  injection H as E1 E2. f_equal; auto.
Qed.

Lemma N_of_ascii_inj a b : N_of_ascii a = N_of_ascii b -> a = b.
Proof. intros H. rewrite <- (ascii_N_embedding a), <- (ascii_N_embedding b), H. reflexivity. Qed.

Lemma map_inj {X Y} (f : X -> Y) : (forall a b, f a = f b -> a = b) -> forall l1 l2, map f l1 = map f l2 -> l1 = l2.
Proof.
  intros Hf. induction l1 as [|a r IH]; intros [|b s]; simpl; intros H; try discriminate; try reflexivity.
  injection H as E1 E2. f_equal; auto.
Qed.

Lemma bytes_of_string_inj s t : bytes_of_string s = bytes_of_string t -> s = t.
Proof.
  unfold bytes_of_string. intros H. apply list_ascii_of_string_inj.
  eapply map_inj; [|exact H]. apply N_of_ascii_inj.
Qed.

Lemma string_of_uint_digit d : d <> Decimal.Nil ->
  exists c s, NilZero.string_of_uint d = String c s /\ c <> "-"%char.
Proof.
  destruct d; intros H; try congruence; simpl; eexists; eexists; (split; [reflexivity|discriminate]).
Qed.

Lemma N_to_uint_nonnil n : N.to_uint n <> Decimal.Nil.
Proof. destruct n; simpl; [discriminate|apply DecimalPos.Unsigned.to_uint_nonnil]. Qed.

Lemma string_of_N_inj a b : string_of_N a = string_of_N b -> a = b.
Proof.
  unfold string_of_N. intros H.
  apply DecimalN.Unsigned.to_uint_inj.
  assert (Some (N.to_uint a) = Some (N.to_uint b)) as E.
  { rewrite <- (NilZero.usu _ (N_to_uint_nonnil a)), <- (NilZero.usu _ (N_to_uint_nonnil b)), H. reflexivity. }
  congruence.
Qed.

Lemma string_of_N_nodash n s : string_of_N n <> String "-" s.
Proof.
  unfold string_of_N. destruct (string_of_uint_digit _ (N_to_uint_nonnil n)) as [c [s' [E Hc]]].
  rewrite E. congruence.
Qed.

Lemma string_of_Z_inj a b : string_of_Z a = string_of_Z b -> a = b.
Proof.
  destruct a as [|p|p], b as [|q|q]; simpl; intros H; try reflexivity.
  - change "0"%string with (string_of_N 0) in H. apply string_of_N_inj in H. discriminate.
  - exfalso. change "0"%string with (string_of_N 0) in H. eapply string_of_N_nodash; eauto.
  - change "0"%string with (string_of_N 0) in H. apply string_of_N_inj in H. discriminate.
  - apply string_of_N_inj in H. congruence.
  - exfalso. eapply string_of_N_nodash; eauto.
  - exfalso. change "0"%string with (string_of_N 0) in H. symmetry in H. eapply string_of_N_nodash; eauto.
  - exfalso. symmetry in H. eapply string_of_N_nodash; eauto.
  - injection H as H. apply string_of_N_inj in H. congruence.
Qed.

Lemma fmt_Z_inj a b : fmt_Z a = fmt_Z b -> a = b.
Proof. unfold fmt_Z. intros H. apply string_of_Z_inj. apply bytes_of_string_inj. exact H. Qed.

(* ------------------------------------------------------------------------------------------------ *)
(* big_distinct                                                                                      *)
(* ------------------------------------------------------------------------------------------------ *)

Section BigDistinct.
  Variable ops : numops.

  Lemma big_distinct : forall a b,
    (forall x y, is_int ops x = true -> is_int ops y = true -> to_i64 ops x = to_i64 ops y -> num_eq ops x y = true) ->
    (forall x y, is_int ops x = false -> is_int ops y = false -> fmt_float ops x = fmt_float ops y -> x = y) ->
    (forall x y, is_int ops x = true -> is_int ops y = false -> fmt_Z (to_i64 ops x) <> fmt_float ops y) ->
    (forall b0, In b0 [a; b] -> num_eq ops b0 b0 = true) ->
    fmt_num ops a = fmt_num ops b -> num_eq ops a b = true.
  Proof.
    intros a b Hii Hff Hif Hrefl Hfmt. unfold fmt_num in Hfmt.
    destruct (is_int ops a) eqn:Ia; destruct (is_int ops b) eqn:Ib.
    - apply Hii; try assumption. apply fmt_Z_inj. exact Hfmt.
    - exfalso. eapply Hif; eauto.
    - exfalso. eapply Hif; eauto.
    - assert (a = b) as E by (apply Hff; assumption). subst b. apply Hrefl. left. reflexivity.
  Qed.
End BigDistinct.

(* ------------------------------------------------------------------------------------------------ *)
(* quote_injective: a decoder for the per-rune encodings of strconv.Quote.                           *)
(* [is_print] is never unfolded: the result holds for every "printable" predicate.                   *)
(* ------------------------------------------------------------------------------------------------ *)

Section Quote.
  Local Open Scope N_scope.
  Local Open Scope list_scope.
  Local Ltac Zify.zify_post_hook ::= Z.to_euclidean_division_equations.

  Ltac nb :=
    repeat match goal with
           | |- context [N.ltb ?a ?b] => destruct (N.ltb_spec a b)
           | |- context [N.leb ?a ?b] => destruct (N.leb_spec a b)
           | |- context [N.eqb ?a ?b] => destruct (N.eqb_spec a b)
           end.

  Definition unhexd (c : N) : N := if N.ltb c 58 then c - 48 else c - 87.
  Definition unhex2 (h1 h2 : N) : N := unhexd h1 * 16 + unhexd h2.
  Definition unhex4 (h1 h2 h3 h4 : N) : N := unhex2 h1 h2 * 256 + unhex2 h3 h4.
  Definition unhex8 (h1 h2 h3 h4 h5 h6 h7 h8 : N) : N := unhex4 h1 h2 h3 h4 * 65536 + unhex4 h5 h6 h7 h8.

  Lemma unhexd_hexd n : unhexd (hexd n) = n.
  Proof. unfold unhexd, hexd. nb; lia. Qed.

  Lemma unhex2_hex2 n : unhex2 (hexd (n / 16)) (hexd (n mod 16)) = n.
  Proof. unfold unhex2. rewrite !unhexd_hexd. lia. Qed.

  Lemma unhex4_hex4 n :
    unhex4 (hexd (n / 256 / 16)) (hexd ((n / 256) mod 16)) (hexd (n mod 256 / 16)) (hexd ((n mod 256) mod 16)) = n.
  Proof. unfold unhex4. rewrite !unhex2_hex2. lia. Qed.

  Definition width (c : N) : nat :=
    if N.ltb c 128 then 1%nat else if N.ltb c 224 then 2%nat else if N.ltb c 240 then 3%nat else 4%nat.

  (* one encoded rune off the front of a quoted text: (the input bytes it stands for, the rest) *)
  Definition dec_step (l : list N) : option (list N * list N) :=
    match l with
    | [] => None
    | c :: t =>
        if N.eqb c 34 then None
        else if N.eqb c 92 then
          match t with
          | [] => None
          | e :: u =>
              if N.eqb e 120 then match u with h1 :: h2 :: v => Some ([unhex2 h1 h2], v) | _ => None end
              else if N.eqb e 117 then
                match u with h1 :: h2 :: h3 :: h4 :: v => Some (utf8_encode (unhex4 h1 h2 h3 h4), v) | _ => None end
              else if N.eqb e 85 then
                match u with
                | h1 :: h2 :: h3 :: h4 :: h5 :: h6 :: h7 :: h8 :: v =>
                    Some (utf8_encode (unhex8 h1 h2 h3 h4 h5 h6 h7 h8), v)
                | _ => None end
              else if N.eqb e 97 then Some ([7], u) else if N.eqb e 98 then Some ([8], u)
              else if N.eqb e 102 then Some ([12], u) else if N.eqb e 110 then Some ([10], u)
              else if N.eqb e 114 then Some ([13], u) else if N.eqb e 116 then Some ([9], u)
              else if N.eqb e 118 then Some ([11], u)
              else Some ([e], u)
          end
        else Some (firstn (width c) l, skipn (width c) l)
    end.

  Definition stepf (x : N * nat * N) : list N :=
    let '(r, w, b0) := x in if Nat.eqb w 1 && N.eqb r 65533 then [92; 120] ++ hex2 b0 else escape_rune r.

  Lemma quote_stepf s : quote s = 34 :: flat_map stepf (runes_of s) ++ [34].
  Proof. reflexivity. Qed.

  (* utf8_encode by range *)
  Lemma enc_scalar c : (c < 55296 \/ 57343 < c) -> c <= 1114111 ->
    (N.leb 55296 c && N.leb c 57343) || N.ltb 1114111 c = false.
  Proof. intros H1 H2. nb; (reflexivity || lia). Qed.

  Ltac enc_tac := unfold utf8_encode; cbv zeta; rewrite enc_scalar by lia; cbv beta iota; nb; try lia; reflexivity.

  Lemma enc1 c : c < 128 -> utf8_encode c = [c].
  Proof. intros H. enc_tac. Qed.

  Lemma enc2 c : 128 <= c -> c < 2048 -> utf8_encode c = [192 + c / 64; 128 + c mod 64].
  Proof. intros H1 H2. enc_tac. Qed.

  Lemma enc3 c : 2048 <= c -> c < 65536 -> (c < 55296 \/ 57343 < c) ->
    utf8_encode c = [224 + c / 4096; 128 + (c / 64) mod 64; 128 + c mod 64].
  Proof. intros H1 H2 H3. enc_tac. Qed.

  Lemma enc4 c : 65536 <= c -> c <= 1114111 ->
    utf8_encode c = [240 + c / 262144; 128 + (c / 4096) mod 64; 128 + (c / 64) mod 64; 128 + c mod 64].
  Proof. intros H1 H2. enc_tac. Qed.

  Ltac nb1 :=
    match goal with
    | |- context [N.eqb ?a ?b] => destruct (N.eqb_spec a b)
    | |- context [N.ltb ?a ?b] => destruct (N.ltb_spec a b)
    | |- context [N.leb ?a ?b] => destruct (N.leb_spec a b)
    end; cbn [andb orb]; cbv beta iota; try lia.

  (* a decoding step either rejects one byte (>= 128) or reads a canonical encoding of a scalar value *)
  Lemma decode_spec a0 ar r w : utf8_decode (a0 :: ar) = (r, w) ->
    (w = 1%nat /\ r = 65533 /\ 128 <= a0) \/
    (utf8_encode r = firstn w (a0 :: ar) /\ List.length (firstn w (a0 :: ar)) = w /\ w = width a0 /\
     (a0 < 128 -> r = a0) /\ (w = 1%nat -> r <> 65533)).
  Proof.
    unfold utf8_decode, cont.
    destruct ar as [|a1 [|a2 [|a3 ar]]]; repeat nb1;
      (intros Hdec; injection Hdec as <- <-;
       first [ left; split; [reflexivity|split; [reflexivity|lia]]
             | right; split; [|split; [reflexivity|split; [unfold width; repeat nb1; reflexivity|split; intros; lia]]];
               first [rewrite enc1 by lia | rewrite enc2 by lia | rewrite enc3 by lia | rewrite enc4 by lia];
               cbn [firstn]; repeat f_equal; lia ]).
  Qed.

  Lemma firstn_width_app (l rest : list N) w : List.length l = w -> firstn w (l ++ rest) = l /\ skipn w (l ++ rest) = rest.
  Proof.
    intros <-. split.
    - rewrite firstn_app, Nat.sub_diag, firstn_all. simpl. apply app_nil_r.
    - rewrite skipn_app, Nat.sub_diag, skipn_all. reflexivity.
  Qed.

  (* the decoder undoes one encoding step, whatever follows *)
  Lemma dec_step_ok a0 ar r w rest : utf8_decode (a0 :: ar) = (r, w) ->
    dec_step (stepf (r, w, a0) ++ rest) = Some (firstn w (a0 :: ar), rest).
  Proof.
    intros Hdec. apply decode_spec in Hdec.
    destruct Hdec as [[Hw [Hr Ha]]|[Henc [Hlen [Hw [Hlow Hnot]]]]].
    - subst w r. cbn [stepf Nat.eqb andb N.eqb Pos.eqb hex2 app dec_step firstn].
      rewrite unhex2_hex2. reflexivity.
    - assert (Nat.eqb w 1 && N.eqb r 65533 = false) as Hc.
      { destruct (Nat.eqb_spec w 1) as [E|E]; [|reflexivity].
        simpl. apply N.eqb_neq. auto. }
      unfold stepf. rewrite Hc. rewrite <- Henc. unfold escape_rune.
      destruct (N.eqb_spec r 34) as [E34|N34].
      { subst r. reflexivity. }
      destruct (N.eqb_spec r 92) as [E92|N92].
      { subst r. reflexivity. }
      cbn [orb].
      destruct (is_print r).
      { rewrite Henc.
        assert (a0 <> 34 /\ a0 <> 92) as [Ha1 Ha2].
        { destruct (N.ltb_spec a0 128) as [L|L]; [rewrite <- (Hlow L); auto|lia]. }
        assert (exists t, firstn w (a0 :: ar) = a0 :: t) as [t Et].
        { rewrite Hw. unfold width. repeat nb1; cbn [firstn]; eexists; reflexivity. }
        destruct (firstn_width_app (firstn w (a0 :: ar)) rest w Hlen) as [F1 F2].
        rewrite Et in *. cbn [app dec_step].
        destruct (N.eqb_spec a0 34); [congruence|]. destruct (N.eqb_spec a0 92); [congruence|].
        rewrite <- Hw. cbn [app] in F1, F2. rewrite F1, F2. reflexivity. }
      destruct (N.eqb_spec r 7); [subst r; reflexivity|].
      destruct (N.eqb_spec r 8); [subst r; reflexivity|].
      destruct (N.eqb_spec r 12); [subst r; reflexivity|].
      destruct (N.eqb_spec r 10); [subst r; reflexivity|].
      destruct (N.eqb_spec r 13); [subst r; reflexivity|].
      destruct (N.eqb_spec r 9); [subst r; reflexivity|].
      destruct (N.eqb_spec r 11); [subst r; reflexivity|].
      destruct (N.ltb r 32 || N.eqb r 127) eqn:Ectl.
      { assert (r < 128) as Hr128.
        { apply orb_true_iff in Ectl. destruct Ectl as [E|E]; [apply N.ltb_lt in E; lia|apply N.eqb_eq in E; lia]. }
        cbn [hex2 app dec_step N.eqb Pos.eqb]. rewrite unhex2_hex2, enc1 by assumption. reflexivity. }
      destruct (N.ltb r 65536).
      + cbn [hex4 hex2 app dec_step N.eqb Pos.eqb]. rewrite unhex4_hex4. reflexivity.
      + cbn [hex8 hex4 hex2 app dec_step N.eqb Pos.eqb]. unfold unhex8. rewrite !unhex4_hex4.
        replace (r / 65536 * 65536 + r mod 65536) with r by lia. reflexivity.
  Qed.

  Lemma decode_width_pos a0 ar r w : utf8_decode (a0 :: ar) = (r, w) -> (1 <= w)%nat.
  Proof.
    intros E. apply decode_spec in E. destruct E as [[-> _]|[_ [_ [-> _]]]]; [lia|].
    unfold width. repeat nb1; lia.
  Qed.

  Lemma decode_all_fuel : forall f1 f2 l, (List.length l <= f1)%nat -> (List.length l <= f2)%nat ->
    decode_all f1 l = decode_all f2 l.
  Proof.
    induction f1 as [|f1 IH]; intros f2 l H1 H2.
    - destruct l; [|simpl in H1; lia]. destruct f2; reflexivity.
    - destruct l as [|a0 ar]; [destruct f2; reflexivity|].
      destruct f2 as [|f2]; [simpl in H2; lia|].
      cbn [decode_all]. destruct (utf8_decode (a0 :: ar)) as [r w] eqn:E. f_equal.
      pose proof (decode_width_pos _ _ _ _ E) as Hw.
      apply IH; rewrite skipn_length; cbn [List.length] in *; lia.
  Qed.

  Definition body (s : list N) : list N := flat_map stepf (runes_of s).

  Lemma body_cons a0 ar r w : utf8_decode (a0 :: ar) = (r, w) ->
    body (a0 :: ar) = stepf (r, w, a0) ++ body (skipn w (a0 :: ar)).
  Proof.
    intros E. unfold body, runes_of, len. cbn [List.length decode_all]. rewrite E. cbn [flat_map].
    f_equal. f_equal. pose proof (decode_width_pos _ _ _ _ E) as Hw.
    apply decode_all_fuel; rewrite ?skipn_length; cbn [List.length]. all: lia.
  Qed.

  Lemma body_nil_inv b : [34] = body b ++ [34] -> b = [].
  Proof.
    destruct b as [|b0 br]; [reflexivity|]. intros H. exfalso.
    destruct (utf8_decode (b0 :: br)) as [r w] eqn:E.
    rewrite (body_cons _ _ _ _ E), <- app_assoc in H.
    apply (f_equal dec_step) in H. rewrite (dec_step_ok _ _ _ _ _ E) in H. discriminate H.
  Qed.

  Lemma body_inj : forall n a, (List.length a <= n)%nat -> forall b, body a ++ [34] = body b ++ [34] -> a = b.
  Proof.
    induction n as [|n IH]; intros a Hn b H.
    - destruct a; [|simpl in Hn; lia]. symmetry. apply body_nil_inv. exact H.
    - destruct a as [|a0 ar]; [symmetry; apply body_nil_inv; exact H|].
      destruct b as [|b0 br]; [apply body_nil_inv; symmetry; exact H|].
      destruct (utf8_decode (a0 :: ar)) as [r w] eqn:Ea.
      destruct (utf8_decode (b0 :: br)) as [r' w'] eqn:Eb.
      rewrite (body_cons _ _ _ _ Ea), (body_cons _ _ _ _ Eb), <- !app_assoc in H.
      apply (f_equal dec_step) in H.
      rewrite (dec_step_ok _ _ _ _ _ Ea), (dec_step_ok _ _ _ _ _ Eb) in H.
      injection H as H1 H2.
      pose proof (decode_width_pos _ _ _ _ Ea) as Hw.
      apply IH in H2; [|rewrite skipn_length; cbn [List.length] in *; lia].
      rewrite <- (firstn_skipn w (a0 :: ar)), <- (firstn_skipn w' (b0 :: br)). congruence.
  Qed.

  Lemma quote_injective : forall a b, quote a = quote b -> a = b.
  Proof.
    intros a b H. rewrite !quote_stepf in H. injection H as H.
    eapply body_inj; [apply Nat.le_refl|exact H].
  Qed.
End Quote.

(* ------------------------------------------------------------------------------------------------ *)
(* Extra hypotheses of the partial variants, as boolean functions                                    *)
(* ------------------------------------------------------------------------------------------------ *)

(* no function type anywhere inside *)
Fixpoint no_fun_ty (t : ty) : bool :=
  match t with
  | TFun _ _ _ => false
  | TList e | TMaybe e => no_fun_ty e
  | TMap k v => no_fun_ty k && no_fun_ty v
  | TTuple l => forallb no_fun_ty l
  | TObj fs => forallb (fun f => no_fun_ty (snd f)) fs
  | _ => true
  end.

(* every function value inside carries a well-formed type ([val_ok] does not ask for it) *)
Fixpoint funs_wf (v : val) : bool :=
  match v with
  | VFun t _ _ => wf_ty t
  | VList _ vs | VObj _ vs => forallb funs_wf vs
  | VMap _ kvs => forallb (fun kv => funs_wf (snd kv)) kvs
  | VMaybe _ (Some x) => funs_wf x
  | _ => true
  end.

(* no function type inside the type of any optional inside *)
Fixpoint maybe_fn_free (v : val) : bool :=
  match v with
  | VMaybe t o => no_fun_ty t && match o with Some x => maybe_fn_free x | None => true end
  | VList _ vs | VObj _ vs => forallb maybe_fn_free vs
  | VMap _ kvs => forallb (fun kv => maybe_fn_free (snd kv)) kvs
  | _ => true
  end.

(* when both are times: if they print alike they are the same instant (false of the model for nanoseconds outside
   [0, 10^9), see [eq_key_counterexample]) *)
Definition times_separated (x y : val) : bool :=
  match x, y with
  | VTime s1 n1, VTime s2 n2 => implb (list_eqb (fmt_time s1 n1) (fmt_time s2 n2)) (Z.eqb s1 s2 && Z.eqb n1 n2)
  | _, _ => true
  end.

Lemma fun_free_funs_wf : forall v, fun_free v = true -> funs_wf v = true.
Proof.
  induction v using val_ind'; simpl; intros Hf; try reflexivity; try discriminate; try (apply IHv; assumption).
  - rewrite forallb_forall in *. rewrite Forall_forall in H. auto.
  - rewrite forallb_forall in *. rewrite Forall_forall in H. auto.
  - rewrite forallb_forall in *. rewrite Forall_forall in H. auto.
Qed.

(* ------------------------------------------------------------------------------------------------ *)
(* Association lists on key text; positions of fields                                                *)
(* ------------------------------------------------------------------------------------------------ *)

Lemma nodup_keys_NoDup l : nodup_keys l = true -> NoDup l.
Proof.
  induction l as [|a r IH]; simpl; intros H; [constructor|].
  apply andb_true_iff in H. destruct H as [Hn Hr]. constructor; [|auto].
  intros Hin. apply negb_true_iff in Hn.
  assert (existsb (list_eqb a) r = true) as He.
  { apply existsb_exists. exists a. split; [assumption|apply list_eqb_refl]. }
  congruence.
Qed.

Lemma kget_In {X} k (l : list (list N * X)) x : kget k l = Some x -> In (k, x) l.
Proof.
  induction l as [|[k' x'] r IH]; simpl; intros H; [discriminate|].
  destruct (list_eqb k k') eqn:E.
  - apply list_eqb_eq in E. left. congruence.
  - right. auto.
Qed.

Lemma In_kget {X} k (l : list (list N * X)) x : NoDup (map fst l) -> In (k, x) l -> kget k l = Some x.
Proof.
  induction l as [|[k' x'] r IH]; simpl; intros Hnd Hin; [contradiction|].
  inversion Hnd as [|? ? Hnotin Hnd']; subst.
  destruct Hin as [E|Hin].
  - inversion E; subst. rewrite list_eqb_refl. reflexivity.
  - destruct (list_eqb k k') eqn:E.
    + apply list_eqb_eq in E. subst. exfalso. apply Hnotin. apply (in_map fst) in Hin. exact Hin.
    + auto.
Qed.

Lemma In_keys_kget {X} k (l : list (list N * X)) : In k (map fst l) -> exists x, kget k l = Some x.
Proof.
  induction l as [|[k' x'] r IH]; simpl; intros Hin; [contradiction|].
  destruct (list_eqb k k') eqn:E; [eexists; reflexivity|].
  destruct Hin as [E'|Hin]; [|auto]. subst. rewrite list_eqb_refl in E. discriminate.
Qed.

Lemma index_of_nth {X} n (l : list (string * X)) : forall i, index_of n l = Some i -> exists x, nth_error l i = Some (n, x).
Proof.
  induction l as [|[m x] r IH]; simpl; intros i H; [discriminate|].
  destruct (String.eqb_spec n m) as [E|E].
  - injection H as <-. subst. eexists; reflexivity.
  - destruct (index_of n r) as [j|]; [|discriminate]. injection H as <-. simpl. apply IH. reflexivity.
Qed.

Lemma nth_index_of {X} n (l : list (string * X)) : forall i x,
  NoDup (map fst l) -> nth_error l i = Some (n, x) -> index_of n l = Some i.
Proof.
  induction l as [|[m y] r IH]; intros [|i] x Hnd H; simpl in *; try discriminate.
  - injection H as -> ->. rewrite String.eqb_refl. reflexivity.
  - inversion Hnd as [|? ? Hnotin Hnd']; subst.
    destruct (String.eqb_spec n m) as [E|E].
    + subst. exfalso. apply Hnotin. apply nth_error_In in H. apply (in_map fst) in H. exact H.
    + rewrite (IH i x Hnd' H). reflexivity.
Qed.

Lemma In_keys_index_of {X} n (l : list (string * X)) : In n (map fst l) -> exists i, index_of n l = Some i.
Proof.
  induction l as [|[m y] r IH]; simpl; intros Hin; [contradiction|].
  destruct (String.eqb_spec n m) as [E|E]; [eexists; reflexivity|].
  destruct Hin as [E'|Hin]; [congruence|]. destruct (IH Hin) as [i Hi]. rewrite Hi. eexists; reflexivity.
Qed.

Lemma nth_error_combine {X Y} (l1 : list X) : forall (l2 : list Y) i,
  nth_error (combine l1 l2) i =
  match nth_error l1 i, nth_error l2 i with Some a, Some b => Some (a, b) | _, _ => None end.
Proof.
  induction l1 as [|a r IH]; intros [|b s] [|i]; simpl; try reflexivity.
  - destruct (nth_error r i); reflexivity.
  - apply IH.
Qed.

(* ------------------------------------------------------------------------------------------------ *)
(* Top-level copies of the nested fixpoints of [val_eqb] and [val_ok]                                *)
(* ------------------------------------------------------------------------------------------------ *)

Definition ok_fields : list (string * ty) -> list val -> bool :=
  fix go (fs : list (string * ty)) (vs : list val) {struct vs} : bool :=
    match fs, vs with
    | (_, ft) :: fr, x :: r => val_ok x && ty_eqb (val_type x) ft && go fr r
    | _, [] => true
    | [], _ :: _ => false
    end.

Lemma val_ok_obj fs vs :
  val_ok (VObj (TObj fs) vs) =
  wf_ty (TObj fs) && slot_free (TObj fs) && (Nat.eqb (len fs) (len vs) && ok_fields fs vs).
Proof. reflexivity. Qed.

Lemma ok_fields_nth fs : forall vs, ok_fields fs vs = true ->
  forall i f x, nth_error fs i = Some f -> nth_error vs i = Some x ->
  val_ok x = true /\ ty_eqb (val_type x) (snd f) = true.
Proof.
  induction fs as [|[n ft] fr IH]; intros [|v r] H [|i] f x Hf Hx; simpl in *; try discriminate.
  - injection Hf as <-. injection Hx as <-. apply andb_true_iff in H. destruct H as [H _].
    apply andb_true_iff in H. exact H.
  - apply andb_true_iff in H. destruct H as [_ H]. eapply IH; eauto.
Qed.

(* what [val_ok] says about the immediate components *)
Lemma val_ok_list t vs : val_ok (VList t vs) = true ->
  wf_ty t = true /\ Forall (fun x => val_ok x = true) vs.
Proof.
  simpl. intros H. apply andb_true_iff in H. destruct H as [H1 H2]. apply andb_true_iff in H1. destruct H1 as [H1 _].
  split; [assumption|]. destruct t; try discriminate. apply Forall_forall. intros x Hx.
  rewrite forallb_forall in H2. apply H2 in Hx. apply andb_true_iff in Hx. tauto.
Qed.

Lemma val_ok_map t kvs : val_ok (VMap t kvs) = true ->
  wf_ty t = true /\ NoDup (map fst kvs) /\ Forall (fun kv => val_ok (snd kv) = true) kvs.
Proof.
  simpl. intros H. apply andb_true_iff in H. destruct H as [H1 H2]. apply andb_true_iff in H1. destruct H1 as [H1 H3].
  apply andb_true_iff in H1. destruct H1 as [H1 _].
  split; [assumption|]. split; [apply nodup_keys_NoDup; assumption|].
  destruct t; try discriminate. apply Forall_forall. intros x Hx.
  rewrite forallb_forall in H2. apply H2 in Hx. apply andb_true_iff in Hx. tauto.
Qed.

Lemma val_ok_obj_inv t vs : val_ok (VObj t vs) = true ->
  exists fs, t = TObj fs /\ wf_ty t = true /\ NoDup (map fst fs) /\ List.length fs = List.length vs /\
             ok_fields fs vs = true /\ Forall (fun x => val_ok x = true) vs.
Proof.
  intros H. destruct t; try (simpl in H; rewrite ?andb_false_r in H; discriminate H).
  rewrite val_ok_obj in H. apply andb_true_iff in H. destruct H as [H1 H2].
  apply andb_true_iff in H1. destruct H1 as [Hwf _]. apply andb_true_iff in H2. destruct H2 as [Hlen Hok].
  apply Nat.eqb_eq in Hlen. unfold len in Hlen.
  exists fs. split; [reflexivity|]. split; [assumption|]. split; [apply wf_obj in Hwf; tauto|].
  split; [assumption|]. split; [assumption|].
  apply Forall_forall. intros x Hx. apply In_nth_error in Hx. destruct Hx as [i Hi].
  destruct (nth_error fs i) as [f|] eqn:Ef.
  - eapply ok_fields_nth; eauto.
  - apply nth_error_None in Ef. assert (i < List.length vs) by (apply nth_error_Some; congruence). lia.
Qed.

Lemma val_ok_maybe t x : val_ok (VMaybe t (Some x)) = true -> wf_ty t = true /\ val_ok x = true.
Proof.
  simpl. intros H. apply andb_true_iff in H. destruct H as [H1 H2]. apply andb_true_iff in H1. destruct H1 as [H1 _].
  split; [assumption|]. destruct t; try discriminate. apply andb_true_iff in H2. tauto.
Qed.

Lemma val_ok_maybe_none t : val_ok (VMaybe t None) = true -> wf_ty t = true.
Proof. simpl. intros H. apply andb_true_iff in H. destruct H as [H1 _]. apply andb_true_iff in H1. tauto. Qed.

Section EqDefs.
  Variable ops : numops.

  Fixpoint eqb_vlist (xs ys : list val) {struct xs} : bool :=
    match xs, ys with
    | [], [] => true
    | a :: r, b :: s => val_eqb ops a b && eqb_vlist r s
    | _, _ => false
    end.

  Definition eqb_vmap (ky : list (list N * val)) : list (list N * val) -> bool :=
    fix go (kx : list (list N * val)) : bool :=
      match kx with
      | [] => true
      | (k, a) :: r => match kget k ky with Some b => val_eqb ops a b | None => false end && go r
      end.

  Definition eqb_vobj (fy : list (string * ty)) (ys : list val) : list (string * ty) -> list val -> bool :=
    fix go (fx : list (string * ty)) (xs : list val) {struct xs} : bool :=
      match fx, xs with
      | (n, _) :: fr, a :: r =>
          match index_of n fy with
          | Some i => match nth_error ys i with Some b => val_eqb ops a b | None => false end
          | None => false
          end && go fr r
      | _, [] => true
      | [], _ :: _ => false
      end.

  Lemma val_eqb_list t xs t' ys : val_eqb ops (VList t xs) (VList t' ys) = ty_eqb t t' && eqb_vlist xs ys.
  Proof. reflexivity. Qed.

  Lemma val_eqb_map t kx t' ky :
    val_eqb ops (VMap t kx) (VMap t' ky) = ty_eqb t t' && (Nat.eqb (len kx) (len ky) && eqb_vmap ky kx).
  Proof. reflexivity. Qed.

  Lemma val_eqb_obj fx xs fy ys :
    val_eqb ops (VObj (TObj fx) xs) (VObj (TObj fy) ys) =
    ty_eqb (TObj fx) (TObj fy) && (Nat.eqb (len xs) (len ys) && eqb_vobj fy ys fx xs).
  Proof. reflexivity. Qed.

  Lemma eqb_vlist_Forall2 xs : forall ys, eqb_vlist xs ys = true <-> Forall2 (fun a b => val_eqb ops a b = true) xs ys.
  Proof.
    induction xs as [|a r IH]; intros [|b s]; simpl; split; intros H; try discriminate; try constructor;
      try solve [inversion H].
    - apply andb_true_iff in H. tauto.
    - apply andb_true_iff in H. apply IH. tauto.
    - inversion H; subst. apply andb_true_iff. split; [assumption|apply IH; assumption].
  Qed.

  Lemma eqb_vmap_spec ky kx :
    eqb_vmap ky kx = true <->
    (forall k a, In (k, a) kx -> exists b, kget k ky = Some b /\ val_eqb ops a b = true).
  Proof.
    induction kx as [|[k a] r IH]; simpl; split; intros H.
    - intros ? ? [].
    - reflexivity.
    - apply andb_true_iff in H. destruct H as [H1 H2]. intros k' a' [E|Hin].
      + inversion E; subst. destruct (kget k' ky) as [b|]; [|discriminate]. eauto.
      + apply IH; assumption.
    - apply andb_true_iff. split.
      + destruct (H k a (or_introl Logic.eq_refl)) as [b [Hb Hv]]. rewrite Hb. exact Hv.
      + apply IH. intros k' a' Hin. apply H. right. exact Hin.
  Qed.

  Lemma eqb_vobj_spec fy ys fx : forall xs,
    eqb_vobj fy ys fx xs = true <->
    (List.length xs <= List.length fx /\
     forall i f a, nth_error fx i = Some f -> nth_error xs i = Some a ->
       exists j b, index_of (fst f) fy = Some j /\ nth_error ys j = Some b /\ val_eqb ops a b = true).
  Proof.
    induction fx as [|[n t] fr IH]; intros [|a r]; simpl; split; intros H; try discriminate; try reflexivity.
    - split; [lia|]. intros [|i] ? ? ? ?; discriminate.
    - destruct H as [H _]. lia.
    - split; [lia|]. intros [|i] ? ? ? ?; discriminate.
    - apply andb_true_iff in H. destruct H as [H1 H2]. apply IH in H2. destruct H2 as [Hlen Hall].
      split; [lia|]. intros [|i] f a' Hf Ha; simpl in *.
      + injection Hf as <-. injection Ha as <-. simpl.
        destruct (index_of n fy) as [j|]; [|discriminate]. destruct (nth_error ys j) as [b|] eqn:Eb; [|discriminate].
        eauto.
      + eapply Hall; eauto.
    - destruct H as [Hlen Hall]. apply andb_true_iff. split.
      + destruct (Hall 0%nat (n, t) a Logic.eq_refl Logic.eq_refl) as [j [b [Hj [Hb Hv]]]]. simpl in Hj.
        rewrite Hj, Hb. exact Hv.
      + apply IH. split; [lia|]. intros i f a' Hf Ha. apply (Hall (S i) f a'); assumption.
  Qed.
End EqDefs.

(* ------------------------------------------------------------------------------------------------ *)
(* Sorting by text                                                                                   *)
(* ------------------------------------------------------------------------------------------------ *)

Lemma bytes_leb_total a : forall b, bytes_leb a b = true \/ bytes_leb b a = true.
Proof.
  induction a as [|x r IH]; intros [|y s]; simpl; auto.
  destruct (N.ltb_spec x y); auto. destruct (N.ltb_spec y x); auto.
Qed.

Lemma bytes_leb_antisym a : forall b, bytes_leb a b = true -> bytes_leb b a = true -> a = b.
Proof.
  induction a as [|x r IH]; intros [|y s]; simpl; intros H1 H2; try discriminate; try reflexivity.
  destruct (N.ltb_spec x y); destruct (N.ltb_spec y x); try discriminate; try lia.
  assert (x = y) by lia. subst. f_equal. auto.
Qed.

Lemma bytes_leb_trans a : forall b c, bytes_leb a b = true -> bytes_leb b c = true -> bytes_leb a c = true.
Proof.
  induction a as [|x r IH]; intros [|y s] [|z u]; simpl; intros H1 H2; try discriminate; try reflexivity.
  destruct (N.ltb_spec x y); destruct (N.ltb_spec y z); destruct (N.ltb_spec x z); try reflexivity; try lia;
    destruct (N.ltb_spec y x); try discriminate; try lia;
    destruct (N.ltb_spec z y); try discriminate; try lia;
    destruct (N.ltb_spec z x); try lia.
  eapply IH; eauto.
Qed.

Section SortBy.
  Context {X : Type}.
  Variable key : X -> list N.
  Definition ble (a b : X) : Prop := bytes_leb (key a) (key b) = true.

  Lemma insert_by_perm x (l : list X) : Permutation (insert_by key x l) (x :: l).
  Proof.
    induction l as [|y r IH]; simpl.
    - apply Permutation_refl.
    - destruct (bytes_leb (key x) (key y)).
      + apply Permutation_refl.
      + eapply perm_trans; [apply perm_skip; exact IH|apply perm_swap].
  Qed.

  Lemma sort_by_perm (l : list X) : Permutation (sort_by key l) l.
  Proof.
    induction l as [|x r IH]; simpl.
    - apply perm_nil.
    - eapply perm_trans; [apply insert_by_perm|]. apply perm_skip. exact IH.
  Qed.

  Lemma insert_by_sorted x (l : list X) : StronglySorted ble l -> StronglySorted ble (insert_by key x l).
  Proof.
    induction l as [|y r IH]; simpl; intros Hs.
    - constructor; constructor.
    - apply StronglySorted_inv in Hs. destruct Hs as [Hr Hall].
      destruct (bytes_leb (key x) (key y)) eqn:E.
      + constructor.
        * constructor; assumption.
        * constructor; [exact E|].
          eapply Forall_impl; [|exact Hall]. intros z Hz. unfold ble in *. eapply bytes_leb_trans; eauto.
      + constructor; [auto|].
        eapply Permutation_Forall; [apply Permutation_sym; apply insert_by_perm|].
        constructor; [|assumption].
        unfold ble. destruct (bytes_leb_total (key x) (key y)) as [H|H]; [congruence|exact H].
  Qed.

  Lemma sort_by_sorted (l : list X) : StronglySorted ble (sort_by key l).
  Proof.
    induction l as [|x r IH]; simpl.
    - constructor.
    - apply insert_by_sorted. exact IH.
  Qed.

  Lemma sorted_by_perm_eq : forall l1 l2 : list X,
    StronglySorted ble l1 -> StronglySorted ble l2 -> NoDup (map key l1) -> Permutation l1 l2 -> l1 = l2.
  Proof.
    induction l1 as [|a r1 IH]; intros l2 S1 S2 Hnd Hp.
    - apply Permutation_nil in Hp. subst. reflexivity.
    - destruct l2 as [|b r2].
      { apply Permutation_sym in Hp. apply Permutation_nil in Hp. discriminate. }
      apply StronglySorted_inv in S1. destruct S1 as [S1 F1].
      apply StronglySorted_inv in S2. destruct S2 as [S2 F2].
      simpl in Hnd. inversion Hnd as [|? ? Hnotin Hnd']; subst.
      assert (a = b) as Eab.
      { assert (In a (b :: r2)) as Ha by (eapply Permutation_in; [exact Hp|left; reflexivity]).
        assert (In b (a :: r1)) as Hb
            by (eapply Permutation_in; [apply Permutation_sym; exact Hp|left; reflexivity]).
        destruct Ha as [Ha|Ha]; [congruence|]. destruct Hb as [Hb|Hb]; [congruence|].
        exfalso. apply Hnotin.
        rewrite Forall_forall in F1, F2.
        assert (key a = key b) as E.
        { apply bytes_leb_antisym; [apply (F1 _ Hb)|apply (F2 _ Ha)]. }
        rewrite E. apply in_map. exact Hb. }
      subst b. f_equal. apply IH; try assumption.
      eapply Permutation_cons_inv; eauto.
  Qed.

  Lemma sort_by_perm_eq (l1 l2 : list X) : NoDup (map key l1) -> Permutation l1 l2 -> sort_by key l1 = sort_by key l2.
  Proof.
    intros Hnd Hp. apply sorted_by_perm_eq; try apply sort_by_sorted.
    - eapply Permutation_NoDup; [|exact Hnd]. apply Permutation_map. apply Permutation_sym. apply sort_by_perm.
    - eapply perm_trans; [apply sort_by_perm|]. eapply perm_trans; [exact Hp|].
      apply Permutation_sym. apply sort_by_perm.
  Qed.
End SortBy.

Lemma NoDup_map_inj {X Y} (f : X -> Y) l : (forall a b, f a = f b -> a = b) -> NoDup l -> NoDup (map f l).
Proof.
  intros Hf. induction 1 as [|a r Hnotin Hnd IH]; simpl; constructor; [|assumption].
  intros Hin. apply in_map_iff in Hin. destruct Hin as [b [E Hb]]. apply Hf in E. subst. contradiction.
Qed.

Lemma map_fst_combine {X Y} (l1 : list X) : forall (l2 : list Y), List.length l1 = List.length l2 -> map fst (combine l1 l2) = l1.
Proof.
  induction l1 as [|a r IH]; intros [|b s] H; simpl in *; try discriminate; try reflexivity.
  f_equal. apply IH. lia.
Qed.

Lemma combine_map_r {X Y Z} (f : Y -> Z) (l1 : list X) : forall (l2 : list Y),
  combine l1 (map f l2) = map (fun p => (fst p, f (snd p))) (combine l1 l2).
Proof.
  induction l1 as [|a r IH]; intros [|b s]; simpl; try reflexivity. f_equal. apply IH.
Qed.

(* ------------------------------------------------------------------------------------------------ *)
(* ty_eqb implies equal canonical forms when no function type occurs                                 *)
(* ------------------------------------------------------------------------------------------------ *)

Definition canonf (f : string * ty) : string * ty := (fst f, canon (snd f)).

Lemma canon_obj fs : canon (TObj fs) = TObj (sort_kv (map canonf fs)).
Proof. reflexivity. Qed.

Lemma map_fst_canonf fs : map fst (map canonf fs) = map fst fs.
Proof. rewrite map_map. apply map_ext. intros [n t]; reflexivity. Qed.

Definition canon_stmt (x : ty) : Prop :=
  forall y, wf_ty x = true -> wf_ty y = true -> no_fun_ty x = true -> ty_eqb x y = true -> canon x = canon y.

Lemma eqb_list_canon l1 : Forall canon_stmt l1 ->
  forall l2, Forall (fun t => wf_ty t = true) l1 -> Forall (fun t => wf_ty t = true) l2 ->
  forallb no_fun_ty l1 = true -> eqb_list l1 l2 = true -> map canon l1 = map canon l2.
Proof.
  induction 1 as [|a r1 Ha Hr IH]; intros [|b r2] Hw1 Hw2 Hnf HH; simpl in *; try discriminate; try reflexivity.
  inversion Hw1 as [|? ? Wa Wr1]; subst. inversion Hw2 as [|? ? Wb Wr2]; subst.
  apply andb_true_iff in HH. destruct HH as [HH1 HH2]. apply andb_true_iff in Hnf. destruct Hnf as [Hn1 Hn2].
  f_equal; [apply Ha; assumption|apply IH; assumption].
Qed.

Lemma canon_eq : forall x, canon_stmt x.
Proof.
  unfold canon_stmt.
  induction x using ty_ind'; intros y Hwx Hwy Hnf Heq; destruct y; try (simpl in Heq; discriminate Heq);
    try reflexivity.
  - simpl in Heq. apply String.eqb_eq in Heq. congruence.
  - rewrite ty_eqb_tuple in Heq. apply wf_tuple in Hwx. apply wf_tuple in Hwy. simpl. f_equal.
    apply eqb_list_canon; assumption.
  - simpl in *. f_equal. auto.
  - apply wf_map in Hwx. apply wf_map in Hwy. destruct Hwx as [_ [Hk1 Hv1]]. destruct Hwy as [_ [Hk2 Hv2]].
    simpl in *. apply andb_true_iff in Heq. destruct Heq as [E1 E2]. apply andb_true_iff in Hnf. destruct Hnf as [N1 N2].
    f_equal; auto.
  - apply wf_obj in Hwx. apply wf_obj in Hwy. destruct Hwx as [Hn1 Hw1]. destruct Hwy as [Hn2 Hw2].
    rewrite Forall_forall in H. apply ty_eqb_obj_spec in Heq. destruct Heq as [Hlen Hrel].
    simpl in Hnf. rewrite forallb_forall in Hnf.
    rewrite !canon_obj. f_equal. apply sort_kv_perm_eq.
    { rewrite map_fst_canonf. assumption. }
    apply NoDup_Permutation_bis.
    + eapply NoDup_map_inv. rewrite map_fst_canonf. eassumption.
    + rewrite !map_length. lia.
    + intros [n t'] Hin. apply in_map_iff in Hin. destruct Hin as [[n0 t] [E Hin]].
      unfold canonf in E; simpl in E. injection E as En Et. subst n0.
      destruct (Hrel n t Hin) as [t2 [Ha He]].
      apply (H (n, t) Hin t2) in He; simpl; eauto using assoc_In.
      * simpl in He. apply in_map_iff. exists (n, t2). split; [|eauto using assoc_In].
        unfold canonf; simpl. congruence.
      * apply (Hnf (n, t) Hin).
  - simpl in Hnf. discriminate Hnf.
  - simpl in *. f_equal. auto.
Qed.

(* ------------------------------------------------------------------------------------------------ *)
(* Main section                                                                                      *)
(* ------------------------------------------------------------------------------------------------ *)

Section C18.
  Variable ops : numops.

  (* same as in Props/C18.v *)
  Definition num_refl (l : list N) : Prop := forall b, In b l -> num_eq ops b b = true.
  Definition num_sym : Prop := forall a b, num_eq ops a b = num_eq ops b a.
  Definition num_separated (l1 l2 : list N) : Prop :=
    forall a b, In a l1 -> In b l2 -> (num_eq ops a b = true <-> fmt_num ops a = fmt_num ops b).

  (* ---- eq_key ---- *)

  Lemma eq_key_partial : forall x y kx ky,
    is_primitive (val_type x) = true -> ty_eqb (val_type x) (val_type y) = true ->
    num_separated (nums_of x) (nums_of y) ->
    times_separated x y = true ->
    key_of ops x = ([], OVal kx) -> key_of ops y = ([], OVal ky) ->
    (val_eqb ops x y = true <-> kx = ky).
  Proof.
    intros x y kx ky _ Hty Hsep Htime Hkx Hky.
    destruct x; cbn [key_of] in Hkx; try discriminate Hkx;
      destruct y; cbn [key_of] in Hky; try discriminate Hky;
      cbn [val_type ty_eqb] in Hty; try discriminate Hty;
      unfold ret in Hkx, Hky; injection Hkx as <-; injection Hky as <-;
      cbn [val_eqb val_type ty_eqb andb].
    - apply Hsep; simpl; auto.
    - destruct b, b0; split; intros H; try reflexivity; try discriminate H; vm_compute in H; discriminate H.
    - rewrite list_eqb_eq. split; [congruence|apply quote_injective].
    - split; intros H.
      + apply andb_true_iff in H. destruct H as [H1 H2]. apply Z.eqb_eq in H1. apply Z.eqb_eq in H2. congruence.
      + apply quote_injective in H. cbn [times_separated] in Htime. rewrite H, list_eqb_refl in Htime. exact Htime.
  Qed.

  Lemma eq_key_notime : forall x y kx ky,
    is_primitive (val_type x) = true -> ty_eqb (val_type x) (val_type y) = true ->
    num_separated (nums_of x) (nums_of y) ->
    val_type x <> TTime ->
    key_of ops x = ([], OVal kx) -> key_of ops y = ([], OVal ky) ->
    (val_eqb ops x y = true <-> kx = ky).
  Proof.
    intros x y kx ky Hp Hty Hsep Hnt. apply eq_key_partial; try assumption.
    destruct x; try reflexivity. exfalso. apply Hnt. reflexivity.
  Qed.

  (* the statement without [times_separated] is false: nanoseconds are not confined to [0, 10^9) in the model *)
  Lemma eq_key_counterexample :
    let x := VTime 0 100000000 in let y := VTime 0 1000000000 in
    is_primitive (val_type x) = true /\ ty_eqb (val_type x) (val_type y) = true /\
    num_separated (nums_of x) (nums_of y) /\
    key_of ops x = key_of ops y /\ val_eqb ops x y = false.
  Proof.
    cbv zeta. split; [reflexivity|]. split; [reflexivity|]. split; [intros a b []|].
    split; vm_compute; reflexivity.
  Qed.

  (* ---- eq_refl ---- *)

  Lemma eqb_vlist_refl vs : Forall (fun v => val_eqb ops v v = true) vs -> eqb_vlist ops vs vs = true.
  Proof. induction 1 as [|a r Ha Hr IH]; simpl; [reflexivity|]. rewrite Ha, IH. reflexivity. Qed.

  Lemma Forall_sub {X} (P Q R S : X -> Prop) l :
    Forall (fun x => P x -> Q x -> R x -> S x) l -> Forall P l -> Forall Q l -> Forall R l -> Forall S l.
  Proof.
    intros H HP HQ HR. rewrite Forall_forall in *. auto.
  Qed.

  Lemma eq_refl : forall v, val_ok v = true -> fun_free v = true -> num_refl (nums_of v) -> val_eqb ops v v = true.
  Proof.
    unfold num_refl.
    induction v using val_ind'; intros Hok Hff Hnum.
    - cbn [val_eqb val_type ty_eqb andb]. apply Hnum. left. reflexivity.
    - cbn [val_eqb val_type ty_eqb andb]. apply eqb_reflx.
    - cbn [val_eqb val_type ty_eqb andb]. apply list_eqb_refl.
    - cbn [val_eqb val_type ty_eqb andb]. rewrite !Z.eqb_refl. reflexivity.
    - (* list *)
      apply val_ok_list in Hok. destruct Hok as [Hwf Hoks].
      rewrite val_eqb_list, (C17Proofs.eq_refl _ Hwf). cbn [andb]. apply eqb_vlist_refl.
      cbn [fun_free nums_of] in Hff, Hnum. rewrite forallb_forall in Hff.
      rewrite Forall_forall in *. intros x Hx. apply H; auto.
      intros b Hb. apply Hnum. apply in_flat_map. eauto.
    - (* map *)
      apply val_ok_map in Hok. destruct Hok as [Hwf [Hnd Hoks]].
      rewrite val_eqb_map, (C17Proofs.eq_refl _ Hwf), Nat.eqb_refl. cbn [andb].
      apply eqb_vmap_spec. intros k a Hin. exists a. split; [apply In_kget; assumption|].
      cbn [fun_free nums_of] in Hff, Hnum. rewrite forallb_forall in Hff.
      rewrite Forall_forall in *. apply (H (k, a) Hin); [apply (Hoks (k, a) Hin)|apply (Hff (k, a) Hin)|].
      intros b Hb. apply Hnum. apply in_flat_map. exists (k, a). auto.
    - (* object *)
      apply val_ok_obj_inv in Hok. destruct Hok as [fs [-> [Hwf [Hnd [Hlen [Hokf Hoks]]]]]].
      rewrite val_eqb_obj, (C17Proofs.eq_refl _ Hwf), Nat.eqb_refl. cbn [andb].
      apply eqb_vobj_spec. split; [lia|]. intros i [n ft] a Hf Ha. exists i, a. cbn [fst].
      split; [eapply nth_index_of; eauto|]. split; [assumption|].
      cbn [fun_free nums_of] in Hff, Hnum. rewrite forallb_forall in Hff.
      rewrite Forall_forall in *. apply nth_error_In in Ha. apply H; auto.
      intros b Hb. apply Hnum. apply in_flat_map. eauto.
    - apply val_ok_maybe_none in Hok. cbn [val_eqb val_type]. rewrite (C17Proofs.eq_refl _ Hok). reflexivity.
    - apply val_ok_maybe in Hok. destruct Hok as [Hwf Hx]. cbn [val_eqb val_type].
      rewrite (C17Proofs.eq_refl _ Hwf). cbn [andb]. apply IHv; assumption.
    - discriminate Hff.
  Qed.

  (* ---- eq_sym ---- *)

  Lemma kv_flip {X} (R : X -> X -> Prop) (kx ky : list (list N * X)) :
    NoDup (map fst kx) -> NoDup (map fst ky) -> List.length kx = List.length ky ->
    (forall k a, In (k, a) kx -> exists b, kget k ky = Some b /\ R a b) ->
    forall k b, In (k, b) ky -> exists a, kget k kx = Some a /\ R a b.
  Proof.
    intros Hn1 Hn2 Hlen H k b Hin.
    assert (incl (map fst kx) (map fst ky)) as Hincl.
    { intros k' Hk'. apply in_map_iff in Hk'. destruct Hk' as [[k2 a] [E Hin2]]. simpl in E; subst.
      destruct (H _ _ Hin2) as [b' [Hb' _]]. apply kget_In in Hb'. apply (in_map fst) in Hb'. exact Hb'. }
    assert (In k (map fst kx)) as Hk.
    { apply (@NoDup_length_incl _ (map fst kx) (map fst ky) Hn1).
      - rewrite !map_length. lia.
      - exact Hincl.
      - apply (in_map fst) in Hin. exact Hin. }
    destruct (In_keys_kget _ _ Hk) as [a Ha]. exists a. split; [assumption|].
    destruct (H _ _ (kget_In _ _ _ Ha)) as [b' [Hb' Hr]].
    rewrite (In_kget _ _ _ Hn2 Hin) in Hb'. injection Hb' as <-. exact Hr.
  Qed.

  Lemma Forall2_flip_in {X} (R R' : X -> X -> Prop) xs : forall ys,
    Forall2 R xs ys -> (forall a b, In a xs -> In b ys -> R a b -> R' b a) -> Forall2 R' ys xs.
  Proof.
    induction xs as [|a r IH]; intros ys H Himp; inversion H; subst; constructor.
    - apply Himp; simpl; auto.
    - apply IH; [assumption|]. intros a' b' Ha Hb. apply Himp; simpl; auto.
  Qed.

  Definition sym_stmt (x : val) : Prop :=
    forall y, val_ok x = true -> val_ok y = true -> funs_wf x = true -> funs_wf y = true ->
              val_eqb ops x y = true -> val_eqb ops y x = true.

  Ltac mismatch H := cbn [val_eqb] in H; rewrite ?andb_false_r in H; discriminate H.

  Lemma eqb_sym_imp : num_sym -> forall x, sym_stmt x.
  Proof.
    intros Hsym. unfold sym_stmt.
    induction x using val_ind'; intros y Hox Hoy Hfx Hfy Heq; destruct y; try (mismatch Heq).
    - cbn [val_eqb val_type ty_eqb andb] in *. rewrite <- Hsym. exact Heq.
    - cbn [val_eqb val_type ty_eqb andb] in *. destruct b, b0; auto.
    - cbn [val_eqb val_type ty_eqb andb] in *. rewrite list_eqb_sym. exact Heq.
    - cbn [val_eqb val_type ty_eqb andb] in *. rewrite (Z.eqb_sym sec s), (Z.eqb_sym nsec n). exact Heq.
    - (* list *)
      apply val_ok_list in Hox. apply val_ok_list in Hoy. destruct Hox as [Hwx Hox]. destruct Hoy as [Hwy Hoy].
      rewrite val_eqb_list in *. apply andb_true_iff in Heq. destruct Heq as [Ht Hl].
      apply andb_true_iff. split; [apply C17Proofs.eqb_sym_imp; assumption|].
      apply eqb_vlist_Forall2. apply eqb_vlist_Forall2 in Hl.
      cbn [funs_wf] in Hfx, Hfy. rewrite forallb_forall in Hfx, Hfy. rewrite Forall_forall in *.
      eapply Forall2_flip_in; [exact Hl|]. intros a b Ha Hb Hab. apply H; auto.
    - (* map *)
      apply val_ok_map in Hox. apply val_ok_map in Hoy.
      destruct Hox as [Hwx [Hnx Hox]]. destruct Hoy as [Hwy [Hny Hoy]].
      rewrite val_eqb_map in *. apply andb_true_iff in Heq. destruct Heq as [Ht Hl].
      apply andb_true_iff in Hl. destruct Hl as [Hlen Hm]. apply Nat.eqb_eq in Hlen. unfold len in *.
      apply andb_true_iff. split; [apply C17Proofs.eqb_sym_imp; assumption|].
      apply andb_true_iff. split; [apply Nat.eqb_eq; auto|].
      apply eqb_vmap_spec. rewrite eqb_vmap_spec in Hm.
      cbn [funs_wf] in Hfx, Hfy. rewrite forallb_forall in Hfx, Hfy. rewrite Forall_forall in *.
      intros k b Hin.
      destruct (kv_flip (fun a b => val_eqb ops a b = true) _ _ Hnx Hny Hlen Hm k b Hin) as [a [Ha Hab]].
      exists a. split; [assumption|]. apply kget_In in Ha.
      apply (H (k, a) Ha); try assumption.
      + apply (Hox (k, a) Ha).
      + apply (Hoy (k, b) Hin).
      + apply (Hfx (k, a) Ha).
      + apply (Hfy (k, b) Hin).
    - (* object *)
      apply val_ok_obj_inv in Hox. destruct Hox as [fx [-> [Hwx [Hnx [Hlx [Hokx Hox]]]]]].
      apply val_ok_obj_inv in Hoy. destruct Hoy as [fy [-> [Hwy [Hny [Hly [Hoky Hoy]]]]]].
      rewrite val_eqb_obj in *. apply andb_true_iff in Heq. destruct Heq as [Ht Hl].
      apply andb_true_iff in Hl. destruct Hl as [Hlen Hm]. apply Nat.eqb_eq in Hlen. unfold len in *.
      assert (ty_eqb (TObj fy) (TObj fx) = true) as Ht' by (apply C17Proofs.eqb_sym_imp; assumption).
      apply andb_true_iff. split; [assumption|].
      apply andb_true_iff. split; [apply Nat.eqb_eq; auto|].
      apply eqb_vobj_spec. rewrite eqb_vobj_spec in Hm. destruct Hm as [_ Hm].
      split; [lia|]. intros j [m tt] b Hfj Hbj. cbn [fst].
      apply ty_eqb_obj_spec in Ht'. destruct Ht' as [_ Hrel].
      destruct (Hrel m tt (nth_error_In _ _ Hfj)) as [t' [Hassoc _]].
      apply assoc_In_keys in Hassoc. destruct (In_keys_index_of _ _ Hassoc) as [i Hi].
      destruct (index_of_nth _ _ _ Hi) as [ti Hfi].
      assert (i < List.length vs) as Hilt by (rewrite <- Hlx; apply nth_error_Some; congruence).
      destruct (nth_error vs i) as [a|] eqn:Ea; [|apply nth_error_None in Ea; lia].
      destruct (Hm i (m, ti) a Hfi Ea) as [j' [b' [Hj' [Hb' Hab]]]]. cbn [fst] in Hj'.
      rewrite (nth_index_of _ _ _ _ Hny Hfj) in Hj'. injection Hj' as <-.
      rewrite Hbj in Hb'. injection Hb' as <-.
      exists i, a. split; [assumption|]. split; [exact Ea|].
      cbn [funs_wf] in Hfx, Hfy. rewrite forallb_forall in Hfx, Hfy. rewrite Forall_forall in *.
      apply nth_error_In in Ea. apply nth_error_In in Hbj. apply H; auto.
    - (* none *)
      destruct v; [mismatch Heq|].
      apply val_ok_maybe_none in Hox. apply val_ok_maybe_none in Hoy.
      cbn [val_eqb val_type] in *. rewrite andb_true_r in *. apply C17Proofs.eqb_sym_imp; assumption.
    - (* some *)
      destruct v; [|mismatch Heq].
      apply val_ok_maybe in Hox. apply val_ok_maybe in Hoy. destruct Hox as [Hwx Hox]. destruct Hoy as [Hwy Hoy].
      cbn [val_eqb val_type] in *. apply andb_true_iff in Heq. destruct Heq as [Ht Hv].
      apply andb_true_iff. split; [apply C17Proofs.eqb_sym_imp; assumption|].
      cbn [funs_wf] in Hfx, Hfy. apply IHx; assumption.
    - (* function values *)
      cbn [val_eqb val_type funs_wf] in *. apply andb_true_iff in Heq. destruct Heq as [Ht Hn].
      apply andb_true_iff. split; [apply C17Proofs.eqb_sym_imp; assumption|].
      rewrite String.eqb_sym. exact Hn.
  Qed.

  Lemma eq_sym_partial : forall x y, val_ok x = true -> val_ok y = true -> funs_wf x = true -> funs_wf y = true ->
    num_sym -> val_eqb ops x y = val_eqb ops y x.
  Proof.
    intros x y Hx Hy Fx Fy Hsym.
    destruct (val_eqb ops x y) eqn:E1; destruct (val_eqb ops y x) eqn:E2; try reflexivity.
    - apply (eqb_sym_imp Hsym) in E1; try assumption. congruence.
    - apply (eqb_sym_imp Hsym) in E2; try assumption. congruence.
  Qed.

  Lemma eq_sym_fun_free : forall x y, val_ok x = true -> val_ok y = true -> fun_free x = true -> fun_free y = true ->
    num_sym -> val_eqb ops x y = val_eqb ops y x.
  Proof. intros x y Hx Hy Fx Fy. apply eq_sym_partial; auto using fun_free_funs_wf. Qed.

  (* [val_ok] does not ask the type carried by a function value to be well formed, and [ty_eqb] is not symmetric
     on object types with repeated field names *)
  Lemma eq_sym_counterexample :
    let x := VFun (TFun "f" [TObj [("a", TNum); ("a", TNum)]] TNum) "f" false in
    let y := VFun (TFun "f" [TObj [("a", TNum); ("b", TStr)]] TNum) "f" false in
    val_ok x = true /\ val_ok y = true /\ val_eqb ops x y = true /\ val_eqb ops y x = false.
  Proof. cbv zeta. repeat split; vm_compute; reflexivity. Qed.

  (* ---- rendering: unfolding lemmas ---- *)

  Definition rk (kvs : list (list N * val)) : list (list N * list N) :=
    map (fun kv => (fst kv, render ops (snd kv))) kvs.

  Definition render_kvs (l : list (list N * list N)) : list N :=
    match l with
    | [] => bytes_of_string "[:]"
    | _ => [91%N] ++ join_bytes (bytes_of_string ", ")
             (map (fun kr => fst kr ++ bytes_of_string ": " ++ snd kr) (sort_by fst l)) ++ [93%N]
    end.

  Lemma render_map t kvs : render ops (VMap t kvs) = render_kvs (rk kvs).
  Proof. destruct kvs; reflexivity. Qed.

  Definition named (fs : list (string * ty)) (vs : list val) : list (string * list N) :=
    combine (map fst fs) (map (render ops) vs).

  Definition render_named (l : list (string * list N)) : list N :=
    [123%N] ++ join_bytes (bytes_of_string ", ")
      (map (fun nr => bytes_of_string (fst nr) ++ bytes_of_string ": " ++ snd nr)
         (sort_by (fun nr => bytes_of_string (fst nr)) l)) ++ [125%N].

  Lemma render_obj fs vs : render ops (VObj (TObj fs) vs) = render_named (named fs vs).
  Proof. reflexivity. Qed.

  Lemma render_list t vs :
    render ops (VList t vs) = [91%N] ++ join_bytes (bytes_of_string ", ") (map (render ops) vs) ++ [93%N].
  Proof. reflexivity. Qed.

  Definition render_opt (e : ty) (o : option val) : list N :=
    match o with
    | None => bytes_of_string "Nothing#" ++ ty_bytes (canon e) ++ bytes_of_string "()"
    | Some x => bytes_of_string "Just#" ++ ty_bytes (canon e) ++ [40%N] ++ render ops x ++ [41%N]
    end.

  Lemma render_maybe e o : render ops (VMaybe (TMaybe e) o) = render_opt e o.
  Proof. destruct o; reflexivity. Qed.

  Lemma render_kvs_perm l l' : NoDup (map fst l) -> Permutation l l' -> render_kvs l = render_kvs l'.
  Proof.
    intros Hnd Hp. destruct l as [|a r], l' as [|b s].
    - reflexivity.
    - apply Permutation_nil in Hp. discriminate.
    - apply Permutation_sym in Hp. apply Permutation_nil in Hp. discriminate.
    - unfold render_kvs. rewrite (sort_by_perm_eq fst _ _ Hnd Hp). reflexivity.
  Qed.

  Lemma render_named_perm l l' : NoDup (map fst l) -> Permutation l l' -> render_named l = render_named l'.
  Proof.
    intros Hnd Hp. unfold render_named.
    rewrite (sort_by_perm_eq (fun nr : string * list N => bytes_of_string (fst nr)) l l'); [reflexivity| |exact Hp].
    rewrite <- (map_map fst bytes_of_string). apply NoDup_map_inj; [apply bytes_of_string_inj|exact Hnd].
  Qed.

  Lemma map_fst_rk kvs : map fst (rk kvs) = map fst kvs.
  Proof. unfold rk. rewrite map_map. apply map_ext. reflexivity. Qed.

  Lemma map_fst_named fs vs : List.length fs = List.length vs -> map fst (named fs vs) = map fst fs.
  Proof. intros H. unfold named. apply map_fst_combine. rewrite !map_length. exact H. Qed.

  Lemma val_ok_maybe_ty t o : val_ok (VMaybe t o) = true -> exists e, t = TMaybe e.
  Proof.
    simpl. intros H. apply andb_true_iff in H. destruct H as [_ H].
    destruct t; try discriminate H. eexists; reflexivity.
  Qed.

  Lemma Forall2_in_impl {X Y} (R R' : X -> Y -> Prop) xs : forall ys,
    Forall2 R xs ys -> (forall a b, In a xs -> In b ys -> R a b -> R' a b) -> Forall2 R' xs ys.
  Proof.
    induction xs as [|a r IH]; intros ys H Himp; inversion H; subst; constructor.
    - apply Himp; simpl; auto.
    - apply IH; [assumption|]. intros a' b' Ha Hb. apply Himp; simpl; auto.
  Qed.

  Lemma Forall2_map_eq {X Y Z} (f : X -> Z) (g : Y -> Z) xs : forall ys,
    Forall2 (fun a b => f a = g b) xs ys -> map f xs = map g ys.
  Proof. induction xs as [|a r IH]; intros ys H; inversion H; subst; simpl; [reflexivity|]. f_equal; auto. Qed.

  Lemma maybe_canon e e' :
    wf_ty (TMaybe e) = true -> wf_ty (TMaybe e') = true -> no_fun_ty (TMaybe e) = true ->
    ty_eqb (TMaybe e) (TMaybe e') = true -> canon e = canon e'.
  Proof. simpl. intros. apply canon_eq; assumption. Qed.

  (* ---- eq_render ---- *)

  Definition render_stmt (x : val) : Prop :=
    forall y, val_ok x = true -> val_ok y = true -> fun_free x = true -> maybe_fn_free x = true ->
              num_separated (nums_of x) (nums_of y) -> val_eqb ops x y = true -> render ops x = render ops y.

  Lemma eq_render_all : forall x, render_stmt x.
  Proof.
    unfold render_stmt, num_separated.
    induction x using val_ind'; intros y Hox Hoy Hff Hmf Hsep Heq; destruct y; try (mismatch Heq).
    - cbn [val_eqb val_type ty_eqb andb render] in *. apply Hsep; simpl; auto.
    - cbn [val_eqb val_type ty_eqb andb render] in *. apply eqb_prop in Heq. subst. reflexivity.
    - cbn [val_eqb val_type ty_eqb andb render] in *. apply list_eqb_eq in Heq. subst. reflexivity.
    - cbn [val_eqb val_type ty_eqb andb render] in *. apply andb_true_iff in Heq. destruct Heq as [E1 E2].
      apply Z.eqb_eq in E1. apply Z.eqb_eq in E2. subst. reflexivity.
    - (* list *)
      apply val_ok_list in Hox. apply val_ok_list in Hoy. destruct Hox as [_ Hox]. destruct Hoy as [_ Hoy].
      rewrite val_eqb_list in Heq. apply andb_true_iff in Heq. destruct Heq as [_ Hl].
      apply eqb_vlist_Forall2 in Hl. rewrite !render_list.
      assert (map (render ops) vs = map (render ops) vs0) as Em; [|rewrite Em; reflexivity].
      apply Forall2_map_eq.
      cbn [fun_free maybe_fn_free nums_of] in Hff, Hmf, Hsep. rewrite forallb_forall in Hff, Hmf.
      rewrite Forall_forall in *.
      eapply Forall2_in_impl; [exact Hl|]. intros a b Ha Hb Hab. apply H; auto.
      intros p q Hp Hq. apply Hsep; apply in_flat_map; eauto.
    - (* map *)
      apply val_ok_map in Hox. apply val_ok_map in Hoy.
      destruct Hox as [_ [Hnx Hox]]. destruct Hoy as [_ [Hny Hoy]].
      rewrite val_eqb_map in Heq. apply andb_true_iff in Heq. destruct Heq as [_ Hl].
      apply andb_true_iff in Hl. destruct Hl as [Hlen Hm]. apply Nat.eqb_eq in Hlen. unfold len in *.
      rewrite eqb_vmap_spec in Hm.
      cbn [fun_free maybe_fn_free nums_of] in Hff, Hmf, Hsep. rewrite forallb_forall in Hff, Hmf.
      rewrite Forall_forall in *.
      rewrite !render_map. apply render_kvs_perm; [rewrite map_fst_rk; assumption|].
      apply NoDup_Permutation_bis.
      + apply (NoDup_map_inv fst). rewrite map_fst_rk. assumption.
      + unfold rk. rewrite !map_length. lia.
      + intros [k s] Hin. unfold rk in Hin. apply in_map_iff in Hin. destruct Hin as [[k' a] [E Hin]].
        cbn [fst snd] in E. injection E as -> <-.
        destruct (Hm k a Hin) as [b [Hb Hab]]. apply kget_In in Hb.
        assert (render ops a = render ops b) as Er.
        { apply (H (k, a) Hin); try assumption.
          - apply (Hox (k, a) Hin).
          - apply (Hoy (k, b) Hb).
          - apply (Hff (k, a) Hin).
          - apply (Hmf (k, a) Hin).
          - intros p q Hp Hq. apply Hsep; apply in_flat_map; [exists (k, a)|exists (k, b)]; auto. }
        rewrite Er. unfold rk. apply in_map_iff. exists (k, b). auto.
    - (* object *)
      apply val_ok_obj_inv in Hox. destruct Hox as [fx [-> [_ [Hnx [Hlx [_ Hox]]]]]].
      apply val_ok_obj_inv in Hoy. destruct Hoy as [fy [-> [_ [Hny [Hly [_ Hoy]]]]]].
      rewrite val_eqb_obj in Heq. apply andb_true_iff in Heq. destruct Heq as [Ht Hl].
      apply andb_true_iff in Hl. destruct Hl as [Hlen Hm]. apply Nat.eqb_eq in Hlen. unfold len in *.
      rewrite eqb_vobj_spec in Hm. destruct Hm as [_ Hm].
      cbn [fun_free maybe_fn_free nums_of] in Hff, Hmf, Hsep. rewrite forallb_forall in Hff, Hmf.
      rewrite Forall_forall in *.
      rewrite !render_obj. apply render_named_perm; [rewrite map_fst_named; assumption|].
      apply NoDup_Permutation_bis.
      + apply (NoDup_map_inv fst). rewrite map_fst_named; assumption.
      + unfold named. rewrite !combine_length, !map_length. lia.
      + intros [n s] Hin. apply In_nth_error in Hin. destruct Hin as [i Hi].
        unfold named in Hi. rewrite nth_error_combine, !nth_error_map in Hi.
        destruct (nth_error fx i) as [[n0 t0]|] eqn:Ef; [|discriminate Hi].
        destruct (nth_error vs i) as [a|] eqn:Ea; [|discriminate Hi].
        cbn [option_map fst] in Hi. injection Hi as -> <-.
        destruct (Hm i (n, t0) a Ef Ea) as [j [b [Hj [Hb Hab]]]]. cbn [fst] in Hj.
        destruct (index_of_nth _ _ _ Hj) as [tj Hfj].
        assert (render ops a = render ops b) as Er.
        { apply nth_error_In in Ea. pose proof (nth_error_In _ _ Hb) as Hb'. apply H; auto.
          intros p q Hp Hq. apply Hsep; apply in_flat_map; eauto. }
        rewrite Er. apply (nth_error_In _ j). unfold named.
        rewrite nth_error_combine, !nth_error_map, Hfj, Hb. reflexivity.
    - (* none *)
      destruct v; [mismatch Heq|].
      destruct (val_ok_maybe_ty _ _ Hox) as [e ->]. destruct (val_ok_maybe_ty _ _ Hoy) as [e' ->].
      apply val_ok_maybe_none in Hox. apply val_ok_maybe_none in Hoy.
      cbn [val_eqb val_type] in Heq. rewrite andb_true_r in Heq. cbn [maybe_fn_free] in Hmf. rewrite andb_true_r in Hmf.
      rewrite !render_maybe. unfold render_opt. rewrite (maybe_canon e e'); auto.
    - (* some *)
      destruct v; [|mismatch Heq].
      destruct (val_ok_maybe_ty _ _ Hox) as [e ->]. destruct (val_ok_maybe_ty _ _ Hoy) as [e' ->].
      apply val_ok_maybe in Hox. apply val_ok_maybe in Hoy. destruct Hox as [Hwx Hox]. destruct Hoy as [Hwy Hoy].
      cbn [val_eqb val_type] in Heq. apply andb_true_iff in Heq. destruct Heq as [Ht Hv].
      cbn [maybe_fn_free fun_free nums_of] in Hmf, Hff, Hsep. apply andb_true_iff in Hmf. destruct Hmf as [Hnf Hmf].
      rewrite !render_maybe. unfold render_opt. rewrite (maybe_canon e e'); auto.
      rewrite (IHx v); auto.
    - discriminate Hff.
  Qed.

  Lemma eq_render_partial : forall x y,
    val_ok x = true -> val_ok y = true -> fun_free x = true -> maybe_fn_free x = true ->
    num_separated (nums_of x) (nums_of y) ->
    val_eqb ops x y = true -> render ops x = render ops y.
  Proof. intros x y. apply eq_render_all. Qed.

  (* [ty_eqb] ignores function names, rendering prints them *)
  Lemma eq_render_counterexample :
    let x := VMaybe (TMaybe (TFun "f" [] TNum)) None in
    let y := VMaybe (TMaybe (TFun "g" [] TNum)) None in
    val_ok x = true /\ val_ok y = true /\ fun_free x = true /\ num_separated (nums_of x) (nums_of y) /\
    val_eqb ops x y = true /\ render ops x <> render ops y.
  Proof.
    cbv zeta. split; [reflexivity|]. split; [reflexivity|]. split; [reflexivity|]. split; [intros a b []|].
    split; [reflexivity|]. vm_compute. discriminate.
  Qed.

  (* ---- render_canonical ---- *)

  Lemma In_combine_r_ex {X Y} (l1 : list X) (l2 : list Y) b :
    List.length l1 = List.length l2 -> In b l2 -> exists a, In (a, b) (combine l1 l2).
  Proof.
    intros Hlen Hin. apply In_nth_error in Hin. destruct Hin as [i Hi].
    assert (i < List.length l1) as Hlt by (rewrite Hlen; apply nth_error_Some; congruence).
    destruct (nth_error l1 i) as [a|] eqn:Ea; [|apply nth_error_None in Ea; lia].
    exists a. apply (nth_error_In _ i). rewrite nth_error_combine, Ea, Hi. reflexivity.
  Qed.

  Lemma Forall2_len {X Y} (R : X -> Y -> Prop) xs : forall ys, Forall2 R xs ys -> List.length xs = List.length ys.
  Proof. induction xs as [|a r IH]; intros ys H; inversion H; subst; simpl; auto. Qed.

  Definition canonical_stmt (x : val) : Prop :=
    forall y, val_ok x = true -> val_ok y = true -> maybe_fn_free x = true -> same_contents x y ->
              render ops x = render ops y.

  Lemma render_canonical_all : forall x, canonical_stmt x.
  Proof.
    unfold canonical_stmt.
    induction x using val_ind'; intros y Hox Hoy Hmf Hsc; inversion Hsc; subst; try reflexivity.
    - (* list *)
      apply val_ok_list in Hox. apply val_ok_list in Hoy. destruct Hox as [_ Hox]. destruct Hoy as [_ Hoy].
      rewrite !render_list.
      assert (map (render ops) vs = map (render ops) ys) as Em; [|rewrite Em; reflexivity].
      apply Forall2_map_eq.
      cbn [maybe_fn_free] in Hmf. rewrite forallb_forall in Hmf. rewrite Forall_forall in *.
      match goal with Hf : Forall2 same_contents _ _ |- _ => eapply Forall2_in_impl; [exact Hf|] end.
      intros a b Ha Hb Hab. apply H; auto.
    - (* map *)
      apply val_ok_map in Hox. apply val_ok_map in Hoy.
      destruct Hox as [_ [Hnx Hox]]. destruct Hoy as [_ [Hny Hoy]].
      cbn [maybe_fn_free] in Hmf. rewrite forallb_forall in Hmf. rewrite Forall_forall in *.
      match goal with Hp : Permutation ?l ky |- _ => rename Hp into Hperm; set (kz := l) in * end.
      assert (rk kvs = rk kz) as Ek.
      { unfold rk. apply Forall2_map_eq.
        match goal with Hf : Forall2 _ kvs kz |- _ => eapply Forall2_in_impl; [exact Hf|] end.
        intros a b Ha Hb [Hk Hab]. cbv beta. rewrite Hk. f_equal.
        apply (H a Ha); auto.
        apply Hoy. eapply Permutation_in; eauto. }
      rewrite !render_map. apply render_kvs_perm; [rewrite map_fst_rk; assumption|].
      rewrite Ek. unfold rk. apply Permutation_map. exact Hperm.
    - (* object *)
      apply val_ok_obj_inv in Hox. destruct Hox as [fx' [Efx [_ [Hnx [Hlx [_ Hox]]]]]]. injection Efx as <-.
      apply val_ok_obj_inv in Hoy. destruct Hoy as [fy' [Efy [_ [Hny [Hly [_ Hoy]]]]]]. injection Efy as <-.
      cbn [maybe_fn_free] in Hmf. rewrite forallb_forall in Hmf. rewrite Forall_forall in *.
      match goal with Hp : Permutation (combine _ ?l) (combine _ ys) |- _ => rename Hp into Hperm; set (yz := l) in * end.
      match goal with Hf : Forall2 same_contents vs yz |- _ => rename Hf into Hf2 end.
      assert (List.length yz = List.length vs) as Hlz by (symmetry; eapply Forall2_len; eauto).
      assert (map (render ops) vs = map (render ops) yz) as Em.
      { apply Forall2_map_eq. eapply Forall2_in_impl; [exact Hf2|]. intros a b Ha Hb Hab.
        apply H; auto. apply Hoy.
        destruct (In_combine_r_ex (map fst fx) yz b) as [n Hn]; [rewrite map_length; lia|assumption|].
        eapply in_combine_r. eapply Permutation_in; [exact Hperm|exact Hn]. }
      rewrite !render_obj. apply render_named_perm; [rewrite map_fst_named; assumption|].
      unfold named. rewrite Em, !combine_map_r. apply Permutation_map. exact Hperm.
    - (* some *)
      destruct (val_ok_maybe_ty _ _ Hox) as [e ->]. destruct (val_ok_maybe_ty _ _ Hoy) as [e' ->].
      apply val_ok_maybe in Hox. apply val_ok_maybe in Hoy. destruct Hox as [Hwx Hox]. destruct Hoy as [Hwy Hoy].
      cbn [maybe_fn_free] in Hmf. apply andb_true_iff in Hmf. destruct Hmf as [Hnf Hmf].
      rewrite !render_maybe. unfold render_opt. rewrite (maybe_canon e e'); auto.
      rewrite (IHx y0); auto.
  Qed.

  Lemma render_canonical_partial : forall x y,
    val_ok x = true -> val_ok y = true -> maybe_fn_free x = true -> same_contents x y ->
    render ops x = render ops y.
  Proof. intros x y. apply render_canonical_all. Qed.

  Lemma render_canonical_counterexample :
    let fv := VFun (TFun "f" [] TNum) "h" false in
    let x := VMaybe (TMaybe (TFun "f" [] TNum)) (Some fv) in
    let y := VMaybe (TMaybe (TFun "g" [] TNum)) (Some fv) in
    val_ok x = true /\ val_ok y = true /\ same_contents x y /\ render ops x <> render ops y.
  Proof.
    cbv zeta. split; [reflexivity|]. split; [reflexivity|]. split.
    - apply sc_maybe; [reflexivity|apply sc_refl].
    - vm_compute. discriminate.
  Qed.
End C18.

Print Assumptions quote_injective.
Print Assumptions big_distinct.
Print Assumptions eq_refl.
Print Assumptions eq_key_partial.
Print Assumptions eq_sym_partial.
Print Assumptions eq_render_partial.
Print Assumptions render_canonical_partial.
