(* C18 proofs: in progress *)
