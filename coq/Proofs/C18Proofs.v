(* Proofs for Props/C18.v: equality, map keys and rendering of values agree.
   Four of the seven statements are false of the model as first stated (see the counterexample lemmas); for those the
   strongest true variants are proved as [*_partial] under named extra hypotheses. *)
From Coq Require Import List String Ascii Bool Arith NArith ZArith Lia Permutation Sorting DecimalString DecimalN DecimalPos.
From Yae Require Import Base.Sexp Model.Ty Gen.Generated Model.Num Model.Lexer Model.Literal Model.Val Model.Render
  Model.ValSpec Model.TySpec Proofs.TyInd Proofs.C17Proofs.
Import ListNotations.

Local Arguments is_print : simpl never.
Local Opaque is_print.

(* ------------------------------------------------------------------------------------------------ *)
(* Induction principle for the nested inductive [val]                                                *)
(* ------------------------------------------------------------------------------------------------ *)

Section ValInd.
  Variable P : val -> Prop.
  Hypothesis Hnum : forall b, P (VNum b).
  Hypothesis Hbool : forall b, P (VBool b).
  Hypothesis Hstr : forall s, P (VStr s).
  Hypothesis Htime : forall s n, P (VTime s n).
  Hypothesis Hlist : forall t vs, Forall P vs -> P (VList t vs).
  Hypothesis Hmap : forall t kvs, Forall (fun kv => P (snd kv)) kvs -> P (VMap t kvs).
  Hypothesis Hobj : forall t vs, Forall P vs -> P (VObj t vs).
  Hypothesis Hnone : forall t, P (VMaybe t None).
  Hypothesis Hsome : forall t x, P x -> P (VMaybe t (Some x)).
  Hypothesis Hfun : forall t n l, P (VFun t n l).

  Fixpoint val_ind' (v : val) : P v :=
    match v with
    | VNum b => Hnum b | VBool b => Hbool b | VStr s => Hstr s | VTime s n => Htime s n
    | VList t vs => Hlist t vs ((fix go (l : list val) : Forall P l :=
                                  match l with [] => Forall_nil _ | a :: r => Forall_cons _ (val_ind' a) (go r) end) vs)
    | VMap t kvs => Hmap t kvs ((fix go (l : list (list N * val)) : Forall (fun kv => P (snd kv)) l :=
                                   match l with [] => Forall_nil _ | a :: r => Forall_cons _ (val_ind' (snd a)) (go r) end) kvs)
    | VObj t vs => Hobj t vs ((fix go (l : list val) : Forall P l :=
                                 match l with [] => Forall_nil _ | a :: r => Forall_cons _ (val_ind' a) (go r) end) vs)
    | VMaybe t None => Hnone t
    | VMaybe t (Some x) => Hsome t x (val_ind' x)
    | VFun t n l => Hfun t n l
    end.
End ValInd.

(* ------------------------------------------------------------------------------------------------ *)
(* Small facts: byte strings, decimal printing                                                       *)
(* ------------------------------------------------------------------------------------------------ *)

Lemma list_eqb_eq a : forall b, list_eqb a b = true <-> a = b.
Proof.
  induction a as [|x r IH]; intros [|y s]; simpl; split; intros H; try discriminate; try reflexivity.
  - apply andb_true_iff in H. destruct H as [H1 H2]. apply N.eqb_eq in H1. apply IH in H2. congruence.
  - injection H as E1 E2. subst. rewrite N.eqb_refl. simpl. apply IH. reflexivity.
Qed.

Lemma list_eqb_refl a : list_eqb a a = true.
Proof. apply list_eqb_eq. reflexivity. Qed.

Lemma list_eqb_sym a b : list_eqb a b = list_eqb b a.
Proof.
  destruct (list_eqb a b) eqn:E1; destruct (list_eqb b a) eqn:E2; try reflexivity.
  - apply list_eqb_eq in E1. subst. rewrite list_eqb_refl in E2. discriminate.
  - apply list_eqb_eq in E2. subst. rewrite list_eqb_refl in E1. discriminate.
Qed.

Lemma list_ascii_of_string_inj s : forall t, list_ascii_of_string s = list_ascii_of_string t -> s = t.
Proof.
  induction s as [|c s IH]; intros [|d t]; simpl; intros H; try discriminate; try reflexivity.
  injection H as E1 E2. f_equal; auto.
Qed.

Lemma N_of_ascii_inj a b : N_of_ascii a = N_of_ascii b -> a = b.
Proof. intros H. rewrite <- (ascii_N_embedding a), <- (ascii_N_embedding b), H. reflexivity. Qed.

Lemma map_inj {X Y} (f : X -> Y) : (forall a b, f a = f b -> a = b) -> forall l1 l2, map f l1 = map f l2 -> l1 = l2.
Proof.
  intros Hf. induction l1 as [|a r IH]; intros [|b s]; simpl; intros H; try discriminate; try reflexivity.
  injection H as E1 E2. f_equal; auto.
Qed.

Lemma bytes_of_string_inj s t : bytes_of_string s = bytes_of_string t -> s = t.
Proof.
  unfold bytes_of_string. intros H. apply list_ascii_of_string_inj.
  eapply map_inj; [|exact H]. apply N_of_ascii_inj.
Qed.

Lemma string_of_uint_digit d : d <> Decimal.Nil ->
  exists c s, NilZero.string_of_uint d = String c s /\ c <> "-"%char.
Proof.
  destruct d; intros H; try congruence; simpl; eexists; eexists; (split; [reflexivity|discriminate]).
Qed.

Lemma N_to_uint_nonnil n : N.to_uint n <> Decimal.Nil.
Proof. destruct n; simpl; [discriminate|apply DecimalPos.Unsigned.to_uint_nonnil]. Qed.

Lemma string_of_N_inj a b : string_of_N a = string_of_N b -> a = b.
Proof.
  unfold string_of_N. intros H.
  apply DecimalN.Unsigned.to_uint_inj.
  assert (Some (N.to_uint a) = Some (N.to_uint b)) as E.
  { rewrite <- (NilZero.usu _ (N_to_uint_nonnil a)), <- (NilZero.usu _ (N_to_uint_nonnil b)), H. reflexivity. }
  congruence.
Qed.

Lemma string_of_N_nodash n s : string_of_N n <> String "-" s.
Proof.
  unfold string_of_N. destruct (string_of_uint_digit _ (N_to_uint_nonnil n)) as [c [s' [E Hc]]].
  rewrite E. congruence.
Qed.

Lemma string_of_Z_inj a b : string_of_Z a = string_of_Z b -> a = b.
Proof.
  destruct a as [|p|p], b as [|q|q]; simpl; intros H; try reflexivity.
  - change "0"%string with (string_of_N 0) in H. apply string_of_N_inj in H. discriminate.
  - exfalso. change "0"%string with (string_of_N 0) in H. eapply string_of_N_nodash; eauto.
  - change "0"%string with (string_of_N 0) in H. apply string_of_N_inj in H. discriminate.
  - apply string_of_N_inj in H. congruence.
  - exfalso. eapply string_of_N_nodash; eauto.
  - exfalso. change "0"%string with (string_of_N 0) in H. symmetry in H. eapply string_of_N_nodash; eauto.
  - exfalso. symmetry in H. eapply string_of_N_nodash; eauto.
  - injection H as H. apply string_of_N_inj in H. congruence.
Qed.

Lemma fmt_Z_inj a b : fmt_Z a = fmt_Z b -> a = b.
Proof. unfold fmt_Z. intros H. apply string_of_Z_inj. apply bytes_of_string_inj. exact H. Qed.

(* ------------------------------------------------------------------------------------------------ *)
(* big_distinct                                                                                      *)
(* ------------------------------------------------------------------------------------------------ *)

Section BigDistinct.
  Variable ops : numops.

  Lemma big_distinct : forall a b,
    (forall x y, is_int ops x = true -> is_int ops y = true -> to_i64 ops x = to_i64 ops y -> num_eq ops x y = true) ->
    (forall x y, is_int ops x = false -> is_int ops y = false -> fmt_float ops x = fmt_float ops y -> x = y) ->
    (forall x y, is_int ops x = true -> is_int ops y = false -> fmt_Z (to_i64 ops x) <> fmt_float ops y) ->
    (forall b0, In b0 [a; b] -> num_eq ops b0 b0 = true) ->
    fmt_num ops a = fmt_num ops b -> num_eq ops a b = true.
  Proof.
    intros a b Hii Hff Hif Hrefl Hfmt. unfold fmt_num in Hfmt.
    destruct (is_int ops a) eqn:Ia; destruct (is_int ops b) eqn:Ib.
    - apply Hii; try assumption. apply fmt_Z_inj. exact Hfmt.
    - exfalso. eapply Hif; eauto.
    - exfalso. eapply Hif; eauto.
    - assert (a = b) as E by (apply Hff; assumption). subst b. apply Hrefl. left. reflexivity.
  Qed.
End BigDistinct.

(* ------------------------------------------------------------------------------------------------ *)
(* quote_injective: a decoder for the per-rune encodings of strconv.Quote.                           *)
(* [is_print] is never unfolded: the result holds for every "printable" predicate.                   *)
(* ------------------------------------------------------------------------------------------------ *)

Section Quote.
  Local Open Scope N_scope.
  Local Ltac Zify.zify_post_hook ::= Z.div_mod_to_equations.

  Ltac nb :=
    repeat match goal with
           | |- context [N.ltb ?a ?b] => destruct (N.ltb_spec a b)
           | |- context [N.leb ?a ?b] => destruct (N.leb_spec a b)
           | |- context [N.eqb ?a ?b] => destruct (N.eqb_spec a b)
           end.

  Definition unhexd (c : N) : N := if N.ltb c 58 then c - 48 else c - 87.
  Definition unhex2 (h1 h2 : N) : N := unhexd h1 * 16 + unhexd h2.
  Definition unhex4 (h1 h2 h3 h4 : N) : N := unhex2 h1 h2 * 256 + unhex2 h3 h4.
  Definition unhex8 (h1 h2 h3 h4 h5 h6 h7 h8 : N) : N := unhex4 h1 h2 h3 h4 * 65536 + unhex4 h5 h6 h7 h8.

  Lemma unhexd_hexd n : unhexd (hexd n) = n.
  Proof. unfold unhexd, hexd. nb; lia. Qed.

  Lemma unhex2_hex2 n : unhex2 (hexd (n / 16)) (hexd (n mod 16)) = n.
  Proof. unfold unhex2. rewrite !unhexd_hexd. lia. Qed.

  Lemma unhex4_hex4 n :
    unhex4 (hexd (n / 256 / 16)) (hexd ((n / 256) mod 16)) (hexd (n mod 256 / 16)) (hexd ((n mod 256) mod 16)) = n.
  Proof. unfold unhex4. rewrite !unhex2_hex2. lia. Qed.

  Definition width (c : N) : nat :=
    if N.ltb c 128 then 1%nat else if N.ltb c 224 then 2%nat else if N.ltb c 240 then 3%nat else 4%nat.

  (* one encoded rune off the front of a quoted text: (the input bytes it stands for, the rest) *)
  Definition dec_step (l : list N) : option (list N * list N) :=
    match l with
    | [] => None
    | c :: t =>
        if N.eqb c 34 then None
        else if N.eqb c 92 then
          match t with
          | [] => None
          | e :: u =>
              if N.eqb e 120 then match u with h1 :: h2 :: v => Some ([unhex2 h1 h2], v) | _ => None end
              else if N.eqb e 117 then
                match u with h1 :: h2 :: h3 :: h4 :: v => Some (utf8_encode (unhex4 h1 h2 h3 h4), v) | _ => None end
              else if N.eqb e 85 then
                match u with
                | h1 :: h2 :: h3 :: h4 :: h5 :: h6 :: h7 :: h8 :: v =>
                    Some (utf8_encode (unhex8 h1 h2 h3 h4 h5 h6 h7 h8), v)
                | _ => None end
              else if N.eqb e 97 then Some ([7], u) else if N.eqb e 98 then Some ([8], u)
              else if N.eqb e 102 then Some ([12], u) else if N.eqb e 110 then Some ([10], u)
              else if N.eqb e 114 then Some ([13], u) else if N.eqb e 116 then Some ([9], u)
              else if N.eqb e 118 then Some ([11], u)
              else Some ([e], u)
          end
        else Some (firstn (width c) l, skipn (width c) l)
    end.

  Definition stepf (x : N * nat * N) : list N :=
    let '(r, w, b0) := x in if Nat.eqb w 1 && N.eqb r 65533 then [92; 120] ++ hex2 b0 else escape_rune r.

  Lemma quote_stepf s : quote s = 34 :: flat_map stepf (runes_of s) ++ [34].
  Proof. reflexivity. Qed.

  (* utf8_encode by range *)
  Lemma enc1 c : c < 128 -> utf8_encode c = [c].
  Proof. intros H. unfold utf8_encode. nb; simpl; nb; try lia; reflexivity. Qed.

  Lemma enc2 c : 128 <= c -> c < 2048 -> utf8_encode c = [192 + c / 64; 128 + c mod 64].
  Proof. intros H1 H2. unfold utf8_encode. nb; simpl; nb; try lia; reflexivity. Qed.

  Lemma enc3 c : 2048 <= c -> c < 65536 -> (c < 55296 \/ 57343 < c) ->
    utf8_encode c = [224 + c / 4096; 128 + (c / 64) mod 64; 128 + c mod 64].
  Proof. intros H1 H2 H3. unfold utf8_encode. nb; simpl; nb; try lia; reflexivity. Qed.

  Lemma enc4 c : 65536 <= c -> c <= 1114111 ->
    utf8_encode c = [240 + c / 262144; 128 + (c / 4096) mod 64; 128 + (c / 64) mod 64; 128 + c mod 64].
  Proof. intros H1 H2. unfold utf8_encode. nb; simpl; nb; try lia; reflexivity. Qed.
End Quote.
