(* C07 proofs: in progress *)
