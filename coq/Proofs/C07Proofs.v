(* Proofs for Props/C07.v: envCheck accepts exactly the environments whose bindings have equal types; equal types
   ignore the order of object fields; two values of one interface-free Go struct type pass each other's envCheck. *)
From Coq Require Import List String Ascii Bool Arith NArith ZArith Lia Permutation.
From Yae Require Import Base.Sexp Model.Ty Gen.Generated Model.Unify Model.Num Model.Lexer Model.Cst Model.Check Model.Val
  Model.Render Model.ValSpec Model.Builtins Model.Eval Model.VM Model.Api Model.Conv Model.ConvSpec
  Proofs.TyInd Proofs.C17Proofs.
Import ListNotations.

(* ------------------------------------------------------------------------------------------------ *)
(* reject / accept                                                                                   *)
(* ------------------------------------------------------------------------------------------------ *)

Lemma env_check_true te rho :
  env_check te rho = true <->
  (forall n t, In (n, t) te -> exists v, assoc n rho = Some v /\ ty_eqb t (val_type v) = true).
Proof.
  unfold env_check. rewrite forallb_forall. split.
  - intros H n t Hin. specialize (H (n, t) Hin). simpl in H.
    destruct (assoc n rho) as [v|]; [|discriminate]. exists v. split; [reflexivity|assumption].
  - intros H [n t] Hin. simpl. destruct (H n t Hin) as [v [Ha Ht]]. rewrite Ha. exact Ht.
Qed.

Lemma reject : forall ops orc te code pool rho n t,
  In (n, t) te ->
  (assoc n rho = None \/ exists v, assoc n rho = Some v /\ ty_eqb t (val_type v) = false) ->
  api_call ops orc te code pool rho = (AErr, []).
Proof.
  intros ops orc te code pool rho n t Hin Hbad.
  unfold api_call.
  destruct (env_check te rho) eqn:E; [|reflexivity].
  exfalso. rewrite env_check_true in E. destruct (E n t Hin) as [v [Ha Ht]].
  destruct Hbad as [Hn|[v' [Ha' Ht']]]; congruence.
Qed.

Lemma accept : forall ops orc te code pool rho,
  (forall n t, In (n, t) te -> exists v, assoc n rho = Some v /\ ty_eqb t (val_type v) = true) ->
  api_call ops orc te code pool rho =
    (let '(t, o) := vm_run ops orc rho pool None 5000 code in
     (guarded "facade.go:makeCallable.func defers e.backStrace" (match o with OVal v => Some v | _ => None end), t)).
Proof.
  intros ops orc te code pool rho H.
  unfold api_call. apply env_check_true in H. rewrite H. reflexivity.
Qed.

(* ------------------------------------------------------------------------------------------------ *)
(* field_order                                                                                       *)
(* ------------------------------------------------------------------------------------------------ *)

Lemma field_order : forall fs fs',
  Permutation fs fs' -> wf_ty (TObj fs) = true -> ty_eqb (TObj fs) (TObj fs') = true.
Proof.
  intros fs fs' Hp Hw.
  apply wf_obj in Hw. destruct Hw as [Hnd Hwf].
  apply ty_eqb_obj_spec. split.
  - apply Permutation_length; assumption.
  - intros n t Hin. exists t. split.
    + apply In_assoc.
      * eapply Permutation_NoDup; [|exact Hnd]. apply Permutation_map. exact Hp.
      * eapply Permutation_in; eauto.
    + apply C17Proofs.eq_refl. eapply Hwf; eauto.
Qed.


(* ------------------------------------------------------------------------------------------------ *)
(* same_go_type                                                                                      *)
(* ------------------------------------------------------------------------------------------------ *)

(* The static type of a Go type, without fuel and without the nesting-level limit.  [type_of] agrees with it whenever
   it succeeds; [val_of] of a shape-stable value of an interface-free type has a type equal to it. *)
Fixpoint sty (t : gty) : option ty :=
  match t with
  | GPtr e => sty e
  | GTime => Some TTime
  | GBool => Some TBool
  | GInt | GUint | GFloat => Some TNum
  | GString => Some TStr
  | GSlice e | GArray e => option_map TList (sty e)
  | GMap k v => do kt <- sty k; do vt <- sty v; mk_mapty kt vt
  | GStruct fs =>
      do fts <- mapM (fun x => let '(gn, tag, ft) := x in
                               let '(name, maybe) := parse_tag gn tag in
                               do t' <- sty ft;
                               Some (name, if maybe then TMaybe t' else t')) fs;
      mk_obj fts
  | GIface | GOther => None
  end.

Local Opaque parse_tag.

Lemma type_of_S f t lv :
  type_of (S f) t lv =
    if Nat.ltb maxLevel lv then None else
    match t with
    | GPtr e => type_of f e lv
    | GTime => Some TTime
    | GBool => Some TBool
    | GInt | GUint | GFloat => Some TNum
    | GString => Some TStr
    | GSlice e | GArray e => option_map TList (type_of f e (S lv))
    | GMap k v => do kt <- type_of f k (S lv); do vt <- type_of f v (S lv); mk_mapty kt vt
    | GStruct fs =>
        do fts <- mapM (fun x => let '(gn, tag, ft) := x in
                                 let '(name, maybe) := parse_tag gn tag in
                                 do t' <- type_of f ft (S lv);
                                 Some (name, if maybe then TMaybe t' else t')) fs;
        mk_obj fts
    | GIface | GOther => None
    end.
Proof. reflexivity. Qed.

Lemma bind_some {X Y} (o : option X) (k : X -> option Y) y :
  bind o k = Some y -> exists x, o = Some x /\ k x = Some y.
Proof. destruct o as [x|]; simpl; intros H; [eauto|discriminate]. Qed.

Lemma mapM_cons {X Y} (g : X -> option Y) a l :
  mapM g (a :: l) = do y <- g a; do ys <- mapM g l; Some (y :: ys).
Proof. reflexivity. Qed.

Lemma mapM_imp {X Y} (g h : X -> option Y) l ys :
  (forall x y, In x l -> g x = Some y -> h x = Some y) ->
  mapM g l = Some ys -> mapM h l = Some ys.
Proof.
  revert ys. induction l as [|a l IH]; intros ys Hgh H.
  - exact H.
  - rewrite mapM_cons in *.
    apply bind_some in H. destruct H as [y [Hy H]].
    apply bind_some in H. destruct H as [ys' [Hys H]].
    rewrite (Hgh a y (or_introl Logic.eq_refl) Hy). simpl.
    rewrite (IH ys'); [exact H| |exact Hys].
    intros x y' Hin. apply Hgh. right; exact Hin.
Qed.

Lemma mapM_Forall2 {X Y} (g : X -> option Y) l ys :
  mapM g l = Some ys -> Forall2 (fun x y => g x = Some y) l ys.
Proof.
  revert ys. induction l as [|a l IH]; intros ys H.
  - simpl in H. inversion H. constructor.
  - rewrite mapM_cons in H.
    apply bind_some in H. destruct H as [y [Hy H]].
    apply bind_some in H. destruct H as [ys' [Hys H]].
    inversion H; subst. constructor; auto.
Qed.

Lemma type_of_sty : forall f t lv T, type_of f t lv = Some T -> sty t = Some T.
Proof.
  induction f as [|f IH]; intros t lv T H; [discriminate|].
  rewrite type_of_S in H. destruct (Nat.ltb maxLevel lv); [discriminate|].
  destruct t; simpl; try exact H; try discriminate.
  - eapply IH; eauto.
  - destruct (type_of f t (S lv)) as [T'|] eqn:E; [|discriminate]. rewrite (IH _ _ _ E). exact H.
  - destruct (type_of f t (S lv)) as [T'|] eqn:E; [|discriminate]. rewrite (IH _ _ _ E). exact H.
  - apply bind_some in H. destruct H as [kt [Hk H]].
    apply bind_some in H. destruct H as [vt [Hv H]].
    rewrite (IH _ _ _ Hk), (IH _ _ _ Hv). exact H.
  - apply bind_some in H. destruct H as [fts [Hf H]].
    erewrite mapM_imp; [exact H| |exact Hf].
    intros [[gn tag] ft] y _. simpl. destruct (parse_tag gn tag) as [name maybe].
    intros Hy. apply bind_some in Hy. destruct Hy as [t' [Ht' Hy]].
    rewrite (IH _ _ _ Ht'). exact Hy.
Qed.

Lemma nodupb_map_fst_wf fts :
  nodupb (map fst fts) = true -> Forall (fun nt : string * ty => wf_ty (snd nt) = true) fts -> wf_ty (TObj fts) = true.
Proof.
  intros Hn Hw. simpl. rewrite Hn. simpl. apply forallb_forall. apply Forall_forall. exact Hw.
Qed.

Lemma type_of_wf : forall f t lv T, type_of f t lv = Some T -> wf_ty T = true.
Proof.
  induction f as [|f IH]; intros t lv T H; [discriminate|].
  rewrite type_of_S in H. destruct (Nat.ltb maxLevel lv); [discriminate|].
  destruct t; try discriminate; try (inversion H; subst; reflexivity).
  - exact (IH _ _ _ H).
  - destruct (type_of f t (S lv)) as [T'|] eqn:E; [|discriminate]. inversion H; subst. simpl. exact (IH _ _ _ E).
  - destruct (type_of f t (S lv)) as [T'|] eqn:E; [|discriminate]. inversion H; subst. simpl. exact (IH _ _ _ E).
  - apply bind_some in H. destruct H as [kt [Hk H]].
    apply bind_some in H. destruct H as [vt [Hv H]].
    unfold mk_mapty in H. destruct (keyable kt) eqn:Ek; [|discriminate]. inversion H; subst.
    simpl. rewrite Ek, (IH _ _ _ Hk), (IH _ _ _ Hv). reflexivity.
  - apply bind_some in H. destruct H as [fts [Hf H]].
    unfold mk_obj in H. destruct (nodupb (map fst fts)) eqn:En; [|discriminate]. inversion H; subst.
    apply nodupb_map_fst_wf; [exact En|].
    apply mapM_Forall2 in Hf. clear -Hf IH.
    induction Hf as [|[[gn tag] ft] y l ys Hy Hf IHf]; constructor; [|exact IHf].
    simpl in Hy. destruct (parse_tag gn tag) as [name maybe].
    apply bind_some in Hy. destruct Hy as [t' [Ht' Hy]]. inversion Hy; subst. simpl.
    destruct maybe; simpl; exact (IH _ _ _ Ht').
Qed.


(* ---- val_of, one unfolding, with the struct loop named ---- *)

Definition struct_go (cv : gty -> gv -> option val) :=
  fix go (fs : list (string * string * gty)) (vs : list gv) : option (list (string * val)) :=
    match fs, vs with
    | [], [] => Some []
    | (gn, tag, ft) :: fr, x :: vr =>
        let '(name, maybe) := parse_tag gn tag in
        do fv <- (if is_nil x then
                    do et <- type_of (S maxLevel + S maxLevel) ft 0; Some (VMaybe (TMaybe et) None)
                  else
                    do y <- cv ft x;
                    Some (if maybe then VMaybe (TMaybe (val_type y)) (Some y) else y));
        do rest <- go fr vr; Some ((name, fv) :: rest)
    | _, _ => None
    end.

Definition obj_of (xs : list (string * val)) : list (string * ty) :=
  map (fun nv => (fst nv, val_type (snd nv))) xs.

Lemma val_of_S ops f t v lv :
  val_of ops (S f) t v lv =
    if Nat.ltb maxLevel lv then None
    else if is_nil v then None
    else
      match unwrap f t v with
      | None => None
      | Some (t1, v1) =>
        match t1, v1 with
        | GTime, HTime s n => Some (VTime s n)
        | GBool, HBool b => Some (VBool b)
        | GInt, HInt z => Some (VNum (of_Z ops z))
        | GUint, HUint n => Some (VNum (of_Z ops (Z.of_N n)))
        | GFloat, HFloat b => Some (VNum b)
        | GString, HString s => Some (VStr s)
        | (GSlice e | GArray e), (HSeq _ | HNil) =>
            let elems := match v1 with HSeq l => l | _ => [] end in
            match elems with
            | [] => do lt <- type_of (S maxLevel + S maxLevel) t1 lv;
                    match lt with TList _ => Some (VList lt []) | _ => None end
            | _ =>
                do xs <- mapM (fun x => val_of ops f e x (S lv)) elems;
                match xs with
                | x0 :: _ => if all_eq_type (val_type x0) xs then Some (VList (TList (val_type x0)) xs) else None
                | [] => None
                end
            end
        | GMap kt vt, (HMap _ | HNil) =>
            let entries := match v1 with HMap l => l | _ => [] end in
            match entries with
            | [] => do mt <- type_of (S maxLevel + S maxLevel) t1 lv;
                    match mt with TMap _ _ => Some (VMap mt []) | _ => None end
            | _ =>
                do kvs <- mapM (fun kv => do k <- val_of ops f kt (fst kv) (S lv); do x <- val_of ops f vt (snd kv) (S lv); Some (k, x)) entries;
                match kvs with
                | (k0, x0) :: _ =>
                    if all_eq_type (val_type k0) (map fst kvs) && all_eq_type (val_type x0) (map snd kvs) then
                      do mt <- mk_mapty (val_type k0) (val_type x0);
                      do ents <- fold_left (fun acc kx => do a <- acc;
                                                          match key_of ops (fst kx) with
                                                          | (_, OVal kk) => Some (kput kk (snd kx) a)
                                                          | _ => None end) kvs (Some []);
                      Some (VMap mt ents)
                    else None
                | [] => None
                end
            end
        | GStruct fs, HStruct vs =>
            match fs with
            | [] => Some (VObj (TObj []) [])
            | _ =>
                do xs <- struct_go (fun ft x => val_of ops f ft x (S lv)) fs vs;
                do ot <- mk_obj (obj_of xs);
                Some (VObj ot (map snd xs))
            end
        | _, _ => None
        end
      end.
Proof. reflexivity. Qed.

(* ---- shape stability, fuel hidden ---- *)

Definition stable (t : gty) (v : gv) : Prop := exists k, shape_stable k t v false = true.

Lemma shape_stable_S k t v b :
  shape_stable (S k) t v b =
    match t, v with
    | _, HNil => b && match t with GPtr _ | GSlice _ | GMap _ _ => true | _ => false end
    | GBool, HBool _ | GInt, HInt _ | GUint, HUint _ | GFloat, HFloat _ | GString, HString _ | GTime, HTime _ _ => true
    | GPtr e, HPtr x => shape_stable k e x false
    | (GSlice e | GArray e), HSeq vs => forallb (fun x => shape_stable k e x false) vs
    | GMap kt e, HMap kvs => forallb (fun kx => shape_stable k kt (fst kx) false && shape_stable k e (snd kx) false) kvs
    | GStruct fs, HStruct vs =>
        Nat.eqb (len fs) (len vs) &&
        forallb (fun fx => let '(gn, tag, ft) := fst fx in shape_stable k ft (snd fx) (snd (parse_tag gn tag))) (combine fs vs)
    | _, _ => false
    end.
Proof. reflexivity. Qed.

Lemma shape_stable_nonnil k t v b : is_nil v = false -> shape_stable k t v b = shape_stable k t v false.
Proof.
  intros Hn. destruct k as [|k]; [reflexivity|].
  rewrite !shape_stable_S. destruct v; try discriminate Hn; reflexivity.
Qed.

Lemma stable_nonnil t v : stable t v -> is_nil v = false.
Proof.
  intros [k H]. destruct k as [|k]; [discriminate|]. rewrite shape_stable_S in H.
  destruct v; try reflexivity. destruct t; discriminate H.
Qed.

Lemma stable_ptr e x : stable (GPtr e) (HPtr x) -> stable e x.
Proof. intros [k H]. destruct k as [|k]; [discriminate|]. rewrite shape_stable_S in H. exists k; exact H. Qed.

Lemma stable_slice e l x : stable (GSlice e) (HSeq l) -> In x l -> stable e x.
Proof.
  intros [k H] Hin. destruct k as [|k]; [discriminate|]. rewrite shape_stable_S in H.
  rewrite forallb_forall in H. exists k. exact (H x Hin).
Qed.

Lemma stable_array e l x : stable (GArray e) (HSeq l) -> In x l -> stable e x.
Proof.
  intros [k H] Hin. destruct k as [|k]; [discriminate|]. rewrite shape_stable_S in H.
  rewrite forallb_forall in H. exists k. exact (H x Hin).
Qed.

Lemma stable_map kt e l kx : stable (GMap kt e) (HMap l) -> In kx l -> stable kt (fst kx) /\ stable e (snd kx).
Proof.
  intros [k H] Hin. destruct k as [|k]; [discriminate|]. rewrite shape_stable_S in H.
  rewrite forallb_forall in H. specialize (H kx Hin). apply andb_true_iff in H. destruct H as [H1 H2].
  split; exists k; assumption.
Qed.

(* field-wise stability of a struct: a nil field is declared optional, a non-nil field is stable *)
Definition fields_stable (fs : list (string * string * gty)) (vs : list gv) : Prop :=
  Forall2 (fun (fd : string * string * gty) x =>
             let '(gn, tag, ft) := fd in
             if is_nil x then snd (parse_tag gn tag) = true else stable ft x) fs vs.

Lemma stable_struct fs vs : stable (GStruct fs) (HStruct vs) -> fields_stable fs vs.
Proof.
  intros [k H]. destruct k as [|k]; [discriminate|]. rewrite shape_stable_S in H.
  apply andb_true_iff in H. destruct H as [Hl H]. apply Nat.eqb_eq in Hl. unfold len in Hl.
  unfold fields_stable. revert vs Hl H. induction fs as [|[[gn tag] ft] fs IH]; intros [|x vs] Hl H; try discriminate Hl.
  - constructor.
  - simpl in H. apply andb_true_iff in H. destruct H as [Hx H].
    constructor; [|apply IH; [simpl in Hl; lia|exact H]].
    destruct (is_nil x) eqn:En.
    + destruct x; try discriminate En. destruct k as [|k]; [discriminate|]. rewrite shape_stable_S in Hx.
      destruct ft; apply andb_true_iff in Hx; tauto.
    + rewrite shape_stable_nonnil in Hx by exact En. exists k; exact Hx.
Qed.

(* ---- unwrap ---- *)

Definition not_ref (t : gty) : Prop := match t with GPtr _ | GIface => False | _ => True end.

Lemma unwrap_stable : forall f t v t1 v1,
  unwrap f t v = Some (t1, v1) -> iface_free t = true -> stable t v ->
  iface_free t1 = true /\ stable t1 v1 /\ sty t1 = sty t /\ not_ref t1.
Proof.
  induction f as [|f IH]; intros t v t1 v1 H Hi Hs; [discriminate|].
  destruct t; try (simpl in H; inversion H; subst; simpl; tauto).
  - destruct v; try discriminate H. simpl in H.
    destruct (IH _ _ _ _ H Hi (stable_ptr _ _ Hs)) as [Ha [Hb [Hc Hd]]]. simpl. tauto.
  - discriminate Hi.
Qed.


(* ---- equality both ways (so that no well-formedness of value types is needed for symmetry) ---- *)

Definition teq (a b : ty) : Prop := ty_eqb a b = true /\ ty_eqb b a = true.

Lemma teq_refl T : wf_ty T = true -> teq T T.
Proof. intros H. split; apply C17Proofs.eq_refl; exact H. Qed.

Lemma keyable_eqb a b : ty_eqb a b = true -> keyable a = true -> keyable b = true.
Proof.
  intros He Hk. destruct a; try discriminate Hk; destruct b; try discriminate He; reflexivity.
Qed.

Lemma fields_rel_pointwise (R : ty -> ty -> Prop) (l1 l2 : list (string * ty)) :
  Forall2 (fun a b => fst a = fst b /\ R (snd a) (snd b)) l1 l2 -> NoDup (map fst l1) -> fields_rel R l1 l2.
Proof.
  induction 1 as [|[n1 t1] [n2 t2] l1 l2 [Hn Hr] HF IH]; intros Hnd n t Hin; [destruct Hin|].
  simpl in Hn, Hr. subst n2. simpl in Hnd. inversion Hnd as [|? ? Hnotin Hnd']; subst.
  destruct Hin as [E|Hin].
  - inversion E; subst. exists t2. simpl. rewrite String.eqb_refl. split; [reflexivity|exact Hr].
  - destruct (IH Hnd' n t Hin) as [t' [Ha Ht]]. exists t'. split; [|exact Ht].
    simpl. destruct (String.eqb_spec n n1) as [E|E]; [|exact Ha].
    subst. exfalso. apply Hnotin. apply (in_map fst) in Hin. exact Hin.
Qed.

Lemma Forall2_flip {X Y} (R : X -> Y -> Prop) l1 l2 : Forall2 R l1 l2 -> Forall2 (fun b a => R a b) l2 l1.
Proof. induction 1; constructor; auto. Qed.

Lemma Forall2_len {X Y} (R : X -> Y -> Prop) l1 l2 : Forall2 R l1 l2 -> List.length l1 = List.length l2.
Proof. induction 1; simpl; congruence. Qed.

Lemma Forall2_imp {X Y} (R S : X -> Y -> Prop) l1 l2 :
  (forall a b, R a b -> S a b) -> Forall2 R l1 l2 -> Forall2 S l1 l2.
Proof. intros H. induction 1; constructor; auto. Qed.

Lemma Forall2_map_fst {X Y} (R : string * X -> string * Y -> Prop) l1 l2 :
  Forall2 (fun a b => fst a = fst b /\ R a b) l1 l2 -> map fst l1 = map fst l2.
Proof. induction 1 as [|a b l1 l2 [Hn _] _ IH]; simpl; [reflexivity|]. rewrite Hn, IH. reflexivity. Qed.

Lemma map_fst_obj_of xs : map fst (obj_of xs) = map fst xs.
Proof. unfold obj_of. rewrite map_map. reflexivity. Qed.

Lemma teq_obj xs fts :
  Forall2 (fun (a : string * val) (b : string * ty) => fst a = fst b /\ teq (val_type (snd a)) (snd b)) xs fts ->
  nodupb (map fst xs) = true ->
  mk_obj fts = Some (TObj fts) /\ teq (TObj (obj_of xs)) (TObj fts).
Proof.
  intros HF Hn.
  assert (map fst xs = map fst fts) as Hk by (eapply Forall2_map_fst; exact HF).
  split.
  - unfold mk_obj. rewrite <- Hk, Hn. reflexivity.
  - assert (NoDup (map fst (obj_of xs))) as Hnd1 by (rewrite map_fst_obj_of; apply nodupb_NoDup; exact Hn).
    assert (NoDup (map fst fts)) as Hnd2 by (rewrite <- Hk; apply nodupb_NoDup; exact Hn).
    assert (Forall2 (fun a b : string * ty => fst a = fst b /\ teq (snd a) (snd b)) (obj_of xs) fts) as HF'.
    { clear -HF. unfold obj_of. induction HF as [|a b l1 l2 [H1 H2] _ IH]; simpl; constructor; auto. }
    assert (List.length (obj_of xs) = List.length fts) as Hl by (eapply Forall2_len; exact HF').
    split; apply ty_eqb_obj_spec; split; auto.
    + apply fields_rel_pointwise; [|exact Hnd1].
      eapply Forall2_imp; [|exact HF']. intros a b [H1 [H2 _]]. split; assumption.
    + apply fields_rel_pointwise; [|exact Hnd2].
      apply Forall2_flip in HF'. eapply Forall2_imp; [|exact HF']. intros a b [H1 [_ H2]]. split; auto.
Qed.

(* ---- the struct loop ---- *)

Definition sty_field (x : string * string * gty) : option (string * ty) :=
  let '(gn, tag, ft) := x in
  let '(name, maybe) := parse_tag gn tag in
  do t' <- sty ft; Some (name, if maybe then TMaybe t' else t').

Lemma sty_struct fs : sty (GStruct fs) = do fts <- mapM sty_field fs; mk_obj fts.
Proof. reflexivity. Qed.

Definition conv_ok (cv : gty -> gv -> option val) : Prop :=
  forall t v x, cv t v = Some x -> iface_free t = true -> stable t v ->
  exists T, sty t = Some T /\ teq (val_type x) T.

Lemma struct_go_cons cv gn tag ft fr x vr :
  struct_go cv ((gn, tag, ft) :: fr) (x :: vr) =
    let '(name, maybe) := parse_tag gn tag in
    do fv <- (if is_nil x then
                do et <- type_of (S maxLevel + S maxLevel) ft 0; Some (VMaybe (TMaybe et) None)
              else
                do y <- cv ft x;
                Some (if maybe then VMaybe (TMaybe (val_type y)) (Some y) else y));
    do rest <- struct_go cv fr vr; Some ((name, fv) :: rest).
Proof. reflexivity. Qed.

Lemma struct_go_sty cv : conv_ok cv -> forall fs vs xs,
  struct_go cv fs vs = Some xs ->
  forallb (fun f : string * string * gty => iface_free (snd f)) fs = true ->
  fields_stable fs vs ->
  exists fts, mapM sty_field fs = Some fts /\
    Forall2 (fun (a : string * val) (b : string * ty) => fst a = fst b /\ teq (val_type (snd a)) (snd b)) xs fts.
Proof.
  intros Hcv. induction fs as [|[[gn tag] ft] fr IH]; intros [|x vr] xs H Hi Hs; try discriminate H.
  - inversion H; subst. exists []. split; [reflexivity|constructor].
  - rewrite struct_go_cons in H.
    inversion Hs as [|? ? ? ? Hx Hs']; subst. simpl in Hi. apply andb_true_iff in Hi. destruct Hi as [Hi1 Hi2].
    rewrite mapM_cons. unfold sty_field at 1.
    destruct (parse_tag gn tag) as [name maybe] eqn:Ep. simpl in Hx.
    apply bind_some in H. destruct H as [fv [Hfv H]].
    apply bind_some in H. destruct H as [rest [Hrest H]]. inversion H; subst.
    destruct (IH _ _ Hrest Hi2 Hs') as [fts [Hm HF]]. rewrite Hm.
    destruct (is_nil x).
    + subst maybe.
      apply bind_some in Hfv. destruct Hfv as [et [Het Hfv]]. inversion Hfv; subst.
      rewrite (type_of_sty _ _ _ _ Het). simpl.
      eexists. split; [reflexivity|]. constructor; [|exact HF]. simpl. split; [reflexivity|].
      apply (teq_refl (TMaybe et)). simpl. eapply type_of_wf; exact Het.
    + apply bind_some in Hfv. destruct Hfv as [y [Hy Hfv]]. inversion Hfv; subst.
      destruct (Hcv _ _ _ Hy Hi1 Hx) as [T [HT [E1 E2]]]. rewrite HT. simpl.
      eexists. split; [reflexivity|]. constructor; [|exact HF]. simpl. split; [reflexivity|].
      destruct maybe; split; simpl; assumption.
Qed.

(* ---- the conversion of a shape-stable value of an interface-free type has the static type ---- *)

Lemma list_case ops f lv F e t1 l x :
  (forall lv', conv_ok (fun t v => val_of ops f t v lv')) ->
  sty t1 = option_map TList (sty e) ->
  match l with
  | [] => do lt <- type_of F t1 lv; match lt with TList _ => Some (VList lt []) | _ => None end
  | _ :: _ =>
      do xs <- mapM (fun y => val_of ops f e y (S lv)) l;
      match xs with
      | x0 :: _ => if all_eq_type (val_type x0) xs then Some (VList (TList (val_type x0)) xs) else None
      | [] => None
      end
  end = Some x ->
  iface_free e = true -> (forall y, In y l -> stable e y) ->
  exists T, sty t1 = Some T /\ teq (val_type x) T.
Proof.
  intros IH Hst H Hi Hs. destruct l as [|y0 l].
  - apply bind_some in H. destruct H as [lt [Hlt H]].
    exists lt. split; [eapply type_of_sty; exact Hlt|].
    destruct lt; try discriminate H. inversion H; subst. simpl.
    apply teq_refl. eapply type_of_wf; exact Hlt.
  - apply bind_some in H. destruct H as [xs [Hm H]].
    rewrite mapM_cons in Hm.
    apply bind_some in Hm. destruct Hm as [x0 [Hx0 Hm]].
    apply bind_some in Hm. destruct Hm as [xr [_ Hm]]. inversion Hm; subst.
    destruct (all_eq_type (val_type x0) (x0 :: xr)); [|discriminate H]. inversion H; subst.
    destruct (IH _ _ _ _ Hx0 Hi (Hs y0 (or_introl Logic.eq_refl))) as [T [HT [E1 E2]]].
    exists (TList T). rewrite Hst, HT. split; [reflexivity|]. split; simpl; assumption.
Qed.

Lemma map_case ops f lv F kt vt t1 (l : list (gv * gv)) x :
  (forall lv', conv_ok (fun t v => val_of ops f t v lv')) ->
  sty t1 = (do k <- sty kt; do v <- sty vt; mk_mapty k v) ->
  match l with
  | [] => do mt <- type_of F t1 lv; match mt with TMap _ _ => Some (VMap mt []) | _ => None end
  | _ :: _ =>
      do kvs <- mapM (fun kv => do k <- val_of ops f kt (fst kv) (S lv); do x <- val_of ops f vt (snd kv) (S lv); Some (k, x)) l;
      match kvs with
      | (k0, x0) :: _ =>
          if all_eq_type (val_type k0) (map fst kvs) && all_eq_type (val_type x0) (map snd kvs) then
            do mt <- mk_mapty (val_type k0) (val_type x0);
            do ents <- fold_left (fun acc kx => do a <- acc;
                                                match key_of ops (fst kx) with
                                                | (_, OVal kk) => Some (kput kk (snd kx) a)
                                                | _ => None end) kvs (Some []);
            Some (VMap mt ents)
          else None
      | [] => None
      end
  end = Some x ->
  iface_free kt = true -> iface_free vt = true ->
  (forall kx, In kx l -> stable kt (fst kx) /\ stable vt (snd kx)) ->
  exists T, sty t1 = Some T /\ teq (val_type x) T.
Proof.
  intros IH Hst H Hik Hiv Hs. destruct l as [|[k0 y0] l].
  - apply bind_some in H. destruct H as [mt [Hmt H]].
    exists mt. split; [eapply type_of_sty; exact Hmt|].
    destruct mt; try discriminate H. inversion H; subst. simpl.
    apply teq_refl. eapply type_of_wf; exact Hmt.
  - apply bind_some in H. destruct H as [kvs [Hm H]].
    rewrite mapM_cons in Hm.
    apply bind_some in Hm. destruct Hm as [[k0' x0'] [Hkx Hm]].
    apply bind_some in Hm. destruct Hm as [xr [_ Hm]]. inversion Hm; subst. clear Hm.
    simpl in Hkx.
    apply bind_some in Hkx. destruct Hkx as [k1 [Hk1 Hkx]].
    apply bind_some in Hkx. destruct Hkx as [x1 [Hx1 Hkx]]. inversion Hkx; subst. clear Hkx.
    match type of H with (if ?c then _ else _) = _ => destruct c end; [|discriminate H].
    apply bind_some in H. destruct H as [mt [Hmt H]].
    apply bind_some in H. destruct H as [ents [_ H]]. inversion H; subst. clear H.
    unfold mk_mapty in Hmt. destruct (keyable (val_type k0')) eqn:Ek; [|discriminate Hmt]. inversion Hmt; subst.
    destruct (Hs _ (or_introl Logic.eq_refl)) as [Hsk Hsv]. simpl in Hsk, Hsv.
    destruct (IH _ _ _ _ Hk1 Hik Hsk) as [Tk [HTk [Ek1 Ek2]]].
    destruct (IH _ _ _ _ Hx1 Hiv Hsv) as [Tv [HTv [Ev1 Ev2]]].
    exists (TMap Tk Tv). rewrite Hst, HTk, HTv. simpl. unfold mk_mapty. rewrite (keyable_eqb _ _ Ek1 Ek).
    split; [reflexivity|]. split; simpl; [rewrite Ek1, Ev1|rewrite Ek2, Ev2]; reflexivity.
Qed.

Lemma val_of_sty ops : forall f lv, conv_ok (fun t v => val_of ops f t v lv).
Proof.
  induction f as [|f IH]; intros lv t v x H Hi Hs; [discriminate|].
  rewrite val_of_S in H.
  destruct (Nat.ltb maxLevel lv); [discriminate|].
  destruct (is_nil v); [discriminate|].
  destruct (unwrap f t v) as [[t1 v1]|] eqn:Eu; [|discriminate].
  destruct (unwrap_stable _ _ _ _ _ Eu Hi Hs) as [Hi1 [Hs1 [Hst _]]]. rewrite <- Hst. clear Hst Eu Hi Hs t v.
  assert (is_nil v1 = false) as Hnn by (apply stable_nonnil in Hs1; exact Hs1).
  remember (S maxLevel + S maxLevel)%nat as F eqn:EF in H; clear EF.
  destruct t1; destruct v1; try discriminate Hnn;
    try match type of H with None = Some _ => discriminate H end;
    try match type of H with Some _ = Some _ =>
      inversion H; subst; eexists; split; [reflexivity|split; reflexivity] end.
  - (* slice *)
    cbv beta iota zeta in H. simpl in Hi1.
    eapply (list_case ops f lv F t1 (GSlice t1) vs x IH); [reflexivity|exact H|exact Hi1|].
    intros y Hy. eapply stable_slice; eauto.
  - (* array *)
    cbv beta iota zeta in H. simpl in Hi1.
    eapply (list_case ops f lv F t1 (GArray t1) vs x IH); [reflexivity|exact H|exact Hi1|].
    intros y Hy. eapply stable_array; eauto.
  - (* map *)
    cbv beta iota zeta in H. simpl in Hi1. apply andb_true_iff in Hi1. destruct Hi1 as [Hik Hiv].
    eapply (map_case ops f lv F t1_1 t1_2 (GMap t1_1 t1_2) kvs x IH); [reflexivity|exact H|exact Hik|exact Hiv|].
    intros kx Hkx. eapply stable_map; eauto.
  - (* struct *)
    apply stable_struct in Hs1. simpl in Hi1.
    destruct fs as [|fd fr].
    + inversion H; subst. exists (TObj []). split; [reflexivity|split; reflexivity].
    + apply bind_some in H. destruct H as [xs [Hgo H]].
      apply bind_some in H. destruct H as [ot [Hot H]]. inversion H; subst. clear H.
      unfold mk_obj in Hot. rewrite map_fst_obj_of in Hot.
      destruct (nodupb (map fst xs)) eqn:En; [|discriminate Hot]. inversion Hot; subst. clear Hot.
      destruct (struct_go_sty _ (IH (S lv)) _ _ _ Hgo Hi1 Hs1) as [fts [Hm HF]].
      destruct (teq_obj _ _ HF En) as [Hmk Hteq].
      exists (TObj fts). rewrite sty_struct, Hm. simpl. split; [exact Hmk|exact Hteq].
Qed.

(* ---- environments of a struct ---- *)

Lemma val_of_struct ops f fs v lv x :
  val_of ops f (GStruct fs) v lv = Some x -> exists xs, x = VObj (TObj (obj_of xs)) (map snd xs).
Proof.
  intros H. destruct f as [|f]; [discriminate|].
  rewrite val_of_S in H.
  destruct (Nat.ltb maxLevel lv); [discriminate|].
  destruct (is_nil v); [discriminate|].
  destruct f as [|f]; [discriminate|].
  change (unwrap (S f) (GStruct fs) v) with (Some (GStruct fs, v)) in H. cbv beta iota in H.
  destruct v; try match type of H with None = Some _ => discriminate H end.
  destruct fs as [|fd fr].
  - inversion H; subst. exists []. reflexivity.
  - apply bind_some in H. destruct H as [xs [_ H]].
    apply bind_some in H. destruct H as [ot [Hot H]]. inversion H; subst.
    unfold mk_obj in Hot. destruct (nodupb (map fst (obj_of xs))); [|discriminate Hot]. inversion Hot; subst.
    exists xs. reflexivity.
Qed.

Lemma TypeEnvOf_struct ops fs v :
  is_nil v = false ->
  TypeEnvOf ops (GStruct fs) v = match TypeOf ops (GStruct fs) v with Some (TObj fs') => Some fs' | _ => None end.
Proof.
  intros Hn. unfold TypeEnvOf. rewrite Hn.
  change (unwrap conv_fuel (GStruct fs) v) with (Some (GStruct fs, v)). reflexivity.
Qed.

Lemma ValEnvOf_struct ops fs v :
  is_nil v = false ->
  ValEnvOf ops (GStruct fs) v =
    match ValOf ops (GStruct fs) v with
    | Some (VObj (TObj fs') vs) => Some (combine (map fst fs') vs)
    | _ => None
    end.
Proof.
  intros Hn. unfold ValEnvOf. rewrite Hn.
  change (unwrap conv_fuel (GStruct fs) v) with (Some (GStruct fs, v)). reflexivity.
Qed.

Lemma combine_obj_of xs : combine (map fst (obj_of xs)) (map snd xs) = xs.
Proof.
  rewrite map_fst_obj_of. induction xs as [|[n v] xs IH]; simpl; [reflexivity|]. rewrite IH. reflexivity.
Qed.

Lemma assoc_obj_of n xs : assoc n (obj_of xs) = option_map val_type (assoc n xs).
Proof.
  induction xs as [|[m v] xs IH]; simpl; [reflexivity|].
  destruct (String.eqb n m); [reflexivity|exact IH].
Qed.

Lemma ValOf_eq ops t v : ValOf ops t v = val_of ops conv_fuel t v 0.
Proof. reflexivity. Qed.

Lemma TypeOf_eq ops t v :
  TypeOf ops t v = match ValOf ops t v with Some x => Some (val_type x) | None => type_of conv_fuel t 0 end.
Proof. reflexivity. Qed.

Lemma same_go_type : forall ops t v1 v2 te rho,
  iface_free t = true -> shape_stable conv_fuel t v1 false = true -> shape_stable conv_fuel t v2 false = true ->
  (match t with GStruct _ => True | _ => False end) ->
  TypeEnvOf ops t v1 = Some te -> ValEnvOf ops t v2 = Some rho ->
  env_check te rho = true.
Proof.
  intros ops t v1 v2 te rho Hi Hs1 Hs2 Ht Hte Hrho.
  destruct t; try contradiction. clear Ht.
  assert (stable (GStruct fs) v1) as St1 by (exists conv_fuel; exact Hs1).
  assert (stable (GStruct fs) v2) as St2 by (exists conv_fuel; exact Hs2).
  clear Hs1 Hs2.
  (* the compile-time side: an object type equal to the static type *)
  assert (exists T, sty (GStruct fs) = Some T /\ ty_eqb (TObj te) T = true) as [T [HT Hte_T]].
  { rewrite TypeEnvOf_struct in Hte by (apply stable_nonnil in St1; exact St1).
    rewrite TypeOf_eq in Hte. destruct (ValOf ops (GStruct fs) v1) as [x1|] eqn:E1.
    - rewrite ValOf_eq in E1. destruct (val_of_sty ops _ _ _ _ _ E1 Hi St1) as [T [HT [E _]]].
      exists T. split; [exact HT|].
      destruct (val_type x1); try discriminate Hte. inversion Hte; subst. exact E.
    - destruct (type_of conv_fuel (GStruct fs) 0) as [T|] eqn:ET; [|discriminate Hte].
      destruct T; try discriminate Hte. inversion Hte; subst.
      exists (TObj te). split; [eapply type_of_sty; exact ET|].
      apply C17Proofs.eq_refl. eapply type_of_wf; exact ET. }
  (* the run-time side *)
  rewrite ValEnvOf_struct in Hrho by (apply stable_nonnil in St2; exact St2).
  destruct (ValOf ops (GStruct fs) v2) as [x2|] eqn:E2; [|discriminate Hrho].
  rewrite ValOf_eq in E2.
  destruct (val_of_struct _ _ _ _ _ _ E2) as [xs Hx2]. subst x2.
  destruct (val_of_sty ops _ _ _ _ _ E2 Hi St2) as [T' [HT' [_ ET']]].
  rewrite HT in HT'. inversion HT'; subst T'. simpl in ET'.
  inversion Hrho; subst rho. rewrite combine_obj_of.
  pose proof (eqb_trans _ _ _ Hte_T ET') as Heq.
  apply ty_eqb_obj_spec in Heq. destruct Heq as [_ Hrel].
  apply env_check_true. intros n t Hin.
  destruct (Hrel n t Hin) as [t' [Ha Ht']].
  rewrite assoc_obj_of in Ha. destruct (assoc n xs) as [v|]; [|discriminate Ha].
  simpl in Ha. inversion Ha; subst. exists v. split; [reflexivity|exact Ht'].
Qed.

Print Assumptions reject.
Print Assumptions accept.
Print Assumptions field_order.
Print Assumptions same_go_type.
