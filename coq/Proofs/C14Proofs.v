(* C14 proofs *)
From Coq Require Import List String Bool NArith ZArith Lia.
From Yae Require Import Base.Sexp Model.Ty Gen.Generated Model.Unify Model.Lexer Model.Cst Model.Check Model.CheckSpec Model.Conc
  Proofs.Tables Proofs.C17Proofs Proofs.C05Proofs.
Import ListNotations.

Lemma race_free_ops :
  race_free compile_accesses compile_accesses = true /\
  race_free compile_accesses invoke_accesses = true /\
  race_free invoke_accesses invoke_accesses = true.
Proof. vm_compute. repeat split. Qed.

Lemma run_atomic_gt : forall sched n, Forall (fun x => (n < snd x)%Z) (run_atomic sched n).
Proof.
  induction sched as [|t r IH]; intros n; simpl.
  - constructor.
  - constructor.
    + simpl. lia.
    + specialize (IH (n + 1)%Z). rewrite Forall_forall in *. intros x Hx. specialize (IH x Hx). lia.
Qed.

Lemma fresh_unique : forall sched n,
  NoDup (map snd (run_atomic sched n)) /\ Forall (fun x => (n < snd x)%Z) (run_atomic sched n).
Proof.
  intros sched n. split; [|apply run_atomic_gt].
  revert n. induction sched as [|t r IH]; intros n; simpl.
  - constructor.
  - constructor; [|apply IH].
    intros Hin. apply in_map_iff in Hin. destruct Hin as [x [Hx Hin]].
    pose proof (run_atomic_gt r (n + 1)%Z) as HF. rewrite Forall_forall in HF.
    specialize (HF x Hin). lia.
Qed.

Lemma plain_counter_refuted : exists sched,
  let out := run_plain sched 0 [] [] in ~ NoDup (map snd out).
Proof.
  exists [RdStep 0; RdStep 1; WrStep 0; WrStep 1]. vm_compute.
  intros H. inversion H as [|x l Hn Hd]; subst. apply Hn. left. reflexivity.
Qed.

Lemma outcome_independent : forall fe G fuel fresh1 fresh2 e a1 T1 a2 T2,
  fenv_ok fe = true -> tenv_ok G = true -> fresh_ok fe fresh1 -> fresh_ok fe fresh2 ->
  check fe G fuel fresh1 e = COk (a1, T1) -> check fe G fuel fresh2 e = COk (a2, T2) -> ty_eqb T1 T2 = true.
Proof.
  intros fe G fuel fresh1 fresh2 e a1 T1 a2 T2 Hfe HG Hf1 Hf2 C1 C2.
  pose proof (check_sound fe G fuel fresh1 e a1 T1 Hfe HG Hf1 C1) as HT1.
  pose proof (check_sound fe G fuel fresh2 e a2 T2 Hfe HG Hf2 C2) as HT2.
  destruct (inferred_ok fe G fuel fresh1 e a1 T1 Hfe HG Hf1 C1) as [_ W1].
  destruct (check_complete fe G fresh1 e T1 Hfe HG Hf1 HT1) as [f1 K1].
  destruct (check_complete fe G fresh1 e T2 Hfe HG Hf1 HT2) as [f2 K2].
  destruct (K1 (Nat.max f1 f2) (Nat.le_max_l _ _)) as [b1 [U1 [D1 E1]]].
  destruct (K2 (Nat.max f1 f2) (Nat.le_max_r _ _)) as [b2 [U2 [D2 E2]]].
  rewrite D1 in D2. inversion D2; subst.
  destruct (inferred_ok fe G _ fresh1 e b2 U2 Hfe HG Hf1 D1) as [_ WU].
  apply (eqb_trans T1 U2 T2); [|exact E2].
  apply eqb_sym_imp; assumption.
Qed.

Print Assumptions race_free_ops.
Print Assumptions fresh_unique.
Print Assumptions plain_counter_refuted.
Print Assumptions outcome_independent.
