(* C10 proofs: in progress *)
