(* C10 proofs: desugaring produces core forms, has the documented shapes, commutes with position erasure,
   and is idempotent exactly on trees without a member node in callee position. *)
From Coq Require Import List String Bool NArith ZArith.
From Yae Require Import Base.Sexp Model.Lexer Model.Cst Model.Desugar Model.DesugarSpec Proofs.ExprInd.
Import ListNotations.

(* ---- option / mapM generalities ---- *)

Lemma bind_Some {X Y} (o : option X) (f : X -> option Y) y :
  bind o f = Some y -> exists x, o = Some x /\ f x = Some y.
Proof. destruct o as [x|]; cbn; intros H; [exists x; auto | discriminate H]. Qed.

Lemma option_map_Some {X Y} (f : X -> Y) (o : option X) y :
  option_map f o = Some y -> exists x, o = Some x /\ y = f x.
Proof. destruct o as [x|]; cbn; intros H; [injection H as <-; exists x; auto | discriminate H]. Qed.

Lemma mapM_cons {X Y} (f : X -> option Y) x r :
  mapM f (x :: r) = do y <- f x; do ys <- mapM f r; Some (y :: ys).
Proof. reflexivity. Qed.

Lemma mapM_cons_Some {X Y} (f : X -> option Y) x r l' :
  mapM f (x :: r) = Some l' -> exists y ys, f x = Some y /\ mapM f r = Some ys /\ l' = y :: ys.
Proof.
  rewrite mapM_cons. intros H.
  apply bind_Some in H as (y & Ey & H). apply bind_Some in H as (ys & Eys & H).
  injection H as <-. exists y, ys. auto.
Qed.

Lemma mapM_length {X Y} (f : X -> option Y) l : forall l', mapM f l = Some l' -> List.length l' = List.length l.
Proof.
  induction l as [|x r IH]; intros l' H.
  - cbn in H. injection H as <-. reflexivity.
  - apply mapM_cons_Some in H as (y & ys & _ & Eys & ->). cbn. f_equal. apply IH, Eys.
Qed.

Lemma mapM_id {X} (l : list X) : mapM (fun x => Some x) l = Some l.
Proof. induction l as [|x r IH]; [reflexivity|]. rewrite mapM_cons, IH. reflexivity. Qed.

Lemma mapM_forallb {X Y} (f : X -> option Y) (q : Y -> bool) l :
  Forall (fun x => forall y, f x = Some y -> q y = true) l ->
  forall l', mapM f l = Some l' -> forallb q l' = true.
Proof.
  induction 1 as [|x r Hx Hr IH]; intros l' H.
  - cbn in H. injection H as <-. reflexivity.
  - apply mapM_cons_Some in H as (y & ys & Ey & Eys & ->). cbn [forallb].
    rewrite (Hx _ Ey), (IH _ Eys). reflexivity.
Qed.

Lemma mapM_map {X Y} (f f' : X -> option Y) (g : X -> X) (g' : Y -> Y) l :
  Forall (fun x => forall y, f x = Some y -> f' (g x) = Some (g' y)) l ->
  forall l', mapM f l = Some l' -> mapM f' (map g l) = Some (map g' l').
Proof.
  induction 1 as [|x r Hx Hr IH]; intros l' H.
  - cbn in H. injection H as <-. reflexivity.
  - apply mapM_cons_Some in H as (y & ys & Ey & Eys & ->). cbn [map].
    rewrite mapM_cons, (Hx _ Ey), (IH _ Eys). reflexivity.
Qed.

Lemma mapM_fix {X} (f : X -> option X) (q1 q2 : X -> bool) l :
  Forall (fun x => q1 x = true -> q2 x = true -> f x = Some x) l ->
  forallb q1 l = true -> forallb q2 l = true -> mapM f l = Some l.
Proof.
  induction 1 as [|x r Hx Hr IH]; intros H1 H2; [reflexivity|].
  cbn [forallb] in H1, H2.
  apply andb_true_iff in H1 as [H1x H1r]. apply andb_true_iff in H2 as [H2x H2r].
  rewrite mapM_cons, (Hx H1x H2x), (IH H1r H2r). reflexivity.
Qed.

(* ---- unfolding equations of [desugar] ---- *)

Definition desugar_kv (kv : expr * expr) : option (expr * expr) :=
  do k <- desugar (fst kv); do v <- desugar (snd kv); Some (k, v).
Definition desugar_fld (f : list N * expr) : option (list N * expr) :=
  do v <- desugar (snd f); Some (fst f, v).

Lemma desugar_list p es : desugar (EList p es) = option_map (EList p) (mapM desugar es).
Proof. reflexivity. Qed.
Lemma desugar_map p kvs : desugar (EMap p kvs) = option_map (EMap p) (mapM desugar_kv kvs).
Proof. reflexivity. Qed.
Lemma desugar_obj p fs : desugar (EObj p fs) = option_map (EObj p) (mapM desugar_fld fs).
Proof. reflexivity. Qed.
Lemma desugar_unary p n np x pre :
  desugar (EUnary p n np x pre) = do x' <- desugar x; Some (ECall p (p_col np) (EIdent np n) [x']).
Proof. reflexivity. Qed.
Lemma desugar_binary p n np fx l r :
  desugar (EBinary p n np fx l r) =
  do l' <- desugar l; do r' <- desugar r; Some (ECall p (p_col np) (EIdent np n) [l'; r']).
Proof. reflexivity. Qed.
Lemma desugar_ternary p n np l m r :
  desugar (ETernary p n np l m r) =
  if list_eqb n [63%N] then
    do l' <- desugar l; do m' <- desugar m; do r' <- desugar r;
    Some (ECall p (p_col np) (EIdent np IF_NAME) [l'; m'; r'])
  else None.
Proof. reflexivity. Qed.
Lemma desugar_sub p c v i :
  desugar (ESub p c v i) = do v' <- desugar v; do i' <- desugar i; Some (ESub p c v' i').
Proof. reflexivity. Qed.
Lemma desugar_member p c o n np :
  desugar (EMember p c o n np) = do o' <- desugar o; Some (EMember p c o' n np).
Proof. reflexivity. Qed.
Lemma desugar_group p x : desugar (EGroup p x) = desugar x.
Proof. reflexivity. Qed.

Definition is_member (e : expr) : bool := match e with EMember _ _ _ _ _ => true | _ => false end.

Lemma is_member_inv e : is_member e = true -> exists pm cm o f fp, e = EMember pm cm o f fp.
Proof. destruct e as [| | | | | | | | | |pm cm o f fp| | | |]; intros H; try discriminate H. exists pm, cm, o, f, fp. reflexivity. Qed.

Lemma is_member_erase e : is_member (erase e) = is_member e.
Proof. destruct e; reflexivity. Qed.

Lemma desugar_call_member p col pm cm o f fp args :
  desugar (ECall p col (EMember pm cm o f fp) args) =
  do o' <- desugar o; do args' <- mapM desugar args; Some (ECall p col (EIdent fp f) (o' :: args')).
Proof. reflexivity. Qed.

Lemma desugar_call_other p col c args : is_member c = false ->
  desugar (ECall p col c args) = do args' <- mapM desugar args; do c' <- desugar c; Some (ECall p col c' args').
Proof. destruct c; intros H; try reflexivity; discriminate H. Qed.

Lemma nmc_call_other p col c args : is_member c = false ->
  no_member_callee (ECall p col c args) = no_member_callee c && forallb no_member_callee args.
Proof. destruct c; intros H; try reflexivity; discriminate H. Qed.

Lemma nmc_call_member p col c args : is_member c = true -> no_member_callee (ECall p col c args) = false.
Proof. destruct c; intros H; try discriminate H; reflexivity. Qed.

(* ---- shapes ---- *)

Lemma shape_binary : forall p n np fx l r l' r',
  desugar l = Some l' -> desugar r = Some r' ->
  desugar (EBinary p n np fx l r) = Some (ECall p (p_col np) (EIdent np n) [l'; r']).
Proof. intros p n np fx l r l' r' Hl Hr. rewrite desugar_binary, Hl, Hr. reflexivity. Qed.

Lemma shape_unary : forall p n np x pre x',
  desugar x = Some x' -> desugar (EUnary p n np x pre) = Some (ECall p (p_col np) (EIdent np n) [x']).
Proof. intros p n np x pre x' Hx. rewrite desugar_unary, Hx. reflexivity. Qed.

Lemma shape_ternary : forall p np c a b c' a' b',
  desugar c = Some c' -> desugar a = Some a' -> desugar b = Some b' ->
  desugar (ETernary p [63%N] np c a b) = Some (ECall p (p_col np) (EIdent np IF_NAME) [c'; a'; b']).
Proof. intros p np c a b c' a' b' Hc Ha Hb. rewrite desugar_ternary, Hc, Ha, Hb. reflexivity. Qed.

Lemma shape_method : forall p col pm cm o f fp args o' args',
  desugar o = Some o' -> mapM desugar args = Some args' ->
  desugar (ECall p col (EMember pm cm o f fp) args) = Some (ECall p col (EIdent fp f) (o' :: args')).
Proof. intros p col pm cm o f fp args o' args' Ho Ha. rewrite desugar_call_member, Ho, Ha. reflexivity. Qed.

Lemma shape_group : forall p e, desugar (EGroup p e) = desugar e.
Proof. intros p e. reflexivity. Qed.

(* ---- only core forms remain ---- *)

Lemma desugar_core : forall e d, desugar e = Some d -> core_only d = true.
Proof.
  induction e as [p t|p t|p t|p b|p es IH|p kvs IH|p fs IH|p n|p c f args IHf IHargs|p c v i IHv IHi
                 |p c o n np IHo|p n np x pre IHx|p n np fx l r IHl IHr|p n np l m r IHl IHm IHr|p x IHx]
    using expr_ind'; intros d H.
  - cbn in H. injection H as <-. reflexivity.
  - cbn in H. injection H as <-. reflexivity.
  - cbn in H. injection H as <-. reflexivity.
  - cbn in H. injection H as <-. reflexivity.
  - rewrite desugar_list in H. apply option_map_Some in H as (es' & Ees & ->).
    cbn [core_only]. exact (mapM_forallb _ _ _ IH _ Ees).
  - rewrite desugar_map in H. apply option_map_Some in H as (kvs' & Ekvs & ->).
    cbn [core_only]. refine (mapM_forallb _ _ _ _ _ Ekvs).
    refine (Forall_impl _ _ IH). intros [k v] [IHk IHv] y Hy. cbn [fst snd] in IHk, IHv.
    unfold desugar_kv in Hy. cbn [fst snd] in Hy.
    apply bind_Some in Hy as (k' & Ek & Hy). apply bind_Some in Hy as (v' & Ev & Hy).
    injection Hy as <-. cbn [fst snd]. rewrite (IHk _ Ek), (IHv _ Ev). reflexivity.
  - rewrite desugar_obj in H. apply option_map_Some in H as (fs' & Efs & ->).
    cbn [core_only]. refine (mapM_forallb _ _ _ _ _ Efs).
    refine (Forall_impl _ _ IH). intros [k v] IHv y Hy. cbn [fst snd] in IHv.
    unfold desugar_fld in Hy. cbn [fst snd] in Hy.
    apply bind_Some in Hy as (v' & Ev & Hy).
    injection Hy as <-. cbn [fst snd]. exact (IHv _ Ev).
  - cbn in H. injection H as <-. reflexivity.
  - destruct (is_member f) eqn:Em.
    + apply is_member_inv in Em as (pm & cm & o & fn & fp & ->).
      rewrite desugar_call_member in H.
      apply bind_Some in H as (o' & Eo & H). apply bind_Some in H as (args' & Ea & H).
      injection H as <-.
      specialize (IHf (EMember pm cm o' fn fp)). rewrite desugar_member, Eo in IHf.
      specialize (IHf eq_refl). cbn [core_only] in IHf.
      cbn [core_only forallb]. rewrite IHf, (mapM_forallb _ _ _ IHargs _ Ea). reflexivity.
    + rewrite (desugar_call_other _ _ _ _ Em) in H.
      apply bind_Some in H as (args' & Ea & H). apply bind_Some in H as (c' & Ec & H).
      injection H as <-.
      cbn [core_only]. rewrite (IHf _ Ec), (mapM_forallb _ _ _ IHargs _ Ea). reflexivity.
  - rewrite desugar_sub in H.
    apply bind_Some in H as (v' & Ev & H). apply bind_Some in H as (i' & Ei & H).
    injection H as <-. cbn [core_only]. rewrite (IHv _ Ev), (IHi _ Ei). reflexivity.
  - rewrite desugar_member in H. apply bind_Some in H as (o' & Eo & H).
    injection H as <-. cbn [core_only]. exact (IHo _ Eo).
  - rewrite desugar_unary in H. apply bind_Some in H as (x' & Ex & H).
    injection H as <-. cbn [core_only forallb]. rewrite (IHx _ Ex). reflexivity.
  - rewrite desugar_binary in H.
    apply bind_Some in H as (l' & El & H). apply bind_Some in H as (r' & Er & H).
    injection H as <-. cbn [core_only forallb]. rewrite (IHl _ El), (IHr _ Er). reflexivity.
  - rewrite desugar_ternary in H. destruct (list_eqb n [63%N]); [|discriminate H].
    apply bind_Some in H as (l' & El & H). apply bind_Some in H as (m' & Em & H).
    apply bind_Some in H as (r' & Er & H).
    injection H as <-. cbn [core_only forallb]. rewrite (IHl _ El), (IHm _ Em), (IHr _ Er). reflexivity.
  - rewrite desugar_group in H. exact (IHx _ H).
Qed.

(* ---- erasing positions commutes with desugaring ---- *)

Lemma erase_commutes : forall e d, desugar e = Some d -> desugar (erase e) = Some (erase d).
Proof.
  induction e as [p t|p t|p t|p b|p es IH|p kvs IH|p fs IH|p n|p c f args IHf IHargs|p c v i IHv IHi
                 |p c o n np IHo|p n np x pre IHx|p n np fx l r IHl IHr|p n np l m r IHl IHm IHr|p x IHx]
    using expr_ind'; intros d H.
  - cbn in H. injection H as <-. reflexivity.
  - cbn in H. injection H as <-. reflexivity.
  - cbn in H. injection H as <-. reflexivity.
  - cbn in H. injection H as <-. reflexivity.
  - rewrite desugar_list in H. apply option_map_Some in H as (es' & Ees & ->).
    cbn [erase]. rewrite desugar_list, (mapM_map _ _ _ _ _ IH _ Ees). reflexivity.
  - rewrite desugar_map in H. apply option_map_Some in H as (kvs' & Ekvs & ->).
    cbn [erase]. rewrite desugar_map.
    assert (HF : Forall (fun x => forall y, desugar_kv x = Some y ->
                    desugar_kv (erase (fst x), erase (snd x)) = Some (erase (fst y), erase (snd y))) kvs).
    { refine (Forall_impl _ _ IH). intros [k v] [IHk IHv] y Hy. cbn [fst snd] in IHk, IHv.
      unfold desugar_kv in Hy |- *. cbn [fst snd] in Hy |- *.
      apply bind_Some in Hy as (k' & Ek & Hy). apply bind_Some in Hy as (v' & Ev & Hy).
      injection Hy as <-. cbn [fst snd]. rewrite (IHk _ Ek), (IHv _ Ev). reflexivity. }
    rewrite (mapM_map desugar_kv desugar_kv (fun kv => (erase (fst kv), erase (snd kv)))
                      (fun kv => (erase (fst kv), erase (snd kv))) kvs HF kvs' Ekvs). reflexivity.
  - rewrite desugar_obj in H. apply option_map_Some in H as (fs' & Efs & ->).
    cbn [erase]. rewrite desugar_obj.
    assert (HF : Forall (fun x => forall y, desugar_fld x = Some y ->
                    desugar_fld (fst x, erase (snd x)) = Some (fst y, erase (snd y))) fs).
    { refine (Forall_impl _ _ IH). intros [k v] IHv y Hy. cbn [fst snd] in IHv.
      unfold desugar_fld in Hy |- *. cbn [fst snd] in Hy |- *.
      apply bind_Some in Hy as (v' & Ev & Hy).
      injection Hy as <-. cbn [fst snd]. rewrite (IHv _ Ev). reflexivity. }
    rewrite (mapM_map desugar_fld desugar_fld (fun f => (fst f, erase (snd f)))
                      (fun f => (fst f, erase (snd f))) fs HF fs' Efs). reflexivity.
  - cbn in H. injection H as <-. reflexivity.
  - destruct (is_member f) eqn:Em.
    + apply is_member_inv in Em as (pm & cm & o & fn & fp & ->).
      rewrite desugar_call_member in H.
      apply bind_Some in H as (o' & Eo & H). apply bind_Some in H as (args' & Ea & H).
      injection H as <-.
      specialize (IHf (EMember pm cm o' fn fp)). rewrite desugar_member, Eo in IHf.
      specialize (IHf eq_refl). cbn [erase] in IHf. rewrite desugar_member in IHf.
      apply bind_Some in IHf as (o2 & Eo2 & IHf). injection IHf as ->.
      cbn [erase map]. rewrite desugar_call_member, Eo2, (mapM_map _ _ _ _ _ IHargs _ Ea). reflexivity.
    + rewrite (desugar_call_other _ _ _ _ Em) in H.
      apply bind_Some in H as (args' & Ea & H). apply bind_Some in H as (c' & Ec & H).
      injection H as <-.
      cbn [erase]. rewrite desugar_call_other by (rewrite is_member_erase; exact Em).
      rewrite (mapM_map _ _ _ _ _ IHargs _ Ea), (IHf _ Ec). reflexivity.
  - rewrite desugar_sub in H.
    apply bind_Some in H as (v' & Ev & H). apply bind_Some in H as (i' & Ei & H).
    injection H as <-. cbn [erase]. rewrite desugar_sub, (IHv _ Ev), (IHi _ Ei). reflexivity.
  - rewrite desugar_member in H. apply bind_Some in H as (o' & Eo & H).
    injection H as <-. cbn [erase]. rewrite desugar_member, (IHo _ Eo). reflexivity.
  - rewrite desugar_unary in H. apply bind_Some in H as (x' & Ex & H).
    injection H as <-. cbn [erase map]. rewrite desugar_unary, (IHx _ Ex). reflexivity.
  - rewrite desugar_binary in H.
    apply bind_Some in H as (l' & El & H). apply bind_Some in H as (r' & Er & H).
    injection H as <-. cbn [erase map]. rewrite desugar_binary, (IHl _ El), (IHr _ Er). reflexivity.
  - rewrite desugar_ternary in H. destruct (list_eqb n [63%N]) eqn:En; [|discriminate H].
    apply bind_Some in H as (l' & El & H). apply bind_Some in H as (m' & Em & H).
    apply bind_Some in H as (r' & Er & H).
    injection H as <-. cbn [erase map].
    rewrite desugar_ternary, En, (IHl _ El), (IHm _ Em), (IHr _ Er). reflexivity.
  - rewrite desugar_group in H. cbn [erase]. rewrite desugar_group. exact (IHx _ H).
Qed.

(* ---- idempotence ---- *)

Lemma idempotent_partial : forall d, core_only d = true -> no_member_callee d = true -> desugar d = Some d.
Proof.
  induction d as [p t|p t|p t|p b|p es IH|p kvs IH|p fs IH|p n|p c f args IHf IHargs|p c v i IHv IHi
                 |p c o n np IHo|p n np x pre IHx|p n np fx l r IHl IHr|p n np l m r IHl IHm IHr|p x IHx]
    using expr_ind'; intros Hc Hn; try reflexivity; try discriminate Hc.
  - cbn [core_only] in Hc. cbn [no_member_callee] in Hn.
    rewrite desugar_list, (mapM_fix _ _ _ _ IH Hc Hn). reflexivity.
  - cbn [core_only] in Hc. cbn [no_member_callee] in Hn.
    rewrite desugar_map.
    rewrite (mapM_fix desugar_kv (fun kv => core_only (fst kv) && core_only (snd kv))
                      (fun kv => no_member_callee (fst kv) && no_member_callee (snd kv)) kvs);
      [reflexivity| |exact Hc|exact Hn].
    refine (Forall_impl _ _ IH). intros [k v] [IHk IHv] H1 H2. cbn [fst snd] in *.
    apply andb_true_iff in H1 as [H1k H1v]. apply andb_true_iff in H2 as [H2k H2v].
    unfold desugar_kv. cbn [fst snd]. rewrite (IHk H1k H2k), (IHv H1v H2v). reflexivity.
  - cbn [core_only] in Hc. cbn [no_member_callee] in Hn.
    rewrite desugar_obj.
    rewrite (mapM_fix desugar_fld (fun f => core_only (snd f)) (fun f => no_member_callee (snd f)) fs);
      [reflexivity| |exact Hc|exact Hn].
    refine (Forall_impl _ _ IH). intros [k v] IHv H1 H2. cbn [fst snd] in *.
    unfold desugar_fld. cbn [fst snd]. rewrite (IHv H1 H2). reflexivity.
  - destruct (is_member f) eqn:Em.
    + rewrite (nmc_call_member _ _ _ _ Em) in Hn. discriminate Hn.
    + rewrite (nmc_call_other _ _ _ _ Em) in Hn. cbn [core_only] in Hc.
      apply andb_true_iff in Hc as [Hcf Hca]. apply andb_true_iff in Hn as [Hnf Hna].
      rewrite (desugar_call_other _ _ _ _ Em), (mapM_fix _ _ _ _ IHargs Hca Hna), (IHf Hcf Hnf). reflexivity.
  - cbn [core_only] in Hc. cbn [no_member_callee] in Hn.
    apply andb_true_iff in Hc as [Hcv Hci]. apply andb_true_iff in Hn as [Hnv Hni].
    rewrite desugar_sub, (IHv Hcv Hnv), (IHi Hci Hni). reflexivity.
  - cbn [core_only] in Hc. cbn [no_member_callee] in Hn.
    rewrite desugar_member, (IHo Hc Hn). reflexivity.
Qed.

Lemma idempotent_refuted : exists e d d2,
  desugar e = Some d /\ desugar d = Some d2 /\ d2 <> d.
Proof.
  pose (p := p0).
  exists (ECall p 0 (EGroup p (EMember p 0 (EIdent p [111%N]) [102%N] p)) [ENum p [49%N]]).
  exists (ECall p 0 (EMember p 0 (EIdent p [111%N]) [102%N] p) [ENum p [49%N]]).
  exists (ECall p 0 (EIdent p [102%N]) [EIdent p [111%N]; ENum p [49%N]]).
  split; [reflexivity|]. split; [reflexivity|]. intros H. discriminate H.
Qed.

Print Assumptions desugar_core.
Print Assumptions shape_binary.
Print Assumptions shape_unary.
Print Assumptions shape_ternary.
Print Assumptions shape_method.
Print Assumptions shape_group.
Print Assumptions erase_commutes.
Print Assumptions idempotent_partial.
Print Assumptions idempotent_refuted.
