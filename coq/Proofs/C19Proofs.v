(* C19 proofs: in progress *)
